/-
C15 / C16 — preservation, part C: generic lemmas for the steps of a stopper; the beginning of a round;
`stop_threads`.
-/
import SteelVerif.C15.StepB
namespace SteelVerif.C15
set_option linter.unusedSimpArgs false
set_option linter.unusedVariables false

/-- Assemble the invariant of a state in which `a` is the stopper. -/
theorem inv_stop {s' : State} {a : Tid} {tha' : Thread}
    (ha' : s'.threads[a]? = some tha')
    (hst : s'.stopper = some a)
    (hself : TPself s'.ver (decide (s'.hlock = some a)) s'.hostUsed s'.fix tha')
    (hacs : isAcc tha'.pc a = false)
    (hoth : ∀ u thu', u ≠ a → s'.threads[u]? = some thu' → TPcore (proj s' u) thu')
    (htl : s'.tlock = if holdsT tha'.pc = true then some a else none)
    (hlk : ∀ x, s'.hlock = some x → x < s'.threads.length) : Inv s' := by
  have hspc : s'.spc = tha'.pc := spc_of_stopper hst ha'
  refine ⟨?_, ?_, ?_, hlk, ?_⟩
  · intro u thu hu
    by_cases hua : u = a
    · subst hua
      rw [ha'] at hu; cases hu
      exact ⟨fun _ => hself, fun hn => absurd hst hn⟩
    · refine ⟨fun hs => ?_, fun _ => hoth u thu hua hu⟩
      rw [hst] at hs; exact absurd (Option.some.inj hs).symm hua
  · intro b hb; rw [hst] at hb; cases hb; exact lt_of_get ha'
  · rw [hspc, hst]; exact htl
  · intro b hb; rw [hst] at hb; cases hb; rw [hspc]; exact hacs

/-- A thread at a stopper pc is the stopper. -/
theorem stopper_of_pc {s : State} (h : Inv s) {t : Tid} {th : Thread}
    (hth : s.threads[t]? = some th) (hp : th.pc.isStopper = true) : s.stopper = some t := by
  by_cases hs : s.stopper = some t
  · exact hs
  · have := ((h.thr t th hth).2 hs).nst
    rw [hp] at this; cases this

/-- The pieces of `proj`. -/
theorem proj_eq (s : State) (u : Tid) :
    proj s u = { active := s.stopper.isSome, cov := covered s.spc u, accd := isAcc s.spc u,
                 bu := beforeUnpark s.spc u, exp := expEnv s.spc u s.ver,
                 hl := decide (s.hlock = some u), host := s.hostUsed, fx := s.fix } := rfl

/-- Move a thread's invariant to a projection that agrees where it matters. -/
theorem core_of_eq {pr pr' : Proj} {th : Thread} (h : TPcore pr th)
    (e1 : pr'.active = pr.active) (e2 : pr'.cov = pr.cov) (e3 : pr'.accd = pr.accd)
    (e4 : pr'.bu = pr.bu) (e5 : th.pc ≠ .done → pr'.exp = pr.exp) (e6 : pr'.hl = pr.hl)
    (e7 : pr'.host = pr.host) (e8 : pr'.fx = pr.fx) : TPcore pr' th := by
  obtain ⟨h1, h2, h3, h4, h5, h6, h7, h8, h9, h10⟩ := h
  refine ⟨h1, h2, ?_, ?_, ?_, ?_, ?_, ?_, ?_, ?_⟩
  · rw [e3]; exact h3
  · rw [e3, e2]; exact h4
  · rw [e1]; exact h5
  · rw [e2]; exact h6
  · intro hd; rw [e5 hd]; exact h7 hd
  · rw [e8, e6]; exact h8
  · rw [e7, e2, e4]; exact h9
  · rw [e2, e4, e1]; exact h10

/-! ## The beginning of a round -/

theorem case_stopBegin {s : State} {t : Tid} {th : Thread} (o : Op) (h : Inv s)
    (hth : s.threads[t]? = some th)
    (hpc : (th.pc = .allocd ∧ o = .gc) ∨ (th.pc = .envReady ∧ o = .env))
    (hg : s.stopper = none) (hreg : s.allReg = true) (hhm : s.noHostMid = true)
    (s' : State) (hs : stopBegin s t th o = some s') : Inv s' := by
  simp only [stopBegin] at hs
  split at hs
  · cases hs
  · cases hs
    have hcore := (h.thr t th hth).2 (by simp [hg])
    have hspc : s.spc = .run := spc_none hg
    have hctx : th.ctx = false := by
      have := hcore.ctx
      rcases hpc with ⟨hp, _⟩ | ⟨hp, _⟩ <;> simpa [hp, PC.published] using this
    have hth0 : ({ s with tlock := some t, stopper := some t } : State).threads[t]? = some th := hth
    have hget := put_get_same hth0
      { th with paused := true, st := .pausedAtSafepoint, pc := .stopP o 0 }
    refine inv_stop (a := t) hget rfl ?_ (by simp [isAcc]) ?_ ?_ ?_
    · show TPself s.ver (decide (s.hlock = some t)) s.hostUsed s.fix _
      refine ⟨by simp [PC.isStopper], hctx, ?_, ?_, ?_, ?_, ?_, ?_, ?_⟩
      · have := hcore.scn; simpa [proj_eq, hspc, isAcc] using this
      · show th.reg = true
        exact all_get (f := fun th => th.reg) hreg hth
      · show th.hostMid = false
        have := all_get (f := fun th => !th.hostMid) hhm hth; simpa using this
      · have := hcore.env (by rcases hpc with ⟨hp, _⟩ | ⟨hp, _⟩ <;> simp [hp])
        simpa [proj_eq, hspc, expEnv, ownEnv] using this
      · simp [heldReq]
      · have := hcore.hl
        rw [proj_eq] at this
        rcases hpc with ⟨hp, rfl⟩ | ⟨hp, rfl⟩
        · rw [hp] at this; simp only [holdsH] at this ⊢; simpa using this
        · rw [hp] at this; simp only [holdsH] at this ⊢; simpa using this
      · intro _; simp [ownPaused]
    · intro u thu' hut hu
      rw [put_get_other hut] at hu
      have hu : s.threads[u]? = some thu' := hu
      have hc := (h.thr u thu' hu).2 (by simp [hg])
      have hspc' : ({ s with tlock := some t, stopper := some t }.put t
          { th with paused := true, st := .pausedAtSafepoint, pc := .stopP o 0 }).spc = .stopP o 0 :=
        spc_of_stopper (s := { s with tlock := some t, stopper := some t }.put t _) rfl hget
      obtain ⟨h1, h2, h3, h4, h5, h6, h7, h8, h9, h10⟩ := hc
      have hr := all_get (f := fun th => th.reg) hreg hu
      have hm := all_get (f := fun th => !th.hostMid) hhm hu
      rw [proj_eq] at h3 h4 h5 h6 h7 h8 h9 h10
      rw [proj_eq, hspc']
      simp only [hspc] at h3 h4 h5 h6 h7 h8 h9 h10
      refine ⟨h1, h2, ?_, ?_, ?_, ?_, ?_, ?_, ?_, ?_⟩
      · simpa [isAcc] using h3
      · simp [isAcc]
      · intro _; exact ⟨hr, by simpa using hm⟩
      · simp [covered]
      · simpa [expEnv] using h7
      · exact h8
      · intro hh
        have := h9 hh
        simp only [covered] at this ⊢
        refine ⟨by simpa using this.1, this.2.1, this.2.2.1, fun _ _ => by simp [beforeUnpark]⟩
      · simp [covered]
    · simp [holdsT]
    · intro x hx; rw [put_len]; exact h.hlk x hx

/-! ## Generic lemmas for a step of the stopper -/

/-- What thread `u` sees of a stopper at pc `p` (same as `proj`, with the stopper's pc given). -/
def projAt (s : State) (p : PC) (ver : Nat) (u : Tid) : Proj :=
  { active := true, cov := covered p u, accd := isAcc p u, bu := beforeUnpark p u,
    exp := expEnv p u ver, hl := decide (s.hlock = some u), host := s.hostUsed, fx := s.fix }

theorem proj_at {s : State} {a : Tid} {tha : Thread} (hs : s.stopper = some a)
    (hth : s.threads[a]? = some tha) (u : Tid) : proj s u = projAt s tha.pc s.ver u := by
  rw [proj_eq, spc_of_stopper hs hth]; simp [projAt, hs]

/-- The stopper `a` replaces its own record (and possibly `ver`, `tlock`). -/
theorem inv_stop_self {s s1 : State} {a : Tid} {tha tha' : Thread} (h : Inv s)
    (hs : s.stopper = some a) (hth : s.threads[a]? = some tha)
    (e : s1.threads = s.threads ∧ s1.stopper = s.stopper ∧ s1.hlock = s.hlock ∧
         s1.hostUsed = s.hostUsed ∧ s1.fix = s.fix)
    (hself : TPself s1.ver (decide (s.hlock = some a)) s.hostUsed s.fix tha')
    (hacs : isAcc tha'.pc a = false)
    (hp : ∀ u thu, u ≠ a → s.threads[u]? = some thu →
      covered tha'.pc u = covered tha.pc u ∧ isAcc tha'.pc u = isAcc tha.pc u ∧
      beforeUnpark tha'.pc u = beforeUnpark tha.pc u ∧
      (thu.pc ≠ .done → expEnv tha'.pc u s1.ver = expEnv tha.pc u s.ver))
    (htl : s1.tlock = if holdsT tha'.pc = true then some a else none) : Inv (s1.put a tha') := by
  obtain ⟨e1, e2, e3, e4, e5⟩ := e
  have hth1 : s1.threads[a]? = some tha := by rw [e1]; exact hth
  have hget := put_get_same hth1 tha'
  have hst' : (s1.put a tha').stopper = some a := by simp [e2, hs]
  refine inv_stop hget hst' ?_ hacs ?_ (by simpa using htl) ?_
  · simp only [put_ver, put_hlock, put_hostUsed, put_fix, e3, e4, e5]; exact hself
  · intro u thu' hua hu
    rw [put_get_other hua, e1] at hu
    have hc := (h.thr u thu' hu).2 (by rw [hs]; intro hh; exact hua (Option.some.inj hh).symm)
    rw [proj_at hs hth] at hc
    rw [proj_at hst' hget]
    obtain ⟨p1, p2, p3, p4⟩ := hp u thu' hua hu
    refine core_of_eq hc rfl ?_ ?_ ?_ ?_ ?_ ?_ ?_
    · exact p1
    · exact p2
    · exact p3
    · intro hd; simpa [projAt] using p4 hd
    · simp [projAt, e3]
    · simp [projAt, e4]
    · simp [projAt, e5]
  · intro x hx; simp only [put_hlock, put_len, e3, e1] at hx ⊢; exact h.hlk x hx

/-- The stopper `a` replaces its own record and the record of a target `i ≠ a`. -/
theorem inv_stop_tgt {s : State} {a i : Tid} {tha tha' x x' : Thread} (h : Inv s)
    (hs : s.stopper = some a) (hth : s.threads[a]? = some tha) (hia : i ≠ a)
    (hx : s.threads[i]? = some x)
    (hself : TPself s.ver (decide (s.hlock = some a)) s.hostUsed s.fix tha')
    (hacs : isAcc tha'.pc a = false)
    (hp : ∀ u thu, u ≠ a → u ≠ i → s.threads[u]? = some thu →
      covered tha'.pc u = covered tha.pc u ∧ isAcc tha'.pc u = isAcc tha.pc u ∧
      beforeUnpark tha'.pc u = beforeUnpark tha.pc u ∧
      (thu.pc ≠ .done → expEnv tha'.pc u s.ver = expEnv tha.pc u s.ver))
    (htgt : TPcore (projAt s tha.pc s.ver i) x → TPcore (projAt s tha'.pc s.ver i) x')
    (htl : s.tlock = if holdsT tha'.pc = true then some a else none) :
    Inv ((s.put i x').put a tha') := by
  have hth1 : (s.put i x').threads[a]? = some tha := by rw [put_get_other (Ne.symm hia)]; exact hth
  have hget := put_get_same hth1 tha'
  have hst' : ((s.put i x').put a tha').stopper = some a := by simp [hs]
  refine inv_stop hget hst' ?_ hacs ?_ (by simpa using htl) ?_
  · exact hself
  · intro u thu' hua hu
    rw [put_get_other hua] at hu
    rw [proj_at hst' hget]
    by_cases hui : u = i
    · subst hui
      rw [put_get_same hx] at hu; cases hu
      have hc := (h.thr u x hx).2 (by rw [hs]; intro hh; exact hua (Option.some.inj hh).symm)
      rw [proj_at hs hth] at hc
      exact htgt hc
    · rw [put_get_other hui] at hu
      have hc := (h.thr u thu' hu).2 (by rw [hs]; intro hh; exact hua (Option.some.inj hh).symm)
      rw [proj_at hs hth] at hc
      obtain ⟨p1, p2, p3, p4⟩ := hp u thu' hua hui hu
      refine core_of_eq hc rfl ?_ ?_ ?_ ?_ ?_ ?_ ?_
      · exact p1
      · exact p2
      · exact p3
      · intro hd; simpa [projAt] using p4 hd
      · rfl
      · rfl
      · rfl
  · intro y hy; simp only [put_hlock, put_len] at hy ⊢; exact h.hlk y hy

end SteelVerif.C15
