/-
C15 / C16 — preservation, part A: every step of a thread that is not a stopper (except spawn,
registration, the host's interrupt and the beginning of a round).
-/
import SteelVerif.C15.Step
namespace SteelVerif.C15
set_option linter.unusedSimpArgs false
set_option linter.unusedVariables false

variable {s : State} {t : Tid} {th : Thread}

theorem case_poll (h : Inv s) (hth : s.threads[t]? = some th) (hpc : th.pc = .run) (s' : State)
    (hs : step s t .poll = some s') : Inv s' := by
  simp only [step, hth, hpc] at hs
  split at hs
  · cases hs
    exact inv_mut0 h hth (by simp [hpc, PC.isStopper]) (fun pr hp => core_poll hp hpc)
  · cases hs; exact h

theorem case_enter (a : Act) (k : Kind)
    (hak : (a = .callPrim ∧ k = .prim) ∨ (a = .alloc ∧ k = .alloc) ∨ (a = .setGlobal ∧ k = .gate))
    (h : Inv s) (hth : s.threads[t]? = some th) (hpc : th.pc = .run) (s' : State)
    (hs : step s t a = some s') : Inv s' := by
  rcases hak with ⟨rfl, rfl⟩ | ⟨rfl, rfl⟩ | ⟨rfl, rfl⟩ <;>
  · simp only [step, hth, hpc] at hs
    cases hs
    exact inv_mut0 h hth (by simp [hpc, PC.isStopper]) (fun pr hp => core_enter _ hp hpc)

theorem case_finish (h : Inv s) (hth : s.threads[t]? = some th) (hpc : th.pc = .run) (s' : State)
    (hs : step s t .finish = some s') : Inv s' := by
  simp only [step, hth, hpc] at hs
  cases hs
  exact inv_mut0 h hth (by simp [hpc, PC.isStopper]) (fun pr hp => core_finish hp (Or.inl hpc))

theorem case_sawPaused (h : Inv s) (hth : s.threads[t]? = some th) (hpc : th.pc = .sawPaused)
    (s' : State) (hs : step s t .step = some s') : Inv s' := by
  simp only [step, hth, hpc] at hs
  have hns : th.pc.isStopper = false := by simp [hpc, PC.isStopper]
  split at hs <;> cases hs
  · exact inv_mut0 h hth hns (fun pr hp => core_finish hp (Or.inr hpc))
  · exact inv_mut0 h hth hns (fun pr hp => core_saw _ hp hpc (Or.inl rfl))
  · exact inv_mut0 h hth hns (fun pr hp => core_saw _ hp hpc (Or.inr rfl))

theorem case_pubStore (h : Inv s) (hth : s.threads[t]? = some th) (hpc : th.pc = .pubStore)
    (s' : State) (hs : step s t .step = some s') : Inv s' := by
  simp only [step, hth, hpc] at hs
  cases hs
  exact inv_mut0 h hth (by simp [hpc, PC.isStopper]) (fun pr hp => core_pub hp hpc)

theorem case_inSafe (k : Kind) (h : Inv s) (hth : s.threads[t]? = some th) (hpc : th.pc = .inSafe k)
    (s' : State) (hs : step s t .step = some s') : Inv s' := by
  have hns : th.pc.isStopper = false := by simp [hpc, PC.isStopper]
  cases k with
  | prim =>
    simp only [step, hth, hpc] at hs
    cases hs
    exact inv_mut0 h hth hns (fun pr hp => core_primret hp hpc)
  | poll =>
    simp only [step, hth, hpc] at hs
    cases hs
    exact inv_mut0 h hth hns (fun pr hp => core_pollret hp hpc)
  | alloc =>
    simp only [step, hth, hpc] at hs
    split at hs
    · cases hs
    · rename_i hl
      cases hs
      have hl' : s.hlock = none := by cases hh : s.hlock <;> simp_all
      refine inv_mut_hl h hth hns (fun u hu => ?_) (fun y hy => ?_) (fun hp => ?_)
      · simp [hl']; exact fun e => hu e.symm
      · cases hy; exact lt_of_get hth
      · simpa using core_lock .alloc rfl hp hpc
  | gate =>
    simp only [step, hth, hpc] at hs
    split at hs
    · cases hs
    · rename_i hl
      cases hs
      have hl' : s.hlock = none := by cases hh : s.hlock <;> simp_all
      refine inv_mut_hl h hth hns (fun u hu => ?_) (fun y hy => ?_) (fun hp => ?_)
      · simp [hl']; exact fun e => hu e.symm
      · cases hy; exact lt_of_get hth
      · simpa using core_lock .gate rfl hp hpc

theorem case_exitCheck (k : Kind) (h : Inv s) (hth : s.threads[t]? = some th)
    (hpc : th.pc = .exitCheck k) (s' : State) (hs : step s t .step = some s') : Inv s' := by
  have hns : th.pc.isStopper = false := by simp [hpc, PC.isStopper]
  simp only [step, hth, hpc] at hs
  split at hs
  · rename_i hp
    cases hs
    exact inv_mut0 h hth hns (fun pr hq => core_exit_paused k hq hpc hp)
  · rename_i hp
    cases hs
    exact inv_mut0 h hth hns (fun pr hq => core_exit_free k hq hpc (by simpa using hp))

theorem case_intCheck (k : Kind) (h : Inv s) (hth : s.threads[t]? = some th)
    (hpc : th.pc = .intCheck k) (s' : State) (hs : step s t .step = some s') : Inv s' := by
  have hns : th.pc.isStopper = false := by simp [hpc, PC.isStopper]
  simp only [step, hth, hpc] at hs
  have := fun pr (hq : TPcore pr th) => core_int k hq hpc
  split at hs
  · rename_i hi
    cases hs
    exact inv_mut0 h hth hns (fun pr hq => by simpa [hi] using this pr hq)
  · rename_i hi
    cases hs
    exact inv_mut0 h hth hns (fun pr hq => by simpa [hi] using this pr hq)

theorem case_parking (k : Kind) (a : Act) (ha : a = .step ∨ a = .spurious) (h : Inv s)
    (hth : s.threads[t]? = some th) (hpc : th.pc = .parking k) (s' : State)
    (hs : step s t a = some s') : Inv s' := by
  have hns : th.pc.isStopper = false := by simp [hpc, PC.isStopper]
  rcases ha with rfl | rfl
  · simp only [step, hth, hpc] at hs
    split at hs
    · cases hs
      exact inv_mut0 h hth hns (fun pr hq => core_unpark k false hq hpc)
    · cases hs
  · simp only [step, hth, hpc] at hs
    cases hs
    have := fun pr (hq : TPcore pr th) => core_unpark k th.token hq hpc
    exact inv_mut0 h hth hns (fun pr hq => by simpa using this pr hq)

theorem case_retract (k : Kind) (h : Inv s) (hth : s.threads[t]? = some th)
    (hpc : th.pc = .retract k) (s' : State) (hs : step s t .step = some s') : Inv s' := by
  have hns : th.pc.isStopper = false := by simp [hpc, PC.isStopper]
  cases k with
  | poll =>
    simp only [step, hth, hpc] at hs; cases hs
    exact inv_mut0 h hth hns (fun pr hq => core_retract .poll hq hpc .run (Or.inl ⟨rfl, rfl⟩))
  | prim =>
    simp only [step, hth, hpc] at hs; cases hs
    exact inv_mut0 h hth hns (fun pr hq => core_retract .prim hq hpc .run (Or.inr (Or.inl ⟨rfl, rfl⟩)))
  | alloc =>
    simp only [step, hth, hpc] at hs; cases hs
    exact inv_mut0 h hth hns
      (fun pr hq => core_retract .alloc hq hpc .allocd (Or.inr (Or.inr ⟨rfl, rfl⟩)))
  | gate =>
    simp only [step, hth, hpc] at hs; cases hs
    have hnst := not_stopper_of_pc h hth hns
    have hl : s.hlock = some t := by
      have := ((h.thr t th hth).2 hnst).hl
      simpa [hpc, holdsH, isHeapKind, proj] using this
    refine inv_mut_hl h hth hns (fun u hu => ?_) (fun y hy => ?_) (fun hq => ?_)
    · by_cases hf : s.fix = true
      · simp [hf]
      · have : ¬ (some t = some u) := by simpa using fun e => hu e.symm
        simp [hf, hl, this]
    · by_cases hf : s.fix = true
      · simp [hf] at hy; exact h.hlk y hy
      · simp [hf] at hy
    · have e := core_retract_gate hq hpc
      have hfx : decide ((if s.fix = true then s.hlock else none) = some t) = (proj s t).fx := by
        by_cases hf : s.fix = true <;> simp [hf, hl, proj]
      rw [hfx]; exact e

theorem case_allocd (h : Inv s) (hth : s.threads[t]? = some th) (hpc : th.pc = .allocd)
    (s' : State) (hs : step s t .step = some s') : Inv s' := by
  have hns : th.pc.isStopper = false := by simp [hpc, PC.isStopper]
  simp only [step, hth, hpc] at hs; cases hs
  refine inv_mut_hl h hth hns (fun u hu => ?_) (fun y hy => by cases hy) (fun hq => ?_)
  · have hnst := not_stopper_of_pc h hth hns
    have hl : s.hlock = some t := by
      have := ((h.thr t th hth).2 hnst).hl
      simpa [hpc, holdsH, isHeapKind, proj] using this
    have : ¬ (some t = some u) := by simpa using fun e => hu e.symm
    simp [hl, this]
  · simpa using core_unlock hq hpc

end SteelVerif.C15
