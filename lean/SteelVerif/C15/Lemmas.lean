/-
C15 / C16 — the invariant of the guarded transition system (definitions and generic lemmas).
The property theorems are in Props.lean.
-/
import SteelVerif.C15.Model
namespace SteelVerif.C15

/-! ## What the stopper's program counter means for thread `u` -/

/-- The round has stored `paused[u] := true` and has not cleared it yet. -/
def covered : PC → Tid → Bool
  | .stopP _ i, u => decide (u < i)
  | .stopS _ i, u => decide (u ≤ i)
  | .scanLock .., _ | .spin .., _ | .acc .., _ | .resLock _, _ => true
  | .resP _ i, u => decide (i ≤ u)
  | .resS _ i, u | .resU _ i, u => decide (i < u)
  | _, _ => false

/-- The stopper is between `scanBegin u` and `scanEnd u`. -/
def isAcc : PC → Tid → Bool
  | .acc _ _ i, u => decide (i = u)
  | _, _ => false

/-- The `unpark()` of thread `u` by this round is still to come. -/
def beforeUnpark : PC → Tid → Bool
  | .stopP .., _ | .stopS .., _ | .scanLock .., _ | .spin .., _ | .acc .., _ | .resLock _, _ => true
  | .resP _ i, u | .resS _ i, u | .resU _ i, u => decide (i ≤ u)
  | _, _ => false

/-- The global table a live thread `u` (not the stopper) holds, given the stopper's pc. -/
def expEnv : PC → Tid → Nat → Option Nat
  | .spin .env 0 i, u, ver | .acc .env 0 i, u, ver => if u < i then none else some ver
  | .scanLock .env (_ + 1), _, _ => none
  | .spin .env (_ + 1) i, u, ver | .acc .env (_ + 1) i, u, ver => if u < i then some ver else none
  | _, _, ver => some ver

/-- The `threads` mutex is held at this pc. -/
def holdsT : PC → Bool
  | .stopP .. | .stopS .. | .spin .. | .acc .. | .resP .. | .resS .. | .resU .. => true
  | _ => false

def isHeapKind : Kind → Bool
  | .alloc | .gate => true
  | _ => false

/-- The heap mutex is held at this pc (`fx`: the variant in which `with_locked_env` keeps it). -/
def holdsH (fx : Bool) : PC → Bool
  | .exitCheck k | .intCheck k | .parking k | .retract k => isHeapKind k
  | .allocd => true
  | .envReady => fx
  | .stopP o _ | .stopS o _ | .scanLock o _ | .spin o _ _ | .acc o _ _ | .resLock o
  | .resP o _ | .resS o _ | .resU o _ => decide (o = .gc) || fx
  | _ => false

/-- The stopper's own `paused` flag. -/
def ownPaused : PC → Bool
  | .stopP .. | .stopS .. | .scanLock .. | .spin .. | .acc .. | .resLock _ => true
  | _ => false

/-- The stopper's own global table. -/
def ownEnv : PC → Nat → Option Nat
  | .spin .env _ _, _ | .acc .env _ _, _ | .scanLock .env (_ + 1), _ | .resLock .env, _ => none
  | _, ver => some ver

/-- The stopper holds the drained / updated table in a local. -/
def heldReq : PC → Bool
  | .spin .env _ _ | .acc .env _ _ | .scanLock .env (_ + 1) | .resLock .env => true
  | _ => false

/-- In the exit loop after `paused` was seen set: will park (again) unless a token arrives. -/
def PC.waiting : PC → Bool
  | .intCheck _ | .parking _ => true
  | _ => false

/-- The stopper's pc (`.run` when no round is in progress). -/
def State.spc (s : State) : PC :=
  match s.stopper with
  | none => .run
  | some a => match s.threads[a]? with
    | some th => th.pc
    | none => .run

/-- Everything the per-thread invariant of `u` reads from the rest of the state. -/
@[ext] structure Proj where
  active : Bool
  cov : Bool
  accd : Bool
  bu : Bool
  exp : Option Nat
  hl : Bool
  host : Bool
  fx : Bool

def proj (s : State) (u : Tid) : Proj :=
  { active := s.stopper.isSome, cov := covered s.spc u, accd := isAcc s.spc u,
    bu := beforeUnpark s.spc u, exp := expEnv s.spc u s.ver, hl := decide (s.hlock = some u),
    host := s.hostUsed, fx := s.fix }

/-- Invariant of a thread that is not the stopper. -/
structure TPcore (pr : Proj) (th : Thread) : Prop where
  ctx : th.ctx = th.pc.published
  nst : th.pc.isStopper = false
  scn : th.scanned = (if pr.accd then 1 else 0)
  acc : pr.accd = true → th.ctx = true ∧ pr.cov = true
  act : pr.active = true → th.reg = true ∧ th.hostMid = false
  cov : pr.cov = true → th.paused = true ∧ th.st ≠ .interrupted ∧ th.pc.leaving = false
  env : th.pc ≠ .done → th.env = pr.exp
  hl : holdsH pr.fx th.pc = pr.hl
  nh : pr.host = false → th.paused = pr.cov ∧ th.st ≠ .interrupted ∧ th.hostMid = false ∧
        (th.pc.waiting = true → th.token = false → pr.bu = true)
  wf : pr.cov = true → pr.bu = true ∧ pr.active = true

/-- Invariant of the stopper's own record. -/
structure TPself (ver : Nat) (hl host fx : Bool) (th : Thread) : Prop where
  st : th.pc.isStopper = true
  ctx : th.ctx = false
  scn : th.scanned = 0
  reg : th.reg = true
  hm : th.hostMid = false
  env : th.env = ownEnv th.pc ver
  held : heldReq th.pc = true → th.held = some ver
  hl : holdsH fx th.pc = hl
  nh : host = false → th.paused = ownPaused th.pc ∧ th.st ≠ .interrupted

structure Inv (s : State) : Prop where
  thr : ∀ (u : Tid) (th : Thread), s.threads[u]? = some th →
    (s.stopper = some u → TPself s.ver (decide (s.hlock = some u)) s.hostUsed s.fix th) ∧
    (s.stopper ≠ some u → TPcore (proj s u) th)
  stp : ∀ a, s.stopper = some a → a < s.threads.length
  tl : s.tlock = (if holdsT s.spc then s.stopper else none)
  hlk : ∀ x, s.hlock = some x → x < s.threads.length
  acs : ∀ a, s.stopper = some a → isAcc s.spc a = false

/-! ## Lookups -/

theorem put_get_same {s : State} {t : Tid} {th : Thread} (h : s.threads[t]? = some th) (x : Thread) :
    (s.put t x).threads[t]? = some x := by
  have : t < s.threads.length := by
    rcases Nat.lt_or_ge t s.threads.length with h1 | h1
    · exact h1
    · simp [List.getElem?_eq_none h1] at h
  simp [State.put, this]

theorem put_get_other {s : State} {t u : Tid} {x : Thread} (h : u ≠ t) :
    (s.put t x).threads[u]? = s.threads[u]? := by
  simp [State.put, List.getElem?_set]; intro h'; exact absurd h'.symm h

theorem lt_of_get {l : List Thread} {t : Nat} {th : Thread} (h : l[t]? = some th) : t < l.length := by
  rcases Nat.lt_or_ge t l.length with h1 | h1
  · exact h1
  · simp [List.getElem?_eq_none h1] at h

section fields
variable (s : State) (t : Tid) (x : Thread)
@[simp] theorem put_tlock : (s.put t x).tlock = s.tlock := rfl
@[simp] theorem put_hlock : (s.put t x).hlock = s.hlock := rfl
@[simp] theorem put_ver : (s.put t x).ver = s.ver := rfl
@[simp] theorem put_stopper : (s.put t x).stopper = s.stopper := rfl
@[simp] theorem put_hostUsed : (s.put t x).hostUsed = s.hostUsed := rfl
@[simp] theorem put_fix : (s.put t x).fix = s.fix := rfl
@[simp] theorem put_len : (s.put t x).threads.length = s.threads.length := by simp [State.put]
end fields

/-- The stopper's pc after thread `t` was replaced. -/
theorem spc_put {s : State} {t : Tid} {th x : Thread} (hth : s.threads[t]? = some th) :
    (s.put t x).spc = if s.stopper = some t then x.pc else s.spc := by
  unfold State.spc
  cases hs : s.stopper with
  | none => simp [hs]
  | some a =>
    simp only [put_stopper, hs]
    by_cases hat : a = t
    · subst hat; simp [put_get_same hth]
    · rw [put_get_other hat]
      have : ¬ (some a = some t) := by simpa using hat
      simp [this]

theorem spc_of_stopper {s : State} {a : Tid} {th : Thread} (hs : s.stopper = some a)
    (hth : s.threads[a]? = some th) : s.spc = th.pc := by
  simp [State.spc, hs, hth]

theorem spc_none {s : State} (hs : s.stopper = none) : s.spc = .run := by
  simp [State.spc, hs]

theorem inv_init : Inv init := by
  refine ⟨?_, ?_, ?_, ?_, ?_⟩
  · intro u th hu
    have : u = 0 ∧ th = { reg := true } := by
      cases u with
      | zero => simp [init] at hu; exact ⟨rfl, hu.symm⟩
      | succ n => simp [init] at hu
    obtain ⟨rfl, rfl⟩ := this
    refine ⟨by simp [init], fun _ => ?_⟩
    refine ⟨rfl, rfl, ?_, ?_, ?_, ?_, ?_, ?_, ?_, ?_⟩ <;>
      simp [proj, init, State.spc, isAcc, covered, expEnv, holdsH, beforeUnpark, PC.waiting]
  · intro a h; simp [init] at h
  · simp [init, State.spc, holdsT]
  · intro x h; simp [init] at h
  · intro a h; simp [init] at h

end SteelVerif.C15
