/-
C15 (repaired model MR) — every step preserves the invariant: steps of threads that are not stoppers.
-/
import SteelVerif.C15.LemmasR
namespace SteelVerif.C15.R
set_option linter.unusedSimpArgs false
set_option linter.unusedVariables false

/-- Only the record of `t` changes, and the pc of the heap-lock holder stays what it was. -/
theorem inv_local {s : State} (h : Inv s) {t : Nat} (ht : t < s.n) {x : Thread}
    (hx : TP s.spc s.ver (s.hlock == some t) s.n t x)
    (hpc : s.hlock = some t → x.pc = (s.th t).pc) : Inv (s.put t x) := by
  have hspc : (s.put t x).spc = s.spc := by
    unfold State.spc
    simp only [put_hlock]
    cases ha : s.hlock with
    | none => rfl
    | some a =>
      simp only []
      by_cases hat : a = t
      · subst hat; rw [put_th_same]; exact hpc ha
      · rw [put_th_other hat]
  refine ⟨fun u hu => ?_, ?_, ?_⟩
  · simp only [put_n] at hu
    rw [hspc]
    simp only [put_ver, put_hlock, put_n]
    by_cases hut : u = t
    · subst hut; rw [put_th_same]; exact hx
    · rw [put_th_other hut]; exact h.thr u hu
  · rw [hspc]; exact h.tl
  · exact h.hlk

macro "tp_tac" : tactic =>
  `(tactic| (
    refine ⟨?_, ?_, ?_, ?_, ?_, ?_, ?_, ?_, ?_, ?_, ?_, ?_, ?_, ?_, ?_, ?_⟩ <;>
    simp_all [PC.published, PC.isStopper, PC.safe, PC.bogus, holdsH, holdsKind, heldReq, isHeapKind, leavePC, child]))

/-- A record-level change that keeps the pc (the host's `interrupt()` / `resume()`). -/
theorem tp_intr {p : PC} {ver : Nat} {hl : Bool} {n : Nat} {u : Nat} {th : Thread} (b : Bool)
    (h : TP p ver hl n u th) : TP p ver hl n u { th with intr := b } := by
  obtain ⟨h1, h2, h3, h4, h5, h6, h7, h8, h9, h10, h11, h12, h13, h14, h15, h16⟩ := h
  exact ⟨h1, h2, h3, h4, h5, h6, h7, h8, h9, h10, h11, h12, h13, h14, h15, h16⟩

/-- A thread at `run` moves to a pc that holds nothing and is not a stopper pc. -/
theorem tp_from_run {p : PC} {ver : Nat} {hl : Bool} {n : Nat} {u : Nat} {th : Thread}
    (h : TP p ver hl n u th) (hpc : th.pc = .run) (pc' : PC) (c : Bool)
    (hc : (pc' = .done ∧ c = false) ∨ (pc' = .pubStore ∧ c = false) ∨
      (∃ k, pc' = .inSafe k ∧ c = true ∧ (k = .prim ∨ k = .alloc ∨ k = .gate ∨ k = .spawnH))) :
    TP p ver hl n u { th with ctx := c, pc := pc' } := by
  obtain ⟨h1, h2, h3, h4, h5, h6, h7, h8, h9, h10, h11, h12, h13, h14, h15, h16⟩ := h
  have hna : isAcc p u = false := by
    cases ha : isAcc p u
    · rfl
    · have := h11 (by simp [hpc, PC.isStopper]) ha; simp [hpc, PC.safe] at this
  rcases hc with ⟨rfl, rfl⟩ | ⟨rfl, rfl⟩ | ⟨k, rfl, rfl, hk⟩
  · tp_tac
  · tp_tac
  · rcases hk with rfl | rfl | rfl | rfl <;> tp_tac


theorem tp_run_to {p : PC} {ver : Nat} {hl : Bool} {n : Nat} {u : Nat} {th : Thread}
    (h : TP p ver hl n u th) (hpc : th.pc = .run) (pc' : PC) (hc : pc' = .done ∨ pc' = .pubStore) :
    TP p ver hl n u { th with pc := pc' } := by
  obtain ⟨h1, h2, h3, h4, h5, h6, h7, h8, h9, h10, h11, h12, h13, h14, h15, h16⟩ := h
  have hna : isAcc p u = false := by
    cases ha : isAcc p u
    · rfl
    · have := h11 (by simp [hpc, PC.isStopper]) ha; simp [hpc, PC.safe] at this
  rcases hc with rfl | rfl <;> tp_tac

/-! ## The holder's pc changes from `p` to `p'` without any effect on what thread `u` reads from it -/

structure Same (p p' : PC) (u : Nat) (ver : Nat) : Prop where
  acc : isAcc p' u = isAcc p u
  cov : covered p' u = covered p u
  env : expEnv p' u ver = expEnv p u ver
  ch : child p' = child p
  bu : bu p' u = bu p u

theorem Same.rfl' (p : PC) (u : Nat) (ver : Nat) : Same p p u ver := ⟨rfl, rfl, rfl, rfl, rfl⟩

/-- Not a stopper pc and no child in flight. -/
def idle (p : PC) : Bool := !p.isStopper && (child p).isNone

theorem same_of_idle {p p' : PC} (h : idle p = true) (h' : idle p' = true) (u : Nat) (ver : Nat) :
    Same p p' u ver := by
  cases p <;> simp [idle, PC.isStopper, child] at h <;>
    cases p' <;> simp [idle, PC.isStopper, child] at h' <;>
      exact ⟨by simp [isAcc], by simp [covered], by simp [expEnv], by simp [child], by simp [bu]⟩

theorem idle_holdsT {p : PC} (h : idle p = true) : holdsT p = false := by
  cases p <;> simp [idle, PC.isStopper, child] at h <;> simp [holdsT]

theorem covered_bu (p : PC) (u : Nat) : covered p u = true → bu p u = true := by
  cases p <;> simp [covered, bu] <;> omega

theorem isAcc_covered (p : PC) (u : Nat) : isAcc p u = true → covered p u = true := by
  cases p <;> simp [covered, isAcc]

theorem TP.same {p p' : PC} {ver : Nat} {hl : Bool} {n : Nat} {u : Nat} {th : Thread}
    (h : TP p ver hl n u th) (sm : Same p p' u ver) : TP p' ver hl n u th := by
  obtain ⟨e1, e2, e3, e4, e5⟩ := sm
  obtain ⟨h1, h2, h3, h4, h5, h6, h7, h8, h9, h10, h11, h12, h13, h14, h15, h16⟩ := h
  refine ⟨h1, h2, h3, h4, h5, h6, h7, h8, h9, ?_, ?_, ?_, ?_, ?_, ?_, h16⟩
  · rw [e1]; exact h10
  · rw [e1]; exact h11
  · rw [e2]; exact h12
  · rw [e3]; exact h13
  · rw [e4]; exact h14
  · rw [e5]; exact h15

/-! Moves inside the safepoint protocol (no lock changes hands, the thread stays `safe`). -/

theorem tp_pub {p : PC} {ver : Nat} {hl : Bool} {n : Nat} {u : Nat} {th : Thread}
    (h : TP p ver hl n u th) (hp : th.pc = .pubStore) :
    TP p ver hl n u { th with ctx := true, pc := .exitCheck .poll } := by
  obtain ⟨h1, h2, h3, h4, h5, h6, h7, h8, h9, h10, h11, h12, h13, h14, h15, h16⟩ := h
  have ha : isAcc p u = false := by
    cases ha : isAcc p u
    · rfl
    · have := h11 (by simp [hp, PC.isStopper]) ha; simp [hp, PC.safe] at this
  tp_tac

theorem tp_primret {p : PC} {ver : Nat} {hl : Bool} {n : Nat} {u : Nat} {th : Thread}
    (h : TP p ver hl n u th) (hp : th.pc = .inSafe .prim) :
    TP p ver hl n u { th with pc := .exitCheck .prim } := by
  obtain ⟨h1, h2, h3, h4, h5, h6, h7, h8, h9, h10, h11, h12, h13, h14, h15, h16⟩ := h
  tp_tac

theorem tp_exit_stop {p : PC} {ver : Nat} {hl : Bool} {n : Nat} {u : Nat} {th : Thread} {k : Kind}
    (h : TP p ver hl n u th) (hp : th.pc = .exitCheck k) (hs : th.stop = true) :
    TP p ver hl n u { th with pc := .parking k } := by
  obtain ⟨h1, h2, h3, h4, h5, h6, h7, h8, h9, h10, h11, h12, h13, h14, h15, h16⟩ := h
  have hb : bu p u = true := by
    apply covered_bu
    rw [← h12 (by simp [hp, PC.isStopper])]; exact hs
  tp_tac

theorem tp_exit_free {p : PC} {ver : Nat} {hl : Bool} {n : Nat} {u : Nat} {th : Thread} {k : Kind}
    (h : TP p ver hl n u th) (hp : th.pc = .exitCheck k) :
    TP p ver hl n u { th with pc := .retract k } := by
  obtain ⟨h1, h2, h3, h4, h5, h6, h7, h8, h9, h10, h11, h12, h13, h14, h15, h16⟩ := h
  tp_tac

theorem tp_unpark {p : PC} {ver : Nat} {hl : Bool} {n : Nat} {u : Nat} {th : Thread} {k : Kind} (tk : Bool)
    (h : TP p ver hl n u th) (hp : th.pc = .parking k) :
    TP p ver hl n u { th with token := tk, pc := .exitCheck k } := by
  obtain ⟨h1, h2, h3, h4, h5, h6, h7, h8, h9, h10, h11, h12, h13, h14, h15, h16⟩ := h
  tp_tac

theorem tp_retract {p : PC} {ver : Nat} {hl : Bool} {n : Nat} {u : Nat} {th : Thread} {k : Kind}
    (h : TP p ver hl n u th) (hp : th.pc = .retract k) :
    TP p ver hl n u { th with ctx := false, pc := .recheck k } := by
  obtain ⟨h1, h2, h3, h4, h5, h6, h7, h8, h9, h10, h11, h12, h13, h14, h15, h16⟩ := h
  tp_tac

theorem tp_recheck_stop {p : PC} {ver : Nat} {hl : Bool} {n : Nat} {u : Nat} {th : Thread} {k : Kind}
    (h : TP p ver hl n u th) (hp : th.pc = .recheck k) :
    TP p ver hl n u { th with pc := .republish k } := by
  obtain ⟨h1, h2, h3, h4, h5, h6, h7, h8, h9, h10, h11, h12, h13, h14, h15, h16⟩ := h
  tp_tac

theorem tp_republish {p : PC} {ver : Nat} {hl : Bool} {n : Nat} {u : Nat} {th : Thread} {k : Kind}
    (h : TP p ver hl n u th) (hp : th.pc = .republish k) :
    TP p ver hl n u { th with ctx := true, pc := .exitCheck k } := by
  obtain ⟨h1, h2, h3, h4, h5, h6, h7, h8, h9, h10, h11, h12, h13, h14, h15, h16⟩ := h
  tp_tac

/-- The recheck read "no stop requested": the thread leaves the safepoint. -/
theorem tp_leave {p : PC} {ver : Nat} {n : Nat} {u : Nat} {th : Thread} {hl : Bool} {k : Kind}
    (h : TP p ver hl n u th) (hp : th.pc = .recheck k) (hs : th.stop = false) (hk : k ≠ .reg) :
    TP p ver hl n u { th with pc := leavePC k } := by
  obtain ⟨h1, h2, h3, h4, h5, h6, h7, h8, h9, h10, h11, h12, h13, h14, h15, h16⟩ := h
  have hc : covered p u = false := by rw [← h12 (by simp [hp, PC.isStopper])]; exact hs
  have ha : isAcc p u = false := by
    cases ha : isAcc p u
    · rfl
    · rw [isAcc_covered p u ha] at hc; cases hc
  cases k <;> first | (exact absurd rfl hk) | tp_tac


/-! ## State-level lemmas for steps of a thread that is not a stopper -/

theorem spc_put_holder {s : State} {t : Nat} {x : Thread} (hh : s.hlock = some t) :
    (s.put t x).spc = x.pc := by
  simp [State.spc, hh]

theorem idle_of_run : idle .run = true := by simp [idle, PC.isStopper, child]

/-- Thread `t` changes its own record only; if it holds the heap lock, its pc before and after is idle. -/
theorem inv_move {s : State} (h : Inv s) {t : Nat} (ht : t < s.n) {x : Thread}
    (hx : ∀ p, TP p s.ver (s.hlock == some t) s.n t (s.th t) →
      TP p s.ver (s.hlock == some t) s.n t x)
    (hid : s.hlock = some t → idle (s.th t).pc = true ∧ idle x.pc = true) : Inv (s.put t x) := by
  by_cases hh : s.hlock = some t
  · obtain ⟨hi, hi'⟩ := hid hh
    have hspc := spc_some hh
    refine ⟨fun u hu => ?_, ?_, ?_⟩
    · simp only [put_n] at hu
      rw [spc_put_holder hh]
      simp only [put_ver, put_hlock, put_n]
      by_cases hut : u = t
      · subst hut
        rw [put_th_same]
        exact (hx _ (by have := h.thr u hu; rw [hspc] at this; exact this)).same (same_of_idle hi hi' _ _)
      · rw [put_th_other hut]
        have := h.thr u hu
        rw [hspc] at this
        exact this.same (same_of_idle hi hi' _ _)
    · rw [spc_put_holder hh, idle_holdsT hi']
      have := h.tl
      rw [hspc, idle_holdsT hi] at this
      simpa using this
    · exact h.hlk
  · exact inv_local h ht (hx _ (h.thr t ht)) (fun e => absurd e hh)

/-- Thread `t` takes the free heap lock. -/
theorem inv_acquire {s : State} (h : Inv s) {t : Nat} (ht : t < s.n) {x : Thread} (hn : s.hlock = none)
    (hi : idle x.pc = true)
    (hx : TP .run s.ver false s.n t (s.th t) → TP .run s.ver true s.n t x) :
    Inv ({ s with hlock := some t }.put t x) := by
  have hspc := spc_none hn
  have hnew : ({ s with hlock := some t }.put t x).spc = x.pc := by simp [State.spc]
  refine ⟨fun u hu => ?_, ?_, ?_⟩
  · rw [hnew]
    by_cases hut : u = t
    · subst hut
      have := h.thr u hu
      rw [hspc, hn] at this
      simp only [put_th_same, put_ver, put_hlock, put_n]
      simpa using (hx (by simpa using this)).same (same_of_idle idle_of_run hi _ _)
    · have := h.thr u hu
      rw [hspc, hn] at this
      rw [put_th_other hut]
      simp only [put_ver, put_hlock, put_n]
      have e : (some t == some u) = false := by simp; exact fun e => hut e.symm
      rw [e]
      exact (by simpa using this : TP .run s.ver false s.n u (s.th u)).same (same_of_idle idle_of_run hi _ _)
  · rw [hnew, idle_holdsT hi]
    have := h.tl
    rw [hspc] at this
    simpa [holdsT] using this
  · intro a ha
    simp only [put_hlock, put_n] at ha ⊢
    cases ha; exact ht

/-- Thread `t` releases the heap lock (its pc was idle). -/
theorem inv_release {s : State} (h : Inv s) {t : Nat} (ht : t < s.n) {x : Thread} (hh : s.hlock = some t)
    (hi : idle (s.th t).pc = true)
    (hx : TP (s.th t).pc s.ver true s.n t (s.th t) → TP .run s.ver false s.n t x) :
    Inv ({ s with hlock := none }.put t x) := by
  have hspc := spc_some hh
  have hnew : ({ s with hlock := none }.put t x).spc = .run := by simp [State.spc]
  refine ⟨fun u hu => ?_, ?_, ?_⟩
  · rw [hnew]
    by_cases hut : u = t
    · subst hut
      have := h.thr u hu
      rw [hspc, hh] at this
      simp only [put_th_same, put_ver, put_hlock, put_n]
      simpa using hx (by simpa using this)
    · have := h.thr u hu
      rw [hspc, hh] at this
      rw [put_th_other hut]
      simp only [put_ver, put_hlock, put_n]
      have e : (some t == some u) = false := by simp; exact fun e => hut e.symm
      rw [e] at this
      simpa using this.same (same_of_idle hi idle_of_run _ _)
  · rw [hnew]
    have := h.tl
    rw [hspc, idle_holdsT hi] at this
    simpa [holdsT] using this
  · intro a ha; simp at ha

theorem tp_lock {p : PC} {ver : Nat} {n : Nat} {u : Nat} {th : Thread} {k : Kind}
    (h : TP p ver false n u th) (hp : th.pc = .inSafe k) (hk : isHeapKind k = true) :
    TP p ver true n u { th with pc := .exitCheck k } := by
  obtain ⟨h1, h2, h3, h4, h5, h6, h7, h8, h9, h10, h11, h12, h13, h14, h15, h16⟩ := h
  cases k <;> simp [isHeapKind] at hk <;> tp_tac

theorem tp_unlock {q : PC} {ver : Nat} {n : Nat} {u : Nat} {th : Thread}
    (h : TP q ver true n u th)
    (hp : (th.pc = .allocd ∧ q = .allocd) ∨ (th.pc = .recheck .reg ∧ q = .recheck .reg)) :
    TP .run ver false n u { th with pc := .run } := by
  obtain ⟨h1, h2, h3, h4, h5, h6, h7, h8, h9, h10, h11, h12, h13, h14, h15, h16⟩ := h
  rcases hp with ⟨hp, rfl⟩ | ⟨hp, rfl⟩ <;>
  · refine ⟨?_, ?_, ?_, ?_, ?_, ?_, ?_, ?_, ?_, ?_, ?_, ?_, ?_, ?_, ?_, ?_⟩ <;>
      simp_all [PC.published, PC.isStopper, PC.safe, PC.bogus, holdsH, holdsKind, heldReq, isAcc, covered, expEnv, child]

end SteelVerif.C15.R
