/-
C15 (repaired model MR) — every step preserves the invariant: steps of the heap-lock holder that other threads
can observe (spawn and registration, `stop_threads`, the scan, `resume_threads`).
-/
import SteelVerif.C15.StepR
namespace SteelVerif.C15.R
set_option linter.unusedSimpArgs false
set_option linter.unusedVariables false

theorem TP.frame' {p p' : PC} {ver ver' : Nat} {n n' : Nat} {u : Nat} {th : Thread}
    (h : TP p ver false n u th) (hn : n ≤ n')
    (ha : isAcc p' u = isAcc p u) (hc : covered p' u = covered p u)
    (he : expEnv p' u ver' = expEnv p u ver) (hch : child p = some u → child p' = some u)
    (hb : bu p u = true → bu p' u = true) : TP p' ver' false n' u th :=
  h.frame (not_stopper h.hl) hn ha hc he hch hb

/-- A step of the heap-lock holder `t` that touches at most one other thread `i`. -/
theorem inv_holder {s s' : State} (h : Inv s) {t : Nat} (ht : t < s.n) (hh : s.hlock = some t) (i : Nat)
    (hn : s'.n = s.n)
    (hth : ∀ u, u ≠ t → u ≠ i → s'.th u = s.th u)
    (hhl : s'.hlock = some t ∨ s'.hlock = none)
    (htl : s'.tlock = if holdsT s'.spc then s'.hlock else none)
    (hself : TP (s.th t).pc s.ver true s.n t (s.th t) → TP s'.spc s'.ver (s'.hlock == some t) s.n t (s'.th t))
    (hother : ∀ u, u < s.n → u ≠ t → u ≠ i → TP (s.th t).pc s.ver false s.n u (s.th u) →
      TP s'.spc s'.ver false s.n u (s.th u))
    (htouch : i < s.n → i ≠ t → TP (s.th t).pc s.ver false s.n i (s.th i) →
      TP s'.spc s'.ver false s.n i (s'.th i)) : Inv s' := by
  have hspc := spc_some hh
  have old : ∀ u, u < s.n → u ≠ t → TP (s.th t).pc s.ver false s.n u (s.th u) := by
    intro u hu hut
    have := h.thr u hu
    rw [hspc, hh] at this
    have e : (some t == some u) = false := by simp; exact fun e => hut e.symm
    rw [e] at this; exact this
  have hf : ∀ u, u ≠ t → (s'.hlock == some u) = false := by
    intro u hut
    rcases hhl with e | e <;> rw [e] <;> simp
    exact fun e => hut e.symm
  refine ⟨fun u hu => ?_, htl, ?_⟩
  · rw [hn] at hu ⊢
    by_cases hut : u = t
    · subst hut
      have := h.thr u hu
      rw [hspc, hh] at this
      exact hself (by simpa using this)
    · rw [hf u hut]
      by_cases hui : u = i
      · subst hui; exact htouch hu hut (old u hu hut)
      · rw [hth u hut hui]; exact hother u hu hut hui (old u hu hut)
  · intro a ha
    rw [hn]
    rcases hhl with e | e <;> rw [e] at ha
    · cases ha; exact ht
    · cases ha

/-! ## spawn -/

theorem case_spawnReady {s : State} (h : Inv s) {t : Nat} (ht : t < s.n) (hpc : (s.th t).pc = .spawnReady) :
    Inv (({ s with n := s.n + 1 }.put s.n { env := (s.th t).env }).put t
      { s.th t with pc := .regEnter s.n }) := by
  obtain ⟨hh, hspc⟩ := spc_of_holds h ht (by simp [hpc, holdsH])
  have hne : s.n ≠ t := by omega
  have hnew : (({ s with n := s.n + 1 }.put s.n { env := (s.th t).env }).put t
      { s.th t with pc := .regEnter s.n }).spc = .regEnter s.n := by
    simp [State.spc, hh]
  have old : ∀ u, u < s.n → TP .spawnReady s.ver (some t == some u) s.n u (s.th u) := by
    intro u hu
    have := h.thr u hu
    rw [hspc, hpc, hh] at this; exact this
  refine ⟨fun u hu => ?_, ?_, ?_⟩
  · rw [hnew]
    simp only [put_n, put_ver, put_hlock, hh] at hu ⊢
    by_cases hut : u = t
    · subst hut
      rw [put_th_same]
      have := old u ht
      obtain ⟨h1, h2, h3, h4, h5, h6, h7, h8, h9, h10, h11, h12, h13, h14, h15, h16⟩ := this
      refine ⟨?_, ?_, ?_, ?_, ?_, ?_, ?_, ?_, ?_, ?_, ?_, ?_, ?_, ?_, ?_, ?_⟩ <;>
        simp_all [PC.published, PC.isStopper, PC.safe, PC.bogus, holdsH, holdsKind, heldReq, isAcc, covered,
          expEnv, child]
    · rw [put_th_other hut]
      by_cases huc : u = s.n
      · subst huc
        rw [put_th_same]
        have hpe := (old t ht).c_env (by simp [hpc, PC.isStopper]) (by simp [hpc])
        have e : (some t == some s.n) = false := by simp; omega
        rw [e]
        refine ⟨?_, ?_, ?_, ?_, ?_, ?_, ?_, ?_, ?_, ?_, ?_, ?_, ?_, ?_, ?_, ?_⟩ <;>
          simp_all [PC.published, PC.isStopper, PC.safe, PC.bogus, holdsH, holdsKind, heldReq, isAcc, covered,
            expEnv, child]
      · rw [put_th_other huc]
        have hu' : u < s.n := by omega
        have e : (some t == some u) = false := by simp; exact fun e => hut e.symm
        have := old u hu'
        rw [e] at this ⊢
        exact this.frame' (by omega) (by simp [isAcc]) (by simp [covered]) (by simp [expEnv])
          (by simp [child]) (by simp [bu])
  · rw [hnew]
    have := h.tl
    rw [hspc, hpc] at this
    simpa [holdsT] using this
  · intro a ha
    simp only [put_hlock, put_n, hh] at ha ⊢
    cases ha; show _ < s.n + 1; omega

/-- The holder's pc changes in a way no other thread can tell (`Same`). -/
theorem inv_move_same {s : State} (h : Inv s) {t : Nat} (ht : t < s.n) {x : Thread} (hh : s.hlock = some t)
    (hx : TP (s.th t).pc s.ver true s.n t (s.th t) → TP x.pc s.ver true s.n t x)
    (hsm : ∀ u, Same (s.th t).pc x.pc u s.ver) (hT : holdsT (s.th t).pc = false) (hT' : holdsT x.pc = false) :
    Inv (s.put t x) := by
  refine inv_holder h ht hh s.n rfl (fun u hut _ => put_th_other hut) (Or.inl hh) ?_ ?_ ?_ ?_
  · rw [spc_put_holder hh, hT']
    have := h.tl
    rw [spc_some hh, hT] at this
    simpa using this
  · intro h0
    rw [spc_put_holder hh]
    simpa [hh] using hx h0
  · intro u hu hut _ h0
    rw [spc_put_holder hh]
    exact h0.same (hsm u)
  · intro hi; exact absurd hi (Nat.lt_irrefl _)

theorem tp_regEnter {ver : Nat} {n : Nat} {u c : Nat} {th : Thread}
    (h : TP (.regEnter c) ver true n u th) (hp : th.pc = .regEnter c) :
    TP (.regWait c) ver true n u { th with ctx := true, pc := .regWait c } := by
  obtain ⟨h1, h2, h3, h4, h5, h6, h7, h8, h9, h10, h11, h12, h13, h14, h15, h16⟩ := h
  refine ⟨?_, ?_, ?_, ?_, ?_, ?_, ?_, ?_, ?_, ?_, ?_, ?_, ?_, ?_, ?_, ?_⟩ <;>
    simp_all [PC.published, PC.isStopper, PC.safe, PC.bogus, holdsH, holdsKind, heldReq, isAcc, covered,
      expEnv, child]

theorem case_regEnter {s : State} (h : Inv s) {t : Nat} (ht : t < s.n) {c : Nat}
    (hpc : (s.th t).pc = .regEnter c) :
    Inv (s.put t { s.th t with ctx := true, pc := .regWait c }) := by
  obtain ⟨hh, hspc⟩ := spc_of_holds h ht (by simp [hpc, holdsH])
  refine inv_move_same h ht hh ?_ ?_ (by simp [hpc, holdsT]) (by simp [holdsT])
  · intro h0; rw [hpc] at h0; exact tp_regEnter h0 hpc
  · intro u; rw [hpc]
    exact ⟨by simp [isAcc], by simp [covered], by simp [expEnv], by simp [child], by simp [bu]⟩

theorem case_regWait {s : State} (h : Inv s) {t : Nat} (ht : t < s.n) {c : Nat}
    (hpc : (s.th t).pc = .regWait c) :
    Inv ((s.upd c (fun x => { x with reg := true })).put t { s.th t with pc := .exitCheck .reg }) := by
  obtain ⟨hh, hspc⟩ := spc_of_holds h ht (by simp [hpc, holdsH])
  have hnew : ((s.upd c (fun x => { x with reg := true })).put t { s.th t with pc := .exitCheck .reg }).spc
      = .exitCheck .reg := by simp [State.spc, hh]
  refine inv_holder h ht hh c rfl ?_ (Or.inl (by simpa using hh)) ?_ ?_ ?_ ?_
  · intro u hut huc; rw [put_th_other hut, upd_th_other huc]
  · rw [hnew]
    have := h.tl
    rw [hspc, hpc] at this
    simpa [holdsT] using this
  · intro h0
    rw [hnew]
    rw [hpc] at h0
    simp only [put_th_same, put_ver, put_hlock, upd_ver, upd_hlock, hh]
    obtain ⟨h1, h2, h3, h4, h5, h6, h7, h8, h9, h10, h11, h12, h13, h14, h15, h16⟩ := h0
    refine ⟨?_, ?_, ?_, ?_, ?_, ?_, ?_, ?_, ?_, ?_, ?_, ?_, ?_, ?_, ?_, ?_⟩ <;>
      simp_all [PC.published, PC.isStopper, PC.safe, PC.bogus, holdsH, holdsKind, heldReq, isAcc, covered,
        expEnv, child]
  · intro u hu hut huc h0
    rw [hnew]
    rw [hpc] at h0
    simp only [put_ver, upd_ver]
    refine h0.frame' (Nat.le_refl _) (by simp [isAcc]) (by simp [covered]) (by simp [expEnv]) ?_ (by simp [bu])
    intro e; simp [child] at e; exact absurd e.symm huc
  · intro hc hct h0
    rw [hnew]
    rw [hpc] at h0
    simp only [put_ver, upd_ver, put_th_other hct, upd_th_same]
    have hns := not_stopper h0.hl
    obtain ⟨h1, h2, h3, h4, h5, h6, h7, h8, h9, h10, h11, h12, h13, h14, h15, h16⟩ := h0
    refine TP.of_core hns h1 h2 h3 ?_ ?_ ?_ ?_ ?_ ?_ h16
    · simpa [isAcc] using h10 hns
    · simp [isAcc]
    · simpa [covered] using h12 hns
    · intro hd; simpa [expEnv] using h13 hns hd
    · intro hr; simp at hr
    · intro k hk
      rcases h15 k hk with hh | hh
      · exact Or.inl hh
      · simp [bu] at hh

end SteelVerif.C15.R
