/-
C15 — the one place where the memory model matters for the repaired handshake: the Dekker pair
   stopper:  paused.store(true) ; [fence] ; r1 := ctx.load()
   thread :  ctx.store(None)    ; [fence] ; r2 := paused.load()
(initially paused = false, ctx = Some).  The handshake is sound iff NOT (r1 = Some ∧ r2 = false): if the stopper
saw the thread published, the thread must see the stop request.
Each side has a one-slot store buffer for its own store (TSO-like: a store enters the buffer, is flushed to memory
at any later moment, a load of the OTHER variable reads memory; a fence waits for the own buffer to be empty).
`fenced = false` is the code with Relaxed / Release-Acquire accesses, `fenced = true` the K15a patch
(`fence(SeqCst)` after `ctx.store(None)` and at the end of `stop_threads`).
-/
namespace SteelVerif.C15.R.Litmus
set_option maxRecDepth 100000

structure St where
  paused : Bool := false          -- memory
  ctx : Bool := true              -- memory (`true` = Some)
  bufS : Bool := false            -- the stopper's store is in its buffer
  bufT : Bool := false            -- the thread's store is in its buffer
  pcS : Nat := 0                  -- 0: store, 1: load, 2: done
  pcT : Nat := 0
  r1 : Bool := false              -- what the stopper read from `ctx`
  r2 : Bool := true               -- what the thread read from `paused`
deriving DecidableEq, Repr

inductive Ev where
  | s | t | flushS | flushT
deriving DecidableEq, Repr

def step (fenced : Bool) (x : St) : Ev → Option St
  | .s =>
      if x.pcS = 0 then some { x with bufS := true, pcS := 1 }
      else if x.pcS = 1 then
        if fenced && x.bufS then none else some { x with r1 := x.ctx, pcS := 2 }
      else none
  | .t =>
      if x.pcT = 0 then some { x with bufT := true, pcT := 1 }
      else if x.pcT = 1 then
        if fenced && x.bufT then none else some { x with r2 := x.paused, pcT := 2 }
      else none
  | .flushS => if x.bufS then some { x with paused := true, bufS := false } else none
  | .flushT => if x.bufT then some { x with ctx := false, bufT := false } else none

def run (fenced : Bool) (x : St) : List Ev → St
  | [] => x
  | e :: r => match step fenced x e with
    | some y => run fenced y r
    | none => run fenced x r

/-- Both sides finished and both loads missed the other side's store. -/
def bad (x : St) : Bool := x.pcS == 2 && x.pcT == 2 && x.r1 && !x.r2

def evs : List Ev := [.s, .t, .flushS, .flushT]

/-- The states reachable in exactly `n` executable events. -/
def level (fenced : Bool) : Nat → List St
  | 0 => [{}]
  | n + 1 => (level fenced n).flatMap fun x => evs.filterMap (step fenced x)

/-- Without fences the bad outcome is reachable: both stores sit in the buffers while both loads run. -/
theorem sb_buffered_bad : bad (run false {} [.s, .t, .s, .t, .flushS, .flushT]) = true := by decide

/-- With the fences: every execution has at most 6 events (two stores, two flushes, two loads — no state is
reachable in 7), and no state reachable by ANY interleaving of them is the bad outcome. -/
theorem sb_fenced_safe :
    level true 7 = [] ∧ ((List.range 7).all fun n => (level true n).all fun x => !bad x) = true := by decide

/-- The same exploration without the fences does find it (the search is not vacuous). -/
theorem sb_buffered_found : ((level false 6).any bad) = true := by decide

/-- Non-vacuity: with the fences both sides do finish (e.g. in program order). -/
example : (run true {} [.s, .flushS, .s, .t, .flushT, .t]).pcS = 2 ∧
    (run true {} [.s, .flushS, .s, .t, .flushT, .t]).pcT = 2 := by decide

end SteelVerif.C15.R.Litmus
