/-
C15 driver: runs a schedule on the model.  stdin: optional first line `fix` (the variant of the current code) or
`repaired` (the repaired handshake of ModelR.lean: no guard, acts hostInt / hostRes instead of hostP / hostS),
then lines `<tid> <act>` (act ∈ poll callPrim alloc setGlobal spawn finish gc step spurious hostP hostS),
`reset` ends a schedule.  Per line: `ok <guard 0/1> <pc of every thread>` or `bad`.  Per schedule:
`spec scanOk=… envOk=… stopper=… guardOk=… steps=…`.
-/
import SteelVerif.C15.Model
import SteelVerif.C15.ModelR
open SteelVerif.C15

def parseAct : String → Option Act
  | "poll" => some .poll | "callPrim" => some .callPrim | "alloc" => some .alloc
  | "setGlobal" => some .setGlobal | "spawn" => some .spawn | "finish" => some .finish
  | "gc" => some .gc | "step" => some .step | "spurious" => some .spurious
  | "hostP" => some .hostP | "hostS" => some .hostS
  | _ => none

def pcName (p : PC) : String := (toString (repr p)).replace "SteelVerif.C15." ""

def showState (s : State) : String :=
  String.intercalate "|" (s.threads.map fun th =>
    s!"{pcName th.pc},p={th.paused},c={th.ctx},s={th.scanned},e={repr th.env}")

/-! The repaired model (`ModelR.lean`): first line `repaired`; acts as above plus `hostInt`, `hostRes`; there is no guard. -/

def parseActR : String → Option R.Act
  | "poll" => some .poll | "callPrim" => some .callPrim | "alloc" => some .alloc
  | "setGlobal" => some .setGlobal | "spawn" => some .spawn | "finish" => some .finish
  | "gc" => some .gc | "step" => some .step | "spurious" => some .spurious
  | "hostInt" => some .hostInt | "hostRes" => some .hostRes
  | _ => none

def showStateR (s : R.State) : String :=
  String.intercalate "|" ((List.range s.n).map fun u =>
    let th := s.th u
    s!"{(toString (repr th.pc)).replace "SteelVerif.C15.R." ""},stop={th.stop},intr={th.intr},c={th.ctx},s={th.scanned},e={repr th.env}")

partial def loopR (h : IO.FS.Stream) (s : R.State) (n : Nat) : IO Unit := do
  let line ← h.getLine
  let spec := s!"spec scanOk={s.scanOk} envOk={s.envOk} noRound={s.noRound} steps={n}"
  if line.isEmpty then
    if n > 0 then IO.println spec
    return
  let l := line.trimAscii.toString
  if l == "reset" then
    IO.println spec
    loopR h R.init 0
  else if l.isEmpty || l.startsWith "#" then loopR h s n
  else
    match l.splitOn " " with
    | [t, a] =>
      match t.toNat?, parseActR a with
      | some t, some a =>
        match R.step s t a with
        | some s' =>
          IO.println s!"ok 1 {showStateR s'}"
          loopR h s' (n + 1)
        | none => IO.println "bad"; loopR h s n
      | _, _ => IO.println "bad"; loopR h s n
    | _ => IO.println "bad"; loopR h s n

partial def loop (h : IO.FS.Stream) (s0 s : State) (gok : Bool) (n : Nat) : IO Unit := do
  let line ← h.getLine
  if line.isEmpty then
    if n > 0 then
      IO.println s!"spec scanOk={s.scanOk} envOk={s.envOk} stopper={repr s.stopper} guardOk={gok} steps={n}"
    return
  let l := line.trimAscii.toString
  if l == "fix" then loop h initFix initFix true 0
  else if l == "repaired" then loopR h R.init 0
  else if l == "reset" then
    IO.println s!"spec scanOk={s.scanOk} envOk={s.envOk} stopper={repr s.stopper} guardOk={gok} steps={n}"
    loop h s0 s0 true 0
  else if l.isEmpty || l.startsWith "#" then loop h s0 s gok n
  else
    match l.splitOn " " with
    | [t, a] =>
      match t.toNat?, parseAct a with
      | some t, some a =>
        let g := G s t a
        match step s t a with
        | some s' =>
          IO.println s!"ok {if g then 1 else 0} {showState s'}"
          loop h s0 s' (gok && g) (n + 1)
        | none => IO.println "bad"; loop h s0 s gok n
      | _, _ => IO.println "bad"; loop h s0 s gok n
    | _ => IO.println "bad"; loop h s0 s gok n

/-- `c15driver repaired`: the model used when the input has no mode line is the repaired handshake (the check passes it
when `C15.codeIsRepaired`, i.e. when translate/c15_exits.py finds the re-check in the source); `c15driver fix` / no
argument: the model of the code before the repair. -/
def main (args : List String) : IO Unit := do
  let h ← IO.getStdin
  if args.contains "repaired" then loopR h R.init 0
  else if args.contains "fix" then loop h initFix initFix true 0
  else loop h init init true 0
