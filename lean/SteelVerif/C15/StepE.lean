/-
C15 / C16 — preservation, part E: `resume_threads` and the end of a round.
-/
import SteelVerif.C15.StepD
namespace SteelVerif.C15
set_option linter.unusedSimpArgs false
set_option linter.unusedVariables false

variable {s : State} {t : Tid} {th : Thread}

theorem dec_succ_le {u i : Nat} : decide (i + 1 ≤ u) = decide (i < u) := by
  rw [decide_eq_decide]; exact Nat.succ_le_iff

theorem dec_le_lt' {u i : Nat} (h : u ≠ i) : decide (i < u) = decide (i ≤ u) := by
  rw [decide_eq_decide]; constructor <;> intro h' <;> omega

theorem case_resLock (o : Op) (h : Inv s) (hth : s.threads[t]? = some th)
    (hpc : th.pc = .resLock o) (s' : State) (hs : step s t .step = some s') : Inv s' := by
  have hst := stopper_of_pc h hth (by simp [hpc, PC.isStopper])
  have hself := (h.thr t th hth).1 hst
  simp only [step, hth, hpc] at hs
  split at hs
  · cases hs
  · cases hs
    refine inv_stop_self (s1 := { s with tlock := some t }) h hst hth ⟨rfl, rfl, rfl, rfl, rfl⟩ ?_
      ?_ ?_ ?_
    · show TPself s.ver _ _ _ _
      cases o <;> (simp only [if_true, if_false, reduceCtorEq]; self_tac hself hpc)
    · cases o <;> simp [isAcc]
    · intro u thu hua hu
      rw [hpc]
      cases o <;> simp [covered, isAcc, beforeUnpark, expEnv]
    · cases o <;> simp [holdsT]

theorem case_resS (o : Op) (i : Nat) (h : Inv s) (hth : s.threads[t]? = some th)
    (hpc : th.pc = .resS o i) (s' : State) (hs : step s t .step = some s') : Inv s' := by
  have hst := stopper_of_pc h hth (by simp [hpc, PC.isStopper])
  have hself := (h.thr t th hth).1 hst
  have htl := tl_of h hst hth
  rw [hpc] at htl
  have hp : ∀ u, covered (.resU o i) u = covered (.resS o i) u ∧
      isAcc (.resU o i) u = isAcc (.resS o i) u ∧
      beforeUnpark (.resU o i) u = beforeUnpark (.resS o i) u ∧
      expEnv (.resU o i) u s.ver = expEnv (.resS o i) u s.ver := by
    intro u
    exact ⟨by simp [covered], by simp [isAcc], by simp [beforeUnpark], by cases o <;> simp [expEnv]⟩
  simp only [step, hth, hpc] at hs
  split at hs
  · cases hs
    refine inv_stop_self (s1 := s) h hst hth ⟨rfl, rfl, rfl, rfl, rfl⟩ ?_ (by simp [isAcc]) ?_ ?_
    · self_tac hself hpc
    · intro u thu hua hu
      rw [hpc]
      obtain ⟨a1, a2, a3, a4⟩ := hp u
      exact ⟨a1, a2, a3, fun _ => a4⟩
    · simpa [holdsT] using htl
  · rename_i hit
    cases hs
    unfold State.upd
    cases hi : s.threads[i]? with
    | none =>
      simp only
      refine inv_stop_self (s1 := s) h hst hth ⟨rfl, rfl, rfl, rfl, rfl⟩ ?_ (by simp [isAcc]) ?_ ?_
      · self_tac hself hpc
      · intro u thu hua hu
        rw [hpc]
        obtain ⟨a1, a2, a3, a4⟩ := hp u
        exact ⟨a1, a2, a3, fun _ => a4⟩
      · simpa [holdsT] using htl
    | some x =>
      simp only
      refine inv_stop_tgt h hst hth hit hi ?_ (by simp [isAcc]) ?_ ?_ ?_
      · self_tac hself hpc
      · intro u thu hua hui hu
        rw [hpc]
        obtain ⟨a1, a2, a3, a4⟩ := hp u
        exact ⟨a1, a2, a3, fun _ => a4⟩
      · rw [hpc]
        intro hxc
        obtain ⟨a1, a2, a3, a4⟩ := hp i
        exact core_set_st _ (by simp) (core_of_eq hxc rfl a1 a2 a3 (fun _ => a4) rfl rfl rfl)
      · simpa [holdsT] using htl

theorem case_resU (o : Op) (i : Nat) (h : Inv s) (hth : s.threads[t]? = some th)
    (hpc : th.pc = .resU o i) (s' : State) (hs : step s t .step = some s') : Inv s' := by
  have hst := stopper_of_pc h hth (by simp [hpc, PC.isStopper])
  have hself := (h.thr t th hth).1 hst
  have htl := tl_of h hst hth
  rw [hpc] at htl
  have hp : ∀ u, u ≠ i → covered (.resP o (i + 1)) u = covered (.resU o i) u ∧
      isAcc (.resP o (i + 1)) u = isAcc (.resU o i) u ∧
      beforeUnpark (.resP o (i + 1)) u = beforeUnpark (.resU o i) u ∧
      expEnv (.resP o (i + 1)) u s.ver = expEnv (.resU o i) u s.ver := by
    intro u hui
    refine ⟨?_, by simp [isAcc], ?_, by cases o <;> simp [expEnv]⟩
    · simp only [covered]; exact dec_succ_le
    · simp only [beforeUnpark]; rw [dec_succ_le]; exact dec_le_lt' hui
  simp only [step, hth, hpc] at hs
  split at hs
  · rename_i hit
    cases hs
    subst hit
    refine inv_stop_self (s1 := s) h hst hth ⟨rfl, rfl, rfl, rfl, rfl⟩ ?_ (by simp [isAcc]) ?_ ?_
    · self_tac hself hpc
    · intro u thu hua hu
      rw [hpc]
      obtain ⟨a1, a2, a3, a4⟩ := hp u hua
      exact ⟨a1, a2, a3, fun _ => a4⟩
    · simpa [holdsT] using htl
  · rename_i hit
    cases hs
    unfold State.upd
    cases hi : s.threads[i]? with
    | none =>
      simp only
      refine inv_stop_self (s1 := s) h hst hth ⟨rfl, rfl, rfl, rfl, rfl⟩ ?_ (by simp [isAcc]) ?_ ?_
      · self_tac hself hpc
      · intro u thu hua hu
        have hui : u ≠ i := by intro e; subst e; rw [hi] at hu; cases hu
        rw [hpc]
        obtain ⟨a1, a2, a3, a4⟩ := hp u hui
        exact ⟨a1, a2, a3, fun _ => a4⟩
      · simpa [holdsT] using htl
    | some x =>
      simp only
      refine inv_stop_tgt h hst hth hit hi ?_ (by simp [isAcc]) ?_ ?_ ?_
      · self_tac hself hpc
      · intro u thu hua hui hu
        rw [hpc]
        obtain ⟨a1, a2, a3, a4⟩ := hp u hui
        exact ⟨a1, a2, a3, fun _ => a4⟩
      · rw [hpc]
        intro hxc
        -- the target's token arrives; `beforeUnpark` turns false for it, which the token makes harmless
        obtain ⟨h1, h2, h3, h4, h5, h6, h7, h8, h9, h10⟩ := hxc
        have hc0 : covered (.resU o i) i = false := by simp [covered]
        have hc1 : covered (.resP o (i + 1)) i = false := by simp [covered]
        refine ⟨h1, h2, ?_, ?_, h5, ?_, ?_, h8, ?_, ?_⟩
        · simpa [projAt, isAcc] using h3
        · intro hh; simp [projAt, isAcc] at hh
        · intro hh; simp [projAt, hc1] at hh
        · intro hd; have := h7 hd; cases o <;> simpa [projAt, expEnv] using this
        · intro hh; have := h9 hh
          refine ⟨?_, this.2.1, this.2.2.1, fun _ hf => by simp at hf⟩
          have e := this.1
          simp only [projAt, hc0] at e
          simp only [projAt, hc1]; exact e
        · intro hh; simp [projAt, hc1] at hh
      · simpa [holdsT] using htl

theorem case_resP (o : Op) (i : Nat) (h : Inv s) (hth : s.threads[t]? = some th)
    (hpc : th.pc = .resP o i) (s' : State) (hs : step s t .step = some s') : Inv s' := by
  have hst := stopper_of_pc h hth (by simp [hpc, PC.isStopper])
  have hself := (h.thr t th hth).1 hst
  have htl := tl_of h hst hth
  rw [hpc] at htl
  simp only [step, hth, hpc] at hs
  split at hs
  · -- the round is over
    rename_i hi
    cases hs
    have hle := none_le hi
    obtain ⟨q1, q2, q3, q4, q5, q6, q7, q8, q9⟩ := hself
    rw [hpc] at q6 q7 q8 q9
    -- the heap lock after the round
    generalize hx : (if o = .gc ∨ s.fix = true then ({ s with hlock := none } : State) else s) = s2
    have e2 : s2.threads = s.threads ∧ s2.tlock = s.tlock ∧ s2.ver = s.ver ∧ s2.stopper = s.stopper ∧
        s2.hostUsed = s.hostUsed ∧ s2.fix = s.fix := by
      subst hx; split <;> exact ⟨rfl, rfl, rfl, rfl, rfl, rfl⟩
    have hl2 : ∀ u, decide (s2.hlock = some u) = (decide (s.hlock = some u) && decide (u ≠ t)) := by
      intro u
      subst hx
      by_cases hc : o = .gc ∨ s.fix = true
      · simp only [hc, if_true]
        have : s.hlock = some t := by
          have : (decide (o = .gc) || s.fix) = true := by
            rcases hc with hc | hc <;> simp [hc]
          simp only [holdsH, this] at q8
          simpa using q8.symm
        by_cases hut : u = t
        · simp [hut]
        · have : ¬ (some t = some u) := by simpa using fun e => hut e.symm
          simp [*]
      · simp only [hc, if_false]
        have : ¬ (s.hlock = some t) := by
          have : (decide (o = .gc) || s.fix) = false := by
            cases o <;> simp_all
          simp only [holdsH, this] at q8
          simpa using q8.symm
        by_cases hut : u = t
        · subst hut; simp [this]
        · simp [hut]
    obtain ⟨e21, e22, e23, e24, e25, e26⟩ := e2
    have hth2 : s2.threads[t]? = some th := by rw [e21]; exact hth
    have hspc' : ({ s2 with tlock := none, stopper := none }.put t { th with pc := .run }).spc = .run :=
      spc_none rfl
    have hspc : s.spc = .resP o i := by rw [spc_of_stopper hst hth, hpc]
    refine ⟨?_, ?_, ?_, ?_, ?_⟩
    · intro u thu hu
      refine ⟨fun hh => by simp at hh, fun _ => ?_⟩
      rw [proj_eq, hspc']
      simp only [put_stopper, put_ver, put_hlock, put_hostUsed, put_fix, e23, e25, e26, hl2]
      by_cases hut : u = t
      · subst hut
        have hth2' : ({ s2 with tlock := none, stopper := none } : State).threads[u]? = some th := hth2
        rw [put_get_same hth2'] at hu; cases hu
        refine ⟨?_, ?_, ?_, ?_, ?_, ?_, ?_, ?_, ?_, ?_⟩ <;>
          simp_all [PC.published, PC.isStopper, PC.leaving, PC.waiting, holdsH, isAcc, covered, expEnv,
            beforeUnpark, ownEnv, ownPaused]
      · rw [put_get_other hut] at hu
        have hu : s.threads[u]? = some thu := by rw [← e21]; exact hu
        have hul : u < i := Nat.lt_of_lt_of_le (lt_of_get hu) hle
        have hc := (h.thr u thu hu).2 (by rw [hst]; intro hh; exact hut (Option.some.inj hh).symm)
        rw [proj_eq, hspc] at hc
        obtain ⟨h1, h2, h3, h4, h5, h6, h7, h8, h9, h10⟩ := hc
        have hnc : covered (.resP o i) u = false := by simp [covered]; omega
        have hnb : beforeUnpark (.resP o i) u = false := by simp [beforeUnpark]; omega
        simp only [hnc, hnb, isAcc] at h3 h4 h6 h9 h10
        refine ⟨h1, h2, ?_, ?_, ?_, ?_, ?_, ?_, ?_, ?_⟩
        · simpa [isAcc] using h3
        · simp [isAcc]
        · simp
        · simp [covered]
        · intro hd; have := h7 hd; cases o <;> simpa [expEnv] using this
        · simpa [hut] using h8
        · intro hh; have := h9 hh
          refine ⟨by simpa [covered] using this.1, this.2.1, this.2.2.1, ?_⟩
          intro hw hf; have := this.2.2.2 hw hf; simp at this
        · simp [covered]
    · intro a ha; simp at ha
    · simp only [hspc']; simp [holdsT]
    · intro x hx'
      simp only [put_hlock, put_len] at hx' ⊢
      have : s2.hlock = some x := hx'
      have h3 := hl2 x
      rw [e21]
      by_cases hxx : s.hlock = some x
      · exact h.hlk x hxx
      · simp [this, hxx] at h3
    · intro a ha; simp at ha
  · rename_i x hi
    split at hs
    · -- the stopper's own entry
      rename_i hit
      cases hs
      subst hit
      refine inv_stop_self (s1 := s) h hst hth ⟨rfl, rfl, rfl, rfl, rfl⟩ ?_ (by simp [isAcc]) ?_ ?_
      · self_tac hself hpc
      · intro u thu hua hu
        rw [hpc]
        refine ⟨?_, by simp [isAcc], by simp [beforeUnpark], ?_⟩
        · simp only [covered]; exact dec_le_lt' hua
        · intro _; cases o <;> simp [expEnv]
      · simpa [holdsT] using htl
    · rename_i hit
      have hxc := (h.thr i x hi).2 (by rw [hst]; intro hh; exact hit (Option.some.inj hh).symm)
      rw [proj_at hst hth, hpc] at hxc
      split at hs
      · rename_i hr
        cases hs
        refine inv_stop_tgt h hst hth hit hi ?_ (by simp [isAcc]) ?_ ?_ ?_
        · self_tac hself hpc
        · intro u thu hua hui hu
          rw [hpc]
          refine ⟨?_, by simp [isAcc], by simp [beforeUnpark], ?_⟩
          · simp only [covered]; exact dec_le_lt' hui
          · intro _; cases o <;> simp [expEnv]
        · intro _
          obtain ⟨h1, h2, h3, h4, h5, h6, h7, h8, h9, h10⟩ := hxc
          have hc1 : covered (.resS o i) i = false := by simp [covered]
          refine ⟨h1, h2, ?_, ?_, fun _ => h5 rfl, ?_, ?_, h8, ?_, ?_⟩
          · simpa [projAt, isAcc] using h3
          · intro hh; simp [projAt, isAcc] at hh
          · intro hh; simp [projAt, hc1] at hh
          · intro hd; have := h7 hd; cases o <;> simpa [projAt, expEnv] using this
          · intro hh; have := h9 hh
            refine ⟨by simp [projAt, hc1], this.2.1, this.2.2.1, fun _ _ => by simp [projAt, beforeUnpark]⟩
          · intro hh; simp [projAt, hc1] at hh
        · simpa [holdsT] using htl
      · rename_i hr
        exfalso
        have := (hxc.act rfl).1
        exact hr this

end SteelVerif.C15
