/-
C15 — property theorems: world-stopping operations see other threads only while they are stopped.

Model: `Model.lean` (the safepoint handshake of `steel_vm/vm.rs`, any number of script threads, every
shared access one atomic step).  The theorems quantify over EVERY schedule — every history of polls,
primitive calls, allocations, global updates, spawns, thread exits, collections and host interrupts by any
number of threads and every interleaving of their atomic steps — with no bound on threads or steps.

The code as it is does NOT satisfy the full statements: `not_scan_exclusive`, `not_env_coherent` exhibit
concrete schedules.  What is proved for all schedules is the statement under the decidable guard `G`
(`Model.lean`), which names exactly the windows in which the handshake is unsound.
-/
import SteelVerif.C15.StepE
import SteelVerif.C15.PropsR
import SteelVerif.C15.LitmusR
namespace SteelVerif.C15

/-- Every guarded step of the transition system preserves the invariant. -/
theorem step_inv {s s' : State} {t : Tid} {a : Act} (h : Inv s) (hg : G s t a = true)
    (hs : step s t a = some s') : Inv s' := by
  cases hth : s.threads[t]? with
  | none => simp [step, hth] at hs
  | some th =>
    cases a with
    | hostP =>
      have : s.stopper = none := by simpa [G, hth] using hg
      exact case_hostP h hth this s' hs
    | hostS =>
      have : s.stopper = none := by simpa [G, hth] using hg
      exact case_hostS h hth this s' hs
    | poll =>
      cases hpc : th.pc <;> first
        | exact case_poll h hth hpc s' hs
        | (simp [step, hth, hpc] at hs)
    | callPrim =>
      cases hpc : th.pc <;> first
        | exact case_enter .callPrim .prim (Or.inl ⟨rfl, rfl⟩) h hth hpc s' hs
        | (simp [step, hth, hpc] at hs)
    | alloc =>
      cases hpc : th.pc <;> first
        | exact case_enter .alloc .alloc (Or.inr (Or.inl ⟨rfl, rfl⟩)) h hth hpc s' hs
        | (simp [step, hth, hpc] at hs)
    | setGlobal =>
      cases hpc : th.pc <;> first
        | exact case_enter .setGlobal .gate (Or.inr (Or.inr ⟨rfl, rfl⟩)) h hth hpc s' hs
        | (simp [step, hth, hpc] at hs)
    | spawn =>
      have hst : s.stopper = none := by simpa [G, hth] using hg
      cases hpc : th.pc <;> first
        | exact case_spawn h hth hpc hst s' hs
        | (simp [step, hth, hpc] at hs)
    | finish =>
      cases hpc : th.pc <;> first
        | exact case_finish h hth hpc s' hs
        | (simp [step, hth, hpc] at hs)
    | gc =>
      cases hpc : th.pc <;> first
        | (have hg' : s.stopper = none ∧ s.allReg = true ∧ s.noHostMid = true := by
             simpa [G, hth, hpc, and_assoc] using hg
           have hs' : stopBegin s t th .gc = some s' := by simpa [step, hth, hpc] using hs
           exact case_stopBegin .gc h hth (Or.inl ⟨hpc, rfl⟩) hg'.1 hg'.2.1 hg'.2.2 s' hs')
        | (simp [step, hth, hpc] at hs)
    | spurious =>
      cases hpc : th.pc <;> first
        | exact case_parking _ .spurious (Or.inr rfl) h hth hpc s' hs
        | (simp [step, hth, hpc] at hs)
    | step =>
      cases hpc : th.pc <;> first
        | exact case_sawPaused h hth hpc s' hs
        | exact case_pubStore h hth hpc s' hs
        | exact case_inSafe _ h hth hpc s' hs
        | exact case_regWait _ h hth hpc s' hs
        | exact case_exitCheck _ h hth hpc s' hs
        | exact case_intCheck _ h hth hpc s' hs
        | exact case_parking _ .step (Or.inl rfl) h hth hpc s' hs
        | exact case_retract _ h hth hpc s' hs
        | exact case_allocd h hth hpc s' hs
        | (have hg' : s.stopper = none ∧ s.allReg = true ∧ s.noHostMid = true := by
             simpa [G, hth, hpc, and_assoc] using hg
           have hs' : stopBegin s t th .env = some s' := by simpa [step, hth, hpc] using hs
           exact case_stopBegin .env h hth (Or.inr ⟨hpc, rfl⟩) hg'.1 hg'.2.1 hg'.2.2 s' hs')
        | exact case_stopP _ _ h hth hpc hg s' hs
        | exact case_stopS _ _ h hth hpc s' hs
        | exact case_scanLock _ _ h hth hpc s' hs
        | exact case_spin _ _ _ h hth hpc s' hs
        | exact case_acc _ _ _ h hth hpc s' hs
        | exact case_resLock _ h hth hpc s' hs
        | exact case_resP _ _ h hth hpc s' hs
        | exact case_resS _ _ h hth hpc s' hs
        | exact case_resU _ _ h hth hpc s' hs
        | (simp [step, hth, hpc] at hs)

/-- The invariant holds in every state reachable by a schedule that respects the guard. -/
theorem runG_inv (sched : List (Tid × Act)) : ∀ {s : State}, Inv s → Inv (runG s sched) := by
  induction sched with
  | nil => intro s h; exact h
  | cons x rest ih =>
    intro s h
    obtain ⟨t, a⟩ := x
    simp only [runG]
    split
    · rename_i hg
      cases hs : step s t a with
      | none => exact h
      | some s' => exact ih (step_inv h hg hs)
    · exact h

theorem inv_initFix : Inv initFix := by
  refine ⟨?_, ?_, ?_, ?_, ?_⟩
  · intro u th hu
    have : u = 0 ∧ th = { reg := true } := by
      cases u with
      | zero => simp [initFix] at hu; exact ⟨rfl, hu.symm⟩
      | succ n => simp [initFix] at hu
    obtain ⟨rfl, rfl⟩ := this
    refine ⟨by simp [initFix], fun _ => ?_⟩
    refine ⟨rfl, rfl, ?_, ?_, ?_, ?_, ?_, ?_, ?_, ?_⟩ <;>
      simp [proj, initFix, State.spc, isAcc, covered, expEnv, holdsH, beforeUnpark, PC.waiting]
  · intro a h; simp [initFix] at h
  · simp [initFix, State.spc, holdsT]
  · intro x h; simp [initFix] at h
  · intro a h; simp [initFix] at h

/-- A thread that is being looked at is at a safe place — in every state satisfying the invariant. -/
theorem inv_scan {s : State} (h : Inv s) {t : Tid} {th : Thread} (hth : s.threads[t]? = some th)
    (hsc : 0 < th.scanned) : th.pc.safe = true := by
  by_cases hs : s.stopper = some t
  · have := ((h.thr t th hth).1 hs).scn; omega
  · have hc := (h.thr t th hth).2 hs
    have hacc : (proj s t).accd = true := by
      cases ha : (proj s t).accd
      · have := hc.scn; rw [ha] at this; simp at this; omega
      · rfl
    have := (hc.acc hacc).1
    rw [hc.ctx] at this
    exact this

theorem scanOk_of_inv {s : State} (h : Inv s) : s.scanOk = true := by
  simp only [State.scanOk, List.all_eq_true]
  intro th hmem
  obtain ⟨t, hlt, rfl⟩ := List.getElem_of_mem hmem
  have hth : s.threads[t]? = some s.threads[t] := List.getElem?_eq_getElem hlt
  by_cases hz : s.threads[t].scanned = 0
  · simp [hz]
  · have := inv_scan h hth (by omega)
    simp [this]

/-- **C15, full statement (does NOT hold for the code as it is — see `not_scan_exclusive`).**
In every reachable state a thread whose stack / global table is being inspected or replaced by a stopper is
parked at a safepoint or inside a primitive that published it. -/
def ScanExclusive : Prop := ∀ sched : List (Tid × Act), (run init sched).scanOk = true

/-- **C15 under the guard.**  For every number of threads and every schedule that respects `G` (rounds do
not overlap each other, a spawn or a host interrupt; no stop request reaches a thread between its last exit
check and its retraction): whenever a thread is being scanned it is at a safe place. -/
theorem scan_exclusive_partial (sched : List (Tid × Act)) : (runG init sched).scanOk = true :=
  scanOk_of_inv (runG_inv sched inv_init)

/-- The same, pointwise. -/
theorem scan_exclusive_partial_pointwise (sched : List (Tid × Act)) (t : Tid) (th : Thread)
    (hth : (runG init sched).threads[t]? = some th) (hsc : 0 < th.scanned) : th.pc.safe = true :=
  inv_scan (runG_inv sched inv_init) hth hsc

/-- The safepoint exit race (K15a), `N = 2`: thread 1 leaves a primitive's safepoint (its exit check read
`paused = false`), thread 0 then runs `with_locked_env`: raises `paused[1]`, finds `ctx[1]` still published and
starts replacing thread 1's global table; thread 1 retracts and dispatches while it is being scanned. -/
def exitRace : List (Tid × Act) :=
  [(0, .spawn), (0, .step), (0, .step), (0, .step),          -- thread 1 spawned and registered
   (1, .callPrim), (1, .step), (1, .step),                   -- 1: publish, primitive returns, exit check = false
   (0, .setGlobal), (0, .step), (0, .step), (0, .step),      -- 0: heap-lock gate
   (0, .step),                                               -- 0: stop_threads
   (0, .step), (0, .step), (0, .step), (0, .step), (0, .step),  -- paused/state of entries 0, 1; end of list
   (0, .step), (0, .step),                                   -- drain_env; entry 0 = self
   (0, .step),                                               -- ctx[1] is Some: scanBegin 1
   (1, .step)]                                               -- 1: ctx.store(None); running

theorem exitRace_violates : (run init exitRace).scanOk = false := by decide

theorem not_scan_exclusive : ¬ ScanExclusive := by
  intro h
  have := h exitRace
  rw [exitRace_violates] at this
  cases this

/-- The guard rejects that schedule exactly at the stop request to thread 1. -/
theorem exitRace_guard : (runG init exitRace) = run init (exitRace.take 14) := by decide

/-! ## The global table -/

/-- **Full statement (does NOT hold — `not_env_coherent`).**  Whenever no world-stopping operation is in
progress, every live thread holds the newest global table. -/
def EnvCoherent : Prop :=
  ∀ sched : List (Tid × Act), (run init sched).stopper = none → (run init sched).envOk = true

theorem inv_env {s : State} (h : Inv s) (hs : s.stopper = none) : s.envOk = true := by
  simp only [State.envOk, List.all_eq_true]
  intro th hmem
  obtain ⟨t, hlt, rfl⟩ := List.getElem_of_mem hmem
  have hth : s.threads[t]? = some s.threads[t] := List.getElem?_eq_getElem hlt
  have hc := (h.thr t _ hth).2 (by simp [hs])
  by_cases hd : s.threads[t].pc = .done
  · simp [hd]
  · have := hc.env hd
    simp [proj_eq, spc_none hs, expEnv] at this
    simp [this]

/-- **A definition or assignment of a global completed by one thread is seen by every thread afterwards**,
under the guard: when no round is in progress every live thread holds the newest table. -/
theorem env_coherent_partial (sched : List (Tid × Act)) :
    (runG init sched).stopper = none → (runG init sched).envOk = true :=
  inv_env (runG_inv sched inv_init)

/-- After `with_locked_env` completes (the stopper's last step of the round), every live thread's table is
the new one. -/
theorem env_published_partial (sched : List (Tid × Act)) (t : Tid) (s' : State)
    (hg : G (runG init sched) t .step = true)
    (hs : step (runG init sched) t .step = some s')
    (_hend : (runG init sched).stopper = some t) (hend' : s'.stopper = none) : s'.envOk = true :=
  inv_env (step_inv (runG_inv sched inv_init) hg hs) hend'

/-- A thread spawned while another thread is inside `with_locked_env` is pushed to `threads` only after it
runs: it misses the update and keeps the old table (K15b). -/
def lateRegistration : List (Tid × Act) :=
  [(0, .spawn)] ++ List.replicate 3 (0, .step) ++          -- thread 1 spawned and registered
  [(1, .setGlobal)] ++ List.replicate 4 (1, .step) ++      -- 1: heap-lock gate, stop_threads entered
  [(0, .spawn)] ++                                         -- 0: spawns thread 2 (running, not registered)
  List.replicate 27 (1, .step)                             -- 1: the whole round (thread 0 is scanned in `regWait`)

theorem lateRegistration_violates :
    (run init lateRegistration).stopper = none ∧ (run init lateRegistration).envOk = false := by decide

theorem not_env_coherent : ¬ EnvCoherent := by
  intro h
  have := h lateRegistration lateRegistration_violates.1
  rw [lateRegistration_violates.2] at this
  cases this

/-! ## The code as it is now

Since /repo commit d9e2a72a (fix of K16a) the heap-lock guard taken in front of `with_locked_env` is kept until
it returns: the model of the current code is the variant `State.fix = true`, initial state `initFix`
(`translate/c16_callpaths.py` re-derives that from the sources on every run: `C16.GenCallPaths.gate_keeps_guard`).
The theorems above are stated for `init` (the protocol before that fix); the invariant does not depend on the
variant, so all of them hold for the current code as well, and so do the counterexamples: K15a and K15b are
not repaired by serialising the stoppers. -/

/-- The initial state of the model of the current code. -/
def code : State := initFix

theorem scan_exclusive_partial_code (sched : List (Tid × Act)) : (runG code sched).scanOk = true :=
  scanOk_of_inv (runG_inv sched inv_initFix)

theorem env_coherent_partial_code (sched : List (Tid × Act)) :
    (runG code sched).stopper = none → (runG code sched).envOk = true :=
  inv_env (runG_inv sched inv_initFix)

theorem exitRace_violates_code : (run code exitRace).scanOk = false := by decide

theorem lateRegistration_violates_code :
    (run code lateRegistration).stopper = none ∧ (run code lateRegistration).envOk = false := by decide

/-- **C15, full statements for the current code: still false** (findings K15a, K15b). -/
theorem not_scan_exclusive_code : ¬ ∀ sched : List (Tid × Act), (run code sched).scanOk = true := by
  intro h
  have := h exitRace
  rw [exitRace_violates_code] at this
  cases this

theorem not_env_coherent_code :
    ¬ ∀ sched : List (Tid × Act), (run code sched).stopper = none → (run code sched).envOk = true := by
  intro h
  have := h lateRegistration lateRegistration_violates_code.1
  rw [lateRegistration_violates_code.2] at this
  cases this

/-! ## Non-vacuity -/

/-- A complete guarded round: thread 0 updates a global while thread 1 is parked at the dispatch poll; the
guard accepts every line, thread 1 is scanned (twice) while parked and ends with the new table. -/
def goodRound : List (Tid × Act) :=
  [(0, .spawn)] ++ List.replicate 3 (0, .step) ++
  [(0, .setGlobal)] ++ List.replicate 4 (0, .step) ++      -- gate, stop_threads entered
  List.replicate 5 (0, .step) ++                           -- stop requests to entries 0, 1; end of list
  [(1, .poll)] ++ List.replicate 3 (1, .step) ++           -- 1: sees paused, publishes, parks
  List.replicate 3 (0, .step)                              -- drain_env; self; scanBegin 1

theorem goodRound_scans :
    runG init goodRound = run init goodRound ∧
    ((run init goodRound).threads[1]?.map (fun th => (th.scanned, th.pc))) = some (1, .parking .poll) := by
  decide

def goodRoundRest : List (Tid × Act) := List.replicate 15 (0, .step)

theorem goodRound_completes :
    let s := runG init (goodRound ++ goodRoundRest)
    s.stopper = none ∧ s.ver = 1 ∧ s.threads.map (·.env) = [some 1, some 1] ∧
    s.threads.map (·.token) = [true, true] := by
  decide

theorem goodRound_completes_code :
    let s := runG code (goodRound ++ goodRoundRest)
    s.stopper = none ∧ s.ver = 1 ∧ s.hlock = none ∧ s.threads.map (·.env) = [some 1, some 1] := by
  decide

/-- A second guarded round, with the scanned thread INSIDE A PRIMITIVE: thread 1 publishes itself for a
primitive call before the round, is found published, and while thread 0 replaces its global table the primitive
returns and thread 1 walks the exit loop of `enter_safepoint` (pause flag raised, not interrupted) and parks —
scanned all the time; after the round it is unparked, retracts and dispatches with the new table. -/
def primRound : List (Tid × Act) :=
  [(0, .spawn)] ++ List.replicate 3 (0, .step) ++
  [(1, .callPrim), (0, .setGlobal)] ++ List.replicate 4 (0, .step) ++   -- 1 in the primitive; 0: gate, stop_threads
  List.replicate 5 (0, .step) ++ List.replicate 3 (0, .step) ++         -- stop requests; drain_env; self; scanBegin 1
  List.replicate 3 (1, .step)                                           -- 1: primitive returns, exit loop, park()

def primRoundRest : List (Tid × Act) := List.replicate 15 (0, .step) ++ List.replicate 3 (1, .step)

theorem primRound_scans :
    runG init primRound = run init primRound ∧
    (run init primRound).threads.map (fun th => (th.pc, th.scanned))
      = [(.acc .env 0 1, 0), (.parking .prim, 1)] := by decide

theorem primRound_completes :
    let s := runG init (primRound ++ primRoundRest)
    s = run init (primRound ++ primRoundRest) ∧ s.stopper = none ∧
    s.threads.map (fun th => (th.pc, th.scanned, th.env)) = [(.run, 0, some 1), (.run, 0, some 1)] := by decide

/-- Non-vacuity of `inv_scan` / `scan_exclusive_partial_pointwise`: both hypotheses hold for thread 1 of
`goodRound` (parked at the dispatch poll) and of `primRound` (in the exit loop of a primitive's safepoint). -/
example : (((runG init goodRound).threads[1]'(by decide)).pc.safe = true) :=
  scan_exclusive_partial_pointwise goodRound 1 _ (List.getElem?_eq_getElem (by decide)) (by decide)

example : (((runG init primRound).threads[1]'(by decide)).pc.safe = true) :=
  inv_scan (runG_inv primRound inv_init) (List.getElem?_eq_getElem (by decide)) (by decide)

/-- Non-vacuity of `step_inv`: the guard accepts the stopper's next line in `goodRound`, and the line is
executable. -/
example : G (runG init goodRound) 0 .step = true ∧ (step (runG init goodRound) 0 .step).isSome = true := by
  decide

/-- Non-vacuity of `env_coherent_partial` (hypothesis: no round in progress — after a complete round, so that
the conclusion is about the NEW table, version 1). -/
example : (runG init (goodRound ++ goodRoundRest)).envOk = true ∧
    (runG init (goodRound ++ goodRoundRest)).ver = 1 :=
  ⟨env_coherent_partial _ (by decide), by decide⟩

example : (runG code (primRound ++ primRoundRest)).envOk = true :=
  env_coherent_partial_code _ (by decide)

/-- Non-vacuity of `env_published_partial`: the last line of the round of `goodRound` (14 of the 15 remaining
stopper steps taken; the stopper is at `resP .env 2`, past the end of the list). -/
example :
    let s := runG init (goodRound ++ List.replicate 14 (0, .step))
    s.stopper = some 0 ∧ G s 0 .step = true ∧
    (match step s 0 .step with
     | some s' => s'.stopper.isNone && s'.ver == 1
     | none => false) = true := by decide

example (s' : State) (hs : step (runG init (goodRound ++ List.replicate 14 (0, .step))) 0 .step = some s')
    (hend : s'.stopper = none) : s'.envOk = true :=
  env_published_partial _ 0 s' (by decide) hs (by decide) hend

/-! ## The park loop is necessary (stale unpark tokens)

`resume_threads` unparks EVERY registered thread, whether it parked or not: a thread that sat in a primitive during a
round (or was the stopper) keeps the token.  The models have that token (`resU`: `token := true`) and the step
`parking → exitCheck` (the `while` around `park()`).  `stepIf` is the variant in which the dispatch poll parks once
(`if paused { park() }`: `parking → retract`); under the SAME guard `G` — no stop request reaches a leaving thread, no
overlap with a spawn or an interrupt — it violates the scan clause with one stale token.  (Translator fact + obligation
`park_is_in_a_loop`, `GenExits.lean`; forced on the real engine by corpus/C15/stale_token*.sched.) -/

/-- `step` with `park_thread_while_paused` waiting once. -/
def stepIf (s : State) (t : Tid) (a : Act) : Option State :=
  match s.threads[t]? with
  | none => none
  | some th =>
    match a, th.pc with
    | .step, .parking .poll =>
        if th.token then some (s.put t { th with token := false, pc := .retract .poll }) else none
    | _, _ => step s t a

def runIfG (s : State) : List (Tid × Act) → State
  | [] => s
  | (t, a) :: rest =>
      if G s t a then
        match stepIf s t a with
        | none => s
        | some s' => runIfG s' rest
      else s

/-- Thread 1 sits in a primitive during a first round of thread 0 (and keeps the token of `resume_threads`); in a
second round it polls, publishes and parks, thread 0 begins to replace its table, … -/
def staleToken : List (Tid × Act) :=
  [(0, .spawn)] ++ List.replicate 3 (0, .step) ++ [(1, .callPrim), (0, .setGlobal)] ++ List.replicate 27 (0, .step) ++
  List.replicate 3 (1, .step) ++                                    -- 1: the primitive returns; it leaves; token = true
  [(0, .setGlobal)] ++ List.replicate 9 (0, .step) ++               -- 0: second round: stop requests sent
  [(1, .poll)] ++ List.replicate 3 (1, .step) ++                    -- 1: sees paused, publishes, `park()`
  List.replicate 3 (0, .step) ++                                    -- 0: drain_env; self; scanBegin 1
  [(1, .step), (1, .step)]                                          -- 1: park() returns at once (stale token) …

/-- … with the loop it re-tests `paused` and parks again (scanned all the time, every line accepted by the guard); -/
theorem staleToken_loop_reparks :
    runG code staleToken = run code staleToken ∧
    (run code staleToken).threads.map (fun th => (th.pc, th.scanned, th.token)) =
      [(.acc .env 0 1, 0, true), (.parking .poll, 1, false)] ∧ (run code staleToken).scanOk = true := by decide

/-- … parking once it retracts and dispatches while its table is being replaced — the guard accepts every line. -/
theorem staleToken_if_violates :
    (runIfG code staleToken).threads.map (fun th => (th.pc, th.scanned)) = [(.acc .env 0 1, 0), (.run, 1)] ∧
    (runIfG code staleToken).scanOk = false := by decide

/-! ## The repaired handshake: both statements at full strength

`ModelR.lean` is the model of the code with the proposed repairs applied (K15a: every safepoint exit retracts and
then re-checks the stop request — `/verif/.build/C15/proposed-fix-K15a.diff`; K15b: `spawn-native-thread` holds the
heap lock from before it clones its state until the child is registered — `proposed-fix-K15b.diff`; K17a/K17c: the
controller is one word of request bits, every operation one atomic read-modify-write, the exit loops wait on STOP
only — `proposed-fix-K17ac.diff`; `R.interrupt_not_lost`, `R.poll_delivers`).  For that model the invariant (`LemmasR.lean`) is preserved by
EVERY step (`R.step_inv`, no guard), so the two C15 statements hold for every number of threads and every schedule,
including host interrupts / resumes on any controller and spawns at any time. -/

/-- **C15 (scan), full strength, repaired handshake.** -/
theorem scan_exclusive_repaired (sched : List (R.Tid × R.Act)) : (R.run R.init sched).scanOk = true :=
  R.scan_exclusive sched

/-- **C15 (global table), full strength, repaired handshake.** -/
theorem env_coherent_repaired (sched : List (R.Tid × R.Act)) :
    (R.run R.init sched).noRound = true → (R.run R.init sched).envOk = true :=
  R.env_coherent sched

/-- The K15a / K15b interleavings on the repaired model (by evaluation): the leaving thread re-checks, sees the
request and publishes itself again while it is being scanned; the spawn waits for the round and the child inherits
the new table. -/
example : ((R.run R.init R.exitRaceR).th 1).pc = .parking .prim ∧ ((R.run R.init R.exitRaceR).th 1).scanned = 1 := by
  decide

/-! ## Clauses of the property not carried by a theorem

* WHICH MODEL IS THE CODE.  Since /repo 51ca93da (K15a) and 467a8def (K15b) the exits and the spawn of the code are those
  of `ModelR` (`GenExits.lean`: `exit_rechecks_after_retract`, `stop_requests_fenced`, `spawn_registers_under_heap_lock`,
  regenerated from the source on every run, no exceptions left; the check runs the witnesses on `Driver repaired`).
  The CONTROLLER of the code is still the two cells `paused` / `state` (`controllerOneWord = false`): `ModelR` is the model
  of the code for schedules WITHOUT `interrupt()` / `suspend()`; there `scan_exclusive_repaired` / `env_coherent_repaired`
  have no excluded interleaving.  With a host interrupt the code still violates the scan clause: the exit loops of
  `enter_safepoint` `break` on `Interrupted`, so a thread that is being scanned inside a primitive leaves when
  `interrupt()` arrives (finding K15c, forced deterministically: findings/C15-K15c.sched; in `Model.lean` it is the guard
  clause "no interrupt during a round"), and K17a / K17c.  The repair is the one-word controller of `ModelR`
  (/verif/.build/C15/proposed-fix-K17ac.diff); with it `ModelR` is the model of the code for ALL schedules.
  The theorems about `Model.lean` (`*_partial`, `not_*`) are about the code before those commits.
* Relaxed atomics.  Both models are sequentially consistent.  The ONE place where that matters for the repaired
  handshake is the Dekker pair  [stopper: `paused.store(true)` … `ctx.load()`]  vs  [thread: `ctx.store(None)` …
  `paused.load()`]: with a store buffer on either side (x86 allows store→load reordering; the code's
  `paused` accesses are `Relaxed` and `AtomicCell` stores are `Release`) both loads can miss the other side's
  store, i.e. the thread reads "not stopped" and the stopper reads "published".  `R.Litmus` (below, `LitmusR.lean`)
  states it: with a one-slot store buffer for the two stores the bad outcome is reachable (`sb_buffered_bad`),
  with a fence between each store and the following load it is not (`sb_fenced_safe`, all interleavings).  The
  K15a patch therefore adds `fence(SeqCst)` after `ctx.store(None)` and at the end of `stop_threads` and makes the
  `paused` loads of the exit paths `SeqCst`.  For the code as it is a delayed `paused` store only widens the window
  `G` already excludes.
* Host-side definitions and assignments (`Engine::update_value`, `register_value`, `register_fn`): in the models every
  global update is a `setGlobal` of SOME thread; that the host entry points go through `with_locked_env` behind a kept
  heap-lock guard is `C16.gate_keeps_guard` (table) and the host-side scenario family of the check (differential, oracle
  = one sequentially consistent store).  Redefinitions of an existing name make a fresh binding in steel (code compiled
  earlier keeps the old one, single-threaded as well): not part of this property.
* A collection's marking phase: the models' `gc` round has nothing between the scan of the last thread and
  `resume_threads`; that the code marks in between while everybody else is still stopped is `collection_resumes_last`
  (table) and the forced schedule corpus/C15/gc_marking.sched (needs the hooks gc.mark.begin / gc.mark.end).
* "resumes with state consistent with the operation's result": only the VERSION of the global table a thread
  holds (`env`) is modelled; a collection changes nothing in the model.  That the table with that version
  contains the completed definition, that a thread's stack, open upvalues and JIT frames are what the collector
  or the table swap left, is not modelled.
* "A definition or assignment … completed by one thread is seen by every thread afterwards": theorem only for
  states with no round in progress; a thread spawned later inherits the spawner's table (model: `env := th.env`).
* "blocked inside a primitive": one kind `prim` stands for `call_primitive_func`, `call_boxed_func`, `make_box`,
  lock acquisition and the JIT's helper calls; that each of those real paths publishes the thread is the
  regenerated table of C16 (`blocking_paths_publish`, with exceptions K16b).
* "2..8 script threads running arbitrary mixes of computation, allocation …": any number of threads, but the
  computation between shared accesses is not modelled (a thread at `run` owns its stack; the hook of the real
  engine asserts that no instruction is dispatched while the thread is being scanned).
* The raw pointer's validity after a thread exits (`done` threads are skipped by pc, not by a dangling `ctx`);
  `thread-suspend!` (SUSPEND bit / `Suspended` state) is in neither model.
`goodRound_*`, `primRound_*`, `R.exitRaceR_*`, `R.lateRegistrationR_*` are TESTS of the models on schedules (by
`decide`), not general claims. -/

end SteelVerif.C15
