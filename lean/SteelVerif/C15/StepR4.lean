/-
C15 (repaired model MR) — every step preserves the invariant: the case analysis.
-/
import SteelVerif.C15.StepR3
namespace SteelVerif.C15.R
set_option linter.unusedSimpArgs false
set_option linter.unusedVariables false

theorem idle_simple (p : PC) (h : p.isStopper = false) (hc : child p = none) : idle p = true := by
  simp [idle, h, hc]

macro "idl" : tactic => `(tactic| (intro _; constructor <;> simp_all [idle, PC.isStopper, child, leavePC]))

theorem tlock_none_of {s : State} (h : Inv s) {t : Nat} (ht : t < s.n) (hh : holdsH (s.th t).pc = true)
    (hT : holdsT (s.th t).pc = false) : s.tlock = none := by
  have := h.tl
  rw [(spc_of_holds h ht hh).2, hT] at this
  simpa using this

/-- **Every step of the repaired transition system preserves the invariant — no guard.** -/
theorem step_inv {s s' : State} {t : Nat} {a : Act} (h : Inv s) (hs : step s t a = some s') : Inv s' := by
  by_cases ht : t < s.n
  case neg => simp [step, ht] at hs
  cases a with
  | hostInt =>
    simp only [step, ht, if_true] at hs; cases hs
    exact inv_local h ht (tp_intr true (h.thr t ht)) (fun _ => rfl)
  | hostRes =>
    simp only [step, ht, if_true] at hs; cases hs
    exact inv_local h ht (tp_intr false (h.thr t ht)) (fun _ => rfl)
  | poll =>
    cases hpc : (s.th t).pc <;> simp only [step, ht, if_true, hpc] at hs <;> try (cases hs; done)
    by_cases hi : (s.th t).intr = true
    · rw [if_pos hi] at hs; cases hs
      exact inv_move h ht (fun p h0 => tp_run_to h0 hpc .done (Or.inl rfl)) (by idl)
    · rw [if_neg hi] at hs
      by_cases hst : (s.th t).stop = true
      · rw [if_pos hst] at hs; cases hs
        exact inv_move h ht (fun p h0 => tp_run_to h0 hpc .pubStore (Or.inr rfl)) (by idl)
      · rw [if_neg hst] at hs; cases hs; exact h
  | callPrim =>
    cases hpc : (s.th t).pc <;> simp only [step, ht, if_true, hpc] at hs <;> try (cases hs; done)
    cases hs
    exact inv_move h ht (fun p h0 => tp_from_run h0 hpc (.inSafe .prim) true
      (Or.inr (Or.inr ⟨_, rfl, rfl, Or.inl rfl⟩))) (by idl)
  | alloc =>
    cases hpc : (s.th t).pc <;> simp only [step, ht, if_true, hpc] at hs <;> try (cases hs; done)
    cases hs
    exact inv_move h ht (fun p h0 => tp_from_run h0 hpc (.inSafe .alloc) true
      (Or.inr (Or.inr ⟨_, rfl, rfl, Or.inr (Or.inl rfl)⟩))) (by idl)
  | setGlobal =>
    cases hpc : (s.th t).pc <;> simp only [step, ht, if_true, hpc] at hs <;> try (cases hs; done)
    cases hs
    exact inv_move h ht (fun p h0 => tp_from_run h0 hpc (.inSafe .gate) true
      (Or.inr (Or.inr ⟨_, rfl, rfl, Or.inr (Or.inr (Or.inl rfl))⟩))) (by idl)
  | spawn =>
    cases hpc : (s.th t).pc <;> simp only [step, ht, if_true, hpc] at hs <;> try (cases hs; done)
    cases hs
    exact inv_move h ht (fun p h0 => tp_from_run h0 hpc (.inSafe .spawnH) true
      (Or.inr (Or.inr ⟨_, rfl, rfl, Or.inr (Or.inr (Or.inr rfl))⟩))) (by idl)
  | finish =>
    cases hpc : (s.th t).pc <;> simp only [step, ht, if_true, hpc] at hs <;> try (cases hs; done)
    cases hs
    exact inv_move h ht (fun p h0 => tp_run_to h0 hpc .done (Or.inl rfl)) (by idl)
  | gc =>
    cases hpc : (s.th t).pc <;> simp only [step, ht, if_true, hpc] at hs <;> try (cases hs; done)
    have htl := tlock_none_of h ht (by simp [hpc, holdsH]) (by simp [hpc, holdsT])
    simp only [stopBegin, htl, Option.isSome_none, Bool.false_eq_true, if_false] at hs
    cases hs
    exact case_stopBegin h ht .gc (Or.inl hpc)
  | spurious =>
    cases hpc : (s.th t).pc <;> simp only [step, ht, if_true, hpc] at hs <;> try (cases hs; done)
    cases hs
    exact inv_move h ht (fun p h0 => tp_unpark (s.th t).token h0 hpc) (by idl)
  | step =>
    cases hpc : (s.th t).pc with
    | run => simp only [step, ht, if_true, hpc] at hs; cases hs
    | done => simp only [step, ht, if_true, hpc] at hs; cases hs
    | pubStore =>
      simp only [step, ht, if_true, hpc] at hs; cases hs
      exact inv_move h ht (fun p h0 => tp_pub h0 hpc) (by idl)
    | inSafe k =>
      simp only [step, ht, if_true, hpc] at hs
      by_cases hk : isHeapKind k = true
      · simp only [hk, if_true] at hs
        cases hl : s.hlock with
        | some b => simp [hl] at hs
        | none =>
          simp only [hl, Option.isSome_none, Bool.false_eq_true, if_false] at hs
          cases hs
          refine inv_acquire h ht hl (by simp [idle, PC.isStopper, child]) ?_
          intro h0; exact tp_lock h0 hpc hk
      · simp only [hk, if_false] at hs
        by_cases hp : k = .prim
        · subst hp
          simp only [if_true] at hs; cases hs
          exact inv_move h ht (fun p h0 => tp_primret h0 hpc) (by idl)
        · simp only [hp, if_false] at hs; cases hs
    | regWait c =>
      simp only [step, ht, if_true, hpc] at hs
      have htl := tlock_none_of h ht (by simp [hpc, holdsH]) (by simp [hpc, holdsT])
      simp only [htl, Option.isSome_none, Bool.false_eq_true, if_false] at hs
      cases hs
      exact case_regWait h ht hpc
    | exitCheck k =>
      simp only [step, ht, if_true, hpc] at hs
      by_cases hst : (s.th t).stop = true
      · rw [if_pos hst] at hs; cases hs
        exact inv_move h ht (fun p h0 => tp_exit_stop h0 hpc hst) (by idl)
      · rw [if_neg hst] at hs; cases hs
        exact inv_move h ht (fun p h0 => tp_exit_free h0 hpc) (by idl)
    | parking k =>
      simp only [step, ht, if_true, hpc] at hs
      by_cases htk : (s.th t).token = true
      · rw [if_pos htk] at hs; cases hs
        exact inv_move h ht (fun p h0 => tp_unpark false h0 hpc) (by idl)
      · rw [if_neg htk] at hs; cases hs
    | retract k =>
      simp only [step, ht, if_true, hpc] at hs; cases hs
      exact inv_move h ht (fun p h0 => tp_retract h0 hpc) (by idl)
    | recheck k =>
      simp only [step, ht, if_true, hpc] at hs
      by_cases hst : (s.th t).stop = true
      · rw [if_pos hst] at hs; cases hs
        exact inv_move h ht (fun p h0 => tp_recheck_stop h0 hpc) (by idl)
      · rw [if_neg hst] at hs
        have hst' : (s.th t).stop = false := by simpa using hst
        by_cases hk : k = .reg
        · subst hk
          simp only [if_true] at hs; cases hs
          obtain ⟨hh, _⟩ := spc_of_holds h ht (by simp [hpc, holdsH, holdsKind])
          refine inv_release h ht hh (by simp [hpc, idle, PC.isStopper, child]) ?_
          intro h0; exact tp_unlock h0 (Or.inr ⟨hpc, hpc⟩)
        · simp only [hk, if_false] at hs; cases hs
          exact inv_move h ht (fun p h0 => tp_leave h0 hpc hst' hk)
            (by intro _; constructor <;> cases k <;> simp_all [idle, PC.isStopper, child, leavePC])
    | republish k =>
      simp only [step, ht, if_true, hpc] at hs; cases hs
      exact inv_move h ht (fun p h0 => tp_republish h0 hpc) (by idl)
    | allocd =>
      simp only [step, ht, if_true, hpc] at hs; cases hs
      obtain ⟨hh, _⟩ := spc_of_holds h ht (by simp [hpc, holdsH])
      refine inv_release h ht hh (by simp [hpc, idle, PC.isStopper, child]) ?_
      intro h0; exact tp_unlock h0 (Or.inl ⟨hpc, hpc⟩)
    | envReady =>
      simp only [step, ht, if_true, hpc] at hs
      have htl := tlock_none_of h ht (by simp [hpc, holdsH]) (by simp [hpc, holdsT])
      simp only [stopBegin, htl, Option.isSome_none, Bool.false_eq_true, if_false] at hs
      cases hs
      exact case_stopBegin h ht .env (Or.inr hpc)
    | spawnReady =>
      simp only [step, ht, if_true, hpc] at hs; cases hs
      exact case_spawnReady h ht hpc
    | regEnter c =>
      simp only [step, ht, if_true, hpc] at hs; cases hs
      exact case_regEnter h ht hpc
    | stopP o i => exact case_stopP h ht hpc s' hs
    | scanLock o ph => exact case_scanLock h ht hpc s' hs
    | spin o ph i => exact case_spin h ht hpc s' hs
    | acc o ph i => exact case_acc h ht hpc s' hs
    | resLock o => exact case_resLock h ht hpc s' hs
    | resP o i => exact case_resP h ht hpc s' hs
    | resU o i => exact case_resU h ht hpc s' hs

end SteelVerif.C15.R
