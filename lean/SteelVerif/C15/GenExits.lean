/-
C15 — obligations over the table regenerated from /repo by translate/c15_exits.py (`GenExitsTable.lean`): every
`ctx.store(None)` of steel_vm/vm.rs (a thread leaves a safepoint), the end of `stop_threads`, and the order
heap-lock / clone / registration in `spawn_native_thread`.

These are what ties the REPAIRED model (`ModelR.lean`) to the source: the model's `retract → recheck → republish`
exists in the code iff every exit site re-reads the request word after its retraction (with a SeqCst fence in between:
`R.Litmus`), can publish again, and `stop_threads` fences its requests; the model's spawn under the heap lock exists iff
`spawnLocked`.  `codeIsRepaired` selects the model the check compares the real engine against (`Driver repaired`).
While K15a / K15b are OPEN findings the sites are excused (`openK15a`, `openK15b`, generated from KNOWN_FINDINGS.txt); once
they are `fixed:` the lists are empty and removing a re-check, a fence or the spawn guard breaks an obligation.
-/
import SteelVerif.C15.GenExitsTable
namespace SteelVerif.C15

def ExitSite.repaired (e : ExitSite) : Bool := e.rechecks && e.fenced && e.republishes

/-- The model of the code is the repaired handshake (`ModelR`), not `Model` with `fix`. -/
def codeIsRepaired : Bool := exitSites.all ExitSite.repaired && stopFenced && spawnLocked

/-- **Every safepoint exit re-checks the stop request after its retraction** (fenced, and can publish again). -/
theorem exit_rechecks_after_retract : ∀ e ∈ exitSites, e.fn ∉ openK15a → e.repaired = true := by decide

/-- The stopper's half of the handshake: its requests are fenced before it reads `ctx`. -/
theorem stop_requests_fenced : openK15a = [] → stopFenced = true := by decide

/-- **A child is created and registered under the heap lock.** -/
theorem spawn_registers_under_heap_lock : openK15b = false → spawnLocked = true := by decide

/-- **The controller is one word of request bits and no exit loop leaves on an interrupt** (K15c, K17a, K17c). -/
theorem controller_is_one_word : openController = false → controllerOneWord = true := by decide

/-- **Every `park()` of the handshake sits inside a `while` that re-tests the request word** — the nearest enclosing
loop of each call.  `park()` may return at any time (a token left by an earlier `resume_threads`, which unparks every
registered thread whether it parked or not; a spurious wake-up): the models have the step `spurious` and the step
`parking → exitCheck` (never `parking → run`), and that edge exists in the code iff this holds. -/
theorem park_is_in_a_loop : ∀ p ∈ parkSites, p.inLoop = true := by decide

theorem parks_nonempty : 3 ≤ parkSites.length ∧ (parkSites.any fun p => p.fn == "park_thread_while_paused") = true := by
  decide

/-- **`resume_threads` is the LAST step of a full collection**: the function that stops the world and walks the other
threads' stacks does not resume them, and every `resume_threads()` of values/closed.rs stands after the marking call and
after the bump of the root generation — the other threads are parked for the WHOLE marking (the models' `gc` round:
`stopP … spin/acc … resLock`, nothing between the scan and the resume that another thread could interleave with). -/
theorem collection_resumes_last : markHasNoResume = true ∧ resumeAfterMark = true := by decide

/-- The extraction is not empty: the three exits of the code are there. -/
theorem exits_nonempty :
    3 ≤ exitSites.length ∧ (exitSites.any fun e => e.fn == "enter_safepoint") = true ∧
    (exitSites.any fun e => e.fn == "enter_safepoint_once") = true ∧
    (exitSites.any fun e => e.fn == "safepoint_or_interrupt") = true := by decide

/-- The exception list is tight: an excused function still has an unrepaired exit, or the finding is not open. -/
theorem open_exceptions_tight :
    codeIsRepaired = true ∨ openK15a = [] ∨ (openK15a.all fun n => exitSites.any fun e => e.fn == n && !e.repaired) = true := by
  decide

end SteelVerif.C15
