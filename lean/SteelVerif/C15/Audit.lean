import SteelVerif.C15.Props
open SteelVerif.C15
#print axioms step_inv
#print axioms runG_inv
#print axioms scan_exclusive_partial
#print axioms scan_exclusive_partial_pointwise
#print axioms exitRace_violates
#print axioms not_scan_exclusive
#print axioms exitRace_guard
#print axioms env_coherent_partial
#print axioms env_published_partial
#print axioms lateRegistration_violates
#print axioms not_env_coherent
#print axioms goodRound_scans
#print axioms goodRound_completes
#print axioms scan_exclusive_partial_code
#print axioms env_coherent_partial_code
#print axioms not_scan_exclusive_code
#print axioms not_env_coherent_code
#print axioms goodRound_completes_code
#print axioms inv_scan
#print axioms primRound_scans
#print axioms primRound_completes
