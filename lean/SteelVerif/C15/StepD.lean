/-
C15 / C16 — preservation, part D: `stop_threads` and `enumerate_stacks` / `call_per_ctx`.
-/
import SteelVerif.C15.StepC
namespace SteelVerif.C15
set_option linter.unusedSimpArgs false
set_option linter.unusedVariables false

variable {s : State} {t : Tid} {th : Thread}

theorem none_le {l : List Thread} {i : Nat} (h : l[i]? = none) : l.length ≤ i := by
  rcases Nat.lt_or_ge i l.length with h1 | h1
  · rw [List.getElem?_eq_getElem h1] at h; cases h
  · exact h1

theorem le_iff_lt_of_ne {u i : Nat} (h : u ≠ i) : (u ≤ i) ↔ (u < i) := by
  constructor <;> intro h' <;> omega

theorem dec_le_lt {u i : Nat} (h : u ≠ i) : decide (u ≤ i) = decide (u < i) := by
  rw [decide_eq_decide]; exact le_iff_lt_of_ne h

macro "self_tac" hself:ident hpc:ident : tactic =>
  `(tactic| (
    obtain ⟨q1, q2, q3, q4, q5, q6, q7, q8, q9⟩ := $hself
    rw [$hpc:ident] at q1 q6 q7 q8 q9
    refine ⟨?_, ?_, ?_, ?_, ?_, ?_, ?_, ?_, ?_⟩ <;>
    simp_all [ownEnv, heldReq, holdsH, ownPaused, PC.isStopper]))

theorem case_stopP (o : Op) (i : Nat) (h : Inv s) (hth : s.threads[t]? = some th)
    (hpc : th.pc = .stopP o i) (hg : G s t .step = true) (s' : State)
    (hs : step s t .step = some s') : Inv s' := by
  have hst := stopper_of_pc h hth (by simp [hpc, PC.isStopper])
  have hself := (h.thr t th hth).1 hst
  simp only [step, hth, hpc] at hs
  split at hs
  · -- end of the list
    rename_i hi
    cases hs
    have hle := none_le hi
    refine inv_stop_self (s1 := { s with tlock := none }) h hst hth ⟨rfl, rfl, rfl, rfl, rfl⟩ ?_
      (by simp [isAcc]) ?_ (by simp [holdsT])
    · show TPself s.ver _ _ _ _
      self_tac hself hpc
    · intro u thu hua hu
      have hul := lt_of_get hu
      rw [hpc]
      refine ⟨?_, ?_, ?_, ?_⟩
      · have : u < i := Nat.lt_of_lt_of_le hul hle
        simp [covered, this]
      · simp [isAcc]
      · simp [beforeUnpark]
      · intro _; cases o <;> simp [expEnv]
  · rename_i x hi
    have hgx : i = t ∨ (x.pc.leaving = false ∧ x.st ≠ .interrupted) := by
      simp only [G, hth, hpc, hi] at hg
      simpa using hg
    split at hs
    · -- the stopper's own entry
      rename_i hit
      cases hs
      subst hit
      refine inv_stop_self (s1 := s) h hst hth ⟨rfl, rfl, rfl, rfl, rfl⟩ ?_ (by simp [isAcc]) ?_ ?_
      · self_tac hself hpc
      · intro u thu hua hu
        rw [hpc]
        refine ⟨?_, ?_, ?_, ?_⟩
        · simp only [covered]; exact dec_le_lt hua
        · simp [isAcc]
        · simp [beforeUnpark]
        · intro _; cases o <;> simp [expEnv]
      · have := h.tl; rw [spc_of_stopper hst hth, hpc] at this; simpa [holdsT, hst] using this
    · rename_i hit
      have hxc := (h.thr i x hi).2 (by rw [hst]; intro hh; exact hit (Option.some.inj hh).symm)
      rw [proj_at hst hth, hpc] at hxc
      split at hs
      · rename_i hr
        cases hs
        have hgx' := hgx.resolve_left hit
        refine inv_stop_tgt h hst hth hit hi ?_ (by simp [isAcc]) ?_ ?_ ?_
        · self_tac hself hpc
        · intro u thu hua hui hu
          rw [hpc]
          refine ⟨?_, ?_, ?_, ?_⟩
          · simp only [covered]; exact dec_le_lt hui
          · simp [isAcc]
          · simp [beforeUnpark]
          · intro _; cases o <;> simp [expEnv]
        · intro _
          obtain ⟨h1, h2, h3, h4, h5, h6, h7, h8, h9, h10⟩ := hxc
          simp only [projAt, covered, isAcc, beforeUnpark] at *
          refine ⟨h1, h2, ?_, ?_, ?_, ?_, ?_, ?_, ?_, ?_⟩
          · simpa using h3
          · simp
          · intro _; exact h5 trivial
          · intro _; exact ⟨rfl, hgx'.2, hgx'.1⟩
          · intro hd; have := h7 hd; cases o <;> simpa [expEnv] using this
          · exact h8
          · intro hh; have := h9 hh
            exact ⟨by simp, this.2.1, this.2.2.1, fun _ _ => rfl⟩
          · intro _; simp
        · have := h.tl; rw [spc_of_stopper hst hth, hpc] at this; simpa [holdsT, hst] using this
      · rename_i hr
        exfalso
        have := (hxc.act rfl).1
        exact hr this

theorem lt_succ_iff_lt_of_ne {u i : Nat} (h : u ≠ i) : (u < i + 1) ↔ (u < i) := by
  constructor <;> intro h' <;> omega

theorem dec_lt_succ {u i : Nat} : decide (u < i + 1) = decide (u ≤ i) := by
  rw [decide_eq_decide]; exact Nat.lt_succ_iff

/-- `tlock` as the invariant gives it for a stopper at pc `p`. -/
theorem tl_of {s : State} (h : Inv s) {t : Tid} {th : Thread} (hst : s.stopper = some t)
    (hth : s.threads[t]? = some th) : s.tlock = if holdsT th.pc = true then some t else none := by
  have := h.tl; rw [spc_of_stopper hst hth, hst] at this; exact this

theorem core_set_st {pr : Proj} {x : Thread} (v : TState) (hv : v ≠ .interrupted) (h : TPcore pr x) :
    TPcore pr { x with st := v } := by
  obtain ⟨h1, h2, h3, h4, h5, h6, h7, h8, h9, h10⟩ := h
  refine ⟨h1, h2, h3, h4, h5, ?_, h7, h8, ?_, h10⟩
  · intro hc; have := h6 hc; exact ⟨this.1, hv, this.2.2⟩
  · intro hh; have := h9 hh; exact ⟨this.1, hv, this.2.2.1, this.2.2.2⟩

theorem core_set_token {pr : Proj} {x : Thread} (h : TPcore pr x) :
    TPcore pr { x with token := true } := by
  obtain ⟨h1, h2, h3, h4, h5, h6, h7, h8, h9, h10⟩ := h
  refine ⟨h1, h2, h3, h4, h5, h6, h7, h8, ?_, h10⟩
  intro hh; have := h9 hh
  exact ⟨this.1, this.2.1, this.2.2.1, fun _ hf => by simp at hf⟩

theorem case_stopS (o : Op) (i : Nat) (h : Inv s) (hth : s.threads[t]? = some th)
    (hpc : th.pc = .stopS o i) (s' : State) (hs : step s t .step = some s') : Inv s' := by
  have hst := stopper_of_pc h hth (by simp [hpc, PC.isStopper])
  have hself := (h.thr t th hth).1 hst
  have htl := tl_of h hst hth
  rw [hpc] at htl
  have hp : ∀ u, covered (.stopP o (i + 1)) u = covered (.stopS o i) u ∧
      isAcc (.stopP o (i + 1)) u = isAcc (.stopS o i) u ∧
      beforeUnpark (.stopP o (i + 1)) u = beforeUnpark (.stopS o i) u ∧
      expEnv (.stopP o (i + 1)) u s.ver = expEnv (.stopS o i) u s.ver := by
    intro u
    refine ⟨?_, ?_, ?_, ?_⟩
    · simp only [covered]; exact dec_lt_succ
    · simp [isAcc]
    · simp [beforeUnpark]
    · cases o <;> simp [expEnv]
  simp only [step, hth, hpc] at hs
  split at hs
  · cases hs
    refine inv_stop_self (s1 := s) h hst hth ⟨rfl, rfl, rfl, rfl, rfl⟩ ?_ (by simp [isAcc]) ?_ ?_
    · self_tac hself hpc
    · intro u thu hua hu
      rw [hpc]
      obtain ⟨a1, a2, a3, a4⟩ := hp u
      exact ⟨a1, a2, a3, fun _ => a4⟩
    · simpa [holdsT] using htl
  · rename_i hit
    cases hs
    unfold State.upd
    cases hi : s.threads[i]? with
    | none =>
      simp only
      refine inv_stop_self (s1 := s) h hst hth ⟨rfl, rfl, rfl, rfl, rfl⟩ ?_ (by simp [isAcc]) ?_ ?_
      · self_tac hself hpc
      · intro u thu hua hu
        rw [hpc]
        obtain ⟨a1, a2, a3, a4⟩ := hp u
        exact ⟨a1, a2, a3, fun _ => a4⟩
      · simpa [holdsT] using htl
    | some x =>
      simp only
      refine inv_stop_tgt h hst hth hit hi ?_ (by simp [isAcc]) ?_ ?_ ?_
      · self_tac hself hpc
      · intro u thu hua hui hu
        rw [hpc]
        obtain ⟨a1, a2, a3, a4⟩ := hp u
        exact ⟨a1, a2, a3, fun _ => a4⟩
      · rw [hpc]
        intro hxc
        obtain ⟨a1, a2, a3, a4⟩ := hp i
        exact core_set_st _ (by simp) (core_of_eq hxc rfl a1 a2 a3 (fun _ => a4) rfl rfl rfl)
      · simpa [holdsT] using htl

theorem case_scanLock (o : Op) (ph : Nat) (h : Inv s) (hth : s.threads[t]? = some th)
    (hpc : th.pc = .scanLock o ph) (s' : State) (hs : step s t .step = some s') : Inv s' := by
  have hst := stopper_of_pc h hth (by simp [hpc, PC.isStopper])
  have hself := (h.thr t th hth).1 hst
  simp only [step, hth, hpc] at hs
  split at hs
  · cases hs
  · split at hs
    · -- drain_env
      cases hs
      refine inv_stop_self (s1 := { s with tlock := some t }) h hst hth ⟨rfl, rfl, rfl, rfl, rfl⟩ ?_
        (by simp [isAcc]) ?_ (by simp [holdsT])
      · show TPself s.ver _ _ _ _
        self_tac hself hpc
      · intro u thu hua hu
        rw [hpc]
        refine ⟨?_, ?_, ?_, ?_⟩
        · simp [covered]
        · simp [isAcc]
        · simp [beforeUnpark]
        · intro _; simp [expEnv]
    · -- the thunk
      rename_i hne
      cases hs
      cases ph with
      | zero => exact (hne rfl).elim
      | succ k =>
        refine inv_stop_self (s1 := { s with tlock := some t, ver := s.ver + 1 }) h hst hth
          ⟨rfl, rfl, rfl, rfl, rfl⟩ ?_ (by simp [isAcc]) ?_ (by simp [holdsT])
        · show TPself (s.ver + 1) _ _ _ _
          self_tac hself hpc
        · intro u thu hua hu
          rw [hpc]
          refine ⟨?_, ?_, ?_, ?_⟩
          · simp [covered]
          · simp [isAcc]
          · simp [beforeUnpark]
          · intro _; simp [expEnv]
    · cases hs
      refine inv_stop_self (s1 := { s with tlock := some t }) h hst hth ⟨rfl, rfl, rfl, rfl, rfl⟩ ?_
        (by simp [isAcc]) ?_ (by simp [holdsT])
      · show TPself s.ver _ _ _ _
        self_tac hself hpc
      · intro u thu hua hu
        rw [hpc]
        refine ⟨?_, ?_, ?_, ?_⟩
        · simp [covered]
        · simp [isAcc]
        · simp [beforeUnpark]
        · intro _; simp [expEnv]

theorem case_spin (o : Op) (ph i : Nat) (h : Inv s) (hth : s.threads[t]? = some th)
    (hpc : th.pc = .spin o ph i) (s' : State) (hs : step s t .step = some s') : Inv s' := by
  have hst := stopper_of_pc h hth (by simp [hpc, PC.isStopper])
  have hself := (h.thr t th hth).1 hst
  have htl := tl_of h hst hth
  rw [hpc] at htl
  simp only [step, hth, hpc] at hs
  split at hs
  · -- end of the list
    rename_i hi
    cases hs
    have hle := none_le hi
    refine inv_stop_self (s1 := { s with tlock := none }) h hst hth ⟨rfl, rfl, rfl, rfl, rfl⟩ ?_
      ?_ ?_ ?_
    · show TPself s.ver _ _ _ _
      cases o <;> cases ph <;> (simp only [afterScan]; self_tac hself hpc)
    · cases o <;> cases ph <;> simp [afterScan, isAcc]
    · intro u thu hua hu
      have hul : u < i := Nat.lt_of_lt_of_le (lt_of_get hu) hle
      rw [hpc]
      refine ⟨?_, ?_, ?_, ?_⟩
      · cases o <;> cases ph <;> simp [afterScan, covered]
      · cases o <;> cases ph <;> simp [afterScan, isAcc]
      · cases o <;> cases ph <;> simp [afterScan, beforeUnpark]
      · intro _; cases o <;> cases ph <;> simp [afterScan, expEnv, hul]
    · cases o <;> cases ph <;> simp [afterScan, holdsT]
  · rename_i x hi
    split at hs
    · -- skipped entry
      rename_i hsk
      cases hs
      refine inv_stop_self (s1 := s) h hst hth ⟨rfl, rfl, rfl, rfl, rfl⟩ ?_ (by simp [isAcc]) ?_ ?_
      · cases o <;> self_tac hself hpc
      · intro u thu hua hu
        rw [hpc]
        refine ⟨by simp [covered], by simp [isAcc], by simp [beforeUnpark], ?_⟩
        intro hd
        by_cases hui : u = i
        · subst hui
          rw [hi] at hu; cases hu
          rcases hsk with hsk | hsk | hsk
          · exact absurd hsk hua
          · have hxc := (h.thr u x hi).2 (by rw [hst]; intro hh; exact hua (Option.some.inj hh).symm)
            have := (hxc.act (by simp [proj_eq, hst])).1
            rw [hsk] at this; cases this
          · exact absurd hsk hd
        · have e : (u < i + 1) ↔ (u < i) := lt_succ_iff_lt_of_ne hui
          cases o <;> cases ph <;> simp [expEnv, e]
      · simpa [holdsT] using htl
    · rename_i hsk
      have hit : i ≠ t := fun e => hsk (Or.inl e)
      split at hs
      · -- published: scanBegin
        rename_i hctx
        cases hs
        refine inv_stop_tgt h hst hth hit hi ?_ ?_ ?_ ?_ ?_
        · cases o <;> self_tac hself hpc
        · simp [isAcc, hit]
        · intro u thu hua hui hu
          rw [hpc]
          refine ⟨by simp [covered], ?_, by simp [beforeUnpark], ?_⟩
          · simp [isAcc]; exact fun e => hui e.symm
          · intro _; cases o <;> cases ph <;> simp [expEnv]
        · rw [hpc]
          intro hxc
          obtain ⟨h1, h2, h3, h4, h5, h6, h7, h8, h9, h10⟩ := hxc
          refine ⟨h1, h2, ?_, ?_, h5, ?_, ?_, h8, ?_, ?_⟩
          · have : x.scanned = 0 := by simpa [projAt, isAcc] using h3
            simp [projAt, isAcc, this]
          · intro _; exact ⟨hctx, by simp [projAt, covered]⟩
          · intro _; exact h6 (by simp [projAt, covered])
          · intro hd; have := h7 hd
            cases o <;> cases ph <;> simpa [projAt, expEnv] using this
          · intro hh; have := h9 hh
            exact ⟨by simpa [projAt, covered] using this.1, this.2.1, this.2.2.1,
              fun _ _ => by simp [projAt, beforeUnpark]⟩
          · intro _; simp [projAt, beforeUnpark]
        · simpa [holdsT] using htl
      · cases hs; exact h

theorem case_acc (o : Op) (ph i : Nat) (h : Inv s) (hth : s.threads[t]? = some th)
    (hpc : th.pc = .acc o ph i) (s' : State) (hs : step s t .step = some s') : Inv s' := by
  have hst := stopper_of_pc h hth (by simp [hpc, PC.isStopper])
  have hself := (h.thr t th hth).1 hst
  have htl := tl_of h hst hth
  rw [hpc] at htl
  have hit : i ≠ t := by
    have := h.acs t hst
    rw [spc_of_stopper hst hth, hpc] at this
    simpa [isAcc] using this
  have hheld : o = .env → th.held = some s.ver := by
    intro ho; subst ho
    have := hself.held; rw [hpc] at this; exact this (by simp [heldReq])
  simp only [step, hth, hpc] at hs
  cases hs
  have hp : ∀ u, u ≠ i → covered (.spin o ph (i + 1)) u = covered (.acc o ph i) u ∧
      isAcc (.spin o ph (i + 1)) u = isAcc (.acc o ph i) u ∧
      beforeUnpark (.spin o ph (i + 1)) u = beforeUnpark (.acc o ph i) u ∧
      expEnv (.spin o ph (i + 1)) u s.ver = expEnv (.acc o ph i) u s.ver := by
    intro u hui
    refine ⟨by simp [covered], ?_, by simp [beforeUnpark], ?_⟩
    · simp [isAcc]; exact fun e => hui e.symm
    · have e : (u < i + 1) ↔ (u < i) := lt_succ_iff_lt_of_ne hui
      cases o <;> cases ph <;> simp [expEnv, e]
  unfold State.upd
  cases hi : s.threads[i]? with
  | none =>
    simp only
    refine inv_stop_self (s1 := s) h hst hth ⟨rfl, rfl, rfl, rfl, rfl⟩ ?_ (by simp [isAcc]) ?_ ?_
    · cases o <;> self_tac hself hpc
    · intro u thu hua hu
      have hui : u ≠ i := by intro e; subst e; rw [hi] at hu; cases hu
      rw [hpc]
      obtain ⟨a1, a2, a3, a4⟩ := hp u hui
      exact ⟨a1, a2, a3, fun _ => a4⟩
    · simpa [holdsT] using htl
  | some x =>
    simp only
    refine inv_stop_tgt h hst hth hit hi ?_ (by simp [isAcc]) ?_ ?_ ?_
    · cases o <;> self_tac hself hpc
    · intro u thu hua hui hu
      rw [hpc]
      obtain ⟨a1, a2, a3, a4⟩ := hp u hui
      exact ⟨a1, a2, a3, fun _ => a4⟩
    · rw [hpc]
      intro hxc
      obtain ⟨h1, h2, h3, h4, h5, h6, h7, h8, h9, h10⟩ := hxc
      have hsc : x.scanned = 1 := by simpa [projAt, isAcc] using h3
      have h6' := h6 (by simp [projAt, covered])
      cases o with
      | gc =>
        refine ⟨h1, h2, ?_, ?_, h5, ?_, ?_, h8, ?_, ?_⟩
        · simp [projAt, isAcc, hsc]
        · intro hh; simp [projAt, isAcc] at hh
        · intro _; exact h6'
        · intro hd; have := h7 hd; simpa [projAt, expEnv] using this
        · intro hh; have := h9 hh
          exact ⟨by simpa [projAt, covered] using this.1, this.2.1, this.2.2.1,
            fun _ _ => by simp [projAt, beforeUnpark]⟩
        · intro _; simp [projAt, beforeUnpark]
      | env =>
        have hh' := hheld rfl
        cases ph with
        | zero =>
          refine ⟨h1, h2, ?_, ?_, h5, ?_, ?_, h8, ?_, ?_⟩
          · simp [projAt, isAcc, hsc]
          · intro hh; simp [projAt, isAcc] at hh
          · intro _; exact h6'
          · intro hd; simp [projAt, expEnv]
          · intro hh; have := h9 hh
            exact ⟨by simpa [projAt, covered] using this.1, this.2.1, this.2.2.1,
              fun _ _ => by simp [projAt, beforeUnpark]⟩
          · intro _; simp [projAt, beforeUnpark]
        | succ k =>
          refine ⟨h1, h2, ?_, ?_, h5, ?_, ?_, h8, ?_, ?_⟩
          · simp [projAt, isAcc, hsc]
          · intro hh; simp [projAt, isAcc] at hh
          · intro _; exact h6'
          · intro hd; simp [projAt, expEnv, hh']
          · intro hh; have := h9 hh
            exact ⟨by simpa [projAt, covered] using this.1, this.2.1, this.2.2.1,
              fun _ _ => by simp [projAt, beforeUnpark]⟩
          · intro _; simp [projAt, beforeUnpark]
    · simpa [holdsT] using htl

end SteelVerif.C15
