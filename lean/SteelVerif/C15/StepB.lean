/-
C15 / C16 — preservation, part B: registration, spawn, the host's interrupt, the beginning of a round.
-/
import SteelVerif.C15.StepA
namespace SteelVerif.C15
set_option linter.unusedSimpArgs false
set_option linter.unusedVariables false

variable {s : State} {t : Tid} {th : Thread}

theorem all_get {l : List Thread} {f : Thread → Bool} (h : l.all f = true) {u : Nat} {x : Thread}
    (hu : l[u]? = some x) : f x = true := by
  rw [List.all_eq_true] at h
  exact h x (List.mem_of_getElem? hu)

theorem core_regret {pr : Proj} {th : Thread} (c : Tid) (h : TPcore pr th) (hpc : th.pc = .regWait c) :
    TPcore pr { th with pc := .exitCheck .prim } := by
  obtain ⟨h1, h2, h3, h4, h5, h6, h7, h8, h9, h10⟩ := h
  core_tac

theorem core_reg {pr : Proj} {x : Thread} (h : TPcore pr x) : TPcore pr { x with reg := true } := by
  obtain ⟨h1, h2, h3, h4, h5, h6, h7, h8, h9, h10⟩ := h
  core_tac

theorem self_reg {ver : Nat} {hl host fx : Bool} {x : Thread} (h : TPself ver hl host fx x) :
    TPself ver hl host fx { x with reg := true } := by
  obtain ⟨h1, h2, h3, h4, h5, h6, h7, h8, h9⟩ := h
  exact ⟨h1, h2, h3, rfl, h5, h6, h7, h8, h9⟩

/-- Marking a thread as registered preserves the invariant. -/
theorem inv_upd_reg (h : Inv s) (c : Tid) : Inv (s.upd c (fun x => { x with reg := true })) := by
  unfold State.upd
  cases hc : s.threads[c]? with
  | none => simpa using h
  | some x =>
    simp only
    have hspc : (s.put c { x with reg := true }).spc = s.spc := by
      rw [spc_put hc]; split
      · rename_i hs; simp [spc_of_stopper hs hc]
      · rfl
    have hproj : ∀ u, proj (s.put c { x with reg := true }) u = proj s u := by
      intro u; unfold proj; rw [hspc]; rfl
    refine ⟨?_, ?_, ?_, ?_, ?_⟩
    · intro u thu hu
      by_cases huc : u = c
      · subst huc
        rw [put_get_same hc] at hu; cases hu
        have := h.thr u x hc
        refine ⟨fun hs => self_reg (this.1 hs), fun hs => ?_⟩
        rw [hproj]; exact core_reg (this.2 hs)
      · rw [put_get_other huc] at hu
        have := h.thr u thu hu
        refine ⟨this.1, fun hs => ?_⟩
        rw [hproj]; exact this.2 hs
    · intro a ha; simp only [put_len]; exact h.stp a ha
    · simp only [put_tlock, put_stopper, hspc]; exact h.tl
    · intro y hy; simp only [put_len]; exact h.hlk y hy
    · intro a ha; rw [hspc]; exact h.acs a ha

theorem upd_get_other {s : State} {c u : Tid} {f : Thread → Thread} (h : u ≠ c) :
    (s.upd c f).threads[u]? = s.threads[u]? := by
  unfold State.upd
  cases hc : s.threads[c]? with
  | none => rfl
  | some x => simp only; exact put_get_other h

theorem case_regWait (c : Tid) (h : Inv s) (hth : s.threads[t]? = some th) (hpc : th.pc = .regWait c)
    (s' : State) (hs : step s t .step = some s') : Inv s' := by
  have hns : th.pc.isStopper = false := by simp [hpc, PC.isStopper]
  simp only [step, hth, hpc] at hs
  split at hs
  · cases hs
  · cases hs
    have h2 := inv_upd_reg h c
    by_cases hct : c = t
    · subst hct
      -- the update of `t` itself is overwritten
      have e : (s.upd c fun x => { x with reg := true }).put c { th with pc := .exitCheck .prim } =
          s.put c { th with pc := .exitCheck .prim } := by
        simp [State.upd, hth, State.put]
      rw [e]
      exact inv_mut0 h hth hns (fun pr hp => core_regret _ hp hpc)
    · have hth2 : (s.upd c fun x => { x with reg := true }).threads[t]? = some th := by
        rw [upd_get_other (Ne.symm hct)]; exact hth
      exact inv_mut0 h2 hth2 hns (fun pr hp => core_regret _ hp hpc)

/-! ## Spawn -/

/-- Appending a fresh thread (not registered, dispatching, holding the newest table) while no round is
in progress. -/
theorem inv_append {s1 : State} (h1 : Inv s1) (hst1 : s1.stopper = none) (e : Option Nat)
    (he : e = some s1.ver) : Inv { s1 with threads := s1.threads ++ [{ env := e }] } := by
  subst he
  have hspc1 : s1.spc = .run := spc_none hst1
  have hspc' : ({ s1 with threads := s1.threads ++ [{ env := some s1.ver }] } : State).spc = .run := by
    simp [State.spc, hst1]
  have hproj : ∀ u, proj ({ s1 with threads := s1.threads ++ [{ env := some s1.ver }] } : State) u
      = proj s1 u := by
    intro u; unfold proj; rw [hspc', hspc1]
  refine ⟨?_, ?_, ?_, ?_, ?_⟩
  · intro u thu hu
    simp only at hu
    by_cases hul : u < s1.threads.length
    · rw [List.getElem?_append_left hul] at hu
      have := h1.thr u thu hu
      refine ⟨fun hs => ?_, fun hs => ?_⟩
      · simp [hst1] at hs
      · rw [hproj]; exact this.2 (by simp [hst1])
    · have hul' : s1.threads.length ≤ u := Nat.le_of_not_lt hul
      rw [List.getElem?_append_right hul'] at hu
      have hu0 : u - s1.threads.length = 0 := by
        rcases Nat.eq_zero_or_pos (u - s1.threads.length) with h0 | h0
        · exact h0
        · rw [List.getElem?_eq_none (show _ ≤ _ from h0)] at hu; cases hu
      rw [hu0] at hu; simp at hu; subst hu
      refine ⟨fun hs => by simp [hst1] at hs, fun _ => ?_⟩
      rw [hproj]
      have hnl : ¬ (s1.hlock = some u) := by
        intro hh
        have h3 : u < s1.threads.length := h1.hlk u hh
        exact absurd h3 hul
      refine ⟨rfl, rfl, ?_, ?_, ?_, ?_, ?_, ?_, ?_, ?_⟩ <;>
        simp [proj, hspc1, isAcc, covered, expEnv, holdsH, beforeUnpark, PC.waiting, hst1, hnl]
  · intro a ha; simp [hst1] at ha
  · simp only [hspc']; simp [holdsT]
    have := h1.tl; rw [hspc1] at this; simpa [holdsT] using this
  · intro y hy
    have h3 : y < s1.threads.length := h1.hlk y hy
    show y < (s1.threads ++ [({ env := some s1.ver } : Thread)]).length
    rw [List.length_append]
    exact Nat.lt_of_lt_of_le h3 (Nat.le_add_right _ _)
  · intro a ha; simp [hst1] at ha

theorem case_spawn (h : Inv s) (hth : s.threads[t]? = some th) (hpc : th.pc = .run)
    (hg : s.stopper = none) (s' : State) (hs : step s t .spawn = some s') : Inv s' := by
  have hns : th.pc.isStopper = false := by simp [hpc, PC.isStopper]
  simp only [step, hth, hpc] at hs
  cases hs
  have hcore : ∀ pr, TPcore pr th → TPcore pr { th with ctx := true, pc := .regWait s.threads.length } := by
    intro pr hp
    obtain ⟨h1, h2, h3, h4, h5, h6, h7, h8, h9, h10⟩ := hp
    core_tac
  have h1 := inv_mut0 h hth hns hcore
  have henv : th.env = some s.ver := by
    have := ((h.thr t th hth).2 (by simp [hg])).env (by simp [hpc])
    simpa [proj, spc_none hg, expEnv] using this
  exact inv_append h1 (by simpa using hg) th.env (by rw [henv]; rfl)

/-! ## The host's `interrupt()` -/

theorem core_host {pr : Proj} {x : Thread} (h : TPcore pr x) : TPcore { pr with host := true } x := by
  obtain ⟨h1, h2, h3, h4, h5, h6, h7, h8, h9, h10⟩ := h
  exact ⟨h1, h2, h3, h4, h5, h6, h7, h8, fun hh => by simp at hh, h10⟩

theorem case_hostP (h : Inv s) (hth : s.threads[t]? = some th) (hg : s.stopper = none) (s' : State)
    (hs : step s t .hostP = some s') : Inv s' := by
  have hth' := (h.thr t th hth).2 (by simp [hg])
  have hns : th.pc.isStopper = false := hth'.nst
  have e : step s t .hostP = some ({ s with hostUsed := true }.put t { th with paused := true, hostMid := true }) := by
    simp only [step, hth]
  rw [e] at hs; cases hs
  refine inv_mut h hth hns ⟨rfl, rfl, rfl, rfl, rfl⟩ h.hlk (fun hp => ?_) ?_
  · have hc : (proj s t).cov = false := by simp [proj, spc_none hg, covered]
    have ha : (proj s t).active = false := by simp [proj, hg]
    have hacc : (proj s t).accd = false := by simp [proj, spc_none hg, isAcc]
    have e : proj { s with hostUsed := true } t = { proj s t with host := true } := by
      simp [proj, State.spc]
    rw [e]
    obtain ⟨h1, h2, h3, h4, h5, h6, h7, h8, h9, h10⟩ := hp
    refine ⟨?_, ?_, ?_, ?_, ?_, ?_, ?_, ?_, ?_, ?_⟩ <;> simp_all
  · intro u thu hut hu
    refine ⟨fun hh => ?_, fun hh => ?_⟩
    · obtain ⟨h1, h2, h3, h4, h5, h6, h7, h8, h9⟩ := hh
      exact ⟨h1, h2, h3, h4, h5, h6, h7, h8, fun hx => by simp at hx⟩
    · have e : proj { s with hostUsed := true } u = { proj s u with host := true } := by
        simp [proj, State.spc]
      rw [e]; exact core_host hh

theorem case_hostS (h : Inv s) (hth : s.threads[t]? = some th) (hg : s.stopper = none) (s' : State)
    (hs : step s t .hostS = some s') : Inv s' := by
  have hth' := (h.thr t th hth).2 (by simp [hg])
  have hns : th.pc.isStopper = false := hth'.nst
  have e : step s t .hostS =
      if th.hostMid then some (s.put t { th with st := .interrupted, hostMid := false }) else none := by
    simp only [step, hth]
  rw [e] at hs
  split at hs
  · rename_i hm
    cases hs
    refine inv_mut h hth hns ⟨rfl, rfl, rfl, rfl, rfl⟩ h.hlk (fun hp => ?_) (fun _ _ _ _ => ⟨id, id⟩)
    have hc : (proj s t).cov = false := by simp [proj, spc_none hg, covered]
    have hacc : (proj s t).accd = false := by simp [proj, spc_none hg, isAcc]
    obtain ⟨h1, h2, h3, h4, h5, h6, h7, h8, h9, h10⟩ := hp
    have hh : (proj s t).host = true := by
      cases hh : (proj s t).host
      · have := (h9 hh).2.2.1; rw [hm] at this; cases this
      · rfl
    have ha : (proj s t).active = false := by simp [proj, hg]
    refine ⟨?_, ?_, ?_, ?_, ?_, ?_, ?_, ?_, ?_, ?_⟩ <;> simp_all
  · cases hs

end SteelVerif.C15
