/-
C15 / C16 — model M of the stop-the-world handshake of `crates/steel-core/src/steel_vm/vm.rs`
(`Synchronizer`, `ThreadStateController`, `SteelThread::{enter_safepoint, with_locked_env}`,
`VmCore::{safepoint_or_interrupt, park_thread_while_paused}`), `steel_vm/vm/threads.rs`
(`spawn_native_thread`: the child runs before it is pushed to `threads`) and `values/closed.rs`
(`Heap::mark`: the collector holds the heap mutex and stops the world).

Any number of script threads; every access to a shared location (a thread's `paused` flag, its
`state`, its published pointer `ctx`, its park token, the `threads` mutex, the heap mutex) is one
atomic step of exactly one thread.  A thread's program counter names the access it performs next.
The model follows the code as it is, including
  * the two exit loops (`park_thread_while_paused`: no `Interrupted` break; `enter_safepoint`: break),
  * `stop_threads`: own controller first, then one `pause_for_safepoint()` per list entry = two stores,
  * `enumerate_stacks` / `call_per_ctx`: spin on `ctx.load()` per list entry while holding `threads`,
  * `resume_threads`: own controller, then per entry `resume()` (two stores) and `unpark()`,
  * `with_locked_env`: heap-lock gate (`let _ = enter_safepoint(|t| t.heap.lock_arc())`), stop,
    `drain_env`, `call_per_ctx(default_env)`, thunk, `call_per_ctx(update_env)`, own `update_env`, resume,
    (`State.fix = true`: the variant in which that guard is kept until `with_locked_env` returns),
  * an allocation: heap lock taken inside a safepoint and kept; a full collection stops the world
    while holding it,
  * `ThreadStateController::interrupt()` issued by the host / another thread: two stores.
Merged (no other thread can observe the difference): a stopper's two stores to its OWN controller
(nobody else reads them) together with the acquisition of the `threads` mutex that follows; thread-local
work (`drain_env`, the thunk, own `update_env`) with the next shared access; the heap unlock of the gate
with the retraction before it; `threads.lock().push(); unlock` of a registration.
List order = spawn order (the code: registration order).

Ghost (no counterpart in the code): `scanned` (how many stoppers are between `scanBegin t` and
`scanEnd t` on this thread's state), `stopper` (the thread that began the current round; meaningful when
rounds do not overlap), `hostUsed`.
-/
namespace SteelVerif.C15

abbrev Tid := Nat

inductive TState where
  | running | pausedAtSafepoint | interrupted
deriving DecidableEq, Repr, Inhabited

/-- Which safepoint a published thread is in. -/
inductive Kind where
  | poll    -- instruction-dispatch poll (`safepoint_or_interrupt`; exit loop `park_thread_while_paused`)
  | prim    -- `enter_safepoint` around a primitive call
  | alloc   -- `enter_safepoint(|t| t.heap.lock_arc())` of an allocation: the heap lock is kept
  | gate    -- the same in front of `with_locked_env` (`let _ = …`: the lock is dropped at once)
deriving DecidableEq, Repr, Inhabited

/-- The two world-stopping operations. -/
inductive Op where
  | gc | env
deriving DecidableEq, Repr, Inhabited

inductive PC where
  | run                                  -- dispatching instructions (owns its stack and global table)
  | sawPaused                            -- poll loaded `paused = true`; next: `state.load()`
  | pubStore                             -- next: `ctx.store(Some(self))` of the poll
  | inSafe (k : Kind)                    -- published, inside the `finish` closure (primitive / `lock_arc`)
  | regWait (c : Tid)                    -- published, closure of `spawn_native_thread` waits for `threads`
  | exitCheck (k : Kind)                 -- next: `paused.load()` of the exit loop
  | intCheck (k : Kind)                  -- next: `state.load()` (`break` on `Interrupted`; not for `poll`)
  | parking (k : Kind)                   -- next: `std::thread::park()`
  | retract (k : Kind)                   -- next: `ctx.store(None)`
  | allocd                               -- holds the heap lock: allocate (maybe collect), unlock
  | envReady                             -- gate passed: next `with_locked_env` → `stop_threads`
  -- stopper (`i` = index into `threads`)
  | stopP (o : Op) (i : Nat) | stopS (o : Op) (i : Nat)     -- `paused.store(true)`, `state.store(Paused…)`
  | scanLock (o : Op) (ph : Nat)         -- `threads.lock()` of `enumerate_stacks` / `call_per_ctx`
  | spin (o : Op) (ph : Nat) (i : Nat)   -- next: `ctx.load()` of entry `i`
  | acc (o : Op) (ph : Nat) (i : Nat)    -- after `scanBegin i`: foreign access, then `scanEnd i`
  | resLock (o : Op)                     -- own `resume()`, `threads.lock()`
  | resP (o : Op) (i : Nat) | resS (o : Op) (i : Nat) | resU (o : Op) (i : Nat)
  | done                                 -- finished (or returned `Err`): `SteelThread` dropped
deriving DecidableEq, Repr, Inhabited

structure Thread where
  pc : PC := .run
  paused : Bool := false
  st : TState := .running
  ctx : Bool := false                    -- `ctx.load().is_some()`
  token : Bool := false                  -- park token
  reg : Bool := false                    -- pushed to `threads`
  env : Option Nat := some 0             -- version of the global table it holds (`none`: `default_env`)
  held : Option Nat := none              -- a stopper's local: the drained / updated table
  scanned : Nat := 0                     -- ghost
  hostMid : Bool := false                -- an `interrupt()` is between its two stores
deriving DecidableEq, Repr, Inhabited

structure State where
  threads : List Thread := [{ reg := true }]
  tlock : Option Tid := none             -- `Synchronizer::threads` mutex
  hlock : Option Tid := none             -- heap mutex
  ver : Nat := 0                         -- newest version of the global table
  stopper : Option Tid := none           -- ghost
  hostUsed : Bool := false               -- ghost: some `interrupt()` was issued
  fix : Bool := false                    -- variant: the gate's heap-lock guard is kept for the whole
                                         -- `with_locked_env` (`let _guard = …` instead of `let _ = …`)
deriving DecidableEq, Repr, Inhabited

def init : State := {}

/-- The repaired variant (proposed fix of K16a): stoppers are serialised by the heap lock. -/
def initFix : State := { fix := true }

inductive Act where
  -- choices of a thread that is dispatching (`run`)
  | poll | callPrim | alloc | setGlobal | spawn | finish
  | gc                                   -- `allocd`: this allocation runs a full collection
  | step                                 -- the next shared access of a thread that is not at `run`
  | spurious                             -- `park()` returns without a token
  | hostP | hostS                        -- `interrupt()` on this thread's controller (actor: host/other)
deriving DecidableEq, Repr, Inhabited

/-- The thread is between its publication and its retraction. -/
def PC.published : PC → Bool
  | .inSafe _ | .regWait _ | .exitCheck _ | .intCheck _ | .parking _ | .retract _ => true
  | _ => false

/-- Parked at a safepoint or inside a primitive that published: the places where a thread may be
looked at.  (At `retract` it has decided to leave but has not touched anything yet.) -/
def PC.safe : PC → Bool := PC.published

/-- The thread has passed its last exit check and has not yet done what follows it outside the safepoint:
its retraction, or — after the gate of `with_locked_env` — its own stop request. -/
def PC.leaving : PC → Bool
  | .retract _ | .envReady => true
  | _ => false

def PC.isStopper : PC → Bool
  | .stopP .. | .stopS .. | .scanLock .. | .spin .. | .acc .. | .resLock _ | .resP .. | .resS ..
  | .resU .. => true
  | _ => false

def State.put (s : State) (t : Tid) (th : Thread) : State :=
  { s with threads := s.threads.set t th }

/-- Apply `f` to thread `i` (no effect if there is no such thread). -/
def State.upd (s : State) (i : Tid) (f : Thread → Thread) : State :=
  match s.threads[i]? with
  | some x => s.put i (f x)
  | none => s

/-- After the last list entry of `enumerate_stacks` / `call_per_ctx`. -/
def afterScan (o : Op) (ph : Nat) : PC :=
  match o, ph with
  | .gc, _ => .resLock .gc
  | .env, 0 => .scanLock .env 1
  | .env, _ => .resLock .env

/-- `stop_threads` entered by thread `t` (record `th`): own `pause_for_safepoint()`, `threads.lock()`. -/
def stopBegin (s : State) (t : Tid) (th : Thread) (o : Op) : Option State :=
  if s.tlock.isSome then none else
  some ({ s with tlock := some t, stopper := some t }.put t
    { th with paused := true, st := .pausedAtSafepoint, pc := .stopP o 0 })

/-- One line of a schedule: thread `t` performs `a` (for `hostP`/`hostS`: on thread `t`'s controller).
`none`: not executable (no such thread, wrong pc, mutex taken, no park token). -/
def step (s : State) (t : Tid) (a : Act) : Option State :=
  match s.threads[t]? with
  | none => none
  | some th =>
  match a, th.pc with
  -- ── host: `interrupt()` = `paused.store(true)`; `state.store(Interrupted)` ─────────────────────
  | .hostP, _ => some ({ s with hostUsed := true }.put t { th with paused := true, hostMid := true })
  | .hostS, _ =>
      if th.hostMid then some (s.put t { th with st := .interrupted, hostMid := false }) else none
  -- ── a dispatching thread ─────────────────────────────────────────────────────────────────
  | .poll, .run =>
      if th.paused then some (s.put t { th with pc := .sawPaused }) else some s
  | .callPrim, .run => some (s.put t { th with ctx := true, pc := .inSafe .prim })
  | .alloc, .run => some (s.put t { th with ctx := true, pc := .inSafe .alloc })
  | .setGlobal, .run => some (s.put t { th with ctx := true, pc := .inSafe .gate })
  | .spawn, .run =>
      let c := s.threads.length
      let s := s.put t { th with ctx := true, pc := .regWait c }
      some { s with threads := s.threads ++ [{ env := th.env }] }
  | .finish, .run => some (s.put t { th with pc := .done })
  -- ── the poll after it saw `paused` ────────────────────────────────────────────────────────
  | .step, .sawPaused =>
      match th.st with
      | .interrupted => some (s.put t { th with pc := .done })      -- `Err(Interrupted by user)`
      | .pausedAtSafepoint => some (s.put t { th with pc := .pubStore })
      | .running => some (s.put t { th with pc := .run })
  | .step, .pubStore => some (s.put t { th with ctx := true, pc := .exitCheck .poll })
  -- ── inside a safepoint ────────────────────────────────────────────────────────────────────
  | .step, .inSafe .prim => some (s.put t { th with pc := .exitCheck .prim })
  | .step, .inSafe .poll => some (s.put t { th with pc := .exitCheck .poll })   -- (not reachable)
  | .step, .inSafe k =>                   -- `heap.lock_arc()`
      if s.hlock.isSome then none else
      some ({ s with hlock := some t }.put t { th with pc := .exitCheck k })
  | .step, .regWait c =>                  -- `threads.lock().push(child)`
      if s.tlock.isSome then none else
      some ((s.upd c (fun x => { x with reg := true })).put t { th with pc := .exitCheck .prim })
  | .step, .exitCheck k =>
      if th.paused then
        some (s.put t { th with pc := if k = .poll then .parking .poll else .intCheck k })
      else some (s.put t { th with pc := .retract k })
  | .step, .intCheck k =>
      if th.st = .interrupted then some (s.put t { th with pc := .retract k })
      else some (s.put t { th with pc := .parking k })
  | .step, .parking k =>
      if th.token then some (s.put t { th with token := false, pc := .exitCheck k }) else none
  | .spurious, .parking k => some (s.put t { th with pc := .exitCheck k })
  | .step, .retract k =>
      match k with
      | .poll | .prim => some (s.put t { th with ctx := false, pc := .run })
      | .alloc => some (s.put t { th with ctx := false, pc := .allocd })
      | .gate =>
          some ({ s with hlock := if s.fix then s.hlock else none }.put t
            { th with ctx := false, pc := .envReady })
  -- ── after the heap-lock safepoints ───────────────────────────────────────────────────────
  | .step, .allocd => some ({ s with hlock := none }.put t { th with pc := .run })
  | .gc, .allocd => stopBegin s t th .gc
  | .step, .envReady => stopBegin s t th .env
  -- ── `stop_threads`: per entry `pause_for_safepoint()` ───────────────────────────────────────
  | .step, .stopP o i =>
      match s.threads[i]? with
      | none => some ({ s with tlock := none }.put t { th with pc := .scanLock o 0 })
      | some x =>
        if i = t then some (s.put t { th with paused := true, pc := .stopS o i })
        else if x.reg then
          some ((s.put i { x with paused := true }).put t { th with pc := .stopS o i })
        else some (s.put t { th with pc := .stopP o (i + 1) })
  | .step, .stopS o i =>
      if i = t then some (s.put t { th with st := .pausedAtSafepoint, pc := .stopP o (i + 1) })
      else some ((s.upd i (fun x => { x with st := .pausedAtSafepoint })).put t
                  { th with pc := .stopP o (i + 1) })
  -- ── `enumerate_stacks` (gc) / `call_per_ctx` (env, phase 0 = default_env, 1 = update_env) ──────────
  | .step, .scanLock o ph =>
      if s.tlock.isSome then none else
      match o, ph with
      | .env, 0 =>                        -- `drain_env`
          some ({ s with tlock := some t }.put t
            { th with held := th.env, env := none, pc := .spin o ph 0 })
      | .env, _ =>                        -- the thunk produced a new table
          some ({ s with tlock := some t, ver := s.ver + 1 }.put t
            { th with held := some (s.ver + 1), pc := .spin o ph 0 })
      | .gc, _ => some ({ s with tlock := some t }.put t { th with pc := .spin o ph 0 })
  | .step, .spin o ph i =>
      match s.threads[i]? with
      | none => some ({ s with tlock := none }.put t { th with pc := afterScan o ph })
      | some x =>
        if i = t ∨ x.reg = false ∨ x.pc = .done then some (s.put t { th with pc := .spin o ph (i + 1) })
        else if x.ctx then
          some ((s.put i { x with scanned := x.scanned + 1 }).put t { th with pc := .acc o ph i })
        else some s                       -- keep spinning
  | .step, .acc o ph i =>
      let f : Thread → Thread := fun x =>
        let x := { x with scanned := x.scanned - 1 }
        match o, ph with
        | .gc, _ => x
        | .env, 0 => { x with env := none }
        | .env, _ => { x with env := th.held }
      some ((s.upd i f).put t { th with pc := .spin o ph (i + 1) })
  -- ── `resume_threads` ──────────────────────────────────────────────────────────────────────
  | .step, .resLock o =>
      if s.tlock.isSome then none else
      let th := if o = .env then { th with env := th.held, held := none } else th
      some ({ s with tlock := some t }.put t
        { th with paused := false, st := .running, pc := .resP o 0 })
  | .step, .resP o i =>
      match s.threads[i]? with
      | none =>
          let s := if o = .gc ∨ s.fix = true then { s with hlock := none } else s
          some ({ s with tlock := none, stopper := none }.put t { th with pc := .run })
      | some x =>
        if i = t then some (s.put t { th with paused := false, pc := .resS o i })
        else if x.reg then
          some ((s.put i { x with paused := false }).put t { th with pc := .resS o i })
        else some (s.put t { th with pc := .resP o (i + 1) })
  | .step, .resS o i =>
      if i = t then some (s.put t { th with st := .running, pc := .resU o i })
      else some ((s.upd i (fun x => { x with st := .running })).put t { th with pc := .resU o i })
  | .step, .resU o i =>
      if i = t then some (s.put t { th with token := true, pc := .resP o (i + 1) })
      else some ((s.upd i (fun x => { x with token := true })).put t { th with pc := .resP o (i + 1) })
  | _, _ => none

/-- Run a schedule; stops at the first line that is not executable. -/
def run (s : State) : List (Tid × Act) → State
  | [] => s
  | (t, a) :: rest =>
      match step s t a with
      | none => s
      | some s' => run s' rest

/-! ## The specification S -/

/-- A thread whose state is being inspected or replaced is at a safe place. -/
def State.scanOk (s : State) : Bool :=
  s.threads.all (fun th => th.scanned == 0 || th.pc.safe)

/-- No world-stopping operation is in progress and every live thread holds the newest global table. -/
def State.envOk (s : State) : Bool :=
  s.threads.all (fun th => th.pc == .done || th.pc.isStopper || th.env == some s.ver)

/-! ## The guard of the `…_partial` theorems (decidable, on the state and the line) -/

def State.allReg (s : State) : Bool := s.threads.all (fun th => th.reg)
def State.noHostMid (s : State) : Bool := s.threads.all (fun th => !th.hostMid)

/-- `G s t a`: the line `(t, a)` may be taken in `s`.
* rounds do not overlap, do not overlap a spawn (every thread is registered when a round begins and no
  thread is spawned during it), and no `interrupt()` is issued or in flight during a round;
* the stop request of a round is not sent to a thread (`paused.store(true)` of its entry) while that
  thread is between its last exit check and its retraction (or, after the gate of `with_locked_env`, its
  own stop request), or has an interrupt pending. -/
def G (s : State) (t : Tid) (a : Act) : Bool :=
  match s.threads[t]? with
  | none => true
  | some th =>
    match a, th.pc with
    | .gc, .allocd | .step, .envReady => s.stopper.isNone && s.allReg && s.noHostMid
    | .spawn, _ | .hostP, _ | .hostS, _ => s.stopper.isNone
    | .step, .stopP _ i =>
        match s.threads[i]? with
        | none => true
        | some x => i == t || (!x.pc.leaving && x.st != .interrupted)
    | _, _ => true

/-- Run a schedule while the guard holds; stops at the first line that violates it. -/
def runG (s : State) : List (Tid × Act) → State
  | [] => s
  | (t, a) :: rest =>
      if G s t a then
        match step s t a with
        | none => s
        | some s' => runG s' rest
      else s

end SteelVerif.C15
