/-
C15 (repaired model MR) — every step preserves the invariant: the stopper's steps.
-/
import SteelVerif.C15.StepR2
namespace SteelVerif.C15.R
set_option linter.unusedSimpArgs false
set_option linter.unusedVariables false

/-- The record of a thread that is not the holder after the holder touched it (same pc, same `ctx`). -/
theorem TP.retouch {p p' : PC} {ver ver' : Nat} {n : Nat} {u : Nat} {th th' : Thread}
    (h : TP p ver false n u th) (hpc : th'.pc = th.pc) (hctx : th'.ctx = th.ctx)
    (c_scn : th'.scanned = if isAcc p' u then 1 else 0)
    (c_acc : isAcc p' u = true → th.pc.safe = true)
    (c_stop : th'.stop = covered p' u)
    (c_env : th.pc ≠ .done → th'.env = expEnv p' u ver')
    (c_reg : th'.reg = false → child p' = some u)
    (c_wait : ∀ k, th.pc = .parking k → th'.token = true ∨ bu p' u = true) : TP p' ver' false n u th' := by
  have hns := not_stopper h.hl
  refine TP.of_core (by rw [hpc]; exact hns) (by rw [hpc, hctx]; exact h.ctx) (by rw [hpc]; exact h.hl)
    (by rw [hpc]; exact h.ok) c_scn (by rw [hpc]; exact c_acc) c_stop (by rw [hpc]; exact c_env) c_reg
    (by rw [hpc]; exact c_wait) (by rw [hpc]; exact h.kid)

macro "io" : tactic => `(tactic| first | omega | (intros; omega) | (constructor <;> intro _ <;> omega))

macro "self_tac" : tactic =>
  `(tactic| (
    refine ⟨?_, ?_, ?_, ?_, ?_, ?_, ?_, ?_, ?_, ?_, ?_, ?_, ?_, ?_, ?_, ?_⟩ <;>
    simp_all [PC.published, PC.isStopper, PC.safe, PC.bogus, holdsH, holdsKind, heldReq, isAcc, covered,
      expEnv, child, ownEnv, ownStop, afterScan]))

/-- `stop_threads` begins (from `allocd`: a collection; from `envReady`: `with_locked_env`). -/
theorem case_stopBegin {s : State} (h : Inv s) {t : Nat} (ht : t < s.n) (o : Op)
    (hpc : (s.th t).pc = .allocd ∨ (s.th t).pc = .envReady) :
    Inv ({ s with tlock := some t }.put t { s.th t with stop := true, pc := .stopP o 0 }) := by
  obtain ⟨hh, hspc⟩ := spc_of_holds h ht (by rcases hpc with e | e <;> simp [e, holdsH])
  have hnew : ({ s with tlock := some t }.put t { s.th t with stop := true, pc := .stopP o 0 }).spc
      = .stopP o 0 := by simp [State.spc, hh]
  refine inv_holder h ht hh s.n rfl (fun u hut _ => put_th_other hut) (Or.inl (by simpa using hh)) ?_ ?_ ?_ ?_
  · rw [hnew]; simp [holdsT, hh]
  · intro h0
    rw [hnew]
    simp only [put_th_same, put_ver, put_hlock, hh]
    obtain ⟨h1, h2, h3, h4, h5, h6, h7, h8, h9, h10, h11, h12, h13, h14, h15, h16⟩ := h0
    rcases hpc with e | e <;> self_tac
  · intro u hu hut _ h0
    rw [hnew]
    simp only [put_ver]
    rcases hpc with e | e <;> rw [e] at h0 <;>
      exact h0.frame' (Nat.le_refl _) (by simp [isAcc]) (by simp [covered]) (by simp [expEnv])
        (by simp [child]) (by simp [bu])
  · intro hi; exact absurd hi (Nat.lt_irrefl _)

/-- No thread is unregistered while the holder is not in the spawn window. -/
theorem reg_of {p : PC} {ver n u : Nat} {th : Thread} (h : TP p ver false n u th) (hc : child p = none) :
    th.reg = true := by
  cases hr : th.reg
  · have := h.c_reg (not_stopper h.hl) hr; rw [hc] at this; cases this
  · rfl

theorem case_stopP {s : State} (h : Inv s) {t : Nat} (ht : t < s.n) {o : Op} {i : Nat}
    (hpc : (s.th t).pc = .stopP o i) (s' : State) (hs : step s t .step = some s') : Inv s' := by
  obtain ⟨hh, hspc⟩ := spc_of_holds h ht (by simp [hpc, holdsH])
  have htl0 := h.tl
  rw [hspc, hpc] at htl0
  simp only [step, ht, if_true, hpc] at hs
  by_cases hi : i < s.n
  · simp only [hi, if_true] at hs
    by_cases hit : i = t
    · subst hit
      simp only [if_true] at hs
      cases hs
      have hnew : (s.put i { s.th i with stop := true, pc := .stopP o (i + 1) }).spc = .stopP o (i + 1) := by
        simp [State.spc, hh]
      refine inv_holder h ht hh s.n rfl (fun u hut _ => put_th_other hut) (Or.inl (by simpa using hh)) ?_ ?_ ?_ ?_
      · rw [hnew]; simpa [holdsT] using htl0
      · intro h0
        rw [hnew]; rw [hpc] at h0
        simp only [put_th_same, put_ver, put_hlock, hh]
        obtain ⟨h1, h2, h3, h4, h5, h6, h7, h8, h9, h10, h11, h12, h13, h14, h15, h16⟩ := h0
        self_tac
      · intro u hu hut _ h0
        rw [hnew]; rw [hpc] at h0
        simp only [put_ver]
        exact h0.frame' (Nat.le_refl _) (by simp [isAcc]) (by simp [covered] <;> io) (by simp [expEnv])
          (by simp [child]) (by simp [bu])
      · intro hi'; exact absurd hi' (Nat.lt_irrefl _)
    · simp only [hit, if_false] at hs
      have hti : TP (.stopP o i) s.ver false s.n i (s.th i) := by
        have := h.thr i hi
        rw [hspc, hpc, hh] at this
        have e : (some t == some i) = false := by simp; exact fun e => hit e.symm
        rw [e] at this; exact this
      have hreg : (s.th i).reg = true := reg_of hti (by simp [child])
      simp only [hreg, if_true] at hs
      cases hs
      have hnew : ((s.upd i (fun x => { x with stop := true })).put t
          { s.th t with pc := .stopP o (i + 1) }).spc = .stopP o (i + 1) := by simp [State.spc, hh]
      refine inv_holder h ht hh i rfl ?_ (Or.inl (by simpa using hh)) ?_ ?_ ?_ ?_
      · intro u hut hui; rw [put_th_other hut, upd_th_other hui]
      · rw [hnew]; simpa [holdsT] using htl0
      · intro h0
        rw [hnew]; rw [hpc] at h0
        simp only [put_th_same, put_ver, put_hlock, upd_ver, upd_hlock, hh]
        obtain ⟨h1, h2, h3, h4, h5, h6, h7, h8, h9, h10, h11, h12, h13, h14, h15, h16⟩ := h0
        self_tac
      · intro u hu hut hui h0
        rw [hnew]; rw [hpc] at h0
        simp only [put_ver, upd_ver]
        exact h0.frame' (Nat.le_refl _) (by simp [isAcc]) (by simp [covered] <;> io) (by simp [expEnv])
          (by simp [child]) (by simp [bu])
      · intro _ _ h0
        rw [hnew]; rw [hpc] at h0
        simp only [put_ver, upd_ver, put_th_other hit, upd_th_same]
        have hns := not_stopper h0.hl
        refine h0.retouch rfl rfl ?_ ?_ ?_ ?_ ?_ ?_
        · simpa [isAcc] using h0.c_scn hns
        · simp [isAcc]
        · simp [covered]
        · intro hd; simpa [expEnv] using h0.c_env hns hd
        · intro hr; simp [hreg] at hr
        · intro k hk; right; simp [bu]
  · simp only [hi, if_false] at hs
    cases hs
    have hnew : ({ s with tlock := none }.put t { s.th t with pc := .scanLock o 0 }).spc = .scanLock o 0 := by
      simp [State.spc, hh]
    refine inv_holder h ht hh s.n rfl (fun u hut _ => put_th_other hut) (Or.inl (by simpa using hh)) ?_ ?_ ?_ ?_
    · rw [hnew]; simp [holdsT]
    · intro h0
      rw [hnew]; rw [hpc] at h0
      simp only [put_th_same, put_ver, put_hlock, hh]
      obtain ⟨h1, h2, h3, h4, h5, h6, h7, h8, h9, h10, h11, h12, h13, h14, h15, h16⟩ := h0
      self_tac
    · intro u hu hut _ h0
      rw [hnew]; rw [hpc] at h0
      simp only [put_ver]
      exact h0.frame' (Nat.le_refl _) (by simp [isAcc]) (by simp [covered] <;> io) (by simp [expEnv])
        (by simp [child]) (by simp [bu])
    · intro hi'; exact absurd hi' (Nat.lt_irrefl _)


macro "env_tac" : tactic =>
  `(tactic| (simp only [expEnv] <;> (try split) <;> (try split) <;> first | rfl | (exfalso; omega) | simp_all))

theorem case_scanLock {s : State} (h : Inv s) {t : Nat} (ht : t < s.n) {o : Op} {ph : Nat}
    (hpc : (s.th t).pc = .scanLock o ph) (s' : State) (hs : step s t .step = some s') : Inv s' := by
  obtain ⟨hh, hspc⟩ := spc_of_holds h ht (by simp [hpc, holdsH])
  have htl0 := h.tl
  rw [hspc, hpc] at htl0
  have htn : s.tlock.isSome = false ∨ True := Or.inr trivial
  have htl1 : s.tlock = none := by simpa [holdsT] using htl0
  simp only [step, ht, if_true, hpc, htl1, Option.isSome_none] at hs
  cases o <;> cases ph <;> simp only [Bool.false_eq_true, if_false] at hs <;> cases hs
  · have hnew : ({ s with tlock := some t }.put t { s.th t with pc := .spin .gc 0 0 }).spc = .spin .gc 0 0 := by simp [State.spc, hh]
    refine inv_holder h ht hh s.n rfl (fun u hut _ => put_th_other hut) (Or.inl (by simpa using hh)) ?_ ?_ ?_ ?_
    · rw [hnew]; simp [holdsT, hh]
    · intro h0
      rw [hnew]; rw [hpc] at h0
      simp only [put_th_same, put_ver, put_hlock, hh]
      obtain ⟨h1, h2, h3, h4, h5, h6, h7, h8, h9, h10, h11, h12, h13, h14, h15, h16⟩ := h0
      self_tac
    · intro u hu hut _ h0
      rw [hnew]; rw [hpc] at h0
      simp only [put_ver]
      exact h0.frame' (Nat.le_refl _) (by simp [isAcc] <;> io) (by simp [covered] <;> io) (by env_tac) (by simp [child]) (by simp [bu] <;> io)
    · intro hi'; exact absurd hi' (Nat.lt_irrefl _)
  · rename_i ph
    have hnew : ({ s with tlock := some t }.put t { s.th t with pc := .spin .gc (ph + 1) 0 }).spc = .spin .gc (ph + 1) 0 := by simp [State.spc, hh]
    refine inv_holder h ht hh s.n rfl (fun u hut _ => put_th_other hut) (Or.inl (by simpa using hh)) ?_ ?_ ?_ ?_
    · rw [hnew]; simp [holdsT, hh]
    · intro h0
      rw [hnew]; rw [hpc] at h0
      simp only [put_th_same, put_ver, put_hlock, hh]
      obtain ⟨h1, h2, h3, h4, h5, h6, h7, h8, h9, h10, h11, h12, h13, h14, h15, h16⟩ := h0
      self_tac
    · intro u hu hut _ h0
      rw [hnew]; rw [hpc] at h0
      simp only [put_ver]
      exact h0.frame' (Nat.le_refl _) (by simp [isAcc] <;> io) (by simp [covered] <;> io) (by env_tac) (by simp [child]) (by simp [bu] <;> io)
    · intro hi'; exact absurd hi' (Nat.lt_irrefl _)
  · have hnew : ({ s with tlock := some t }.put t { s.th t with held := (s.th t).env, env := none, pc := .spin .env 0 0 }).spc = .spin .env 0 0 := by simp [State.spc, hh]
    refine inv_holder h ht hh s.n rfl (fun u hut _ => put_th_other hut) (Or.inl (by simpa using hh)) ?_ ?_ ?_ ?_
    · rw [hnew]; simp [holdsT, hh]
    · intro h0
      rw [hnew]; rw [hpc] at h0
      simp only [put_th_same, put_ver, put_hlock, hh]
      obtain ⟨h1, h2, h3, h4, h5, h6, h7, h8, h9, h10, h11, h12, h13, h14, h15, h16⟩ := h0
      self_tac
    · intro u hu hut _ h0
      rw [hnew]; rw [hpc] at h0
      simp only [put_ver]
      exact h0.frame' (Nat.le_refl _) (by simp [isAcc] <;> io) (by simp [covered] <;> io) (by env_tac) (by simp [child]) (by simp [bu] <;> io)
    · intro hi'; exact absurd hi' (Nat.lt_irrefl _)
  · rename_i ph
    have hnew : ({ s with tlock := some t, ver := s.ver + 1 }.put t { s.th t with held := some (s.ver + 1), pc := .spin .env (ph + 1) 0 }).spc = .spin .env (ph + 1) 0 := by simp [State.spc, hh]
    refine inv_holder h ht hh s.n rfl (fun u hut _ => put_th_other hut) (Or.inl (by simpa using hh)) ?_ ?_ ?_ ?_
    · rw [hnew]; simp [holdsT, hh]
    · intro h0
      rw [hnew]; rw [hpc] at h0
      simp only [put_th_same, put_ver, put_hlock, hh]
      obtain ⟨h1, h2, h3, h4, h5, h6, h7, h8, h9, h10, h11, h12, h13, h14, h15, h16⟩ := h0
      self_tac
    · intro u hu hut _ h0
      rw [hnew]; rw [hpc] at h0
      simp only [put_ver]
      exact h0.frame' (Nat.le_refl _) (by simp [isAcc] <;> io) (by simp [covered] <;> io) (by env_tac) (by simp [child]) (by simp [bu] <;> io)
    · intro hi'; exact absurd hi' (Nat.lt_irrefl _)


theorem case_spin {s : State} (h : Inv s) {t : Nat} (ht : t < s.n) {o : Op} {ph i : Nat}
    (hpc : (s.th t).pc = .spin o ph i) (s' : State) (hs : step s t .step = some s') : Inv s' := by
  obtain ⟨hh, hspc⟩ := spc_of_holds h ht (by simp [hpc, holdsH])
  have htl0 := h.tl
  rw [hspc, hpc] at htl0
  simp only [step, ht, if_true, hpc] at hs
  cases o <;> cases ph
  · by_cases hi : i < s.n
    · simp only [hi, if_true] at hs
      by_cases hsk : (i = t ∨ (s.th i).reg = false ∨ (s.th i).pc = .done)
      · simp only [hsk, if_true] at hs
        cases hs
        have hnew : (s.put t { s.th t with pc := .spin .gc 0 (i + 1) }).spc = .spin .gc 0 (i + 1) := by simp [State.spc, hh]
        refine inv_holder h ht hh i rfl ?_ (Or.inl (by simpa using hh)) ?_ ?_ ?_ ?_
        · intro u hut hui; rw [put_th_other hut]
        · rw [hnew]; simpa [holdsT] using htl0
        · intro h0
          rw [hnew]; rw [hpc] at h0
          simp only [put_th_same, put_ver, put_hlock, hh]
          obtain ⟨h1, h2, h3, h4, h5, h6, h7, h8, h9, h10, h11, h12, h13, h14, h15, h16⟩ := h0
          self_tac
        · intro u hu hut hui h0
          rw [hnew]; rw [hpc] at h0
          simp only [put_ver]
          exact h0.frame' (Nat.le_refl _) (by simp [isAcc] <;> io) (by simp [covered] <;> io) (by env_tac) (by simp [child]) (by simp [bu] <;> io)
        · intro _ hit h0
          rw [hnew]; rw [hpc] at h0
          simp only [put_ver, put_th_other hit]
          have hns := not_stopper h0.hl
          refine h0.retouch rfl rfl ?_ ?_ ?_ ?_ ?_ ?_
          · simpa [isAcc] using h0.c_scn hns
          · simp [isAcc]
          · simpa [covered] using h0.c_stop hns
          · intro hd
            have hreg : (s.th i).reg = true := reg_of h0 (by simp [child])
            rcases hsk with e | e | e
            · exact absurd e hit
            · rw [hreg] at e; cases e
            · exact absurd e hd
          · intro hr
            have hreg : (s.th i).reg = true := reg_of h0 (by simp [child])
            rw [hreg] at hr; cases hr
          · intro k hk; right; simp [bu]
      · simp only [hsk, if_false] at hs
        have hit : i ≠ t := fun e => hsk (Or.inl e)
        by_cases hctx : (s.th i).ctx = true
        · simp only [hctx, if_true] at hs
          cases hs
          have hnew : ((s.upd i (fun x => { x with scanned := x.scanned + 1 })).put t { s.th t with pc := .acc .gc 0 i }).spc = .acc .gc 0 i := by simp [State.spc, hh]
          refine inv_holder h ht hh i rfl ?_ (Or.inl (by simpa using hh)) ?_ ?_ ?_ ?_
          · intro u hut hui; rw [put_th_other hut, upd_th_other hui]
          · rw [hnew]; simpa [holdsT] using htl0
          · intro h0
            rw [hnew]; rw [hpc] at h0
            simp only [put_th_same, put_ver, put_hlock, upd_ver, upd_hlock, hh]
            obtain ⟨h1, h2, h3, h4, h5, h6, h7, h8, h9, h10, h11, h12, h13, h14, h15, h16⟩ := h0
            self_tac
          · intro u hu hut hui h0
            rw [hnew]; rw [hpc] at h0
            simp only [put_ver, upd_ver]
            exact h0.frame' (Nat.le_refl _) (by simp [isAcc] <;> io) (by simp [covered] <;> io) (by env_tac) (by simp [child]) (by simp [bu] <;> io)
          · intro _ _ h0
            rw [hnew]; rw [hpc] at h0
            simp only [put_ver, upd_ver, put_th_other hit, upd_th_same]
            have hns := not_stopper h0.hl
            refine h0.retouch rfl rfl ?_ ?_ ?_ ?_ ?_ ?_
            · have := h0.c_scn hns
              simp [isAcc] at this ⊢; omega
            · intro _; exact published_safe (by rw [← h0.ctx]; exact hctx)
            · simpa [covered] using h0.c_stop hns
            · intro hd; simpa [expEnv] using h0.c_env hns hd
            · intro hr
              have hreg : (s.th i).reg = true := reg_of h0 (by simp [child])
              rw [hreg] at hr; cases hr
            · intro k hk; right; simp [bu]
        · simp only [hctx, if_false] at hs
          cases hs; exact h
    · simp only [hi, if_false, afterScan] at hs
      cases hs
      have hnew : ({ s with tlock := none }.put t { s.th t with pc := .resLock .gc }).spc = .resLock .gc := by simp [State.spc, hh]
      refine inv_holder h ht hh s.n rfl (fun u hut _ => put_th_other hut) (Or.inl (by simpa using hh)) ?_ ?_ ?_ ?_
      · rw [hnew]; simp [holdsT]
      · intro h0
        rw [hnew]; rw [hpc] at h0
        simp only [put_th_same, put_ver, put_hlock, hh]
        obtain ⟨h1, h2, h3, h4, h5, h6, h7, h8, h9, h10, h11, h12, h13, h14, h15, h16⟩ := h0
        self_tac
      · intro u hu hut _ h0
        rw [hnew]; rw [hpc] at h0
        simp only [put_ver]
        exact h0.frame' (Nat.le_refl _) (by simp [isAcc] <;> io) (by simp [covered] <;> io) (by env_tac) (by simp [child]) (by simp [bu] <;> io)
      · intro hi'; exact absurd hi' (Nat.lt_irrefl _)
  · rename_i ph
    by_cases hi : i < s.n
    · simp only [hi, if_true] at hs
      by_cases hsk : (i = t ∨ (s.th i).reg = false ∨ (s.th i).pc = .done)
      · simp only [hsk, if_true] at hs
        cases hs
        have hnew : (s.put t { s.th t with pc := .spin .gc (ph + 1) (i + 1) }).spc = .spin .gc (ph + 1) (i + 1) := by simp [State.spc, hh]
        refine inv_holder h ht hh i rfl ?_ (Or.inl (by simpa using hh)) ?_ ?_ ?_ ?_
        · intro u hut hui; rw [put_th_other hut]
        · rw [hnew]; simpa [holdsT] using htl0
        · intro h0
          rw [hnew]; rw [hpc] at h0
          simp only [put_th_same, put_ver, put_hlock, hh]
          obtain ⟨h1, h2, h3, h4, h5, h6, h7, h8, h9, h10, h11, h12, h13, h14, h15, h16⟩ := h0
          self_tac
        · intro u hu hut hui h0
          rw [hnew]; rw [hpc] at h0
          simp only [put_ver]
          exact h0.frame' (Nat.le_refl _) (by simp [isAcc] <;> io) (by simp [covered] <;> io) (by env_tac) (by simp [child]) (by simp [bu] <;> io)
        · intro _ hit h0
          rw [hnew]; rw [hpc] at h0
          simp only [put_ver, put_th_other hit]
          have hns := not_stopper h0.hl
          refine h0.retouch rfl rfl ?_ ?_ ?_ ?_ ?_ ?_
          · simpa [isAcc] using h0.c_scn hns
          · simp [isAcc]
          · simpa [covered] using h0.c_stop hns
          · intro hd
            have hreg : (s.th i).reg = true := reg_of h0 (by simp [child])
            rcases hsk with e | e | e
            · exact absurd e hit
            · rw [hreg] at e; cases e
            · exact absurd e hd
          · intro hr
            have hreg : (s.th i).reg = true := reg_of h0 (by simp [child])
            rw [hreg] at hr; cases hr
          · intro k hk; right; simp [bu]
      · simp only [hsk, if_false] at hs
        have hit : i ≠ t := fun e => hsk (Or.inl e)
        by_cases hctx : (s.th i).ctx = true
        · simp only [hctx, if_true] at hs
          cases hs
          have hnew : ((s.upd i (fun x => { x with scanned := x.scanned + 1 })).put t { s.th t with pc := .acc .gc (ph + 1) i }).spc = .acc .gc (ph + 1) i := by simp [State.spc, hh]
          refine inv_holder h ht hh i rfl ?_ (Or.inl (by simpa using hh)) ?_ ?_ ?_ ?_
          · intro u hut hui; rw [put_th_other hut, upd_th_other hui]
          · rw [hnew]; simpa [holdsT] using htl0
          · intro h0
            rw [hnew]; rw [hpc] at h0
            simp only [put_th_same, put_ver, put_hlock, upd_ver, upd_hlock, hh]
            obtain ⟨h1, h2, h3, h4, h5, h6, h7, h8, h9, h10, h11, h12, h13, h14, h15, h16⟩ := h0
            self_tac
          · intro u hu hut hui h0
            rw [hnew]; rw [hpc] at h0
            simp only [put_ver, upd_ver]
            exact h0.frame' (Nat.le_refl _) (by simp [isAcc] <;> io) (by simp [covered] <;> io) (by env_tac) (by simp [child]) (by simp [bu] <;> io)
          · intro _ _ h0
            rw [hnew]; rw [hpc] at h0
            simp only [put_ver, upd_ver, put_th_other hit, upd_th_same]
            have hns := not_stopper h0.hl
            refine h0.retouch rfl rfl ?_ ?_ ?_ ?_ ?_ ?_
            · have := h0.c_scn hns
              simp [isAcc] at this ⊢; omega
            · intro _; exact published_safe (by rw [← h0.ctx]; exact hctx)
            · simpa [covered] using h0.c_stop hns
            · intro hd; simpa [expEnv] using h0.c_env hns hd
            · intro hr
              have hreg : (s.th i).reg = true := reg_of h0 (by simp [child])
              rw [hreg] at hr; cases hr
            · intro k hk; right; simp [bu]
        · simp only [hctx, if_false] at hs
          cases hs; exact h
    · simp only [hi, if_false, afterScan] at hs
      cases hs
      have hnew : ({ s with tlock := none }.put t { s.th t with pc := .resLock .gc }).spc = .resLock .gc := by simp [State.spc, hh]
      refine inv_holder h ht hh s.n rfl (fun u hut _ => put_th_other hut) (Or.inl (by simpa using hh)) ?_ ?_ ?_ ?_
      · rw [hnew]; simp [holdsT]
      · intro h0
        rw [hnew]; rw [hpc] at h0
        simp only [put_th_same, put_ver, put_hlock, hh]
        obtain ⟨h1, h2, h3, h4, h5, h6, h7, h8, h9, h10, h11, h12, h13, h14, h15, h16⟩ := h0
        self_tac
      · intro u hu hut _ h0
        rw [hnew]; rw [hpc] at h0
        simp only [put_ver]
        exact h0.frame' (Nat.le_refl _) (by simp [isAcc] <;> io) (by simp [covered] <;> io) (by env_tac) (by simp [child]) (by simp [bu] <;> io)
      · intro hi'; exact absurd hi' (Nat.lt_irrefl _)
  · by_cases hi : i < s.n
    · simp only [hi, if_true] at hs
      by_cases hsk : (i = t ∨ (s.th i).reg = false ∨ (s.th i).pc = .done)
      · simp only [hsk, if_true] at hs
        cases hs
        have hnew : (s.put t { s.th t with pc := .spin .env 0 (i + 1) }).spc = .spin .env 0 (i + 1) := by simp [State.spc, hh]
        refine inv_holder h ht hh i rfl ?_ (Or.inl (by simpa using hh)) ?_ ?_ ?_ ?_
        · intro u hut hui; rw [put_th_other hut]
        · rw [hnew]; simpa [holdsT] using htl0
        · intro h0
          rw [hnew]; rw [hpc] at h0
          simp only [put_th_same, put_ver, put_hlock, hh]
          obtain ⟨h1, h2, h3, h4, h5, h6, h7, h8, h9, h10, h11, h12, h13, h14, h15, h16⟩ := h0
          self_tac
        · intro u hu hut hui h0
          rw [hnew]; rw [hpc] at h0
          simp only [put_ver]
          exact h0.frame' (Nat.le_refl _) (by simp [isAcc] <;> io) (by simp [covered] <;> io) (by env_tac) (by simp [child]) (by simp [bu] <;> io)
        · intro _ hit h0
          rw [hnew]; rw [hpc] at h0
          simp only [put_ver, put_th_other hit]
          have hns := not_stopper h0.hl
          refine h0.retouch rfl rfl ?_ ?_ ?_ ?_ ?_ ?_
          · simpa [isAcc] using h0.c_scn hns
          · simp [isAcc]
          · simpa [covered] using h0.c_stop hns
          · intro hd
            have hreg : (s.th i).reg = true := reg_of h0 (by simp [child])
            rcases hsk with e | e | e
            · exact absurd e hit
            · rw [hreg] at e; cases e
            · exact absurd e hd
          · intro hr
            have hreg : (s.th i).reg = true := reg_of h0 (by simp [child])
            rw [hreg] at hr; cases hr
          · intro k hk; right; simp [bu]
      · simp only [hsk, if_false] at hs
        have hit : i ≠ t := fun e => hsk (Or.inl e)
        by_cases hctx : (s.th i).ctx = true
        · simp only [hctx, if_true] at hs
          cases hs
          have hnew : ((s.upd i (fun x => { x with scanned := x.scanned + 1 })).put t { s.th t with pc := .acc .env 0 i }).spc = .acc .env 0 i := by simp [State.spc, hh]
          refine inv_holder h ht hh i rfl ?_ (Or.inl (by simpa using hh)) ?_ ?_ ?_ ?_
          · intro u hut hui; rw [put_th_other hut, upd_th_other hui]
          · rw [hnew]; simpa [holdsT] using htl0
          · intro h0
            rw [hnew]; rw [hpc] at h0
            simp only [put_th_same, put_ver, put_hlock, upd_ver, upd_hlock, hh]
            obtain ⟨h1, h2, h3, h4, h5, h6, h7, h8, h9, h10, h11, h12, h13, h14, h15, h16⟩ := h0
            self_tac
          · intro u hu hut hui h0
            rw [hnew]; rw [hpc] at h0
            simp only [put_ver, upd_ver]
            exact h0.frame' (Nat.le_refl _) (by simp [isAcc] <;> io) (by simp [covered] <;> io) (by env_tac) (by simp [child]) (by simp [bu] <;> io)
          · intro _ _ h0
            rw [hnew]; rw [hpc] at h0
            simp only [put_ver, upd_ver, put_th_other hit, upd_th_same]
            have hns := not_stopper h0.hl
            refine h0.retouch rfl rfl ?_ ?_ ?_ ?_ ?_ ?_
            · have := h0.c_scn hns
              simp [isAcc] at this ⊢; omega
            · intro _; exact published_safe (by rw [← h0.ctx]; exact hctx)
            · simpa [covered] using h0.c_stop hns
            · intro hd; simpa [expEnv] using h0.c_env hns hd
            · intro hr
              have hreg : (s.th i).reg = true := reg_of h0 (by simp [child])
              rw [hreg] at hr; cases hr
            · intro k hk; right; simp [bu]
        · simp only [hctx, if_false] at hs
          cases hs; exact h
    · simp only [hi, if_false, afterScan] at hs
      cases hs
      have hnew : ({ s with tlock := none }.put t { s.th t with pc := .scanLock .env 1 }).spc = .scanLock .env 1 := by simp [State.spc, hh]
      refine inv_holder h ht hh s.n rfl (fun u hut _ => put_th_other hut) (Or.inl (by simpa using hh)) ?_ ?_ ?_ ?_
      · rw [hnew]; simp [holdsT]
      · intro h0
        rw [hnew]; rw [hpc] at h0
        simp only [put_th_same, put_ver, put_hlock, hh]
        obtain ⟨h1, h2, h3, h4, h5, h6, h7, h8, h9, h10, h11, h12, h13, h14, h15, h16⟩ := h0
        self_tac
      · intro u hu hut _ h0
        rw [hnew]; rw [hpc] at h0
        simp only [put_ver]
        exact h0.frame' (Nat.le_refl _) (by simp [isAcc] <;> io) (by simp [covered] <;> io) (by env_tac) (by simp [child]) (by simp [bu] <;> io)
      · intro hi'; exact absurd hi' (Nat.lt_irrefl _)
  · rename_i ph
    by_cases hi : i < s.n
    · simp only [hi, if_true] at hs
      by_cases hsk : (i = t ∨ (s.th i).reg = false ∨ (s.th i).pc = .done)
      · simp only [hsk, if_true] at hs
        cases hs
        have hnew : (s.put t { s.th t with pc := .spin .env (ph + 1) (i + 1) }).spc = .spin .env (ph + 1) (i + 1) := by simp [State.spc, hh]
        refine inv_holder h ht hh i rfl ?_ (Or.inl (by simpa using hh)) ?_ ?_ ?_ ?_
        · intro u hut hui; rw [put_th_other hut]
        · rw [hnew]; simpa [holdsT] using htl0
        · intro h0
          rw [hnew]; rw [hpc] at h0
          simp only [put_th_same, put_ver, put_hlock, hh]
          obtain ⟨h1, h2, h3, h4, h5, h6, h7, h8, h9, h10, h11, h12, h13, h14, h15, h16⟩ := h0
          self_tac
        · intro u hu hut hui h0
          rw [hnew]; rw [hpc] at h0
          simp only [put_ver]
          exact h0.frame' (Nat.le_refl _) (by simp [isAcc] <;> io) (by simp [covered] <;> io) (by env_tac) (by simp [child]) (by simp [bu] <;> io)
        · intro _ hit h0
          rw [hnew]; rw [hpc] at h0
          simp only [put_ver, put_th_other hit]
          have hns := not_stopper h0.hl
          refine h0.retouch rfl rfl ?_ ?_ ?_ ?_ ?_ ?_
          · simpa [isAcc] using h0.c_scn hns
          · simp [isAcc]
          · simpa [covered] using h0.c_stop hns
          · intro hd
            have hreg : (s.th i).reg = true := reg_of h0 (by simp [child])
            rcases hsk with e | e | e
            · exact absurd e hit
            · rw [hreg] at e; cases e
            · exact absurd e hd
          · intro hr
            have hreg : (s.th i).reg = true := reg_of h0 (by simp [child])
            rw [hreg] at hr; cases hr
          · intro k hk; right; simp [bu]
      · simp only [hsk, if_false] at hs
        have hit : i ≠ t := fun e => hsk (Or.inl e)
        by_cases hctx : (s.th i).ctx = true
        · simp only [hctx, if_true] at hs
          cases hs
          have hnew : ((s.upd i (fun x => { x with scanned := x.scanned + 1 })).put t { s.th t with pc := .acc .env (ph + 1) i }).spc = .acc .env (ph + 1) i := by simp [State.spc, hh]
          refine inv_holder h ht hh i rfl ?_ (Or.inl (by simpa using hh)) ?_ ?_ ?_ ?_
          · intro u hut hui; rw [put_th_other hut, upd_th_other hui]
          · rw [hnew]; simpa [holdsT] using htl0
          · intro h0
            rw [hnew]; rw [hpc] at h0
            simp only [put_th_same, put_ver, put_hlock, upd_ver, upd_hlock, hh]
            obtain ⟨h1, h2, h3, h4, h5, h6, h7, h8, h9, h10, h11, h12, h13, h14, h15, h16⟩ := h0
            self_tac
          · intro u hu hut hui h0
            rw [hnew]; rw [hpc] at h0
            simp only [put_ver, upd_ver]
            exact h0.frame' (Nat.le_refl _) (by simp [isAcc] <;> io) (by simp [covered] <;> io) (by env_tac) (by simp [child]) (by simp [bu] <;> io)
          · intro _ _ h0
            rw [hnew]; rw [hpc] at h0
            simp only [put_ver, upd_ver, put_th_other hit, upd_th_same]
            have hns := not_stopper h0.hl
            refine h0.retouch rfl rfl ?_ ?_ ?_ ?_ ?_ ?_
            · have := h0.c_scn hns
              simp [isAcc] at this ⊢; omega
            · intro _; exact published_safe (by rw [← h0.ctx]; exact hctx)
            · simpa [covered] using h0.c_stop hns
            · intro hd; simpa [expEnv] using h0.c_env hns hd
            · intro hr
              have hreg : (s.th i).reg = true := reg_of h0 (by simp [child])
              rw [hreg] at hr; cases hr
            · intro k hk; right; simp [bu]
        · simp only [hctx, if_false] at hs
          cases hs; exact h
    · simp only [hi, if_false, afterScan] at hs
      cases hs
      have hnew : ({ s with tlock := none }.put t { s.th t with pc := .resLock .env }).spc = .resLock .env := by simp [State.spc, hh]
      refine inv_holder h ht hh s.n rfl (fun u hut _ => put_th_other hut) (Or.inl (by simpa using hh)) ?_ ?_ ?_ ?_
      · rw [hnew]; simp [holdsT]
      · intro h0
        rw [hnew]; rw [hpc] at h0
        simp only [put_th_same, put_ver, put_hlock, hh]
        obtain ⟨h1, h2, h3, h4, h5, h6, h7, h8, h9, h10, h11, h12, h13, h14, h15, h16⟩ := h0
        self_tac
      · intro u hu hut _ h0
        rw [hnew]; rw [hpc] at h0
        simp only [put_ver]
        exact h0.frame' (Nat.le_refl _) (by simp [isAcc] <;> io) (by simp [covered] <;> io) (by env_tac) (by simp [child]) (by simp [bu] <;> io)
      · intro hi'; exact absurd hi' (Nat.lt_irrefl _)


theorem case_acc {s : State} (h : Inv s) {t : Nat} (ht : t < s.n) {o : Op} {ph i : Nat}
    (hpc : (s.th t).pc = .acc o ph i) (s' : State) (hs : step s t .step = some s') : Inv s' := by
  obtain ⟨hh, hspc⟩ := spc_of_holds h ht (by simp [hpc, holdsH])
  have htl0 := h.tl
  rw [hspc, hpc] at htl0
  have hself0 := h.thr t ht
  rw [hspc, hpc, hh] at hself0
  obtain ⟨hi, hit⟩ := hself0.s_acc o ph i hpc
  have hheld : heldReq (.acc o ph i) = true → (s.th t).held = some s.ver := by
    intro e; exact hself0.s_held (by rw [hpc]; exact e)
  simp only [step, ht, if_true, hpc] at hs
  cases o <;> cases ph
  · simp only [] at hs
    cases hs
    refine inv_holder h ht hh i rfl ?_ (Or.inl (by simpa using hh)) ?_ ?_ ?_ ?_
    · intro u hut hui; rw [put_th_other hut, upd_th_other hui]
    · simp only [State.spc, put_hlock, upd_hlock, put_th_same, put_ver, upd_ver, hh]; simpa [holdsT, hh] using htl0
    · intro h0
      rw [hpc] at h0
      simp only [State.spc, put_hlock, upd_hlock, put_th_same, put_ver, upd_ver, hh]
      obtain ⟨h1, h2, h3, h4, h5, h6, h7, h8, h9, h10, h11, h12, h13, h14, h15, h16⟩ := h0
      self_tac
    · intro u hu hut hui h0
      rw [hpc] at h0
      simp only [State.spc, put_hlock, upd_hlock, put_th_same, put_ver, upd_ver, hh]
      exact h0.frame' (Nat.le_refl _) (by simp [isAcc] <;> io) (by simp [covered] <;> io) (by env_tac) (by simp [child]) (by simp [bu] <;> io)
    · intro _ _ h0
      rw [hpc] at h0
      simp only [State.spc, put_hlock, upd_hlock, put_th_same, put_ver, upd_ver, hh]
      simp only [put_th_other hit, upd_th_same]
      have hns := not_stopper h0.hl
      have hreg : (s.th i).reg = true := reg_of h0 (by simp [child])
      refine h0.retouch rfl rfl ?_ ?_ ?_ ?_ ?_ ?_
      · have := h0.c_scn hns
        simp [isAcc] at this ⊢; omega
      · simp [isAcc]
      · simpa [covered] using h0.c_stop hns
      · intro hd; simpa [expEnv] using h0.c_env hns hd
      · intro hr; simp [hreg] at hr
      · intro k hk; right; simp [bu]
  · rename_i ph
    simp only [] at hs
    cases hs
    refine inv_holder h ht hh i rfl ?_ (Or.inl (by simpa using hh)) ?_ ?_ ?_ ?_
    · intro u hut hui; rw [put_th_other hut, upd_th_other hui]
    · simp only [State.spc, put_hlock, upd_hlock, put_th_same, put_ver, upd_ver, hh]; simpa [holdsT, hh] using htl0
    · intro h0
      rw [hpc] at h0
      simp only [State.spc, put_hlock, upd_hlock, put_th_same, put_ver, upd_ver, hh]
      obtain ⟨h1, h2, h3, h4, h5, h6, h7, h8, h9, h10, h11, h12, h13, h14, h15, h16⟩ := h0
      self_tac
    · intro u hu hut hui h0
      rw [hpc] at h0
      simp only [State.spc, put_hlock, upd_hlock, put_th_same, put_ver, upd_ver, hh]
      exact h0.frame' (Nat.le_refl _) (by simp [isAcc] <;> io) (by simp [covered] <;> io) (by env_tac) (by simp [child]) (by simp [bu] <;> io)
    · intro _ _ h0
      rw [hpc] at h0
      simp only [State.spc, put_hlock, upd_hlock, put_th_same, put_ver, upd_ver, hh]
      simp only [put_th_other hit, upd_th_same]
      have hns := not_stopper h0.hl
      have hreg : (s.th i).reg = true := reg_of h0 (by simp [child])
      refine h0.retouch rfl rfl ?_ ?_ ?_ ?_ ?_ ?_
      · have := h0.c_scn hns
        simp [isAcc] at this ⊢; omega
      · simp [isAcc]
      · simpa [covered] using h0.c_stop hns
      · intro hd; simpa [expEnv] using h0.c_env hns hd
      · intro hr; simp [hreg] at hr
      · intro k hk; right; simp [bu]
  · simp only [] at hs
    cases hs
    refine inv_holder h ht hh i rfl ?_ (Or.inl (by simpa using hh)) ?_ ?_ ?_ ?_
    · intro u hut hui; rw [put_th_other hut, upd_th_other hui]
    · simp only [State.spc, put_hlock, upd_hlock, put_th_same, put_ver, upd_ver, hh]; simpa [holdsT, hh] using htl0
    · intro h0
      rw [hpc] at h0
      simp only [State.spc, put_hlock, upd_hlock, put_th_same, put_ver, upd_ver, hh]
      obtain ⟨h1, h2, h3, h4, h5, h6, h7, h8, h9, h10, h11, h12, h13, h14, h15, h16⟩ := h0
      self_tac
    · intro u hu hut hui h0
      rw [hpc] at h0
      simp only [State.spc, put_hlock, upd_hlock, put_th_same, put_ver, upd_ver, hh]
      exact h0.frame' (Nat.le_refl _) (by simp [isAcc] <;> io) (by simp [covered] <;> io) (by env_tac) (by simp [child]) (by simp [bu] <;> io)
    · intro _ _ h0
      rw [hpc] at h0
      simp only [State.spc, put_hlock, upd_hlock, put_th_same, put_ver, upd_ver, hh]
      simp only [put_th_other hit, upd_th_same]
      have hns := not_stopper h0.hl
      have hreg : (s.th i).reg = true := reg_of h0 (by simp [child])
      refine h0.retouch rfl rfl ?_ ?_ ?_ ?_ ?_ ?_
      · have := h0.c_scn hns
        simp [isAcc] at this ⊢; omega
      · simp [isAcc]
      · simpa [covered] using h0.c_stop hns
      · intro hd; simp [expEnv]
      · intro hr; simp [hreg] at hr
      · intro k hk; right; simp [bu]
  · rename_i ph
    have hheld := hheld (by simp [heldReq])
    simp only [] at hs
    cases hs
    refine inv_holder h ht hh i rfl ?_ (Or.inl (by simpa using hh)) ?_ ?_ ?_ ?_
    · intro u hut hui; rw [put_th_other hut, upd_th_other hui]
    · simp only [State.spc, put_hlock, upd_hlock, put_th_same, put_ver, upd_ver, hh]; simpa [holdsT, hh] using htl0
    · intro h0
      rw [hpc] at h0
      simp only [State.spc, put_hlock, upd_hlock, put_th_same, put_ver, upd_ver, hh]
      obtain ⟨h1, h2, h3, h4, h5, h6, h7, h8, h9, h10, h11, h12, h13, h14, h15, h16⟩ := h0
      self_tac
    · intro u hu hut hui h0
      rw [hpc] at h0
      simp only [State.spc, put_hlock, upd_hlock, put_th_same, put_ver, upd_ver, hh]
      exact h0.frame' (Nat.le_refl _) (by simp [isAcc] <;> io) (by simp [covered] <;> io) (by env_tac) (by simp [child]) (by simp [bu] <;> io)
    · intro _ _ h0
      rw [hpc] at h0
      simp only [State.spc, put_hlock, upd_hlock, put_th_same, put_ver, upd_ver, hh]
      simp only [put_th_other hit, upd_th_same]
      have hns := not_stopper h0.hl
      have hreg : (s.th i).reg = true := reg_of h0 (by simp [child])
      refine h0.retouch rfl rfl ?_ ?_ ?_ ?_ ?_ ?_
      · have := h0.c_scn hns
        simp [isAcc] at this ⊢; omega
      · simp [isAcc]
      · simpa [covered] using h0.c_stop hns
      · intro hd; simp [expEnv, hheld]
      · intro hr; simp [hreg] at hr
      · intro k hk; right; simp [bu]

theorem case_resLock {s : State} (h : Inv s) {t : Nat} (ht : t < s.n) {o : Op}
    (hpc : (s.th t).pc = .resLock o) (s' : State) (hs : step s t .step = some s') : Inv s' := by
  obtain ⟨hh, hspc⟩ := spc_of_holds h ht (by simp [hpc, holdsH])
  have htl0 := h.tl
  rw [hspc, hpc] at htl0
  have hself0 := h.thr t ht
  rw [hspc, hpc, hh] at hself0
  have htl1 : s.tlock = none := by simpa [holdsT, hh] using htl0
  have hheld : heldReq (.resLock o) = true → (s.th t).held = some s.ver := by
    intro e; exact hself0.s_held (by rw [hpc]; exact e)
  simp only [step, ht, if_true, hpc, htl1, Option.isSome_none, Bool.false_eq_true, if_false] at hs
  cases o
  · simp at hs
    cases hs
    refine inv_holder h ht hh s.n rfl (fun u hut _ => put_th_other hut) (Or.inl (by simpa using hh)) ?_ ?_ ?_ ?_
    · simp only [State.spc, put_hlock, upd_hlock, put_th_same, put_ver, upd_ver, hh]; simp [holdsT, hh]
    · intro h0
      rw [hpc] at h0
      simp only [State.spc, put_hlock, upd_hlock, put_th_same, put_ver, upd_ver, hh]
      obtain ⟨h1, h2, h3, h4, h5, h6, h7, h8, h9, h10, h11, h12, h13, h14, h15, h16⟩ := h0
      self_tac
    · intro u hu hut _ h0
      rw [hpc] at h0
      simp only [State.spc, put_hlock, upd_hlock, put_th_same, put_ver, upd_ver, hh]
      exact h0.frame' (Nat.le_refl _) (by simp [isAcc] <;> io) (by simp [covered] <;> io) (by env_tac) (by simp [child]) (by simp [bu] <;> io)
    · intro hi'; exact absurd hi' (Nat.lt_irrefl _)
  · have hheld := hheld (by simp [heldReq])
    simp at hs
    cases hs
    refine inv_holder h ht hh s.n rfl (fun u hut _ => put_th_other hut) (Or.inl (by simpa using hh)) ?_ ?_ ?_ ?_
    · simp only [State.spc, put_hlock, upd_hlock, put_th_same, put_ver, upd_ver, hh]; simp [holdsT, hh]
    · intro h0
      rw [hpc] at h0
      simp only [State.spc, put_hlock, upd_hlock, put_th_same, put_ver, upd_ver, hh]
      obtain ⟨h1, h2, h3, h4, h5, h6, h7, h8, h9, h10, h11, h12, h13, h14, h15, h16⟩ := h0
      self_tac
    · intro u hu hut _ h0
      rw [hpc] at h0
      simp only [State.spc, put_hlock, upd_hlock, put_th_same, put_ver, upd_ver, hh]
      exact h0.frame' (Nat.le_refl _) (by simp [isAcc] <;> io) (by simp [covered] <;> io) (by env_tac) (by simp [child]) (by simp [bu] <;> io)
    · intro hi'; exact absurd hi' (Nat.lt_irrefl _)

theorem case_resP {s : State} (h : Inv s) {t : Nat} (ht : t < s.n) {o : Op} {i : Nat}
    (hpc : (s.th t).pc = .resP o i) (s' : State) (hs : step s t .step = some s') : Inv s' := by
  obtain ⟨hh, hspc⟩ := spc_of_holds h ht (by simp [hpc, holdsH])
  have htl0 := h.tl
  rw [hspc, hpc] at htl0
  have hself0 := h.thr t ht
  rw [hspc, hpc, hh] at hself0
  simp only [step, ht, if_true, hpc] at hs
  by_cases hi : i < s.n
  · simp only [hi, if_true] at hs
    by_cases hit : i = t
    · subst hit
      simp only [if_true] at hs
      cases hs
      refine inv_holder h ht hh s.n rfl (fun u hut _ => put_th_other hut) (Or.inl (by simpa using hh)) ?_ ?_ ?_ ?_
      · simp only [State.spc, put_hlock, upd_hlock, put_th_same, put_ver, upd_ver, hh]; simpa [holdsT, hh] using htl0
      · intro h0
        rw [hpc] at h0
        simp only [State.spc, put_hlock, upd_hlock, put_th_same, put_ver, upd_ver, hh]
        obtain ⟨h1, h2, h3, h4, h5, h6, h7, h8, h9, h10, h11, h12, h13, h14, h15, h16⟩ := h0
        self_tac
      · intro u hu hut _ h0
        rw [hpc] at h0
        simp only [State.spc, put_hlock, upd_hlock, put_th_same, put_ver, upd_ver, hh]
        exact h0.frame' (Nat.le_refl _) (by simp [isAcc] <;> io) (by simp [covered] <;> io) (by env_tac) (by simp [child]) (by simp [bu] <;> io)
      · intro hi'; exact absurd hi' (Nat.lt_irrefl _)
    · simp only [hit, if_false] at hs
      have hti : TP (.resP o i) s.ver false s.n i (s.th i) := by
        have := h.thr i hi
        rw [hspc, hpc, hh] at this
        have e : (some t == some i) = false := by simp; exact fun e => hit e.symm
        rw [e] at this; exact this
      have hreg' : (s.th i).reg = true := reg_of hti (by simp [child])
      simp only [hreg', if_true] at hs
      cases hs
      refine inv_holder h ht hh i rfl ?_ (Or.inl (by simpa using hh)) ?_ ?_ ?_ ?_
      · intro u hut hui; rw [put_th_other hut, upd_th_other hui]
      · simp only [State.spc, put_hlock, upd_hlock, put_th_same, put_ver, upd_ver, hh]; simpa [holdsT, hh] using htl0
      · intro h0
        rw [hpc] at h0
        simp only [State.spc, put_hlock, upd_hlock, put_th_same, put_ver, upd_ver, hh]
        obtain ⟨h1, h2, h3, h4, h5, h6, h7, h8, h9, h10, h11, h12, h13, h14, h15, h16⟩ := h0
        self_tac
      · intro u hu hut hui h0
        rw [hpc] at h0
        simp only [State.spc, put_hlock, upd_hlock, put_th_same, put_ver, upd_ver, hh]
        exact h0.frame' (Nat.le_refl _) (by simp [isAcc] <;> io) (by simp [covered] <;> io) (by env_tac) (by simp [child]) (by simp [bu] <;> io)
      · intro _ _ h0
        rw [hpc] at h0
        simp only [State.spc, put_hlock, upd_hlock, put_th_same, put_ver, upd_ver, hh]
        simp only [put_th_other hit, upd_th_same]
        have hns := not_stopper h0.hl
        have hreg : (s.th i).reg = true := reg_of h0 (by simp [child])
        refine h0.retouch rfl rfl ?_ ?_ ?_ ?_ ?_ ?_
        · simpa [isAcc] using h0.c_scn hns
        · simp [isAcc]
        · simp [covered]
        · intro hd; simpa [expEnv] using h0.c_env hns hd
        · intro hr; simp [hreg] at hr
        · intro k hk; right; simp [bu]
  · simp only [hi, if_false] at hs
    cases hs
    refine inv_holder h ht hh s.n rfl (fun u hut _ => put_th_other hut) (Or.inr rfl) ?_ ?_ ?_ ?_
    · simp only [State.spc, put_hlock, upd_hlock, put_th_same, put_ver, upd_ver, hh]; simp [holdsT]
    · intro h0
      rw [hpc] at h0
      simp only [State.spc, put_hlock, upd_hlock, put_th_same, put_ver, upd_ver, hh]
      obtain ⟨h1, h2, h3, h4, h5, h6, h7, h8, h9, h10, h11, h12, h13, h14, h15, h16⟩ := h0
      self_tac
    · intro u hu hut _ h0
      rw [hpc] at h0
      simp only [State.spc, put_hlock, upd_hlock, put_th_same, put_ver, upd_ver, hh]
      exact h0.frame' (Nat.le_refl _) (by simp [isAcc] <;> io) (by simp [covered] <;> io) (by env_tac) (by simp [child]) (by simp [bu] <;> io)
    · intro hi'; exact absurd hi' (Nat.lt_irrefl _)

theorem case_resU {s : State} (h : Inv s) {t : Nat} (ht : t < s.n) {o : Op} {i : Nat}
    (hpc : (s.th t).pc = .resU o i) (s' : State) (hs : step s t .step = some s') : Inv s' := by
  obtain ⟨hh, hspc⟩ := spc_of_holds h ht (by simp [hpc, holdsH])
  have htl0 := h.tl
  rw [hspc, hpc] at htl0
  have hself0 := h.thr t ht
  rw [hspc, hpc, hh] at hself0
  simp only [step, ht, if_true, hpc] at hs
  by_cases hit : i = t
  · subst hit
    simp only [if_true] at hs
    cases hs
    refine inv_holder h ht hh s.n rfl (fun u hut _ => put_th_other hut) (Or.inl (by simpa using hh)) ?_ ?_ ?_ ?_
    · simp only [State.spc, put_hlock, upd_hlock, put_th_same, put_ver, upd_ver, hh]; simpa [holdsT, hh] using htl0
    · intro h0
      rw [hpc] at h0
      simp only [State.spc, put_hlock, upd_hlock, put_th_same, put_ver, upd_ver, hh]
      obtain ⟨h1, h2, h3, h4, h5, h6, h7, h8, h9, h10, h11, h12, h13, h14, h15, h16⟩ := h0
      self_tac
    · intro u hu hut _ h0
      rw [hpc] at h0
      simp only [State.spc, put_hlock, upd_hlock, put_th_same, put_ver, upd_ver, hh]
      exact h0.frame' (Nat.le_refl _) (by simp [isAcc] <;> io) (by simp [covered] <;> io) (by env_tac) (by simp [child]) (by simp [bu] <;> io)
    · intro hi'; exact absurd hi' (Nat.lt_irrefl _)
  · simp only [hit, if_false] at hs
    cases hs
    refine inv_holder h ht hh i rfl ?_ (Or.inl (by simpa using hh)) ?_ ?_ ?_ ?_
    · intro u hut hui; rw [put_th_other hut, upd_th_other hui]
    · simp only [State.spc, put_hlock, upd_hlock, put_th_same, put_ver, upd_ver, hh]; simpa [holdsT, hh] using htl0
    · intro h0
      rw [hpc] at h0
      simp only [State.spc, put_hlock, upd_hlock, put_th_same, put_ver, upd_ver, hh]
      obtain ⟨h1, h2, h3, h4, h5, h6, h7, h8, h9, h10, h11, h12, h13, h14, h15, h16⟩ := h0
      self_tac
    · intro u hu hut hui h0
      rw [hpc] at h0
      simp only [State.spc, put_hlock, upd_hlock, put_th_same, put_ver, upd_ver, hh]
      exact h0.frame' (Nat.le_refl _) (by simp [isAcc] <;> io) (by simp [covered] <;> io) (by env_tac) (by simp [child]) (by simp [bu] <;> io)
    · intro _ _ h0
      rw [hpc] at h0
      simp only [State.spc, put_hlock, upd_hlock, put_th_same, put_ver, upd_ver, hh]
      simp only [put_th_other hit, upd_th_same]
      have hns := not_stopper h0.hl
      have hreg : (s.th i).reg = true := reg_of h0 (by simp [child])
      refine h0.retouch rfl rfl ?_ ?_ ?_ ?_ ?_ ?_
      · simpa [isAcc] using h0.c_scn hns
      · simp [isAcc]
      · rw [h0.c_stop hns]; simp [covered] <;> io
      · intro hd; simpa [expEnv] using h0.c_env hns hd
      · intro hr; simp [hreg] at hr
      · intro k hk; left; rfl

end SteelVerif.C15.R
