/-
C15 / C16 / C17 — model MR of the REPAIRED stop-the-world handshake (proposed fixes of K15a, K15b, K17a, K17c;
patches: /verif/.build/C15/proposed-fix-K15a.diff, proposed-fix-K15b.diff, proposed-fix-K17ac.diff).

Differences from `Model.lean` (the code as it is), each one a change of the code:
  * K15a — every safepoint exit is a Dekker handshake: after the exit loop read "no stop requested" the thread
    retracts (`ctx.store(None)`), READS THE FLAGS AGAIN (`recheck`), and if a stop request arrived in between it
    publishes itself again (`republish`) and goes back to the exit loop.  The stopper is unchanged: it raises the
    request first and reads `ctx` afterwards.
  * K15b — `spawn-native-thread` takes the heap lock (inside a safepoint, as an allocation does) before it clones
    its state for the child, and keeps it until the child is pushed to `threads`: no round can begin or be in
    progress between the creation of the child and its registration.
  * K17a / K17c — `ThreadStateController` is ONE atomic word of request bits: `pause_for_safepoint` sets STOP,
    the stopper's `resume_threads` clears STOP only, `interrupt()` sets INTERRUPT, the host's `resume()` clears
    INTERRUPT only.  Every controller operation is one atomic read-modify-write (no two-store window); the exit
    loops wait on STOP only (no `break` on `Interrupted`); the dispatch poll returns the error when INTERRUPT is
    set, whatever else is set.
  * (already in /repo since d9e2a72a) the heap-lock guard of the gate is kept for the whole `with_locked_env`.

Any number of script threads; every access to a shared location (a thread's request word, its published pointer
`ctx`, its park token, the `threads` mutex, the heap mutex) is one atomic step of exactly one thread.  Threads
live in slots `0 … n-1` (`th u` for `u ≥ n` is never read).  List order = spawn order.
Merged (no other thread can observe the difference): a stopper's update of its OWN request word together with
the acquisition of the `threads` mutex that follows; thread-local work with the next shared access;
`threads.lock().push(); unlock` of a registration.
Ghost: `scanned` (the stopper is between `scanBegin u` and `scanEnd u`).
-/
namespace SteelVerif.C15.R

abbrev Tid := Nat

inductive Kind where
  | poll    -- instruction-dispatch poll (`safepoint_or_interrupt`)
  | prim    -- `enter_safepoint` around a primitive call
  | alloc   -- `enter_safepoint(|t| t.heap.lock_arc())` of an allocation: the heap lock is kept
  | gate    -- the same in front of `with_locked_env`: kept until it returns
  | spawnH  -- the same at the start of `spawn-native-thread` (K15b repair): kept until the child is registered
  | reg     -- `enter_safepoint(|t| t.synchronizer.threads.lock().push(child))`
deriving DecidableEq, Repr, Inhabited

inductive Op where
  | gc | env
deriving DecidableEq, Repr, Inhabited

inductive PC where
  | run
  | pubStore                             -- poll saw STOP; next: `ctx.store(Some(self))`
  | inSafe (k : Kind)                    -- published, inside the closure (primitive / `lock_arc`)
  | regWait (c : Nat)                    -- published, closure of the registration waits for `threads`
  | exitCheck (k : Kind)                 -- next: `flags.load()` of the exit loop
  | parking (k : Kind)                   -- next: `std::thread::park()`
  | retract (k : Kind)                   -- next: `ctx.store(None)`
  | recheck (k : Kind)                   -- next: `flags.load()` AFTER the retraction (K15a repair)
  | republish (k : Kind)                 -- the recheck saw STOP; next: `ctx.store(Some(self))`
  | allocd                               -- holds the heap lock: allocate (maybe collect), unlock
  | envReady                             -- gate passed (heap lock held): next `stop_threads`
  | spawnReady                           -- heap lock held: next clone the state and start the child
  | regEnter (c : Nat)                   -- child `c` runs, unregistered; next `ctx.store(Some(self))`
  | stopP (o : Op) (i : Nat)             -- `flags.fetch_or(STOP)` of entry `i`
  | scanLock (o : Op) (ph : Nat)
  | spin (o : Op) (ph : Nat) (i : Nat)   -- next: `ctx.load()` of entry `i`
  | acc (o : Op) (ph : Nat) (i : Nat)    -- after `scanBegin i`: foreign access, then `scanEnd i`
  | resLock (o : Op)
  | resP (o : Op) (i : Nat)              -- `flags.fetch_and(!STOP)` of entry `i`
  | resU (o : Op) (i : Nat)              -- `unpark()` of entry `i`
  | done
deriving DecidableEq, Repr, Inhabited

structure Thread where
  pc : PC := .run
  stop : Bool := false                   -- STOP bit of the request word
  intr : Bool := false                   -- INTERRUPT bit
  ctx : Bool := false
  token : Bool := false
  reg : Bool := false
  env : Option Nat := some 0
  held : Option Nat := none
  scanned : Nat := 0                     -- ghost
deriving DecidableEq, Repr, Inhabited

structure State where
  n : Nat := 1
  th : Tid → Thread := fun u => if u = 0 then { reg := true } else {}
  tlock : Option Tid := none
  hlock : Option Tid := none
  ver : Nat := 0

def init : State := {}

inductive Act where
  | poll | callPrim | alloc | setGlobal | spawn | finish
  | gc
  | step
  | spurious
  | hostInt | hostRes                    -- `interrupt()` / host `resume()` on this thread's controller
deriving DecidableEq, Repr, Inhabited

def PC.published : PC → Bool
  | .inSafe _ | .regWait _ | .exitCheck _ | .parking _ | .retract _ => true
  | _ => false

/-- Inside the safepoint protocol: the thread does not touch its stack or its global table.  (At `recheck` /
`republish` it has retracted, but whether it may go on is exactly what it is about to find out: the theorem says
that a thread that is being scanned never finds out "yes".) -/
def PC.safe : PC → Bool
  | .inSafe _ | .regWait _ | .exitCheck _ | .parking _ | .retract _ | .recheck _ | .republish _ => true
  | _ => false

def PC.isStopper : PC → Bool
  | .stopP .. | .scanLock .. | .spin .. | .acc .. | .resLock _ | .resP .. | .resU .. => true
  | _ => false

def State.put (s : State) (t : Tid) (x : Thread) : State :=
  { s with th := fun u => if u = t then x else s.th u }

def State.upd (s : State) (i : Tid) (f : Thread → Thread) : State :=
  { s with th := fun u => if u = i then f (s.th u) else s.th u }

def afterScan (o : Op) (ph : Nat) : PC :=
  match o, ph with
  | .gc, _ => .resLock .gc
  | .env, 0 => .scanLock .env 1
  | .env, _ => .resLock .env

def isHeapKind : Kind → Bool
  | .alloc | .gate | .spawnH => true
  | _ => false

/-- Where a thread goes when its recheck read "no stop requested". -/
def leavePC : Kind → PC
  | .poll | .prim | .reg => .run
  | .alloc => .allocd
  | .gate => .envReady
  | .spawnH => .spawnReady

def stopBegin (s : State) (t : Tid) (th : Thread) (o : Op) : Option State :=
  if s.tlock.isSome then none else
  some ({ s with tlock := some t }.put t { th with stop := true, pc := .stopP o 0 })

/-- One line of a schedule: thread `t` performs `a` (`hostInt`/`hostRes`: on thread `t`'s controller). -/
def step (s : State) (t : Tid) (a : Act) : Option State :=
  if t < s.n then
  let th := s.th t
  match a, th.pc with
  | .hostInt, _ => some (s.put t { th with intr := true })
  | .hostRes, _ => some (s.put t { th with intr := false })
  -- ── a dispatching thread ─────────────────────────────────────────────────────────────────
  | .poll, .run =>                        -- one load of the request word
      if th.intr then some (s.put t { th with pc := .done })           -- `Err(Interrupted by user)`
      else if th.stop then some (s.put t { th with pc := .pubStore })
      else some s
  | .callPrim, .run => some (s.put t { th with ctx := true, pc := .inSafe .prim })
  | .alloc, .run => some (s.put t { th with ctx := true, pc := .inSafe .alloc })
  | .setGlobal, .run => some (s.put t { th with ctx := true, pc := .inSafe .gate })
  | .spawn, .run => some (s.put t { th with ctx := true, pc := .inSafe .spawnH })
  | .finish, .run => some (s.put t { th with pc := .done })
  | .step, .pubStore => some (s.put t { th with ctx := true, pc := .exitCheck .poll })
  -- ── inside a safepoint ────────────────────────────────────────────────────────────────────
  | .step, .inSafe k =>
      if isHeapKind k then                -- `heap.lock_arc()`
        if s.hlock.isSome then none else
        some ({ s with hlock := some t }.put t { th with pc := .exitCheck k })
      else if k = .prim then some (s.put t { th with pc := .exitCheck k })   -- the primitive returns
      else none
  | .step, .regWait c =>
      if s.tlock.isSome then none else
      some ((s.upd c (fun x => { x with reg := true })).put t { th with pc := .exitCheck .reg })
  | .step, .exitCheck k =>
      if th.stop then some (s.put t { th with pc := .parking k })
      else some (s.put t { th with pc := .retract k })
  | .step, .parking k =>
      if th.token then some (s.put t { th with token := false, pc := .exitCheck k }) else none
  | .spurious, .parking k => some (s.put t { th with pc := .exitCheck k })
  | .step, .retract k => some (s.put t { th with ctx := false, pc := .recheck k })
  | .step, .recheck k =>
      if th.stop then some (s.put t { th with pc := .republish k })
      else if k = .reg then some ({ s with hlock := none }.put t { th with pc := .run })
      else some (s.put t { th with pc := leavePC k })
  | .step, .republish k => some (s.put t { th with ctx := true, pc := .exitCheck k })
  -- ── after the heap-lock safepoints ───────────────────────────────────────────────────────
  | .step, .allocd => some ({ s with hlock := none }.put t { th with pc := .run })
  | .gc, .allocd => stopBegin s t th .gc
  | .step, .envReady => stopBegin s t th .env
  | .step, .spawnReady =>
      let c := s.n
      some ({ s with n := s.n + 1 }.put c { env := th.env } |>.put t { th with pc := .regEnter c })
  | .step, .regEnter c => some (s.put t { th with ctx := true, pc := .regWait c })
  -- ── `stop_threads` ───────────────────────────────────────────────────────────────────────
  | .step, .stopP o i =>
      if i < s.n then
        if i = t then some (s.put t { th with stop := true, pc := .stopP o (i + 1) })
        else if (s.th i).reg then
          some ((s.upd i (fun x => { x with stop := true })).put t { th with pc := .stopP o (i + 1) })
        else some (s.put t { th with pc := .stopP o (i + 1) })
      else some ({ s with tlock := none }.put t { th with pc := .scanLock o 0 })
  -- ── `enumerate_stacks` / `call_per_ctx` ────────────────────────────────────────────────────
  | .step, .scanLock o ph =>
      if s.tlock.isSome then none else
      match o, ph with
      | .env, 0 =>
          some ({ s with tlock := some t }.put t { th with held := th.env, env := none, pc := .spin o ph 0 })
      | .env, _ =>
          some ({ s with tlock := some t, ver := s.ver + 1 }.put t
            { th with held := some (s.ver + 1), pc := .spin o ph 0 })
      | .gc, _ => some ({ s with tlock := some t }.put t { th with pc := .spin o ph 0 })
  | .step, .spin o ph i =>
      if i < s.n then
        let x := s.th i
        if i = t ∨ x.reg = false ∨ x.pc = .done then some (s.put t { th with pc := .spin o ph (i + 1) })
        else if x.ctx then
          some ((s.upd i (fun x => { x with scanned := x.scanned + 1 })).put t { th with pc := .acc o ph i })
        else some s
      else some ({ s with tlock := none }.put t { th with pc := afterScan o ph })
  | .step, .acc o ph i =>
      let f : Thread → Thread := fun x =>
        let x := { x with scanned := x.scanned - 1 }
        match o, ph with
        | .gc, _ => x
        | .env, 0 => { x with env := none }
        | .env, _ => { x with env := th.held }
      some ((s.upd i f).put t { th with pc := .spin o ph (i + 1) })
  -- ── `resume_threads` ──────────────────────────────────────────────────────────────────────
  | .step, .resLock o =>
      if s.tlock.isSome then none else
      let th := if o = .env then { th with env := th.held, held := none } else th
      some ({ s with tlock := some t }.put t { th with stop := false, pc := .resP o 0 })
  | .step, .resP o i =>
      if i < s.n then
        if i = t then some (s.put t { th with stop := false, pc := .resU o i })
        else if (s.th i).reg then
          some ((s.upd i (fun x => { x with stop := false })).put t { th with pc := .resU o i })
        else some (s.put t { th with pc := .resP o (i + 1) })
      else some ({ s with tlock := none, hlock := none }.put t { th with pc := .run })
  | .step, .resU o i =>
      if i = t then some (s.put t { th with token := true, pc := .resP o (i + 1) })
      else some ((s.upd i (fun x => { x with token := true })).put t { th with pc := .resP o (i + 1) })
  | _, _ => none
  else none

def run (s : State) : List (Tid × Act) → State
  | [] => s
  | (t, a) :: rest =>
      match step s t a with
      | none => s
      | some s' => run s' rest

/-! ## The specification S -/

/-- A thread whose state is being inspected or replaced is inside the safepoint protocol. -/
def State.scanOk (s : State) : Bool :=
  (List.range s.n).all (fun u => (s.th u).scanned == 0 || (s.th u).pc.safe)

/-- No world-stopping operation is in progress. -/
def State.noRound (s : State) : Bool := (List.range s.n).all (fun u => !(s.th u).pc.isStopper)

/-- Every live thread holds the newest global table. -/
def State.envOk (s : State) : Bool :=
  (List.range s.n).all (fun u => (s.th u).pc == .done || (s.th u).pc.isStopper || (s.th u).env == some s.ver)

/-- Observable summary of a state (for tests by `decide` and for the driver). -/
def State.view (s : State) : List (PC × Bool × Bool × Bool × Nat × Option Nat) :=
  (List.range s.n).map fun u =>
    let x := s.th u
    (x.pc, x.stop, x.intr, x.ctx, x.scanned, x.env)

end SteelVerif.C15.R
