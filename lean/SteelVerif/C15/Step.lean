/-
C15 / C16 — preservation of the invariant: generic lemmas and the steps of a thread that is not a stopper.
-/
import SteelVerif.C15.Lemmas
namespace SteelVerif.C15
set_option linter.unusedSimpArgs false
set_option linter.unusedVariables false

theorem covered_bu (p : PC) (u : Tid) : covered p u = true → beforeUnpark p u = true := by
  cases p <;> simp [covered, beforeUnpark] <;> omega

theorem isAcc_covered (p : PC) (u : Tid) : isAcc p u = true → covered p u = true := by
  cases p <;> simp [covered, isAcc]

/-- A thread that is not at a stopper pc is not the stopper. -/
theorem not_stopper_of_pc {s : State} (h : Inv s) {t : Tid} {th : Thread}
    (hth : s.threads[t]? = some th) (hns : th.pc.isStopper = false) : s.stopper ≠ some t := by
  intro hs
  have := ((h.thr t th hth).1 hs).st
  rw [hns] at this; cases this

/-- `proj` does not see the record of a thread that is not the stopper. -/
theorem proj_put {s : State} {t u : Tid} {th x : Thread} (hth : s.threads[t]? = some th)
    (hns : s.stopper ≠ some t) : proj (s.put t x) u = proj s u := by
  have e : (s.put t x).spc = s.spc := by rw [spc_put hth]; simp [hns]
  unfold proj
  rw [e]
  rfl

/-- Replace the record of a thread `t` that is not the stopper; the rest of the state may change in the
heap lock and the `hostUsed` ghost. -/
theorem inv_mut {s s1 : State} {t : Tid} {th th' : Thread} (h : Inv s)
    (hth : s.threads[t]? = some th) (hns : th.pc.isStopper = false)
    (e : s1.threads = s.threads ∧ s1.tlock = s.tlock ∧ s1.ver = s.ver ∧ s1.stopper = s.stopper ∧
      s1.fix = s.fix)
    (hlk1 : ∀ x, s1.hlock = some x → x < s.threads.length)
    (hself : TPcore (proj s t) th → TPcore (proj s1 t) th')
    (hoth : ∀ u thu, u ≠ t → s.threads[u]? = some thu →
      (TPself s.ver (decide (s.hlock = some u)) s.hostUsed s.fix thu →
        TPself s1.ver (decide (s1.hlock = some u)) s1.hostUsed s1.fix thu) ∧
      (TPcore (proj s u) thu → TPcore (proj s1 u) thu)) :
    Inv (s1.put t th') := by
  obtain ⟨e1, e2, e3, e4, e5⟩ := e
  have hnst := not_stopper_of_pc h hth hns
  have hth1 : s1.threads[t]? = some th := by rw [e1]; exact hth
  have hnst1 : s1.stopper ≠ some t := by rw [e4]; exact hnst
  have hspc : (s1.put t th').spc = s1.spc := by rw [spc_put hth1]; simp [hnst1]
  refine ⟨?_, ?_, ?_, ?_, ?_⟩
  · intro u thu hu
    by_cases hut : u = t
    · subst hut
      rw [put_get_same hth1] at hu; cases hu
      refine ⟨fun hs => absurd hs (by simpa using hnst1), fun _ => ?_⟩
      rw [proj_put hth1 hnst1]
      exact hself ((h.thr u th hth).2 hnst)
    · rw [put_get_other hut, e1] at hu
      have := hoth u thu hut hu
      refine ⟨fun hs => ?_, fun hs => ?_⟩
      · simp only [put_stopper, put_ver, put_hlock, put_hostUsed, put_fix] at hs ⊢
        exact this.1 ((h.thr u thu hu).1 (by rw [← e4]; exact hs))
      · rw [proj_put hth1 hnst1]
        simp only [put_stopper] at hs
        exact this.2 ((h.thr u thu hu).2 (by rw [← e4]; exact hs))
  · intro a ha; simp only [put_stopper, put_len] at ha ⊢; rw [e1]; rw [e4] at ha; exact h.stp a ha
  · simp only [put_tlock, put_stopper, hspc]
    have : s1.spc = s.spc := by simp [State.spc, e1, e4]
    rw [this, e2, e4]; exact h.tl
  · intro x hx; simp only [put_hlock, put_len] at hx ⊢; rw [e1]; exact hlk1 x hx
  · intro a ha
    simp only [put_stopper] at ha
    rw [hspc]
    have : s1.spc = s.spc := by simp [State.spc, e1, e4]
    rw [this]; rw [e4] at ha; exact h.acs a ha

/-- The common case: nothing but the record of `t` changes. -/
theorem inv_mut0 {s : State} {t : Tid} {th th' : Thread} (h : Inv s)
    (hth : s.threads[t]? = some th) (hns : th.pc.isStopper = false)
    (hself : ∀ pr, TPcore pr th → TPcore pr th') : Inv (s.put t th') :=
  inv_mut h hth hns ⟨rfl, rfl, rfl, rfl, rfl⟩ h.hlk (hself _) (fun _ _ _ _ => ⟨id, id⟩)

/-- The heap lock changes hands: only `t` sees a difference. -/
theorem inv_mut_hl {s : State} {t : Tid} {th th' : Thread} {x : Option Tid} (h : Inv s)
    (hth : s.threads[t]? = some th) (hns : th.pc.isStopper = false)
    (hx : ∀ u, u ≠ t → decide (x = some u) = decide (s.hlock = some u))
    (hxl : ∀ y, x = some y → y < s.threads.length)
    (hself : TPcore (proj s t) th → TPcore { proj s t with hl := decide (x = some t) } th') :
    Inv ({ s with hlock := x }.put t th') := by
  refine inv_mut h hth hns ⟨rfl, rfl, rfl, rfl, rfl⟩ hxl hself ?_
  intro u thu hut hu
  refine ⟨fun hh => ?_, fun hh => ?_⟩
  · show TPself s.ver (decide (x = some u)) s.hostUsed s.fix thu
    rw [hx u hut]; exact hh
  · have : proj { s with hlock := x } u = proj s u := by
      simp only [proj, State.spc]; rw [hx u hut]
    rw [this]; exact hh

/-! ## Record-level lemmas: one per step of a thread that is not a stopper -/

macro "core_tac" : tactic =>
  `(tactic| (
    refine ⟨?_, ?_, ?_, ?_, ?_, ?_, ?_, ?_, ?_, ?_⟩ <;>
    simp_all [PC.published, PC.isStopper, PC.leaving, PC.waiting, holdsH, isHeapKind]))

theorem core_poll {pr : Proj} {th : Thread} (h : TPcore pr th) (hpc : th.pc = .run) :
    TPcore pr { th with pc := .sawPaused } := by
  obtain ⟨h1, h2, h3, h4, h5, h6, h7, h8, h9, h10⟩ := h
  core_tac

theorem core_enter {pr : Proj} {th : Thread} (k : Kind) (h : TPcore pr th) (hpc : th.pc = .run) :
    TPcore pr { th with ctx := true, pc := .inSafe k } := by
  obtain ⟨h1, h2, h3, h4, h5, h6, h7, h8, h9, h10⟩ := h
  core_tac

theorem core_finish {pr : Proj} {th : Thread} (h : TPcore pr th)
    (hpc : th.pc = .run ∨ th.pc = .sawPaused) : TPcore pr { th with pc := .done } := by
  obtain ⟨h1, h2, h3, h4, h5, h6, h7, h8, h9, h10⟩ := h
  rcases hpc with hpc | hpc <;> core_tac

theorem core_saw {pr : Proj} {th : Thread} (pc' : PC) (h : TPcore pr th) (hpc : th.pc = .sawPaused)
    (hpc' : pc' = .pubStore ∨ pc' = .run) : TPcore pr { th with pc := pc' } := by
  obtain ⟨h1, h2, h3, h4, h5, h6, h7, h8, h9, h10⟩ := h
  rcases hpc' with rfl | rfl <;> core_tac

theorem core_pub {pr : Proj} {th : Thread} (h : TPcore pr th) (hpc : th.pc = .pubStore) :
    TPcore pr { th with ctx := true, pc := .exitCheck .poll } := by
  obtain ⟨h1, h2, h3, h4, h5, h6, h7, h8, h9, h10⟩ := h
  core_tac

theorem core_primret {pr : Proj} {th : Thread} (h : TPcore pr th) (hpc : th.pc = .inSafe .prim) :
    TPcore pr { th with pc := .exitCheck .prim } := by
  obtain ⟨h1, h2, h3, h4, h5, h6, h7, h8, h9, h10⟩ := h
  core_tac

theorem core_pollret {pr : Proj} {th : Thread} (h : TPcore pr th) (hpc : th.pc = .inSafe .poll) :
    TPcore pr { th with pc := .exitCheck .poll } := by
  obtain ⟨h1, h2, h3, h4, h5, h6, h7, h8, h9, h10⟩ := h
  core_tac

theorem core_lock {pr : Proj} {th : Thread} (k : Kind) (hk : isHeapKind k = true) (h : TPcore pr th)
    (hpc : th.pc = .inSafe k) : TPcore { pr with hl := true } { th with pc := .exitCheck k } := by
  obtain ⟨h1, h2, h3, h4, h5, h6, h7, h8, h9, h10⟩ := h
  core_tac

theorem core_exit_paused {pr : Proj} {th : Thread} (k : Kind) (h : TPcore pr th)
    (hpc : th.pc = .exitCheck k) (hp : th.paused = true) :
    TPcore pr { th with pc := if k = .poll then .parking .poll else .intCheck k } := by
  obtain ⟨h1, h2, h3, h4, h5, h6, h7, h8, h9, h10⟩ := h
  by_cases hk : k = .poll
  · subst hk; core_tac
  · simp only [hk, if_false]; core_tac

theorem core_exit_free {pr : Proj} {th : Thread} (k : Kind) (h : TPcore pr th)
    (hpc : th.pc = .exitCheck k) (hp : th.paused = false) :
    TPcore pr { th with pc := .retract k } := by
  obtain ⟨h1, h2, h3, h4, h5, h6, h7, h8, h9, h10⟩ := h
  have hc : pr.cov = false := by
    cases hc : pr.cov
    · rfl
    · have := (h6 hc).1; rw [hp] at this; cases this
  have ha : pr.accd = false := by
    cases ha : pr.accd
    · rfl
    · have := (h4 ha).2; rw [hc] at this; cases this
  core_tac

theorem core_int {pr : Proj} {th : Thread} (k : Kind) (h : TPcore pr th)
    (hpc : th.pc = .intCheck k) :
    TPcore pr { th with pc := if th.st = .interrupted then .retract k else .parking k } := by
  obtain ⟨h1, h2, h3, h4, h5, h6, h7, h8, h9, h10⟩ := h
  by_cases hi : th.st = .interrupted
  · have hc : pr.cov = false := by
      cases hc : pr.cov
      · rfl
      · exact absurd hi (h6 hc).2.1
    have ha : pr.accd = false := by
      cases ha : pr.accd
      · rfl
      · have := (h4 ha).2; rw [hc] at this; cases this
    have hh : pr.host = true := by
      cases hh : pr.host
      · exact absurd hi (h9 hh).2.1
      · rfl
    simp only [hi, if_true]; core_tac
  · simp only [hi, if_false]; core_tac

theorem core_unpark {pr : Proj} {th : Thread} (k : Kind) (tk : Bool) (h : TPcore pr th)
    (hpc : th.pc = .parking k) : TPcore pr { th with token := tk, pc := .exitCheck k } := by
  obtain ⟨h1, h2, h3, h4, h5, h6, h7, h8, h9, h10⟩ := h
  core_tac

theorem core_retract {pr : Proj} {th : Thread} (k : Kind) (h : TPcore pr th)
    (hpc : th.pc = .retract k) (pc' : PC)
    (hpc' : (k = .poll ∧ pc' = .run) ∨ (k = .prim ∧ pc' = .run) ∨ (k = .alloc ∧ pc' = .allocd)) :
    TPcore pr { th with ctx := false, pc := pc' } := by
  obtain ⟨h1, h2, h3, h4, h5, h6, h7, h8, h9, h10⟩ := h
  have hc : pr.cov = false := by
    cases hc : pr.cov
    · rfl
    · have := (h6 hc).2.2; simp [hpc, PC.leaving] at this
  have ha : pr.accd = false := by
    cases ha : pr.accd
    · rfl
    · have := (h4 ha).2; rw [hc] at this; cases this
  rcases hpc' with ⟨rfl, rfl⟩ | ⟨rfl, rfl⟩ | ⟨rfl, rfl⟩ <;> core_tac

theorem core_retract_gate {pr : Proj} {th : Thread} (h : TPcore pr th)
    (hpc : th.pc = .retract .gate) :
    TPcore { pr with hl := pr.fx } { th with ctx := false, pc := .envReady } := by
  obtain ⟨h1, h2, h3, h4, h5, h6, h7, h8, h9, h10⟩ := h
  have hc : pr.cov = false := by
    cases hc : pr.cov
    · rfl
    · have := (h6 hc).2.2; simp [hpc, PC.leaving] at this
  have ha : pr.accd = false := by
    cases ha : pr.accd
    · rfl
    · have := (h4 ha).2; rw [hc] at this; cases this
  core_tac

theorem core_unlock {pr : Proj} {th : Thread} (h : TPcore pr th) (hpc : th.pc = .allocd) :
    TPcore { pr with hl := false } { th with pc := .run } := by
  obtain ⟨h1, h2, h3, h4, h5, h6, h7, h8, h9, h10⟩ := h
  core_tac

end SteelVerif.C15
