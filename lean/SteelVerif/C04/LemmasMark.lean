/-
C04 — lemmas about the marker's worklist: shape (only mark bits change), closure (soundness),
completeness (only reachable slots are marked), and the statistics counter.
-/
import SteelVerif.C04.Model
namespace SteelVerif.C04

/-! ## `Inside` -/

theorem Inside_atom {E : Edges} {n : Int} {w : Val} (h : Inside E (.atom n) w) : w = .atom n := by
  cases h; rfl

theorem Inside_ref {E : Edges} {a : Addr} {o : Oid} {w : Val} (h : Inside E (.ref a o) w) : w = .ref a o := by
  cases h; rfl

theorem mem_kids {E : Edges} {k : Kind} {fs : List (Field × Val)} {c : Val} :
    c ∈ kids E (.node k fs) ↔ ∃ f, (f, c) ∈ fs ∧ f ∈ E k := by
  simp only [kids, List.mem_map, List.mem_filter, List.contains_iff_mem]
  constructor
  · rintro ⟨⟨f, c'⟩, ⟨hm, hf⟩, rfl⟩
    exact ⟨f, hm, hf⟩
  · rintro ⟨f, hm, hf⟩
    exact ⟨(f, c), ⟨hm, hf⟩, rfl⟩

theorem Inside_node_ref {E : Edges} {k : Kind} {fs : List (Field × Val)} {b : Addr} {o : Oid}
    (h : Inside E (.node k fs) (.ref b o)) : ∃ c ∈ kids E (.node k fs), Inside E c (.ref b o) := by
  cases h with
  | child hm hf hi => exact ⟨_, mem_kids.mpr ⟨_, hm, hf⟩, hi⟩

theorem Inside_of_kid {E : Edges} {k : Kind} {fs : List (Field × Val)} {c w : Val}
    (hc : c ∈ kids E (.node k fs)) (h : Inside E c w) : Inside E (.node k fs) w := by
  obtain ⟨f, hm, hf⟩ := mem_kids.mp hc
  exact Inside.child hm hf h

/-- Following fewer fields reaches less. -/
theorem Inside_mono {S E : Edges} (hSE : ∀ k f, f ∈ S k → f ∈ E k) {v w : Val} (h : Inside S v w) : Inside E v w := by
  induction h with
  | here v => exact Inside.here v
  | child hm hf _ ih => exact Inside.child hm (hSE _ _ hf) ih

/-! ## `readCell` and distinct addresses -/

def AddrNodup (cs : List Cell) : Prop := (cs.map (·.addr)).Nodup

theorem readCell_some {cs : List Cell} {a : Addr} {c : Cell} (h : readCell cs a = some c) : c ∈ cs ∧ c.addr = a := by
  refine ⟨List.mem_of_find?_eq_some h, ?_⟩
  have := List.find?_some h
  simpa using this

theorem readCell_none {cs : List Cell} {a : Addr} (h : readCell cs a = none) : ∀ c ∈ cs, c.addr ≠ a := by
  intro c hc
  have := List.find?_eq_none.mp h c hc
  simpa using this

theorem addr_inj {cs : List Cell} (hnd : AddrNodup cs) {c d : Cell} (hc : c ∈ cs) (hd : d ∈ cs)
    (h : c.addr = d.addr) : c = d := by
  induction cs with
  | nil => cases hc
  | cons e rest ih =>
    simp only [AddrNodup, List.map_cons, List.nodup_cons, List.mem_map, not_exists, not_and] at hnd
    rcases List.mem_cons.mp hc with rfl | hc' <;> rcases List.mem_cons.mp hd with rfl | hd'
    · rfl
    · exact absurd h.symm (hnd.1 d hd')
    · exact absurd h (hnd.1 c hc')
    · exact ih hnd.2 hc' hd'

theorem readCell_of_mem {cs : List Cell} (hnd : AddrNodup cs) {c : Cell} (hc : c ∈ cs) :
    readCell cs c.addr = some c := by
  cases h : readCell cs c.addr with
  | none => exact absurd rfl (readCell_none h c hc)
  | some d =>
    obtain ⟨hd, hda⟩ := readCell_some h
    rw [addr_inj hnd hd hc hda]

/-! ## Marking a set of addresses -/

def markSet (cs : List Cell) (A : List Addr) : List Cell :=
  cs.map fun c => if c.addr ∈ A then { c with reachable := true } else c

theorem markCell_eq_markSet (cs : List Cell) (a : Addr) : markCell cs a = markSet cs [a] := by
  simp [markCell, markSet]

theorem markSet_nil (cs : List Cell) : markSet cs [] = cs := by
  simp [markSet]

theorem markSet_markSet (cs : List Cell) (A B : List Addr) : markSet (markSet cs A) B = markSet cs (A ++ B) := by
  simp only [markSet, List.map_map]
  apply List.map_congr_left
  intro c _
  by_cases hA : c.addr ∈ A <;> by_cases hB : c.addr ∈ B <;> simp [hA, hB]

theorem mem_markSet {cs : List Cell} {A : List Addr} {d : Cell} :
    d ∈ markSet cs A ↔ ∃ c ∈ cs, d = if c.addr ∈ A then { c with reachable := true } else c := by
  simp only [markSet, List.mem_map]
  constructor
  · rintro ⟨c, hc, rfl⟩; exact ⟨c, hc, rfl⟩
  · rintro ⟨c, hc, rfl⟩; exact ⟨c, hc, rfl⟩

theorem markSet_addrs (cs : List Cell) (A : List Addr) : (markSet cs A).map (·.addr) = cs.map (·.addr) := by
  simp only [markSet, List.map_map]
  apply List.map_congr_left
  intro c _
  by_cases hA : c.addr ∈ A <;> simp [hA]

theorem markSet_length (cs : List Cell) (A : List Addr) : (markSet cs A).length = cs.length := by
  simp [markSet]

theorem AddrNodup_markSet {cs : List Cell} (A : List Addr) (h : AddrNodup cs) : AddrNodup (markSet cs A) := by
  unfold AddrNodup; rw [markSet_addrs]; exact h

/-- All cells with address `b` are marked (vacuous when the address names no cell). -/
def Blk (cs : List Cell) (b : Addr) : Prop := ∀ d ∈ cs, d.addr = b → d.reachable = true

theorem Blk_markSet {cs : List Cell} {b : Addr} (A : List Addr) (h : Blk cs b) : Blk (markSet cs A) b := by
  intro d hd hb
  obtain ⟨c, hc, rfl⟩ := mem_markSet.mp hd
  by_cases hA : c.addr ∈ A
  · simp [hA]
  · simp only [hA, if_false] at hb ⊢
    exact h c hc hb

theorem Blk_markSet_mem {cs : List Cell} {b : Addr} {A : List Addr} (hb : b ∈ A) : Blk (markSet cs A) b := by
  intro d hd hdb
  obtain ⟨c, hc, rfl⟩ := mem_markSet.mp hd
  by_cases hA : c.addr ∈ A
  · simp [hA]
  · simp only [hA, if_false] at hdb
    exact absurd (hdb ▸ hb) hA

theorem markLoop_shape (E : Edges) (cs : List Cell) (work : List Val) (r : Nat) :
    ∃ A, (markLoop E cs work r).1 = markSet cs A := by
  fun_induction markLoop E cs work r with
  | case1 cs r => exact ⟨[], (markSet_nil cs).symm⟩
  | case2 cs r n rest ih => exact ih
  | case3 cs r k fs rest ih => exact ih
  | case4 cs r a o rest h ih => exact ih
  | case5 cs r a o rest c h hr ih => exact ih
  | case6 cs r a o rest c h hr ih =>
    obtain ⟨A, hA⟩ := ih
    exact ⟨[a] ++ A, by rw [hA, markCell_eq_markSet, markSet_markSet]⟩

/-! ## Closure: what the worklist covers ends up marked -/

/-- The tri-colour invariant: the children of a marked cell are marked or covered by the work list. -/
def Grey (E : Edges) (cs : List Cell) (work : List Val) : Prop :=
  ∀ d ∈ cs, d.reachable = true → ∀ b o, Inside E d.value (.ref b o) →
    Blk cs b ∨ ∃ w ∈ work, ∃ o', Inside E w (.ref b o')

theorem markLoop_closed (E : Edges) (cs : List Cell) (work : List Val) (r : Nat)
    (hnd : AddrNodup cs) (hg : Grey E cs work) :
    (∀ w ∈ work, ∀ b o, Inside E w (.ref b o) → Blk (markLoop E cs work r).1 b) ∧
    (∀ d ∈ (markLoop E cs work r).1, d.reachable = true → ∀ b o, Inside E d.value (.ref b o) →
      Blk (markLoop E cs work r).1 b) := by
  fun_induction markLoop E cs work r with
  | case1 cs r =>
    refine ⟨fun w hw => absurd hw (List.not_mem_nil), ?_⟩
    intro d hd hdr b o hi
    rcases hg d hd hdr b o hi with h | ⟨w, hw, _⟩
    · exact h
    · cases hw
  | case2 cs r n rest ih =>
    have hg' : Grey E cs rest := by
      intro d hd hdr b o hi
      rcases hg d hd hdr b o hi with h | ⟨w, hw, o', hw'⟩
      · exact Or.inl h
      · rcases List.mem_cons.mp hw with rfl | hw
        · cases Inside_atom hw'
        · exact Or.inr ⟨w, hw, o', hw'⟩
    obtain ⟨h1, h2⟩ := ih hnd hg'
    refine ⟨?_, h2⟩
    intro w hw b o hi
    rcases List.mem_cons.mp hw with rfl | hw
    · cases Inside_atom hi
    · exact h1 w hw b o hi
  | case3 cs r k fs rest ih =>
    have hg' : Grey E cs (kids E (.node k fs) ++ rest) := by
      intro d hd hdr b o hi
      rcases hg d hd hdr b o hi with h | ⟨w, hw, o', hw'⟩
      · exact Or.inl h
      · rcases List.mem_cons.mp hw with rfl | hw
        · obtain ⟨c, hc, hci⟩ := Inside_node_ref hw'
          exact Or.inr ⟨c, List.mem_append.mpr (Or.inl hc), o', hci⟩
        · exact Or.inr ⟨w, List.mem_append.mpr (Or.inr hw), o', hw'⟩
    obtain ⟨h1, h2⟩ := ih hnd hg'
    refine ⟨?_, h2⟩
    intro w hw b o hi
    rcases List.mem_cons.mp hw with rfl | hw
    · obtain ⟨c, hc, hci⟩ := Inside_node_ref hi
      exact h1 c (List.mem_append.mpr (Or.inl hc)) b o hci
    · exact h1 w (List.mem_append.mpr (Or.inr hw)) b o hi
  | case4 cs r a o rest h ih =>
    have hblk : Blk cs a := fun d hd hda => absurd hda (readCell_none h d hd)
    have hg' : Grey E cs rest := by
      intro d hd hdr b o1 hi
      rcases hg d hd hdr b o1 hi with h | ⟨w, hw, o', hw'⟩
      · exact Or.inl h
      · rcases List.mem_cons.mp hw with rfl | hw
        · cases Inside_ref hw'; exact Or.inl hblk
        · exact Or.inr ⟨w, hw, o', hw'⟩
    obtain ⟨h1, h2⟩ := ih hnd hg'
    refine ⟨?_, h2⟩
    intro w hw b o1 hi
    rcases List.mem_cons.mp hw with rfl | hw
    · cases Inside_ref hi
      obtain ⟨A, hA⟩ := markLoop_shape E cs rest r
      rw [hA]; exact Blk_markSet A hblk
    · exact h1 w hw b o1 hi
  | case5 cs r a o rest c h hr ih =>
    obtain ⟨hcm, hca⟩ := readCell_some h
    have hblk : Blk cs a := by
      intro d hd hda
      rw [addr_inj hnd hd hcm (hda.trans hca.symm)]; exact hr
    have hg' : Grey E cs rest := by
      intro d hd hdr b o1 hi
      rcases hg d hd hdr b o1 hi with h | ⟨w, hw, o', hw'⟩
      · exact Or.inl h
      · rcases List.mem_cons.mp hw with rfl | hw
        · cases Inside_ref hw'; exact Or.inl hblk
        · exact Or.inr ⟨w, hw, o', hw'⟩
    obtain ⟨h1, h2⟩ := ih hnd hg'
    refine ⟨?_, h2⟩
    intro w hw b o1 hi
    rcases List.mem_cons.mp hw with rfl | hw
    · cases Inside_ref hi
      obtain ⟨A, hA⟩ := markLoop_shape E cs rest r
      rw [hA]; exact Blk_markSet A hblk
    · exact h1 w hw b o1 hi
  | case6 cs r a o rest c h hr ih =>
    obtain ⟨hcm, hca⟩ := readCell_some h
    have hnd' : AddrNodup (markCell cs a) := by rw [markCell_eq_markSet]; exact AddrNodup_markSet _ hnd
    have hblka : Blk (markCell cs a) a := by
      rw [markCell_eq_markSet]; exact Blk_markSet_mem (List.mem_singleton.mpr rfl)
    have hg' : Grey E (markCell cs a) (c.value :: rest) := by
      intro d' hd' hdr b o1 hi
      rw [markCell_eq_markSet] at hd'
      obtain ⟨d, hd, rfl⟩ := mem_markSet.mp hd'
      by_cases hda : d.addr ∈ [a]
      · have hda' : d.addr = a := List.mem_singleton.mp hda
        have : d = c := addr_inj hnd hd hcm (hda'.trans hca.symm)
        subst this
        simp only [hda, if_true] at hi
        exact Or.inr ⟨d.value, List.mem_cons_self, o1, hi⟩
      · simp only [hda, if_false] at hi hdr
        rcases hg d hd hdr b o1 hi with hb | ⟨w, hw, o', hw'⟩
        · left; rw [markCell_eq_markSet]; exact Blk_markSet _ hb
        · rcases List.mem_cons.mp hw with rfl | hw
          · cases Inside_ref hw'; exact Or.inl hblka
          · exact Or.inr ⟨w, List.mem_cons_of_mem _ hw, o', hw'⟩
    obtain ⟨h1, h2⟩ := ih hnd' hg'
    refine ⟨?_, h2⟩
    intro w hw b o1 hi
    rcases List.mem_cons.mp hw with rfl | hw
    · cases Inside_ref hi
      obtain ⟨A, hA⟩ := markLoop_shape E (markCell cs a) (c.value :: rest) (r + 1)
      rw [hA]; exact Blk_markSet A hblka
    · exact h1 w (List.mem_cons_of_mem _ hw) b o1 hi

/-! ## Reachability is insensitive to the mark bits -/

theorem Reach_of_values {E : Edges} {cs cs' : List Cell} {roots : List Val}
    (h : ∀ c ∈ cs, ∃ c' ∈ cs', c'.addr = c.addr ∧ c'.value = c.value) {a : Addr}
    (hr : Reach E cs roots a) : Reach E cs' roots a := by
  induction hr with
  | root hm hi => exact Reach.root hm hi
  | cell _ hc hca hi ih =>
    obtain ⟨c', hc', ha', hv'⟩ := h _ hc
    exact Reach.cell ih hc' (ha'.trans hca) (hv' ▸ hi)

theorem Reach_markSet {E : Edges} {cs : List Cell} {roots : List Val} (A : List Addr) {a : Addr} :
    Reach E (markSet cs A) roots a ↔ Reach E cs roots a := by
  constructor
  · apply Reach_of_values
    intro d hd
    obtain ⟨c, hc, rfl⟩ := mem_markSet.mp hd
    refine ⟨c, hc, ?_⟩
    by_cases hA : c.addr ∈ A <;> simp [hA]
  · apply Reach_of_values
    intro c hc
    refine ⟨_, mem_markSet.mpr ⟨c, hc, rfl⟩, ?_⟩
    by_cases hA : c.addr ∈ A <;> simp [hA]

theorem Reach_markAll {E : Edges} {cs : List Cell} {roots : List Val} {a : Addr} :
    Reach E (markAll cs) roots a ↔ Reach E cs roots a := by
  constructor
  · apply Reach_of_values
    intro d hd
    simp only [markAll, List.mem_map] at hd
    obtain ⟨c, hc, rfl⟩ := hd
    exact ⟨c, hc, rfl, rfl⟩
  · apply Reach_of_values
    intro c hc
    exact ⟨_, List.mem_map.mpr ⟨c, hc, rfl⟩, rfl, rfl⟩

/-- Reachability from a work list all of whose handles are reachable from `roots` adds nothing. -/
theorem Reach_roots_sub {E : Edges} {cs : List Cell} {roots roots' : List Val}
    (h : ∀ r ∈ roots', ∀ b o, Inside E r (.ref b o) → Reach E cs roots b) {a : Addr}
    (hr : Reach E cs roots' a) : Reach E cs roots a := by
  induction hr with
  | root hm hi => exact h _ hm _ _ hi
  | cell _ hc hca hi ih => exact Reach.cell ih hc hca hi

/-- Following fewer fields reaches less. -/
theorem Reach_mono {S E : Edges} (hSE : ∀ k f, f ∈ S k → f ∈ E k) {cs : List Cell} {roots : List Val} {a : Addr}
    (hr : Reach S cs roots a) : Reach E cs roots a := by
  induction hr with
  | root hm hi => exact Reach.root hm (Inside_mono hSE hi)
  | cell _ hc hca hi ih => exact Reach.cell ih hc hca (Inside_mono hSE hi)

/-! ## Soundness of a mark phase that starts from cleared bits -/

theorem Grey_markAll (E : Edges) (cs : List Cell) (work : List Val) : Grey E (markAll cs) work := by
  intro d hd hdr
  simp only [markAll, List.mem_map] at hd
  obtain ⟨c, _, rfl⟩ := hd
  cases hdr

theorem AddrNodup_markAll {cs : List Cell} (h : AddrNodup cs) : AddrNodup (markAll cs) := by
  unfold AddrNodup markAll
  rw [List.map_map]
  exact h

theorem mark_closed_reach (E : Edges) (cs : List Cell) (roots : List Val) (hnd : AddrNodup cs) {a : Addr}
    (hr : Reach E cs roots a) : Blk (markLoop E (markAll cs) roots 0).1 a := by
  obtain ⟨h1, h2⟩ := markLoop_closed E (markAll cs) roots 0 (AddrNodup_markAll hnd) (Grey_markAll E cs roots)
  obtain ⟨A, hA⟩ := markLoop_shape E (markAll cs) roots 0
  induction hr with
  | root hm hi => exact h1 _ hm _ _ hi
  | @cell a b o c _ hc hca hi ih =>
    -- the image of `c` in the output is marked (by `ih`) and has the same value
    let c0 : Cell := { c with reachable := false }
    have hc0 : c0 ∈ markAll cs := List.mem_map.mpr ⟨c, hc, rfl⟩
    let d : Cell := if c0.addr ∈ A then { c0 with reachable := true } else c0
    have hd : d ∈ (markLoop E (markAll cs) roots 0).1 := by rw [hA]; exact mem_markSet.mpr ⟨c0, hc0, rfl⟩
    have hda : d.addr = a := by
      show (if c0.addr ∈ A then { c0 with reachable := true } else c0).addr = a
      split <;> simp [c0, hca]
    have hdv : d.value = c.value := by
      show (if c0.addr ∈ A then { c0 with reachable := true } else c0).value = c.value
      split <;> simp [c0]
    exact h2 d hd (ih d hd hda) b o (hdv ▸ hi)

/-! ## Completeness: only reachable slots get marked -/

theorem markLoop_complete (E : Edges) (cs : List Cell) (work : List Val) (r : Nat) :
    ∀ d ∈ (markLoop E cs work r).1, d.reachable = true →
      (∃ c ∈ cs, c.addr = d.addr ∧ c.reachable = true) ∨ Reach E cs work d.addr := by
  fun_induction markLoop E cs work r with
  | case1 cs r => intro d hd hdr; exact Or.inl ⟨d, hd, rfl, hdr⟩
  | case2 cs r n rest ih =>
    intro d hd hdr
    rcases ih d hd hdr with h | h
    · exact Or.inl h
    · exact Or.inr (Reach_roots_sub (fun r hr b o hi => Reach.root (List.mem_cons_of_mem _ hr) hi) h)
  | case3 cs r k fs rest ih =>
    intro d hd hdr
    rcases ih d hd hdr with h | h
    · exact Or.inl h
    · refine Or.inr (Reach_roots_sub ?_ h)
      intro r hr b o hi
      rcases List.mem_append.mp hr with hk | hr
      · exact Reach.root List.mem_cons_self (Inside_of_kid hk hi)
      · exact Reach.root (List.mem_cons_of_mem _ hr) hi
  | case4 cs r a o rest h ih =>
    intro d hd hdr
    rcases ih d hd hdr with h | h
    · exact Or.inl h
    · exact Or.inr (Reach_roots_sub (fun r hr b o hi => Reach.root (List.mem_cons_of_mem _ hr) hi) h)
  | case5 cs r a o rest c h hr ih =>
    intro d hd hdr
    rcases ih d hd hdr with h | h
    · exact Or.inl h
    · exact Or.inr (Reach_roots_sub (fun r hr b o hi => Reach.root (List.mem_cons_of_mem _ hr) hi) h)
  | case6 cs r a o rest c h hr ih =>
    intro d hd hdr
    obtain ⟨hcm, hca⟩ := readCell_some h
    have ha : Reach E cs (Val.ref a o :: rest) a := Reach.root List.mem_cons_self (Inside.here _)
    rcases ih d hd hdr with ⟨c', hc', hca', hcr'⟩ | h
    · rw [markCell_eq_markSet] at hc'
      obtain ⟨c0, hc0, rfl⟩ := mem_markSet.mp hc'
      by_cases hA : c0.addr ∈ [a]
      · right
        simp only [hA, if_true] at hca'
        rw [← hca', List.mem_singleton.mp hA]
        exact ha
      · left
        simp only [hA, if_false] at hca' hcr'
        exact ⟨c0, hc0, hca', hcr'⟩
    · right
      rw [markCell_eq_markSet, Reach_markSet] at h
      refine Reach_roots_sub ?_ h
      intro r hr b o1 hi
      rcases List.mem_cons.mp hr with rfl | hr
      · exact Reach.cell ha hcm hca hi
      · exact Reach.root (List.mem_cons_of_mem _ hr) hi

/-! ## The statistics counter equals the number of slots marked -/

theorem freeCount_le_length (cs : List Cell) : freeCount cs ≤ cs.length := by
  unfold freeCount; exact List.length_filter_le _ _

theorem markCell_noop {cs : List Cell} {a : Addr} (h : ∀ c ∈ cs, c.addr ≠ a) : markCell cs a = cs := by
  unfold markCell
  conv => rhs; rw [← List.map_id cs]
  apply List.map_congr_left
  intro c hc
  simp [h c hc]

theorem freeCount_markCell_exact {cs : List Cell} {a : Addr} {c : Cell} (hnd : AddrNodup cs)
    (hc : readCell cs a = some c) (hr : c.reachable = false) :
    freeCount (markCell cs a) + 1 = freeCount cs := by
  induction cs with
  | nil => simp [readCell] at hc
  | cons d rest ih =>
    rw [markCell_cons, freeCount_cons, freeCount_cons]
    simp only [AddrNodup, List.map_cons, List.nodup_cons, List.mem_map, not_exists, not_and] at hnd
    simp only [readCell, List.find?_cons] at hc
    by_cases hd : d.addr = a
    · have hb : (d.addr == a) = true := by simp [hd]
      rw [hb] at hc
      cases hc
      have hno : ∀ e ∈ rest, e.addr ≠ a := fun e he hea => hnd.1 e he (hea.trans hd.symm)
      rw [if_pos hd, hr, markCell_noop hno]
      simp
      omega
    · have hb : (d.addr == a) = false := by simp [hd]
      rw [hb] at hc
      have := ih hnd.2 hc
      rw [if_neg hd]
      omega

theorem markLoop_count (E : Edges) (cs : List Cell) (work : List Val) (r : Nat) (hnd : AddrNodup cs) :
    (markLoop E cs work r).2 + freeCount (markLoop E cs work r).1 = r + freeCount cs := by
  fun_induction markLoop E cs work r with
  | case1 cs r => rfl
  | case2 cs r n rest ih => exact ih hnd
  | case3 cs r k fs rest ih => exact ih hnd
  | case4 cs r a o rest h ih => exact ih hnd
  | case5 cs r a o rest c h hr ih => exact ih hnd
  | case6 cs r a o rest c h hr ih =>
    have hnd' : AddrNodup (markCell cs a) := by rw [markCell_eq_markSet]; exact AddrNodup_markSet _ hnd
    have := ih hnd'
    have h2 := freeCount_markCell_exact hnd h (by simpa using hr)
    omega

theorem freeCount_markAll (cs : List Cell) : freeCount (markAll cs) = cs.length := by
  unfold freeCount markAll
  rw [List.filter_eq_self.mpr]
  · simp
  · intro c hc
    obtain ⟨c', _, rfl⟩ := List.mem_map.mp hc
    rfl

/-! ## Stepping the worklist on concrete heaps -/

theorem markLoop_nil (E : Edges) (cs : List Cell) (r : Nat) : markLoop E cs [] r = (cs, r) := by
  rw [markLoop]

theorem markLoop_atom (E : Edges) (cs : List Cell) (n : Int) (rest : List Val) (r : Nat) :
    markLoop E cs (.atom n :: rest) r = markLoop E cs rest r := by
  rw [markLoop]

theorem markLoop_node (E : Edges) (cs : List Cell) (k : Kind) (fs : List (Field × Val)) (rest : List Val) (r : Nat) :
    markLoop E cs (.node k fs :: rest) r = markLoop E cs (kids E (.node k fs) ++ rest) r := by
  rw [markLoop]

theorem markLoop_ref_none (E : Edges) {cs : List Cell} {a : Addr} (o : Oid) (rest : List Val) (r : Nat)
    (h : readCell cs a = none) : markLoop E cs (.ref a o :: rest) r = markLoop E cs rest r := by
  rw [markLoop]
  split
  · rfl
  · rename_i c hc; rw [h] at hc; cases hc

theorem markLoop_ref_marked (E : Edges) {cs : List Cell} {a : Addr} {c : Cell} (o : Oid) (rest : List Val) (r : Nat)
    (h : readCell cs a = some c) (hr : c.reachable = true) :
    markLoop E cs (.ref a o :: rest) r = markLoop E cs rest r := by
  rw [markLoop]
  split
  · rfl
  · rename_i c' hc
    rw [h] at hc; cases hc
    simp [hr]

theorem markLoop_ref_unmarked (E : Edges) {cs : List Cell} {a : Addr} {c : Cell} (o : Oid) (rest : List Val) (r : Nat)
    (h : readCell cs a = some c) (hr : c.reachable = false) :
    markLoop E cs (.ref a o :: rest) r = markLoop E (markCell cs a) (c.value :: rest) (r + 1) := by
  rw [markLoop]
  split
  · rename_i hc; rw [h] at hc; cases hc
  · rename_i c' hc
    rw [h] at hc; cases hc
    simp [hr]

end SteelVerif.C04
