/-
C04/C19 driver.

`c04driver run [spec|impl]`: abstract heap programs on the combined machine (mechanism M with the marker
tables extracted from the source, specification S = never-collected store), one op per line:

  atom r n            register r := atom n                      (registers are the roots)
  box r s             r := handle to a new slot holding the value of register s      (Op.alloc)
  node r kind i:s …   r := immutable container of the named kind, field token #i holding register s
  setbox r s          store the value of s through the handle in r                   (Op.write)
  unbox r d           d := contents of the slot behind the handle in r (as M sees it)
  child r i d         d := i-th child of the container in r
  read r              print `M=<tag> S=<tag>` for the contents behind the handle in r (Op.read)
  drop r              forget register r
  gc full | gc minor  a collection happens here                                      (Op.gcFull / Op.gcMinor)
  stats               print `cells=.. free=.. alloc_count=.. grow_count=..`
  reset               fresh machine (prints `reset`)

`c04driver table`: the kinds, their specification fields, and which copy of the marker follows each.
`c04driver enum`: for every kind and field, a state whose only path to a slot goes through that field; one
full collection with the extracted tables; `ok` if the slot survives, `LOST` otherwise.
-/
import SteelVerif.C04.Props
namespace SteelVerif.C04

structure DState where
  m : MState
  regs : List (String × Val) := []

def driverP : Params := { chunk := 8, init := 4, resetLimit := 3 }

def DState.init : DState := { m := MState.init driverP }

def DState.get (d : DState) (r : String) : Option Val := (d.regs.find? (·.1 == r)).map (·.2)

def DState.set (d : DState) (r : String) (v : Val) : DState :=
  let regs := (r, v) :: d.regs.filter (·.1 != r)
  { d with regs := regs, m := { d.m with roots := regs.map (·.2) } }

def DState.drop (d : DState) (r : String) : DState :=
  let regs := d.regs.filter (·.1 != r)
  { d with regs := regs, m := { d.m with roots := regs.map (·.2) } }

def tag : Option Val → String
  | none => "#gone"
  | some (.atom n) => toString n
  | some (.ref _ _) => "#handle"
  | some (.node k _) => s!"#<{kindName k}>"

def words (l : String) : List String := (l.trimAscii.toString.splitOn " ").filter (· ≠ "")

def parseField (s : String) : Option (Nat × String) :=
  match s.splitOn ":" with
  | [i, r] => i.toNat?.map (·, r)
  | _ => none

/-- One line; returns the new state and what to print. -/
def exec (E : Edges) (d : DState) (ws : List String) : DState × Option String :=
  match ws with
  | ["atom", r, n] => (d.set r (.atom (n.toInt?.getD 0)), none)
  | ["box", r, s] =>
    match d.get s with
    | some v =>
      let st := step driverP E d.m (.alloc v)
      -- the new handle is the head of the machine's roots
      match st.1.roots with
      | h :: _ => (({ d with m := st.1 }).set r h, none)
      | [] => (d, some "bad")
    | none => (d, some "bad")
  | "node" :: r :: kind :: fields =>
    let fs := fields.filterMap fun f => (parseField f).bind fun (i, s) => (d.get s).map fun v => (i, v)
    if fs.length = fields.length then (d.set r (.node (kindIndex kind) fs), none) else (d, some "bad")
  | ["setbox", r, s] =>
    match d.get r, d.get s with
    | some (.ref a o), some v => ({ d with m := (step driverP E d.m (.write a o v)).1 }, none)
    | _, _ => (d, some "bad")
  | ["unbox", r, dst] =>
    match d.get r with
    | some (.ref a _) =>
      match d.m.heap.read a with
      | some v => (d.set dst v, none)
      | none => (d, some "bad")
    | _ => (d, some "bad")
  | ["child", r, i, dst] =>
    match d.get r with
    | some (.node _ fs) =>
      match fs[i.toNat?.getD 0]? with
      | some (_, v) => (d.set dst v, none)
      | none => (d, some "bad")
    | _ => (d, some "bad")
  | ["read", r] =>
    match d.get r with
    | some (.ref a o) =>
      match (step driverP E d.m (.read a o)).2 with
      | some ob => (d, some s!"M={tag ob.1} S={tag ob.2}")
      | none => (d, some "bad")
    | _ => (d, some "bad")
  | ["drop", r] => (d.drop r, none)
  | ["gc", "full"] => ({ d with m := (step driverP E d.m .gcFull).1 }, none)
  | ["gc", "minor"] => ({ d with m := (step driverP E d.m .gcMinor).1 }, none)
  | ["stats"] =>
    let h := d.m.heap
    (d, some s!"cells={h.cells.length} free={freeCount h.cells} alloc_count={h.allocCount} grow_count={h.growCount}")
  | _ => (d, some "bad")

partial def runLoop (E : Edges) (h : IO.FS.Stream) (d : DState) : IO Unit := do
  let l ← h.getLine
  if l.isEmpty then return ()
  let ws := words l
  if ws.isEmpty || (ws.head!.startsWith "#") then runLoop E h d
  else if ws == ["reset"] then
    IO.println "reset"
    runLoop E h DState.init
  else
    let (d', out) := exec E d ws
    match out with
    | some o => IO.println o
    | none => pure ()
    runLoop E h d'

def specOf (k : String) : List String := specTokens k

def tableLines : List String :=
  Gen.steelValVariants.flatMap fun v =>
    (List.range (specOf v).length).map fun i =>
      let t := (specOf v).getD i ""
      let a := if (implTokensA v).contains t then "A" else "-"
      let b := if (implTokensB v).contains t then "B" else "-"
      let as := if (assumedTokens v).contains t then " assumed" else ""
      s!"{v} {i} {t} {a}{b}{as}"

/-- A slot reachable only through field `f` of a container of kind `k` held in a root: does it survive a
full collection by the marker described by the extracted tables? -/
def survives (k : Kind) (f : Nat) : Bool :=
  let d0 := DState.init
  let (d1, _) := exec implEdgesBoth (d0.set "t" (.atom 42)) ["box", "b", "t"]
  match d1.get "b" with
  | some hb =>
    let d2 := (d1.set "c" (.node k [(f, hb)])).drop "b" |>.drop "t"
    let d3 := { d2 with m := (step driverP implEdgesBoth d2.m .gcFull).1 }
    match hb with
    | .ref a _ => (d3.m.heap.cells.any fun c => c.addr == a && c.reachable)
    | _ => false
  | none => false

def enumLines : List String :=
  Gen.steelValVariants.flatMap fun v =>
    (List.range (specOf v).length).map fun i =>
      s!"{v} {i} {(specOf v).getD i ""} {if survives (kindIndex v) i then "ok" else "LOST"}"

def mainC04 (args : List String) : IO Unit := do
  match args with
  | ["table"] => tableLines.forM IO.println
  | ["enum"] => enumLines.forM IO.println
  | ["run", "spec"] => runLoop specEdges (← IO.getStdin) DState.init
  | _ => runLoop implEdgesBoth (← IO.getStdin) DState.init

end SteelVerif.C04

def main (args : List String) : IO Unit := SteelVerif.C04.mainC04 args
