/-
C04 — the collector never reclaims or overwrites reachable mutable storage.
C19 — unreachable mutable storage, including cycles, is eventually reclaimed (same model).

`M` follows `crates/steel-core/src/values/closed.rs`:

* `FreeList<T>` = `Heap` below: `elements : Vec<Arc<RwLock<HeapAllocated{reachable,value}>>>` is `cells`; a cell's
  identity is the address of its `Arc` (`Cell.addr`) — a script handle (`HeapRef`, a `Weak`) names the `Arc`, not
  the position in the vector, so compaction does not rename anything; `cursor`, `alloc_count`, `grow_count`.
  (`nextAddr` is a ghost supply of fresh `Arc` addresses.)
  The two lists of the Rust `Heap` (`memory_free_list`, `vector_free_list`) are two instances of the same
  generic code; the model has one list (the address space is their disjoint union).
* `weakCollect` = `FreeList::weak_collection` (a slot is freed when no `Weak` exists: no handle occurs in any
  root, temporary or slot value), `markAll`/`markLoop` = `mark_all_unreachable` + the worklist of
  `MarkAndSweepContext*::visit` (pop a value; a handle marks its slot and pushes the slot's value; a container
  pushes the children that its `visit_*` method pushes — the edge table `E`, regenerated from the source),
  `allocate` = `FreeList::allocate`, `growBy`/`compact` = `grow_by`/`compact`, `valueCollection` =
  `Heap::value_collection` (minor collection above 95 %, then full collection, then grow or compact).

`S`: graph reachability from the roots (`Reach`), and an abstract store `Oid → Val` that is never collected
and in which every allocation takes a fresh object id.  A handle `ref a o` carries both names: the mechanism
only ever looks at the address `a`, the specification only at the object id `o`.
-/
namespace SteelVerif.C04

-- plain `Nat`s (notations rather than abbreviations, so that `omega` sees through them)
scoped notation "Addr" => Nat     -- identity of a slot (address of its `Arc`)
scoped notation "Oid" => Nat      -- identity of an object in the abstract store
scoped notation "Kind" => Nat     -- value kind (index into the generated kind table)
scoped notation "Field" => Nat    -- field of a kind (index into the specification's field list of the kind)

/-- Values: leaves, handles to mutable storage, immutable containers (kind + children tagged by field). -/
inductive Val where
  | atom (n : Int)
  | ref (a : Addr) (o : Oid)
  | node (k : Kind) (fs : List (Field × Val))
deriving Repr, Inhabited

/-- Which fields of which kind are followed (by the marker: extracted table; by the specification: every
field that can hold a value). -/
abbrev Edges := Kind → List Field

/-- The children that a `visit_*` method pushes. -/
def kids (E : Edges) : Val → List Val
  | .node k fs => (fs.filter (fun p => (E k).contains p.1)).map (·.2)
  | _ => []

/-- `Inside E v w`: `w` is `v` or sits inside the immutable value `v` along followed fields. -/
inductive Inside (E : Edges) : Val → Val → Prop
  | here (v : Val) : Inside E v v
  | child {k : Kind} {fs : List (Field × Val)} {f : Field} {c w : Val} :
      (f, c) ∈ fs → f ∈ E k → Inside E c w → Inside E (.node k fs) w

mutual
/-- Does a handle to address `a` occur anywhere in the value (any field: a `Weak` exists regardless of what
the marker follows)? -/
def Val.occurs (a : Addr) : Val → Bool
  | .atom _ => false
  | .ref b _ => a == b
  | .node _ fs => occursL a fs
def occursL (a : Addr) : List (Field × Val) → Bool
  | [] => false
  | (_, v) :: rest => v.occurs a || occursL a rest
end

mutual
def Val.size : Val → Nat
  | .atom _ => 1
  | .ref _ _ => 1
  | .node _ fs => 1 + sizeL fs
def sizeL : List (Field × Val) → Nat
  | [] => 0
  | (_, v) :: rest => 1 + v.size + sizeL rest
end

/-! ## The free list -/

structure Cell where
  addr : Addr
  reachable : Bool
  value : Val
deriving Repr, Inhabited

structure Params where
  chunk : Nat := 25600      -- `EXTEND_CHUNK`
  init : Nat := 256         -- `FreeList::new` grows by 256
  resetLimit : Nat := 9     -- `RESET_LIMIT`
deriving Repr

structure Heap where
  cells : List Cell := []
  cursor : Nat := 0
  allocCount : Nat := 0
  growCount : Nat := 0
  nextAddr : Addr := 0
deriving Repr, Inhabited

/-- `T::empty()`. -/
def emptyVal : Val := .atom 0

def freshCells (start n : Nat) : List Cell :=
  (List.range n).map fun i => { addr := start + i, reachable := false, value := emptyVal }

def freeCount (cs : List Cell) : Nat := (cs.filter (fun c => !c.reachable)).length

/-- `FreeList::grow_by`. -/
def Heap.growBy (h : Heap) (amount : Nat) : Heap :=
  let current := max h.cells.length amount
  { cells := h.cells ++ freshCells h.nextAddr current
    cursor := h.cells.length
    allocCount := h.allocCount + current
    growCount := h.growCount + 1
    nextAddr := h.nextAddr + current }

/-- `FreeList::new`. -/
def Heap.new (P : Params) : Heap := ({} : Heap).growBy P.init

def firstFree (cs : List Cell) : Option Nat := cs.findIdx? (fun c => !c.reachable)

/-- `FreeList::allocate`: write into the slot under the cursor, then look for the next free slot from the
cursor on; if there is none, extend when the count says the list is full, else wrap to the first free slot. -/
def Heap.allocate (P : Params) (h : Heap) (v : Val) : Heap × Addr :=
  match h.cells[h.cursor]? with
  | none => (h, 0)   -- index out of bounds in the Rust; excluded by the invariant
  | some c =>
    let cells := h.cells.set h.cursor { c with value := v, reachable := true }
    let h1 : Heap := { h with cells := cells, allocCount := h.allocCount - 1 }
    let h2 : Heap :=
      match firstFree (cells.drop h.cursor) with
      | some k => { h1 with cursor := h.cursor + k }
      | none =>
        if h1.allocCount = 0 then h1.growBy P.chunk
        else { h1 with cursor := (firstFree cells).getD 0 }   -- `.unwrap()` in the Rust
    (h2, c.addr)

def readCell (cs : List Cell) (a : Addr) : Option Cell := cs.find? (fun c => c.addr == a)

/-- `HeapRef::get`: no liveness test, whatever the slot holds now. -/
def Heap.read (h : Heap) (a : Addr) : Option Val := (readCell h.cells a).map (·.value)

/-- `HeapRef::set`. -/
def Heap.write (h : Heap) (a : Addr) (v : Val) : Heap :=
  { h with cells := h.cells.map fun c => if c.addr = a then { c with value := v } else c }

def heldInCells (cs : List Cell) (a : Addr) : Bool := cs.any fun c => c.value.occurs a

/-- `FreeList::weak_collection`: `weak_count == 0` ⇔ no handle anywhere (`ext`: roots and temporaries). -/
def Heap.weakCollect (ext : Addr → Bool) (h : Heap) : Heap :=
  let dead := fun (c : Cell) => !(ext c.addr) && !(heldInCells h.cells c.addr)
  { h with
    cells := h.cells.map fun c => if dead c then { c with reachable := false } else c
    allocCount := h.allocCount + (h.cells.filter fun c => dead c && c.reachable).length }

/-- `FreeList::mark_all_unreachable`. -/
def markAll (cs : List Cell) : List Cell := cs.map fun c => { c with reachable := false }

def markCell (cs : List Cell) (a : Addr) : List Cell :=
  cs.map fun c => if c.addr = a then { c with reachable := true } else c

def workSize (w : List Val) : Nat := (w.map Val.size).sum

theorem sizeL_kids (E : Edges) (k : Kind) (fs : List (Field × Val)) :
    workSize ((fs.filter (fun p => (E k).contains p.1)).map (·.2)) ≤ sizeL fs := by
  induction fs with
  | nil => simp [workSize, sizeL]
  | cons p rest ih =>
    obtain ⟨f, v⟩ := p
    simp only [List.filter_cons]
    split
    · simp only [List.map_cons, workSize, List.sum_cons, sizeL] at ih ⊢
      omega
    · simp only [sizeL]
      omega

theorem workSize_kids (E : Edges) (k : Kind) (fs : List (Field × Val)) :
    workSize (kids E (.node k fs)) < (Val.node k fs).size := by
  have := sizeL_kids E k fs
  simp only [kids, Val.size]
  omega

theorem freeCount_cons (c : Cell) (cs : List Cell) :
    freeCount (c :: cs) = (if c.reachable then 0 else 1) + freeCount cs := by
  unfold freeCount
  cases h : c.reachable <;> simp [h] <;> omega

theorem markCell_cons (c : Cell) (cs : List Cell) (a : Addr) :
    markCell (c :: cs) a = (if c.addr = a then { c with reachable := true } else c) :: markCell cs a := by
  simp [markCell]

theorem freeCount_markCell_le (cs : List Cell) (a : Addr) : freeCount (markCell cs a) ≤ freeCount cs := by
  induction cs with
  | nil => simp [freeCount, markCell]
  | cons e rest ih =>
    rw [markCell_cons, freeCount_cons, freeCount_cons]
    by_cases he : e.addr = a
    · rw [if_pos he]; cases e.reachable <;> simp <;> omega
    · rw [if_neg he]; omega

theorem freeCount_markCell_lt (cs : List Cell) (a : Addr) (c : Cell)
    (hc : readCell cs a = some c) (hr : c.reachable = false) :
    freeCount (markCell cs a) < freeCount cs := by
  induction cs with
  | nil => simp [readCell] at hc
  | cons d rest ih =>
    rw [markCell_cons, freeCount_cons, freeCount_cons]
    have hle := freeCount_markCell_le rest a
    simp only [readCell, List.find?_cons] at hc
    by_cases hd : d.addr = a
    · have hb : (d.addr == a) = true := by simp [hd]
      rw [hb] at hc
      cases hc
      rw [if_pos hd, hr]
      simp
      omega
    · have hb : (d.addr == a) = false := by simp [hd]
      rw [hb] at hc
      have := ih hc
      rw [if_neg hd]
      omega

/-- The marker's worklist (`BreadthFirstSearchSteelVal*Visitor::visit` with the `visit_*`/`push_back` of
`MarkAndSweepContext*`).  Returns the cells and the number of slots it marked (`MarkAndSweepStats`).  Every
step either marks a free slot or shrinks the work, so it terminates on cyclic heaps. -/
def markLoop (E : Edges) (cs : List Cell) (work : List Val) (reached : Nat) : List Cell × Nat :=
  match work with
  | [] => (cs, reached)
  | .atom _ :: rest => markLoop E cs rest reached
  | .node k fs :: rest => markLoop E cs (kids E (.node k fs) ++ rest) reached
  | .ref a _ :: rest =>
    match h : readCell cs a with
    | none => markLoop E cs rest reached      -- `upgrade().unwrap()` would panic: the slot is gone
    | some c =>
      if hr : c.reachable then markLoop E cs rest reached
      else markLoop E (markCell cs a) (c.value :: rest) (reached + 1)
termination_by (freeCount cs, workSize work)
decreasing_by
  all_goals simp_wf
  · right; simp [workSize, Val.size]
  · right
    have := workSize_kids E k fs
    simp only [workSize, List.map_append, List.sum_append, List.map_cons, List.sum_cons] at this ⊢
    omega
  · right; simp [workSize, Val.size]
  · right; simp [workSize, Val.size]
  · left
    exact freeCount_markCell_lt cs a c h (by simpa using hr)

/-- `FreeList::compact`: keep the marked slots, then extend. -/
def Heap.compact (P : Params) (h : Heap) : Heap :=
  ({ h with cells := h.cells.filter (·.reachable), allocCount := 0, growCount := 0 } : Heap).growBy P.chunk

/-- `percent_full() > 0.95`. -/
def Heap.over95 (h : Heap) : Bool := (h.cells.length - h.allocCount) * 100 > 95 * h.cells.length

def extOf (roots : List Val) : Addr → Bool := fun a => roots.any (·.occurs a)

/-- The mark-and-sweep part of `Heap::value_collection`: reset the bits, mark from the roots, set the free
count from the marker's statistics, then grow — or compact when the list has grown `RESET_LIMIT` times. -/
def Heap.fullPart (P : Params) (E : Edges) (roots : List Val) (h : Heap) : Heap :=
  let r := markLoop E (markAll h.cells) roots 0
  let h1 : Heap := { h with cells := r.1, allocCount := r.1.length - r.2 }
  if h1.growCount > P.resetLimit then h1.compact P else h1.growBy P.chunk

/-- `Heap::value_collection`. -/
def Heap.valueCollection (P : Params) (E : Edges) (roots : List Val) (force : Bool) (h : Heap) : Heap :=
  if h.over95 || force then
    let h0 := h.weakCollect (extOf roots)
    if h0.over95 || force then h0.fullPart P E roots else h0
  else h

/-- `Heap::collection(.., force_full = true)` (`#%gc-collect`). -/
def Heap.collect (P : Params) (E : Edges) (roots : List Val) (h : Heap) : Heap :=
  h.valueCollection P E roots true

/-- `Heap::allocate`: collection policy with the new value as an extra root, then `FreeList::allocate`. -/
def Heap.allocateGC (P : Params) (E : Edges) (roots : List Val) (h : Heap) (v : Val) : Heap × Addr :=
  (h.valueCollection P E (v :: roots) false).allocate P v

/-- `HeapRef::maybe_get_from_weak` (`weak-box-value`): `others` = is there another handle to the slot. -/
def Heap.weakGet (h : Heap) (a : Addr) (others : Bool) : Option Val :=
  match readCell h.cells a with
  | none => none
  | some c => if others then some c.value else if c.reachable then some c.value else none

/-! ## Reachability (the specification's notion) -/

/-- Addresses reachable from the roots through slot values, following the fields `E`. -/
inductive Reach (E : Edges) (cs : List Cell) (roots : List Val) : Addr → Prop
  | root {r : Val} {a : Addr} {o : Oid} : r ∈ roots → Inside E r (.ref a o) → Reach E cs roots a
  | cell {a b : Addr} {o : Oid} {c : Cell} :
      Reach E cs roots a → c ∈ cs → c.addr = a → Inside E c.value (.ref b o) → Reach E cs roots b

/-! ## The abstract store and the combined machine -/

abbrev Store := Oid → Option Val

/-- Handles reachable in the abstract store (by object id; the address is carried along). -/
inductive ReachS (E : Edges) (st : Store) (roots : List Val) : Addr → Oid → Prop
  | root {r : Val} {a : Addr} {o : Oid} : r ∈ roots → Inside E r (.ref a o) → ReachS E st roots a o
  | cell {a b : Addr} {o p : Oid} {v : Val} :
      ReachS E st roots a o → st o = some v → Inside E v (.ref b p) → ReachS E st roots b p

inductive Op where
  | alloc (v : Val)                        -- allocate storage holding `v`; the new handle becomes a root
  | write (a : Addr) (o : Oid) (v : Val)   -- store `v` through the handle
  | read (a : Addr) (o : Oid)              -- observe the contents through the handle
  | addRoot (v : Val)                      -- push a value (temporary, argument, global, …)
  | dropRoot (i : Nat)                     -- forget the i-th root (drops its handles)
  | gcMinor                                -- a minor collection happens here
  | gcFull                                 -- a full collection happens here
deriving Repr, Inhabited

structure MState where
  heap : Heap
  store : Store := fun _ => none
  nextOid : Oid := 0
  owner : Addr → Option Oid := fun _ => none   -- ghost: which object lives at an address
  roots : List Val := []

/-- One observation: (what the mechanism returned, what the abstract store returns). -/
abbrev Obs := Option Val × Option Val

/-- One step of the combined machine: the mechanism acts on `heap` (addresses only), the specification on
`store` (object ids only).  Collections touch the heap only. -/
def step (P : Params) (E : Edges) (s : MState) : Op → MState × Option Obs
  | .alloc v =>
    let r := s.heap.allocateGC P E s.roots v
    ({ heap := r.1
       store := fun o => if o = s.nextOid then some v else s.store o
       nextOid := s.nextOid + 1
       owner := fun a => if a = r.2 then some s.nextOid else s.owner a
       roots := .ref r.2 s.nextOid :: s.roots }, none)
  | .write a o v =>
    ({ s with heap := s.heap.write a v, store := fun p => if p = o then some v else s.store p }, none)
  | .read a o => (s, some (s.heap.read a, s.store o))
  | .addRoot v => ({ s with roots := v :: s.roots }, none)
  | .dropRoot i => ({ s with roots := s.roots.eraseIdx i }, none)
  | .gcMinor => ({ s with heap := s.heap.weakCollect (extOf s.roots) }, none)
  | .gcFull => ({ s with heap := s.heap.collect P E s.roots }, none)

def run (P : Params) (E : Edges) : MState → List Op → MState × List Obs
  | s, [] => (s, [])
  | s, op :: rest =>
    let r := step P E s op
    let r2 := run P E r.1 rest
    (r2.1, (match r.2 with | some o => [o] | none => []) ++ r2.2)

/-- The program only builds values out of handles it can reach, and only uses handles it can reach. -/
def Op.Valid (S : Edges) (s : MState) : Op → Prop
  | .alloc v | .addRoot v => ∀ b p, Inside S v (.ref b p) → ReachS S s.store s.roots b p
  | .write a o v => ReachS S s.store s.roots a o ∧ ∀ b p, Inside S v (.ref b p) → ReachS S s.store s.roots b p
  | .read a o => ReachS S s.store s.roots a o
  | _ => True

def ValidRun (P : Params) (E S : Edges) : MState → List Op → Prop
  | _, [] => True
  | s, op :: rest => op.Valid S s ∧ ValidRun P E S (step P E s op).1 rest

def MState.init (P : Params) : MState := { heap := Heap.new P }

end SteelVerif.C04
