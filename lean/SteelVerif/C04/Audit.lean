import SteelVerif.C04.Props
open SteelVerif.C04
#print axioms mark_sound
#print axioms collect_preserves
#print axioms policy_collection_preserves
#print axioms alloc_fresh
#print axioms alloc_fresh_unreachable
#print axioms weak_collect_safe
#print axioms weak_collect_keeps_reachable
#print axioms gc_transparent
#print axioms gc_transparent_from
#print axioms kinds_classified
#print axioms spec_kinds_exist
#print axioms edges_complete_A_partial
#print axioms edges_complete_B_partial
#print axioms edges_complete_A_fails
#print axioms edges_complete_B_fails
#print axioms leaf_kinds_have_no_children
#print axioms slot_pushes_contents
#print axioms roots_complete
#print axioms pending_value_is_root
#print axioms marking_excludes_allocation
#print axioms edges_cover_proved
#print axioms mark_sound_tables
#print axioms mark_sound_full_partial
#print axioms open_mark_covered
#print axioms mark_sound_full_covered
#print axioms gc_transparent_tables
