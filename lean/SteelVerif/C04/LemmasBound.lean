/-
C19 — the growth-then-compaction policy keeps the free list bounded when the live set is bounded.

`Heap::value_collection`: after every full collection the list grows by `max(len, EXTEND_CHUNK)` — until it has
grown `RESET_LIMIT` times; the next full collection compacts it to `live + max(live, EXTEND_CHUNK)` slots.
`Heap::allocate` runs the collection policy first, so `FreeList::allocate` itself never has to extend.
-/
import SteelVerif.C04.LemmasHeap
namespace SteelVerif.C04

/-- `M` bounds the chunk and the live set, `R` is the reset limit. -/
def BInv (M R : Nat) (h : Heap) : Prop :=
  1 ≤ h.growCount ∧ h.growCount ≤ R + 1 ∧ 40 ≤ h.cells.length ∧ h.cells.length ≤ 2 * M * 2 ^ (h.growCount - 1)

theorem growBy_length (h : Heap) (n : Nat) : (h.growBy n).cells.length = h.cells.length + max h.cells.length n := by
  rw [growBy_cells, List.length_append, freshCells_length]

theorem growBy_growCount (h : Heap) (n : Nat) : (h.growBy n).growCount = h.growCount + 1 := rfl

theorem BInv_growBy {M R : Nat} {h : Heap} (n : Nat) (hb : BInv M R h) (hn : n ≤ M) (hg : h.growCount ≤ R) :
    BInv M R (h.growBy n) := by
  obtain ⟨h1, _, h40, hlen⟩ := hb
  refine ⟨by rw [growBy_growCount]; omega, by rw [growBy_growCount]; omega, by rw [growBy_length]; omega, ?_⟩
  rw [growBy_length, growBy_growCount]
  obtain ⟨e, he⟩ : ∃ e, h.growCount = e + 1 := ⟨h.growCount - 1, by omega⟩
  rw [he] at hlen ⊢
  simp only [Nat.add_sub_cancel] at hlen ⊢
  have hp : 1 ≤ 2 ^ e := Nat.one_le_two_pow
  have hM : M ≤ 2 * M * 2 ^ e := by
    calc M ≤ 2 * M * 1 := by omega
      _ ≤ 2 * M * 2 ^ e := Nat.mul_le_mul_left _ hp
  rw [Nat.pow_succ]
  have hmax : max h.cells.length n ≤ 2 * M * 2 ^ e := by
    rw [Nat.max_le]; exact ⟨hlen, Nat.le_trans hn hM⟩
  calc h.cells.length + max h.cells.length n ≤ 2 * M * 2 ^ e + 2 * M * 2 ^ e := Nat.add_le_add hlen hmax
    _ = 2 * M * (2 ^ e * 2) := by rw [← Nat.mul_assoc, Nat.mul_two]

theorem BInv_compact {M R : Nat} {h : Heap} (P : Params) (hc40 : 40 ≤ P.chunk) (hcM : P.chunk ≤ M)
    (hlive : (h.cells.filter (·.reachable)).length ≤ M) : BInv M R (h.compact P) := by
  have hlen : (h.compact P).cells.length =
      (h.cells.filter (·.reachable)).length + max (h.cells.filter (·.reachable)).length P.chunk := by
    rw [compact_cells, List.length_append, freshCells_length]
  have hg : (h.compact P).growCount = 1 := rfl
  refine ⟨by omega, by omega, by rw [hlen]; omega, ?_⟩
  rw [hlen, hg]
  simp only [Nat.sub_self, Nat.pow_zero, Nat.mul_one]
  have : max (h.cells.filter (·.reachable)).length P.chunk ≤ M := by rw [Nat.max_le]; exact ⟨hlive, hcM⟩
  omega

theorem marked_length (E : Edges) (roots : List Val) (h : Heap) : (h.marked E roots).cells.length = h.cells.length := by
  obtain ⟨A, hA⟩ := marked_cells_shape E roots h
  rw [hA, markSet_length]; simp [markAll]

theorem marked_growCount (E : Edges) (roots : List Val) (h : Heap) : (h.marked E roots).growCount = h.growCount := rfl

/-- The number of slots a full collection would find live. -/
def markedCount (E : Edges) (roots : List Val) (h : Heap) : Nat :=
  (((h.weakCollect (extOf roots)).marked E roots).cells.filter (·.reachable)).length

theorem BInv_weakCollect {M R : Nat} {h : Heap} (ext : Addr → Bool) (hb : BInv M R h) : BInv M R (h.weakCollect ext) := by
  unfold BInv at *
  rw [weakCollect_length]
  exact hb

theorem BInv_fullPart {M R : Nat} {h : Heap} (P : Params) (hR : P.resetLimit = R) (hc40 : 40 ≤ P.chunk)
    (hcM : P.chunk ≤ M) (E : Edges) (roots : List Val) (hb : BInv M R h)
    (hlive : ((h.marked E roots).cells.filter (·.reachable)).length ≤ M) : BInv M R (h.fullPart P E roots) := by
  have hbm : BInv M R (h.marked E roots) := by
    unfold BInv at *
    rw [marked_length, marked_growCount]; exact hb
  rw [fullPart_eq]
  split
  · exact BInv_compact P hc40 hcM hlive
  · rename_i hg
    exact BInv_growBy _ hbm hcM (by rw [marked_growCount] at hg ⊢; omega)

theorem BInv_valueCollection {M R : Nat} {h : Heap} (P : Params) (hR : P.resetLimit = R) (hc40 : 40 ≤ P.chunk)
    (hcM : P.chunk ≤ M) (E : Edges) (roots : List Val) (force : Bool) (hb : BInv M R h)
    (hlive : markedCount E roots h ≤ M) : BInv M R (h.valueCollection P E roots force) := by
  unfold Heap.valueCollection
  split
  · simp only
    split
    · exact BInv_fullPart P hR hc40 hcM E roots (BInv_weakCollect _ hb) hlive
    · exact BInv_weakCollect _ hb
  · exact hb

theorem freeCount_growBy_ge (h : Heap) (n : Nat) : max h.cells.length n ≤ freeCount (h.growBy n).cells := by
  rw [growBy_cells, freeCount_append, freeCount_freshCells]; omega

/-- After the allocation-time policy at least two slots are free (so `allocate` will not extend). -/
theorem valueCollection_free2 {h : Heap} (P : Params) (hc40 : 40 ≤ P.chunk) (E : Edges) (roots : List Val)
    (force : Bool) (hw : WF h) (h40 : 40 ≤ h.cells.length) :
    2 ≤ freeCount (h.valueCollection P E roots force).cells := by
  have key : ∀ g : Heap, WF g → 40 ≤ g.cells.length → g.over95 = false → 2 ≤ freeCount g.cells := by
    intro g hg h40g ho
    simp only [Heap.over95, decide_eq_false_iff_not, Nat.not_lt] at ho
    rw [← hg.count]
    have : g.allocCount ≤ g.cells.length := by rw [hg.count]; exact freeCount_le_length _
    omega
  have full : ∀ g : Heap, 2 ≤ freeCount (g.fullPart P E roots).cells := by
    intro g
    rw [fullPart_eq]
    split
    · have := freeCount_growBy_ge
        ({ (g.marked E roots) with cells := (g.marked E roots).cells.filter (·.reachable), allocCount := 0, growCount := 0 } : Heap) P.chunk
      have h2 : 2 ≤ max (List.filter (fun x => x.reachable) (g.marked E roots).cells).length P.chunk := by omega
      exact Nat.le_trans h2 this
    · have := freeCount_growBy_ge (g.marked E roots) P.chunk
      omega
  unfold Heap.valueCollection
  have hw0 := WF_weakCollect (extOf roots) hw
  have h400 : 40 ≤ (h.weakCollect (extOf roots)).cells.length := by rw [weakCollect_length]; exact h40
  cases ho : h.over95 <;> cases force <;> simp only [Bool.or_false, Bool.or_true, Bool.false_eq_true, if_false, if_true]
  · exact key h hw h40 ho
  · exact full _
  · cases ho2 : (h.weakCollect (extOf roots)).over95 <;> simp only [Bool.false_eq_true, if_false, if_true]
    · exact key _ hw0 h400 ho2
    · exact full _
  · exact full _

/-- `Heap::allocate` (policy + `FreeList::allocate`) keeps the bound: the policy leaves two free slots, so the
list is not extended outside a full collection. -/
theorem BInv_allocateGC {M R : Nat} {h : Heap} (P : Params) (hR : P.resetLimit = R) (hc40 : 40 ≤ P.chunk)
    (hcM : P.chunk ≤ M) (E : Edges) (roots : List Val) (v : Val) (hw : WF h) (hb : BInv M R h)
    (hlive : markedCount E (v :: roots) h ≤ M) : BInv M R (h.allocateGC P E roots v).1 := by
  have hP : 0 < P.chunk := by omega
  have hb1 := BInv_valueCollection P hR hc40 hcM E (v :: roots) false hb hlive
  have hw1 := WF_valueCollection P hP E (v :: roots) false hw
  have hfree := valueCollection_free2 P hc40 E (v :: roots) false hw hb.2.2.1
  have hs := allocate_spec P hP hw1 v
  have hlen : ((h.valueCollection P E (v :: roots) false).allocate P v).1.cells.length =
      (h.valueCollection P E (v :: roots) false).cells.length := by
    by_cases hne : ((h.valueCollection P E (v :: roots) false).allocate P v).1.cells.length =
        (h.valueCollection P E (v :: roots) false).cells.length
    · exact hne
    · have := hs.reuse hne; omega
  have hgc := hs.sameGrow hlen
  unfold BInv at *
  unfold Heap.allocateGC
  rw [hlen, hgc]
  exact hb1

end SteelVerif.C04
