/-
C04 — the refinement invariant of the combined machine: on everything the program can reach, the heap of
the mechanism (with collections anywhere) and the never-collected abstract store agree.
-/
import SteelVerif.C04.LemmasHeap
namespace SteelVerif.C04

structure Inv (S : Edges) (s : MState) : Prop where
  wf : WF s.heap
  /-- every handle reachable in the abstract store names an allocated slot holding the store's value -/
  sim : ∀ a o, ReachS S s.store s.roots a o →
    ∃ c ∈ s.heap.cells, c.addr = a ∧ c.reachable = true ∧ s.store o = some c.value ∧ s.owner a = some o
  ownerInj : ∀ a a' o, s.owner a = some o → s.owner a' = some o → a = a'
  ownerLt : ∀ a o, s.owner a = some o → o < s.nextOid

/-! ## reachability in the store -/

theorem ReachS_roots_sub {S : Edges} {st : Store} {roots roots' : List Val}
    (h : ∀ r ∈ roots', ∀ b p, Inside S r (.ref b p) → ReachS S st roots b p) {a : Addr} {o : Oid}
    (hr : ReachS S st roots' a o) : ReachS S st roots a o := by
  induction hr with
  | root hm hi => exact h _ hm _ _ hi
  | cell _ hs hi ih => exact ReachS.cell ih hs hi

theorem ReachS_cons_valid {S : Edges} {st : Store} {roots : List Val} {v : Val}
    (hv : ∀ b p, Inside S v (.ref b p) → ReachS S st roots b p) {a : Addr} {o : Oid}
    (hr : ReachS S st (v :: roots) a o) : ReachS S st roots a o := by
  refine ReachS_roots_sub ?_ hr
  intro r hr b p hi
  rcases List.mem_cons.mp hr with rfl | hr
  · exact hv b p hi
  · exact ReachS.root hr hi

theorem ReachS_mono_roots {S : Edges} {st : Store} {roots roots' : List Val} (h : ∀ r ∈ roots', r ∈ roots)
    {a : Addr} {o : Oid} (hr : ReachS S st roots' a o) : ReachS S st roots a o :=
  ReachS_roots_sub (fun r hr _ _ hi => ReachS.root (h r hr) hi) hr

/-- Reachable in the store ⇒ reachable in the heap (they agree on what is reachable). -/
theorem ReachS_Reach {S : Edges} {s : MState} (hI : Inv S s) {a : Addr} {o : Oid}
    (hr : ReachS S s.store s.roots a o) : Reach S s.heap.cells s.roots a := by
  induction hr with
  | root hm hi => exact Reach.root hm hi
  | cell hprev hs hi ih =>
    obtain ⟨c, hc, hca, _, hst, _⟩ := hI.sim _ _ hprev
    rw [hs] at hst
    cases hst
    exact Reach.cell ih hc hca hi

/-! ## collections -/

/-- Any change of the heap that keeps every allocated reachable cell (and the free-list invariant)
keeps the refinement invariant: collections do not touch store, roots or owners. -/
theorem Inv_of_keeps {S : Edges} {s : MState} (hI : Inv S s) (h' : Heap) (hw : WF h')
    (hk : ∀ c ∈ s.heap.cells, c.reachable = true → Reach S s.heap.cells s.roots c.addr → c ∈ h'.cells) :
    Inv S { s with heap := h' } := by
  refine { wf := hw, sim := ?_, ownerInj := hI.ownerInj, ownerLt := hI.ownerLt }
  intro a o hr
  obtain ⟨c, hc, hca, hcr, hst, hown⟩ := hI.sim a o hr
  exact ⟨c, hk c hc hcr (hca ▸ ReachS_Reach hI hr), hca, hcr, hst, hown⟩

theorem Reach_cons_roots {E : Edges} {cs : List Cell} {roots : List Val} (v : Val) {a : Addr}
    (h : Reach E cs roots a) : Reach E cs (v :: roots) a :=
  Reach_roots_sub (fun _ hr _ _ hi => Reach.root (List.mem_cons_of_mem _ hr) hi) h

theorem Inv_gcMinor {S : Edges} {s : MState} (hI : Inv S s) :
    Inv S { s with heap := s.heap.weakCollect (extOf s.roots) } :=
  Inv_of_keeps hI _ (WF_weakCollect _ hI.wf) (fun _ hc _ hr => weakCollect_keeps _ hc (Reach_held hr))

theorem Inv_valueCollection {S E : Edges} (hSE : ∀ k f, f ∈ S k → f ∈ E k) (P : Params) (hP : 0 < P.chunk)
    {s : MState} (hI : Inv S s) (extra : List Val) (force : Bool) :
    Inv S { s with heap := s.heap.valueCollection P E (extra ++ s.roots) force } := by
  refine Inv_of_keeps hI _ (WF_valueCollection P hP E _ force hI.wf) ?_
  intro c hc hcr hr
  refine valueCollection_keeps P E _ force hI.wf hc hcr ?_
  refine Reach_mono hSE (Reach_roots_sub ?_ hr)
  intro r hr b o hi
  exact Reach.root (List.mem_append.mpr (Or.inr hr)) hi

/-! ## the program's own steps -/

theorem Inv_addRoot {S : Edges} {s : MState} (hI : Inv S s) {v : Val}
    (hv : ∀ b p, Inside S v (.ref b p) → ReachS S s.store s.roots b p) :
    Inv S { s with roots := v :: s.roots } :=
  { wf := hI.wf, ownerInj := hI.ownerInj, ownerLt := hI.ownerLt
    sim := fun a o hr => hI.sim a o (ReachS_cons_valid hv hr) }

theorem Inv_dropRoot {S : Edges} {s : MState} (hI : Inv S s) (i : Nat) :
    Inv S { s with roots := s.roots.eraseIdx i } :=
  { wf := hI.wf, ownerInj := hI.ownerInj, ownerLt := hI.ownerLt
    sim := fun a o hr => hI.sim a o (ReachS_mono_roots (fun _ h => List.mem_of_mem_eraseIdx h) hr) }

theorem ReachS_write_sub {S : Edges} {st : Store} {roots : List Val} {o : Oid} {v : Val}
    (hv : ∀ b p, Inside S v (.ref b p) → ReachS S st roots b p) {b : Addr} {p : Oid}
    (hr : ReachS S (fun q => if q = o then some v else st q) roots b p) : ReachS S st roots b p := by
  induction hr with
  | root hm hi => exact ReachS.root hm hi
  | @cell a0 b0 o0 p0 w _ hs hi ih =>
    by_cases ho : o0 = o
    · simp only [ho, if_true, Option.some.injEq] at hs
      subst hs
      exact hv _ _ hi
    · simp only [ho, if_false] at hs
      exact ReachS.cell ih hs hi

theorem Inv_write {S : Edges} {s : MState} (hI : Inv S s) {a : Addr} {o : Oid} {v : Val}
    (ha : ReachS S s.store s.roots a o)
    (hv : ∀ b p, Inside S v (.ref b p) → ReachS S s.store s.roots b p) :
    Inv S { s with heap := s.heap.write a v, store := fun p => if p = o then some v else s.store p } := by
  obtain ⟨ca, _, hcaa, _, _, howna⟩ := hI.sim a o ha
  refine { wf := WF_write a v hI.wf, sim := ?_, ownerInj := hI.ownerInj, ownerLt := hI.ownerLt }
  intro b p hr
  have hr' := ReachS_write_sub hv hr
  obtain ⟨c, hc, hcb, hcr, hst, hown⟩ := hI.sim b p hr'
  by_cases hba : b = a
  · subst hba
    have hpo : p = o := by rw [howna] at hown; exact (Option.some.inj hown).symm
    subst hpo
    refine ⟨{ c with value := v }, ?_, hcb, hcr, by simp, hown⟩
    exact List.mem_map.mpr ⟨c, hc, by simp [hcb]⟩
  · have hpo : p ≠ o := by
      intro hpo
      subst hpo
      exact hba (hI.ownerInj _ _ _ hown howna)
    refine ⟨c, ?_, hcb, hcr, by simp only [hpo, if_false]; exact hst, hown⟩
    exact List.mem_map.mpr ⟨c, hc, by simp [hcb, hba]⟩

/-- After an allocation, what is reachable is the new object or was reachable before. -/
theorem ReachS_alloc {S : Edges} {st : Store} {roots : List Val} {a : Addr} {n : Oid} {v : Val}
    (hv : ∀ b p, Inside S v (.ref b p) → ReachS S st roots b p) {b : Addr} {p : Oid}
    (hr : ReachS S (fun q => if q = n then some v else st q) (.ref a n :: roots) b p) :
    (b = a ∧ p = n) ∨ ReachS S st roots b p := by
  induction hr with
  | root hm hi =>
    rcases List.mem_cons.mp hm with rfl | hm
    · cases Inside_ref hi; exact Or.inl ⟨rfl, rfl⟩
    · exact Or.inr (ReachS.root hm hi)
  | @cell a0 b0 o0 p0 w _ hs hi ih =>
    by_cases ho : o0 = n
    · simp only [ho, if_true, Option.some.injEq] at hs
      subst hs
      exact Or.inr (hv _ _ hi)
    · simp only [ho, if_false] at hs
      rcases ih with ⟨_, h2⟩ | h
      · exact absurd h2 ho
      · exact Or.inr (ReachS.cell h hs hi)

theorem Inv_alloc {S E : Edges} (hSE : ∀ k f, f ∈ S k → f ∈ E k) (P : Params) (hP : 0 < P.chunk)
    {s : MState} (hI : Inv S s) {v : Val}
    (hv : ∀ b p, Inside S v (.ref b p) → ReachS S s.store s.roots b p) :
    Inv S (step P E s (.alloc v)).1 := by
  -- the collection that `Heap::allocate` may run first
  have hI1 := Inv_valueCollection hSE P hP hI [v] false
  simp only [List.singleton_append] at hI1
  generalize hh1 : s.heap.valueCollection P E (v :: s.roots) false = h1 at hI1
  have hsp := allocate_spec P hP hI1.wf v
  simp only at hsp
  have hstep : (step P E s (.alloc v)).1 =
      { heap := (h1.allocate P v).1
        store := fun o => if o = s.nextOid then some v else s.store o
        nextOid := s.nextOid + 1
        owner := fun a => if a = (h1.allocate P v).2 then some s.nextOid else s.owner a
        roots := .ref (h1.allocate P v).2 s.nextOid :: s.roots } := by
    simp only [step, Heap.allocateGC, hh1]
  rw [hstep]
  generalize (h1.allocate P v).1 = h2 at hsp
  generalize (h1.allocate P v).2 = a at hsp
  have hfresh : ∀ b p, ReachS S s.store s.roots b p → p ≠ s.nextOid := by
    intro b p hr
    obtain ⟨_, _, _, _, _, hown⟩ := hI1.sim b p hr
    exact Nat.ne_of_lt (hI.ownerLt b p hown)
  refine { wf := hsp.wf, sim := ?_, ownerInj := ?_, ownerLt := ?_ }
  · intro b p hr
    rcases ReachS_alloc hv hr with ⟨rfl, rfl⟩ | hold
    · exact ⟨_, hsp.filled, rfl, rfl, by simp, by simp⟩
    · obtain ⟨c, hc, hcb, hcr, hst, hown⟩ := hI1.sim b p hold
      obtain ⟨c0, hc0, hc0a, hc0r⟩ := hsp.wasFree
      have hba : b ≠ a := by
        intro hba
        have : c = c0 := addr_inj hI1.wf.nodup hc hc0 (by rw [hcb, hc0a, hba])
        rw [this, hc0r] at hcr
        cases hcr
      have hpn : p ≠ s.nextOid := hfresh b p hold
      refine ⟨c, hsp.others c hc (hcb ▸ hba), hcb, hcr, ?_, ?_⟩
      · simp only [hpn, if_false]; exact hst
      · simp only [hba, if_false]; exact hown
  · intro x x' o hx hx'
    simp only at hx hx'
    by_cases hxa : x = a <;> by_cases hxa' : x' = a
    · rw [hxa, hxa']
    · simp only [hxa, if_true, Option.some.injEq] at hx
      simp only [hxa', if_false] at hx'
      have := hI.ownerLt x' o hx'
      omega
    · simp only [hxa', if_true, Option.some.injEq] at hx'
      simp only [hxa, if_false] at hx
      have := hI.ownerLt x o hx
      omega
    · simp only [hxa, if_false] at hx
      simp only [hxa', if_false] at hx'
      exact hI.ownerInj x x' o hx hx'
  · intro x o hx
    simp only at hx ⊢
    by_cases hxa : x = a
    · simp only [hxa, if_true, Option.some.injEq] at hx
      omega
    · simp only [hxa, if_false] at hx
      have := hI.ownerLt x o hx
      omega

/-! ## one step, and runs -/

theorem read_agrees {S : Edges} {s : MState} (hI : Inv S s) {a : Addr} {o : Oid}
    (hr : ReachS S s.store s.roots a o) : s.heap.read a = s.store o := by
  obtain ⟨c, hc, hca, _, hst, _⟩ := hI.sim a o hr
  rw [hst, Heap.read, ← hca, readCell_of_mem hI.wf.nodup hc]
  rfl

theorem step_inv {S E : Edges} (hSE : ∀ k f, f ∈ S k → f ∈ E k) (P : Params) (hP : 0 < P.chunk)
    {s : MState} (hI : Inv S s) (op : Op) (hv : op.Valid S s) :
    Inv S (step P E s op).1 ∧ ∀ ob, (step P E s op).2 = some ob → ob.1 = ob.2 := by
  cases op with
  | alloc v => exact ⟨Inv_alloc hSE P hP hI hv, fun ob h => by simp [step] at h⟩
  | write a o v => exact ⟨Inv_write hI hv.1 hv.2, fun ob h => by simp [step] at h⟩
  | read a o =>
    refine ⟨hI, ?_⟩
    intro ob h
    simp only [step, Option.some.injEq] at h
    subst h
    exact read_agrees hI hv
  | addRoot v => exact ⟨Inv_addRoot hI hv, fun ob h => by simp [step] at h⟩
  | dropRoot i => exact ⟨Inv_dropRoot hI i, fun ob h => by simp [step] at h⟩
  | gcMinor => exact ⟨Inv_gcMinor hI, fun ob h => by simp [step] at h⟩
  | gcFull =>
    refine ⟨?_, fun ob h => by simp [step] at h⟩
    have := Inv_valueCollection hSE P hP hI [] true
    simpa [step, Heap.collect] using this

theorem run_inv {S E : Edges} (hSE : ∀ k f, f ∈ S k → f ∈ E k) (P : Params) (hP : 0 < P.chunk)
    (ops : List Op) : ∀ (s : MState), Inv S s → ValidRun P E S s ops →
      Inv S (run P E s ops).1 ∧ ∀ ob ∈ (run P E s ops).2, ob.1 = ob.2 := by
  induction ops with
  | nil => intro s hI _; exact ⟨hI, fun ob h => by simp [run] at h⟩
  | cons op rest ih =>
    intro s hI hv
    obtain ⟨hv1, hv2⟩ := hv
    obtain ⟨hI1, hob⟩ := step_inv hSE P hP hI op hv1
    obtain ⟨hI2, hobs⟩ := ih _ hI1 hv2
    refine ⟨hI2, ?_⟩
    intro ob hmem
    simp only [run, List.mem_append] at hmem
    rcases hmem with h | h
    · cases hs : (step P E s op).2 with
      | none => simp [hs] at h
      | some o1 =>
        simp only [hs, List.mem_singleton] at h
        subst h
        exact hob _ hs
    · exact hobs ob h

theorem Inv_init (S : Edges) (P : Params) (hP : 0 < P.init) : Inv S (MState.init P) := by
  refine { wf := WF_new P hP, sim := ?_, ownerInj := ?_, ownerLt := ?_ }
  · intro a o hr
    exfalso
    induction hr with
    | root hm _ => simp [MState.init] at hm
    | cell _ _ _ ih => exact ih
  · intro a a' o h; simp [MState.init] at h
  · intro a o h; simp [MState.init] at h

end SteelVerif.C04
