/-
C04 — why an OPEN continuation mark needs no traversal: a model of the VM's stack discipline around `call/cc`.

`steel_vm/vm.rs`: `call_cc` builds `ContinuationMark::Open(OpenContinuationMark { sp, current_stack_values:
stack[offset..].to_vec(), current_frame: stack_frames.last(), .. })` for the region of the operand stack that
belongs to the frame that called `call/cc`, pushes the receiver's frame with `sp = stack.len()` and attaches the
mark to THAT frame (`with_continuation_mark`).  The mark stays open exactly as long as the receiver's frame is on
the frame stack: popping the frame (return, tail position, error unwinding, escaping through an outer
continuation) closes it (`close_continuation_marks` → `ContinuationMark::close`, which turns it into a
`ClosedContinuation` — that one IS traversed by the marker).  Invoking the continuation while it is open
truncates the operand stack to `open.sp` and re-extends it with the captured values.

While a frame is on the frame stack, the instructions of the running (innermost) frame read, write, push, pop and
move values out of (`MOVEREADLOCAL` at a last use) only the part of the operand stack from the running frame's
own `sp` upwards.  Hence the captured region — which lies below the receiver frame's `sp` — is unchanged while
the mark is open: every value held by an open mark is still on the operand stack, which is a root set of every
collection (`roots[]` for the collecting thread, `thread.stack[]` for the others).

The model below has exactly these state components (operand stack, frames with `sp` and attached open marks)
and the operations that can happen to them; `open_mark_covered` is proved for every operation list.
-/
import SteelVerif.C04.Model
namespace SteelVerif.C04.OpenMark
open SteelVerif.C04

/-- `OpenContinuationMark`: start of the captured region and the values copied out of it. -/
structure OMark where
  sp : Nat
  vals : List Val

/-- `StackFrame`: start of its region of the operand stack and the open marks attached to it. -/
structure Frame where
  sp : Nat
  marks : List OMark := []

structure VM where
  stack : List Val := []
  frames : List Frame := []     -- innermost first; empty = only the top-level frame (region starts at 0)

def headSp : List Frame → Nat
  | f :: _ => f.sp
  | [] => 0

def VM.topSp (vm : VM) : Nat := headSp vm.frames

inductive VOp where
  /-- anything the running frame does to its own region: push, pop, write, move-out at a last use, arguments of a
  tail call — the region from its `sp` upwards is replaced by arbitrary contents -/
  | localOp (new : List Val)
  /-- call with `n` arguments already pushed: a new frame whose region starts `n` below the top -/
  | call (n : Nat)
  /-- `call/cc`: an open mark for the running frame's region, attached to the receiver's new frame -/
  | callcc
  /-- the running frame is popped (return / unwinding); its open marks are closed; a result is pushed -/
  | ret (v : Val)
  /-- the `j`-th open mark of the `d`-th frame is invoked while it is open: frames down to and including the
  receiver's are popped, the stack is truncated to `open.sp` and re-extended with the captured values -/
  | escape (d j : Nat) (v : Val)

def step (vm : VM) : VOp → VM
  | .localOp new => { vm with stack := vm.stack.take vm.topSp ++ new }
  | .call n =>
    if n ≤ vm.stack.length - vm.topSp then
      { vm with frames := { sp := vm.stack.length - n } :: vm.frames }
    else vm
  | .callcc =>
    { vm with frames := { sp := vm.stack.length,
                          marks := [{ sp := vm.topSp, vals := vm.stack.drop vm.topSp }] } :: vm.frames }
  | .ret v =>
    match vm.frames with
    | f :: rest => { stack := vm.stack.take f.sp ++ [v], frames := rest }
    | [] => vm
  | .escape d j v =>
    match vm.frames.drop d with
    | f :: rest =>
      match f.marks[j]? with
      | some m => { stack := vm.stack.take m.sp ++ m.vals ++ [v], frames := rest }
      | none => vm
    | [] => vm

def run (vm : VM) : List VOp → VM
  | [] => vm
  | op :: rest => run (step vm op) rest

/-- The captured values are what the stack holds from `m.sp` on, and the region ends below `bound`. -/
def MarkOK (stack : List Val) (bound : Nat) (m : OMark) : Prop :=
  m.sp + m.vals.length ≤ bound ∧ (stack.drop m.sp).take m.vals.length = m.vals

/-- Frames are nested (`sp` non-increasing outwards, the innermost at most `upper`), and the marks attached to a
frame describe a region that lies between the next outer frame's `sp` and the frame's own `sp`. -/
def FramesOK (stack : List Val) : Nat → List Frame → Prop
  | _, [] => True
  | upper, f :: rest =>
    f.sp ≤ upper ∧ (∀ m ∈ f.marks, MarkOK stack f.sp m ∧ headSp rest ≤ m.sp) ∧ FramesOK stack f.sp rest

def Inv (vm : VM) : Prop := FramesOK vm.stack vm.stack.length vm.frames

theorem region_of_take {s s' : List Val} {b : Nat} (h : s'.take b = s.take b) {sp n : Nat} (hb : sp + n ≤ b) :
    (s'.drop sp).take n = (s.drop sp).take n := by
  have key : ∀ l : List Val, (l.drop sp).take n = ((l.take b).drop sp).take n := by
    intro l
    rw [List.drop_take, List.take_take]
    congr 1
    omega
  rw [key s', key s, h]

theorem MarkOK_agree {s s' : List Val} {b bound : Nat} (h : s'.take b = s.take b) (hb : bound ≤ b) {m : OMark}
    (hm : MarkOK s bound m) : MarkOK s' bound m :=
  ⟨hm.1, by rw [region_of_take h (Nat.le_trans hm.1 hb)]; exact hm.2⟩

theorem FramesOK_agree {s s' : List Val} {b : Nat} (h : s'.take b = s.take b) :
    ∀ (fs : List Frame) (u u' : Nat), FramesOK s u fs → headSp fs ≤ b → headSp fs ≤ u' → FramesOK s' u' fs := by
  intro fs
  induction fs with
  | nil => intros; trivial
  | cons f rest ih =>
    intro u u' hok hb hu
    obtain ⟨_, hm, hrest⟩ := hok
    refine ⟨hu, fun m hmem => ⟨MarkOK_agree h hb (hm m hmem).1, (hm m hmem).2⟩, ?_⟩
    have hle : headSp rest ≤ f.sp := by
      cases rest with
      | nil => exact Nat.zero_le _
      | cons g r => exact hrest.1
    exact ih f.sp f.sp hrest (Nat.le_trans hle hb) hle

theorem FramesOK_head_le {s : List Val} {u : Nat} {fs : List Frame} (h : FramesOK s u fs) (hu : 0 ≤ u) :
    headSp fs ≤ u := by
  cases fs with
  | nil => exact Nat.zero_le _
  | cons f r => exact h.1

theorem take_take_append (s : List Val) (a : Nat) (new : List Val) (b : Nat) (hb : b ≤ a) (ha : a ≤ s.length) :
    (s.take a ++ new).take b = s.take b := by
  rw [List.take_append_of_le_length (by rw [List.length_take]; omega), List.take_take]
  congr 1
  omega

/-- Frames further out are fine for any stack that agrees up to the inner frame's `sp`. -/
theorem FramesOK_drop {s : List Val} :
    ∀ (d : Nat) (fs : List Frame) (u : Nat), FramesOK s u fs → FramesOK s (headSp (fs.drop d)) (fs.drop d) ∧
      headSp (fs.drop d) ≤ headSp fs := by
  intro d
  induction d with
  | zero =>
    intro fs u h
    refine ⟨?_, by simp⟩
    cases fs with
    | nil => trivial
    | cons f r => exact ⟨Nat.le_refl _, h.2.1, h.2.2⟩
  | succ d ih =>
    intro fs u h
    cases fs with
    | nil => exact ⟨trivial, by simp [headSp]⟩
    | cons f r =>
      have hih := ih r f.sp h.2.2
      refine ⟨hih.1, ?_⟩
      have hr : headSp r ≤ f.sp := FramesOK_head_le h.2.2 (Nat.zero_le _)
      have h2 := hih.2
      show headSp (List.drop d r) ≤ f.sp
      omega

theorem step_inv (vm : VM) (hI : Inv vm) (op : VOp) : Inv (step vm op) := by
  have htop : vm.topSp ≤ vm.stack.length := FramesOK_head_le hI (Nat.zero_le _)
  cases op with
  | localOp new =>
    show FramesOK (vm.stack.take vm.topSp ++ new) (vm.stack.take vm.topSp ++ new).length vm.frames
    refine FramesOK_agree (b := vm.topSp) (take_take_append _ _ _ _ (Nat.le_refl _) htop) _ _ _ hI (Nat.le_refl _) ?_
    rw [List.length_append, List.length_take]
    show vm.topSp ≤ _
    omega
  | call n =>
    by_cases hn : n ≤ vm.stack.length - vm.topSp
    · have hs : step vm (.call n) = { vm with frames := { sp := vm.stack.length - n } :: vm.frames } := by
        simp only [step, hn, if_true]
      rw [hs]
      show FramesOK vm.stack vm.stack.length ({ sp := vm.stack.length - n } :: vm.frames)
      refine ⟨by show vm.stack.length - n ≤ vm.stack.length; omega, ⟨fun m hm => absurd hm (by simp), ?_⟩⟩
      refine FramesOK_agree (b := vm.stack.length) rfl _ _ _ hI htop ?_
      show vm.topSp ≤ vm.stack.length - n
      omega
    · have hs : step vm (.call n) = vm := by simp only [step, hn, if_false]
      rw [hs]; exact hI
  | callcc =>
    show FramesOK vm.stack vm.stack.length
      ({ sp := vm.stack.length, marks := [{ sp := vm.topSp, vals := vm.stack.drop vm.topSp }] } :: vm.frames)
    refine ⟨Nat.le_refl _, ?_, ?_⟩
    · intro m hm
      simp only [List.mem_singleton] at hm
      subst hm
      refine ⟨⟨?_, ?_⟩, Nat.le_refl _⟩
      · show vm.topSp + (vm.stack.drop vm.topSp).length ≤ vm.stack.length
        rw [List.length_drop]; omega
      · show ((vm.stack.drop vm.topSp).take (vm.stack.drop vm.topSp).length) = vm.stack.drop vm.topSp
        exact List.take_length
    · exact FramesOK_agree (b := vm.stack.length) rfl _ _ _ hI htop htop
  | ret v =>
    cases hf : vm.frames with
    | nil =>
      have hs : step vm (.ret v) = vm := by simp only [step, hf]
      rw [hs]; exact hI
    | cons f rest =>
      have hs : step vm (.ret v) = { stack := vm.stack.take f.sp ++ [v], frames := rest } := by simp only [step, hf]
      rw [hs]
      have hI' : FramesOK vm.stack vm.stack.length (f :: rest) := hf ▸ hI
      obtain ⟨hfs, _, hrest⟩ := hI'
      have hr : headSp rest ≤ f.sp := FramesOK_head_le hrest (Nat.zero_le _)
      show FramesOK (vm.stack.take f.sp ++ [v]) (vm.stack.take f.sp ++ [v]).length rest
      refine FramesOK_agree (b := f.sp) (take_take_append _ _ _ _ (Nat.le_refl _) hfs) _ _ _ hrest hr ?_
      rw [List.length_append, List.length_take]
      omega
  | escape d j v =>
    cases hd : vm.frames.drop d with
    | nil =>
      have hs : step vm (.escape d j v) = vm := by simp only [step, hd]
      rw [hs]; exact hI
    | cons f rest =>
      cases hm : f.marks[j]? with
      | none =>
        have hs : step vm (.escape d j v) = vm := by simp only [step, hd, hm]
        rw [hs]; exact hI
      | some m =>
        have hs : step vm (.escape d j v) = { stack := vm.stack.take m.sp ++ m.vals ++ [v], frames := rest } := by
          simp only [step, hd, hm]
        rw [hs]
        have hmem : m ∈ f.marks := List.mem_of_getElem? hm
        have hdrop := FramesOK_drop d vm.frames vm.stack.length hI
        rw [hd] at hdrop
        obtain ⟨⟨_, hmarks, hrest⟩, hle⟩ := hdrop
        obtain ⟨⟨hbound, hvals⟩, hlow⟩ := hmarks m hmem
        have hfle : f.sp ≤ vm.stack.length := Nat.le_trans (show f.sp ≤ headSp vm.frames from hle) htop
        -- the restored stack is the old one cut after the captured region
        have hcut : vm.stack.take m.sp ++ m.vals = vm.stack.take (m.sp + m.vals.length) := by
          rw [List.take_add, hvals]
        show FramesOK (vm.stack.take m.sp ++ m.vals ++ [v]) (vm.stack.take m.sp ++ m.vals ++ [v]).length rest
        rw [hcut]
        have hlen : m.sp + m.vals.length ≤ vm.stack.length := by omega
        refine FramesOK_agree (b := m.sp + m.vals.length) (take_take_append _ _ _ _ (Nat.le_refl _) hlen) _ _ _
          hrest ?_ ?_
        · omega
        · rw [List.length_append, List.length_take]
          omega

theorem run_inv (ops : List VOp) : ∀ vm : VM, Inv vm → Inv (run vm ops) := by
  induction ops with
  | nil => intro vm h; exact h
  | cons op rest ih => intro vm h; exact ih _ (step_inv vm h op)

theorem Inv_init : Inv {} := trivial

theorem marks_on_stack {s : List Val} :
    ∀ (fs : List Frame) (u : Nat), FramesOK s u fs → ∀ f ∈ fs, ∀ m ∈ f.marks, ∀ v ∈ m.vals, v ∈ s := by
  intro fs
  induction fs with
  | nil => intro _ _ f hf; cases hf
  | cons g rest ih =>
    intro u h f hf m hm v hv
    rcases List.mem_cons.mp hf with rfl | hf'
    · have := ((h.2.1 m hm).1).2
      rw [← this] at hv
      exact List.mem_of_mem_drop (List.mem_of_mem_take hv)
    · exact ih g.sp h.2.2 f hf' m hm v hv

/-! ## From "the values under the untraversed fields are roots themselves" to reachability without those fields -/

/-- `Covered S S' roots v`: wherever, inside the immutable value `v`, the specification `S` follows a field that
the marker's table `S'` does not follow, the child under that field is itself one of the roots. -/
inductive Covered (S S' : Edges) (roots : List Val) : Val → Prop
  | atom (n : Int) : Covered S S' roots (.atom n)
  | ref (a o : Nat) : Covered S S' roots (.ref a o)
  | node (k : Nat) (fs : List (Nat × Val)) :
      (∀ p ∈ fs, p.1 ∈ S k → p.1 ∈ S' k → Covered S S' roots p.2) →
      (∀ p ∈ fs, p.1 ∈ S k → p.1 ∉ S' k → p.2 ∈ roots) →
      Covered S S' roots (.node k fs)

theorem inside_covered {S S' : Edges} {roots : List Val} (hroots : ∀ r ∈ roots, Covered S S' roots r)
    {v w : Val} (hin : Inside S v w) :
    Covered S S' roots v → Inside S' v w ∨ ∃ r ∈ roots, Inside S' r w := by
  induction hin with
  | here v => intro _; exact Or.inl (Inside.here _)
  | @child k fs f c w hmem hf _ ih =>
    intro hcov
    cases hcov with
    | node _ _ hfollowed hskipped =>
      by_cases hf' : f ∈ S' k
      · rcases ih (hfollowed (f, c) hmem hf hf') with h1 | h2
        · exact Or.inl (Inside.child hmem hf' h1)
        · exact Or.inr h2
      · have hcr : c ∈ roots := hskipped (f, c) hmem hf hf'
        rcases ih (hroots c hcr) with h1 | h2
        · exact Or.inr ⟨c, hcr, h1⟩
        · exact Or.inr h2

/-- If every root and every slot value is `Covered`, whatever is reachable along the specification's fields is
reachable along the marker's fields alone. -/
theorem reach_covered {S S' : Edges} {cs : List Cell} {roots : List Val}
    (hroots : ∀ r ∈ roots, Covered S S' roots r) (hcells : ∀ c ∈ cs, Covered S S' roots c.value)
    {a : Nat} (hr : Reach S cs roots a) : Reach S' cs roots a := by
  induction hr with
  | root hmem hin =>
    rcases inside_covered hroots hin (hroots _ hmem) with h1 | ⟨r, hr, h2⟩
    · exact Reach.root hmem h1
    · exact Reach.root hr h2
  | cell _ hc ha hin ih =>
    rcases inside_covered hroots hin (hcells _ hc) with h1 | ⟨r, hr, h2⟩
    · exact Reach.cell ih hc ha h1
    · exact Reach.root hr h2

end SteelVerif.C04.OpenMark
