/-
C04/C19 — the free-list invariant (`WF`) and its preservation by every operation of the model.
-/
import SteelVerif.C04.LemmasMark
namespace SteelVerif.C04

/-- What holds of a free list between operations (without the cursor). -/
structure WF0 (h : Heap) : Prop where
  nodup : AddrNodup h.cells
  fresh : ∀ c ∈ h.cells, c.addr < h.nextAddr
  count : h.allocCount = freeCount h.cells

/-- … and the slot under the cursor exists and is free (`allocate` writes into it without looking). -/
structure WF (h : Heap) : Prop extends WF0 h where
  cursorFree : ∃ c, h.cells[h.cursor]? = some c ∧ c.reachable = false

/-! ## small list facts -/

theorem freeCount_append (xs ys : List Cell) : freeCount (xs ++ ys) = freeCount xs + freeCount ys := by
  simp [freeCount, List.filter_append]

theorem freeCount_map_congr (cs : List Cell) (f g : Cell → Cell)
    (h : ∀ c ∈ cs, (f c).reachable = (g c).reachable) : freeCount (cs.map f) = freeCount (cs.map g) := by
  induction cs with
  | nil => rfl
  | cons c rest ih =>
    simp only [List.map_cons, freeCount_cons]
    rw [h c List.mem_cons_self, ih (fun d hd => h d (List.mem_cons_of_mem _ hd))]

theorem freeCount_pos_of_mem {cs : List Cell} {c : Cell} (hc : c ∈ cs) (hr : c.reachable = false) :
    0 < freeCount cs := by
  unfold freeCount
  exact List.length_pos_of_mem (List.mem_filter.mpr ⟨hc, by simp [hr]⟩)

theorem exists_free_of_freeCount_pos {cs : List Cell} (h : 0 < freeCount cs) :
    ∃ c ∈ cs, c.reachable = false := by
  unfold freeCount at h
  obtain ⟨c, hc⟩ := List.exists_mem_of_length_pos h
  obtain ⟨hm, hp⟩ := List.mem_filter.mp hc
  exact ⟨c, hm, by simpa using hp⟩

theorem mem_freshCells {s n : Nat} {c : Cell} :
    c ∈ freshCells s n ↔ ∃ i, i < n ∧ c = { addr := s + i, reachable := false, value := emptyVal } := by
  simp only [freshCells, List.mem_map, List.mem_range]
  constructor
  · rintro ⟨i, hi, rfl⟩; exact ⟨i, hi, rfl⟩
  · rintro ⟨i, hi, rfl⟩; exact ⟨i, hi, rfl⟩

theorem freshCells_length (s n : Nat) : (freshCells s n).length = n := by simp [freshCells]

theorem freeCount_freshCells (s n : Nat) : freeCount (freshCells s n) = n := by
  unfold freeCount
  rw [List.filter_eq_self.mpr]
  · exact freshCells_length s n
  · intro c hc
    obtain ⟨i, _, rfl⟩ := mem_freshCells.mp hc
    rfl

theorem AddrNodup_freshCells (s n : Nat) : AddrNodup (freshCells s n) := by
  unfold AddrNodup freshCells
  rw [List.map_map]
  exact List.Pairwise.map _ (fun a b hab => by show s + a ≠ s + b; omega) List.nodup_range

theorem AddrNodup_append {xs ys : List Cell} (hx : AddrNodup xs) (hy : AddrNodup ys)
    (hd : ∀ c ∈ xs, ∀ d ∈ ys, c.addr ≠ d.addr) : AddrNodup (xs ++ ys) := by
  unfold AddrNodup at *
  rw [List.map_append, List.nodup_append]
  refine ⟨hx, hy, ?_⟩
  intro a ha b hb
  obtain ⟨c, hc, rfl⟩ := List.mem_map.mp ha
  obtain ⟨d, hd', rfl⟩ := List.mem_map.mp hb
  exact hd c hc d hd'

theorem AddrNodup_of_map {cs : List Cell} (f : Cell → Cell) (hf : ∀ c ∈ cs, (f c).addr = c.addr)
    (h : AddrNodup cs) : AddrNodup (cs.map f) := by
  unfold AddrNodup at *
  rw [List.map_map]
  have : cs.map ((fun c => c.addr) ∘ f) = cs.map (fun c => c.addr) :=
    List.map_congr_left (fun c hc => hf c hc)
  rw [this]; exact h

theorem AddrNodup_filter {cs : List Cell} (p : Cell → Bool) (h : AddrNodup cs) : AddrNodup (cs.filter p) := by
  unfold AddrNodup at *
  exact List.Nodup.sublist (List.Sublist.map _ List.filter_sublist) h

/-! ## `growBy` -/

theorem growBy_cells (h : Heap) (n : Nat) :
    (h.growBy n).cells = h.cells ++ freshCells h.nextAddr (max h.cells.length n) := rfl

theorem WF_growBy {h : Heap} (n : Nat) (hw : WF0 h) (hpos : 0 < max h.cells.length n) : WF (h.growBy n) := by
  generalize hm : max h.cells.length n = m at hpos
  have hcells : (h.growBy n).cells = h.cells ++ freshCells h.nextAddr m := by rw [growBy_cells, hm]
  have hnext : (h.growBy n).nextAddr = h.nextAddr + m := by simp only [Heap.growBy, hm]
  have hcur : (h.growBy n).cursor = h.cells.length := rfl
  have hcount : (h.growBy n).allocCount = h.allocCount + m := by simp only [Heap.growBy, hm]
  refine { nodup := ?_, fresh := ?_, count := ?_, cursorFree := ?_ }
  · rw [hcells]
    refine AddrNodup_append hw.nodup (AddrNodup_freshCells _ _) ?_
    intro c hc d hd
    obtain ⟨i, _, rfl⟩ := mem_freshCells.mp hd
    have := hw.fresh c hc
    show c.addr ≠ h.nextAddr + i
    omega
  · intro c hc
    rw [hcells] at hc
    rw [hnext]
    rcases List.mem_append.mp hc with hc | hc
    · have := hw.fresh c hc; omega
    · obtain ⟨i, hi, rfl⟩ := mem_freshCells.mp hc
      show h.nextAddr + i < h.nextAddr + m
      omega
  · rw [hcells, hcount, freeCount_append, freeCount_freshCells, hw.count]
  · refine ⟨{ addr := h.nextAddr + 0, reachable := false, value := emptyVal }, ?_, rfl⟩
    rw [hcells, hcur, List.getElem?_append_right (Nat.le_refl _)]
    simp only [Nat.sub_self, freshCells]
    rw [List.getElem?_map, List.getElem?_range hpos]
    rfl

theorem WF_new (P : Params) (hP : 0 < P.init) : WF (Heap.new P) := by
  apply WF_growBy
  · exact { nodup := by simp [AddrNodup], fresh := by simp, count := by simp [freeCount] }
  · simp only [List.length_nil]; omega

/-! ## `set` at the cursor is a map over distinct addresses -/

theorem set_eq_map {cs : List Cell} (hnd : AddrNodup cs) {i : Nat} {c c' : Cell} (hc : cs[i]? = some c) :
    cs.set i c' = cs.map fun d => if d.addr = c.addr then c' else d := by
  induction cs generalizing i with
  | nil => simp at hc
  | cons e rest ih =>
    simp only [AddrNodup, List.map_cons, List.nodup_cons, List.mem_map, not_exists, not_and] at hnd
    cases i with
    | zero =>
      simp only [List.getElem?_cons_zero, Option.some.injEq] at hc
      subst hc
      simp only [List.set_cons_zero, List.map_cons, if_true]
      congr 1
      conv => lhs; rw [← List.map_id rest]
      apply List.map_congr_left
      intro d hd
      have : d.addr ≠ e.addr := fun h => hnd.1 d hd h
      simp [this]
    | succ j =>
      simp only [List.getElem?_cons_succ] at hc
      have hmem : c ∈ rest := List.mem_of_getElem? hc
      have hne : e.addr ≠ c.addr := fun h => hnd.1 c hmem h.symm
      simp only [List.set_cons_succ, List.map_cons, hne, if_false]
      rw [ih hnd.2 hc]

/-! ## `allocate` -/

/-- The effect of `FreeList::allocate` on the cells, before the cursor is moved. -/
def fillCell (cs : List Cell) (a : Addr) (v : Val) : List Cell :=
  cs.map fun d => if d.addr = a then { addr := a, reachable := true, value := v } else d

theorem freeCount_fillCell {cs : List Cell} {a : Addr} {c : Cell} (v : Val) (hnd : AddrNodup cs)
    (hc : c ∈ cs) (hca : c.addr = a) (hr : c.reachable = false) :
    freeCount (fillCell cs a v) + 1 = freeCount cs := by
  have h1 : freeCount (fillCell cs a v) = freeCount (markCell cs a) := by
    unfold fillCell markCell
    apply freeCount_map_congr
    intro d _
    by_cases hd : d.addr = a <;> simp [hd]
  rw [h1]
  exact freeCount_markCell_exact hnd (hca ▸ readCell_of_mem hnd hc) hr

theorem firstFree_some {cs : List Cell} {i : Nat} (h : firstFree cs = some i) :
    ∃ c, cs[i]? = some c ∧ c.reachable = false := by
  obtain ⟨hi, hp, _⟩ := List.findIdx?_eq_some_iff_getElem.mp h
  exact ⟨cs[i], List.getElem?_eq_getElem hi, by simpa using hp⟩

theorem firstFree_none {cs : List Cell} (h : firstFree cs = none) : freeCount cs = 0 := by
  have := List.findIdx?_eq_none_iff.mp h
  unfold freeCount
  rw [List.length_eq_zero_iff, List.filter_eq_nil_iff]
  intro c hc
  simpa using this c hc

/-- Everything `allocate` does, as seen by the rest of the development. -/
structure AllocSpec (h : Heap) (v : Val) (h' : Heap) (a : Addr) : Prop where
  wf : WF h'
  wasFree : ∃ c ∈ h.cells, c.addr = a ∧ c.reachable = false
  others : ∀ c ∈ h.cells, c.addr ≠ a → c ∈ h'.cells
  filled : ({ addr := a, reachable := true, value := v } : Cell) ∈ h'.cells
  /-- every cell afterwards is an old one, the filled one, or a brand-new free one -/
  only : ∀ d ∈ h'.cells, (d ∈ h.cells ∧ d.addr ≠ a) ∨ d = { addr := a, reachable := true, value := v } ∨
          (d.reachable = false ∧ h.nextAddr ≤ d.addr)
  /-- the list is extended only when no free slot is left -/
  reuse : h'.cells.length ≠ h.cells.length → freeCount h.cells = 1
  /-- … and `grow_count` moves only with an extension -/
  sameGrow : h'.cells.length = h.cells.length → h'.growCount = h.growCount

theorem allocate_spec (P : Params) (hP : 0 < P.chunk) {h : Heap} (hw : WF h) (v : Val) :
    AllocSpec h v (h.allocate P v).1 (h.allocate P v).2 := by
  obtain ⟨c, hc, hcr⟩ := hw.cursorFree
  have hcm : c ∈ h.cells := List.mem_of_getElem? hc
  have hset : h.cells.set h.cursor { c with value := v, reachable := true } = fillCell h.cells c.addr v := by
    rw [set_eq_map hw.nodup hc]; rfl
  have hfc := freeCount_fillCell v hw.nodup hcm rfl hcr
  have hcnt : h.allocCount - 1 = freeCount (fillCell h.cells c.addr v) := by rw [hw.count]; omega
  -- facts about the filled list
  have hnd1 : AddrNodup (fillCell h.cells c.addr v) :=
    AddrNodup_of_map _ (fun d _ => by by_cases hd : d.addr = c.addr <;> simp [hd]) hw.nodup
  have hfresh1 : ∀ d ∈ fillCell h.cells c.addr v, d.addr < h.nextAddr := by
    intro d hd
    obtain ⟨e, he, rfl⟩ := List.mem_map.mp hd
    by_cases hea : e.addr = c.addr
    · simp only [hea, if_true]; exact hw.fresh c hcm
    · simp only [hea, if_false]; exact hw.fresh e he
  have hothers1 : ∀ e ∈ h.cells, e.addr ≠ c.addr → e ∈ fillCell h.cells c.addr v := by
    intro e he hne
    exact List.mem_map.mpr ⟨e, he, by simp [hne]⟩
  have hfilled1 : ({ addr := c.addr, reachable := true, value := v } : Cell) ∈ fillCell h.cells c.addr v :=
    List.mem_map.mpr ⟨c, hcm, by simp⟩
  have honly1 : ∀ d ∈ fillCell h.cells c.addr v,
      (d ∈ h.cells ∧ d.addr ≠ c.addr) ∨ d = { addr := c.addr, reachable := true, value := v } := by
    intro d hd
    obtain ⟨e, he, rfl⟩ := List.mem_map.mp hd
    by_cases hea : e.addr = c.addr
    · right; simp [hea]
    · left; simp only [hea, if_false]; exact ⟨he, hea⟩
  have hlen1 : (fillCell h.cells c.addr v).length = h.cells.length := by simp [fillCell]
  have hw1 : WF0 { h with cells := fillCell h.cells c.addr v, allocCount := h.allocCount - 1 } :=
    { nodup := hnd1, fresh := hfresh1, count := hcnt }
  -- unfold `allocate`
  have hdef : h.allocate P v =
      ((match firstFree ((fillCell h.cells c.addr v).drop h.cursor) with
        | some k => { h with cells := fillCell h.cells c.addr v, allocCount := h.allocCount - 1,
                             cursor := h.cursor + k }
        | none =>
          if h.allocCount - 1 = 0 then
            ({ h with cells := fillCell h.cells c.addr v, allocCount := h.allocCount - 1 } : Heap).growBy P.chunk
          else { h with cells := fillCell h.cells c.addr v, allocCount := h.allocCount - 1,
                        cursor := (firstFree (fillCell h.cells c.addr v)).getD 0 }), c.addr) := by
    simp only [Heap.allocate, hc, hset]
    rfl
  rw [hdef]
  cases hff : firstFree ((fillCell h.cells c.addr v).drop h.cursor) with
  | some k =>
    simp only
    obtain ⟨d, hd, hdr⟩ := firstFree_some hff
    rw [List.getElem?_drop] at hd
    exact { wf := { toWF0 := { nodup := hnd1, fresh := hfresh1, count := hcnt }, cursorFree := ⟨d, hd, hdr⟩ }
            wasFree := ⟨c, hcm, rfl, hcr⟩
            others := hothers1
            filled := hfilled1
            only := fun d hd => by
              rcases honly1 d hd with h | h
              · exact Or.inl h
              · exact Or.inr (Or.inl h)
            reuse := fun hne => absurd hlen1 hne
            sameGrow := fun _ => rfl }
  | none =>
    simp only
    by_cases hz : h.allocCount - 1 = 0
    · simp only [hz, if_true]
      have hwg := WF_growBy P.chunk hw1 (by simp only; omega)
      rw [hz] at hwg
      refine { wf := hwg, wasFree := ⟨c, hcm, rfl, hcr⟩, others := ?_, filled := ?_, only := ?_, reuse := ?_,
               sameGrow := ?_ }
      rotate_right
      · intro hl
        exfalso
        rw [growBy_cells, List.length_append, freshCells_length] at hl
        simp only at hl
        omega
      · intro e he hne
        rw [growBy_cells]
        exact List.mem_append.mpr (Or.inl (hothers1 e he hne))
      · rw [growBy_cells]; exact List.mem_append.mpr (Or.inl hfilled1)
      · intro d hd
        rw [growBy_cells] at hd
        rcases List.mem_append.mp hd with hd | hd
        · rcases honly1 d hd with h | h
          · exact Or.inl h
          · exact Or.inr (Or.inl h)
        · obtain ⟨i, _, rfl⟩ := mem_freshCells.mp hd
          exact Or.inr (Or.inr ⟨rfl, by simp⟩)
      · intro _
        rw [hw.count] at hz
        omega
    · simp only [hz, if_false]
      have hpos : 0 < freeCount (fillCell h.cells c.addr v) := by omega
      cases hf2 : firstFree (fillCell h.cells c.addr v) with
      | none => have := firstFree_none hf2; omega
      | some i =>
        simp only [Option.getD_some]
        obtain ⟨d, hd, hdr⟩ := firstFree_some hf2
        exact { wf := { toWF0 := { nodup := hnd1, fresh := hfresh1, count := hcnt }, cursorFree := ⟨d, hd, hdr⟩ }
                wasFree := ⟨c, hcm, rfl, hcr⟩
                others := hothers1
                filled := hfilled1
                only := fun d hd => by
                  rcases honly1 d hd with h | h
                  · exact Or.inl h
                  · exact Or.inr (Or.inl h)
                reuse := fun hne => absurd hlen1 hne
                sameGrow := fun _ => rfl }

/-! ## `write` -/

theorem WF_write {h : Heap} (a : Addr) (v : Val) (hw : WF h) : WF (h.write a v) := by
  have hlen : (h.write a v).cells.length = h.cells.length := by simp [Heap.write]
  refine { nodup := ?_, fresh := ?_, count := ?_, cursorFree := ?_ }
  · exact AddrNodup_of_map _ (fun d _ => by by_cases hd : d.addr = a <;> simp [hd]) hw.nodup
  · intro d hd
    obtain ⟨e, he, rfl⟩ := List.mem_map.mp hd
    have := hw.fresh e he
    show _ < h.nextAddr
    by_cases hea : e.addr = a <;> simpa [hea] using this
  · simp only [Heap.write]
    rw [hw.count]
    conv => lhs; rw [← List.map_id h.cells]
    apply freeCount_map_congr
    intro d _
    by_cases hd : d.addr = a <;> simp [hd]
  · obtain ⟨c, hc, hcr⟩ := hw.cursorFree
    refine ⟨if c.addr = a then { c with value := v } else c, ?_, ?_⟩
    · simp only [Heap.write, List.getElem?_map, hc, Option.map_some]
    · by_cases hca : c.addr = a <;> simp [hca, hcr]

/-! ## `weakCollect` -/

theorem freeCount_clear (cs : List Cell) (dead : Cell → Bool) :
    freeCount (cs.map fun c => if dead c then { c with reachable := false } else c) =
      freeCount cs + (cs.filter fun c => dead c && c.reachable).length := by
  induction cs with
  | nil => rfl
  | cons c rest ih =>
    simp only [List.map_cons, freeCount_cons, List.filter_cons, ih]
    cases hd : dead c <;> cases hr : c.reachable <;> simp [hd, hr] <;> omega

theorem WF_weakCollect {h : Heap} (ext : Addr → Bool) (hw : WF h) : WF (h.weakCollect ext) := by
  refine { nodup := ?_, fresh := ?_, count := ?_, cursorFree := ?_ }
  · exact AddrNodup_of_map _ (fun d _ => by simp only; split <;> rfl) hw.nodup
  · intro d hd
    obtain ⟨e, he, rfl⟩ := List.mem_map.mp hd
    have := hw.fresh e he
    simp only [Heap.weakCollect]
    split <;> exact this
  · simp only [Heap.weakCollect]
    rw [freeCount_clear, hw.count]
  · obtain ⟨c, hc, hcr⟩ := hw.cursorFree
    refine ⟨if (!(ext c.addr) && !(heldInCells h.cells c.addr)) = true then { c with reachable := false } else c,
      by simp only [Heap.weakCollect, List.getElem?_map, hc, Option.map_some], ?_⟩
    split <;> simp [hcr]

/-- A minor collection never frees a slot to which a handle exists (in a root/temporary or in any slot). -/
theorem weakCollect_keeps {h : Heap} (ext : Addr → Bool) {c : Cell} (hc : c ∈ h.cells)
    (hheld : ext c.addr = true ∨ heldInCells h.cells c.addr = true) : c ∈ (h.weakCollect ext).cells := by
  refine List.mem_map.mpr ⟨c, hc, ?_⟩
  have : (!(ext c.addr) && !(heldInCells h.cells c.addr)) = false := by
    rcases hheld with h | h <;> simp [h]
  simp [this]

theorem weakCollect_values {h : Heap} (ext : Addr → Bool) :
    ∀ c ∈ h.cells, ∃ c' ∈ (h.weakCollect ext).cells, c'.addr = c.addr ∧ c'.value = c.value := by
  intro c hc
  refine ⟨_, List.mem_map.mpr ⟨c, hc, rfl⟩, ?_⟩
  split <;> exact ⟨rfl, rfl⟩

theorem weakCollect_values' {h : Heap} (ext : Addr → Bool) :
    ∀ c' ∈ (h.weakCollect ext).cells, ∃ c ∈ h.cells, c'.addr = c.addr ∧ c'.value = c.value ∧
      (c'.reachable = true → c' = c) := by
  intro c' hc'
  obtain ⟨c, hc, rfl⟩ := List.mem_map.mp hc'
  refine ⟨c, hc, ?_⟩
  split
  · exact ⟨rfl, rfl, fun h => by cases h⟩
  · exact ⟨rfl, rfl, fun _ => rfl⟩

theorem weakCollect_length {h : Heap} (ext : Addr → Bool) : (h.weakCollect ext).cells.length = h.cells.length := by
  simp [Heap.weakCollect]

/-! ## occurrences of handles -/

theorem occursL_of_mem {a : Addr} {fs : List (Field × Val)} {f : Field} {c : Val} (hm : (f, c) ∈ fs)
    (hc : c.occurs a = true) : occursL a fs = true := by
  induction fs with
  | nil => cases hm
  | cons p rest ih =>
    obtain ⟨g, w⟩ := p
    simp only [occursL, Bool.or_eq_true]
    rcases List.mem_cons.mp hm with h | h
    · cases h; exact Or.inl hc
    · exact Or.inr (ih h)

theorem occurs_of_Inside {E : Edges} {v : Val} {a : Addr} {o : Oid} (h : Inside E v (.ref a o)) :
    v.occurs a = true := by
  generalize hw : Val.ref a o = w at h
  induction h with
  | here v => subst hw; simp [Val.occurs]
  | child hm _ _ ih =>
    simp only [Val.occurs]
    exact occursL_of_mem hm (ih hw)

/-- A reachable slot is named by a handle in a root or in some slot. -/
theorem Reach_held {E : Edges} {cs : List Cell} {roots : List Val} {a : Addr} (h : Reach E cs roots a) :
    extOf roots a = true ∨ heldInCells cs a = true := by
  cases h with
  | root hm hi =>
    left
    simp only [extOf, List.any_eq_true]
    exact ⟨_, hm, occurs_of_Inside hi⟩
  | cell _ hc _ hi =>
    right
    simp only [heldInCells, List.any_eq_true]
    exact ⟨_, hc, occurs_of_Inside hi⟩

/-! ## the mark-and-sweep part -/

theorem compact_cells (P : Params) (h : Heap) :
    (h.compact P).cells = h.cells.filter (·.reachable) ++
      freshCells h.nextAddr (max (h.cells.filter (·.reachable)).length P.chunk) := rfl

theorem freeCount_filter_reachable (cs : List Cell) : freeCount (cs.filter (·.reachable)) = 0 := by
  unfold freeCount
  rw [List.length_eq_zero_iff, List.filter_eq_nil_iff]
  intro c hc
  have := (List.mem_filter.mp hc).2
  simp [this]

theorem WF_compact {h : Heap} (P : Params) (hP : 0 < P.chunk) (hw : WF0 h) : WF (h.compact P) := by
  apply WF_growBy
  · exact { nodup := AddrNodup_filter _ hw.nodup
            fresh := fun c hc => hw.fresh c (List.mem_filter.mp hc).1
            count := by simp only; rw [freeCount_filter_reachable] }
  · simp only; omega

/-- The heap right after marking and recounting, before growth/compaction. -/
def Heap.marked (E : Edges) (roots : List Val) (h : Heap) : Heap :=
  let r := markLoop E (markAll h.cells) roots 0
  { h with cells := r.1, allocCount := r.1.length - r.2 }

theorem fullPart_eq (P : Params) (E : Edges) (roots : List Val) (h : Heap) :
    h.fullPart P E roots =
      if (h.marked E roots).growCount > P.resetLimit then (h.marked E roots).compact P
      else (h.marked E roots).growBy P.chunk := rfl

theorem marked_cells_shape (E : Edges) (roots : List Val) (h : Heap) :
    ∃ A, (h.marked E roots).cells = markSet (markAll h.cells) A := markLoop_shape E _ _ _

theorem WF0_marked {h : Heap} (E : Edges) (roots : List Val) (hw : WF0 h) : WF0 (h.marked E roots) := by
  obtain ⟨A, hA⟩ := marked_cells_shape E roots h
  refine { nodup := ?_, fresh := ?_, count := ?_ }
  · rw [hA]; exact AddrNodup_markSet _ (AddrNodup_markAll hw.nodup)
  · intro d hd
    rw [hA] at hd
    obtain ⟨c0, hc0, rfl⟩ := mem_markSet.mp hd
    obtain ⟨c, hc, rfl⟩ := List.mem_map.mp hc0
    have := hw.fresh c hc
    split <;> exact this
  · have hcnt := markLoop_count E (markAll h.cells) roots 0 (AddrNodup_markAll hw.nodup)
    rw [freeCount_markAll] at hcnt
    have hlen : (markLoop E (markAll h.cells) roots 0).1.length = h.cells.length := by
      have := marked_cells_shape E roots h
      obtain ⟨A', hA'⟩ := this
      simp only [Heap.marked] at hA'
      rw [hA', markSet_length]; simp [markAll]
    simp only [Heap.marked]
    omega

theorem WF_fullPart {h : Heap} (P : Params) (hP : 0 < P.chunk) (E : Edges) (roots : List Val) (hw : WF0 h) :
    WF (h.fullPart P E roots) := by
  rw [fullPart_eq]
  split
  · exact WF_compact P hP (WF0_marked E roots hw)
  · exact WF_growBy _ (WF0_marked E roots hw) (by omega)

/-- A marked cell of the marked heap survives growth and compaction unchanged. -/
theorem fullPart_keeps_marked (P : Params) (E : Edges) (roots : List Val) (h : Heap) {d : Cell}
    (hd : d ∈ (h.marked E roots).cells) (hr : d.reachable = true) : d ∈ (h.fullPart P E roots).cells := by
  rw [fullPart_eq]
  split
  · rw [compact_cells]
    exact List.mem_append.mpr (Or.inl (List.mem_filter.mpr ⟨hd, hr⟩))
  · rw [growBy_cells]
    exact List.mem_append.mpr (Or.inl hd)

/-- Every reachable cell is marked by the mark phase (with its value untouched). -/
theorem marked_of_reach (E : Edges) (roots : List Val) {h : Heap} (hnd : AddrNodup h.cells) {c : Cell}
    (hc : c ∈ h.cells) (hr : Reach E h.cells roots c.addr) :
    ({ c with reachable := true } : Cell) ∈ (h.marked E roots).cells := by
  have hblk := mark_closed_reach E h.cells roots hnd hr
  obtain ⟨A, hA⟩ := marked_cells_shape E roots h
  have hA' : (markLoop E (markAll h.cells) roots 0).1 = markSet (markAll h.cells) A := hA
  rw [hA'] at hblk
  rw [hA]
  let c0 : Cell := { c with reachable := false }
  have hc0 : c0 ∈ markAll h.cells := List.mem_map.mpr ⟨c, hc, rfl⟩
  have hd : (if c0.addr ∈ A then { c0 with reachable := true } else c0) ∈ markSet (markAll h.cells) A :=
    mem_markSet.mpr ⟨c0, hc0, rfl⟩
  have hdr := hblk _ hd (by split <;> rfl)
  by_cases hcA : c0.addr ∈ A
  · simp only [hcA, if_true] at hd
    exact hd
  · simp only [hcA, if_false] at hdr
    cases hdr

/-- Every cell of a collected heap is an old cell with the mark bit recomputed, or a fresh free cell. -/
theorem fullPart_only (P : Params) (E : Edges) (roots : List Val) (h : Heap) :
    ∀ d ∈ (h.fullPart P E roots).cells,
      (∃ c ∈ h.cells, d.addr = c.addr ∧ d.value = c.value ∧
        (d.reachable = true → Reach E h.cells roots d.addr)) ∨
      (d.reachable = false ∧ h.nextAddr ≤ d.addr) := by
  intro d hd
  have hcompl := markLoop_complete E (markAll h.cells) roots 0
  obtain ⟨A, hA⟩ := marked_cells_shape E roots h
  have key : ∀ d ∈ (h.marked E roots).cells, ∃ c ∈ h.cells, d.addr = c.addr ∧ d.value = c.value ∧
      (d.reachable = true → Reach E h.cells roots d.addr) := by
    intro d hd
    have hd' := hd
    rw [hA] at hd
    obtain ⟨c0, hc0, rfl⟩ := mem_markSet.mp hd
    obtain ⟨c, hc, rfl⟩ := List.mem_map.mp hc0
    refine ⟨c, hc, by split <;> rfl, by split <;> rfl, ?_⟩
    intro hr
    rcases hcompl _ hd' hr with ⟨e, he, _, her⟩ | hreach
    · obtain ⟨e', _, rfl⟩ := List.mem_map.mp he
      cases her
    · exact Reach_markAll.mp hreach
  rw [fullPart_eq] at hd
  split at hd
  · rw [compact_cells] at hd
    rcases List.mem_append.mp hd with hd | hd
    · exact Or.inl (key d (List.mem_filter.mp hd).1)
    · obtain ⟨i, _, rfl⟩ := mem_freshCells.mp hd
      exact Or.inr ⟨rfl, by simp [Heap.marked]⟩
  · rw [growBy_cells] at hd
    rcases List.mem_append.mp hd with hd | hd
    · exact Or.inl (key d hd)
    · obtain ⟨i, _, rfl⟩ := mem_freshCells.mp hd
      exact Or.inr ⟨rfl, by simp [Heap.marked]⟩

/-! ## `valueCollection` -/

theorem WF_valueCollection {h : Heap} (P : Params) (hP : 0 < P.chunk) (E : Edges) (roots : List Val)
    (force : Bool) (hw : WF h) : WF (h.valueCollection P E roots force) := by
  unfold Heap.valueCollection
  split
  · simp only
    split
    · exact WF_fullPart P hP E roots (WF_weakCollect _ hw).toWF0
    · exact WF_weakCollect _ hw
  · exact hw

/-- **A collection (whatever the policy decides) keeps every allocated, reachable cell as it is.** -/
theorem valueCollection_keeps {h : Heap} (P : Params) (E : Edges) (roots : List Val) (force : Bool)
    (hw : WF h) {c : Cell} (hc : c ∈ h.cells) (hcr : c.reachable = true) (hr : Reach E h.cells roots c.addr) :
    c ∈ (h.valueCollection P E roots force).cells := by
  have hk : c ∈ (h.weakCollect (extOf roots)).cells := weakCollect_keeps _ hc (Reach_held hr)
  unfold Heap.valueCollection
  split
  · simp only
    split
    · have hr' : Reach E (h.weakCollect (extOf roots)).cells roots c.addr :=
        Reach_of_values (weakCollect_values _) hr
      have := marked_of_reach E roots (WF_weakCollect (extOf roots) hw).nodup hk hr'
      have hceq : ({ c with reachable := true } : Cell) = c := by cases c; simp_all
      rw [hceq] at this
      exact fullPart_keeps_marked P E roots _ this hcr
    · exact hk
  · exact hc

end SteelVerif.C04
