/-
C04 — the collector never reclaims or overwrites reachable mutable storage: the property theorems.

Part 1: theorems about the mechanism model, for ALL heaps, roots, operation lists and collection schedules.
Part 2: the table obligations that tie the model's edge/root parameters to the marker that exists
        (`GenEdges.lean` is regenerated from /repo on every run).
-/
import SteelVerif.C04.LemmasRefine
import SteelVerif.C04.GenEdges
import SteelVerif.C04.LemmasOpenMark
namespace SteelVerif.C04

/-- `E` follows every field that the specification `S` says can hold a value. -/
def EdgesCover (S E : Edges) : Prop := ∀ k f, f ∈ S k → f ∈ E k

/-! ## Part 1 — the mechanism -/

/-- **mark_sound.**  After `mark_all_unreachable` + the mark phase from `roots`, every slot reachable from the
roots (graph reachability through slot contents, along the fields `S`) is marked — for every heap (cyclic or
not), every root list, and every marker table `E` that covers `S`. -/
theorem mark_sound (S E : Edges) (hSE : EdgesCover S E) (cs : List Cell) (roots : List Val)
    (hnd : AddrNodup cs) (a : Addr) (hr : Reach S cs roots a) :
    ∀ d ∈ (markLoop E (markAll cs) roots 0).1, d.addr = a → d.reachable = true :=
  mark_closed_reach E cs roots hnd (Reach_mono hSE hr)

/-- **collect_preserves.**  A full collection (`#%gc-collect`: minor collection, mark, sweep, then growth or
compaction) keeps every allocated slot that is reachable from the roots: the very same cell — address, value,
allocated bit — is still there, so a read through a handle returns what it returned before. -/
theorem collect_preserves (S E : Edges) (hSE : EdgesCover S E) (P : Params) (hP : 0 < P.chunk) (h : Heap)
    (hw : WF h) (roots : List Val) (c : Cell) (hc : c ∈ h.cells) (halloc : c.reachable = true)
    (hr : Reach S h.cells roots c.addr) :
    c ∈ (h.collect P E roots).cells ∧ (h.collect P E roots).read c.addr = h.read c.addr := by
  have hk : c ∈ (h.collect P E roots).cells :=
    valueCollection_keeps P E roots true hw hc halloc (Reach_mono hSE hr)
  have hw' : WF (h.collect P E roots) := WF_valueCollection P hP E roots true hw
  exact ⟨hk, by rw [Heap.read, Heap.read, readCell_of_mem hw'.nodup hk, readCell_of_mem hw.nodup hc]⟩

/-- … and the same for whatever the allocation-time policy decides to run (nothing, minor, minor + full). -/
theorem policy_collection_preserves (S E : Edges) (hSE : EdgesCover S E) (P : Params) (h : Heap) (hw : WF h)
    (roots : List Val) (force : Bool) (c : Cell) (hc : c ∈ h.cells) (halloc : c.reachable = true)
    (hr : Reach S h.cells roots c.addr) : c ∈ (h.valueCollection P E roots force).cells :=
  valueCollection_keeps P E roots force hw hc halloc (Reach_mono hSE hr)

/-- **alloc_fresh.**  The slot that `allocate` hands out was free (not allocated) before; every other cell is
left as it was; the new cell holds the value. -/
theorem alloc_fresh (P : Params) (hP : 0 < P.chunk) (h : Heap) (hw : WF h) (v : Val) :
    (∃ c ∈ h.cells, c.addr = (h.allocate P v).2 ∧ c.reachable = false) ∧
    (∀ c ∈ h.cells, c.addr ≠ (h.allocate P v).2 → c ∈ (h.allocate P v).1.cells) ∧
    (h.allocate P v).1.read (h.allocate P v).2 = some v := by
  have hs := allocate_spec P hP hw v
  refine ⟨hs.wasFree, hs.others, ?_⟩
  rw [Heap.read, show (h.allocate P v).2 = ({ addr := (h.allocate P v).2, reachable := true, value := v } : Cell).addr from rfl,
    readCell_of_mem hs.wf.nodup hs.filled]
  rfl

/-- In a state where the heap agrees with the abstract store, the slot handed out is not reachable. -/
theorem alloc_fresh_unreachable (S : Edges) (P : Params) (hP : 0 < P.chunk) (s : MState) (hI : Inv S s) (v : Val)
    (o : Oid) : ¬ ReachS S s.store s.roots (s.heap.allocate P v).2 o := by
  intro hr
  obtain ⟨c, hc, hca, hcr, _, _⟩ := hI.sim _ _ hr
  obtain ⟨c0, hc0, hc0a, hc0r⟩ := (allocate_spec P hP hI.wf v).wasFree
  have : c = c0 := addr_inj hI.wf.nodup hc hc0 (hca.trans hc0a.symm)
  rw [this, hc0r] at hcr
  cases hcr

/-- **weak_collect_safe.**  The minor collection does not touch a slot to which a handle exists — in a root or
temporary (`ext`) or inside the contents of any slot, live or dead. -/
theorem weak_collect_safe (h : Heap) (ext : Addr → Bool) (c : Cell) (hc : c ∈ h.cells)
    (hheld : ext c.addr = true ∨ ∃ d ∈ h.cells, d.value.occurs c.addr = true) :
    c ∈ (h.weakCollect ext).cells := by
  refine weakCollect_keeps ext hc ?_
  rcases hheld with h1 | ⟨d, hd, hocc⟩
  · exact Or.inl h1
  · right
    simp only [heldInCells, List.any_eq_true]
    exact ⟨d, hd, hocc⟩

/-- … in particular not a reachable one. -/
theorem weak_collect_keeps_reachable (S : Edges) (h : Heap) (roots : List Val) (c : Cell) (hc : c ∈ h.cells)
    (hr : Reach S h.cells roots c.addr) : c ∈ (h.weakCollect (extOf roots)).cells :=
  weakCollect_keeps _ hc (Reach_held hr)

/-- **gc_transparent.**  Take any list of operations — allocations, writes, reads, pushing and dropping
roots — with minor and full collections inserted at ANY positions (they are operations of the list, so the
statement quantifies over every schedule, including one at every step; allocations additionally run the
collector's own 95 % policy).  If the program only uses handles it can reach, then every read returns exactly
what the abstract store returns, which no collection ever touches and in which every object has a fresh name. -/
theorem gc_transparent (S E : Edges) (hSE : EdgesCover S E) (P : Params) (hP : 0 < P.chunk) (hI : 0 < P.init)
    (ops : List Op) (hv : ValidRun P E S (MState.init P) ops) :
    ∀ ob ∈ (run P E (MState.init P) ops).2, ob.1 = ob.2 :=
  (run_inv hSE P hP ops (MState.init P) (Inv_init S P hI) hv).2

/-- The same from any state in which heap and store agree (e.g. in the middle of a program). -/
theorem gc_transparent_from (S E : Edges) (hSE : EdgesCover S E) (P : Params) (hP : 0 < P.chunk) (s : MState)
    (hs : Inv S s) (ops : List Op) (hv : ValidRun P E S s ops) :
    Inv S (run P E s ops).1 ∧ ∀ ob ∈ (run P E s ops).2, ob.1 = ob.2 :=
  run_inv hSE P hP ops s hs hv

/-! ### Non-vacuity -/

/-- All fields of all kinds. -/
def allEdges : Edges := fun _ => List.range 8

/-- A cyclic heap: slot 10 holds a list containing a handle to slot 11, slot 11 a handle back to 10;
slot 12 is garbage that points into the cycle. -/
def demoCells : List Cell :=
  [ { addr := 10, reachable := true, value := .node 23 [(0, .atom 1), (0, .ref 11 1)] },
    { addr := 11, reachable := true, value := .ref 10 0 },
    { addr := 12, reachable := true, value := .ref 10 0 } ]

def demoRoots : List Val := [.node 24 [(0, .ref 10 0), (1, .atom 5)]]

example : Reach allEdges demoCells demoRoots 11 := by
  have h10 : Reach allEdges demoCells demoRoots 10 :=
    Reach.root List.mem_cons_self (Inside.child List.mem_cons_self (by decide) (Inside.here _))
  exact Reach.cell h10 (c := { addr := 10, reachable := true, value := .node 23 [(0, .atom 1), (0, .ref 11 1)] })
    List.mem_cons_self rfl (Inside.child (List.mem_cons_of_mem _ List.mem_cons_self) (by decide) (Inside.here _))

/-- The marker marks the cycle and not the garbage, and counts two slots. -/
example :
    ((markLoop allEdges (markAll demoCells) demoRoots 0).1.map (·.reachable),
     (markLoop allEdges (markAll demoCells) demoRoots 0).2) = ([true, true, false], 2) := by
  rw [show demoRoots = [.node 24 [(0, .ref 10 0), (1, .atom 5)]] from rfl, markLoop_node,
    show kids allEdges (.node 24 [(0, .ref 10 0), (1, .atom 5)]) ++ [] = [.ref 10 0, .atom 5] from rfl,
    markLoop_ref_unmarked allEdges 0 _ _ (c := ⟨10, false, .node 23 [(0, .atom 1), (0, .ref 11 1)]⟩) rfl rfl,
    markLoop_node,
    show kids allEdges (.node 23 [(0, .atom 1), (0, .ref 11 1)]) ++ [Val.atom 5] = [.atom 1, .ref 11 1, .atom 5]
      from rfl,
    markLoop_atom,
    markLoop_ref_unmarked allEdges 1 _ _ (c := ⟨11, false, .ref 10 0⟩) rfl rfl,
    markLoop_ref_marked allEdges 0 _ _ (c := ⟨10, true, .node 23 [(0, .atom 1), (0, .ref 11 1)]⟩) rfl rfl,
    markLoop_atom, markLoop_nil]
  rfl

/-- A run with collections between the steps: allocate `a`; collect; allocate `b` holding `a`'s handle; minor
collection; drop `a`'s own root; collect; write through the handle; collect; read.  The hypotheses of
`gc_transparent` are satisfiable for it: here is the state after the first allocation, and the handle is
reachable in it. -/
def demoP : Params := { chunk := 4, init := 2, resetLimit := 2 }

example : (step demoP allEdges (MState.init demoP) (.alloc (.atom 7))).1.roots = [.ref 0 0] := by
  simp [step, Heap.allocateGC, Heap.valueCollection, Heap.over95, MState.init, Heap.new, Heap.growBy, demoP,
    freshCells, Heap.allocate, List.range, List.range.loop]

example : ValidRun demoP allEdges allEdges (MState.init demoP) [.alloc (.atom 7), .gcMinor] := by
  refine ⟨?_, trivial, trivial⟩
  intro b p h
  cases Inside_atom h

/-! ## Part 2 — the tables: the marker follows every field that can hold a value -/

open Gen

/-- **Specification of the edges**, written from the type definitions (`rvals.rs`, `values/functions.rs`,
`values/structs.rs`, `values/lazy_stream.rs`, `values/transducers.rs`, `steel_vm/vm.rs`): for each variant of
`SteelVal`, the fields that can hold other `SteelVal`s, in the token language of the translator. -/
def edgesSpecTable : List (String × List String) := [
  ("Closure", ["$.captures[]", "$.get_contract_information"]),      -- ByteCodeLambda{captures, contract}
  ("VectorV", ["$[]"]),
  ("Custom", ["visit_children($)"]),                                -- dyn CustomType: delegated to the type
  ("HashMapV", ["$[].key", "$[].value"]),
  ("HashSetV", ["$[]"]),
  ("CustomStruct", ["$.fields[]"]),                                 -- UserDefinedStruct{fields}
  ("IterV", ["Map", "Filter", "Take", "Drop", "FlatMap", "Window", "TakeWhile", "DropWhile", "Extend",
             "Zipping", "Interleaving", "MapPair"]),                -- Transducers::*(SteelVal)
  ("ReducerV", ["ForEach", "Generic.initial_value", "Generic.function"]),
  ("StreamV", ["$.initial_value", "$.stream_thunk"]),
  ("ContinuationFunction",
    ["Closed.stack[]", "Closed.current_frame.function.captures[]", "Closed.stack_frames[].function.captures[]",
     "Closed.stack_frames[].attachments.handler", "Closed.current_frame.attachments.handler",
     "Open.current_stack_values[]", "Open.current_frame.function.captures[]",
     "Open.current_frame.attachments.handler"]),
  ("ListV", ["$[]"]),
  ("Pair", ["$.car", "$.cdr"]),
  ("MutableVector", ["slot($)"]),
  ("BoxedIterator", ["$.root"]),
  ("SyntaxObject", ["$.raw", "$.syntax"]),
  ("Boxed", ["$"]),
  ("HeapAllocated", ["slot($)"])]

/-- Variants that cannot hold a script value (numbers, text, ports, function pointers) or whose contents are
opaque host data (`BoxedFunction`: a Rust closure, `FutureV`, `Reference`: a borrowed host object). -/
def atomKinds : List String :=
  ["BoolV", "NumV", "IntV", "Rational", "CharV", "Void", "StringV", "FuncV", "SymbolV", "PortV", "FutureFunc",
   "FutureV", "BoxedFunction", "MutFunc", "BuiltIn", "Reference", "BigNum", "BigRational", "Complex", "ByteVector"]

/-- Fields whose coverage is NOT established by the traversal tables but by an argument about the VM that
is outside this model (the explicit hypothesis of the `_partial` theorems):
* `ContinuationMark::Open(..)` is not traversed.  An open mark is created by `call/cc` on the frame of the
  receiver lambda and is closed (`close_marks`) when that frame is popped or unwound; while it is open the
  captured region `stack[offset..]` belongs to the suspended caller and is still on the thread's operand stack,
  and `current_frame` is still in `stack_frames` — both are roots of every collection.
* `ClosedContinuation.current_frame` is `stack_frames.last().cloned()` (`new_closed_continuation_from_state`),
  whose handler is pushed with `stack_frames[]`; otherwise it is the thread's handler-free main frame. -/
def assumedCovered : List (String × List String) := [
  ("ContinuationFunction",
    ["Closed.current_frame.attachments.handler", "Open.current_stack_values[]",
     "Open.current_frame.function.captures[]", "Open.current_frame.attachments.handler"])]

def lookupT (t : List (String × List String)) (k : String) : List String :=
  match t.find? (·.1 == k) with
  | some p => p.2
  | none => []

def lookupS (t : List (String × String)) (k : String) : String :=
  match t.find? (·.1 == k) with
  | some p => p.2
  | none => ""

/-- What the sequential copy of the traversal (`MarkAndSweepContext`) follows for a variant. -/
def implTokensA (v : String) : List String :=
  if leafA.contains v then [] else lookupT edgesA (lookupS dispatchA v)

/-- What the parallel copy (`MarkAndSweepContextRefQueue`) follows for a variant. -/
def implTokensB (v : String) : List String :=
  if leafB.contains v || !pointerVariants.contains v then [] else lookupT edgesB (lookupS dispatchB v)

def specTokens (v : String) : List String := lookupT edgesSpecTable v
def assumedTokens (v : String) : List String := lookupT assumedCovered v

/-- Every variant of `SteelVal` is classified: it has an entry in the specification table or is an atom. -/
theorem kinds_classified :
    ∀ v ∈ steelValVariants, (edgesSpecTable.map (·.1)).contains v || atomKinds.contains v := by decide

theorem spec_kinds_exist : ∀ v ∈ edgesSpecTable.map (·.1), steelValVariants.contains v := by decide

/-- **edges_complete (partial), sequential copy**: every value-holding field of every kind is pushed by the
`visit_*` method the kind is dispatched to — except the fields listed in `assumedCovered`. -/
theorem edges_complete_A_partial :
    ∀ v ∈ steelValVariants, ∀ t ∈ specTokens v, (assumedTokens v).contains t || (implTokensA v).contains t := by
  decide

/-- **edges_complete (partial), parallel copy.** -/
theorem edges_complete_B_partial :
    ∀ v ∈ steelValVariants, ∀ t ∈ specTokens v, (assumedTokens v).contains t || (implTokensB v).contains t := by
  decide

/-- The full statement does NOT hold of the code that exists: the open continuation mark is not traversed. -/
theorem edges_complete_A_fails :
    ¬ ∀ v ∈ steelValVariants, ∀ t ∈ specTokens v, (implTokensA v).contains t := by decide

theorem edges_complete_B_fails :
    ¬ ∀ v ∈ steelValVariants, ∀ t ∈ specTokens v, (implTokensB v).contains t := by decide

/-- The leaf kinds of both `push_back`s hold no values. -/
theorem leaf_kinds_have_no_children : ∀ v ∈ leafA ++ leafB, specTokens v = [] := by decide

/-- Marking a slot pushes its contents (`mark_heap_reference`, `mark_heap_vector`), in both copies. -/
theorem slot_pushes_contents :
    lookupT slotA "mark_heap_reference" = ["$.value"] ∧ lookupT slotA "mark_heap_vector" = ["$.value[]"] ∧
    lookupT slotB "mark_heap_reference" = ["$.value"] ∧ lookupT slotB "mark_heap_vector" = ["$.value[]"] := by
  decide

/-- **Specification of the roots** of a collection started by a thread. -/
def rootsSpec : List String :=
  ["root_value",                    -- the value being allocated
   "root_vector[]",                 -- the elements of the vector being allocated
   "roots[]",                       -- operand stack: live variables, pending arguments, temporaries
   "function_stack[].captures[]",   -- captures of every frame's function (and handler, see `liveSpec`)
   "globals[]", "tls[]",
   "GLOBAL_ROOTS.roots[]",          -- rooted host values
   "enumerate_stacks",              -- the other threads (see `rootsOtherThreadSpec`)
   "MARKER.mark(queue)",            -- the pushed roots are handed to the marker …
   "queue.clear"]                   -- … and dropped afterwards (K19a)

def rootsOtherThreadSpec : List String :=
  ["thread.stack[]", "thread.stack_frames[].function.captures[]", "thread.stack_frames[].attachments.handler",
   "thread.current_frame.function.captures[]", "thread.thread_local_storage[]"]

def liveSpec : List String := ["frame.function", "frame.attachments.handler"]   -- K04a

/-- What every call of `Heap::allocate* / collection` must pass. -/
def siteSpec : List String :=
  ["&thread.stack", "live_functions(&thread.stack_frames)", "thread.global_env.roots()", "&thread.thread_local_storage"]

/-- **roots_complete.** -/
theorem roots_complete :
    (∀ r ∈ rootsSpec, rootsMark.contains r) ∧
    (∀ r ∈ rootsOtherThreadSpec, rootsEnumerate.contains r) ∧
    (∀ r ∈ liveSpec, liveFunctions.contains r) ∧
    (∀ s ∈ allocSites, ∀ r ∈ siteSpec, s.2.contains r) := by decide

/-! ### The value that is being allocated is a root of the collection its own allocation triggers

`Heap::allocate(value, …)` / `allocate_vector(values, …)` / `allocate_vector_iter(values, …)` run the collection
policy BEFORE the slot is filled, and `NEWBOX` / the JIT's box helper have already taken the operand off the
operand stack: while that collection runs, the only reference to whatever the operand holds is the pending
argument itself.  `Heap::mark` pushes `root_value` and `root_vector[]` (`roots_complete`); the obligations below
are about what the callers put there: every call of `mark_and_sweep_new` outside the verification hook passes
the pending parameter of its enclosing function (a `None` / empty iterator where the function has a pending
value breaks it) and the five root sets in order, and the pending parameter of each of the three allocation
entry points reaches such a call — directly or through the collection routine it calls. -/

/-- The five root sets every collection routine receives and hands on, in this order. -/
def rootParams : List String := ["roots", "live_functions", "globals", "tls", "synchronizer"]

/-- Parameters that only say whether a collection is demanded. -/
def flagParams : List String := ["force", "force_full"]

/-- The allocation entry points of `impl Heap` (those that may collect). -/
def allocEntries : List String := ["allocate", "allocate_vector", "allocate_vector_iter"]

def isHookFn (f : String) : Bool := hookFns.contains f

def paramsOf (f : String) : List String := lookupT heapFns f

/-- What a routine receives besides the root sets and the flag: the value / vector contents being allocated. -/
def pendingOf (f : String) : List String :=
  (paramsOf f).filter fun p => !rootParams.contains p && !flagParams.contains p

/-- The call hands `p` to the marker as `root_value` (first argument, `Some(p)`) or as `root_vector` (second). -/
def passesPending (args : List String) (p : String) : Bool := args.getD 0 "" == p || args.getD 1 "" == p

def sitesIn (f : String) : List (List String) := (markSites.filter (·.1 == f)).map (·.2)

/-- All marker calls inside `f` pass `p`, and there is one. -/
def reachesMarker (f p : String) : Bool := !(sitesIn f).isEmpty && (sitesIn f).all (passesPending · p)

/-- The parameter of `g` that receives the argument `p` of the call `g(args)`. -/
def receivingParam (g : String) (args : List String) (p : String) : Option String :=
  ((args.zip (paramsOf g)).find? (·.1 == p)).map (·.2)

/-- Calls from `f` to collection routines other than the hook's: (callee, arguments). -/
def realCallsFrom (f : String) : List (String × List String) :=
  (collCalls.filter fun c => c.1 == f && !isHookFn (c.2.headD "")).map fun c => (c.2.headD "", c.2.tail)

/-- The pending parameter of the entry point `f` reaches the marker on every real path: `f` has exactly one
pending parameter; every marker call in `f` itself passes it; every collection routine `f` calls receives it in
a parameter that all of the routine's marker calls pass; and there is at least one such path. -/
def entryOK (f : String) : Bool :=
  match pendingOf f with
  | [p] =>
    (!(sitesIn f).isEmpty || !(realCallsFrom f).isEmpty) &&
    (sitesIn f).all (passesPending · p) &&
    (realCallsFrom f).all fun c =>
      match receivingParam c.1 c.2 p with
      | some q => (pendingOf c.1).contains q && reachesMarker c.1 q
      | none => false
  | _ => false

/-- **pending_value_is_root.**  (i) Every call of `mark_and_sweep_new` outside the hook passes every pending
parameter of its enclosing function and then exactly the five root sets; (ii) every call among the collection
routines hands on all five root sets; (iii) the pending value / vector of `allocate`, `allocate_vector`,
`allocate_vector_iter` reaches the marker on every real (non-hook) path; (iv) `mark_and_sweep_new` hands its
seven parameters to `Heap::mark` unchanged (whose pushes are the subject of `roots_complete`). -/
theorem pending_value_is_root :
    (∀ s ∈ markSites, isHookFn s.1 || ((pendingOf s.1).all (passesPending s.2 ·) && s.2.drop 2 == rootParams)) ∧
    (∀ c ∈ collCalls, isHookFn (c.2.headD "") || rootParams.all (c.2.tail.contains ·)) ∧
    (∀ f ∈ allocEntries, (heapFns.map (·.1)).contains f && entryOK f) ∧
    (markCall == paramsOf "mark_and_sweep_new" && paramsOf "mark" == paramsOf "mark_and_sweep_new" &&
      (paramsOf "mark").take 2 == ["root_value", "root_vector"]) := by decide

/-- Non-vacuity of the obligation: the same predicate REJECTS a table in which the collection routine starts
the marker with `None` although it was handed the pending value … -/
example : ¬ ((["None", "empty", "roots", "live_functions", "globals", "tls", "synchronizer"] : List String).getD 0 "" == "value"
    || (["None", "empty", "roots", "live_functions", "globals", "tls", "synchronizer"] : List String).getD 1 "" == "value") := by
  decide

/-- … and the extracted tables do contain real marker calls and real paths from the three entry points. -/
example : (markSites.filter fun s => !isHookFn s.1).length ≥ 3 ∧ allocEntries.all (fun f => !(pendingOf f).isEmpty) := by
  decide

/-- Does the verification hook start the marker with a root set of its own (instead of going through the
collection routines above)?  Then forced collections do not exercise the real call sites; the check reports it. -/
def hookHasOwnMarkerCall : Bool := markSites.any fun s => isHookFn s.1

/-! ### No allocation while the marker runs

`gc_transparent` treats a collection as one atomic step between two operations of the program.  The code makes
it one: every call of `Heap::allocate* / collection` is made on the heap mutex, taken inside a safepoint
(`enter_safepoint(|thread| thread.heap.lock_arc())` — so a second thread that wants to allocate waits, parked,
until the collection and the allocation that triggered it are over), and the mark phase itself runs between
`stop_threads` and `resume_threads` with the other threads' stacks enumerated after the stop. -/

def lockSpec : String := "thread.enter_safepoint(|thread|thread.heap.lock_arc())"

theorem marking_excludes_allocation :
    (∀ s ∈ allocLocks, s.2 == lockSpec) ∧ allocLocks.length = allocSites.length ∧
    markProtocol = ["stop_threads", "enumerate_stacks", "push_roots", "marker", "resume_threads"] := by decide

/-! ### The model instantiated with the tables -/

def kindIndex (v : String) : Nat := (steelValVariants.findIdx? (· == v)).getD steelValVariants.length
def kindName (k : Kind) : String := steelValVariants.getD k ""

/-- Field `f` of kind `k` is the `f`-th token of the specification table. -/
def specEdges : Edges := fun k => List.range (specTokens (kindName k)).length

/-- … without the fields whose coverage is assumed. -/
def specEdgesProved : Edges := fun k =>
  (List.range (specTokens (kindName k)).length).filter fun f =>
    !(assumedTokens (kindName k)).contains ((specTokens (kindName k)).getD f "")

def implEdges (impl : String → List String) : Edges := fun k =>
  (List.range (specTokens (kindName k)).length).filter fun f =>
    (impl (kindName k)).contains ((specTokens (kindName k)).getD f "")

/-- A marker that follows, at every step, only what BOTH copies follow (the real one uses one copy or the
other for each value, i.e. follows at least this). -/
def implEdgesBoth : Edges := fun k => (implEdges implTokensA k).filter fun f => (implEdges implTokensB k).contains f

theorem edges_cover_bounded :
    ∀ k, k < steelValVariants.length → ∀ f ∈ specEdgesProved k, (implEdgesBoth k).contains f := by decide

theorem edges_cover_proved : EdgesCover specEdgesProved implEdgesBoth := by
  intro k f hf
  by_cases hk : k < steelValVariants.length
  · have := edges_cover_bounded k hk f hf
    simpa using this
  · have hn : kindName k = "" := by
      simp only [kindName, List.getD_eq_getElem?_getD]
      rw [List.getElem?_eq_none (by omega)]
      rfl
    have he : specEdgesProved k = [] := by
      simp only [specEdgesProved, hn]
      rfl
    rw [he] at hf
    cases hf

/-- **mark_sound for the marker that exists**: every slot reachable through the fields whose traversal is
established from the source is marked, whichever copy of the traversal handles each value. -/
theorem mark_sound_tables (cs : List Cell) (roots : List Val) (hnd : AddrNodup cs) (a : Addr)
    (hr : Reach specEdgesProved cs roots a) :
    ∀ d ∈ (markLoop implEdgesBoth (markAll cs) roots 0).1, d.addr = a → d.reachable = true :=
  mark_sound specEdgesProved implEdgesBoth edges_cover_proved cs roots hnd a hr

/-- **mark_sound, full specification, partial**: under the explicit hypothesis that whatever is reachable
through an open continuation mark (or a closed mark's `current_frame` handler) is also reachable without it
(`assumedCovered`: those values are still on the operand stack / frame list, which are roots). -/
theorem mark_sound_full_partial (cs : List Cell) (roots : List Val) (hnd : AddrNodup cs)
    (hOpen : ∀ a, Reach specEdges cs roots a → Reach specEdgesProved cs roots a)
    (a : Addr) (hr : Reach specEdges cs roots a) :
    ∀ d ∈ (markLoop implEdgesBoth (markAll cs) roots 0).1, d.addr = a → d.reachable = true :=
  mark_sound_tables cs roots hnd a (hOpen a hr)

/-! ### The open continuation mark: the hypothesis of `mark_sound_full_partial`, derived

`LemmasOpenMark.lean` models the VM's stack discipline around `call/cc` (operand stack, frames with their `sp`,
open marks attached to the receiver's frame, closed when that frame is popped): the running frame touches the
operand stack only from its own `sp` upwards, so the region an open mark copied is unchanged while the mark is
open. -/

/-- **open_mark_covered.**  For every list of VM operations — anything the running frame does to its own region
(push, pop, write, move-out at a last use, tail-call arguments), calls, `call/cc`, returns / unwinding (which
close the marks of the popped frame), invocations of a still-open continuation — every value held by every open
continuation mark is on the operand stack (a root set of every collection). -/
theorem open_mark_covered (ops : List OpenMark.VOp) :
    ∀ f ∈ (OpenMark.run {} ops).frames, ∀ m ∈ f.marks, ∀ v ∈ m.vals, v ∈ (OpenMark.run {} ops).stack :=
  OpenMark.marks_on_stack _ _ (OpenMark.run_inv ops {} OpenMark.Inv_init)

/-- Non-vacuity: `call/cc` inside a frame that holds a handle; the running receiver pushes and pops; the mark is
open and holds the handle, which is on the stack. -/
example :
    let vm := OpenMark.run {} [.localOp [.ref 7 0], .call 0, .localOp [.ref 8 1, .atom 3], .callcc, .localOp [.atom 1], .localOp []]
    (vm.frames.map fun f => f.marks.map fun m => (m.sp, m.vals.length)) = [[(1, 2)], []] ∧ vm.stack.length = 3 := by
  decide

/-- … and once the receiver's frame is popped no open mark is left (it has been closed). -/
example :
    ((OpenMark.run {} [.localOp [.ref 7 0], .callcc, .localOp [.atom 1], .ret (.atom 2)]).frames.map (·.marks.length)) = [] := by
  decide

/-- **mark_sound, full specification**, from a structural condition instead of the reachability hypothesis:
if, in every root and in every slot value, whatever sits under a field the traversal does not follow (the fields
of an open continuation mark, a closed mark's `current_frame` handler) is itself among the roots — for the stack
values of an open mark that is `open_mark_covered`; for the captures / handler of its `current_frame`
(`stack_frames.last()`) it is `roots_complete` (`function_stack[].captures[]`, `frame.attachments.handler`) —
then every slot reachable along ALL value-holding fields is marked by the marker that exists. -/
theorem mark_sound_full_covered (cs : List Cell) (roots : List Val) (hnd : AddrNodup cs)
    (hroots : ∀ r ∈ roots, OpenMark.Covered specEdges specEdgesProved roots r)
    (hcells : ∀ c ∈ cs, OpenMark.Covered specEdges specEdgesProved roots c.value)
    (a : Addr) (hr : Reach specEdges cs roots a) :
    ∀ d ∈ (markLoop implEdgesBoth (markAll cs) roots 0).1, d.addr = a → d.reachable = true :=
  mark_sound_full_partial cs roots hnd (fun _ h => OpenMark.reach_covered hroots hcells h) a hr

/-- Non-vacuity of `Covered`: a continuation value (kind 22 = `ContinuationFunction`) whose open-mark field
(field 5 = `Open.current_stack_values[]`) holds a handle that is also a root. -/
example : OpenMark.Covered specEdges specEdgesProved [.ref 4 0, .node 22 [(5, .ref 4 0)]] (.node 22 [(5, .ref 4 0)]) := by
  refine OpenMark.Covered.node _ _ ?_ ?_
  · intro p hp _ hS'
    simp only [List.mem_singleton] at hp
    subst hp
    exact absurd hS' (by decide)
  · intro p hp _ _
    simp only [List.mem_singleton] at hp
    subst hp
    simp

/-- **gc_transparent for the marker that exists.** -/
theorem gc_transparent_tables (P : Params) (hP : 0 < P.chunk) (hI : 0 < P.init) (ops : List Op)
    (hv : ValidRun P implEdgesBoth specEdgesProved (MState.init P) ops) :
    ∀ ob ∈ (run P implEdgesBoth (MState.init P) ops).2, ob.1 = ob.2 :=
  gc_transparent specEdgesProved implEdgesBoth edges_cover_proved P hP hI ops hv

end SteelVerif.C04
