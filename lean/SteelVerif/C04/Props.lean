/-
C04 — the collector never reclaims or overwrites reachable mutable storage: the property theorems.

Part 1: theorems about the mechanism model, for ALL heaps, roots, operation lists and collection schedules.
Part 2: the table obligations that tie the model's edge/root parameters to the marker that exists
        (`GenEdges.lean` is regenerated from /repo on every run).
-/
import SteelVerif.C04.LemmasRefine
import SteelVerif.C04.GenEdges
namespace SteelVerif.C04

/-- `E` follows every field that the specification `S` says can hold a value. -/
def EdgesCover (S E : Edges) : Prop := ∀ k f, f ∈ S k → f ∈ E k

/-! ## Part 1 — the mechanism -/

/-- **mark_sound.**  After `mark_all_unreachable` + the mark phase from `roots`, every slot reachable from the
roots (graph reachability through slot contents, along the fields `S`) is marked — for every heap (cyclic or
not), every root list, and every marker table `E` that covers `S`. -/
theorem mark_sound (S E : Edges) (hSE : EdgesCover S E) (cs : List Cell) (roots : List Val)
    (hnd : AddrNodup cs) (a : Addr) (hr : Reach S cs roots a) :
    ∀ d ∈ (markLoop E (markAll cs) roots 0).1, d.addr = a → d.reachable = true :=
  mark_closed_reach E cs roots hnd (Reach_mono hSE hr)

/-- **collect_preserves.**  A full collection (`#%gc-collect`: minor collection, mark, sweep, then growth or
compaction) keeps every allocated slot that is reachable from the roots: the very same cell — address, value,
allocated bit — is still there, so a read through a handle returns what it returned before. -/
theorem collect_preserves (S E : Edges) (hSE : EdgesCover S E) (P : Params) (hP : 0 < P.chunk) (h : Heap)
    (hw : WF h) (roots : List Val) (c : Cell) (hc : c ∈ h.cells) (halloc : c.reachable = true)
    (hr : Reach S h.cells roots c.addr) :
    c ∈ (h.collect P E roots).cells ∧ (h.collect P E roots).read c.addr = h.read c.addr := by
  have hk : c ∈ (h.collect P E roots).cells :=
    valueCollection_keeps P E roots true hw hc halloc (Reach_mono hSE hr)
  have hw' : WF (h.collect P E roots) := WF_valueCollection P hP E roots true hw
  exact ⟨hk, by rw [Heap.read, Heap.read, readCell_of_mem hw'.nodup hk, readCell_of_mem hw.nodup hc]⟩

/-- … and the same for whatever the allocation-time policy decides to run (nothing, minor, minor + full). -/
theorem policy_collection_preserves (S E : Edges) (hSE : EdgesCover S E) (P : Params) (h : Heap) (hw : WF h)
    (roots : List Val) (force : Bool) (c : Cell) (hc : c ∈ h.cells) (halloc : c.reachable = true)
    (hr : Reach S h.cells roots c.addr) : c ∈ (h.valueCollection P E roots force).cells :=
  valueCollection_keeps P E roots force hw hc halloc (Reach_mono hSE hr)

/-- **alloc_fresh.**  The slot that `allocate` hands out was free (not allocated) before; every other cell is
left as it was; the new cell holds the value. -/
theorem alloc_fresh (P : Params) (hP : 0 < P.chunk) (h : Heap) (hw : WF h) (v : Val) :
    (∃ c ∈ h.cells, c.addr = (h.allocate P v).2 ∧ c.reachable = false) ∧
    (∀ c ∈ h.cells, c.addr ≠ (h.allocate P v).2 → c ∈ (h.allocate P v).1.cells) ∧
    (h.allocate P v).1.read (h.allocate P v).2 = some v := by
  have hs := allocate_spec P hP hw v
  refine ⟨hs.wasFree, hs.others, ?_⟩
  rw [Heap.read, show (h.allocate P v).2 = ({ addr := (h.allocate P v).2, reachable := true, value := v } : Cell).addr from rfl,
    readCell_of_mem hs.wf.nodup hs.filled]
  rfl

/-- In a state where the heap agrees with the abstract store, the slot handed out is not reachable. -/
theorem alloc_fresh_unreachable (S : Edges) (P : Params) (hP : 0 < P.chunk) (s : MState) (hI : Inv S s) (v : Val)
    (o : Oid) : ¬ ReachS S s.store s.roots (s.heap.allocate P v).2 o := by
  intro hr
  obtain ⟨c, hc, hca, hcr, _, _⟩ := hI.sim _ _ hr
  obtain ⟨c0, hc0, hc0a, hc0r⟩ := (allocate_spec P hP hI.wf v).wasFree
  have : c = c0 := addr_inj hI.wf.nodup hc hc0 (hca.trans hc0a.symm)
  rw [this, hc0r] at hcr
  cases hcr

/-- **weak_collect_safe.**  The minor collection does not touch a slot to which a handle exists — in a root or
temporary (`ext`) or inside the contents of any slot, live or dead. -/
theorem weak_collect_safe (h : Heap) (ext : Addr → Bool) (c : Cell) (hc : c ∈ h.cells)
    (hheld : ext c.addr = true ∨ ∃ d ∈ h.cells, d.value.occurs c.addr = true) :
    c ∈ (h.weakCollect ext).cells := by
  refine weakCollect_keeps ext hc ?_
  rcases hheld with h1 | ⟨d, hd, hocc⟩
  · exact Or.inl h1
  · right
    simp only [heldInCells, List.any_eq_true]
    exact ⟨d, hd, hocc⟩

/-- … in particular not a reachable one. -/
theorem weak_collect_keeps_reachable (S : Edges) (h : Heap) (roots : List Val) (c : Cell) (hc : c ∈ h.cells)
    (hr : Reach S h.cells roots c.addr) : c ∈ (h.weakCollect (extOf roots)).cells :=
  weakCollect_keeps _ hc (Reach_held hr)

/-- **gc_transparent.**  Take any list of operations — allocations, writes, reads, pushing and dropping
roots — with minor and full collections inserted at ANY positions (they are operations of the list, so the
statement quantifies over every schedule, including one at every step; allocations additionally run the
collector's own 95 % policy).  If the program only uses handles it can reach, then every read returns exactly
what the abstract store returns, which no collection ever touches and in which every object has a fresh name. -/
theorem gc_transparent (S E : Edges) (hSE : EdgesCover S E) (P : Params) (hP : 0 < P.chunk) (hI : 0 < P.init)
    (ops : List Op) (hv : ValidRun P E S (MState.init P) ops) :
    ∀ ob ∈ (run P E (MState.init P) ops).2, ob.1 = ob.2 :=
  (run_inv hSE P hP ops (MState.init P) (Inv_init S P hI) hv).2

/-- The same from any state in which heap and store agree (e.g. in the middle of a program). -/
theorem gc_transparent_from (S E : Edges) (hSE : EdgesCover S E) (P : Params) (hP : 0 < P.chunk) (s : MState)
    (hs : Inv S s) (ops : List Op) (hv : ValidRun P E S s ops) :
    Inv S (run P E s ops).1 ∧ ∀ ob ∈ (run P E s ops).2, ob.1 = ob.2 :=
  run_inv hSE P hP ops s hs hv

/-! ### Non-vacuity -/

/-- All fields of all kinds. -/
def allEdges : Edges := fun _ => List.range 8

/-- A cyclic heap: slot 10 holds a list containing a handle to slot 11, slot 11 a handle back to 10;
slot 12 is garbage that points into the cycle. -/
def demoCells : List Cell :=
  [ { addr := 10, reachable := true, value := .node 23 [(0, .atom 1), (0, .ref 11 1)] },
    { addr := 11, reachable := true, value := .ref 10 0 },
    { addr := 12, reachable := true, value := .ref 10 0 } ]

def demoRoots : List Val := [.node 24 [(0, .ref 10 0), (1, .atom 5)]]

example : Reach allEdges demoCells demoRoots 11 := by
  have h10 : Reach allEdges demoCells demoRoots 10 :=
    Reach.root List.mem_cons_self (Inside.child List.mem_cons_self (by decide) (Inside.here _))
  exact Reach.cell h10 (c := { addr := 10, reachable := true, value := .node 23 [(0, .atom 1), (0, .ref 11 1)] })
    List.mem_cons_self rfl (Inside.child (List.mem_cons_of_mem _ List.mem_cons_self) (by decide) (Inside.here _))

/-- The marker marks the cycle and not the garbage, and counts two slots. -/
example :
    ((markLoop allEdges (markAll demoCells) demoRoots 0).1.map (·.reachable),
     (markLoop allEdges (markAll demoCells) demoRoots 0).2) = ([true, true, false], 2) := by
  rw [show demoRoots = [.node 24 [(0, .ref 10 0), (1, .atom 5)]] from rfl, markLoop_node,
    show kids allEdges (.node 24 [(0, .ref 10 0), (1, .atom 5)]) ++ [] = [.ref 10 0, .atom 5] from rfl,
    markLoop_ref_unmarked allEdges 0 _ _ (c := ⟨10, false, .node 23 [(0, .atom 1), (0, .ref 11 1)]⟩) rfl rfl,
    markLoop_node,
    show kids allEdges (.node 23 [(0, .atom 1), (0, .ref 11 1)]) ++ [Val.atom 5] = [.atom 1, .ref 11 1, .atom 5]
      from rfl,
    markLoop_atom,
    markLoop_ref_unmarked allEdges 1 _ _ (c := ⟨11, false, .ref 10 0⟩) rfl rfl,
    markLoop_ref_marked allEdges 0 _ _ (c := ⟨10, true, .node 23 [(0, .atom 1), (0, .ref 11 1)]⟩) rfl rfl,
    markLoop_atom, markLoop_nil]
  rfl

/-- A run with collections between the steps: allocate `a`; collect; allocate `b` holding `a`'s handle; minor
collection; drop `a`'s own root; collect; write through the handle; collect; read.  The hypotheses of
`gc_transparent` are satisfiable for it: here is the state after the first allocation, and the handle is
reachable in it. -/
def demoP : Params := { chunk := 4, init := 2, resetLimit := 2 }

example : (step demoP allEdges (MState.init demoP) (.alloc (.atom 7))).1.roots = [.ref 0 0] := by
  simp [step, Heap.allocateGC, Heap.valueCollection, Heap.over95, MState.init, Heap.new, Heap.growBy, demoP,
    freshCells, Heap.allocate, List.range, List.range.loop]

example : ValidRun demoP allEdges allEdges (MState.init demoP) [.alloc (.atom 7), .gcMinor] := by
  refine ⟨?_, trivial, trivial⟩
  intro b p h
  cases Inside_atom h

/-! ## Part 2 — the tables: the marker follows every field that can hold a value -/

open Gen

/-- **Specification of the edges**, written from the type definitions (`rvals.rs`, `values/functions.rs`,
`values/structs.rs`, `values/lazy_stream.rs`, `values/transducers.rs`, `steel_vm/vm.rs`): for each variant of
`SteelVal`, the fields that can hold other `SteelVal`s, in the token language of the translator. -/
def edgesSpecTable : List (String × List String) := [
  ("Closure", ["$.captures[]", "$.get_contract_information"]),      -- ByteCodeLambda{captures, contract}
  ("VectorV", ["$[]"]),
  ("Custom", ["visit_children($)"]),                                -- dyn CustomType: delegated to the type
  ("HashMapV", ["$[].key", "$[].value"]),
  ("HashSetV", ["$[]"]),
  ("CustomStruct", ["$.fields[]"]),                                 -- UserDefinedStruct{fields}
  ("IterV", ["Map", "Filter", "Take", "Drop", "FlatMap", "Window", "TakeWhile", "DropWhile", "Extend",
             "Zipping", "Interleaving", "MapPair"]),                -- Transducers::*(SteelVal)
  ("ReducerV", ["ForEach", "Generic.initial_value", "Generic.function"]),
  ("StreamV", ["$.initial_value", "$.stream_thunk"]),
  ("ContinuationFunction",
    ["Closed.stack[]", "Closed.current_frame.function.captures[]", "Closed.stack_frames[].function.captures[]",
     "Closed.stack_frames[].attachments.handler", "Closed.current_frame.attachments.handler",
     "Open.current_stack_values[]", "Open.current_frame.function.captures[]",
     "Open.current_frame.attachments.handler"]),
  ("ListV", ["$[]"]),
  ("Pair", ["$.car", "$.cdr"]),
  ("MutableVector", ["slot($)"]),
  ("BoxedIterator", ["$.root"]),
  ("SyntaxObject", ["$.raw", "$.syntax"]),
  ("Boxed", ["$"]),
  ("HeapAllocated", ["slot($)"])]

/-- Variants that cannot hold a script value (numbers, text, ports, function pointers) or whose contents are
opaque host data (`BoxedFunction`: a Rust closure, `FutureV`, `Reference`: a borrowed host object). -/
def atomKinds : List String :=
  ["BoolV", "NumV", "IntV", "Rational", "CharV", "Void", "StringV", "FuncV", "SymbolV", "PortV", "FutureFunc",
   "FutureV", "BoxedFunction", "MutFunc", "BuiltIn", "Reference", "BigNum", "BigRational", "Complex", "ByteVector"]

/-- Fields whose coverage is NOT established by the traversal tables but by an argument about the VM that
is outside this model (the explicit hypothesis of the `_partial` theorems):
* `ContinuationMark::Open(..)` is not traversed.  An open mark is created by `call/cc` on the frame of the
  receiver lambda and is closed (`close_marks`) when that frame is popped or unwound; while it is open the
  captured region `stack[offset..]` belongs to the suspended caller and is still on the thread's operand stack,
  and `current_frame` is still in `stack_frames` — both are roots of every collection.
* `ClosedContinuation.current_frame` is `stack_frames.last().cloned()` (`new_closed_continuation_from_state`),
  whose handler is pushed with `stack_frames[]`; otherwise it is the thread's handler-free main frame. -/
def assumedCovered : List (String × List String) := [
  ("ContinuationFunction",
    ["Closed.current_frame.attachments.handler", "Open.current_stack_values[]",
     "Open.current_frame.function.captures[]", "Open.current_frame.attachments.handler"])]

def lookupT (t : List (String × List String)) (k : String) : List String :=
  match t.find? (·.1 == k) with
  | some p => p.2
  | none => []

def lookupS (t : List (String × String)) (k : String) : String :=
  match t.find? (·.1 == k) with
  | some p => p.2
  | none => ""

/-- What the sequential copy of the traversal (`MarkAndSweepContext`) follows for a variant. -/
def implTokensA (v : String) : List String :=
  if leafA.contains v then [] else lookupT edgesA (lookupS dispatchA v)

/-- What the parallel copy (`MarkAndSweepContextRefQueue`) follows for a variant. -/
def implTokensB (v : String) : List String :=
  if leafB.contains v || !pointerVariants.contains v then [] else lookupT edgesB (lookupS dispatchB v)

def specTokens (v : String) : List String := lookupT edgesSpecTable v
def assumedTokens (v : String) : List String := lookupT assumedCovered v

/-- Every variant of `SteelVal` is classified: it has an entry in the specification table or is an atom. -/
theorem kinds_classified :
    ∀ v ∈ steelValVariants, (edgesSpecTable.map (·.1)).contains v || atomKinds.contains v := by decide

theorem spec_kinds_exist : ∀ v ∈ edgesSpecTable.map (·.1), steelValVariants.contains v := by decide

/-- **edges_complete (partial), sequential copy**: every value-holding field of every kind is pushed by the
`visit_*` method the kind is dispatched to — except the fields listed in `assumedCovered`. -/
theorem edges_complete_A_partial :
    ∀ v ∈ steelValVariants, ∀ t ∈ specTokens v, (assumedTokens v).contains t || (implTokensA v).contains t := by
  decide

/-- **edges_complete (partial), parallel copy.** -/
theorem edges_complete_B_partial :
    ∀ v ∈ steelValVariants, ∀ t ∈ specTokens v, (assumedTokens v).contains t || (implTokensB v).contains t := by
  decide

/-- The full statement does NOT hold of the code that exists: the open continuation mark is not traversed. -/
theorem edges_complete_A_fails :
    ¬ ∀ v ∈ steelValVariants, ∀ t ∈ specTokens v, (implTokensA v).contains t := by decide

theorem edges_complete_B_fails :
    ¬ ∀ v ∈ steelValVariants, ∀ t ∈ specTokens v, (implTokensB v).contains t := by decide

/-- The leaf kinds of both `push_back`s hold no values. -/
theorem leaf_kinds_have_no_children : ∀ v ∈ leafA ++ leafB, specTokens v = [] := by decide

/-- Marking a slot pushes its contents (`mark_heap_reference`, `mark_heap_vector`), in both copies. -/
theorem slot_pushes_contents :
    lookupT slotA "mark_heap_reference" = ["$.value"] ∧ lookupT slotA "mark_heap_vector" = ["$.value[]"] ∧
    lookupT slotB "mark_heap_reference" = ["$.value"] ∧ lookupT slotB "mark_heap_vector" = ["$.value[]"] := by
  decide

/-- **Specification of the roots** of a collection started by a thread. -/
def rootsSpec : List String :=
  ["root_value",                    -- the value being allocated
   "root_vector[]",                 -- the elements of the vector being allocated
   "roots[]",                       -- operand stack: live variables, pending arguments, temporaries
   "function_stack[].captures[]",   -- captures of every frame's function (and handler, see `liveSpec`)
   "globals[]", "tls[]",
   "GLOBAL_ROOTS.roots[]",          -- rooted host values
   "enumerate_stacks",              -- the other threads (see `rootsOtherThreadSpec`)
   "MARKER.mark(queue)",            -- the pushed roots are handed to the marker …
   "queue.clear"]                   -- … and dropped afterwards (K19a)

def rootsOtherThreadSpec : List String :=
  ["thread.stack[]", "thread.stack_frames[].function.captures[]", "thread.stack_frames[].attachments.handler",
   "thread.current_frame.function.captures[]", "thread.thread_local_storage[]"]

def liveSpec : List String := ["frame.function", "frame.attachments.handler"]   -- K04a

/-- What every call of `Heap::allocate* / collection` must pass. -/
def siteSpec : List String :=
  ["&thread.stack", "live_functions(&thread.stack_frames)", "thread.global_env.roots()", "&thread.thread_local_storage"]

/-- **roots_complete.** -/
theorem roots_complete :
    (∀ r ∈ rootsSpec, rootsMark.contains r) ∧
    (∀ r ∈ rootsOtherThreadSpec, rootsEnumerate.contains r) ∧
    (∀ r ∈ liveSpec, liveFunctions.contains r) ∧
    (∀ s ∈ allocSites, ∀ r ∈ siteSpec, s.2.contains r) := by decide

/-! ### The model instantiated with the tables -/

def kindIndex (v : String) : Nat := (steelValVariants.findIdx? (· == v)).getD steelValVariants.length
def kindName (k : Kind) : String := steelValVariants.getD k ""

/-- Field `f` of kind `k` is the `f`-th token of the specification table. -/
def specEdges : Edges := fun k => List.range (specTokens (kindName k)).length

/-- … without the fields whose coverage is assumed. -/
def specEdgesProved : Edges := fun k =>
  (List.range (specTokens (kindName k)).length).filter fun f =>
    !(assumedTokens (kindName k)).contains ((specTokens (kindName k)).getD f "")

def implEdges (impl : String → List String) : Edges := fun k =>
  (List.range (specTokens (kindName k)).length).filter fun f =>
    (impl (kindName k)).contains ((specTokens (kindName k)).getD f "")

/-- A marker that follows, at every step, only what BOTH copies follow (the real one uses one copy or the
other for each value, i.e. follows at least this). -/
def implEdgesBoth : Edges := fun k => (implEdges implTokensA k).filter fun f => (implEdges implTokensB k).contains f

theorem edges_cover_bounded :
    ∀ k, k < steelValVariants.length → ∀ f ∈ specEdgesProved k, (implEdgesBoth k).contains f := by decide

theorem edges_cover_proved : EdgesCover specEdgesProved implEdgesBoth := by
  intro k f hf
  by_cases hk : k < steelValVariants.length
  · have := edges_cover_bounded k hk f hf
    simpa using this
  · have hn : kindName k = "" := by
      simp only [kindName, List.getD_eq_getElem?_getD]
      rw [List.getElem?_eq_none (by omega)]
      rfl
    have he : specEdgesProved k = [] := by
      simp only [specEdgesProved, hn]
      rfl
    rw [he] at hf
    cases hf

/-- **mark_sound for the marker that exists**: every slot reachable through the fields whose traversal is
established from the source is marked, whichever copy of the traversal handles each value. -/
theorem mark_sound_tables (cs : List Cell) (roots : List Val) (hnd : AddrNodup cs) (a : Addr)
    (hr : Reach specEdgesProved cs roots a) :
    ∀ d ∈ (markLoop implEdgesBoth (markAll cs) roots 0).1, d.addr = a → d.reachable = true :=
  mark_sound specEdgesProved implEdgesBoth edges_cover_proved cs roots hnd a hr

/-- **mark_sound, full specification, partial**: under the explicit hypothesis that whatever is reachable
through an open continuation mark (or a closed mark's `current_frame` handler) is also reachable without it
(`assumedCovered`: those values are still on the operand stack / frame list, which are roots). -/
theorem mark_sound_full_partial (cs : List Cell) (roots : List Val) (hnd : AddrNodup cs)
    (hOpen : ∀ a, Reach specEdges cs roots a → Reach specEdgesProved cs roots a)
    (a : Addr) (hr : Reach specEdges cs roots a) :
    ∀ d ∈ (markLoop implEdgesBoth (markAll cs) roots 0).1, d.addr = a → d.reachable = true :=
  mark_sound_tables cs roots hnd a (hOpen a hr)

/-- **gc_transparent for the marker that exists.** -/
theorem gc_transparent_tables (P : Params) (hP : 0 < P.chunk) (hI : 0 < P.init) (ops : List Op)
    (hv : ValidRun P implEdgesBoth specEdgesProved (MState.init P) ops) :
    ∀ ob ∈ (run P implEdgesBoth (MState.init P) ops).2, ob.1 = ob.2 :=
  gc_transparent specEdgesProved implEdgesBoth edges_cover_proved P hP hI ops hv

end SteelVerif.C04
