/-
C05 — `Extra` is preserved, part A: operations started on an idle thread, and the steps that leave
the shared word alone.
-/
import SteelVerif.C05.Live
namespace SteelVerif.C05
set_option linter.unusedSimpArgs false
set_option linter.unusedVariables false

/-- Closes the arithmetic side conditions of `Extra.frame_put`. -/
macro "xarith " h:ident : tactic =>
  `(tactic| (intro _; first
      | omega
      | (simp [$h:ident, PC.pend, Ret.pend]; done)
      | (simp [$h:ident, PC.pend, Ret.pend]; omega)
      | (simp [$h:ident, PC.pend, Ret.pend] at *; omega)))

theorem xcase_spawn {s : State} {t : Tid} (h : Inv s) (x : Extra s) :
    ∀ s' o, step s t .spawn = some (s', o) → Extra s' := by
  intro s' o hs
  simp only [step] at hs
  split at hs
  · cases hs
    refine x.frame (fun a => a) rfl (fun _ z => z) (fun _ => Nat.le_refl _) ?_
    rintro ⟨u, tu, hu, fu⟩
    have hlt : u < s.threads.length := by
      rcases Nat.lt_or_ge u s.threads.length with h1 | h1
      · exact h1
      · simp [List.getElem?_eq_none h1] at hu
    refine ⟨u, tu, ?_, fu⟩
    show (s.threads ++ [({} : Thread)])[u]? = some tu
    rw [List.getElem?_append_left hlt]; exact hu
  · cases hs

theorem xcase_unique {s : State} {t : Tid} {th : Thread} (h : Inv s) (x : Extra s)
    (hth : s.threads[t]? = some th) (hpc : th.pc = .idle) :
    ∀ s' o, step s t .unique = some (s', o) → Extra s' := by
  intro s' o hs
  simp only [step, hth, hpc] at hs
  split at hs
  · cases hs
  · simp only [park, Option.some.injEq, Prod.mk.injEq] at hs
    obtain ⟨rfl, _⟩ := hs
    exact x.frame_put h hth ⟨rfl, rfl, rfl, rfl, rfl⟩ rfl rfl (by xarith hpc) (by xarith hpc)
      (by simp [hpc, isFree])

theorem xcase_unwrap {s : State} {t : Tid} {th : Thread} (h : Inv s) (x : Extra s)
    (hth : s.threads[t]? = some th) (hpc : th.pc = .idle) :
    ∀ s' o, step s t .unwrap = some (s', o) → Extra s' := by
  intro s' o hs
  simp only [step, hth, hpc] at hs
  split at hs
  · cases hs
  · simp only [park, Option.some.injEq, Prod.mk.injEq] at hs
    obtain ⟨rfl, _⟩ := hs
    exact x.frame_put h hth ⟨rfl, rfl, rfl, rfl, rfl⟩ rfl rfl (by xarith hpc) (by xarith hpc)
      (by simp [hpc, isFree])

theorem xcase_count {s : State} {t : Tid} {th : Thread} (h : Inv s) (x : Extra s)
    (hth : s.threads[t]? = some th) (hpc : th.pc = .idle) :
    ∀ s' o, step s t .count = some (s', o) → Extra s' := by
  intro s' o hs
  simp only [step, hth, hpc] at hs
  split at hs
  · cases hs
  · rename_i hh
    have hal := alive_of_held h hth hh
    simp only [finish, touch_eq hal.2, Option.some.injEq, Prod.mk.injEq] at hs
    obtain ⟨rfl, _⟩ := hs
    exact x.frame_put h hth ⟨rfl, rfl, rfl, rfl, rfl⟩ rfl rfl (by xarith hpc) (by xarith hpc)
      (by simp [hpc, isFree])

theorem xcase_register {s : State} {t : Tid} {th : Thread} (h : Inv s) (x : Extra s)
    (hth : s.threads[t]? = some th) (hpc : th.pc = .idle) :
    ∀ s' o, step s t .register = some (s', o) → Extra s' := by
  intro s' o hs
  simp only [step, hth, hpc] at hs
  split at hs
  · cases hs
  · simp only [finish, Option.some.injEq, Prod.mk.injEq] at hs
    obtain ⟨rfl, _⟩ := hs
    exact x.frame_put h hth ⟨rfl, rfl, rfl, rfl, rfl⟩ rfl rfl (by xarith hpc) (by xarith hpc)
      (by simp [hpc, isFree])

theorem xcase_clone {s : State} {t : Tid} {th : Thread} (h : Inv s) (x : Extra s)
    (hth : s.threads[t]? = some th) (hpc : th.pc = .idle) :
    ∀ s' o, step s t .clone = some (s', o) → Extra s' := by
  intro s' o hs
  simp only [step, hth, hpc] at hs
  split at hs
  · cases hs
  · rename_i hh
    have hal := alive_of_held h hth hh
    simp only [touch_eq hal.2] at hs
    split at hs
    · simp only [finish, Option.some.injEq, Prod.mk.injEq] at hs
      obtain ⟨rfl, _⟩ := hs
      exact x.frame_put (s1 := { s with biased := s.biased + 1 }) h hth ⟨rfl, rfl, rfl, rfl, rfl⟩ rfl rfl
        (by xarith hpc) (by xarith hpc) (by simp [hpc, isFree])
    · simp only [park, Option.some.injEq, Prod.mk.injEq] at hs
      obtain ⟨rfl, _⟩ := hs
      exact x.frame_put h hth ⟨rfl, rfl, rfl, rfl, rfl⟩ rfl rfl (by xarith hpc) (by xarith hpc)
        (by simp [hpc, isFree])

theorem xcase_drop {s : State} {t : Tid} {th : Thread} (h : Inv s) (x : Extra s)
    (hth : s.threads[t]? = some th) (hpc : th.pc = .idle) :
    ∀ s' o, step s t .drop = some (s', o) → Extra s' := by
  intro s' o hs
  simp only [step, hth, hpc] at hs
  split at hs
  · cases hs
  · rename_i hh
    have hal := alive_of_held h hth hh
    simp only [touch_eq hal.2] at hs
    split at hs
    · -- fast_decrement: the owner is idle, so the object is not merged
      rename_i ho
      obtain ⟨hm, hb⟩ := owner_plain h hth ho (by rw [hpc]; rfl) (by rw [hpc]; rfl)
      simp only [hb, if_false] at hs
      split at hs
      · simp only [finish, Option.some.injEq, Prod.mk.injEq] at hs
        obtain ⟨rfl, _⟩ := hs
        exact x.frame_put (s1 := { s with biased := s.biased - 1 }) h hth ⟨rfl, rfl, rfl, rfl, rfl⟩ rfl rfl
          (fun m => by rw [hm] at m; cases m) (by xarith hpc) (by simp [hpc, isFree])
      · simp only [park, Option.some.injEq, Prod.mk.injEq] at hs
        obtain ⟨rfl, _⟩ := hs
        exact x.frame_put (s1 := { s with biased := s.biased - 1 }) h hth ⟨rfl, rfl, rfl, rfl, rfl⟩ rfl rfl
          (fun m => by rw [hm] at m; cases m) (by xarith hpc) (by simp [hpc, isFree])
    · simp only [park, Option.some.injEq, Prod.mk.injEq] at hs
      obtain ⟨rfl, _⟩ := hs
      exact x.frame_put h hth ⟨rfl, rfl, rfl, rfl, rfl⟩ rfl rfl (by xarith hpc) (by xarith hpc)
        (by simp [hpc, isFree])

theorem xcase_new {s : State} {t : Tid} {th : Thread} (h : Inv s) (x : Extra s)
    (hth : s.threads[t]? = some th) (hpc : th.pc = .idle) :
    ∀ s' o, step s t .new = some (s', o) → Extra s' := by
  intro s' o hs
  simp only [step, hth, hpc] at hs
  split at hs
  · cases hs
  · simp only [finish, Option.some.injEq, Prod.mk.injEq] at hs
    obtain ⟨rfl, _⟩ := hs
    refine ⟨fun _ m => ?_, fun _ _ _ => ?_, fun _ _ q => ?_⟩
    · simp at m
    · simp
    · simp at q

theorem xcase_move {s : State} {t : Tid} {th : Thread} (h : Inv s) (x : Extra s)
    (hth : s.threads[t]? = some th) (hpc : th.pc = .idle) (u : Tid) :
    ∀ s' o, step s t (.move u) = some (s', o) → Extra s' := by
  intro s' o hs
  simp only [step, hth, hpc] at hs
  split at hs
  · cases hs
  · rename_i hh
    have hh' : th.held ≠ 0 ∧ u ≠ t := ⟨fun hx => hh (Or.inl hx), fun hx => hh (Or.inr hx)⟩
    split at hs
    · cases hs
    · rename_i tu htu
      split at hs
      · cases hs
      · rename_i hpcu
        have hpcu : tu.pc = .idle := by simpa using hpcu
        simp only [Option.some.injEq, Prod.mk.injEq] at hs
        obtain ⟨rfl, _⟩ := hs
        have b := h.bnd hth
        have bu := h.bnd htu
        have b2 := h.bnd2 (Ne.symm hh'.2) hth htu
        have htu1 : ∀ y, (s.put t th y).threads[u]? = some tu := by
          intro y; rw [put_get_other hh'.2]; exact htu
        refine x.frame (by simp) (by simp) ?_ ?_ ?_
        · intro _
          simp only [State.total, put_gH, put_gT, put_gQ]; omega
        · intro _
          simp only [put_gQ, put_gP, hpc, hpcu, PC.pend]; omega
        · intro f
          exact Freeing.put rfl (htu1 _) (by simp [hpcu, isFree])
            (Freeing.put (s1 := s) rfl hth (by simp [hpc, isFree]) f)

theorem xcase_merge {s : State} {t : Tid} {th : Thread} (h : Inv s) (x : Extra s)
    (hth : s.threads[t]? = some th) (hpc : th.pc = .idle) :
    ∀ s' o, step s t .merge = some (s', o) → Extra s' := by
  intro s' o hs
  simp only [step, hth, hpc] at hs
  split at hs
  · cases hs
  · split at hs
    · rename_i hn
      simp only [finish, Option.some.injEq, Prod.mk.injEq] at hs
      obtain ⟨rfl, _⟩ := hs
      exact x.frame_put h hth ⟨rfl, rfl, rfl, rfl, rfl⟩ rfl rfl (by xarith hpc) (by xarith hpc)
        (by simp [hpc, isFree])
    · rename_i k hn
      simp only [park, Option.some.injEq, Prod.mk.injEq] at hs
      obtain ⟨rfl, _⟩ := hs
      exact x.frame_put (s1 := { s with lock := some t }) h hth ⟨rfl, rfl, rfl, rfl, rfl⟩ rfl rfl
        (by xarith hpc) (by xarith hpc) (by simp [hpc, isFree])

theorem xcase_exit {s : State} {t : Tid} {th : Thread} (h : Inv s) (x : Extra s)
    (hth : s.threads[t]? = some th) (hpc : th.pc = .idle) :
    ∀ s' o, step s t .exit = some (s', o) → Extra s' := by
  intro s' o hs
  simp only [step, hth, hpc] at hs
  split at hs
  · cases hs
  · split at hs
    · rename_i hn
      simp only [finish, Option.some.injEq, Prod.mk.injEq] at hs
      obtain ⟨rfl, _⟩ := hs
      exact x.frame_put h hth ⟨rfl, rfl, rfl, rfl, rfl⟩ rfl rfl (by xarith hpc) (by xarith hpc)
        (by simp [hpc, isFree])
    · rename_i k hn
      simp only [park, Option.some.injEq, Prod.mk.injEq] at hs
      obtain ⟨rfl, _⟩ := hs
      exact x.frame_put h hth ⟨rfl, rfl, rfl, rfl, rfl⟩ rfl rfl
        (by xarith hpc) (by xarith hpc) (by simp [hpc, isFree])

/-! ## Steps of a parked thread that leave the shared word alone -/

/-- The thread only moves to another pc with the same number of pending entries. -/
theorem xpark {s : State} {t : Tid} {th : Thread} (h : Inv s) (x : Extra s)
    (hth : s.threads[t]? = some th) (pc' : PC) (sh : Nat) (hp : th.pc.pend ≤ pc'.pend)
    (hf : isFree th.pc = false) : Extra (s.put t th { th with pc := pc', shown := sh }) :=
  x.frame_put h hth ⟨rfl, rfl, rfl, rfl, rfl⟩ rfl rfl (fun _ => Nat.le_refl _)
    (fun _ => by simpa using hp) (by simp [hf])

theorem xcase_load {s : State} {t : Tid} {th : Thread} (h : Inv s) (x : Extra s)
    (hth : s.threads[t]? = some th)
    (hpc : th.pc = .incLoad ∨ (∃ r, th.pc = .dfLoad r) ∨ (∃ r, th.pc = .dsLoad r) ∨
      (∃ a b c, th.pc = .mgLoad a b c) ∨ th.pc = .uwLoadNone) :
    ∀ s' o, step s t .step = some (s', o) → Extra s' := by
  intro s' o hs
  have hal : s.alive = true := by
    refine (alive_of_pc h hth ?_).2
    rcases hpc with e | ⟨_, e⟩ | ⟨_, e⟩ | ⟨_, _, _, e⟩ | e <;> rw [e] <;> simp
  rcases hpc with hpc | ⟨r, hpc⟩ | ⟨r, hpc⟩ | ⟨a, b, c, hpc⟩ | hpc
  all_goals
    simp only [step, hth, hpc, touch_eq hal, park, Option.some.injEq, Prod.mk.injEq] at hs
    obtain ⟨rfl, _⟩ := hs
    exact xpark h x hth _ th.shown (by simp [hpc, PC.pend]) (by simp [hpc, isFree])

theorem xcase_setNone {s : State} {t : Tid} {th : Thread} (h : Inv s) (x : Extra s)
    (hth : s.threads[t]? = some th)
    (hpc : (∃ r, th.pc = .dfSetNone r) ∨ (∃ a b c, th.pc = .mgSetNone a b c)) :
    ∀ s' o, step s t .step = some (s', o) → Extra s' := by
  intro s' o hs
  have hal : s.alive = true := by
    refine (alive_of_pc h hth ?_).2
    rcases hpc with ⟨_, e⟩ | ⟨_, _, _, e⟩ <;> rw [e] <;> simp
  rcases hpc with ⟨r, hpc⟩ | ⟨a, b, c, hpc⟩
  all_goals
    simp only [step, hth, hpc, touch_eq hal, park, Option.some.injEq, Prod.mk.injEq] at hs
    obtain ⟨rfl, _⟩ := hs
    exact x.frame_put (s1 := { s with owner := none }) h hth ⟨rfl, rfl, rfl, rfl, rfl⟩ rfl rfl
      (by xarith hpc) (by xarith hpc) (by simp [hpc, isFree])

theorem xcase_owner {s : State} {t : Tid} {th : Thread} (h : Inv s) (x : Extra s)
    (hth : s.threads[t]? = some th) (hpc : th.pc = .uqOwner ∨ th.pc = .uwOwner) :
    ∀ s' o, step s t .step = some (s', o) → Extra s' := by
  intro s' o hs
  have hal : s.alive = true := by
    refine (alive_of_pc h hth ?_).2
    rcases hpc with e | e <;> rw [e] <;> simp
  rcases hpc with hpc | hpc
  all_goals
    simp only [step, hth, hpc, touch_eq hal] at hs
    split at hs
    · simp only [park, Option.some.injEq, Prod.mk.injEq] at hs
      obtain ⟨rfl, _⟩ := hs
      exact xpark h x hth _ th.shown (by simp [hpc, PC.pend]) (by simp [hpc, isFree])
    · split at hs
      · split at hs
        · simp only [park, Option.some.injEq, Prod.mk.injEq] at hs
          obtain ⟨rfl, _⟩ := hs
          exact xpark h x hth _ th.shown (by simp [hpc, PC.pend]) (by simp [hpc, isFree])
        · simp only [finish, Option.some.injEq, Prod.mk.injEq] at hs
          obtain ⟨rfl, _⟩ := hs
          exact xpark h x hth _ th.held (by simp [hpc, PC.pend]) (by simp [hpc, isFree])
      · simp only [finish, Option.some.injEq, Prod.mk.injEq] at hs
        obtain ⟨rfl, _⟩ := hs
        exact xpark h x hth _ th.held (by simp [hpc, PC.pend]) (by simp [hpc, isFree])

theorem xcase_uqLoad {s : State} {t : Tid} {th : Thread} (h : Inv s) (x : Extra s)
    (hth : s.threads[t]? = some th) (hpc : th.pc = .uqLoadNone ∨ th.pc = .uqLoadOwn) :
    ∀ s' o, step s t .step = some (s', o) → Extra s' := by
  intro s' o hs
  have hal : s.alive = true := by
    refine (alive_of_pc h hth ?_).2
    rcases hpc with e | e <;> rw [e] <;> simp
  rcases hpc with hpc | hpc
  all_goals
    simp only [step, hth, hpc, touch_eq hal, finish, Option.some.injEq, Prod.mk.injEq] at hs
    obtain ⟨rfl, _⟩ := hs
    split
    · exact x.frame_put (s1 := { s with badUnique := true }) h hth ⟨rfl, rfl, rfl, rfl, rfl⟩ rfl rfl
        (by xarith hpc) (by xarith hpc) (by simp [hpc, isFree])
    · exact xpark h x hth _ th.held (by simp [hpc, PC.pend]) (by simp [hpc, isFree])

theorem xcase_uwLoadOwn {s : State} {t : Tid} {th : Thread} (h : Inv s) (x : Extra s)
    (hth : s.threads[t]? = some th) (hpc : th.pc = .uwLoadOwn) :
    ∀ s' o, step s t .step = some (s', o) → Extra s' := by
  intro s' o hs
  have hal := alive_of_pc h hth (by rw [hpc]; simp)
  simp only [step, hth, hpc, touch_eq hal.2] at hs
  split at hs
  · simp only [finish, Option.some.injEq, Prod.mk.injEq] at hs
    obtain ⟨rfl, _⟩ := hs
    exact xpark h x hth _ th.held (by simp [hpc, PC.pend]) (by simp [hpc, isFree])
  · simp only [park, Option.some.injEq, Prod.mk.injEq] at hs
    obtain ⟨rfl, _⟩ := hs
    exact xpark h x hth _ th.shown (by simp [hpc, PC.pend]) (by simp [hpc, isFree])

end SteelVerif.C05
