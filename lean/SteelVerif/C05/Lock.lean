/-
C05 — the dashmap guard of `run_explicit_merge` (model field `lock`): who holds it, and that nobody
waits for it.  `LockInv` says that the guard is held exactly by the thread that is inside
`run_explicit_merge`, and that while it is held no thread is parked at `enqueue` (the only place that
needs the guard): with one object, a queue entry in the hands of a merging thread and a reference on
its way into the queue exclude each other (`Inv.ent`).  Frame lemmas; the steps are in LockStep.lean.
-/
import SteelVerif.C05.LiveStepB
namespace SteelVerif.C05
set_option linter.unusedSimpArgs false
set_option linter.unusedVariables false

/-- The continuation belongs to `run_explicit_merge` (which holds the guard). -/
def Ret.isLk : Ret → Bool
  | .merge _ _ lk => lk
  | .op => false

/-- The thread is inside `run_explicit_merge`. -/
def lkpc : PC → Bool
  | .mgLoad _ _ lk | .mgCas _ _ lk _ | .mgSetNone _ _ lk => lk
  | .dsLoad r | .dsCas r _ | .free r | .enq r => r.isLk
  | _ => false

def isEnq : PC → Bool
  | .enq _ => true
  | _ => false

/-- A fast decrement that is part of a merge: does not exist (`fast_decrement` is only entered from `drop`). -/
def dfMerge : PC → Bool
  | .dfLoad r | .dfCas r _ | .dfSetNone r => r.isMerge
  | _ => false

structure LockInv (s : State) : Prop where
  own : ∀ (t : Tid) (th : Thread), s.threads[t]? = some th → (lkpc th.pc = true ↔ s.lock = some t)
  ex : ∀ u, s.lock = some u → u < s.threads.length
  noenq : s.lock.isSome = true → ∀ (t : Tid) (th : Thread), s.threads[t]? = some th → isEnq th.pc = false
  dfop : ∀ (t : Tid) (th : Thread), s.threads[t]? = some th → dfMerge th.pc = false

theorem lockInv_init : LockInv init :=
  ⟨by simp [init], by simp [init], by simp [init], by simp [init]⟩

/-- The step leaves the guard alone and the thread on the same side of `run_explicit_merge`. -/
theorem LockInv.keep {s s1 : State} {t : Tid} {th th' : Thread} (L : LockInv s)
    (hth : s.threads[t]? = some th) (e : s1.threads = s.threads) (el : s1.lock = s.lock)
    (h1 : lkpc th'.pc = lkpc th.pc)
    (h2 : isEnq th'.pc = true → isEnq th.pc = true ∨ s.lock = none)
    (h3 : dfMerge th'.pc = true → dfMerge th.pc = true) : LockInv (s1.put t th th') := by
  have hth1 : s1.threads[t]? = some th := by rw [e]; exact hth
  refine ⟨?_, ?_, ?_, ?_⟩
  · intro u tu hu
    simp only [put_lock, el]
    by_cases hut : u = t
    · subst hut; rw [put_get_same hth1] at hu; cases hu; rw [h1]; exact L.own u th hth
    · rw [put_get_other hut, e] at hu; exact L.own u tu hu
  · intro u hu; simp only [put_lock, el] at hu; simp only [put_len, e]; exact L.ex u hu
  · intro hl u tu hu
    simp only [put_lock, el] at hl
    by_cases hut : u = t
    · subst hut; rw [put_get_same hth1] at hu; cases hu
      cases hq : isEnq th'.pc with
      | false => rfl
      | true =>
        rcases h2 hq with h | h
        · rw [L.noenq hl u th hth] at h; cases h
        · rw [h] at hl; cases hl
    · rw [put_get_other hut, e] at hu; exact L.noenq hl u tu hu
  · intro u tu hu
    by_cases hut : u = t
    · subst hut; rw [put_get_same hth1] at hu; cases hu
      cases hq : dfMerge th'.pc with
      | false => rfl
      | true => have := h3 hq; rw [L.dfop u th hth] at this; cases this
    · rw [put_get_other hut, e] at hu; exact L.dfop u tu hu

/-- `run_explicit_merge` takes the guard. -/
theorem LockInv.acquire {s s1 : State} {t : Tid} {th th' : Thread} (L : LockInv s)
    (hth : s.threads[t]? = some th) (e : s1.threads = s.threads) (h0 : s.lock = none)
    (el : s1.lock = some t) (h1 : lkpc th'.pc = true) (h2 : isEnq th'.pc = false)
    (h3 : dfMerge th'.pc = false)
    (hne : ∀ (u : Tid) (tu : Thread), s.threads[u]? = some tu → isEnq tu.pc = false) :
    LockInv (s1.put t th th') := by
  have hth1 : s1.threads[t]? = some th := by rw [e]; exact hth
  have hlt : t < s.threads.length := by
    rcases Nat.lt_or_ge t s.threads.length with h | h
    · exact h
    · simp [List.getElem?_eq_none h] at hth
  refine ⟨?_, ?_, ?_, ?_⟩
  · intro u tu hu
    simp only [put_lock, el]
    by_cases hut : u = t
    · subst hut; rw [put_get_same hth1] at hu; cases hu; simp [h1]
    · rw [put_get_other hut, e] at hu
      have := L.own u tu hu
      rw [h0] at this
      constructor
      · intro hx; have := this.1 hx; cases this
      · intro hx; simp at hx; exact absurd hx.symm hut
  · intro u hu; simp only [put_lock, el] at hu; simp only [put_len, e]; cases hu; exact hlt
  · intro _ u tu hu
    by_cases hut : u = t
    · subst hut; rw [put_get_same hth1] at hu; cases hu; exact h2
    · rw [put_get_other hut, e] at hu; exact hne u tu hu
  · intro u tu hu
    by_cases hut : u = t
    · subst hut; rw [put_get_same hth1] at hu; cases hu; exact h3
    · rw [put_get_other hut, e] at hu; exact L.dfop u tu hu

/-- The last entry of `run_explicit_merge` is done: the guard is dropped. -/
theorem LockInv.release {s s1 : State} {t : Tid} {th th' : Thread} (L : LockInv s)
    (hth : s.threads[t]? = some th) (e : s1.threads = s.threads) (hl : lkpc th.pc = true)
    (el : s1.lock = none) (h1 : lkpc th'.pc = false) (h2 : isEnq th'.pc = false)
    (h3 : dfMerge th'.pc = false) : LockInv (s1.put t th th') := by
  have hth1 : s1.threads[t]? = some th := by rw [e]; exact hth
  have hlock : s.lock = some t := (L.own t th hth).1 hl
  refine ⟨?_, ?_, ?_, ?_⟩
  · intro u tu hu
    simp only [put_lock, el]
    by_cases hut : u = t
    · subst hut; rw [put_get_same hth1] at hu; cases hu; simp [h1]
    · rw [put_get_other hut, e] at hu
      have := L.own u tu hu
      rw [hlock] at this
      constructor
      · intro hx; have := this.1 hx; simp at this; exact absurd this.symm hut
      · intro hx; cases hx
  · intro u hu; simp only [put_lock, el] at hu; cases hu
  · intro hx; simp only [put_lock, el] at hx; cases hx
  · intro u tu hu
    by_cases hut : u = t
    · subst hut; rw [put_get_same hth1] at hu; cases hu; exact h3
    · rw [put_get_other hut, e] at hu; exact L.dfop u tu hu

/-- The decrement protocol of `t` ends; its continuation decides about the guard. -/
theorem LockInv.ret {s s1 : State} {t : Tid} {th th' : Thread} (r : Ret) (L : LockInv s)
    (hth : s.threads[t]? = some th) (e : s1.threads = s.threads) (el : s1.lock = s.lock)
    (hr : lkpc th.pc = r.isLk) : LockInv (ret s1 t th th' r).1 := by
  cases r with
  | op =>
    exact L.keep hth e el (by rw [hr]; rfl) (by simp [isEnq]) (by simp [dfMerge])
  | merge rest n lk =>
    cases rest with
    | zero =>
      cases lk with
      | false => exact L.keep hth e el (by rw [hr]; rfl) (by simp [isEnq]) (by simp [dfMerge])
      | true =>
        exact L.release (s1 := { s1 with lock := none }) hth e (by rw [hr]; rfl) rfl rfl rfl rfl
    | succ k =>
      exact L.keep hth e el (by rw [hr]; cases lk <;> rfl) (by simp [isEnq]) (by simp [dfMerge])

/-- While the QUEUED flag of an unmerged object is clear, nobody is inside `run_explicit_merge`:
a merging thread either still has the entry (then the flag is set) or has already published MERGED. -/
theorem lock_none_of_unqueued {s : State} (h : Inv s) (L : LockInv s) (hc : s.created = true)
    (hq : s.w.queued = false) (hm : s.w.merged = false) : s.lock = none := by
  cases hl : s.lock with
  | none => rfl
  | some u =>
    exfalso
    have hlt := L.ex u hl
    have hth : s.threads[u]? = some s.threads[u] := by simp [hlt]
    have hlk := (L.own u _ hth).2 hl
    have hp : (s.threads[u]).pc.pend = 0 := by
      have := (h.bnd hth).2.2.2
      have := h.ent.2.1 hq
      omega
    have hok := (h.thr u _ hth).ok
    have hnone : ∀ r : Ret, r.isLk = true → RetOk s r → False := by
      intro r hr1 hr2
      have : r.isMerge = true := by
        cases r with
        | op => cases hr1
        | merge a b c => rfl
      have := h.ownerNone hc (hr2 this)
      rw [hm] at this; cases this
    cases hpc : (s.threads[u]).pc <;> simp only [hpc, lkpc, TOk, PC.pend] at hlk hp hok
    all_goals first
      | omega
      | (cases hlk; done)
      | (rw [hm] at hok; simp at hok; done)
      | exact hnone _ hlk hok.2.1
      | exact hnone _ hlk hok.2.2.1
      | exact hnone _ hlk hok.2.2.2

/-- While a thread is parked at `enqueue`, nobody is inside `run_explicit_merge`. -/
theorem LockInv.enq_free {s : State} (L : LockInv s) {t : Tid} {th : Thread}
    (hth : s.threads[t]? = some th) {r : Ret} (hpc : th.pc = .enq r) : s.lock = none := by
  cases hl : s.lock with
  | none => rfl
  | some u =>
    have := L.noenq (by rw [hl]; rfl) t th hth
    rw [hpc] at this; cases this

end SteelVerif.C05
