/-
C05 — every step of the model preserves the invariant (helper lemmas for Props.lean).
-/
import SteelVerif.C05.Lemmas
namespace SteelVerif.C05

theorem touch_eq {s : State} (h : s.alive = true) : s.touch = s := by simp [State.touch, h]

/-- `TInv` only reads five scalar fields of the state. -/
theorem TInv.congr {s s' : State} {u : Tid} {tu : Thread}
    (e1 : s'.owner = s.owner) (e2 : s'.biased = s.biased) (e3 : s'.w = s.w)
    (e4 : s'.created = s.created) (e5 : s'.alive = s.alive) (h : TInv s u tu) : TInv s' u tu := by
  obtain ⟨h1, h2, h3, h4⟩ := h
  refine ⟨?_, ?_, ?_, ?_⟩
  · unfold TOk RetOk at *; rw [e1, e2, e3]; exact h1
  · rw [e4, e5]; exact h2
  · rw [e1, e2, e3]; exact h3
  · rw [e1]; exact h4

/-- Assemble the invariant after a step that replaces one thread and changes scalar fields. -/
theorem inv_of_put {s s1 : State} {t : Tid} {th th' : Thread} (h : Inv s)
    (hth : s.threads[t]? = some th)
    (e : s1.threads = s.threads ∧ s1.gH = s.gH ∧ s1.gT = s.gT ∧ s1.gQ = s.gQ ∧ s1.gP = s.gP)
    (flags : s1.uaf = false ∧ s1.badUnique = false ∧ s1.earlyFree = false ∧ s1.underflow = false)
    (frees : s1.drops = s1.frees ∧ s1.frees = (if s1.created = true ∧ s1.alive = false then 1 else 0))
    (pre : s1.created = false → s1.alive = false ∧ s1.owner = none ∧ s1.w = ⟨0, false, false⟩ ∧
            (s1.put t th th').total = 0 ∧ (s1.put t th th').gP = 0)
    (dead : s1.created = true → s1.alive = false → (s1.put t th th').total = 0)
    (count : s1.alive = true → s1.created = true ∧
          (if s1.w.merged then s1.w.cnt else (s1.biased : Int) + s1.w.cnt) = ((s1.put t th th').total : Int))
    (ownerEx : ∀ o, s1.owner = some o → o < s.threads.length)
    (ownerNone : s1.created = true → s1.owner = none → s1.w.merged = true)
    (ent : (s1.put t th th').gQ + (s1.put t th th').gP ≤ 1 ∧
        (s1.w.queued = false → (s1.put t th th').gQ + (s1.put t th th').gP = 0) ∧
        (s1.w.merged = true → 1 ≤ (s1.put t th th').gQ + (s1.put t th th').gP → s1.biased = 0))
    (hfree : isFree th'.pc = true →
        ∀ (u : Tid) (tu : Thread), u ≠ t → s.threads[u]? = some tu → isFree tu.pc = false)
    (ht : TInv (s1.put t th th') t th')
    (ho : ∀ (u : Tid) (tu : Thread), u ≠ t → s.threads[u]? = some tu → TInv s u tu →
        TInv (s1.put t th th') u tu) :
    Inv (s1.put t th th') := by
  obtain ⟨e0, eH, eT, eQ, eP⟩ := e
  have hth1 : s1.threads[t]? = some th := by rw [e0]; exact hth
  have hsum1 : SumInv s1 := by
    obtain ⟨a, b, c, d⟩ := h.sums
    exact ⟨by rw [eH, e0]; exact a, by rw [eT, e0]; exact b, by rw [eQ, e0]; exact c,
      by rw [eP, e0]; exact d⟩
  refine ⟨flags, frees, sumInv_put hsum1 hth1, pre, dead, count, ?_, ownerNone, ent, ?_, ?_⟩
  · intro o ho'; simp at ho'; simp; rw [e0]; exact ownerEx o ho'
  · intro a b ta tb ha hb fa fb
    by_cases hat : a = t
    · by_cases hbt : b = t
      · rw [hat, hbt]
      · subst hat
        rw [put_get_same hth1] at ha
        rw [put_get_other hbt, e0] at hb
        cases ha
        have := hfree fa b tb hbt hb
        rw [this] at fb; cases fb
    · by_cases hbt : b = t
      · subst hbt
        rw [put_get_same hth1] at hb
        rw [put_get_other hat, e0] at ha
        cases hb
        have := hfree fb a ta hat ha
        rw [this] at fa; cases fa
      · rw [put_get_other hat, e0] at ha
        rw [put_get_other hbt, e0] at hb
        exact h.freeUniq a b ta tb ha hb fa fb
  · intro u tu hu
    by_cases hut : u = t
    · subst hut
      rw [put_get_same hth1] at hu
      cases hu
      exact ht
    · rw [put_get_other hut, e0] at hu
      exact ho u tu hut hu (h.thr u tu hu)

/-- The same for a step that replaces two different threads, neither of which starts to free and
the second of which keeps its pc. -/
theorem inv_of_put2 {s s1 : State} {t u : Tid} {th th' tu tu' : Thread} (h : Inv s) (hne : t ≠ u)
    (hth : s.threads[t]? = some th) (htu : s.threads[u]? = some tu)
    (e : s1.threads = s.threads ∧ s1.gH = s.gH ∧ s1.gT = s.gT ∧ s1.gQ = s.gQ ∧ s1.gP = s.gP)
    (flags : s1.uaf = false ∧ s1.badUnique = false ∧ s1.earlyFree = false ∧ s1.underflow = false)
    (frees : s1.drops = s1.frees ∧ s1.frees = (if s1.created = true ∧ s1.alive = false then 1 else 0))
    (pre : s1.created = false → s1.alive = false ∧ s1.owner = none ∧ s1.w = ⟨0, false, false⟩ ∧
            ((s1.put t th th').put u tu tu').total = 0 ∧ ((s1.put t th th').put u tu tu').gP = 0)
    (dead : s1.created = true → s1.alive = false → ((s1.put t th th').put u tu tu').total = 0)
    (count : s1.alive = true → s1.created = true ∧
          (if s1.w.merged then s1.w.cnt else (s1.biased : Int) + s1.w.cnt) =
            (((s1.put t th th').put u tu tu').total : Int))
    (ownerEx : ∀ o, s1.owner = some o → o < s.threads.length)
    (ownerNone : s1.created = true → s1.owner = none → s1.w.merged = true)
    (ent : ((s1.put t th th').put u tu tu').gQ + ((s1.put t th th').put u tu tu').gP ≤ 1 ∧
        (s1.w.queued = false → ((s1.put t th th').put u tu tu').gQ + ((s1.put t th th').put u tu tu').gP = 0) ∧
        (s1.w.merged = true → 1 ≤ ((s1.put t th th').put u tu tu').gQ + ((s1.put t th th').put u tu tu').gP →
          s1.biased = 0))
    (hfree : isFree th'.pc = false) (hpcu : tu'.pc = tu.pc)
    (ht : TInv ((s1.put t th th').put u tu tu') t th')
    (hu : TInv ((s1.put t th th').put u tu tu') u tu')
    (ho : ∀ (v : Tid) (tv : Thread), v ≠ t → v ≠ u → s.threads[v]? = some tv → TInv s v tv →
        TInv ((s1.put t th th').put u tu tu') v tv) :
    Inv ((s1.put t th th').put u tu tu') := by
  obtain ⟨e0, eH, eT, eQ, eP⟩ := e
  have hth1 : s1.threads[t]? = some th := by rw [e0]; exact hth
  have htu1 : (s1.put t th th').threads[u]? = some tu := by
    rw [put_get_other (Ne.symm hne), e0]; exact htu
  have hsum1 : SumInv s1 := by
    obtain ⟨a, b, c, d⟩ := h.sums
    exact ⟨by rw [eH, e0]; exact a, by rw [eT, e0]; exact b, by rw [eQ, e0]; exact c,
      by rw [eP, e0]; exact d⟩
  have lookT : ((s1.put t th th').put u tu tu').threads[t]? = some th' := by
    rw [put_get_other hne]; exact put_get_same hth1 _
  have lookU : ((s1.put t th th').put u tu tu').threads[u]? = some tu' := put_get_same htu1 _
  have lookO : ∀ v, v ≠ t → v ≠ u → ((s1.put t th th').put u tu tu').threads[v]? = s.threads[v]? := by
    intro v h1 h2; rw [put_get_other h2, put_get_other h1, e0]
  refine ⟨flags, frees, sumInv_put (sumInv_put hsum1 hth1) htu1, pre, dead, count, ?_, ownerNone, ent,
    ?_, ?_⟩
  · intro o ho'; simp at ho'; simp; rw [e0]; exact ownerEx o ho'
  · -- freeUniq: map both indices back to the old state
    have back : ∀ (a : Tid) (ta : Thread), ((s1.put t th th').put u tu tu').threads[a]? = some ta →
        isFree ta.pc = true → ∃ ta', s.threads[a]? = some ta' ∧ isFree ta'.pc = true := by
      intro a ta ha fa
      by_cases hat : a = t
      · subst hat; rw [lookT] at ha; cases ha; rw [hfree] at fa; cases fa
      · by_cases hau : a = u
        · subst hau; rw [lookU] at ha; cases ha; rw [hpcu] at fa; exact ⟨tu, htu, fa⟩
        · rw [lookO a hat hau] at ha; exact ⟨ta, ha, fa⟩
    intro a b ta tb ha hb fa fb
    obtain ⟨ta', ha', fa'⟩ := back a ta ha fa
    obtain ⟨tb', hb', fb'⟩ := back b tb hb fb
    exact h.freeUniq a b ta' tb' ha' hb' fa' fb'
  · intro v tv hv
    by_cases hvt : v = t
    · subst hvt; rw [lookT] at hv; cases hv; exact ht
    · by_cases hvu : v = u
      · subst hvu; rw [lookU] at hv; cases hv; exact hu
      · rw [lookO v hvt hvu] at hv
        exact ho v tv hvt hvu hv (h.thr v tv hv)

theorem alive_of_pc {s : State} (h : Inv s) {t : Tid} {th : Thread}
    (hth : s.threads[t]? = some th) (hpc : th.pc ≠ .idle) : s.created = true ∧ s.alive = true := by
  have := (h.thr t th hth).idle
  constructor
  · cases hc : s.created
    · exact absurd (this (Or.inl hc)) hpc
    · rfl
  · cases ha : s.alive
    · exact absurd (this (Or.inr ha)) hpc
    · rfl

theorem alive_of_held {s : State} (h : Inv s) {t : Tid} {th : Thread}
    (hth : s.threads[t]? = some th) (hh : th.held ≠ 0) : s.created = true ∧ s.alive = true := by
  have b := (h.bnd hth).1
  have hc : s.created = true := by
    cases hc : s.created
    · have := (h.pre hc).2.2.2.1
      simp [State.total] at this; omega
    · rfl
  refine ⟨hc, ?_⟩
  cases ha : s.alive
  · have := h.dead hc ha
    simp [State.total] at this; omega
  · rfl

end SteelVerif.C05
