/-
C05 driver: runs the model on the schedule lines the Rust harness `c05` is given and prints the same
observable state after every line.
-/
import SteelVerif.C05.Model
namespace SteelVerif.C05

def parseAct (toks : List String) : Option Act :=
  match toks with
  | ["new"] => some .new | ["clone"] => some .clone | ["drop"] => some .drop
  | ["move", u] => u.toNat?.map Act.move
  | ["unique"] => some .unique | ["unwrap"] => some .unwrap | ["count"] => some .count
  | ["register"] => some .register | ["merge"] => some .merge | ["exit"] => some .exit
  | ["step"] => some .step
  | _ => none

def showOut : Out → String
  | .yield s => s!"yield {s}"
  | .done r => s!"done {r}"

def showState (s : State) : String :=
  let word :=
    if s.created then
      s!"w={s.w.cnt},{if s.w.merged then 1 else 0},{if s.w.queued then 1 else 0} b={s.biased} o={if s.owner.isSome then "some" else "none"}"
    else "w=- b=- o=-"
  let q :=
    if s.lock.isSome then "q=?,?"
    else s!"q={(s.threads.map (·.regQ)).sum},{(s.threads.map (·.unregQ)).sum}"
  let held := ",".intercalate (s.threads.map (fun t => toString t.shown))
  s!"{word} drops={s.drops} freed={s.frees} {q} held={held}"

/-- Bound of `op_completes_solo` (Props.lean): a thread that runs alone finishes within this many
steps after the one that starts the operation.  `T run <op>` uses it as its fuel, so a real operation
that needs more steps than the theorem allows shows up as a trace difference. -/
def soloBound : Nat := 12

/-- `T run <op>`: start the operation and step until it completes (bounded by `fuel`). -/
def runToEnd (s : State) (t : Tid) (a : Act) (fuel : Nat) : Option (State × Out) :=
  match step s t a with
  | none => none
  | some (s', .done r) => some (s', .done r)
  | some (s', .yield site) =>
      match fuel with
      | 0 => some (s', .yield site)
      | f + 1 => runToEnd s' t .step f

def line (s : State) (l : String) : State × String :=
  let toks := (l.trimAscii.toString.splitOn " ").filter (· ≠ "")
  match toks with
  | [] => (s, "")
  | ["spawn", t] =>
      match t.toNat? with
      | some t =>
          match step s t .spawn with
          | some (s', o) => (s', showOut o ++ " | " ++ showState s')
          | none => (s, "bad spawn")
      | none => (s, "bad parse")
  | t :: "run" :: rest =>
      match t.toNat?, parseAct rest with
      | some t, some a =>
          match runToEnd s t a soloBound with
          | some (s', o) => (s', showOut o ++ " | " ++ showState s')
          | none => (s, "bad not-enabled")
      | _, _ => (s, "bad parse")
  | t :: rest =>
      match t.toNat?, parseAct rest with
      | some t, some a =>
          match step s t a with
          | some (s', o) => (s', showOut o ++ " | " ++ showState s')
          | none => (s, "bad not-enabled")
      | _, _ => (s, "bad parse")


/-! ## Schedule generation (all choices from one LCG state, so a seed replays exactly) -/

def lcg (x : UInt64) : UInt64 := x * 6364136223846793005 + 1442695040888963407

def pick (rng : UInt64) (n : Nat) : Nat × UInt64 :=
  let r := lcg rng
  (((r >>> 33).toNat) % (max n 1), r)

def showAct : Act → String
  | .spawn => "spawn" | .new => "new" | .clone => "clone" | .drop => "drop"
  | .move u => s!"move {u}" | .unique => "unique" | .unwrap => "unwrap" | .count => "count"
  | .register => "register" | .merge => "merge" | .exit => "exit" | .step => "step"

def startActs (n : Nat) : List Act :=
  [.clone, .clone, .drop, .drop, .unique, .unwrap, .count, .register, .merge, .exit] ++
    (List.range n).map Act.move ++ (List.range n).map Act.move

/-- All executable lines in state `s` (steps of parked threads listed `w` times: weight). -/
def enabled (s : State) (w : Nat) : List (Tid × Act) :=
  let n := s.threads.length
  (List.range n).flatMap fun t =>
    let starts := (startActs n).filter (fun a => (step s t a).isSome) |>.map (fun a => (t, a))
    let steps := if (step s t .step).isSome then List.replicate w (t, Act.step) else []
    starts ++ steps

/-- Random schedule: `len` random executable lines after the preamble, then every parked thread is
stepped to completion; with `drain ≥ 1` every thread then drops what it holds, merges (`drain = 1`
only: with `drain = 2` an entry parked for an unregistered owner stays parked) and exits. -/
def genSchedule (rng : UInt64) (nthreads len : Nat) (drain : Nat) : List String × UInt64 := Id.run do
  let mut rng := rng
  let mut s := init
  let mut out : List String := []
  for t in List.range nthreads do
    match step s t .spawn with
    | some (s', _) => s := s'; out := s!"spawn {t}" :: out
    | none => pure ()
  for t in List.range nthreads do
    let (r, rng') := pick rng 3
    rng := rng'
    if r ≠ 0 then
      match step s t .register with
      | some (s', _) => s := s'; out := s!"{t} register" :: out
      | none => pure ()
  match step s 0 .new with
  | some (s', _) => s := s'; out := "0 new" :: out
  | none => pure ()
  let (w, rng') := pick rng 4
  rng := rng'
  for _ in List.range len do
    let en := enabled s (w + 1)
    if en.isEmpty then break
    let (i, rng') := pick rng en.length
    rng := rng'
    match en[i]? with
    | some (t, a) =>
        match step s t a with
        | some (s', _) => s := s'; out := s!"{t} {showAct a}" :: out
        | none => pure ()
    | none => pure ()
  -- finish what is in flight
  for _ in List.range 200 do
    let parked := (List.range s.threads.length).filter (fun t => (step s t .step).isSome)
    if parked.isEmpty then break
    let (i, rng') := pick rng parked.length
    rng := rng'
    match parked[i]? with
    | some t =>
        match step s t .step with
        | some (s', _) => s := s'; out := s!"{t} step" :: out
        | none => pure ()
    | none => pure ()
  if drain ≥ 1 then
    for t in List.range s.threads.length do
      for _ in List.range 64 do
        match runToEnd s t .drop soloBound with
        | some (s', _) => s := s'; out := s!"{t} run drop" :: out
        | none => break
    for t in List.range s.threads.length do
      if drain = 1 then
        match runToEnd s t .merge soloBound with
        | some (s', _) => s := s'; out := s!"{t} run merge" :: out
        | none => pure ()
      match runToEnd s t .exit soloBound with
      | some (s', _) => s := s'; out := s!"{t} run exit" :: out
      | none => pure ()
  return (out.reverse, rng)

/-- Exhaustive enumeration at operation granularity: every sequence of `depth` executable
`run` lines (each operation atomic) after the preamble `spawn*; 0 new`. -/
partial def enumOps (s : State) (pre : List String) (depth : Nat) (acts : List Act)
    (emit : List String → IO Unit) : IO Unit := do
  if depth = 0 then
    emit pre.reverse
  else
    let n := s.threads.length
    let mut any := false
    for t in List.range n do
      for a in acts do
        match runToEnd s t a soloBound with
        | some (s', _) =>
            any := true
            enumOps s' (s!"{t} run {showAct a}" :: pre) (depth - 1) acts emit
        | none => pure ()
    if !any then emit pre.reverse

/-- The verdict of the specification S on the final state (last output line). -/
def verdict (s : State) : String :=
  s!"spec uaf={s.uaf} badUnique={s.badUnique} earlyFree={s.earlyFree} underflow={s.underflow} frees={s.frees} drops={s.drops} total={s.total} alive={s.alive} created={s.created} idle={s.threads.all (fun th => th.pc == .idle)} queued={s.gQ}"

partial def loop (h : IO.FS.Stream) (s : State) : IO Unit := do
  let l ← h.getLine
  if l.isEmpty then
    IO.println (verdict s)
    return ()
  if l.trimAscii.toString == "reset" then
    IO.println (verdict s)
    loop h init
  else
    let (s', out) := line s l
    if out ≠ "" then IO.println out
    loop h s'

def mainC05 (args : List String) : IO Unit := do
  match args with
  | ["gen", seed, count, nthreads, len] =>
      let mut rng : UInt64 := UInt64.ofNat (seed.toNat!) * 2654435761 + 88172645463325252
      for i in List.range count.toNat! do
        let (nt, rng1) := pick rng (nthreads.toNat! - 1)
        let (ln, rng2) := pick rng1 len.toNat!
        let (sched, rng3) := genSchedule rng2 (nt + 2) (ln + 4) (if i % 2 == 0 then 1 else if i % 4 == 1 then 2 else 0)
        rng := rng3
        for l in sched do IO.println l
        IO.println "reset"
  | ["enum", nthreads, depth] =>
      let n := nthreads.toNat!
      let mut s := init
      let mut pre : List String := []
      for t in List.range n do
        match step s t .spawn with
        | some (s', _) => s := s'; pre := s!"spawn {t}" :: pre
        | none => pure ()
      match step s 0 .register with
      | some (s', _) => s := s'; pre := "0 register" :: pre
      | none => pure ()
      match step s 0 .new with
      | some (s', _) => s := s'; pre := "0 new" :: pre
      | none => pure ()
      let acts : List Act := [.clone, .drop, .unique, .unwrap, .merge] ++ (List.range n).map Act.move
      enumOps s pre depth.toNat! acts (fun sched => do
        for l in sched do IO.println l
        IO.println "reset")
  | _ => loop (← IO.getStdin) init

end SteelVerif.C05

def main (args : List String) : IO Unit := SteelVerif.C05.mainC05 args
