/-
C05 — preservation, part B: operations started on an idle thread.
-/
import SteelVerif.C05.StepA
namespace SteelVerif.C05
set_option linter.unusedSimpArgs false
set_option linter.unusedVariables false

theorem case_spawn {s : State} {t : Tid} (h : Inv s) :
    ∀ s' o, step s t .spawn = some (s', o) → Inv s' := by
  intro s' o hs
  simp only [step] at hs
  split at hs
  · rename_i ht
    cases hs
    have hget : ∀ u, (s.threads ++ [({} : Thread)])[u]? =
        if u < s.threads.length then s.threads[u]? else if u = s.threads.length then some {} else none := by
      intro u
      rcases Nat.lt_trichotomy u s.threads.length with hu | hu | hu
      · simp [List.getElem?_append_left hu, hu]
      · subst hu; simp
      · have : ¬ u < s.threads.length := by omega
        have h2 : ¬ u = s.threads.length := by omega
        have hl : (s.threads ++ [({} : Thread)]).length ≤ u := by
          rw [List.length_append]; simp only [List.length_cons, List.length_nil]; omega
        rw [List.getElem?_eq_none hl]
        simp [this, h2]
    refine ⟨h.flags, h.frees, ?_, h.pre, h.dead, h.count, ?_, h.ownerNone, h.ent, ?_, ?_⟩
    · obtain ⟨a, b, c, d⟩ := h.sums
      simp only [SumInv, sumHeld, sumTemp, sumQ, sumP, List.map_append, List.sum_append] at *
      simp [a, b, c, d, PC.pend]
    · intro o' ho; have := h.ownerEx o' ho
      show o' < (s.threads ++ [({} : Thread)]).length
      rw [List.length_append]; exact Nat.lt_add_right _ this
    · intro a b ta tb ha hb fa fb
      simp only [hget] at ha hb
      split at ha
      · split at hb
        · exact h.freeUniq a b ta tb ha hb fa fb
        · split at hb
          · cases hb; simp [isFree] at fb
          · cases hb
      · split at ha
        · cases ha; simp [isFree] at fa
        · cases ha
    · intro u tu hu
      simp only [hget] at hu
      split at hu
      · exact TInv.congr (s := s) rfl rfl rfl rfl rfl (h.thr u tu hu)
      · split at hu
        · cases hu
          rename_i h1 h2
          refine ⟨by simp [TOk], by simp, ?_, by simp⟩
          intro ho
          have := h.ownerEx u ho
          exact absurd this h1
        · cases hu
  · cases hs

/-- Start of an operation that only parks the idle thread at a new pc (it needs a reference). -/
theorem idle_park {s : State} {t : Tid} {th : Thread} (h : Inv s) (hth : s.threads[t]? = some th)
    (hpc : th.pc = .idle) (hh : th.held ≠ 0) (pc' : PC) (hp0 : pc'.pend = 0)
    (hok : TOk s t { th with pc := pc' })
    (hsn : isSetNone pc' = false) (hdf : isDf pc' = false) (hfr : isFree pc' = false) :
    Inv (s.put t th { th with pc := pc' }) := by
  have hal := alive_of_held h hth hh
  refine inv_same h hth rfl rfl rfl rfl (by show pc'.pend = th.pc.pend; rw [hp0, hpc]; rfl) hok
    (Or.inr hal) (by show isSetNone pc' = isSetNone th.pc; rw [hsn, hpc]; rfl)
    (by show isDf pc' = isDf th.pc; rw [hdf, hpc]; rfl) (by show isFree pc' = true → _; simp [hfr])

theorem case_unique {s : State} {t : Tid} {th : Thread} (h : Inv s) (hth : s.threads[t]? = some th)
    (hpc : th.pc = .idle) : ∀ s' o, step s t .unique = some (s', o) → Inv s' := by
  intro s' o hs
  simp only [step, hth, hpc] at hs
  split at hs
  · cases hs
  · rename_i hh
    simp only [park, Option.some.injEq, Prod.mk.injEq] at hs
    obtain ⟨rfl, _⟩ := hs
    exact idle_park h hth hpc hh _ rfl (by simp [TOk]; omega) rfl rfl rfl

theorem case_unwrap {s : State} {t : Tid} {th : Thread} (h : Inv s) (hth : s.threads[t]? = some th)
    (hpc : th.pc = .idle) : ∀ s' o, step s t .unwrap = some (s', o) → Inv s' := by
  intro s' o hs
  simp only [step, hth, hpc] at hs
  split at hs
  · cases hs
  · rename_i hh
    simp only [park, Option.some.injEq, Prod.mk.injEq] at hs
    obtain ⟨rfl, _⟩ := hs
    exact idle_park h hth hpc hh _ rfl (by simp [TOk]; omega) rfl rfl rfl

theorem case_count {s : State} {t : Tid} {th : Thread} (h : Inv s) (hth : s.threads[t]? = some th)
    (hpc : th.pc = .idle) : ∀ s' o, step s t .count = some (s', o) → Inv s' := by
  intro s' o hs
  simp only [step, hth, hpc] at hs
  split at hs
  · cases hs
  · rename_i hh
    have hal := alive_of_held h hth hh
    simp only [finish, touch_eq hal.2, Option.some.injEq, Prod.mk.injEq] at hs
    obtain ⟨rfl, _⟩ := hs
    exact inv_same h hth rfl rfl rfl rfl (by simp [hpc]) (by simp [TOk]) (Or.inl rfl)
      (by simp [hpc]) (by simp [hpc]) (by simp [isFree])

theorem case_register {s : State} {t : Tid} {th : Thread} (h : Inv s) (hth : s.threads[t]? = some th)
    (hpc : th.pc = .idle) : ∀ s' o, step s t .register = some (s', o) → Inv s' := by
  intro s' o hs
  simp only [step, hth, hpc] at hs
  split at hs
  · cases hs
  · simp only [finish, Option.some.injEq, Prod.mk.injEq] at hs
    obtain ⟨rfl, _⟩ := hs
    exact inv_same h hth rfl rfl rfl rfl (by simp [hpc]) (by simp [TOk]) (Or.inl rfl)
      (by simp [hpc]) (by simp [hpc]) (by simp [isFree])


/-- The facts about the owner thread that follow from its being at a pc that is neither
`*SetNone` nor one of the fast-decrement pcs. -/
theorem owner_plain {s : State} {t : Tid} {th : Thread} (h : Inv s) (hth : s.threads[t]? = some th)
    (ho : s.owner = some t) (hsn : isSetNone th.pc = false) (hdf : isDf th.pc = false) :
    s.w.merged = false ∧ s.biased ≠ 0 := by
  have := (h.thr t th hth).own ho
  rw [hsn, hdf] at this
  constructor
  · cases hm : s.w.merged
    · rfl
    · exact absurd (this.1 hm) (by simp)
  · intro hb; exact absurd (this.2 hb) (by simp)

theorem case_clone {s : State} {t : Tid} {th : Thread} (h : Inv s) (hth : s.threads[t]? = some th)
    (hpc : th.pc = .idle) : ∀ s' o, step s t .clone = some (s', o) → Inv s' := by
  intro s' o hs
  simp only [step, hth, hpc] at hs
  split at hs
  · cases hs
  · rename_i hh
    have hal := alive_of_held h hth hh
    have b := h.bnd hth
    have ti := h.thr t th hth
    simp only [touch_eq hal.2] at hs
    split at hs
    · -- fast_increment
      rename_i ho
      simp only [finish, Option.some.injEq, Prod.mk.injEq] at hs
      obtain ⟨rfl, _⟩ := hs
      obtain ⟨hm, hb⟩ := owner_plain h hth ho (by rw [hpc]; rfl) (by rw [hpc]; rfl)
      have hcount := (h.count hal.2).2
      simp only [hm] at hcount
      refine inv_of_put h hth ⟨rfl, rfl, rfl, rfl, rfl⟩ h.flags h.frees ?_ ?_ ?_ h.ownerEx ?_ ?_ ?_ ?_ ?_
      · intro hc; simp [hal.1] at hc
      · intro _ ha; simp [hal.2] at ha
      · intro _; refine ⟨hal.1, ?_⟩
        simp only [hm, State.total, put_gH, put_gT, put_gQ, put_gP] at hcount ⊢
        simp at hcount ⊢; omega
      · intro _ hn; simp [ho] at hn
      · have := h.ent
        simp only [put_gQ, put_gP, hpc, PC.pend] at this ⊢
        refine ⟨by omega, fun hq => by have := this.2.1 hq; omega, fun hm' => by simp [hm] at hm'⟩
      · simp [isFree]
      · refine ⟨by simp [TOk], by simp, ?_, ?_⟩
        · intro _; simp [hm]
        · intro hq; simp only [put_owner]; exact ti.q hq
      · intro u tu hut _ hi
        exact hi.other rfl rfl (by rw [ho]; simp; exact Ne.symm hut) (by simp [ho]; exact Ne.symm hut)
          (fun hn => by simp [ho] at hn) id id (Or.inr rfl)
    · simp only [park, Option.some.injEq, Prod.mk.injEq] at hs
      obtain ⟨rfl, _⟩ := hs
      exact idle_park h hth hpc hh _ rfl (by simp [TOk]; omega) rfl rfl rfl


theorem case_drop {s : State} {t : Tid} {th : Thread} (h : Inv s) (hth : s.threads[t]? = some th)
    (hpc : th.pc = .idle) : ∀ s' o, step s t .drop = some (s', o) → Inv s' := by
  intro s' o hs
  simp only [step, hth, hpc] at hs
  split at hs
  · cases hs
  · rename_i hh
    have hal := alive_of_held h hth hh
    have b := h.bnd hth
    have ti := h.thr t th hth
    simp only [touch_eq hal.2] at hs
    split at hs
    · -- fast_decrement
      rename_i ho
      obtain ⟨hm, hb⟩ := owner_plain h hth ho (by rw [hpc]; rfl) (by rw [hpc]; rfl)
      have hcount := (h.count hal.2).2
      simp only [hm] at hcount
      simp only [hb, if_false] at hs
      have others : ∀ (s1 : State), s1.owner = s.owner → s1.w = s.w → s1.created = s.created →
          s1.alive = s.alive → ∀ (x y : Thread) (u : Tid) (tu : Thread), u ≠ t →
          s.threads[u]? = some tu → TInv s u tu → TInv (s1.put t x y) u tu := by
        intro s1 e1 e2 e3 e4 x y u tu hut _ hi
        exact hi.other (by simpa using e3) (by simpa using e4) (by rw [ho]; simp; exact Ne.symm hut)
          (by simp [e1, ho]; exact Ne.symm hut) (fun hn => by simp [ho] at hn)
          (by simp [e2]) (by simp [e2]) (Or.inr (by simp [e2]))
      split at hs
      · -- still positive: done
        rename_i hpos
        simp only [finish, Option.some.injEq, Prod.mk.injEq] at hs
        obtain ⟨rfl, _⟩ := hs
        skip
        refine inv_of_put h hth ⟨rfl, rfl, rfl, rfl, rfl⟩ h.flags h.frees ?_ ?_ ?_ h.ownerEx ?_ ?_ ?_ ?_ ?_
        rotate_right
        · intro u tu hut hu hi
          refine others _ ?_ ?_ ?_ ?_ _ _ u tu hut hu hi <;> rfl
        · intro hc; simp [hal.1] at hc
        · intro _ ha; simp [hal.2] at ha
        · intro _; refine ⟨hal.1, ?_⟩
          simp only [hm, State.total, put_gH, put_gT, put_gQ, put_gP] at hcount ⊢
          simp at hcount ⊢; omega
        · intro _ hn; simp [ho] at hn
        · have := h.ent
          simp only [put_gQ, put_gP, hpc, PC.pend] at this ⊢
          refine ⟨by omega, fun hq => by have := this.2.1 hq; omega, fun hm' => by simp [hm] at hm'⟩
        · simp [isFree]
        · refine ⟨by simp [TOk], by simp, ?_, ?_⟩
          · intro _; simp [hm]; omega
          · intro hq; simp only [put_owner]; exact ti.q hq
      · -- reached zero: merge
        rename_i hpos
        simp only [park, Option.some.injEq, Prod.mk.injEq] at hs
        obtain ⟨rfl, _⟩ := hs
        skip
        have hb1 : s.biased - 1 = 0 := by omega
        refine inv_of_put h hth ⟨rfl, rfl, rfl, rfl, rfl⟩ h.flags h.frees ?_ ?_ ?_ h.ownerEx ?_ ?_ ?_ ?_ ?_
        rotate_right
        · intro u tu hut hu hi
          refine others _ ?_ ?_ ?_ ?_ _ _ u tu hut hu hi <;> rfl
        · intro hc; simp [hal.1] at hc
        · intro _ ha; simp [hal.2] at ha
        · intro _; refine ⟨hal.1, ?_⟩
          simp only [hm, State.total, put_gH, put_gT, put_gQ, put_gP] at hcount ⊢
          simp at hcount ⊢; omega
        · intro _ hn; simp [ho] at hn
        · have := h.ent
          simp only [put_gQ, put_gP, hpc, PC.pend, Ret.pend] at this ⊢
          refine ⟨by omega, fun hq => by have := this.2.1 hq; omega, fun hm' => by simp [hm] at hm'⟩
        · simp [isFree]
        · refine ⟨by simp [TOk, ho, hm, hb1, Ret.pend], by simp [hal.1, hal.2], ?_, ?_⟩
          · intro _; simp [hm, isDf]
          · intro hq; simp only [put_owner]; exact ti.q hq
    · -- slow_decrement
      rename_i ho
      simp only [park, Option.some.injEq, Prod.mk.injEq] at hs
      obtain ⟨rfl, _⟩ := hs
      have hcount := (h.count hal.2)
      refine inv_of_put h hth ⟨rfl, rfl, rfl, rfl, rfl⟩ h.flags h.frees ?_ ?_ ?_ h.ownerEx h.ownerNone ?_ ?_
        ?_ ?_
      · intro hc; simp [hal.1] at hc
      · intro _ ha; simp [hal.2] at ha
      · intro _; refine ⟨hal.1, ?_⟩
        rw [hcount.2]
        simp only [State.total, put_gH, put_gT, put_gQ, put_gP]; omega
      · have := h.ent
        simp only [put_gQ, put_gP, hpc, PC.pend, Ret.pend] at this ⊢
        refine ⟨by omega, fun hq => by have := this.2.1 hq; omega, fun hm' hp => this.2.2 hm' (by omega)⟩
      · simp [isFree]
      · refine ⟨by simp [TOk, RetOk, Ret.pend, Ret.isMerge, ho], by simp [hal.1, hal.2], ?_, ?_⟩
        · intro ho'; exact absurd ho' ho
        · intro hq; simp only [put_owner]; exact ti.q hq
      · intro u tu _ _ hi; exact TInv.congr (s := s) rfl rfl rfl rfl rfl hi


theorem case_new {s : State} {t : Tid} {th : Thread} (h : Inv s) (hth : s.threads[t]? = some th)
    (hpc : th.pc = .idle) : ∀ s' o, step s t .new = some (s', o) → Inv s' := by
  intro s' o hs
  simp only [step, hth, hpc] at hs
  split at hs
  · cases hs
  · rename_i hc
    have hc : s.created = false := by cases h' : s.created <;> simp_all
    obtain ⟨hal, hown, hw, htot, hP⟩ := h.pre hc
    have b := h.bnd hth
    simp only [State.total] at htot
    simp only [finish, Option.some.injEq, Prod.mk.injEq] at hs
    obtain ⟨rfl, _⟩ := hs
    have hfr := h.frees
    simp only [hc] at hfr
    refine inv_of_put h hth ⟨rfl, rfl, rfl, rfl, rfl⟩ h.flags ?_ ?_ ?_ ?_ ?_ ?_ ?_ ?_ ?_ ?_
    · simpa using hfr
    · intro hc'; simp at hc'
    · intro _ ha; simp at ha
    · intro _; refine ⟨rfl, ?_⟩
      simp only [State.total, put_gH, put_gT, put_gQ, put_gP]
      simp; omega
    · intro o ho; simp at ho; subst ho
      rcases Nat.lt_or_ge t s.threads.length with h1 | h1
      · exact h1
      · simp [List.getElem?_eq_none h1] at hth
    · intro _ hn; simp at hn
    · simp only [put_gQ, put_gP, hpc, PC.pend]
      refine ⟨by omega, fun _ => by omega, fun hm => by simp at hm⟩
    · simp [isFree]
    · refine ⟨by simp [TOk], by simp, ?_, ?_⟩
      · intro _; simp
      · intro _; simp
    · intro u tu hut htu hi
      have bu := h.bnd htu
      have hidle := hi.idle (Or.inl hc)
      refine ⟨by simp [TOk, hidle], by simp [hidle], ?_, ?_⟩
      · intro ho; simp at ho; exact absurd ho.symm hut
      · intro hq; omega

theorem case_move {s : State} {t : Tid} {th : Thread} (h : Inv s) (hth : s.threads[t]? = some th)
    (hpc : th.pc = .idle) (u : Tid) : ∀ s' o, step s t (.move u) = some (s', o) → Inv s' := by
  intro s' o hs
  simp only [step, hth, hpc] at hs
  split at hs
  · cases hs
  · rename_i hh
    have hh' : th.held ≠ 0 ∧ u ≠ t := ⟨fun hx => hh (Or.inl hx), fun hx => hh (Or.inr hx)⟩
    split at hs
    · cases hs
    · rename_i tu htu
      split at hs
      · cases hs
      · rename_i hpcu
        have hpcu : tu.pc = .idle := by simpa using hpcu
        simp only [Option.some.injEq, Prod.mk.injEq] at hs
        obtain ⟨rfl, _⟩ := hs
        have hal := alive_of_held h hth hh'.1
        have b := h.bnd hth
        have bu := h.bnd htu
        have b2 := h.bnd2 (Ne.symm hh'.2) hth htu
        have ti := h.thr t th hth
        have tiu := h.thr u tu htu
        have hcount := h.count hal.2
        refine inv_of_put2 h (Ne.symm hh'.2) hth htu ⟨rfl, rfl, rfl, rfl, rfl⟩ h.flags h.frees ?_ ?_ ?_
          h.ownerEx h.ownerNone ?_ (by simp [hpc, isFree]) rfl ?_ ?_ ?_
        · intro hc; simp [hal.1] at hc
        · intro _ ha; simp [hal.2] at ha
        · intro _; refine ⟨hal.1, ?_⟩
          rw [hcount.2]
          simp only [State.total, put_gH, put_gT, put_gQ, put_gP]; omega
        · have := h.ent
          simp only [put_gQ, put_gP, hpc, hpcu, PC.pend] at this ⊢
          refine ⟨by omega, fun hq => by have := this.2.1 hq; omega, fun hm' hp => this.2.2 hm' (by omega)⟩
        · refine ⟨by simp [TOk, hpc], by simp [hpc], ?_, ?_⟩
          · intro ho; have := ti.own ho; simpa [hpc] using this
          · intro hq; exact ti.q hq
        · refine ⟨by simp [TOk, hpcu], by simp [hpcu], ?_, ?_⟩
          · intro ho; have := tiu.own ho; simpa [hpcu] using this
          · intro hq; exact tiu.q hq
        · intro v tv _ _ _ hi; exact TInv.congr (s := s) rfl rfl rfl rfl rfl hi


/-- A thread whose queues hold `n ≥ 1` entries starts merging them. -/
theorem start_merge {s s1 : State} {t : Tid} {th : Thread} (h : Inv s) (hth : s.threads[t]? = some th)
    (hpc : th.pc = .idle) (k m : Nat) (lk : Bool) (th' : Thread)
    (e : s1.threads = s.threads ∧ s1.gH = s.gH ∧ s1.gT = s.gT ∧ s1.gQ = s.gQ ∧ s1.gP = s.gP)
    (e1 : s1.owner = s.owner) (e2 : s1.biased = s.biased) (e3 : s1.w = s.w)
    (e4 : s1.created = s.created) (e5 : s1.alive = s.alive)
    (e6 : s1.uaf = s.uaf ∧ s1.badUnique = s.badUnique ∧ s1.earlyFree = s.earlyFree ∧ s1.underflow = s.underflow)
    (e7 : s1.drops = s.drops ∧ s1.frees = s.frees)
    (hn : th.regQ + th.unregQ = (th'.regQ + th'.unregQ) + (k + 1))
    (hpc' : th'.pc = .mgLoad k m lk) (hheld : th'.held = th.held) (htemp : th'.temp = th.temp + (k + 1)) :
    Inv (s1.put t th th') := by
  have b := h.bnd hth
  have ti := h.thr t th hth
  have hq := ti.q (by omega)
  have hal : s.created = true ∧ s.alive = true := by
    have hc : s.created = true := by
      cases hc : s.created
      · have := (h.pre hc).2.2.2.1; simp [State.total] at this; omega
      · rfl
    refine ⟨hc, ?_⟩
    cases ha : s.alive
    · have := h.dead hc ha; simp [State.total] at this; omega
    · rfl
  obtain ⟨f1, f2, f3, f4⟩ := e6
  obtain ⟨e0, eH, eT, eQ, eP⟩ := e
  refine inv_of_put h hth ⟨e0, eH, eT, eQ, eP⟩ (by rw [f1, f2, f3, f4]; exact h.flags)
    (by rw [e7.1, e7.2, e4, e5]; exact h.frees) ?_ ?_ ?_ (by rw [e1]; exact h.ownerEx)
    (by rw [e4, e1, e3]; exact h.ownerNone) ?_ ?_ ?_ ?_
  · intro hc; rw [e4] at hc; simp [hal.1] at hc
  · intro _ ha; rw [e5] at ha; simp [hal.2] at ha
  · intro _; rw [e4, e3, e2]; refine ⟨hal.1, ?_⟩
    rw [(h.count hal.2).2]
    simp only [State.total, put_gH, put_gT, put_gQ, put_gP, eH, eT, eQ]; omega
  · have := h.ent
    rw [e3, e2]
    simp only [put_gQ, put_gP, hpc, hpc', PC.pend, eQ, eP] at this ⊢
    refine ⟨by omega, fun hq => by have := this.2.1 hq; omega, fun hm' hp => this.2.2 hm' (by omega)⟩
  · simp [hpc', isFree]
  · refine ⟨?_, ?_, ?_, ?_⟩
    · simp only [TOk, hpc', put_owner, e1]; exact ⟨by omega, hq⟩
    · intro hx; simp [e4, e5, hal.1, hal.2] at hx
    · intro ho; simp only [put_owner, e1] at ho
      have := ti.own ho
      simp only [hpc, isSetNone, isDf] at this
      simp only [put_w, put_biased, e3, e2, hpc', isSetNone, isDf]; exact this
    · intro _; simp only [put_owner, e1]; exact hq
  · intro u tu _ _ hi
    exact TInv.congr (s := s) (by simpa using e1) (by simpa using e2) (by simpa using e3)
      (by simpa using e4) (by simpa using e5) hi

theorem case_merge {s : State} {t : Tid} {th : Thread} (h : Inv s) (hth : s.threads[t]? = some th)
    (hpc : th.pc = .idle) : ∀ s' o, step s t .merge = some (s', o) → Inv s' := by
  intro s' o hs
  simp only [step, hth, hpc] at hs
  split at hs
  · cases hs
  · split at hs
    · rename_i hn
      simp only [finish, Option.some.injEq, Prod.mk.injEq] at hs
      obtain ⟨rfl, _⟩ := hs
      exact inv_same h hth rfl (by simp [hn]) (by simp; omega) (by simp; omega) (by simp [hpc])
        (by simp [TOk]) (Or.inl rfl) (by simp [hpc]) (by simp [hpc]) (by simp [isFree])
    · rename_i k hn
      simp only [park, Option.some.injEq, Prod.mk.injEq] at hs
      obtain ⟨rfl, _⟩ := hs
      exact start_merge h hth hpc k _ true _ ⟨rfl, rfl, rfl, rfl, rfl⟩ rfl rfl rfl rfl rfl
        ⟨rfl, rfl, rfl, rfl⟩ ⟨rfl, rfl⟩ (by simp; omega) rfl rfl (by simp [hn])

theorem case_exit {s : State} {t : Tid} {th : Thread} (h : Inv s) (hth : s.threads[t]? = some th)
    (hpc : th.pc = .idle) : ∀ s' o, step s t .exit = some (s', o) → Inv s' := by
  intro s' o hs
  simp only [step, hth, hpc] at hs
  split at hs
  · cases hs
  · split at hs
    · rename_i hn
      simp only [finish, Option.some.injEq, Prod.mk.injEq] at hs
      obtain ⟨rfl, _⟩ := hs
      exact inv_same h hth rfl (by simp [hn]) (by simp; omega) (by simp) (by simp [hpc])
        (by simp [TOk]) (Or.inl rfl) (by simp [hpc]) (by simp [hpc]) (by simp [isFree])
    · rename_i k hn
      simp only [park, Option.some.injEq, Prod.mk.injEq] at hs
      obtain ⟨rfl, _⟩ := hs
      exact start_merge h hth hpc k _ false _ ⟨rfl, rfl, rfl, rfl, rfl⟩ rfl rfl rfl rfl rfl
        ⟨rfl, rfl, rfl, rfl⟩ ⟨rfl, rfl⟩ (by simp; omega) rfl rfl (by simp [hn])

end SteelVerif.C05
