/-
C05 — no self-livelock: a thread that is scheduled alone completes the operation it is in within a
bounded number of its own atomic steps (`solo_completes`, bound `rank ≤ 12`).  Compare-exchange loops
retry only after interference: alone, a stale compare-exchange fails once, reloads, and succeeds.
-/
import SteelVerif.C05.LiveStepB
namespace SteelVerif.C05
set_option linter.unusedSimpArgs false
set_option linter.unusedVariables false

/-- One more round of a compare-exchange loop is needed iff the expected value is stale. -/
def pen (w old : Word) : Nat := if w = old then 0 else 1

/-- Upper bound on the number of steps thread needs, alone, to finish from `pc` when the shared word
is `w` (6 per queue entry that is still to be merged). -/
def rank (w : Word) : PC → Nat
  | .idle => 0
  | .incLoad => 2
  | .incCas old => pen w old + 1
  | .dfLoad r => 6 + 6 * r.pend
  | .dfCas r old => pen w old + 5 + 6 * r.pend
  | .dfSetNone r => 4 + 6 * r.pend
  | .dsLoad r => (if w.merged then 3 else 6) + 6 * r.pend
  | .dsCas r old => pen w old + (if w.merged then 2 else 5) + 6 * r.pend
  | .enq r => 4 + 6 * r.pend
  | .free r => 1 + 6 * r.pend
  | .uqOwner => 2 | .uqLoadNone => 1 | .uqLoadOwn => 1
  | .uwOwner => 4 | .uwLoadNone => 3 | .uwCas _ => 2 | .uwLoadOwn => 2 | .uwFree _ => 1
  | .mgLoad rest _ _ => 6 * (rest + 1)
  | .mgCas rest _ _ old => pen w old + 5 + 6 * rest
  | .mgSetNone rest _ _ => 4 + 6 * rest

/-- The thread is inside `explicit_merge` (it may hold the dashmap guard itself). -/
def inMerge : PC → Bool
  | .mgLoad .. | .mgCas .. | .mgSetNone .. => true
  | .dsLoad r | .dsCas r _ | .free r => r.isMerge
  | _ => false

/-- No other thread holds the dashmap guard that `enqueue` needs. -/
def LockOK (s : State) (t : Tid) (pc : PC) : Prop :=
  s.lock = none ∨ (s.lock = some t ∧ inMerge pc = true)

/-- `k` steps of thread `t` alone. -/
def solo (t : Tid) : Nat → State → State
  | 0, s => s
  | n + 1, s =>
      match step s t .step with
      | some (s', _) => solo t n s'
      | none => s

/-- What one solo step achieves. -/
def SoloOut (s : State) (t : Tid) (th : Thread) (s' : State) : Prop :=
  ∃ th', s'.threads[t]? = some th' ∧ rank s'.w th'.pc < rank s.w th.pc ∧
    (LockOK s t th.pc → (th'.pc = .idle ∨ LockOK s' t th'.pc)) ∧
    th'.regQ = th.regQ ∧ th'.unregQ = th.unregQ

theorem solo_put {s s1 : State} {t : Tid} {th th' : Thread} (hth : s.threads[t]? = some th)
    (e : s1.threads = s.threads) (hr : rank s1.w th'.pc < rank s.w th.pc)
    (hl : LockOK s t th.pc → (th'.pc = .idle ∨ LockOK s1 t th'.pc))
    (q1 : th'.regQ = th.regQ) (q2 : th'.unregQ = th.unregQ) :
    SoloOut s t th (s1.put t th th') :=
  ⟨th', put_get_same (by rw [e]; exact hth) _, by simpa using hr,
    fun h0 => by simpa [LockOK] using hl h0, q1, q2⟩

theorem solo_ret {s s1 : State} {t : Tid} {th th' : Thread} (r : Ret) (hth : s.threads[t]? = some th)
    (e : s1.threads = s.threads) (hr : 6 * r.pend < rank s.w th.pc)
    (hl : LockOK s t th.pc → (s1.lock = none ∨ s1.lock = some t))
    (q1 : th'.regQ = th.regQ) (q2 : th'.unregQ = th.unregQ) :
    SoloOut s t th (ret s1 t th th' r).1 := by
  cases r with
  | op => exact solo_put hth e (by show (0 : Nat) < _; omega) (fun _ => Or.inl rfl) q1 q2
  | merge rest n lk =>
    cases rest with
    | zero =>
      simp only [ret]
      exact solo_put (s1 := if lk = true then { s1 with lock := none } else s1) hth
        (by split <;> simp [e]) (by show (0 : Nat) < _; omega) (fun _ => Or.inl rfl) q1 q2
    | succ k =>
      refine solo_put hth e ?_ (fun h0 => Or.inr ?_) q1 q2
      · show 6 * (k + 1) < _; simp only [Ret.pend] at hr; omega
      · rcases hl h0 with hl | hl
        · exact Or.inl hl
        · exact Or.inr ⟨hl, rfl⟩

theorem pen_le (w old : Word) : pen w old ≤ 1 := by unfold pen; split <;> omega
theorem pen_self (w : Word) : pen w w = 0 := by simp [pen]
theorem pen_ne {w old : Word} (h : ¬ w = old) : pen w old = 1 := by simp [pen, h]
theorem pen_eq {w old : Word} (h : w = old) : pen w old = 0 := by simp [pen, h]

theorem lock_of {s : State} {t : Tid} {pc : PC} (hl : LockOK s t pc) :
    s.lock = none ∨ s.lock = some t := by
  rcases hl with hl | hl
  · exact Or.inl hl
  · exact Or.inr hl.1

theorem lockOK_keep {s s1 : State} {t : Tid} {pc pc' : PC} (hl : LockOK s t pc) (e : s1.lock = s.lock)
    (hm : inMerge pc = true → inMerge pc' = true) : LockOK s1 t pc' := by
  rcases hl with hl | hl
  · exact Or.inl (by rw [e]; exact hl)
  · exact Or.inr ⟨by rw [e]; exact hl.1, hm hl.2⟩

theorem ret_get_other (s : State) (t u : Tid) (th th' : Thread) (r : Ret) (hut : u ≠ t) :
    (ret s t th th' r).1.threads[u]? = s.threads[u]? := by
  obtain ⟨sh, hfst⟩ := ret_fst s t th th' r
  rw [hfst, put_get_other hut, (unlock_fields s r).1]

theorem SoloOut.put_other {s s1 : State} {t k : Tid} {th x y : Thread} (o : SoloOut s t th s1)
    (hk : t ≠ k) : SoloOut s t th (s1.put k x y) := by
  obtain ⟨th', a, b, c, d, e⟩ := o
  exact ⟨th', by rw [put_get_other hk]; exact a, by simpa using b,
    fun h0 => by simpa [LockOK] using c h0, d, e⟩

theorem dealloc_threads (s : State) (n : Nat) : (s.dealloc n).threads = s.threads := by
  simp only [State.dealloc]; split <;> rfl

theorem dealloc_lock (s : State) (n : Nat) : (s.dealloc n).lock = s.lock := by
  simp only [State.dealloc]; split <;> rfl

/-- A parked thread scheduled alone can always take its next step (it never waits for itself), and
the step brings it strictly closer to the end of its operation. -/
theorem solo_step {s : State} {t : Tid} {th : Thread} (h : Inv s) (hth : s.threads[t]? = some th)
    (hne : th.pc ≠ .idle) (hE : ∀ r, th.pc = .enq r → s.lock = none) :
    ∃ s' o, step s t .step = some (s', o) ∧ SoloOut s t th s' := by
  have hal := alive_of_pc h hth hne
  have ti := h.thr t th hth
  have hok := ti.ok
  cases hpc : th.pc with
  | idle => exact absurd hpc hne
  | incLoad =>
    refine ⟨_, _, by simp only [step, hth, hpc, touch_eq hal.2, park]; rfl, ?_⟩
    exact solo_put hth rfl (by simp [rank, hpc, pen_self])
      (fun hl => Or.inr (lockOK_keep hl rfl (by simp [hpc, inMerge]))) rfl rfl
  | incCas old =>
    by_cases hw : s.w = old
    · refine ⟨_, _, by simp only [step, hth, hpc, touch_eq hal.2, hw, if_true, finish]; rfl, ?_⟩
      exact solo_put (s1 := { s with w := { old with cnt := old.cnt + 1 } }) hth rfl
        (by simp [rank, hpc]) (fun _ => Or.inl rfl) rfl rfl
    · refine ⟨_, _, by simp only [step, hth, hpc, touch_eq hal.2, hw, if_false, park]; rfl, ?_⟩
      exact solo_put hth rfl (by simp [rank, hpc, pen_self, pen_ne hw])
        (fun hl => Or.inr (lockOK_keep hl rfl (by simp [hpc, inMerge]))) rfl rfl
  | dfLoad r =>
    refine ⟨_, _, by simp only [step, hth, hpc, touch_eq hal.2, park]; rfl, ?_⟩
    exact solo_put hth rfl (by simp [rank, hpc, pen_self])
      (fun hl => Or.inr (lockOK_keep hl rfl (by simp [hpc, inMerge]))) rfl rfl
  | dfCas r old =>
    by_cases hw : s.w = old
    · refine ⟨_, _, by simp only [step, hth, hpc, touch_eq hal.2, hw, if_true, park]; rfl, ?_⟩
      exact solo_put (s1 := { s with w := { old with merged := true, cnt := old.cnt + 1 } }) hth rfl
        (by simp [rank, hpc, pen_eq hw]) (fun hl => Or.inr (lockOK_keep hl rfl (by simp [hpc, inMerge]))) rfl rfl
    · refine ⟨_, _, by simp only [step, hth, hpc, touch_eq hal.2, hw, if_false, park]; rfl, ?_⟩
      exact solo_put hth rfl (by simp [rank, hpc, pen_self, pen_ne hw])
        (fun hl => Or.inr (lockOK_keep hl rfl (by simp [hpc, inMerge]))) rfl rfl
  | dfSetNone r =>
    simp only [TOk, hpc] at hok
    refine ⟨_, _, by simp only [step, hth, hpc, touch_eq hal.2, park]; rfl, ?_⟩
    exact solo_put (s1 := { s with owner := none }) hth rfl (by simp [rank, hpc, hok.2.2.1])
      (fun hl => Or.inr (lockOK_keep hl rfl (by simp [hpc, inMerge]))) rfl rfl
  | dsLoad r =>
    refine ⟨_, _, by simp only [step, hth, hpc, touch_eq hal.2, park]; rfl, ?_⟩
    exact solo_put hth rfl (by simp only [rank, hpc, pen_self]; split <;> omega)
      (fun hl => Or.inr (lockOK_keep hl rfl (by simp [hpc, inMerge]))) rfl rfl
  | dsCas r old =>
    simp only [TOk, hpc] at hok
    obtain ⟨hp, hr, hno⟩ := hok
    suffices hx : ∀ res, step s t .step = res → ∃ s' o, res = some (s', o) ∧ SoloOut s t th s' by
      obtain ⟨s', o, e, so⟩ := hx _ rfl
      exact ⟨s', o, e, so⟩
    intro res hs
    simp only [step, hth, hpc, touch_eq hal.2] at hs
    split at hs
    · rename_i hw
      split at hs
      · rename_i hcond
        have hm : s.w.merged = false := by rw [hw]; exact hcond.2.2
        simp only [park] at hs
        subst hs
        refine ⟨_, _, rfl, ?_⟩
        refine solo_put (s1 := { s with w := { old with queued := true } }) (th' := { th with pc := .enq r })
          hth rfl ?_ (fun hl => Or.inr (Or.inl ?_)) rfl rfl
        · show rank _ (PC.enq r) < _
          simp only [rank, hpc, pen_eq hw, hm]; simp
        · rcases hl with hl | hl
          · exact hl
          · exfalso
            have hn := hr (by simpa [hpc, inMerge] using hl.2)
            have := h.ownerNone hal.1 hn
            rw [hm] at this; cases this
      · split at hs
        · rename_i hz
          have hm : s.w.merged = true := by rw [hw]; exact hz.1
          simp only [park] at hs
          subst hs
          refine ⟨_, _, rfl, ?_⟩
          refine solo_put (s1 := { s with w := { old with cnt := old.cnt - 1 } })
            (th' := { th with temp := th.temp - 1, pc := .free r }) hth rfl ?_
            (fun hl => Or.inr (lockOK_keep hl rfl (by simp [hpc, inMerge]))) rfl rfl
          show rank _ (PC.free r) < _
          simp only [rank, hpc, pen_eq hw, hm]; simp
        · subst hs
          refine ⟨_, _, rfl, ?_⟩
          exact solo_ret (s1 := { s with w := { old with cnt := old.cnt - 1 } }) r hth rfl
            (by simp only [rank, hpc]; split <;> omega) (fun hl => lock_of hl) rfl rfl
    · rename_i hw
      simp only [park] at hs
      subst hs
      refine ⟨_, _, rfl, ?_⟩
      refine solo_put (th' := { th with pc := .dsCas r s.w }) hth rfl ?_
        (fun hl => Or.inr (lockOK_keep hl rfl (by simp [hpc, inMerge]))) rfl rfl
      show rank _ (PC.dsCas r s.w) < _
      simp only [rank, hpc, pen_self, pen_ne hw]; omega
  | enq r =>
    simp only [TOk, hpc] at hok
    obtain ⟨hp, hq, hr, hno⟩ := hok
    have hlock : s.lock = none := hE r hpc
    suffices hx : ∀ res, step s t .step = res → ∃ s' o, res = some (s', o) ∧ SoloOut s t th s' by
      obtain ⟨s', o, e, so⟩ := hx _ rfl
      exact ⟨s', o, e, so⟩
    intro res hs
    simp only [step, hth, hpc, hlock, Option.isSome_none, Bool.false_eq_true, if_false, touch_eq hal.2] at hs
    split at hs
    · rename_i hn
      have hm := h.ownerNone hal.1 hn
      subst hs
      refine ⟨_, _, rfl, ?_⟩
      exact solo_put hth rfl (by simp [rank, hpc, hm])
        (fun _ => Or.inr (Or.inl hlock)) rfl rfl
    · rename_i k hk
      have hkt : t ≠ k := by intro e; apply hno; rw [hk, e]
      have hkl := h.ownerEx k hk
      have hlook : (ret s t th { th with temp := th.temp - 1 } r).1.threads[k]? = s.threads[k]? :=
        ret_get_other s t k th _ r (Ne.symm hkt)
      have hsome : ∃ tk, s.threads[k]? = some tk := ⟨s.threads[k], by simp [hkl]⟩
      obtain ⟨tk, htk⟩ := hsome
      have so : SoloOut s t th (ret s t th { th with temp := th.temp - 1 } r).1 :=
        solo_ret r hth rfl (by simp only [rank, hpc]; omega) (fun _ => Or.inl hlock) rfl rfl
      split at hs
      · rename_i hnone
        simp only [hpc] at hlook
        rw [hlook, htk] at hnone; cases hnone
      · subst hs
        exact ⟨_, _, rfl, so.put_other hkt⟩
  | free r =>
    refine ⟨_, _, by simp only [step, hth, hpc, touch_eq hal.2]; rfl, ?_⟩
    exact solo_ret r hth (dealloc_threads _ _) (by simp only [rank, hpc]; omega)
      (fun hl => by rw [dealloc_lock]; exact lock_of hl) rfl rfl
  | uqOwner =>
    suffices hx : ∀ res, step s t .step = res → ∃ s' o, res = some (s', o) ∧ SoloOut s t th s' by
      obtain ⟨s', o, e, so⟩ := hx _ rfl
      exact ⟨s', o, e, so⟩
    intro res hs
    simp only [step, hth, hpc, touch_eq hal.2, park, finish] at hs
    (repeat' split at hs) <;> subst hs <;> refine ⟨_, _, rfl, ?_⟩ <;>
      exact solo_put hth rfl (by simp [rank, hpc])
        (fun hl => Or.inr (lockOK_keep hl rfl (by simp [hpc, inMerge]))) rfl rfl
  | uwOwner =>
    suffices hx : ∀ res, step s t .step = res → ∃ s' o, res = some (s', o) ∧ SoloOut s t th s' by
      obtain ⟨s', o, e, so⟩ := hx _ rfl
      exact ⟨s', o, e, so⟩
    intro res hs
    simp only [step, hth, hpc, touch_eq hal.2, park, finish] at hs
    (repeat' split at hs) <;> subst hs <;> refine ⟨_, _, rfl, ?_⟩ <;>
      exact solo_put hth rfl (by simp [rank, hpc])
        (fun hl => Or.inr (lockOK_keep hl rfl (by simp [hpc, inMerge]))) rfl rfl
  | uqLoadNone =>
    refine ⟨_, _, by simp only [step, hth, hpc, touch_eq hal.2, finish]; rfl, ?_⟩
    exact solo_put hth (by split <;> rfl) (by simp [rank, hpc]) (fun _ => Or.inl rfl) rfl rfl
  | uqLoadOwn =>
    refine ⟨_, _, by simp only [step, hth, hpc, touch_eq hal.2, finish]; rfl, ?_⟩
    exact solo_put hth (by split <;> rfl) (by simp [rank, hpc]) (fun _ => Or.inl rfl) rfl rfl
  | uwLoadNone =>
    refine ⟨_, _, by simp only [step, hth, hpc, touch_eq hal.2, park]; rfl, ?_⟩
    exact solo_put hth rfl (by simp [rank, hpc])
      (fun hl => Or.inr (lockOK_keep hl rfl (by simp [hpc, inMerge]))) rfl rfl
  | uwCas old =>
    by_cases hw : s.w = { old with cnt := 1 }
    · refine ⟨_, _, by simp only [step, hth, hpc, touch_eq hal.2, hw, if_true, park]; rfl, ?_⟩
      exact solo_put (s1 := { s with w := { old with cnt := 0 } }) hth rfl
        (by simp [rank, hpc]) (fun hl => Or.inr (lockOK_keep hl rfl (by simp [hpc, inMerge]))) rfl rfl
    · refine ⟨_, _, by simp only [step, hth, hpc, touch_eq hal.2, hw, if_false, finish]; rfl, ?_⟩
      exact solo_put hth rfl (by simp [rank, hpc]) (fun _ => Or.inl rfl) rfl rfl
  | uwLoadOwn =>
    suffices hx : ∀ res, step s t .step = res → ∃ s' o, res = some (s', o) ∧ SoloOut s t th s' by
      obtain ⟨s', o, e, so⟩ := hx _ rfl
      exact ⟨s', o, e, so⟩
    intro res hs
    simp only [step, hth, hpc, touch_eq hal.2, park, finish] at hs
    split at hs
    · subst hs
      refine ⟨_, _, rfl, ?_⟩
      exact solo_put (th' := { th with pc := .idle, shown := th.held }) hth rfl
        (by show (0 : Nat) < _; simp [rank, hpc]) (fun _ => Or.inl rfl) rfl rfl
    · subst hs
      refine ⟨_, _, rfl, ?_⟩
      exact solo_put (th' := { th with pc := .uwFree true }) hth rfl
        (by show rank _ (PC.uwFree true) < _; simp [rank, hpc])
        (fun hl => Or.inr (lockOK_keep hl rfl (by simp [hpc, inMerge]))) rfl rfl
  | uwFree own =>
    refine ⟨_, _, by simp only [step, hth, hpc, touch_eq hal.2, finish]; rfl, ?_⟩
    exact solo_put hth (dealloc_threads _ _) (by simp [rank, hpc]) (fun _ => Or.inl rfl) rfl rfl
  | mgLoad rest n lk =>
    refine ⟨_, _, by simp only [step, hth, hpc, touch_eq hal.2, park]; rfl, ?_⟩
    exact solo_put hth rfl (by simp only [rank, hpc, pen_self]; omega)
      (fun hl => Or.inr (lockOK_keep hl rfl (by simp [hpc, inMerge]))) rfl rfl
  | mgCas rest n lk old =>
    by_cases hw : s.w = old
    · refine ⟨_, _, by simp only [step, hth, hpc, touch_eq hal.2, hw, if_true, park]; rfl, ?_⟩
      exact solo_put (s1 := { s with w := { old with cnt := old.cnt + s.biased, merged := true } }) hth rfl
        (by simp [rank, hpc, pen_eq hw]) (fun hl => Or.inr (lockOK_keep hl rfl (by simp [hpc, inMerge]))) rfl rfl
    · refine ⟨_, _, by simp only [step, hth, hpc, touch_eq hal.2, hw, if_false, park]; rfl, ?_⟩
      exact solo_put hth rfl (by simp [rank, hpc, pen_self, pen_ne hw])
        (fun hl => Or.inr (lockOK_keep hl rfl (by simp [hpc, inMerge]))) rfl rfl
  | mgSetNone rest n lk =>
    simp only [TOk, hpc] at hok
    refine ⟨_, _, by simp only [step, hth, hpc, touch_eq hal.2, park]; rfl, ?_⟩
    exact solo_put (s1 := { s with owner := none }) hth rfl
      (by simp [rank, hpc, hok.2.1, Ret.pend])
      (fun hl => Or.inr (lockOK_keep hl rfl (by simp [hpc, inMerge, Ret.isMerge]))) rfl rfl

theorem enq_lock {s : State} {t : Tid} {pc : PC} (hl : LockOK s t pc) :
    ∀ r, pc = .enq r → s.lock = none := by
  intro r hr
  rcases hl with hl | hl
  · exact hl
  · rw [hr] at hl; simp [inMerge] at hl

/-- **No self-livelock.**  A thread scheduled alone reaches the end of its operation within
`rank` of its own steps; its own merge queues are not touched on the way. -/
theorem solo_completes (t : Tid) : ∀ (n : Nat) {s : State} {th : Thread}, Inv s →
    s.threads[t]? = some th → (th.pc = .idle ∨ LockOK s t th.pc) → rank s.w th.pc ≤ n →
    ∃ k, k ≤ n ∧ ∃ th', (solo t k s).threads[t]? = some th' ∧ th'.pc = .idle ∧
      th'.regQ = th.regQ ∧ th'.unregQ = th.unregQ ∧ Inv (solo t k s) := by
  intro n
  induction n with
  | zero =>
    intro s th h hth hl hr
    by_cases hi : th.pc = .idle
    · exact ⟨0, Nat.le_refl _, th, hth, hi, rfl, rfl, h⟩
    · rcases hl with hl | hl
      · exact absurd hl hi
      · obtain ⟨s', o, hs, th', _, hlt, _⟩ := solo_step h hth hi (enq_lock hl)
        omega
  | succ m ih =>
    intro s th h hth hl hr
    by_cases hi : th.pc = .idle
    · exact ⟨0, Nat.zero_le _, th, hth, hi, rfl, rfl, h⟩
    · rcases hl with hl | hl
      · exact absurd hl hi
      · obtain ⟨s', o, hs, th', hth', hlt, hl', q1, q2⟩ := solo_step h hth hi (enq_lock hl)
        obtain ⟨k, hk, th2, a, b, c, d, e⟩ := ih (step_inv h hs) hth' (hl' hl) (by omega)
        refine ⟨k + 1, by omega, th2, ?_, b, by rw [c, q1], by rw [d, q2], ?_⟩
        · simp only [solo, hs]; exact a
        · simp only [solo, hs]; exact e

/-- The thread is parked at `enqueue` and cannot take the step because a dashmap guard is held
(by a thread parked inside `run_explicit_merge`): blocking on a lock. -/
def BlockedAtEnqueue (s : State) (t : Tid) : Prop :=
  ∃ th r, s.threads[t]? = some th ∧ th.pc = .enq r ∧ s.lock.isSome = true ∧ step s t .step = none

theorem blocked_of {s : State} {t : Tid} {th : Thread} {r : Ret} (hth : s.threads[t]? = some th)
    (hr : th.pc = .enq r) (hsome : s.lock.isSome = true) : BlockedAtEnqueue s t :=
  ⟨th, r, hth, hr, hsome, by simp [step, hth, hr, hsome]⟩

/-- The same without any assumption on the guard: alone, a thread either completes its operation
within `rank` steps or comes to wait for the dashmap guard at `enqueue` - there is no other way not
to make progress. -/
theorem solo_completes_or_blocks (t : Tid) : ∀ (n : Nat) {s : State} {th : Thread}, Inv s →
    s.threads[t]? = some th → rank s.w th.pc ≤ n →
    ∃ k, k ≤ n ∧ ((∃ th', (solo t k s).threads[t]? = some th' ∧ th'.pc = .idle) ∨
      BlockedAtEnqueue (solo t k s) t) := by
  intro n
  induction n with
  | zero =>
    intro s th h hth hr
    by_cases hi : th.pc = .idle
    · exact ⟨0, Nat.le_refl _, Or.inl ⟨th, hth, hi⟩⟩
    · by_cases hE : ∀ r, th.pc = .enq r → s.lock = none
      · obtain ⟨s', o, hs, th', _, hlt, _⟩ := solo_step h hth hi hE
        omega
      · refine ⟨0, Nat.le_refl _, Or.inr ?_⟩
        have hE' : ∃ r, th.pc = .enq r ∧ s.lock ≠ none := by
          apply Classical.byContradiction; intro hc; apply hE; intro r hr'
          apply Classical.byContradiction; intro hn; exact hc ⟨r, hr', hn⟩
        obtain ⟨r, hr', hn⟩ := hE'
        have hsome : s.lock.isSome = true := by
          cases hl : s.lock with
          | none => exact absurd hl hn
          | some u => rfl
        exact blocked_of hth hr' hsome
  | succ m ih =>
    intro s th h hth hr
    by_cases hi : th.pc = .idle
    · exact ⟨0, Nat.zero_le _, Or.inl ⟨th, hth, hi⟩⟩
    · by_cases hE : ∀ r, th.pc = .enq r → s.lock = none
      · obtain ⟨s', o, hs, th', hth', hlt, _⟩ := solo_step h hth hi hE
        obtain ⟨k, hk, hres⟩ := ih (step_inv h hs) hth' (by omega)
        refine ⟨k + 1, by omega, ?_⟩
        simp only [solo, hs]; exact hres
      · refine ⟨0, Nat.zero_le _, Or.inr ?_⟩
        have hE' : ∃ r, th.pc = .enq r ∧ s.lock ≠ none := by
          apply Classical.byContradiction; intro hc; apply hE; intro r hr'
          apply Classical.byContradiction; intro hn; exact hc ⟨r, hr', hn⟩
        obtain ⟨r, hr', hn⟩ := hE'
        have hsome : s.lock.isSome = true := by
          cases hl : s.lock with
          | none => exact absurd hl hn
          | some u => rfl
        exact blocked_of hth hr' hsome

/-- The bound is a numeral in every state that satisfies the invariant. -/
theorem rank_le {s : State} {t : Tid} {th : Thread} (h : Inv s) (hth : s.threads[t]? = some th) :
    rank s.w th.pc ≤ 12 := by
  have hp : th.pc.pend ≤ 1 := by
    have := (h.bnd hth).2.2.2
    have := h.ent.1
    omega
  cases hpc : th.pc <;> simp only [hpc, PC.pend] at hp <;> simp only [rank]
  all_goals first
    | omega
    | (have := pen_le s.w ‹Word›; (try split) <;> omega)
    | (split <;> omega)

end SteelVerif.C05
