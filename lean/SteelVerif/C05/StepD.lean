/-
C05 — preservation, part D: the decrement protocol, the merge queue, deallocation.
-/
import SteelVerif.C05.StepC
namespace SteelVerif.C05
set_option linter.unusedSimpArgs false
set_option linter.unusedVariables false

/-- The invariant does not mention the dashmap guard. -/
theorem inv_lock {s : State} (h : Inv s) (l : Option Tid) : Inv { s with lock := l } :=
  ⟨h.flags, h.frees, h.sums, h.pre, h.dead, h.count, h.ownerEx, h.ownerNone, h.ent, h.freeUniq,
    fun t th hth => TInv.congr (s := s) rfl rfl rfl rfl rfl (h.thr t th hth)⟩

/-- Where a thread goes when its decrement protocol is over. -/
def Ret.next : Ret → PC
  | .op => .idle
  | .merge 0 _ _ => .idle
  | .merge (k + 1) n lk => .mgLoad k n lk

def Ret.unlock (s : State) : Ret → State
  | .merge 0 _ true => { s with lock := none }
  | _ => s

theorem ret_fst (s : State) (t : Tid) (th th' : Thread) (r : Ret) :
    ∃ sh, (ret s t th th' r).1 = (r.unlock s).put t th { th' with pc := r.next, shown := sh } := by
  cases r with
  | op => exact ⟨th'.held, rfl⟩
  | merge rest n lk =>
    cases rest with
    | zero => cases lk <;> exact ⟨th'.held, rfl⟩
    | succ k => exact ⟨th'.shown, rfl⟩

theorem next_pend (r : Ret) : r.next.pend = r.pend := by
  cases r with
  | op => rfl
  | merge rest n lk => cases rest <;> rfl

theorem next_flags (r : Ret) : isFree r.next = false ∧ isSetNone r.next = false ∧ isDf r.next = false := by
  cases r with
  | op => exact ⟨rfl, rfl, rfl⟩
  | merge rest n lk => cases rest <;> exact ⟨rfl, rfl, rfl⟩

theorem next_ok {s : State} {t : Tid} {th' : Thread} (r : Ret) (sh : Nat) (hp : r.pend ≤ th'.temp)
    (hr : RetOk s r) : TOk s t { th' with pc := r.next, shown := sh } := by
  cases r with
  | op => simp [TOk, Ret.next]
  | merge rest n lk =>
    cases rest with
    | zero => simp [TOk, Ret.next]
    | succ k =>
      simp only [TOk, Ret.next]
      exact ⟨by simpa [Ret.pend] using hp, Or.inr (hr rfl)⟩

theorem unlock_fields (s : State) (r : Ret) :
    (r.unlock s).threads = s.threads ∧ (r.unlock s).gH = s.gH ∧ (r.unlock s).gT = s.gT ∧
    (r.unlock s).gQ = s.gQ ∧ (r.unlock s).gP = s.gP ∧ (r.unlock s).owner = s.owner ∧
    (r.unlock s).biased = s.biased ∧ (r.unlock s).w = s.w ∧ (r.unlock s).created = s.created ∧
    (r.unlock s).alive = s.alive ∧ (r.unlock s).uaf = s.uaf ∧ (r.unlock s).badUnique = s.badUnique ∧
    (r.unlock s).earlyFree = s.earlyFree ∧ (r.unlock s).underflow = s.underflow ∧
    (r.unlock s).drops = s.drops ∧ (r.unlock s).frees = s.frees := by
  cases r with
  | op => simp [Ret.unlock]
  | merge rest n lk => cases rest <;> cases lk <;> simp [Ret.unlock]

/-- Assemble the invariant after a step that ends the decrement protocol of `t` (`ret`). -/
theorem inv_ret {s s1 : State} {t : Tid} {th th' : Thread} (r : Ret) (h : Inv s)
    (hth : s.threads[t]? = some th)
    (e : s1.threads = s.threads ∧ s1.gH = s.gH ∧ s1.gT = s.gT ∧ s1.gQ = s.gQ ∧ s1.gP = s.gP)
    (flags : s1.uaf = false ∧ s1.badUnique = false ∧ s1.earlyFree = false ∧ s1.underflow = false)
    (frees : s1.drops = s1.frees ∧ s1.frees = (if s1.created = true ∧ s1.alive = false then 1 else 0))
    (hc : s1.created = true)
    (dead : s1.alive = false →
        s.gH + th'.held - th.held + (s.gT + th'.temp - th.temp) +
          (s.gQ + (th'.regQ + th'.unregQ) - (th.regQ + th.unregQ)) = 0)
    (count : s1.alive = true →
        (if s1.w.merged then s1.w.cnt else (s1.biased : Int) + s1.w.cnt) =
          ((s.gH + th'.held - th.held + (s.gT + th'.temp - th.temp) +
            (s.gQ + (th'.regQ + th'.unregQ) - (th.regQ + th.unregQ)) : Nat) : Int))
    (ownerEx : ∀ o, s1.owner = some o → o < s.threads.length)
    (ownerNone : s1.owner = none → s1.w.merged = true)
    (ent : (s.gQ + (th'.regQ + th'.unregQ) - (th.regQ + th.unregQ)) + (s.gP + r.pend - th.pc.pend) ≤ 1 ∧
        (s1.w.queued = false →
          (s.gQ + (th'.regQ + th'.unregQ) - (th.regQ + th.unregQ)) + (s.gP + r.pend - th.pc.pend) = 0) ∧
        (s1.w.merged = true →
          1 ≤ (s.gQ + (th'.regQ + th'.unregQ) - (th.regQ + th.unregQ)) + (s.gP + r.pend - th.pc.pend) →
          s1.biased = 0))
    (hp : r.pend ≤ th'.temp) (hr : RetOk s1 r)
    (hidle : s1.alive = false → r.next = .idle)
    (hown : s1.owner = some t → s1.w.merged = false ∧ s1.biased ≠ 0)
    (hq : 0 < th'.regQ + th'.unregQ → s1.owner = some t ∨ s1.owner = none)
    (ho : ∀ (u : Tid) (tu : Thread), u ≠ t → s.threads[u]? = some tu → TInv s u tu → TInv s1 u tu) :
    Inv (ret s1 t th th' r).1 := by
  obtain ⟨sh, hfst⟩ := ret_fst s1 t th th' r
  rw [hfst]
  obtain ⟨u0, uH, uT, uQ, uP, uo, ub, uw, uc, ua, f1, f2, f3, f4, ud, uf⟩ := unlock_fields s1 r
  obtain ⟨e0, eH, eT, eQ, eP⟩ := e
  have np := next_pend r
  obtain ⟨nf, nsn, ndf⟩ := next_flags r
  refine inv_of_put h hth ⟨by rw [u0, e0], by rw [uH, eH], by rw [uT, eT], by rw [uQ, eQ], by rw [uP, eP]⟩
    (by rw [f1, f2, f3, f4]; exact flags) (by rw [ud, uf, uc, ua]; exact frees) ?_ ?_ ?_
    (by rw [uo]; exact ownerEx) (by rw [uo, uw]; exact fun _ => ownerNone) ?_ ?_ ?_ ?_
  · intro hc'; rw [uc, hc] at hc'; cases hc'
  · intro _ ha; rw [ua] at ha
    simp only [State.total, put_gH, put_gT, put_gQ, uH, uT, uQ, eH, eT, eQ]
    exact dead ha
  · intro ha; rw [ua] at ha; rw [uc, uw, ub]
    refine ⟨hc, ?_⟩
    simp only [State.total, put_gH, put_gT, put_gQ, uH, uT, uQ, eH, eT, eQ]
    exact count ha
  · rw [uw, ub]
    simp only [put_gQ, put_gP, uQ, uP, eQ, eP, np]
    exact ent
  · intro hf; simp only [nf] at hf; cases hf
  · refine ⟨?_, ?_, ?_, ?_⟩
    · have := next_ok (s := s1) (t := t) r sh hp hr
      unfold TOk RetOk at *
      simp only [put_owner, put_biased, put_w, uo, ub, uw]
      exact this
    · intro hx
      simp only [put_created, put_alive, uc, ua, hc] at hx
      rcases hx with hx | hx
      · cases hx
      · exact hidle hx
    · intro ho'
      simp only [put_owner, uo] at ho'
      have := hown ho'
      simp only [put_w, put_biased, uw, ub, nsn, ndf]
      refine ⟨fun hm => ?_, fun hb => absurd hb this.2⟩
      rw [this.1] at hm; cases hm
    · intro hq'; simp only [put_owner, uo]; exact hq hq'
  · intro u tu hut htu hi
    exact TInv.congr (s := s1) (by simp [uo]) (by simp [ub]) (by simp [uw]) (by simp [uc]) (by simp [ua])
      (ho u tu hut htu hi)

theorem case_dfLoad {s : State} {t : Tid} {th : Thread} (r : Ret) (h : Inv s)
    (hth : s.threads[t]? = some th) (hpc : th.pc = .dfLoad r) :
    ∀ s' o, step s t .step = some (s', o) → Inv s' := by
  intro s' o hs
  have hal := alive_of_pc h hth (by rw [hpc]; simp)
  have ti := h.thr t th hth
  simp only [step, hth, hpc, touch_eq hal.2, park, Option.some.injEq, Prod.mk.injEq] at hs
  obtain ⟨rfl, _⟩ := hs
  have hok := ti.ok; simp only [TOk, hpc] at hok
  exact step_park h hth (by rw [hpc]; simp) _ (by simp [hpc, PC.pend]) (by simpa [TOk] using hok)
    (by simp [hpc, isSetNone]) (by simp [hpc, isDf]) (by simp [isFree])

theorem case_dsLoad {s : State} {t : Tid} {th : Thread} (r : Ret) (h : Inv s)
    (hth : s.threads[t]? = some th) (hpc : th.pc = .dsLoad r) :
    ∀ s' o, step s t .step = some (s', o) → Inv s' := by
  intro s' o hs
  have hal := alive_of_pc h hth (by rw [hpc]; simp)
  have ti := h.thr t th hth
  simp only [step, hth, hpc, touch_eq hal.2, park, Option.some.injEq, Prod.mk.injEq] at hs
  obtain ⟨rfl, _⟩ := hs
  have hok := ti.ok; simp only [TOk, hpc] at hok
  exact step_park h hth (by rw [hpc]; simp) _ (by simp [hpc, PC.pend]) (by simpa [TOk] using hok)
    (by simp [hpc, isSetNone]) (by simp [hpc, isDf]) (by simp [isFree])

theorem case_mgLoad {s : State} {t : Tid} {th : Thread} (rest n : Nat) (lk : Bool) (h : Inv s)
    (hth : s.threads[t]? = some th) (hpc : th.pc = .mgLoad rest n lk) :
    ∀ s' o, step s t .step = some (s', o) → Inv s' := by
  intro s' o hs
  have hal := alive_of_pc h hth (by rw [hpc]; simp)
  have ti := h.thr t th hth
  simp only [step, hth, hpc, touch_eq hal.2, park, Option.some.injEq, Prod.mk.injEq] at hs
  obtain ⟨rfl, _⟩ := hs
  have hok := ti.ok; simp only [TOk, hpc] at hok
  exact step_park h hth (by rw [hpc]; simp) _ (by simp [hpc, PC.pend]) (by simpa [TOk] using hok)
    (by simp [hpc, isSetNone]) (by simp [hpc, isDf]) (by simp [isFree])

theorem case_dfCas {s : State} {t : Tid} {th : Thread} (r : Ret) (old : Word) (h : Inv s)
    (hth : s.threads[t]? = some th) (hpc : th.pc = .dfCas r old) :
    ∀ s' o, step s t .step = some (s', o) → Inv s' := by
  intro s' o hs
  have hal := alive_of_pc h hth (by rw [hpc]; simp)
  have ti := h.thr t th hth
  have b := h.bnd hth
  have hok := ti.ok; simp only [TOk, hpc] at hok
  obtain ⟨ho, hb, hm, hp⟩ := hok
  simp only [step, hth, hpc, touch_eq hal.2] at hs
  split at hs
  · rename_i hw
    simp only [park, Option.some.injEq, Prod.mk.injEq] at hs
    obtain ⟨rfl, _⟩ := hs
    have hcount := (h.count hal.2).2
    simp only [hm, hb] at hcount
    refine inv_of_put h hth ⟨rfl, rfl, rfl, rfl, rfl⟩ h.flags h.frees ?_ ?_ ?_ h.ownerEx ?_ ?_ ?_ ?_ ?_
    · intro hc; simp [hal.1] at hc
    · intro _ ha; simp [hal.2] at ha
    · intro _; refine ⟨hal.1, ?_⟩
      simp only [State.total, put_gH, put_gT, put_gQ, put_gP] at hcount ⊢
      rw [hw] at hcount
      simp at hcount ⊢; omega
    · intro _ hn; simp [ho] at hn
    · have := h.ent
      simp only [put_gQ, put_gP, hpc, PC.pend] at this ⊢
      refine ⟨by omega, fun hq => ?_, fun _ _ => hb⟩
      have := this.2.1 (by rw [hw]; simpa using hq); omega
    · simp [isFree]
    · refine ⟨by simp [TOk, ho, hb]; omega, by simp [hal.1, hal.2], ?_, ?_⟩
      · intro _; simp [isSetNone, isDf]
      · intro hq; exact ti.q hq
    · intro u tu hut htu hi
      have hnf : isFree tu.pc = false := by
        have hoku := hi.ok
        cases hpu : tu.pc <;> simp only [isFree]
        · simp only [TOk, hpu] at hoku; simp [hm] at hoku
        · rename_i own
          cases own <;> simp only [TOk, hpu] at hoku
          · simp [hm] at hoku
          · rw [ho] at hoku; simp at hoku; exact absurd hoku.2.1.symm hut
      exact hi.other rfl rfl (by rw [ho]; simp; exact Ne.symm hut) (by simp [ho]; exact Ne.symm hut)
        (fun hn => by simp [ho] at hn) (by rw [hw]; simp) (by simp) (Or.inl hnf)
  · simp only [park, Option.some.injEq, Prod.mk.injEq] at hs
    obtain ⟨rfl, _⟩ := hs
    exact step_park h hth (by rw [hpc]; simp) _ (by simp [hpc, PC.pend]) (by simp [TOk, ho, hb, hm, hp])
      (by simp [hpc, isSetNone]) (by simp [hpc, isDf]) (by simp [isFree])

theorem case_dfSetNone {s : State} {t : Tid} {th : Thread} (r : Ret) (h : Inv s)
    (hth : s.threads[t]? = some th) (hpc : th.pc = .dfSetNone r) :
    ∀ s' o, step s t .step = some (s', o) → Inv s' := by
  intro s' o hs
  have hal := alive_of_pc h hth (by rw [hpc]; simp)
  have ti := h.thr t th hth
  have b := h.bnd hth
  have hok := ti.ok; simp only [TOk, hpc] at hok
  obtain ⟨ho, hb, hm, hp⟩ := hok
  simp only [step, hth, hpc, touch_eq hal.2, park, Option.some.injEq, Prod.mk.injEq] at hs
  obtain ⟨rfl, _⟩ := hs
  have hcount := (h.count hal.2)
  refine inv_of_put h hth ⟨rfl, rfl, rfl, rfl, rfl⟩ h.flags h.frees ?_ ?_ ?_ ?_ ?_ ?_ ?_ ?_ ?_
  · intro hc; simp [hal.1] at hc
  · intro _ ha; simp [hal.2] at ha
  · intro _; refine ⟨hal.1, ?_⟩
    rw [hcount.2]
    simp only [State.total, put_gH, put_gT, put_gQ, put_gP]; omega
  · intro o ho'; simp at ho'
  · intro _ _; exact hm
  · have := h.ent
    simp only [put_gQ, put_gP, hpc, PC.pend] at this ⊢
    refine ⟨by omega, fun hq => by have := this.2.1 hq; omega, fun hm' hp' => this.2.2 hm' (by omega)⟩
  · simp [isFree]
  · refine ⟨by simp [TOk, RetOk]; omega, by simp [hal.1, hal.2], ?_, ?_⟩
    · intro ho'; simp at ho'
    · intro _; exact Or.inr rfl
  · intro u tu hut htu hi
    exact hi.other rfl rfl (by rw [ho]; simp; exact Ne.symm hut) (by simp) (fun _ => rfl) id id (Or.inr rfl)

theorem case_mgSetNone {s : State} {t : Tid} {th : Thread} (rest n : Nat) (lk : Bool) (h : Inv s)
    (hth : s.threads[t]? = some th) (hpc : th.pc = .mgSetNone rest n lk) :
    ∀ s' o, step s t .step = some (s', o) → Inv s' := by
  intro s' o hs
  have hal := alive_of_pc h hth (by rw [hpc]; simp)
  have ti := h.thr t th hth
  have b := h.bnd hth
  have hok := ti.ok; simp only [TOk, hpc] at hok
  obtain ⟨hp, hm, ho⟩ := hok
  simp only [step, hth, hpc, touch_eq hal.2, park, Option.some.injEq, Prod.mk.injEq] at hs
  obtain ⟨rfl, _⟩ := hs
  have hcount := (h.count hal.2)
  refine inv_of_put h hth ⟨rfl, rfl, rfl, rfl, rfl⟩ h.flags h.frees ?_ ?_ ?_ ?_ ?_ ?_ ?_ ?_ ?_
  · intro hc; simp [hal.1] at hc
  · intro _ ha; simp [hal.2] at ha
  · intro _; refine ⟨hal.1, ?_⟩
    rw [hcount.2]
    simp only [State.total, put_gH, put_gT, put_gQ, put_gP]; omega
  · intro o ho'; simp at ho'
  · intro _ _; exact hm
  · have := h.ent
    simp only [put_gQ, put_gP, hpc, PC.pend, Ret.pend] at this ⊢
    refine ⟨by omega, fun hq => by have := this.2.1 hq; omega, fun hm' hp' => this.2.2 hm' (by omega)⟩
  · simp [isFree]
  · refine ⟨by simp [TOk, RetOk, Ret.pend]; omega, by simp [hal.1, hal.2], ?_, ?_⟩
    · intro ho'; simp at ho'
    · intro _; exact Or.inr rfl
  · intro u tu hut htu hi
    refine hi.other rfl rfl ?_ (by simp) (fun _ => rfl) id id (Or.inr rfl)
    rcases ho with ho | ho <;> rw [ho] <;> simp
    exact Ne.symm hut


/-- When `t` is about to free and nobody else holds a counted reference, every other thread is idle. -/
theorem others_idle {s : State} (h : Inv s) {t : Tid} {th : Thread} (hth : s.threads[t]? = some th)
    (hfr : isFree th.pc = true)
    (hz : ∀ (u : Tid) (tu : Thread), u ≠ t → s.threads[u]? = some tu → tu.held = 0 ∧ tu.temp = 0)
    (hdf : s.w.merged = true ∨ s.owner = some t) :
    ∀ (u : Tid) (tu : Thread), u ≠ t → s.threads[u]? = some tu → tu.pc = .idle := by
  intro u tu hut htu
  obtain ⟨z1, z2⟩ := hz u tu hut htu
  have hok := (h.thr u tu htu).ok
  cases hp : tu.pc <;> simp only [TOk, hp] at hok
  all_goals first
    | rfl
    | omega
    | (exfalso; have := h.freeUniq u t tu th htu hth (by rw [hp]; rfl) hfr; exact hut this)
    | (exfalso; rcases hdf with hd | hd
       · simp [hd] at hok
       · rw [hd] at hok; simp at hok; exact hut hok.1.symm)
    | (exfalso; rename_i own; cases own <;> simp only at hok <;> omega)

theorem case_mgCas {s : State} {t : Tid} {th : Thread} (rest n : Nat) (lk : Bool) (old : Word)
    (h : Inv s) (hth : s.threads[t]? = some th) (hpc : th.pc = .mgCas rest n lk old) :
    ∀ s' o, step s t .step = some (s', o) → Inv s' := by
  intro s' o hs
  have hal := alive_of_pc h hth (by rw [hpc]; simp)
  have ti := h.thr t th hth
  have b := h.bnd hth
  have hok := ti.ok; simp only [TOk, hpc] at hok
  obtain ⟨hp, ho⟩ := hok
  simp only [step, hth, hpc, touch_eq hal.2] at hs
  split at hs
  · rename_i hw
    simp only [park, Option.some.injEq, Prod.mk.injEq] at hs
    obtain ⟨rfl, _⟩ := hs
    have hcount := (h.count hal.2).2
    have hent := h.ent
    have hpend : rest + 1 ≤ s.gP := by have := b.2.2.2; simpa [hpc, PC.pend] using this
    have nf := no_free_others h hth (Or.inr (by omega))
    refine inv_of_put h hth ⟨rfl, rfl, rfl, rfl, rfl⟩ h.flags h.frees ?_ ?_ ?_ h.ownerEx ?_ ?_ ?_ ?_ ?_
    · intro hc; simp [hal.1] at hc
    · intro _ ha; simp [hal.2] at ha
    · intro _; refine ⟨hal.1, ?_⟩
      simp only [State.total, put_gH, put_gT, put_gQ, put_gP] at hcount ⊢
      rw [hw] at hcount
      cases hm : old.merged
      · simp [hm] at hcount ⊢; omega
      · have hb0 := hent.2.2 (by rw [hw]; exact hm) (by omega)
        simp [hm, hb0] at hcount ⊢; omega
    · intro _ _; rfl
    · simp only [put_gQ, put_gP, hpc, PC.pend]
      refine ⟨by omega, fun _ => by omega, fun _ hp' => by omega⟩
    · simp [isFree]
    · refine ⟨by simp [TOk]; exact ⟨hp, ho⟩, by simp [hal.1, hal.2], ?_, ?_⟩
      · intro ho'
        have := ti.own ho'
        simp only [hpc, isSetNone, isDf] at this
        simp only [put_w, put_biased, isSetNone, isDf]
        exact ⟨fun _ => trivial, this.2⟩
      · intro _; exact ho
    · intro u tu hut htu hi
      refine hi.other rfl rfl ?_ ?_ (fun hn => hn) (by rw [hw]; simp) (by simp) (Or.inl (nf u tu hut htu))
      · rcases ho with ho | ho <;> rw [ho] <;> simp
        exact Ne.symm hut
      · rcases ho with ho | ho <;> simp [ho]
        exact Ne.symm hut
  · simp only [park, Option.some.injEq, Prod.mk.injEq] at hs
    obtain ⟨rfl, _⟩ := hs
    exact step_park h hth (by rw [hpc]; simp) _ (by simp [hpc, PC.pend]) (by simp [TOk]; exact ⟨hp, ho⟩)
      (by simp [hpc, isSetNone]) (by simp [hpc, isDf]) (by simp [isFree])

end SteelVerif.C05
