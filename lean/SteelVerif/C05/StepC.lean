/-
C05 — preservation, part C: shared accesses of increment, has_unique_ref, try_unwrap.
-/
import SteelVerif.C05.StepB
namespace SteelVerif.C05
set_option linter.unusedSimpArgs false
set_option linter.unusedVariables false

/-- A parked thread moves to another (non-idle) pc and nothing else changes. -/
theorem step_park {s : State} {t : Tid} {th : Thread} (h : Inv s) (hth : s.threads[t]? = some th)
    (hne : th.pc ≠ .idle) (pc' : PC) (hp : pc'.pend = th.pc.pend)
    (hok : TOk s t { th with pc := pc' })
    (hsn : isSetNone pc' = isSetNone th.pc) (hdf : isDf pc' = isDf th.pc)
    (hfree : isFree pc' = true →
        ∀ (u : Tid) (tu : Thread), u ≠ t → s.threads[u]? = some tu → isFree tu.pc = false) :
    Inv (s.put t th { th with pc := pc' }) :=
  inv_same h hth rfl rfl rfl rfl hp hok (Or.inr (alive_of_pc h hth hne)) hsn hdf hfree

/-- A parked thread completes its operation and nothing else changes. -/
theorem step_finish {s : State} {t : Tid} {th : Thread} (h : Inv s) (hth : s.threads[t]? = some th)
    (hp : th.pc.pend = 0) (hsn : isSetNone th.pc = false) (hdf : isDf th.pc = false) :
    Inv (s.put t th { th with pc := .idle, shown := th.held }) :=
  inv_same h hth rfl rfl rfl rfl (by show PC.idle.pend = th.pc.pend; rw [hp]; rfl) (by simp [TOk])
    (Or.inl rfl) (by show isSetNone PC.idle = isSetNone th.pc; rw [hsn]; rfl)
    (by show isDf PC.idle = isDf th.pc; rw [hdf]; rfl) (by simp [isFree])

theorem case_incLoad {s : State} {t : Tid} {th : Thread} (h : Inv s) (hth : s.threads[t]? = some th)
    (hpc : th.pc = .incLoad) : ∀ s' o, step s t .step = some (s', o) → Inv s' := by
  intro s' o hs
  have hal := alive_of_pc h hth (by rw [hpc]; simp)
  have ti := h.thr t th hth
  simp only [step, hth, hpc, touch_eq hal.2, park, Option.some.injEq, Prod.mk.injEq] at hs
  obtain ⟨rfl, _⟩ := hs
  have hok := ti.ok; simp only [TOk, hpc] at hok
  exact step_park h hth (by rw [hpc]; simp) _ (by simp [hpc, PC.pend]) (by simpa [TOk] using hok)
    (by simp [hpc, isSetNone]) (by simp [hpc, isDf]) (by simp [isFree])

theorem case_incCas {s : State} {t : Tid} {th : Thread} (old : Word) (h : Inv s)
    (hth : s.threads[t]? = some th) (hpc : th.pc = .incCas old) :
    ∀ s' o, step s t .step = some (s', o) → Inv s' := by
  intro s' o hs
  have hal := alive_of_pc h hth (by rw [hpc]; simp)
  have ti := h.thr t th hth
  have b := h.bnd hth
  have hok := ti.ok; simp only [TOk, hpc] at hok
  simp only [step, hth, hpc, touch_eq hal.2] at hs
  split at hs
  · rename_i hw
    simp only [finish, Option.some.injEq, Prod.mk.injEq] at hs
    obtain ⟨rfl, _⟩ := hs
    have hcount := (h.count hal.2).2
    have nf := no_free_others h hth (Or.inl hok)
    refine inv_of_put h hth ⟨rfl, rfl, rfl, rfl, rfl⟩ h.flags h.frees ?_ ?_ ?_ h.ownerEx ?_ ?_ ?_ ?_ ?_
    · intro hc; simp [hal.1] at hc
    · intro _ ha; simp [hal.2] at ha
    · intro _; refine ⟨hal.1, ?_⟩
      simp only [State.total, put_gH, put_gT, put_gQ, put_gP] at hcount ⊢
      subst hw
      split at hcount <;> rename_i hm <;> simp [hm] at hcount ⊢ <;> omega
    · intro hc hn; have := h.ownerNone hc hn; subst hw; simpa using this
    · have := h.ent
      subst hw
      simp only [put_gQ, put_gP, hpc, PC.pend] at this ⊢
      refine ⟨by omega, fun hq => by have := this.2.1 hq; omega, fun hm' hp => this.2.2 hm' (by omega)⟩
    · simp [isFree]
    · refine ⟨by simp [TOk], by simp, ?_, ?_⟩
      · intro ho; have := ti.own ho; subst hw; simpa [hpc, isSetNone, isDf] using this
      · intro hq; exact ti.q hq
    · intro u tu hut htu hi
      subst hw
      exact hi.cnt rfl rfl rfl rfl rfl rfl (nf u tu hut htu)
  · simp only [park, Option.some.injEq, Prod.mk.injEq] at hs
    obtain ⟨rfl, _⟩ := hs
    exact step_park h hth (by rw [hpc]; simp) _ (by simp [hpc, PC.pend]) (by simpa [TOk] using hok)
      (by simp [hpc, isSetNone]) (by simp [hpc, isDf]) (by simp [isFree])


theorem case_uqOwner {s : State} {t : Tid} {th : Thread} (h : Inv s) (hth : s.threads[t]? = some th)
    (hpc : th.pc = .uqOwner) : ∀ s' o, step s t .step = some (s', o) → Inv s' := by
  intro s' o hs
  have hal := alive_of_pc h hth (by rw [hpc]; simp)
  have ti := h.thr t th hth
  have hok := ti.ok; simp only [TOk, hpc] at hok
  simp only [step, hth, hpc, touch_eq hal.2] at hs
  split at hs
  · rename_i hn
    simp only [park, Option.some.injEq, Prod.mk.injEq] at hs
    obtain ⟨rfl, _⟩ := hs
    exact step_park h hth (by rw [hpc]; simp) _ (by simp [hpc, PC.pend]) (by simp [TOk, hok, hn])
      (by simp [hpc, isSetNone]) (by simp [hpc, isDf]) (by simp [isFree])
  · rename_i ow hn
    split at hs
    · rename_i hot
      subst hot
      split at hs
      · rename_i hb
        simp only [park, Option.some.injEq, Prod.mk.injEq] at hs
        obtain ⟨rfl, _⟩ := hs
        exact step_park h hth (by rw [hpc]; simp) _ (by simp [hpc, PC.pend]) (by simp [TOk, hok, hn, hb])
          (by simp [hpc, isSetNone]) (by simp [hpc, isDf]) (by simp [isFree])
      · simp only [finish, Option.some.injEq, Prod.mk.injEq] at hs
        obtain ⟨rfl, _⟩ := hs
        exact step_finish h hth (by simp [hpc, PC.pend]) (by simp [hpc, isSetNone]) (by simp [hpc, isDf])
    · simp only [finish, Option.some.injEq, Prod.mk.injEq] at hs
      obtain ⟨rfl, _⟩ := hs
      exact step_finish h hth (by simp [hpc, PC.pend]) (by simp [hpc, isSetNone]) (by simp [hpc, isDf])

theorem case_uwOwner {s : State} {t : Tid} {th : Thread} (h : Inv s) (hth : s.threads[t]? = some th)
    (hpc : th.pc = .uwOwner) : ∀ s' o, step s t .step = some (s', o) → Inv s' := by
  intro s' o hs
  have hal := alive_of_pc h hth (by rw [hpc]; simp)
  have ti := h.thr t th hth
  have hok := ti.ok; simp only [TOk, hpc] at hok
  simp only [step, hth, hpc, touch_eq hal.2] at hs
  split at hs
  · rename_i hn
    simp only [park, Option.some.injEq, Prod.mk.injEq] at hs
    obtain ⟨rfl, _⟩ := hs
    exact step_park h hth (by rw [hpc]; simp) _ (by simp [hpc, PC.pend]) (by simp [TOk, hok, hn])
      (by simp [hpc, isSetNone]) (by simp [hpc, isDf]) (by simp [isFree])
  · rename_i ow hn
    split at hs
    · rename_i hot
      subst hot
      split at hs
      · rename_i hb
        simp only [park, Option.some.injEq, Prod.mk.injEq] at hs
        obtain ⟨rfl, _⟩ := hs
        exact step_park h hth (by rw [hpc]; simp) _ (by simp [hpc, PC.pend]) (by simp [TOk, hok, hn, hb])
          (by simp [hpc, isSetNone]) (by simp [hpc, isDf]) (by simp [isFree])
      · simp only [finish, Option.some.injEq, Prod.mk.injEq] at hs
        obtain ⟨rfl, _⟩ := hs
        exact step_finish h hth (by simp [hpc, PC.pend]) (by simp [hpc, isSetNone]) (by simp [hpc, isDf])
    · simp only [finish, Option.some.injEq, Prod.mk.injEq] at hs
      obtain ⟨rfl, _⟩ := hs
      exact step_finish h hth (by simp [hpc, PC.pend]) (by simp [hpc, isSetNone]) (by simp [hpc, isDf])

theorem case_uqLoadNone {s : State} {t : Tid} {th : Thread} (h : Inv s) (hth : s.threads[t]? = some th)
    (hpc : th.pc = .uqLoadNone) : ∀ s' o, step s t .step = some (s', o) → Inv s' := by
  intro s' o hs
  have hal := alive_of_pc h hth (by rw [hpc]; simp)
  have ti := h.thr t th hth
  have hok := ti.ok; simp only [TOk, hpc] at hok
  have hm := h.ownerNone hal.1 hok.2
  have hcount := (h.count hal.2).2
  simp only [hm, if_true] at hcount
  simp only [step, hth, hpc, touch_eq hal.2] at hs
  have hcond : ¬ (decide (s.w.cnt = 1) = true ∧ s.total ≠ 1) := by
    intro ⟨h1, h2⟩
    simp at h1
    rw [h1] at hcount
    apply h2; exact_mod_cast hcount.symm
  simp only [hcond, if_false, finish, Option.some.injEq, Prod.mk.injEq] at hs
  obtain ⟨rfl, _⟩ := hs
  exact step_finish h hth (by simp [hpc, PC.pend]) (by simp [hpc, isSetNone]) (by simp [hpc, isDf])

theorem case_uqLoadOwn {s : State} {t : Tid} {th : Thread} (h : Inv s) (hth : s.threads[t]? = some th)
    (hpc : th.pc = .uqLoadOwn) : ∀ s' o, step s t .step = some (s', o) → Inv s' := by
  intro s' o hs
  have hal := alive_of_pc h hth (by rw [hpc]; simp)
  have ti := h.thr t th hth
  have hok := ti.ok; simp only [TOk, hpc] at hok
  obtain ⟨hm, _⟩ := owner_plain h hth hok.2.1 (by rw [hpc]; rfl) (by rw [hpc]; rfl)
  have hcount := (h.count hal.2).2
  simp only [hm, hok.2.2] at hcount
  simp only [step, hth, hpc, touch_eq hal.2] at hs
  have hcond : ¬ (decide (s.w.cnt = 0) = true ∧ s.total ≠ 1) := by
    intro ⟨h1, h2⟩
    simp at h1
    rw [h1] at hcount
    apply h2
    simp at hcount
    exact_mod_cast hcount.symm
  simp only [hcond, if_false, finish, Option.some.injEq, Prod.mk.injEq] at hs
  obtain ⟨rfl, _⟩ := hs
  exact step_finish h hth (by simp [hpc, PC.pend]) (by simp [hpc, isSetNone]) (by simp [hpc, isDf])

theorem case_uwLoadNone {s : State} {t : Tid} {th : Thread} (h : Inv s) (hth : s.threads[t]? = some th)
    (hpc : th.pc = .uwLoadNone) : ∀ s' o, step s t .step = some (s', o) → Inv s' := by
  intro s' o hs
  have hal := alive_of_pc h hth (by rw [hpc]; simp)
  have ti := h.thr t th hth
  simp only [step, hth, hpc, touch_eq hal.2, park, Option.some.injEq, Prod.mk.injEq] at hs
  obtain ⟨rfl, _⟩ := hs
  have hok := ti.ok; simp only [TOk, hpc] at hok
  exact step_park h hth (by rw [hpc]; simp) _ (by simp [hpc, PC.pend]) (by simpa [TOk] using hok)
    (by simp [hpc, isSetNone]) (by simp [hpc, isDf]) (by simp [isFree])

theorem case_uwLoadOwn {s : State} {t : Tid} {th : Thread} (h : Inv s) (hth : s.threads[t]? = some th)
    (hpc : th.pc = .uwLoadOwn) : ∀ s' o, step s t .step = some (s', o) → Inv s' := by
  intro s' o hs
  have hal := alive_of_pc h hth (by rw [hpc]; simp)
  have ti := h.thr t th hth
  have hok := ti.ok; simp only [TOk, hpc] at hok
  simp only [step, hth, hpc, touch_eq hal.2] at hs
  split at hs
  · simp only [finish, Option.some.injEq, Prod.mk.injEq] at hs
    obtain ⟨rfl, _⟩ := hs
    exact step_finish h hth (by simp [hpc, PC.pend]) (by simp [hpc, isSetNone]) (by simp [hpc, isDf])
  · rename_i hc
    have hc : s.w.cnt = 0 := by simpa using hc
    simp only [park, Option.some.injEq, Prod.mk.injEq] at hs
    obtain ⟨rfl, _⟩ := hs
    exact step_park h hth (by rw [hpc]; simp) _ (by simp [hpc, PC.pend]) (by simp [TOk, hok, hc])
      (by simp [hpc, isSetNone]) (by simp [hpc, isDf])
      (fun _ => no_free_others h hth (Or.inl hok.1))

theorem case_uwCas {s : State} {t : Tid} {th : Thread} (old : Word) (h : Inv s)
    (hth : s.threads[t]? = some th) (hpc : th.pc = .uwCas old) :
    ∀ s' o, step s t .step = some (s', o) → Inv s' := by
  intro s' o hs
  have hal := alive_of_pc h hth (by rw [hpc]; simp)
  have ti := h.thr t th hth
  have b := h.bnd hth
  have hok := ti.ok; simp only [TOk, hpc] at hok
  simp only [step, hth, hpc, touch_eq hal.2] at hs
  split at hs
  · rename_i hw
    simp only [park, Option.some.injEq, Prod.mk.injEq] at hs
    obtain ⟨rfl, _⟩ := hs
    have hm := h.ownerNone hal.1 hok.2
    have hcount := (h.count hal.2).2
    simp only [hm, if_true] at hcount
    have nf := no_free_others h hth (Or.inl hok.1)
    have hmo : old.merged = true := by rw [hw] at hm; exact hm
    refine inv_of_put h hth ⟨rfl, rfl, rfl, rfl, rfl⟩ h.flags h.frees ?_ ?_ ?_ h.ownerEx ?_ ?_ ?_ ?_ ?_
    · intro hc; simp [hal.1] at hc
    · intro _ ha; simp [hal.2] at ha
    · intro _; refine ⟨hal.1, ?_⟩
      simp only [State.total, put_gH, put_gT, put_gQ, put_gP] at hcount ⊢
      rw [hw] at hcount
      simp [hmo] at hcount ⊢; omega
    · intro _ _; exact hmo
    · have := h.ent
      rw [hw] at this
      simp only [put_gQ, put_gP, hpc, PC.pend] at this ⊢
      refine ⟨by omega, fun hq => by have := this.2.1 hq; omega, fun hm' hp => this.2.2 hm' (by omega)⟩
    · intro _; exact nf
    · refine ⟨by simp [TOk, hmo], by simp [hal.1, hal.2], ?_, ?_⟩
      · intro ho; simp [hok.2] at ho
      · intro hq; exact ti.q hq
    · intro u tu hut htu hi
      refine hi.cnt rfl rfl rfl rfl ?_ ?_ (nf u tu hut htu) <;> simp [hw]
  · simp only [finish, Option.some.injEq, Prod.mk.injEq] at hs
    obtain ⟨rfl, _⟩ := hs
    exact step_finish h hth (by simp [hpc, PC.pend]) (by simp [hpc, isSetNone]) (by simp [hpc, isDf])

end SteelVerif.C05
