/-
C05 — preservation, part E: slow_decrement's compare-exchange, enqueue, deallocation.
-/
import SteelVerif.C05.StepD
namespace SteelVerif.C05
set_option linter.unusedSimpArgs false
set_option linter.unusedVariables false

theorem case_dsCas {s : State} {t : Tid} {th : Thread} (r : Ret) (old : Word) (h : Inv s)
    (hth : s.threads[t]? = some th) (hpc : th.pc = .dsCas r old) :
    ∀ s' o, step s t .step = some (s', o) → Inv s' := by
  intro s' o hs
  have hal := alive_of_pc h hth (by rw [hpc]; simp)
  have ti := h.thr t th hth
  have b := h.bnd hth
  have hok := ti.ok; simp only [TOk, hpc] at hok
  obtain ⟨hp, hr, hno⟩ := hok
  have hcount := (h.count hal.2).2
  have hent := h.ent
  simp only [step, hth, hpc, touch_eq hal.2] at hs
  split at hs
  · rename_i hw
    split at hs
    · -- hand the reference to the queue
      rename_i hcond
      obtain ⟨hc0, hq0, hm0⟩ := hcond
      simp only [park, Option.some.injEq, Prod.mk.injEq] at hs
      obtain ⟨rfl, _⟩ := hs
      have hE : s.gQ + s.gP = 0 := hent.2.1 (by rw [hw]; exact hq0)
      refine inv_of_put h hth ⟨rfl, rfl, rfl, rfl, rfl⟩ h.flags h.frees ?_ ?_ ?_ h.ownerEx ?_ ?_ ?_ ?_ ?_
      · intro hc; simp [hal.1] at hc
      · intro _ ha; simp [hal.2] at ha
      · intro _; refine ⟨hal.1, ?_⟩
        simp only [State.total, put_gH, put_gT, put_gQ, put_gP] at hcount ⊢
        rw [hw] at hcount
        simp [hm0] at hcount ⊢; omega
      · intro hc hn; have := h.ownerNone hc hn; rw [hw, hm0] at this; cases this
      · simp only [put_gQ, put_gP, hpc, PC.pend]
        refine ⟨by omega, fun hq => by simp at hq, fun hm => by simp [hm0] at hm⟩
      · simp [isFree]
      · refine ⟨by simp [TOk]; exact ⟨hp, hr, hno⟩, by simp [hal.1, hal.2], ?_, ?_⟩
        · intro ho'; exact absurd ho' hno
        · intro hq; exact ti.q hq
      · intro u tu hut htu hi
        exact hi.queued rfl rfl rfl rfl (by simp [hw]) (by simp [hw]) (by simp)
    · -- plain decrement
      rename_i hcond
      have nf := no_free_others h hth (Or.inr (by omega))
      have others : ∀ (u : Tid) (tu : Thread), u ≠ t → s.threads[u]? = some tu → TInv s u tu →
          TInv { s with w := { old with cnt := old.cnt - 1 } } u tu := by
        intro u tu hut htu hi
        refine hi.cnt rfl rfl rfl rfl ?_ ?_ (nf u tu hut htu) <;> simp [hw]
      split at hs
      · -- last reference of a merged object: free it
        rename_i hz
        simp only [park, Option.some.injEq, Prod.mk.injEq] at hs
        obtain ⟨rfl, _⟩ := hs
        refine inv_of_put h hth ⟨rfl, rfl, rfl, rfl, rfl⟩ h.flags h.frees ?_ ?_ ?_ h.ownerEx ?_ ?_ ?_ ?_ ?_
        · intro hc; simp [hal.1] at hc
        · intro _ ha; simp [hal.2] at ha
        · intro _; refine ⟨hal.1, ?_⟩
          simp only [State.total, put_gH, put_gT, put_gQ, put_gP] at hcount ⊢
          rw [hw] at hcount
          simp [hz.1] at hcount ⊢; omega
        · intro _ _; exact hz.1
        · rw [hw] at hent
          simp only [put_gQ, put_gP, hpc, PC.pend] at hent ⊢
          refine ⟨by omega, fun hq => by have := hent.2.1 hq; omega, fun hm' hp' => hent.2.2 hm' (by omega)⟩
        · intro _; exact nf
        · refine ⟨by simp [TOk, hz.1, hz.2]; exact ⟨by omega, hr⟩, by simp [hal.1, hal.2], ?_, ?_⟩
          · intro ho'; exact absurd ho' hno
          · intro hq; exact ti.q hq
        · intro u tu hut htu hi
          exact TInv.congr (s := { s with w := { old with cnt := old.cnt - 1 } }) rfl rfl rfl rfl rfl
            (others u tu hut htu hi)
      · rename_i hz
        simp only [Option.some.injEq] at hs
        have this := congrArg Prod.fst hs
        simp only at this
        rw [← this]
        refine inv_ret r h hth ⟨rfl, rfl, rfl, rfl, rfl⟩ h.flags h.frees hal.1 ?_ ?_ h.ownerEx ?_ ?_
          (by simp; omega) hr ?_ ?_ ?_ others
        · intro ha; simp [hal.2] at ha
        · intro _
          simp only [State.total] at hcount
          rw [hw] at hcount
          cases hm : old.merged <;> simp [hm] at hcount ⊢ <;> omega
        · intro hn; have := h.ownerNone hal.1 hn; rw [hw] at this; exact this
        · rw [hw] at hent
          simp only [hpc, PC.pend] at hent ⊢
          refine ⟨by omega, fun hq => by have := hent.2.1 hq; omega, fun hm' hp' => hent.2.2 hm' (by omega)⟩
        · intro ha; simp [hal.2] at ha
        · intro ho'; exact absurd ho' hno
        · intro hq; exact ti.q hq
  · simp only [park, Option.some.injEq, Prod.mk.injEq] at hs
    obtain ⟨rfl, _⟩ := hs
    exact step_park h hth (by rw [hpc]; simp) _ (by simp [hpc, PC.pend]) (by simp [TOk]; exact ⟨hp, hr, hno⟩)
      (by simp [hpc, isSetNone]) (by simp [hpc, isDf]) (by simp [isFree])


/-- An idle thread satisfies its part of the invariant whatever `created` / `alive` are. -/
theorem TInv.idle_any {s s1 : State} {u : Tid} {tu : Thread} (hi : TInv s u tu) (hidle : tu.pc = .idle)
    (eo : s1.owner = s.owner) (eb : s1.biased = s.biased) (ew : s1.w = s.w) : TInv s1 u tu := by
  refine ⟨by simp [TOk, hidle], fun _ => hidle, ?_, ?_⟩
  · rw [eo, eb, ew]; exact hi.own
  · rw [eo]; exact hi.q

/-- A thread whose queue grew (its pc and counted references unchanged). -/
theorem TInv.grow {s s1 : State} {u : Tid} {tu tu' : Thread} (hi : TInv s u tu)
    (e1 : s1.owner = s.owner) (e2 : s1.biased = s.biased) (e3 : s1.w = s.w)
    (e4 : s1.created = s.created) (e5 : s1.alive = s.alive)
    (hpc : tu'.pc = tu.pc) (hh : tu'.held = tu.held) (ht : tu'.temp = tu.temp)
    (hq : s1.owner = some u ∨ s1.owner = none) : TInv s1 u tu' := by
  obtain ⟨h1, h2, h3, h4⟩ := hi
  refine ⟨?_, ?_, ?_, fun _ => hq⟩
  · unfold TOk RetOk at *; rw [hpc, hh, ht, e1, e2, e3]; exact h1
  · rw [e4, e5, hpc]; exact h2
  · rw [e1, e2, e3, hpc]; exact h3

theorem next_idle_of_pend (r : Ret) (h : r.pend = 0) : r.next = .idle := by
  cases r with
  | op => rfl
  | merge rest n lk => cases rest with
    | zero => rfl
    | succ k => simp [Ret.pend] at h

theorem case_enq {s : State} {t : Tid} {th : Thread} (r : Ret) (h : Inv s)
    (hth : s.threads[t]? = some th) (hpc : th.pc = .enq r) :
    ∀ s' o, step s t .step = some (s', o) → Inv s' := by
  intro s' o hs
  have hal := alive_of_pc h hth (by rw [hpc]; simp)
  have ti := h.thr t th hth
  have b := h.bnd hth
  have hok := ti.ok; simp only [TOk, hpc] at hok
  obtain ⟨hp, hq, hr, hno⟩ := hok
  have hcount := (h.count hal.2)
  have hent := h.ent
  have hpend : 1 + r.pend ≤ s.gP := by have := b.2.2.2; simpa [hpc, PC.pend] using this
  simp only [step, hth, hpc] at hs
  split at hs
  · cases hs
  · simp only [touch_eq hal.2] at hs
    split at hs
    · -- no owner left: drop the reference the normal way
      rename_i hn
      simp only [park, Option.some.injEq, Prod.mk.injEq] at hs
      obtain ⟨rfl, _⟩ := hs
      refine inv_of_put h hth ⟨rfl, rfl, rfl, rfl, rfl⟩ h.flags h.frees ?_ ?_ ?_ h.ownerEx h.ownerNone ?_ ?_
        ?_ ?_
      · intro hc; simp [hal.1] at hc
      · intro _ ha; simp [hal.2] at ha
      · intro _; refine ⟨hal.1, ?_⟩
        rw [hcount.2]
        simp only [State.total, put_gH, put_gT, put_gQ, put_gP]; omega
      · simp only [put_gQ, put_gP, hpc, PC.pend] at hent ⊢
        refine ⟨by omega, fun hq' => by have := hent.2.1 hq'; omega, fun hm' hp' => hent.2.2 hm' (by omega)⟩
      · simp [isFree]
      · refine ⟨by simp [TOk]; exact ⟨hp, hr, hno⟩, by simp [hal.1, hal.2], ?_, ?_⟩
        · intro ho'; exact absurd ho' hno
        · intro hq'; exact ti.q hq'
      · intro u tu _ _ hi; exact TInv.congr (s := s) rfl rfl rfl rfl rfl hi
    · -- hand the reference to the queue of the owner `k`
      rename_i k hk
      have hkt : t ≠ k := by intro e; apply hno; rw [hk, e]
      obtain ⟨sh, hfst⟩ := ret_fst s t th { th with pc := PC.enq r, temp := th.temp - 1 } r
      obtain ⟨u0, uH, uT, uQ, uP, uo, ub, uw, uc, ua, f1, f2, f3, f4, ud, uf⟩ := unlock_fields s r
      have np := next_pend r
      obtain ⟨nf, nsn, ndf⟩ := next_flags r
      rw [hfst] at hs
      split at hs
      · cases hs
      · rename_i tk htk
        generalize hdef : (if tk.registered = true then ({ tk with regQ := tk.regQ + 1 } : Thread)
          else { tk with unregQ := tk.unregQ + 1 }) = tk' at hs
        have hk1 : tk'.held = tk.held := by rw [← hdef]; split <;> rfl
        have hk2 : tk'.temp = tk.temp := by rw [← hdef]; split <;> rfl
        have hk3 : tk'.regQ + tk'.unregQ = tk.regQ + tk.unregQ + 1 := by
          rw [← hdef]; split <;> simp <;> omega
        have hk4 : tk'.pc = tk.pc := by rw [← hdef]; split <;> rfl
        simp only [Option.some.injEq, Prod.mk.injEq] at hs
        obtain ⟨rfl, _⟩ := hs
        have htk0 : s.threads[k]? = some tk := by
          rw [put_get_other (Ne.symm hkt), u0] at htk; exact htk
        have bk := h.bnd htk0
        have tik := h.thr k tk htk0
        refine inv_of_put2 h hkt hth htk0 ⟨u0, uH, uT, uQ, uP⟩ (by rw [f1, f2, f3, f4]; exact h.flags)
          (by rw [ud, uf, uc, ua]; exact h.frees) ?_ ?_ ?_ (by rw [uo]; exact h.ownerEx)
          (by rw [uc, uo, uw]; exact h.ownerNone) ?_ (by simp [nf]) hk4 ?_ ?_ ?_
        · intro hc; rw [uc] at hc; simp [hal.1] at hc
        · intro _ ha; rw [ua] at ha; simp [hal.2] at ha
        · intro _; rw [uc, uw, ub]; refine ⟨hal.1, ?_⟩
          rw [hcount.2]
          simp only [State.total, put_gH, put_gT, put_gQ, put_gP, uH, uT, uQ, hk1, hk2, hk3]
          omega
        · rw [uw, ub]
          have hthp : th.pc.pend = 1 + r.pend := by rw [hpc]; rfl
          simp only [put_gQ, put_gP, uQ, uP, np, hk3, hk4, hthp] at hent ⊢
          refine ⟨by omega, fun hq' => by have := hent.2.1 hq'; omega, fun hm' hp' => hent.2.2 hm' (by omega)⟩
        · refine ⟨?_, ?_, ?_, ?_⟩
          · have := next_ok (s := s) (t := t) (th' := { th with pc := PC.enq r, temp := th.temp - 1 })
              r sh (by simp; omega) hr
            unfold TOk RetOk at *
            simp only [put_owner, put_biased, put_w, uo, ub, uw]
            exact this
          · intro hx; simp [uc, ua, hal.1, hal.2] at hx
          · intro ho'; simp only [put_owner, uo] at ho'; exact absurd ho' hno
          · intro hq'; simp only [put_owner, uo]; exact ti.q hq'
        · exact tik.grow (by simp [uo]) (by simp [ub]) (by simp [uw]) (by simp [uc]) (by simp [ua])
            hk4 hk1 hk2 (Or.inl (by simp [uo, hk]))
        · intro v tv _ _ _ hi
          exact TInv.congr (s := s) (by simp [uo]) (by simp [ub]) (by simp [uw]) (by simp [uc])
            (by simp [ua]) hi


theorem dealloc_zero (s : State) : s.dealloc 0 =
    { s with alive := false, frees := s.frees + 1, drops := s.drops + 1 } := by
  simp [State.dealloc]

theorem case_free {s : State} {t : Tid} {th : Thread} (r : Ret) (h : Inv s)
    (hth : s.threads[t]? = some th) (hpc : th.pc = .free r) :
    ∀ s' o, step s t .step = some (s', o) → Inv s' := by
  intro s' o hs
  have hal := alive_of_pc h hth (by rw [hpc]; simp)
  have ti := h.thr t th hth
  have b := h.bnd hth
  have hok := ti.ok; simp only [TOk, hpc] at hok
  obtain ⟨hm, hc0, hp, hr⟩ := hok
  have hcount := (h.count hal.2).2
  simp only [hm, hc0, if_true] at hcount
  have htot : s.total = 0 := by exact_mod_cast hcount.symm
  have hent := h.ent
  have hfr := h.frees
  simp only [hal.1, hal.2] at hfr
  have hno : s.owner ≠ some t := by
    intro ho; have := (ti.own ho).1 hm; simp [hpc, isSetNone] at this
  simp only [step, hth, hpc, touch_eq hal.2, htot, dealloc_zero, Option.some.injEq] at hs
  have this := congrArg Prod.fst hs
  simp only at this
  rw [← this]
  have hz : ∀ (u : Tid) (tu : Thread), u ≠ t → s.threads[u]? = some tu → tu.held = 0 ∧ tu.temp = 0 := by
    intro u tu _ htu
    have bu := h.bnd htu
    simp only [State.total] at htot
    omega
  have hidle := others_idle h hth (by rw [hpc]; rfl) hz (Or.inl hm)
  simp only [State.total] at htot
  refine inv_ret r h hth ⟨rfl, rfl, rfl, rfl, rfl⟩ h.flags ?_ hal.1 ?_ ?_ h.ownerEx (fun _ => hm) ?_
    hp hr ?_ ?_ ?_ ?_
  · simp [hal.1, hfr.1, hfr.2]
  · intro _; omega
  · intro ha; simp at ha
  · simp only [hpc, PC.pend]
    refine ⟨by omega, fun hq' => by have := hent.2.1 hq'; omega, fun hm' hp' => hent.2.2 hm' (by omega)⟩
  · intro _; apply next_idle_of_pend; omega
  · intro ho'; exact absurd ho' hno
  · intro hq'; exact ti.q hq'
  · intro u tu hut htu hi
    exact hi.idle_any (hidle u tu hut htu) rfl rfl rfl

theorem case_uwFree {s : State} {t : Tid} {th : Thread} (own : Bool) (h : Inv s)
    (hth : s.threads[t]? = some th) (hpc : th.pc = .uwFree own) :
    ∀ s' o, step s t .step = some (s', o) → Inv s' := by
  intro s' o hs
  have hal := alive_of_pc h hth (by rw [hpc]; simp)
  have ti := h.thr t th hth
  have b := h.bnd hth
  have hok := ti.ok; simp only [TOk, hpc] at hok
  have hcount := (h.count hal.2).2
  have hent := h.ent
  have hfr := h.frees
  simp only [hal.1, hal.2] at hfr
  simp only [step, hth, hpc, touch_eq hal.2] at hs
  cases own with
  | false =>
    obtain ⟨hm, hc0⟩ := hok
    simp only [hm, hc0, if_true] at hcount
    have htot : s.total = 0 := by exact_mod_cast hcount.symm
    have hno : s.owner ≠ some t := by
      intro ho; have := (ti.own ho).1 hm; simp [hpc, isSetNone] at this
    simp only [htot, Nat.sub_zero, dealloc_zero, finish, Option.some.injEq, Prod.mk.injEq, if_false,
      Bool.false_eq_true] at hs
    obtain ⟨rfl, _⟩ := hs
    have hz : ∀ (u : Tid) (tu : Thread), u ≠ t → s.threads[u]? = some tu → tu.held = 0 ∧ tu.temp = 0 := by
      intro u tu _ htu
      have bu := h.bnd htu
      simp only [State.total] at htot
      omega
    have hidle := others_idle h hth (by rw [hpc]; rfl) hz (Or.inl hm)
    simp only [State.total] at htot
    refine inv_of_put h hth ⟨rfl, rfl, rfl, rfl, rfl⟩ h.flags ?_ ?_ ?_ ?_ h.ownerEx (fun _ _ => hm) ?_ ?_
      ?_ ?_
    · simp [hal.1, hfr.1, hfr.2]
    · intro hc; simp [hal.1] at hc
    · intro _ _; simp only [State.total, put_gH, put_gT, put_gQ]; omega
    · intro ha; simp at ha
    · simp only [put_gQ, put_gP, hpc, PC.pend]
      refine ⟨by omega, fun hq' => by have := hent.2.1 hq'; omega, fun hm' hp' => hent.2.2 hm' (by omega)⟩
    · simp [isFree]
    · refine ⟨by simp [TOk], by simp, ?_, ?_⟩
      · intro ho'; exact absurd ho' hno
      · intro hq'; exact ti.q hq'
    · intro u tu hut htu hi
      exact hi.idle_any (hidle u tu hut htu) rfl rfl rfl
  | true =>
    obtain ⟨hh, ho, hb, hc0⟩ := hok
    obtain ⟨hm, _⟩ := owner_plain h hth ho (by rw [hpc]; rfl) (by rw [hpc]; rfl)
    simp only [hm, hc0, hb] at hcount
    have htot : s.total = 1 := by
      have : ((s.total : Nat) : Int) = 1 := by rw [← hcount]; simp
      exact_mod_cast this
    simp only [htot, Nat.sub_self, dealloc_zero, finish, Option.some.injEq, Prod.mk.injEq, if_true] at hs
    obtain ⟨rfl, _⟩ := hs
    simp only [State.total] at htot
    have hz : ∀ (u : Tid) (tu : Thread), u ≠ t → s.threads[u]? = some tu → tu.held = 0 ∧ tu.temp = 0 := by
      intro u tu hut htu
      have bu := h.bnd htu
      have b2 := h.bnd2 (Ne.symm hut) hth htu
      omega
    have hidle := others_idle h hth (by rw [hpc]; rfl) hz (Or.inr ho)
    refine inv_of_put h hth ⟨rfl, rfl, rfl, rfl, rfl⟩ h.flags ?_ ?_ ?_ ?_ h.ownerEx ?_ ?_ ?_
      ?_ ?_
    · simp [hal.1, hfr.1, hfr.2]
    · intro hc; simp [hal.1] at hc
    · intro _ _; simp only [State.total, put_gH, put_gT, put_gQ]; omega
    · intro ha; simp at ha
    · intro _ hn; simp [ho] at hn
    · simp only [put_gQ, put_gP, hpc, PC.pend]
      refine ⟨by omega, fun hq' => by have := hent.2.1 hq'; omega, fun hm' hp' => hent.2.2 hm' (by omega)⟩
    · simp [isFree]
    · refine ⟨by simp [TOk], by simp, ?_, ?_⟩
      · intro _; simp [hm, hb]
      · intro hq'; exact ti.q hq'
    · intro u tu hut htu hi
      exact hi.idle_any (hidle u tu hut htu) rfl rfl rfl

end SteelVerif.C05
