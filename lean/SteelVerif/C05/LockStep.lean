/-
C05 — `LockInv` is preserved by every step (`step_lockInv`), hence holds in every reachable state.
-/
import SteelVerif.C05.Lock
import SteelVerif.C05.Solo
namespace SteelVerif.C05
set_option linter.unusedSimpArgs false
set_option linter.unusedVariables false

/-- The step replaces the record of `t`, leaves the guard alone, and `t` stays on the same side of
`run_explicit_merge`. -/
macro "lkeep " l:ident ht:ident h:ident : tactic =>
  `(tactic| exact LockInv.keep $l:ident $ht:ident rfl rfl (by simp [$h:ident, lkpc, Ret.isLk])
      (by simp [$h:ident, isEnq]) (by simp [$h:ident, dfMerge, Ret.isMerge]))

theorem touch_threads (s : State) : s.touch.threads = s.threads := by
  simp only [State.touch]; split <;> rfl

theorem touch_lock (s : State) : s.touch.lock = s.lock := by
  simp only [State.touch]; split <;> rfl

theorem lcase_spawn {s : State} {t : Tid} (h : Inv s) (L : LockInv s) :
    ∀ s' o, step s t .spawn = some (s', o) → LockInv s' := by
  intro s' o hs
  simp only [step] at hs
  split at hs
  · cases hs
    have hget : ∀ u (tu : Thread), (s.threads ++ [({} : Thread)])[u]? = some tu →
        s.threads[u]? = some tu ∨ (u = s.threads.length ∧ tu = {}) := by
      intro u tu hu
      rcases Nat.lt_trichotomy u s.threads.length with h1 | h1 | h1
      · rw [List.getElem?_append_left h1] at hu; exact Or.inl hu
      · subst h1; simp at hu; exact Or.inr ⟨rfl, hu.symm⟩
      · have hl : (s.threads ++ [({} : Thread)]).length ≤ u := by
          rw [List.length_append]; simp only [List.length_cons, List.length_nil]; omega
        rw [List.getElem?_eq_none hl] at hu; cases hu
    refine ⟨?_, ?_, ?_, ?_⟩
    · intro u tu hu
      rcases hget u tu hu with h1 | ⟨h1, h2⟩
      · exact L.own u tu h1
      · subst h2
        constructor
        · intro hx; cases hx
        · intro hx
          exact absurd (L.ex u hx) (by rw [h1]; exact Nat.lt_irrefl _)
    · intro u hu
      have hlt : u < s.threads.length := L.ex u hu
      show u < (s.threads ++ [({} : Thread)]).length
      rw [List.length_append]; exact Nat.lt_add_right _ hlt
    · intro hl u tu hu
      rcases hget u tu hu with h1 | ⟨h1, h2⟩
      · exact L.noenq hl u tu h1
      · subst h2; rfl
    · intro u tu hu
      rcases hget u tu hu with h1 | ⟨h1, h2⟩
      · exact L.dfop u tu h1
      · subst h2; rfl
  · cases hs

theorem lcase_idle {s : State} {t : Tid} {th : Thread} (h : Inv s) (L : LockInv s)
    (hth : s.threads[t]? = some th) (hpc : th.pc = .idle) (a : Act)
    (ha : a = .unique ∨ a = .unwrap ∨ a = .count ∨ a = .register ∨ a = .clone ∨ a = .drop ∨ a = .new ∨
      a = .exit) :
    ∀ s' o, step s t a = some (s', o) → LockInv s' := by
  intro s' o hs
  rcases ha with rfl | rfl | rfl | rfl | rfl | rfl | rfl | rfl
  all_goals
    simp only [step, hth, hpc, park, finish] at hs
    repeat' split at hs
    all_goals first
      | (cases hs; done)
      | (simp only [Option.some.injEq, Prod.mk.injEq] at hs
         obtain ⟨rfl, _⟩ := hs
         first
          | lkeep L hth hpc
          | exact LockInv.keep L hth (by simp [touch_threads]) (by simp [touch_lock])
              (by simp [hpc, lkpc, Ret.isLk])
              (by simp [hpc, isEnq]) (by simp [hpc, dfMerge, Ret.isMerge]))

/-- The steps of a parked thread that neither touch the guard nor end a decrement protocol. -/
def simplePc : PC → Bool
  | .incLoad | .incCas _ | .dfLoad _ | .dfCas .. | .dsLoad _ | .mgLoad .. | .mgCas .. | .mgSetNone ..
  | .uqOwner | .uqLoadNone | .uqLoadOwn | .uwOwner | .uwLoadNone | .uwCas _ | .uwLoadOwn => true
  | _ => false

theorem lcase_simple {s : State} {t : Tid} {th : Thread} (h : Inv s) (L : LockInv s)
    (hth : s.threads[t]? = some th) (hsimple : simplePc th.pc = true) :
    ∀ s' o, step s t .step = some (s', o) → LockInv s' := by
  intro s' o hs
  have hal : s.alive = true := by
    refine (alive_of_pc h hth ?_).2
    intro hi; rw [hi] at hsimple; cases hsimple
  cases hpc : th.pc <;> rw [hpc] at hsimple <;> (try (cases hsimple; done))
  all_goals
    simp only [step, hth, hpc, touch_eq hal, park, finish] at hs
    repeat' split at hs
    all_goals first
      | (cases hs; done)
      | (simp only [Option.some.injEq, Prod.mk.injEq] at hs
         obtain ⟨rfl, _⟩ := hs
         lkeep L hth hpc)

theorem lcase_uwFree {s : State} {t : Tid} {th : Thread} (own : Bool) (h : Inv s) (L : LockInv s)
    (hth : s.threads[t]? = some th) (hpc : th.pc = .uwFree own) :
    ∀ s' o, step s t .step = some (s', o) → LockInv s' := by
  intro s' o hs
  simp only [step, hth, hpc, finish, Option.some.injEq, Prod.mk.injEq] at hs
  obtain ⟨rfl, _⟩ := hs
  exact L.keep hth (by rw [dealloc_threads, touch_threads]) (by rw [dealloc_lock, touch_lock])
    (by simp [hpc, lkpc]) (by simp [isEnq]) (by simp [dfMerge])

theorem lcase_free {s : State} {t : Tid} {th : Thread} (r : Ret) (h : Inv s) (L : LockInv s)
    (hth : s.threads[t]? = some th) (hpc : th.pc = .free r) :
    ∀ s' o, step s t .step = some (s', o) → LockInv s' := by
  intro s' o hs
  simp only [step, hth, hpc, Option.some.injEq] at hs
  have this := congrArg Prod.fst hs
  simp only at this
  rw [← this]
  exact L.ret r hth (by rw [dealloc_threads, touch_threads]) (by rw [dealloc_lock, touch_lock])
    (by simp [hpc, lkpc])

theorem lcase_dfSetNone {s : State} {t : Tid} {th : Thread} (r : Ret) (h : Inv s) (L : LockInv s)
    (hth : s.threads[t]? = some th) (hpc : th.pc = .dfSetNone r) :
    ∀ s' o, step s t .step = some (s', o) → LockInv s' := by
  intro s' o hs
  have hal := alive_of_pc h hth (by rw [hpc]; simp)
  have hop : r.isLk = false := by
    have := L.dfop t th hth
    rw [hpc] at this
    cases r with
    | op => rfl
    | merge a b c => simp [dfMerge, Ret.isMerge] at this
  simp only [step, hth, hpc, touch_eq hal.2, park, Option.some.injEq, Prod.mk.injEq] at hs
  obtain ⟨rfl, _⟩ := hs
  exact L.keep hth rfl rfl (by simp [hpc, lkpc, hop]) (by simp [isEnq]) (by simp [dfMerge])

theorem lcase_dsCas {s : State} {t : Tid} {th : Thread} (r : Ret) (old : Word) (h : Inv s)
    (L : LockInv s) (hth : s.threads[t]? = some th) (hpc : th.pc = .dsCas r old) :
    ∀ s' o, step s t .step = some (s', o) → LockInv s' := by
  intro s' o hs
  have hal := alive_of_pc h hth (by rw [hpc]; simp)
  simp only [step, hth, hpc, touch_eq hal.2] at hs
  split at hs
  · rename_i hw
    split at hs
    · -- the reference goes to the queue: nobody is merging (the QUEUED flag was clear)
      rename_i hcond
      obtain ⟨hc0, hq0, hm0⟩ := hcond
      have hnone := lock_none_of_unqueued h L hal.1 (by rw [hw]; exact hq0) (by rw [hw]; exact hm0)
      simp only [park, Option.some.injEq, Prod.mk.injEq] at hs
      obtain ⟨rfl, _⟩ := hs
      exact L.keep hth rfl rfl (by simp [hpc, lkpc]) (fun _ => Or.inr hnone) (by simp [dfMerge])
    · split at hs
      · simp only [park, Option.some.injEq, Prod.mk.injEq] at hs
        obtain ⟨rfl, _⟩ := hs
        lkeep L hth hpc
      · simp only [Option.some.injEq] at hs
        have this := congrArg Prod.fst hs
        simp only at this
        rw [← this]
        exact L.ret r hth rfl rfl (by simp [hpc, lkpc])
  · simp only [park, Option.some.injEq, Prod.mk.injEq] at hs
    obtain ⟨rfl, _⟩ := hs
    lkeep L hth hpc

theorem lcase_enq {s : State} {t : Tid} {th : Thread} (r : Ret) (h : Inv s) (L : LockInv s)
    (hth : s.threads[t]? = some th) (hpc : th.pc = .enq r) :
    ∀ s' o, step s t .step = some (s', o) → LockInv s' := by
  intro s' o hs
  have hal := alive_of_pc h hth (by rw [hpc]; simp)
  have hok := (h.thr t th hth).ok; simp only [TOk, hpc] at hok
  obtain ⟨hp, hq, hr, hno⟩ := hok
  simp only [step, hth, hpc] at hs
  split at hs
  · cases hs
  · simp only [touch_eq hal.2] at hs
    split at hs
    · simp only [park, Option.some.injEq, Prod.mk.injEq] at hs
      obtain ⟨rfl, _⟩ := hs
      lkeep L hth hpc
    · rename_i k hk
      have hkt : t ≠ k := by intro e; apply hno; rw [hk, e]
      have hrop : r = .op := by
        cases r with
        | op => rfl
        | merge a b c => have := hr rfl; rw [hk] at this; cases this
      subst hrop
      simp only [ret, finish] at hs
      split at hs
      · cases hs
      · rename_i tk htk
        generalize hdef : (if tk.registered = true then ({ tk with regQ := tk.regQ + 1 } : Thread)
          else { tk with unregQ := tk.unregQ + 1 }) = tk' at hs
        have hk4 : tk'.pc = tk.pc := by rw [← hdef]; split <;> rfl
        simp only [Option.some.injEq, Prod.mk.injEq] at hs
        obtain ⟨rfl, _⟩ := hs
        have L1 : LockInv (s.put t th { th with pc := PC.idle, temp := th.temp - 1, shown := th.held }) :=
          L.keep hth rfl rfl (by simp [hpc, lkpc, Ret.isLk]) (by simp [isEnq]) (by simp [dfMerge])
        exact L1.keep htk rfl rfl (by rw [hk4]) (fun hx => Or.inl (by rw [← hk4]; exact hx))
          (fun hx => by rw [← hk4]; exact hx)

theorem lcase_move {s : State} {t : Tid} {th : Thread} (h : Inv s) (L : LockInv s)
    (hth : s.threads[t]? = some th) (hpc : th.pc = .idle) (u : Tid) :
    ∀ s' o, step s t (.move u) = some (s', o) → LockInv s' := by
  intro s' o hs
  simp only [step, hth, hpc] at hs
  split at hs
  · cases hs
  · rename_i hh
    have hut : u ≠ t := fun hx => hh (Or.inr hx)
    split at hs
    · cases hs
    · rename_i tu htu
      split at hs
      · cases hs
      · simp only [Option.some.injEq, Prod.mk.injEq] at hs
        obtain ⟨rfl, _⟩ := hs
        have L1 : LockInv (s.put t th { th with held := th.held - 1, shown := th.held - 1 }) :=
          L.keep hth rfl rfl rfl (fun hx => Or.inl hx) (fun hx => hx)
        have htu1 : (s.put t th { th with held := th.held - 1, shown := th.held - 1 }).threads[u]? =
            some tu := by rw [put_get_other hut]; exact htu
        have := L1.keep (th' := { tu with held := tu.held + 1, shown := tu.held + 1 }) htu1 rfl rfl rfl
          (fun hx => Or.inl hx) (fun hx => hx)
        simpa [hpc] using this

theorem lcase_merge {s : State} {t : Tid} {th : Thread} (h : Inv s) (L : LockInv s)
    (hth : s.threads[t]? = some th) (hpc : th.pc = .idle) :
    ∀ s' o, step s t .merge = some (s', o) → LockInv s' := by
  intro s' o hs
  simp only [step, hth, hpc] at hs
  split at hs
  · cases hs
  · rename_i hlk
    have hnone : s.lock = none := by
      cases hl : s.lock with
      | none => rfl
      | some u => rw [hl] at hlk; simp at hlk
    split at hs
    · simp only [finish, Option.some.injEq, Prod.mk.injEq] at hs
      obtain ⟨rfl, _⟩ := hs
      lkeep L hth hpc
    · rename_i k hn
      simp only [park, Option.some.injEq, Prod.mk.injEq] at hs
      obtain ⟨rfl, _⟩ := hs
      -- the queue entry exists, so no reference is on its way into a queue
      have b := h.bnd hth
      have hent := h.ent.1
      refine L.acquire (s1 := { s with lock := some t }) hth rfl hnone rfl rfl rfl rfl ?_
      intro u tu hu
      have bu := (h.bnd hu).2.2.2
      cases hp : tu.pc <;> simp only [isEnq]
      rw [hp] at bu
      simp only [PC.pend] at bu
      omega

/-- Every step preserves `LockInv`. -/
theorem step_lockInv {s s' : State} {t : Tid} {a : Act} {o : Out} (h : Inv s) (L : LockInv s)
    (hs : step s t a = some (s', o)) : LockInv s' := by
  cases a with
  | spawn => exact lcase_spawn h L s' o hs
  | _ =>
    all_goals
      cases hth : s.threads[t]? with
      | none => simp [step, hth] at hs
      | some th =>
        cases hpc : th.pc
        all_goals first
          | exact lcase_move h L hth hpc _ s' o hs
          | exact lcase_merge h L hth hpc s' o hs
          | exact lcase_idle h L hth hpc _ (by decide) s' o hs
          | exact lcase_simple h L hth (by rw [hpc]; rfl) s' o hs
          | exact lcase_uwFree _ h L hth hpc s' o hs
          | exact lcase_free _ h L hth hpc s' o hs
          | exact lcase_dfSetNone _ h L hth hpc s' o hs
          | exact lcase_dsCas _ _ h L hth hpc s' o hs
          | exact lcase_enq _ h L hth hpc s' o hs
          | (simp [step, hth, hpc] at hs)

/-- The invariants together. -/
structure Inv3 (s : State) : Prop where
  inv2 : Inv2 s
  lock : LockInv s

theorem inv3_init : Inv3 init := ⟨inv2_init, lockInv_init⟩

theorem step_inv3 {s s' : State} {t : Tid} {a : Act} {o : Out} (h : Inv3 s)
    (hs : step s t a = some (s', o)) : Inv3 s' :=
  ⟨step_inv2 h.inv2 hs, step_lockInv h.inv2.inv h.lock hs⟩

theorem run_inv3 (sched : List (Tid × Act)) : ∀ {s : State}, Inv3 s → Inv3 (run s sched) := by
  induction sched with
  | nil => intro s h; exact h
  | cons x rest ih =>
    intro s h
    obtain ⟨t, a⟩ := x
    simp only [run]
    cases hs : step s t a with
    | none => exact h
    | some r => obtain ⟨s', o⟩ := r; exact ih (step_inv3 h hs)

/-- With the guard accounted for, the solo-progress theorem needs no assumption: alone, a thread
finishes its operation within `rank` steps. -/
theorem solo_completes3 (t : Tid) : ∀ (n : Nat) {s : State} {th : Thread}, Inv3 s →
    s.threads[t]? = some th → rank s.w th.pc ≤ n →
    ∃ k, k ≤ n ∧ ∃ th', (solo t k s).threads[t]? = some th' ∧ th'.pc = .idle ∧
      th'.regQ = th.regQ ∧ th'.unregQ = th.unregQ ∧ Inv3 (solo t k s) := by
  intro n
  induction n with
  | zero =>
    intro s th h hth hr
    by_cases hi : th.pc = .idle
    · exact ⟨0, Nat.le_refl _, th, hth, hi, rfl, rfl, h⟩
    · obtain ⟨s', o, hs, th', _, hlt, _⟩ :=
        solo_step h.inv2.inv hth hi (fun r hr' => h.lock.enq_free hth hr')
      omega
  | succ m ih =>
    intro s th h hth hr
    by_cases hi : th.pc = .idle
    · exact ⟨0, Nat.zero_le _, th, hth, hi, rfl, rfl, h⟩
    · obtain ⟨s', o, hs, th', hth', hlt, _, q1, q2⟩ :=
        solo_step h.inv2.inv hth hi (fun r hr' => h.lock.enq_free hth hr')
      obtain ⟨k, hk, th2, a, b, c, d, e⟩ := ih (step_inv3 h hs) hth' (by omega)
      refine ⟨k + 1, by omega, th2, ?_, b, by rw [c, q1], by rw [d, q2], ?_⟩
      · simp only [solo, hs]; exact a
      · simp only [solo, hs]; exact e

end SteelVerif.C05
