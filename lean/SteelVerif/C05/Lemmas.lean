/-
C05 — invariant of the step-level transition system and its preservation (helper lemmas).
The property theorems are in Props.lean.
-/
import SteelVerif.C05.Model
namespace SteelVerif.C05

/-! ## Sums over the thread list -/

theorem sum_modify (g : Thread → Nat) : ∀ (l : List Thread) (t : Nat) (th : Thread) (f : Thread → Thread),
    l[t]? = some th → ((l.modify t f).map g).sum + g th = (l.map g).sum + g (f th) := by
  intro l
  induction l with
  | nil => intro t th f h; simp at h
  | cons a l ih =>
    intro t th f h
    cases t with
    | zero => simp at h; subst h; simp; omega
    | succ t =>
      simp at h
      have := ih t th f h
      simp; omega

theorem le_sum (g : Thread → Nat) : ∀ (l : List Thread) (t : Nat) (th : Thread),
    l[t]? = some th → g th ≤ (l.map g).sum := by
  intro l
  induction l with
  | nil => intro t th h; simp at h
  | cons a l ih =>
    intro t th h
    cases t with
    | zero => simp at h; subst h; simp
    | succ t => simp at h; have := ih t th h; simp; omega

theorem sum_two (g : Thread → Nat) : ∀ (l : List Thread) (t u : Nat) (th tu : Thread),
    t ≠ u → l[t]? = some th → l[u]? = some tu → g th + g tu ≤ (l.map g).sum := by
  intro l
  induction l with
  | nil => intro t u th tu _ h; simp at h
  | cons a l ih =>
    intro t u th tu hne h1 h2
    cases t with
    | zero =>
      cases u with
      | zero => exact absurd rfl hne
      | succ u => simp at h1 h2; subst h1; have := le_sum g l u tu h2; simp; omega
    | succ t =>
      cases u with
      | zero => simp at h1 h2; subst h2; have := le_sum g l t th h1; simp; omega
      | succ u =>
        simp at h1 h2
        have := ih t u th tu (by omega) h1 h2
        simp; omega

/-- The ghost aggregates are the sums they stand for. -/
def SumInv (s : State) : Prop :=
  s.gH = sumHeld s.threads ∧ s.gT = sumTemp s.threads ∧ s.gQ = sumQ s.threads ∧ s.gP = sumP s.threads

/-! ## Lookup / field lemmas for `put` -/

theorem sum_set (g : Thread → Nat) : ∀ (l : List Thread) (t : Nat) (th th' : Thread),
    l[t]? = some th → ((l.set t th').map g).sum + g th = (l.map g).sum + g th' := by
  intro l
  induction l with
  | nil => intro t th th' h; simp at h
  | cons a l ih =>
    intro t th th' h
    cases t with
    | zero => simp at h; subst h; simp only [List.set_cons_zero, List.map_cons, List.sum_cons]; omega
    | succ t =>
      simp at h
      have := ih t th th' h
      simp only [List.set_cons_succ, List.map_cons, List.sum_cons]; omega

theorem put_get_same {s : State} {t : Tid} {th th' : Thread} (h : s.threads[t]? = some th) (x : Thread) :
    (s.put t x th').threads[t]? = some th' := by
  have : t < s.threads.length := by
    rcases Nat.lt_or_ge t s.threads.length with h1 | h1
    · exact h1
    · simp [List.getElem?_eq_none h1] at h
  simp [State.put, this]

theorem put_get_other {s : State} {t u : Tid} {x th' : Thread} (h : u ≠ t) :
    (s.put t x th').threads[u]? = s.threads[u]? := by
  simp [State.put, List.getElem?_set]; intro h'; exact absurd h'.symm h

section fields
variable (s : State) (t : Tid) (x y : Thread)
@[simp] theorem put_created : (s.put t x y).created = s.created := rfl
@[simp] theorem put_owner : (s.put t x y).owner = s.owner := rfl
@[simp] theorem put_biased : (s.put t x y).biased = s.biased := rfl
@[simp] theorem put_w : (s.put t x y).w = s.w := rfl
@[simp] theorem put_alive : (s.put t x y).alive = s.alive := rfl
@[simp] theorem put_frees : (s.put t x y).frees = s.frees := rfl
@[simp] theorem put_drops : (s.put t x y).drops = s.drops := rfl
@[simp] theorem put_lock : (s.put t x y).lock = s.lock := rfl
@[simp] theorem put_uaf : (s.put t x y).uaf = s.uaf := rfl
@[simp] theorem put_badUnique : (s.put t x y).badUnique = s.badUnique := rfl
@[simp] theorem put_earlyFree : (s.put t x y).earlyFree = s.earlyFree := rfl
@[simp] theorem put_underflow : (s.put t x y).underflow = s.underflow := rfl
@[simp] theorem put_gH : (s.put t x y).gH = s.gH + y.held - x.held := rfl
@[simp] theorem put_gT : (s.put t x y).gT = s.gT + y.temp - x.temp := rfl
@[simp] theorem put_gQ : (s.put t x y).gQ = s.gQ + (y.regQ + y.unregQ) - (x.regQ + x.unregQ) := rfl
@[simp] theorem put_gP : (s.put t x y).gP = s.gP + y.pc.pend - x.pc.pend := rfl
@[simp] theorem put_len : (s.put t x y).threads.length = s.threads.length := by simp [State.put]
end fields

theorem sumInv_put {s : State} {t : Tid} {th th' : Thread} (h : SumInv s)
    (hth : s.threads[t]? = some th) : SumInv (s.put t th th') := by
  obtain ⟨h1, h2, h3, h4⟩ := h
  have a1 := sum_set (·.held) _ _ _ th' hth
  have a2 := sum_set (·.temp) _ _ _ th' hth
  have a3 := sum_set (fun t => t.regQ + t.unregQ) _ _ _ th' hth
  have a4 := sum_set (fun t => t.pc.pend) _ _ _ th' hth
  have b1 := le_sum (·.held) _ _ _ hth
  have b2 := le_sum (·.temp) _ _ _ hth
  have b3 := le_sum (fun t => t.regQ + t.unregQ) _ _ _ hth
  have b4 := le_sum (fun t => t.pc.pend) _ _ _ hth
  simp only [SumInv, sumHeld, sumTemp, sumQ, sumP] at *
  simp only [State.put]
  refine ⟨?_, ?_, ?_, ?_⟩ <;> omega

/-! ## The invariant -/

def isSetNone : PC → Bool
  | .dfSetNone _ | .mgSetNone .. => true
  | _ => false

def isDf : PC → Bool
  | .dfLoad _ | .dfCas .. | .dfSetNone _ => true
  | _ => false

def isFree : PC → Bool
  | .free _ | .uwFree _ => true
  | _ => false

/-- What the continuation of a decrement needs. -/
def Ret.isMerge : Ret → Bool
  | .op => false
  | .merge .. => true

def RetOk (s : State) (r : Ret) : Prop := r.isMerge = true → s.owner = none

/-- Per-thread part of the invariant: what being parked at a pc guarantees. -/
def TOk (s : State) (t : Tid) (th : Thread) : Prop :=
  match th.pc with
  | .idle => True
  | .incLoad | .incCas _ => 1 ≤ th.held
  | .dfLoad r | .dfCas r _ =>
      s.owner = some t ∧ s.biased = 0 ∧ s.w.merged = false ∧ r.pend ≤ th.temp
  | .dfSetNone r =>
      s.owner = some t ∧ s.biased = 0 ∧ s.w.merged = true ∧ 1 + r.pend ≤ th.temp
  | .dsLoad r | .dsCas r _ => 1 + r.pend ≤ th.temp ∧ RetOk s r ∧ s.owner ≠ some t
  | .enq r => 1 + r.pend ≤ th.temp ∧ s.w.queued = true ∧ RetOk s r ∧ s.owner ≠ some t
  | .free r => s.w.merged = true ∧ s.w.cnt = 0 ∧ r.pend ≤ th.temp ∧ RetOk s r
  | .uqOwner | .uwOwner => 1 ≤ th.held
  | .uqLoadNone | .uwLoadNone | .uwCas _ => 1 ≤ th.held ∧ s.owner = none
  | .uqLoadOwn | .uwLoadOwn => 1 ≤ th.held ∧ s.owner = some t ∧ s.biased = 1
  | .uwFree false => s.w.merged = true ∧ s.w.cnt = 0
  | .uwFree true => 1 ≤ th.held ∧ s.owner = some t ∧ s.biased = 1 ∧ s.w.cnt = 0
  | .mgLoad rest _ _ | .mgCas rest _ _ _ =>
      rest + 1 ≤ th.temp ∧ (s.owner = some t ∨ s.owner = none)
  | .mgSetNone rest _ _ =>
      rest + 1 ≤ th.temp ∧ s.w.merged = true ∧ (s.owner = some t ∨ s.owner = none)

/-- Everything the invariant says about thread `t` (in state `s`). -/
structure TInv (s : State) (t : Tid) (th : Thread) : Prop where
  ok : TOk s t th
  /-- before the object exists, and after it has been freed, every thread is idle -/
  idle : (s.created = false ∨ s.alive = false) → th.pc = .idle
  /-- the owner runs the fast path only on an unmerged object with a positive biased counter -/
  own : s.owner = some t → (s.w.merged = true → isSetNone th.pc = true) ∧
          (s.biased = 0 → isDf th.pc = true)
  /-- queue entries sit in the owner's queues -/
  q : 0 < th.regQ + th.unregQ → s.owner = some t ∨ s.owner = none

structure Inv (s : State) : Prop where
  flags : s.uaf = false ∧ s.badUnique = false ∧ s.earlyFree = false ∧ s.underflow = false
  frees : s.drops = s.frees ∧ s.frees = (if s.created = true ∧ s.alive = false then 1 else 0)
  sums : SumInv s
  pre : s.created = false →
          s.alive = false ∧ s.owner = none ∧ s.w = ⟨0, false, false⟩ ∧ s.total = 0 ∧ s.gP = 0
  dead : s.created = true → s.alive = false → s.total = 0
  count : s.alive = true → s.created = true ∧
          (if s.w.merged then s.w.cnt else (s.biased : Int) + s.w.cnt) = (s.total : Int)
  ownerEx : ∀ o, s.owner = some o → o < s.threads.length
  ownerNone : s.created = true → s.owner = none → s.w.merged = true
  ent : s.gQ + s.gP ≤ 1 ∧ (s.w.queued = false → s.gQ + s.gP = 0) ∧
        (s.w.merged = true → 1 ≤ s.gQ + s.gP → s.biased = 0)
  freeUniq : ∀ (t u : Tid) (th tu : Thread), s.threads[t]? = some th → s.threads[u]? = some tu →
        isFree th.pc = true → isFree tu.pc = true → t = u
  thr : ∀ (t : Tid) (th : Thread), s.threads[t]? = some th → TInv s t th

theorem inv_init : Inv init := by
  refine ⟨by simp [init], by simp [init], by simp [init, SumInv, sumHeld, sumTemp, sumQ, sumP],
    by simp [init, State.total], by simp [init], by simp [init], by simp [init], by simp [init],
    by simp [init], by simp [init], by simp [init]⟩

/-- Bounds a thread's ghost fields by the aggregates. -/
theorem Inv.bnd {s : State} (h : Inv s) {t : Tid} {th : Thread} (hth : s.threads[t]? = some th) :
    th.held ≤ s.gH ∧ th.temp ≤ s.gT ∧ th.regQ + th.unregQ ≤ s.gQ ∧ th.pc.pend ≤ s.gP := by
  obtain ⟨h1, h2, h3, h4⟩ := h.sums
  refine ⟨?_, ?_, ?_, ?_⟩
  · rw [h1]; exact le_sum (·.held) _ _ _ hth
  · rw [h2]; exact le_sum (·.temp) _ _ _ hth
  · rw [h3]; exact le_sum (fun t => t.regQ + t.unregQ) _ _ _ hth
  · rw [h4]; exact le_sum (fun t => t.pc.pend) _ _ _ hth

end SteelVerif.C05
