/-
C05 — model M of the biased reference-count protocol of `crates/steel-rc/src/lib.rs`
(one object, any number of threads, every shared access one atomic step).

The model follows the Rust: same state components (`thread_id`, `biased_counter`, the packed shared
word {counter, merged, queued}, the per-thread merge queues `QUEUE.map` / `QUEUE.unregistered`),
same case splits, same order of effects.  Thread-local computation is merged into the shared access
that precedes it; the program counter `PC` names the yield site (`steel_rc::verif::yield_point`) at
which the thread is parked, i.e. the shared access it performs next.

Ghost components (no counterpart in the code, used by the specification only):
`held` (references owned by a thread's variables), `temp` (a counted reference that a thread has in
flight: the one being dropped, the temporary one of the merging owner, or queue entries it drained),
and the violation flags `uaf`, `badUnique`, `earlyFree`, `underflow`.
-/
namespace SteelVerif.C05

abbrev Tid := Nat

/-- The packed shared word: 30-bit signed counter, merged flag, queued flag. -/
structure Word where
  cnt : Int
  merged : Bool
  queued : Bool
deriving DecidableEq, Repr, Inhabited

/-- What a thread does when the decrement protocol it is running finishes. -/
inductive Ret where
  | op                                   -- complete the user operation (`drop`)
  | merge (rest n : Nat) (lk : Bool)     -- continue `explicit_merge` with `rest` more entries
deriving DecidableEq, Repr, Inhabited

inductive PC where
  | idle
  -- `increment` (clone), slow path
  | incLoad | incCas (old : Word)
  -- `fast_decrement` after the biased counter reached 0
  | dfLoad (r : Ret) | dfCas (r : Ret) (old : Word) | dfSetNone (r : Ret)
  -- `slow_decrement`
  | dsLoad (r : Ret) | dsCas (r : Ret) (old : Word)
  | enq (r : Ret)                        -- `QueueHandle::enqueue`
  | free (r : Ret)                       -- `drop_contents_and_maybe_box`
  -- `has_unique_ref`
  | uqOwner | uqLoadNone | uqLoadOwn
  -- `try_unwrap`
  | uwOwner | uwLoadNone | uwCas (old : Word) | uwLoadOwn | uwFree (own : Bool)
  -- `explicit_merge`, per entry
  | mgLoad (rest n : Nat) (lk : Bool) | mgCas (rest n : Nat) (lk : Bool) (old : Word)
  | mgSetNone (rest n : Nat) (lk : Bool)
deriving DecidableEq, Repr, Inhabited

structure Thread where
  pc : PC := .idle
  held : Nat := 0
  temp : Nat := 0
  shown : Nat := 0            -- `refs.len()` as the harness reports it (updated when an op completes)
  registered : Bool := false  -- `QUEUE.map` has an entry for this thread
  regQ : Nat := 0             -- its length
  unregQ : Nat := 0           -- length of `QUEUE.unregistered[Some t]`
deriving DecidableEq, Repr, Inhabited

structure State where
  created : Bool := false
  owner : Option Tid := none
  biased : Nat := 0
  w : Word := ⟨0, false, false⟩
  alive : Bool := false
  frees : Nat := 0
  drops : Nat := 0
  lock : Option Tid := none   -- a dashmap guard is held by a running `run_explicit_merge`
  threads : List Thread := []
  uaf : Bool := false         -- the object was accessed after it had been freed (incl. double free)
  badUnique : Bool := false   -- exclusive access granted while another reference existed
  earlyFree : Bool := false   -- freed while a reference was still held
  underflow : Bool := false   -- `biased_counter - 1` with a zero counter
  -- ghost aggregates (kept equal to the sums over `threads`, see `SumInv` in Lemmas.lean)
  gH : Nat := 0               -- Σ held
  gT : Nat := 0               -- Σ temp
  gQ : Nat := 0               -- Σ (regQ + unregQ): references owned by queue entries
  gP : Nat := 0               -- Σ pend pc: queue entries a thread is handing over / has drained
deriving Repr, Inhabited

def init : State := {}

/-- A user-level action of the schedule. -/
inductive Act where
  | spawn
  | new | clone | drop | move (u : Tid) | unique | unwrap | count
  | register | merge | exit
  | step
deriving DecidableEq, Repr

/-- What the line of the schedule reports. -/
inductive Out where
  | yield (site : String)
  | done (res : String)
deriving DecidableEq, Repr

def PC.site : PC → String
  | .idle => "idle"
  | .incLoad => "inc.load" | .incCas _ => "inc.cas"
  | .dfLoad _ => "decfast.load" | .dfCas _ _ => "decfast.cas" | .dfSetNone _ => "decfast.setnone"
  | .dsLoad _ => "decslow.load" | .dsCas _ _ => "decslow.cas"
  | .enq _ => "enqueue" | .free _ => "free"
  | .uqOwner => "uniq.owner" | .uqLoadNone => "uniq.load" | .uqLoadOwn => "uniq.load"
  | .uwOwner => "unwrap.owner" | .uwLoadNone => "unwrap.load" | .uwCas _ => "unwrap.cas"
  | .uwLoadOwn => "unwrap.load" | .uwFree _ => "unwrap.free"
  | .mgLoad .. => "merge.load" | .mgCas .. => "merge.cas" | .mgSetNone .. => "merge.setnone"

def Ret.pend : Ret → Nat
  | .op => 0
  | .merge rest _ _ => rest

/-- Queue entries that the thread parked at this pc still has to enqueue / merge. -/
def PC.pend : PC → Nat
  | .mgLoad rest _ _ | .mgCas rest _ _ _ => rest + 1
  | .mgSetNone rest _ _ => rest
  | .enq r => 1 + r.pend
  | .dfLoad r | .dfCas r _ | .dfSetNone r | .dsLoad r | .dsCas r _ | .free r => r.pend
  | _ => 0

def sumHeld (l : List Thread) : Nat := (l.map (·.held)).sum
def sumTemp (l : List Thread) : Nat := (l.map (·.temp)).sum
def sumQ (l : List Thread) : Nat := (l.map (fun t => t.regQ + t.unregQ)).sum
def sumP (l : List Thread) : Nat := (l.map (fun t => t.pc.pend)).sum

/-- Number of counted references that exist (ghost). -/
def State.total (s : State) : Nat := s.gH + s.gT + s.gQ

/-- Replace thread `t` (currently `th`) by `th'`; the ghost aggregates move by the difference. -/
def State.put (s : State) (t : Tid) (th th' : Thread) : State :=
  { s with threads := s.threads.set t th',
           gH := s.gH + th'.held - th.held,
           gT := s.gT + th'.temp - th.temp,
           gQ := s.gQ + (th'.regQ + th'.unregQ) - (th.regQ + th.unregQ),
           gP := s.gP + th'.pc.pend - th.pc.pend }

/-- Every access to the object's memory goes through `touch`: after the free it is a violation. -/
def State.touch (s : State) : State := if s.alive then s else { s with uaf := true }

/-- Park thread `t` at `pc` (its other fields as in `th'`) and report the yield site. -/
def park (s : State) (t : Tid) (th th' : Thread) (pc : PC) : State × Out :=
  (s.put t th { th' with pc := pc }, .yield pc.site)

/-- Complete the user operation of thread `t`. -/
def finish (s : State) (t : Tid) (th th' : Thread) (res : String) : State × Out :=
  (s.put t th { th' with pc := .idle, shown := th'.held }, .done res)

/-- The decrement protocol of `t` is over; go on with what it was part of. -/
def ret (s : State) (t : Tid) (th th' : Thread) : Ret → State × Out
  | .op => finish s t th th' "ok"
  | .merge 0 n lk =>
      -- `run_explicit_merge` (guard held) reports the number of entries, `finish_thread_merge` nothing
      finish (if lk then { s with lock := none } else s) t th th' (if lk then toString n else "ok")
  | .merge (rest + 1) n lk => park s t th th' (.mgLoad rest n lk)

/-- `usize` view of an `i32` counter (`count as _` in `strong_count`). -/
def asUsize (i : Int) : Nat := if i < 0 then (i + 18446744073709551616).toNat else i.toNat

/-- The deallocation shared by `drop_contents_and_maybe_box` and `try_unwrap`; `tot` is the number
of counted references that exist at that moment. -/
def State.dealloc (s : State) (tot : Nat) : State :=
  let s := if tot > 0 then { s with earlyFree := true } else s
  { s with alive := false, frees := s.frees + 1, drops := s.drops + 1 }

/-- One line of the schedule: thread `t` performs `a`.  `none`: the line is not executable
(no such thread, thread busy / not parked, no reference to operate on, dashmap guard taken). -/
def step (s : State) (t : Tid) (a : Act) : Option (State × Out) :=
  match a with
  | .spawn =>
      if t = s.threads.length then
        some ({ s with threads := s.threads ++ [{}] }, .done "ok")
      else none
  | _ =>
  match s.threads[t]? with
  | none => none
  | some th =>
  match a, th.pc with
  | .spawn, _ => none
  -- ── operations started on an idle thread ─────────────────────────────────────────────────
  | .new, .idle =>
      if s.created then none else
      let s := { s with created := true, owner := some t, biased := 1, w := ⟨0, false, false⟩,
                        alive := true }
      some (finish s t th { th with held := th.held + 1 } "ok")
  | .move u, .idle =>
      if th.held = 0 ∨ u = t then none else
      match s.threads[u]? with
      | none => none
      | some tu =>
        if tu.pc ≠ .idle then none else
        let s := s.put t th { th with held := th.held - 1, shown := th.held - 1 }
        let s := s.put u tu { tu with held := tu.held + 1, shown := tu.held + 1 }
        some (s, .done "ok")
  | .clone, .idle =>
      if th.held = 0 then none else
      let s := s.touch
      if s.owner = some t then
        -- fast_increment
        some (finish { s with biased := s.biased + 1 } t th { th with held := th.held + 1 } "ok")
      else some (park s t th th .incLoad)
  | .drop, .idle =>
      if th.held = 0 then none else
      let s := s.touch
      if s.owner = some t then
        -- fast_decrement: the reference is gone as soon as the biased counter is written
        let s := if s.biased = 0 then { s with underflow := true } else s
        let s := { s with biased := s.biased - 1 }
        let th' := { th with held := th.held - 1 }
        if s.biased > 0 then some (finish s t th th' "ok") else some (park s t th th' (.dfLoad .op))
      else
        -- slow_decrement: the reference is in flight until the compare-exchange succeeds
        some (park s t th { th with held := th.held - 1, temp := th.temp + 1 } (.dsLoad .op))
  | .unique, .idle => if th.held = 0 then none else some (park s t th th .uqOwner)
  | .unwrap, .idle => if th.held = 0 then none else some (park s t th th .uwOwner)
  | .count, .idle =>
      if th.held = 0 then none else
      let s := s.touch
      let c : Int :=
        if s.w.cnt = 0 then
          match s.owner with
          | none => 0
          | some o => if o = t then (s.biased : Int) else 2
        else s.w.cnt
      some (finish s t th th (toString (asUsize c)))
  | .register, .idle =>
      if s.lock.isSome then none else
      some (finish s t th { th with registered := true } "ok")
  | .merge, .idle =>
      -- run_explicit_merge: drains `unregistered[Some t]` and `map[Some t]`
      if s.lock.isSome then none else
      let n := th.unregQ + th.regQ
      let th' := { th with unregQ := 0, regQ := 0, temp := th.temp + n }
      match n with
      | 0 => some (finish s t th th' "0")
      | k + 1 => some (park { s with lock := some t } t th th' (.mgLoad k n true))
  | .exit, .idle =>
      -- finish_thread_merge: removes the thread's entry of `QUEUE.map` and merges what was in it
      if s.lock.isSome then none else
      let n := th.regQ
      let th' := { th with regQ := 0, registered := false, temp := th.temp + n }
      match n with
      | 0 => some (finish s t th th' "ok")
      | k + 1 => some (park s t th th' (.mgLoad k 0 false))
  -- ── one shared access of a parked thread ─────────────────────────────────────────────────
  | .step, .incLoad => let s := s.touch; some (park s t th th (.incCas s.w))
  | .step, .incCas old =>
      let s := s.touch
      if s.w = old then
        some (finish { s with w := { old with cnt := old.cnt + 1 } } t th
                { th with held := th.held + 1 } "ok")
      else some (park s t th th (.incCas s.w))
  | .step, .dfLoad r => let s := s.touch; some (park s t th th (.dfCas r s.w))
  | .step, .dfCas r old =>
      let s := s.touch
      if s.w = old then
        -- merged := true, and one temporary reference for the owner
        some (park { s with w := { old with merged := true, cnt := old.cnt + 1 } } t th
                { th with temp := th.temp + 1 } (.dfSetNone r))
      else some (park s t th th (.dfCas r s.w))
  | .step, .dfSetNone r =>
      let s := s.touch
      some (park { s with owner := none } t th th (.dsLoad r))
  | .step, .dsLoad r => let s := s.touch; some (park s t th th (.dsCas r s.w))
  | .step, .dsCas r old =>
      let s := s.touch
      if s.w = old then
        if old.cnt ≤ 0 ∧ old.queued = false ∧ old.merged = false then
          -- hand the reference to the owner's queue
          some (park { s with w := { old with queued := true } } t th th (.enq r))
        else
          let new : Word := { old with cnt := old.cnt - 1 }
          let s := { s with w := new }
          let th' := { th with temp := th.temp - 1 }
          if new.merged = true ∧ new.cnt = 0 then some (park s t th th' (.free r))
          else some (ret s t th th' r)
      else some (park s t th th (.dsCas r s.w))
  | .step, .enq r =>
      if s.lock.isSome then none else
      let s := s.touch
      match s.owner with
      | none => some (park s t th th (.dsLoad r))   -- nobody to hand it to: drop it the normal way
      | some k =>
          -- the reference moves from the dropping thread into the queue of thread `k`
          let (s, o) := ret s t th { th with temp := th.temp - 1 } r
          match s.threads[k]? with
          | none => none
          | some tk =>
            some (s.put k tk (if tk.registered then { tk with regQ := tk.regQ + 1 }
                              else { tk with unregQ := tk.unregQ + 1 }), o)
  | .step, .free r =>
      let s := s.touch
      some (ret (s.dealloc s.total) t th th r)
  | .step, .uqOwner =>
      let s := s.touch
      match s.owner with
      | none => some (park s t th th .uqLoadNone)
      | some o =>
          if o = t then
            if s.biased = 1 then some (park s t th th .uqLoadOwn) else some (finish s t th th "false")
          else some (finish s t th th "false")
  | .step, .uqLoadNone =>
      let s := s.touch
      let u := decide (s.w.cnt = 1)
      let s := if u = true ∧ s.total ≠ 1 then { s with badUnique := true } else s
      some (finish s t th th (toString u))
  | .step, .uqLoadOwn =>
      let s := s.touch
      let u := decide (s.w.cnt = 0)
      let s := if u = true ∧ s.total ≠ 1 then { s with badUnique := true } else s
      some (finish s t th th (toString u))
  | .step, .uwOwner =>
      let s := s.touch
      match s.owner with
      | none => some (park s t th th .uwLoadNone)
      | some o =>
          if o = t then
            if s.biased = 1 then some (park s t th th .uwLoadOwn) else some (finish s t th th "none")
          else some (finish s t th th "none")
  | .step, .uwLoadNone => let s := s.touch; some (park s t th th (.uwCas s.w))
  | .step, .uwCas old =>
      let s := s.touch
      if s.w = { old with cnt := 1 } then
        some (park { s with w := { old with cnt := 0 } } t th { th with held := th.held - 1 }
                (.uwFree false))
      else some (finish s t th th "none")
  | .step, .uwLoadOwn =>
      let s := s.touch
      if s.w.cnt ≠ 0 then some (finish s t th th "none")
      else some (park s t th th (.uwFree true))
  | .step, .uwFree own =>
      let s := s.touch
      -- owner path: the reference is given up together with the deallocation
      let d := if own then 1 else 0
      some (finish (s.dealloc (s.total - d)) t th { th with held := th.held - d } "some:feed")
  | .step, .mgLoad rest n lk => let s := s.touch; some (park s t th th (.mgCas rest n lk s.w))
  | .step, .mgCas rest n lk old =>
      let s := s.touch
      if s.w = old then
        some (park { s with w := { old with cnt := old.cnt + s.biased, merged := true } } t th th
                (.mgSetNone rest n lk))
      else some (park s t th th (.mgCas rest n lk s.w))
  | .step, .mgSetNone rest n lk =>
      let s := s.touch
      some (park { s with owner := none } t th th (.dsLoad (.merge rest n lk)))
  | _, _ => none

/-- Run a schedule; stops at the first line that is not executable. -/
def run (s : State) : List (Tid × Act) → State
  | [] => s
  | (t, a) :: rest =>
      match step s t a with
      | none => s
      | some (s', _) => run s' rest

/-- The specification S, evaluated on a state: no violation has been recorded. -/
def State.ok (s : State) : Prop :=
  s.uaf = false ∧ s.badUnique = false ∧ s.earlyFree = false ∧ s.underflow = false ∧
  s.frees ≤ 1 ∧ s.drops = s.frees

instance (s : State) : Decidable s.ok := by unfold State.ok; infer_instance

end SteelVerif.C05
