/-
C05 — model M of the biased reference-count protocol of `crates/steel-rc/src/lib.rs`
(one object, any number of threads, every shared access one atomic step).

The model follows the Rust: same state components (`thread_id`, `biased_counter`, the packed shared
word {counter, merged, queued}, the per-thread merge queues `QUEUE.map` / `QUEUE.unregistered`),
same case splits, same order of effects.  Thread-local computation is merged into the shared access
that precedes it; the program counter `PC` names the yield site (`steel_rc::verif::yield_point`) at
which the thread is parked, i.e. the shared access it performs next.

Ghost components (no counterpart in the code, used by the specification only):
`held` (references owned by a thread's variables), `temp` (a counted reference that a thread has in
flight: the one being dropped, the temporary one of the merging owner, or queue entries it drained),
and the violation flags `uaf`, `badUnique`, `earlyFree`, `underflow`.
-/
namespace SteelVerif.C05

abbrev Tid := Nat

/-- The packed shared word: 30-bit signed counter, merged flag, queued flag. -/
structure Word where
  cnt : Int
  merged : Bool
  queued : Bool
deriving DecidableEq, Repr, Inhabited

/-- What a thread does when the decrement protocol it is running finishes. -/
inductive Ret where
  | op                                   -- complete the user operation (`drop`)
  | merge (rest n : Nat) (lk : Bool)     -- continue `explicit_merge` with `rest` more entries
deriving DecidableEq, Repr, Inhabited

inductive PC where
  | idle
  -- `increment` (clone), slow path
  | incLoad | incCas (old : Word)
  -- `fast_decrement` after the biased counter reached 0
  | dfLoad (r : Ret) | dfCas (r : Ret) (old : Word) | dfSetNone (r : Ret)
  -- `slow_decrement`
  | dsLoad (r : Ret) | dsCas (r : Ret) (old : Word)
  | enq (r : Ret)                        -- `QueueHandle::enqueue`
  | free (r : Ret)                       -- `drop_contents_and_maybe_box`
  -- `has_unique_ref`
  | uqOwner | uqLoadNone | uqLoadOwn
  -- `try_unwrap`
  | uwOwner | uwLoadNone | uwCas (old : Word) | uwLoadOwn | uwFree (own : Bool)
  -- `explicit_merge`, per entry
  | mgLoad (rest n : Nat) (lk : Bool) | mgCas (rest n : Nat) (lk : Bool) (old : Word)
  | mgSetNone (rest n : Nat) (lk : Bool)
deriving DecidableEq, Repr, Inhabited

structure Thread where
  pc : PC := .idle
  held : Nat := 0
  temp : Nat := 0
  shown : Nat := 0            -- `refs.len()` as the harness reports it (updated when an op completes)
  registered : Bool := false  -- `QUEUE.map` has an entry for this thread
  regQ : Nat := 0             -- its length
  unregQ : Nat := 0           -- length of `QUEUE.unregistered[Some t]`
deriving DecidableEq, Repr, Inhabited

structure State where
  created : Bool := false
  owner : Option Tid := none
  biased : Nat := 0
  w : Word := ⟨0, false, false⟩
  alive : Bool := false
  frees : Nat := 0
  drops : Nat := 0
  lock : Option Tid := none   -- a dashmap guard is held by a running `run_explicit_merge`
  threads : List Thread := []
  uaf : Bool := false         -- the object was accessed after it had been freed (incl. double free)
  badUnique : Bool := false   -- exclusive access granted while another reference existed
  earlyFree : Bool := false   -- freed while a reference was still held
  underflow : Bool := false   -- `biased_counter - 1` with a zero counter
deriving Repr, Inhabited

def init : State := {}

/-- A user-level action of the schedule. -/
inductive Act where
  | spawn
  | new | clone | drop | move (u : Tid) | unique | unwrap | count
  | register | merge | exit
  | step
deriving DecidableEq, Repr

/-- What the line of the schedule reports. -/
inductive Out where
  | yield (site : String)
  | done (res : String)
deriving DecidableEq, Repr

def PC.site : PC → String
  | .idle => "idle"
  | .incLoad => "inc.load" | .incCas _ => "inc.cas"
  | .dfLoad _ => "decfast.load" | .dfCas _ _ => "decfast.cas" | .dfSetNone _ => "decfast.setnone"
  | .dsLoad _ => "decslow.load" | .dsCas _ _ => "decslow.cas"
  | .enq _ => "enqueue" | .free _ => "free"
  | .uqOwner => "uniq.owner" | .uqLoadNone => "uniq.load" | .uqLoadOwn => "uniq.load"
  | .uwOwner => "unwrap.owner" | .uwLoadNone => "unwrap.load" | .uwCas _ => "unwrap.cas"
  | .uwLoadOwn => "unwrap.load" | .uwFree _ => "unwrap.free"
  | .mgLoad .. => "merge.load" | .mgCas .. => "merge.cas" | .mgSetNone .. => "merge.setnone"

def sumHeld (l : List Thread) : Nat := (l.map (·.held)).sum
def sumTemp (l : List Thread) : Nat := (l.map (·.temp)).sum
def sumQ (l : List Thread) : Nat := (l.map (fun t => t.regQ + t.unregQ)).sum

/-- Number of counted references that exist (ghost). -/
def State.total (s : State) : Nat := sumHeld s.threads + sumTemp s.threads + sumQ s.threads

def State.upd (s : State) (t : Tid) (f : Thread → Thread) : State :=
  { s with threads := s.threads.modify t f }

/-- Every access to the object's memory goes through `touch`: after the free it is a violation. -/
def State.touch (s : State) : State := if s.alive then s else { s with uaf := true }

/-- Park thread `t` at `pc` and report the yield site. -/
def park (s : State) (t : Tid) (pc : PC) : State × Out :=
  (s.upd t (fun th => { th with pc := pc }), .yield pc.site)

/-- Complete the user operation of thread `t`. -/
def finish (s : State) (t : Tid) (res : String) : State × Out :=
  (s.upd t (fun th => { th with pc := .idle, shown := th.held }), .done res)

/-- The decrement protocol of `t` is over; go on with what it was part of. -/
def ret (s : State) (t : Tid) : Ret → State × Out
  | .op => finish s t "ok"
  | .merge 0 n lk =>
      -- `run_explicit_merge` (guard held) reports the number of entries, `finish_thread_merge` nothing
      finish (if lk then { s with lock := none } else s) t (if lk then toString n else "ok")
  | .merge (rest + 1) n lk => park s t (.mgLoad rest n lk)

/-- `usize` view of an `i32` counter (`count as _` in `strong_count`). -/
def asUsize (i : Int) : Nat := if i < 0 then (i + 18446744073709551616).toNat else i.toNat

/-- One line of the schedule: thread `t` performs `a`.  `none`: the line is not executable
(no such thread, thread busy / not parked, no reference to operate on, dashmap guard taken). -/
def step (s : State) (t : Tid) (a : Act) : Option (State × Out) :=
  match a with
  | .spawn =>
      if t = s.threads.length then
        some ({ s with threads := s.threads ++ [{}] }, .done "ok")
      else none
  | _ =>
  match s.threads[t]? with
  | none => none
  | some th =>
  match a, th.pc with
  | .spawn, _ => none
  -- ── operations started on an idle thread ─────────────────────────────────────────────────
  | .new, .idle =>
      if s.created then none else
      let s := { s with created := true, owner := some t, biased := 1, w := ⟨0, false, false⟩,
                        alive := true }
      some (finish (s.upd t (fun th => { th with held := th.held + 1 })) t "ok")
  | .move u, .idle =>
      if th.held = 0 ∨ u = t then none else
      match s.threads[u]? with
      | none => none
      | some tu =>
        if tu.pc ≠ .idle then none else
        let s := s.upd t (fun th => { th with held := th.held - 1, shown := th.held - 1 })
        let s := s.upd u (fun th => { th with held := th.held + 1, shown := th.held + 1 })
        some (s, .done "ok")
  | .clone, .idle =>
      if th.held = 0 then none else
      let s := s.touch
      if s.owner = some t then
        -- fast_increment
        some (finish ({ s with biased := s.biased + 1 }.upd t
                (fun th => { th with held := th.held + 1 })) t "ok")
      else some (park s t .incLoad)
  | .drop, .idle =>
      if th.held = 0 then none else
      let s := s.touch
      if s.owner = some t then
        -- fast_decrement: the reference is gone as soon as the biased counter is written
        let s := if s.biased = 0 then { s with underflow := true } else s
        let s := { s with biased := s.biased - 1 }.upd t (fun th => { th with held := th.held - 1 })
        if s.biased > 0 then some (finish s t "ok") else some (park s t (.dfLoad .op))
      else
        -- slow_decrement: the reference is in flight until the compare-exchange succeeds
        some (park (s.upd t (fun th => { th with held := th.held - 1, temp := th.temp + 1 })) t
                (.dsLoad .op))
  | .unique, .idle => if th.held = 0 then none else some (park s t .uqOwner)
  | .unwrap, .idle => if th.held = 0 then none else some (park s t .uwOwner)
  | .count, .idle =>
      if th.held = 0 then none else
      let s := s.touch
      let c : Int :=
        if s.w.cnt = 0 then
          match s.owner with
          | none => 0
          | some o => if o = t then (s.biased : Int) else 2
        else s.w.cnt
      some (finish s t (toString (asUsize c)))
  | .register, .idle =>
      if s.lock.isSome then none else
      some (finish (s.upd t (fun th => { th with registered := true })) t "ok")
  | .merge, .idle =>
      -- run_explicit_merge: drains `unregistered[Some t]` and `map[Some t]`
      if s.lock.isSome then none else
      let n := th.unregQ + th.regQ
      let s := s.upd t (fun th => { th with unregQ := 0, regQ := 0, temp := th.temp + n })
      match n with
      | 0 => some (finish s t "0")
      | k + 1 => some (park { s with lock := some t } t (.mgLoad k n true))
  | .exit, .idle =>
      -- finish_thread_merge: removes the thread's entry of `QUEUE.map` and merges what was in it
      if s.lock.isSome then none else
      let n := th.regQ
      let s := s.upd t (fun th => { th with regQ := 0, registered := false, temp := th.temp + n })
      match n with
      | 0 => some (finish s t "ok")
      | k + 1 => some (park s t (.mgLoad k 0 false))
  -- ── one shared access of a parked thread ─────────────────────────────────────────────────
  | .step, .incLoad => let s := s.touch; some (park s t (.incCas s.w))
  | .step, .incCas old =>
      let s := s.touch
      if s.w = old then
        some (finish ({ s with w := { old with cnt := old.cnt + 1 } }.upd t
                (fun th => { th with held := th.held + 1 })) t "ok")
      else some (park s t (.incCas s.w))
  | .step, .dfLoad r => let s := s.touch; some (park s t (.dfCas r s.w))
  | .step, .dfCas r old =>
      let s := s.touch
      if s.w = old then
        -- merged := true, and one temporary reference for the owner
        some (park ({ s with w := { old with merged := true, cnt := old.cnt + 1 } }.upd t
                (fun th => { th with temp := th.temp + 1 })) t (.dfSetNone r))
      else some (park s t (.dfCas r s.w))
  | .step, .dfSetNone r =>
      let s := s.touch
      some (park { s with owner := none } t (.dsLoad r))
  | .step, .dsLoad r => let s := s.touch; some (park s t (.dsCas r s.w))
  | .step, .dsCas r old =>
      let s := s.touch
      if s.w = old then
        if old.cnt ≤ 0 ∧ ¬ old.queued ∧ ¬ old.merged then
          -- hand the reference to the owner's queue
          some (park { s with w := { old with queued := true } } t (.enq r))
        else
          let new : Word := { old with cnt := old.cnt - 1 }
          let s := { s with w := new }.upd t (fun th => { th with temp := th.temp - 1 })
          if new.merged ∧ new.cnt = 0 then some (park s t (.free r)) else some (ret s t r)
      else some (park s t (.dsCas r s.w))
  | .step, .enq r =>
      if s.lock.isSome then none else
      let s := s.touch
      match s.owner with
      | none => some (park s t (.dsLoad r))      -- nobody to hand it to: drop it the normal way
      | some k =>
          match s.threads[k]? with
          | none => none
          | some tk =>
            let s := s.upd t (fun th => { th with temp := th.temp - 1 })
            let s := if tk.registered then s.upd k (fun th => { th with regQ := th.regQ + 1 })
                     else s.upd k (fun th => { th with unregQ := th.unregQ + 1 })
            some (ret s t r)
  | .step, .free r =>
      let s := s.touch
      let s := if s.total > 0 then { s with earlyFree := true } else s
      some (ret { s with alive := false, frees := s.frees + 1, drops := s.drops + 1 } t r)
  | .step, .uqOwner =>
      let s := s.touch
      match s.owner with
      | none => some (park s t .uqLoadNone)
      | some o =>
          if o = t then
            if s.biased = 1 then some (park s t .uqLoadOwn) else some (finish s t "false")
          else some (finish s t "false")
  | .step, .uqLoadNone =>
      let s := s.touch
      let u := decide (s.w.cnt = 1)
      let s := if u ∧ s.total ≠ 1 then { s with badUnique := true } else s
      some (finish s t (toString u))
  | .step, .uqLoadOwn =>
      let s := s.touch
      let u := decide (s.w.cnt = 0)
      let s := if u ∧ s.total ≠ 1 then { s with badUnique := true } else s
      some (finish s t (toString u))
  | .step, .uwOwner =>
      let s := s.touch
      match s.owner with
      | none => some (park s t .uwLoadNone)
      | some o =>
          if o = t then
            if s.biased = 1 then some (park s t .uwLoadOwn) else some (finish s t "none")
          else some (finish s t "none")
  | .step, .uwLoadNone => let s := s.touch; some (park s t (.uwCas s.w))
  | .step, .uwCas old =>
      let s := s.touch
      if s.w = { old with cnt := 1 } then
        some (park ({ s with w := { old with cnt := 0 } }.upd t
                (fun th => { th with held := th.held - 1 })) t (.uwFree false))
      else some (finish s t "none")
  | .step, .uwLoadOwn =>
      let s := s.touch
      if s.w.cnt ≠ 0 then some (finish s t "none")
      else some (park (s.upd t (fun th => { th with held := th.held - 1 })) t (.uwFree true))
  | .step, .uwFree own =>
      let s := s.touch
      let s := if s.total > 0 then { s with earlyFree := true } else s
      let _ := own
      some (finish { s with alive := false, frees := s.frees + 1, drops := s.drops + 1 } t "some:feed")
  | .step, .mgLoad rest n lk => let s := s.touch; some (park s t (.mgCas rest n lk s.w))
  | .step, .mgCas rest n lk old =>
      let s := s.touch
      if s.w = old then
        some (park { s with w := { old with cnt := old.cnt + s.biased, merged := true } } t
                (.mgSetNone rest n lk))
      else some (park s t (.mgCas rest n lk s.w))
  | .step, .mgSetNone rest n lk =>
      let s := s.touch
      some (park { s with owner := none } t (.dsLoad (.merge rest n lk)))
  | _, _ => none

/-- Run a schedule; stops at the first line that is not executable. -/
def run (s : State) : List (Tid × Act) → State
  | [] => s
  | (t, a) :: rest =>
      match step s t a with
      | none => s
      | some (s', _) => run s' rest

/-- The specification S, evaluated on a state: no violation has been recorded. -/
def State.ok (s : State) : Prop :=
  s.uaf = false ∧ s.badUnique = false ∧ s.earlyFree = false ∧ s.underflow = false ∧
  s.frees ≤ 1 ∧ s.drops = s.frees

instance (s : State) : Decidable s.ok := by unfold State.ok; infer_instance

end SteelVerif.C05
