/-
C05 — preservation, part A: steps that only move the program counter.
-/
import SteelVerif.C05.Step
namespace SteelVerif.C05
set_option linter.unusedSimpArgs false

/-- A step that changes nothing but the pc of thread `t` (and keeps its pending-entry count). -/
theorem inv_pc_only {s : State} {t : Tid} {th : Thread} (h : Inv s) (hth : s.threads[t]? = some th)
    (pc' : PC) (hpend : pc'.pend = th.pc.pend)
    (hok : TOk s t { th with pc := pc' })
    (hidle : pc' = .idle ∨ (s.created = true ∧ s.alive = true))
    (hown : s.owner = some t → (s.w.merged = true → isSetNone pc' = true) ∧
              (s.biased = 0 → isDf pc' = true))
    (hfree : isFree pc' = true →
        ∀ (u : Tid) (tu : Thread), u ≠ t → s.threads[u]? = some tu → isFree tu.pc = false)
    (sh : Nat := th.shown) :
    Inv (s.put t th { th with pc := pc', shown := sh }) := by
  have b := h.bnd hth
  have etot : (s.put t th { th with pc := pc', shown := sh }).total = s.total := by
    simp only [State.total, put_gH, put_gT, put_gQ]; omega
  have eP : (s.put t th { th with pc := pc', shown := sh }).gP = s.gP := by
    simp only [put_gP]; omega
  have eQ : (s.put t th { th with pc := pc', shown := sh }).gQ = s.gQ := by
    simp only [put_gQ]; omega
  refine inv_of_put h hth ⟨rfl, rfl, rfl, rfl, rfl⟩ h.flags h.frees ?_ ?_ ?_ h.ownerEx h.ownerNone ?_
    hfree ?_ ?_
  · rw [etot, eP]; exact h.pre
  · rw [etot]; exact h.dead
  · rw [etot]; exact h.count
  · rw [eP, eQ]; exact h.ent
  · have ti := h.thr t th hth
    refine ⟨?_, ?_, ?_, ?_⟩
    · simpa [TOk, RetOk] using hok
    · intro hx; rcases hidle with hi | ⟨hc, ha⟩
      · exact hi
      · simp [hc, ha] at hx
    · simpa using hown
    · simpa using ti.q
  · intro u tu _ _ hu; exact TInv.congr (s := s) rfl rfl rfl rfl rfl hu



/-- Same, for a thread record `th'` that agrees with `th` on everything the aggregates count. -/
theorem inv_same {s : State} {t : Tid} {th th' : Thread} (h : Inv s) (hth : s.threads[t]? = some th)
    (e1 : th'.held = th.held) (e2 : th'.temp = th.temp) (e3 : th'.regQ = th.regQ)
    (e4 : th'.unregQ = th.unregQ) (hpend : th'.pc.pend = th.pc.pend)
    (hok : TOk s t th')
    (hidle : th'.pc = .idle ∨ (s.created = true ∧ s.alive = true))
    (hsn : isSetNone th'.pc = isSetNone th.pc) (hdf : isDf th'.pc = isDf th.pc)
    (hfree : isFree th'.pc = true →
        ∀ (u : Tid) (tu : Thread), u ≠ t → s.threads[u]? = some tu → isFree tu.pc = false) :
    Inv (s.put t th th') := by
  have b := h.bnd hth
  have etot : (s.put t th th').total = s.total := by
    simp only [State.total, put_gH, put_gT, put_gQ]; omega
  have eP : (s.put t th th').gP = s.gP := by simp only [put_gP]; omega
  have eQ : (s.put t th th').gQ = s.gQ := by simp only [put_gQ]; omega
  refine inv_of_put h hth ⟨rfl, rfl, rfl, rfl, rfl⟩ h.flags h.frees ?_ ?_ ?_ h.ownerEx h.ownerNone ?_
    hfree ?_ ?_
  · rw [etot, eP]; exact h.pre
  · rw [etot]; exact h.dead
  · rw [etot]; exact h.count
  · rw [eP, eQ]; exact h.ent
  · have ti := h.thr t th hth
    refine ⟨?_, ?_, ?_, ?_⟩
    · simpa [TOk, RetOk] using hok
    · intro hx; rcases hidle with hi | ⟨hc, ha⟩
      · exact hi
      · simp [hc, ha] at hx
    · intro ho; have := ti.own ho; simp only [put_w, put_biased]; rw [hsn, hdf]; exact this
    · intro hq; simp only [put_owner]; apply ti.q; omega
  · intro u tu _ _ hu; exact TInv.congr (s := s) rfl rfl rfl rfl rfl hu

/-! ## How a step of `t` affects what the invariant says about another thread `u` -/

/-- `u` is not the owner: the scalar fields may change as long as flags only get set, an absent
owner stays absent, and the counter only changes when `u` is not about to free. -/
theorem TInv.other {s s' : State} {u : Tid} {tu : Thread} (h : TInv s u tu)
    (hc : s'.created = s.created) (ha : s'.alive = s.alive)
    (hno : s.owner ≠ some u) (hno' : s'.owner ≠ some u)
    (hnone : s.owner = none → s'.owner = none)
    (hq : s.w.queued = true → s'.w.queued = true)
    (hm : s.w.merged = true → s'.w.merged = true)
    (hcnt : isFree tu.pc = false ∨ s'.w.cnt = s.w.cnt) : TInv s' u tu := by
  obtain ⟨h1, h2, h3, h4⟩ := h
  refine ⟨?_, ?_, ?_, ?_⟩
  · unfold TOk at *
    cases hp : tu.pc <;> simp only [hp] at h1 ⊢
    all_goals first
      | trivial
      | exact h1
      | (simp_all [RetOk, isFree]; done)
      | (rename_i b; cases b <;> simp_all [RetOk, isFree]; done)
  · rw [hc, ha]; exact h2
  · intro ho; exact absurd ho hno'
  · intro hq'; rcases h4 hq' with h | h
    · exact absurd h hno
    · exact Or.inr (hnone h)

/-- Only the counter changes, and `u` is not about to free. -/
theorem TInv.cnt {s s' : State} {u : Tid} {tu : Thread} (h : TInv s u tu)
    (hc : s'.created = s.created) (ha : s'.alive = s.alive) (ho : s'.owner = s.owner)
    (hb : s'.biased = s.biased) (hq : s'.w.queued = s.w.queued) (hm : s'.w.merged = s.w.merged)
    (hfree : isFree tu.pc = false) : TInv s' u tu := by
  obtain ⟨h1, h2, h3, h4⟩ := h
  refine ⟨?_, ?_, ?_, ?_⟩
  · unfold TOk at *
    cases hp : tu.pc <;> simp only [hp] at h1 ⊢
    all_goals first
      | trivial
      | exact h1
      | (simp_all [RetOk, isFree]; done)
      | (rename_i b; cases b <;> simp_all [RetOk, isFree]; done)
  · rw [hc, ha]; exact h2
  · rw [ho, hb, hm]; exact h3
  · rw [ho]; exact h4

/-- Only the queued flag gets set. -/
theorem TInv.queued {s s' : State} {u : Tid} {tu : Thread} (h : TInv s u tu)
    (hc : s'.created = s.created) (ha : s'.alive = s.alive) (ho : s'.owner = s.owner)
    (hb : s'.biased = s.biased) (hcnt : s'.w.cnt = s.w.cnt) (hm : s'.w.merged = s.w.merged)
    (hq : s.w.queued = true → s'.w.queued = true) : TInv s' u tu := by
  obtain ⟨h1, h2, h3, h4⟩ := h
  refine ⟨?_, ?_, ?_, ?_⟩
  · unfold TOk at *
    cases hp : tu.pc <;> simp only [hp] at h1 ⊢
    all_goals first
      | trivial
      | exact h1
      | (simp_all [RetOk, isFree]; done)
      | (rename_i b; cases b <;> simp_all [RetOk, isFree]; done)
  · rw [hc, ha]; exact h2
  · rw [ho, hb, hm]; exact h3
  · rw [ho]; exact h4


theorem Inv.bnd2 {s : State} (h : Inv s) {t u : Tid} {th tu : Thread} (hne : t ≠ u)
    (hth : s.threads[t]? = some th) (htu : s.threads[u]? = some tu) :
    th.held + tu.held ≤ s.gH ∧ th.temp + tu.temp ≤ s.gT := by
  obtain ⟨h1, h2, _, _⟩ := h.sums
  constructor
  · rw [h1]; exact sum_two (·.held) _ _ _ _ _ hne hth htu
  · rw [h2]; exact sum_two (·.temp) _ _ _ _ _ hne hth htu

/-- A thread that holds a counted reference excludes any other thread from being about to free. -/
theorem no_free_others {s : State} (h : Inv s) {t : Tid} {th : Thread}
    (hth : s.threads[t]? = some th) (hold : 1 ≤ th.held ∨ 1 ≤ th.temp) :
    ∀ (u : Tid) (tu : Thread), u ≠ t → s.threads[u]? = some tu → isFree tu.pc = false := by
  intro u tu hut htu
  have b := h.bnd hth
  have bu := h.bnd htu
  have b2 := h.bnd2 (Ne.symm hut) hth htu
  have tiu := h.thr u tu htu
  cases hp : tu.pc <;> simp only [isFree]
  all_goals exfalso
  all_goals
    have hal := alive_of_pc h htu (by rw [hp]; simp)
    have hcount := (h.count hal.2).2
    have hok := tiu.ok
    simp only [TOk, hp] at hok
  · -- free r
    obtain ⟨hm, hc, _⟩ := hok
    simp only [hm, hc, State.total] at hcount
    simp at hcount; omega
  · -- uwFree own
    rename_i own
    cases own
    · obtain ⟨hm, hc⟩ := hok
      simp only [hm, hc, State.total] at hcount
      simp at hcount; omega
    · obtain ⟨hh, ho, hb, hc⟩ := hok
      have hown := (tiu.own ho).1
      simp only [hp, isSetNone] at hown
      have hm : s.w.merged = false := by
        cases hm : s.w.merged
        · rfl
        · exact absurd (hown hm) (by simp)
      simp only [hm, hc, hb, State.total] at hcount
      simp at hcount; omega

end SteelVerif.C05
