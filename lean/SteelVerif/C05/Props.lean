/-
C05 — property theorems: shared-value reference counting is sound under every interleaving.

Model: `Model.lean` (one object of `steel_rc::BiasedRc`, any number of threads, every shared access
an atomic step).  All theorems quantify over *every* schedule, i.e. every history of operations and
every interleaving of their atomic steps, with no bound on the number of threads or steps.

* safety (`rc_safe` and corollaries): invariant `Inv` (Lemmas.lean, Step*.lean, StepAll.lean);
* "destroyed exactly once", liveness half (`no_leak_at_quiescence`, `destroyed_exactly_once`):
  invariant `Inv2 = Inv ∧ Extra` (Live.lean, LiveStep*.lean), with the decided caveat
  `unregistered_owner_parks_forever`;
* no self-livelock (`op_completes_solo`, `merge_drains`): rank function of Solo.lean.
-/
import SteelVerif.C05.LockStep
namespace SteelVerif.C05

/-- **C05 (safety), full statement.**  For every history of create / clone / drop / move / unique
access / unwrap / count / register / merge / thread-exit operations by any number of threads, and for
every interleaving of the atomic steps those operations are made of: the object is never accessed
after it was freed, it is freed (and its destructor run) at most once, it is freed only when no
reference is held, and exclusive access is granted only to the holder of the only reference. -/
theorem rc_safe (sched : List (Tid × Act)) : (run init sched).ok :=
  inv_ok (run_inv sched inv_init)

theorem no_access_after_free (sched : List (Tid × Act)) : (run init sched).uaf = false :=
  (rc_safe sched).1

theorem unique_access_sound (sched : List (Tid × Act)) : (run init sched).badUnique = false :=
  (rc_safe sched).2.1

theorem freed_only_without_references (sched : List (Tid × Act)) :
    (run init sched).earlyFree = false := (rc_safe sched).2.2.1

theorem destroyed_at_most_once (sched : List (Tid × Act)) :
    (run init sched).frees ≤ 1 ∧ (run init sched).drops = (run init sched).frees :=
  ⟨(rc_safe sched).2.2.2.2.1, (rc_safe sched).2.2.2.2.2⟩

/-- While any reference exists the object is alive (its contents are intact). -/
theorem alive_while_referenced (sched : List (Tid × Act)) :
    let s := run init sched
    s.created = true → 0 < s.total → s.alive = true := by
  intro s hc ht
  have h : Inv s := run_inv sched inv_init
  cases ha : s.alive
  · have := h.dead hc ha; omega
  · rfl

/-- The ghost reference count is what it claims to be: the number of references held by the
threads' variables, in flight, and owned by queue entries. -/
theorem total_is_sum (sched : List (Tid × Act)) :
    let s := run init sched
    s.total = sumHeld s.threads + sumTemp s.threads + sumQ s.threads := by
  intro s
  obtain ⟨a, b, c, _⟩ := (run_inv sched inv_init : Inv s).sums
  show (run init sched).gH + (run init sched).gT + (run init sched).gQ = _
  rw [← a, ← b, ← c]

/-- Non-vacuity: a concrete 2-thread history (create, clone, move, both drop, owner merges)
is executable and ends with the object freed exactly once. -/
theorem example_history_frees_once :
    let s := run init [(0, .spawn), (1, .spawn), (0, .register), (0, .new), (0, .clone),
      (0, .move 1), (0, .drop), (1, .drop), (1, .step), (1, .step), (1, .step),
      (0, .merge), (0, .step), (0, .step), (0, .step), (0, .step), (0, .step), (0, .step)]
    s.frees = 1 ∧ s.ok ∧ s.created = true ∧ s.alive = false := by decide

/-- Non-vacuity of `unique_access_sound`: exclusive access *is* granted in a reachable state. -/
theorem example_unique_granted :
    (step (run init [(0, .spawn), (0, .new), (0, .unique), (0, .step)]) 0 .step).map (·.2) =
      some (.done "true") := by decide

/-! ## Liveness half of "destroyed exactly once" -/

/-- Every thread is between operations. -/
def AllIdle (s : State) : Prop := ∀ th ∈ s.threads, th.pc = .idle

instance (s : State) : Decidable (AllIdle s) := by unfold AllIdle; infer_instance

theorem sumP_idle : ∀ (l : List Thread), (∀ th ∈ l, th.pc = .idle) → sumP l = 0 := by
  intro l
  induction l with
  | nil => intro _; rfl
  | cons a l ih =>
    intro h
    have ha := h a (List.mem_cons_self ..)
    have := ih (fun th hm => h th (List.mem_cons_of_mem _ hm))
    simp only [sumP, List.map_cons, List.sum_cons] at this ⊢
    rw [this, ha]; rfl

/-- The strengthened invariant excludes a quiescent leaked object. -/
theorem inv2_no_leak {s : State} (h2 : Inv2 s) (hc : s.created = true) (hi : AllIdle s)
    (hz : s.total = 0) : s.alive = false := by
  obtain ⟨h, x⟩ := h2
  cases ha : s.alive with
  | false => rfl
  | true =>
    exfalso
    have hcount := (h.count ha).2
    cases hm : s.w.merged with
    | true =>
      obtain ⟨u, tu, hu, fu⟩ := x.freeing ha hm hz
      have := hi tu (List.mem_of_getElem? hu)
      rw [this] at fu; cases fu
    | false =>
      -- the owner still counts its own references on the fast path
      have hown : s.owner ≠ none := by
        intro hn; have := h.ownerNone hc hn; rw [hm] at this; cases this
      cases ho : s.owner with
      | none => exact hown ho
      | some o =>
        have hlt := h.ownerEx o ho
        have hth : s.threads[o]? = some s.threads[o] := by simp [hlt]
        have hidle := hi _ (List.mem_of_getElem? hth)
        have hb : s.biased ≠ 0 := by
          intro hb
          have := ((h.thr o _ hth).own ho).2 hb
          rw [hidle] at this; cases this
        simp only [hm, hz] at hcount
        have hneg : s.w.cnt < 0 := by
          have : (s.biased : Int) + s.w.cnt = 0 := by simpa using hcount
          omega
        cases hq : s.w.queued with
        | false => have := x.nonneg ha hm hq; omega
        | true =>
          have he := x.entry ha hm hq
          have hP : s.gP = 0 := by rw [h.sums.2.2.2]; exact sumP_idle _ hi
          simp only [State.total] at hz
          omega

/-- **C05 (liveness half).**  In every reachable state in which every thread is between operations
and no counted reference exists anywhere - none held by a thread's variables, none in flight, none
owned by a merge-queue entry - an object that was created has been destroyed. -/
theorem no_leak_at_quiescence (sched : List (Tid × Act)) :
    let s := run init sched
    s.created = true → AllIdle s → s.total = 0 → s.alive = false := by
  intro s hc hi hz
  exact inv2_no_leak (run_inv2 sched inv2_init) hc hi hz

/-- **C05, "destroyed exactly once".**  At quiescence without references the object has been freed,
and its destructor run, exactly once. -/
theorem destroyed_exactly_once (sched : List (Tid × Act)) :
    let s := run init sched
    s.created = true → AllIdle s → s.total = 0 → s.frees = 1 ∧ s.drops = 1 := by
  intro s hc hi hz
  have ha := no_leak_at_quiescence sched hc hi hz
  have h : Inv s := run_inv sched inv_init
  have hf := h.frees
  exact ⟨by rw [hf.2, if_pos ⟨hc, ha⟩], by rw [hf.1, hf.2, if_pos ⟨hc, ha⟩]⟩

/-- Non-vacuity of `no_leak_at_quiescence` / `destroyed_exactly_once`: the hypotheses hold in a
reachable state (2 threads; create, clone, move, both drop - the remote one through the owner's
queue -, owner merges). -/
theorem example_quiescent_reachable :
    let s := run init [(0, .spawn), (1, .spawn), (0, .register), (0, .new), (0, .clone),
      (0, .move 1), (0, .drop), (1, .drop), (1, .step), (1, .step), (1, .step),
      (0, .merge), (0, .step), (0, .step), (0, .step), (0, .step), (0, .step), (0, .step)]
    s.created = true ∧ AllIdle s ∧ s.total = 0 ∧ s.frees = 1 := by decide

/-- The documented caveat, decided: the owner never registered a merge queue, another thread's last
drop is parked in `unregistered`, the owner drops its own reference and exits through
`finish_thread_merge`.  Every thread is idle, no thread holds a reference, and the object stays alive:
the parked entry is a counted reference (`total = 1`), so this is *not* a quiescent state in the sense
of `no_leak_at_quiescence`; only `run_explicit_merge` on the owner thread reaches it (last conjunct). -/
theorem unregistered_owner_parks_forever :
    let s := run init [(0, .spawn), (1, .spawn), (0, .new), (0, .clone), (0, .move 1),
      (1, .drop), (1, .step), (1, .step), (1, .step), (0, .drop), (0, .exit), (1, .exit)]
    s.created = true ∧ AllIdle s ∧ s.gH = 0 ∧ s.gT = 0 ∧ s.alive = true ∧ s.total = 1 ∧
      (s.threads.map (·.unregQ)) = [1, 0] ∧
      (run s [(0, .merge), (0, .step), (0, .step), (0, .step), (0, .step), (0, .step),
        (0, .step)]).frees = 1 := by decide

/-! ## No self-livelock -/

/-- **A thread scheduled alone completes its operation in at most 12 of its own steps**, from every
reachable state and every program counter.  Compare-exchange loops therefore retry only after
interference, and (in this one-object model) nothing ever waits for the dashmap guard - see
`never_blocked_at_enqueue`. -/
theorem op_completes_solo (sched : List (Tid × Act)) (t : Tid) (th : Thread) :
    let s := run init sched
    s.threads[t]? = some th →
    ∃ k, k ≤ 12 ∧ ∃ th', (solo t k s).threads[t]? = some th' ∧ th'.pc = .idle := by
  intro s hth
  have h : Inv3 s := run_inv3 sched inv3_init
  obtain ⟨k, hk, th', a, b, _⟩ := solo_completes3 t 12 h hth (rank_le h.inv2.inv hth)
  exact ⟨k, hk, th', a, b⟩

/-- The dashmap guard of `run_explicit_merge` is held exactly by a thread that is inside it. -/
theorem guard_holder_is_merging (sched : List (Tid × Act)) (t : Tid) (th : Thread) :
    let s := run init sched
    s.threads[t]? = some th → (s.lock = some t ↔ lkpc th.pc = true) := by
  intro s hth
  exact ((run_inv3 sched inv3_init : Inv3 s).lock.own t th hth).symm

/-- `enqueue` never finds the guard taken: while a reference is on its way into a merge queue no thread
is inside `run_explicit_merge` (with a single object the only queue entry cannot be in both hands).
With several objects the real code can block here; that is waiting for a lock, outside this model. -/
theorem never_blocked_at_enqueue (sched : List (Tid × Act)) (t : Tid) :
    ¬ BlockedAtEnqueue (run init sched) t := by
  rintro ⟨th, r, hth, hpc, hsome, _⟩
  have := (run_inv3 sched inv3_init : Inv3 (run init sched)).lock.enq_free hth hpc
  rw [this] at hsome; cases hsome

/-- Non-vacuity of `guard_holder_is_merging` / `never_blocked_at_enqueue`: the guard *is* held in a
reachable state (the owner parked inside `run_explicit_merge` with the entry a remote drop queued),
and a thread *is* parked at `enqueue` in another one (then nobody holds the guard). -/
theorem example_guard_held :
    let s := run init [(0, .spawn), (1, .spawn), (0, .register), (0, .new), (0, .clone),
      (0, .move 1), (1, .drop), (1, .step), (1, .step), (1, .step), (0, .merge)]
    let s2 := run init [(0, .spawn), (1, .spawn), (0, .register), (0, .new), (0, .clone),
      (0, .move 1), (1, .drop), (1, .step), (1, .step)]
    s.lock = some 0 ∧ (s.threads[0]?.map (fun th => lkpc th.pc)) = some true ∧
    (s2.threads[1]?.map (fun th => isEnq th.pc)) = some true ∧ s2.lock = none := by decide

/-- What the first line of `run_explicit_merge` / `finish_thread_merge` leaves behind. -/
theorem merge_start {s s1 : State} {t : Tid} {a : Act} {o : Out} (ha : a = .merge ∨ a = .exit)
    (hs : step s t a = some (s1, o)) :
    ∃ th1, s1.threads[t]? = some th1 ∧ th1.regQ = 0 ∧ (a = .merge → th1.unregQ = 0) ∧
      (th1.pc = .idle ∨ LockOK s1 t th1.pc) := by
  cases hth : s.threads[t]? with
  | none => rcases ha with rfl | rfl <;> simp [step, hth] at hs
  | some th =>
    cases hpc : th.pc
    case idle =>
      rcases ha with rfl | rfl
      · simp only [step, hth, hpc] at hs
        split at hs
        · cases hs
        · rename_i hlk
          split at hs
          · simp only [finish, Option.some.injEq, Prod.mk.injEq] at hs
            obtain ⟨rfl, _⟩ := hs
            exact ⟨_, put_get_same hth _, rfl, fun _ => rfl, Or.inl rfl⟩
          · simp only [park, Option.some.injEq, Prod.mk.injEq] at hs
            obtain ⟨rfl, _⟩ := hs
            exact ⟨_, put_get_same (s := { s with lock := some t }) hth _, rfl, fun _ => rfl,
              Or.inr (Or.inr ⟨rfl, rfl⟩)⟩
      · simp only [step, hth, hpc] at hs
        split at hs
        · cases hs
        · rename_i hlk
          have hlk : s.lock = none := by
            cases hl : s.lock with
            | none => rfl
            | some u => rw [hl] at hlk; simp at hlk
          split at hs
          · simp only [finish, Option.some.injEq, Prod.mk.injEq] at hs
            obtain ⟨rfl, _⟩ := hs
            exact ⟨_, put_get_same hth _, rfl, fun hx => (by cases hx), Or.inl rfl⟩
          · simp only [park, Option.some.injEq, Prod.mk.injEq] at hs
            obtain ⟨rfl, _⟩ := hs
            exact ⟨_, put_get_same hth _, rfl, fun hx => (by cases hx), Or.inr (Or.inl hlk)⟩
    all_goals (rcases ha with rfl | rfl <;> simp [step, hth, hpc] at hs)

/-- **`merge` / `exit` drain the queue.**  After `run_explicit_merge` (resp. `finish_thread_merge`)
of a thread, run to completion alone (at most 12 further steps), its registered queue - and for
`run_explicit_merge` also what was parked for it in `unregistered` - is empty: every entry was merged,
none re-queued. -/
theorem merge_drains (sched : List (Tid × Act)) (t : Tid) (a : Act) (ha : a = .merge ∨ a = .exit) :
    let s := run init sched
    ∀ s1 o, step s t a = some (s1, o) →
    ∃ k, k ≤ 12 ∧ ∃ th', (solo t k s1).threads[t]? = some th' ∧ th'.pc = .idle ∧ th'.regQ = 0 ∧
      (a = .merge → th'.unregQ = 0) := by
  intro s s1 o hs
  have h1 : Inv s1 := step_inv (run_inv sched inv_init) hs
  obtain ⟨th1, hth1, q1, q2, hl⟩ := merge_start ha hs
  obtain ⟨k, hk, th', a', b, c, d, _⟩ := solo_completes t 12 h1 hth1 hl (rank_le h1 hth1)
  exact ⟨k, hk, th', a', b, by rw [c, q1], fun hm => by rw [d, q2 hm]⟩

/-- Non-vacuity of `op_completes_solo`: a remote drop parked at its compare-exchange, whose expected
value went stale because a third thread cloned in between, needs the retry and then completes alone:
2 steps, not fewer. -/
theorem example_solo_retry :
    let s := run init [(0, .spawn), (1, .spawn), (2, .spawn), (0, .register), (0, .new), (0, .clone),
      (0, .clone), (0, .move 1), (0, .move 2), (1, .drop), (1, .step), (2, .clone), (2, .step),
      (2, .step)]
    (s.threads[1]?.map (·.pc) = some (.dsCas .op ⟨0, false, false⟩)) ∧ s.w = ⟨1, false, false⟩ ∧
    s.lock = none ∧
    ((solo 1 1 s).threads[1]?.map (·.pc) ≠ some .idle) ∧
    ((solo 1 2 s).threads[1]?.map (·.pc) = some .idle) := by decide

/-- The longest solo run of the generated schedules' shape: the owner's last drop of an object nobody
else holds (load, compare-exchange, clear the owner, load, compare-exchange, free) takes exactly 6
steps after the one that starts it, and destroys the object. -/
theorem example_solo_last_drop :
    let s := run init [(0, .spawn), (0, .new), (0, .drop)]
    ((solo 0 5 s).threads[0]?.map (·.pc) ≠ some .idle) ∧
    ((solo 0 6 s).threads[0]?.map (·.pc) = some .idle) ∧ (solo 0 6 s).frees = 1 := by decide

/-- Non-vacuity of `merge_drains`: the owner's registered queue holds an entry, `merge` is
executable, and after it has run alone the queue is empty and the object destroyed. -/
theorem example_merge_drains :
    let s := run init [(0, .spawn), (1, .spawn), (0, .register), (0, .new), (0, .clone),
      (0, .move 1), (0, .drop), (1, .drop), (1, .step), (1, .step), (1, .step)]
    (s.threads.map (·.regQ)) = [1, 0] ∧
    ((step s 0 .merge).map (fun p => ((solo 0 6 p.1).threads.map (·.regQ), (solo 0 6 p.1).frees))) =
      some ([0, 0], 1) := by decide

end SteelVerif.C05
