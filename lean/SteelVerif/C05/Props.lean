import SteelVerif.C05.Model
namespace SteelVerif.C05

/-- Non-vacuity: a concrete 2-thread history (create, clone, move, both drop, owner merges)
is executable and ends with the object freed exactly once. -/
theorem example_history_frees_once :
    let s := run init [(0, .spawn), (1, .spawn), (0, .register), (0, .new), (0, .clone),
      (0, .move 1), (0, .drop), (1, .drop), (1, .step), (1, .step), (1, .step),
      (0, .merge), (0, .step), (0, .step), (0, .step), (0, .step), (0, .step), (0, .step)]
    s.frees = 1 ∧ s.ok := by decide

end SteelVerif.C05
