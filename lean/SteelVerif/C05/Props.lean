/-
C05 — property theorems: shared-value reference counting is sound under every interleaving.

Model: `Model.lean` (one object of `steel_rc::BiasedRc`, any number of threads, every shared access
an atomic step).  All theorems quantify over *every* schedule, i.e. every history of operations and
every interleaving of their atomic steps, with no bound on the number of threads or steps.
-/
import SteelVerif.C05.StepE
namespace SteelVerif.C05

/-- Every step of the transition system preserves the invariant. -/
theorem step_inv {s s' : State} {t : Tid} {a : Act} {o : Out} (h : Inv s)
    (hs : step s t a = some (s', o)) : Inv s' := by
  cases a with
  | spawn => exact case_spawn h s' o hs
  | _ =>
    all_goals
      cases hth : s.threads[t]? with
      | none => simp [step, hth] at hs
      | some th =>
        cases hpc : th.pc
        all_goals first
          | exact case_new h hth hpc s' o hs
          | exact case_clone h hth hpc s' o hs
          | exact case_drop h hth hpc s' o hs
          | exact case_move h hth hpc _ s' o hs
          | exact case_unique h hth hpc s' o hs
          | exact case_unwrap h hth hpc s' o hs
          | exact case_count h hth hpc s' o hs
          | exact case_register h hth hpc s' o hs
          | exact case_merge h hth hpc s' o hs
          | exact case_exit h hth hpc s' o hs
          | exact case_incLoad h hth hpc s' o hs
          | exact case_incCas _ h hth hpc s' o hs
          | exact case_dfLoad _ h hth hpc s' o hs
          | exact case_dfCas _ _ h hth hpc s' o hs
          | exact case_dfSetNone _ h hth hpc s' o hs
          | exact case_dsLoad _ h hth hpc s' o hs
          | exact case_dsCas _ _ h hth hpc s' o hs
          | exact case_enq _ h hth hpc s' o hs
          | exact case_free _ h hth hpc s' o hs
          | exact case_uqOwner h hth hpc s' o hs
          | exact case_uqLoadNone h hth hpc s' o hs
          | exact case_uqLoadOwn h hth hpc s' o hs
          | exact case_uwOwner h hth hpc s' o hs
          | exact case_uwLoadNone h hth hpc s' o hs
          | exact case_uwCas _ h hth hpc s' o hs
          | exact case_uwLoadOwn h hth hpc s' o hs
          | exact case_uwFree _ h hth hpc s' o hs
          | exact case_mgLoad _ _ _ h hth hpc s' o hs
          | exact case_mgCas _ _ _ _ h hth hpc s' o hs
          | exact case_mgSetNone _ _ _ h hth hpc s' o hs
          | (simp [step, hth, hpc] at hs)

/-- The invariant holds in every state reachable by any schedule. -/
theorem run_inv (sched : List (Tid × Act)) : ∀ {s : State}, Inv s → Inv (run s sched) := by
  induction sched with
  | nil => intro s h; exact h
  | cons x rest ih =>
    intro s h
    obtain ⟨t, a⟩ := x
    simp only [run]
    cases hs : step s t a with
    | none => exact h
    | some r => obtain ⟨s', o⟩ := r; exact ih (step_inv h hs)

theorem inv_ok {s : State} (h : Inv s) : s.ok := by
  obtain ⟨f1, f2, f3, f4⟩ := h.flags
  refine ⟨f1, f2, f3, f4, ?_, h.frees.1⟩
  rw [h.frees.2]; split <;> omega

/-- **C05 (safety), full statement.**  For every history of create / clone / drop / move / unique
access / unwrap / count / register / merge / thread-exit operations by any number of threads, and for
every interleaving of the atomic steps those operations are made of: the object is never accessed
after it was freed, it is freed (and its destructor run) at most once, it is freed only when no
reference is held, and exclusive access is granted only to the holder of the only reference. -/
theorem rc_safe (sched : List (Tid × Act)) : (run init sched).ok :=
  inv_ok (run_inv sched inv_init)

theorem no_access_after_free (sched : List (Tid × Act)) : (run init sched).uaf = false :=
  (rc_safe sched).1

theorem unique_access_sound (sched : List (Tid × Act)) : (run init sched).badUnique = false :=
  (rc_safe sched).2.1

theorem freed_only_without_references (sched : List (Tid × Act)) :
    (run init sched).earlyFree = false := (rc_safe sched).2.2.1

theorem destroyed_at_most_once (sched : List (Tid × Act)) :
    (run init sched).frees ≤ 1 ∧ (run init sched).drops = (run init sched).frees :=
  ⟨(rc_safe sched).2.2.2.2.1, (rc_safe sched).2.2.2.2.2⟩

/-- While any reference exists the object is alive (its contents are intact). -/
theorem alive_while_referenced (sched : List (Tid × Act)) :
    let s := run init sched
    s.created = true → 0 < s.total → s.alive = true := by
  intro s hc ht
  have h : Inv s := run_inv sched inv_init
  cases ha : s.alive
  · have := h.dead hc ha; omega
  · rfl

/-- The ghost reference count is what it claims to be: the number of references held by the
threads' variables, in flight, and owned by queue entries. -/
theorem total_is_sum (sched : List (Tid × Act)) :
    let s := run init sched
    s.total = sumHeld s.threads + sumTemp s.threads + sumQ s.threads := by
  intro s
  obtain ⟨a, b, c, _⟩ := (run_inv sched inv_init : Inv s).sums
  show (run init sched).gH + (run init sched).gT + (run init sched).gQ = _
  rw [← a, ← b, ← c]

/-- Non-vacuity: a concrete 2-thread history (create, clone, move, both drop, owner merges)
is executable and ends with the object freed exactly once. -/
theorem example_history_frees_once :
    let s := run init [(0, .spawn), (1, .spawn), (0, .register), (0, .new), (0, .clone),
      (0, .move 1), (0, .drop), (1, .drop), (1, .step), (1, .step), (1, .step),
      (0, .merge), (0, .step), (0, .step), (0, .step), (0, .step), (0, .step), (0, .step)]
    s.frees = 1 ∧ s.ok ∧ s.created = true ∧ s.alive = false := by decide

/-- Non-vacuity of `unique_access_sound`: exclusive access *is* granted in a reachable state. -/
theorem example_unique_granted :
    (step (run init [(0, .spawn), (0, .new), (0, .unique), (0, .step)]) 0 .step).map (·.2) =
      some (.done "true") := by decide

end SteelVerif.C05
