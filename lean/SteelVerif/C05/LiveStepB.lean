/-
C05 — `Extra` is preserved, part B: the steps that write the shared word, enqueue, or deallocate;
and the assembled preservation theorem `step_inv2`.
-/
import SteelVerif.C05.LiveStepA
namespace SteelVerif.C05
set_option linter.unusedSimpArgs false
set_option linter.unusedVariables false

theorem ret_alive (s : State) (t : Tid) (th th' : Thread) (r : Ret) :
    (ret s t th th' r).1.alive = s.alive := by
  obtain ⟨sh, hfst⟩ := ret_fst s t th th' r
  rw [hfst]; simp [(unlock_fields s r).2.2.2.2.2.2.2.2.2.1]

theorem ret_w (s : State) (t : Tid) (th th' : Thread) (r : Ret) :
    (ret s t th th' r).1.w = s.w := by
  obtain ⟨sh, hfst⟩ := ret_fst s t th th' r
  rw [hfst]; simp [(unlock_fields s r).2.2.2.2.2.2.2.1]

theorem ret_gQ (s : State) (t : Tid) (th th' : Thread) (r : Ret) :
    (ret s t th th' r).1.gQ = s.gQ + (th'.regQ + th'.unregQ) - (th.regQ + th.unregQ) := by
  obtain ⟨sh, hfst⟩ := ret_fst s t th th' r
  rw [hfst]; simp [(unlock_fields s r).2.2.2.1]

theorem ret_gP (s : State) (t : Tid) (th th' : Thread) (r : Ret) :
    (ret s t th th' r).1.gP = s.gP + r.pend - th.pc.pend := by
  obtain ⟨sh, hfst⟩ := ret_fst s t th th' r
  rw [hfst]; simp [(unlock_fields s r).2.2.2.2.1, next_pend r]

theorem xcase_incCas {s : State} {t : Tid} {th : Thread} (old : Word) (h : Inv s) (x : Extra s)
    (hth : s.threads[t]? = some th) (hpc : th.pc = .incCas old) :
    ∀ s' o, step s t .step = some (s', o) → Extra s' := by
  intro s' o hs
  have hal := alive_of_pc h hth (by rw [hpc]; simp)
  have b := h.bnd hth
  simp only [step, hth, hpc, touch_eq hal.2] at hs
  split at hs
  · rename_i hw
    simp only [finish, Option.some.injEq, Prod.mk.injEq] at hs
    obtain ⟨rfl, _⟩ := hs
    subst hw
    refine ⟨fun _ _ z => ?_, fun _ m q => ?_, fun _ m q => ?_⟩
    · simp only [State.total, put_gH, put_gT, put_gQ] at z; simp at z; omega
    · have := x.nonneg hal.2 (by simpa using m) (by simpa using q)
      simp; omega
    · have := x.entry hal.2 (by simpa using m) (by simpa using q)
      simp only [put_gQ, put_gP, hpc, PC.pend]; simp; omega
  · simp only [park, Option.some.injEq, Prod.mk.injEq] at hs
    obtain ⟨rfl, _⟩ := hs
    exact xpark h x hth _ th.shown (by simp [hpc, PC.pend]) (by simp [hpc, isFree])

theorem xcase_dfCas {s : State} {t : Tid} {th : Thread} (r : Ret) (old : Word) (h : Inv s) (x : Extra s)
    (hth : s.threads[t]? = some th) (hpc : th.pc = .dfCas r old) :
    ∀ s' o, step s t .step = some (s', o) → Extra s' := by
  intro s' o hs
  have hal := alive_of_pc h hth (by rw [hpc]; simp)
  have b := h.bnd hth
  simp only [step, hth, hpc, touch_eq hal.2] at hs
  split at hs
  · simp only [park, Option.some.injEq, Prod.mk.injEq] at hs
    obtain ⟨rfl, _⟩ := hs
    refine ⟨fun _ _ z => ?_, fun _ m _ => ?_, fun _ m _ => ?_⟩
    · simp only [State.total, put_gH, put_gT, put_gQ] at z; simp at z; omega
    · simp at m
    · simp at m
  · simp only [park, Option.some.injEq, Prod.mk.injEq] at hs
    obtain ⟨rfl, _⟩ := hs
    exact xpark h x hth _ th.shown (by simp [hpc, PC.pend]) (by simp [hpc, isFree])

theorem xcase_mgCas {s : State} {t : Tid} {th : Thread} (rest n : Nat) (lk : Bool) (old : Word)
    (h : Inv s) (x : Extra s) (hth : s.threads[t]? = some th) (hpc : th.pc = .mgCas rest n lk old) :
    ∀ s' o, step s t .step = some (s', o) → Extra s' := by
  intro s' o hs
  have hal := alive_of_pc h hth (by rw [hpc]; simp)
  have b := h.bnd hth
  have hok := (h.thr t th hth).ok; simp only [TOk, hpc] at hok
  simp only [step, hth, hpc, touch_eq hal.2] at hs
  split at hs
  · simp only [park, Option.some.injEq, Prod.mk.injEq] at hs
    obtain ⟨rfl, _⟩ := hs
    refine ⟨fun _ _ z => ?_, fun _ m _ => ?_, fun _ m _ => ?_⟩
    · simp only [State.total, put_gH, put_gT, put_gQ] at z; simp at z; omega
    · simp at m
    · simp at m
  · simp only [park, Option.some.injEq, Prod.mk.injEq] at hs
    obtain ⟨rfl, _⟩ := hs
    exact xpark h x hth _ th.shown (by simp [hpc, PC.pend]) (by simp [hpc, isFree])

theorem xcase_uwCas {s : State} {t : Tid} {th : Thread} (old : Word) (h : Inv s) (x : Extra s)
    (hth : s.threads[t]? = some th) (hpc : th.pc = .uwCas old) :
    ∀ s' o, step s t .step = some (s', o) → Extra s' := by
  intro s' o hs
  have hal := alive_of_pc h hth (by rw [hpc]; simp)
  have b := h.bnd hth
  simp only [step, hth, hpc, touch_eq hal.2] at hs
  split at hs
  · rename_i hw
    simp only [park, Option.some.injEq, Prod.mk.injEq] at hs
    obtain ⟨rfl, _⟩ := hs
    refine ⟨fun _ _ _ => Freeing.self hth rfl, fun _ _ _ => by simp, fun _ m q => ?_⟩
    have := x.entry hal.2 (by rw [hw]; simpa using m) (by rw [hw]; simpa using q)
    simp only [put_gQ, put_gP, hpc, PC.pend]; simp; omega
  · simp only [finish, Option.some.injEq, Prod.mk.injEq] at hs
    obtain ⟨rfl, _⟩ := hs
    exact xpark h x hth _ th.held (by simp [hpc, PC.pend]) (by simp [hpc, isFree])

theorem xcase_free {s : State} {t : Tid} {th : Thread} (r : Ret) (h : Inv s) (x : Extra s)
    (hth : s.threads[t]? = some th) (hpc : th.pc = .free r) :
    ∀ s' o, step s t .step = some (s', o) → Extra s' := by
  intro s' o hs
  simp only [step, hth, hpc, Option.some.injEq] at hs
  have this := congrArg Prod.fst hs
  simp only at this
  rw [← this]
  apply Extra.dead
  rw [ret_alive]; simp [State.dealloc]

theorem xcase_uwFree {s : State} {t : Tid} {th : Thread} (own : Bool) (h : Inv s) (x : Extra s)
    (hth : s.threads[t]? = some th) (hpc : th.pc = .uwFree own) :
    ∀ s' o, step s t .step = some (s', o) → Extra s' := by
  intro s' o hs
  simp only [step, hth, hpc, finish, Option.some.injEq, Prod.mk.injEq] at hs
  obtain ⟨rfl, _⟩ := hs
  apply Extra.dead
  simp [State.dealloc]

theorem xcase_dsCas {s : State} {t : Tid} {th : Thread} (r : Ret) (old : Word) (h : Inv s) (x : Extra s)
    (hth : s.threads[t]? = some th) (hpc : th.pc = .dsCas r old) :
    ∀ s' o, step s t .step = some (s', o) → Extra s' := by
  intro s' o hs
  have h' : Inv s' := case_dsCas r old h hth hpc s' o hs
  have hal := alive_of_pc h hth (by rw [hpc]; simp)
  have b := h.bnd hth
  have hok := (h.thr t th hth).ok; simp only [TOk, hpc] at hok
  obtain ⟨hp, hr, hno⟩ := hok
  simp only [step, hth, hpc, touch_eq hal.2] at hs
  split at hs
  · rename_i hw
    split at hs
    · -- hand the reference to the queue
      rename_i hcond
      obtain ⟨hc0, hq0, hm0⟩ := hcond
      simp only [park, Option.some.injEq, Prod.mk.injEq] at hs
      obtain ⟨rfl, _⟩ := hs
      refine ⟨fun _ m _ => ?_, fun _ _ q => ?_, fun _ _ _ => ?_⟩
      · simp [hm0] at m
      · simp at q
      · simp only [put_gQ, put_gP, hpc, PC.pend]; simp; omega
    · rename_i hcond
      split at hs
      · -- last reference of a merged object: park at the deallocation
        rename_i hz
        have hz1 : old.merged = true := hz.1
        simp only [park, Option.some.injEq, Prod.mk.injEq] at hs
        obtain ⟨rfl, _⟩ := hs
        refine ⟨fun _ _ _ => Freeing.self hth rfl, fun _ m _ => ?_, fun _ m _ => ?_⟩
        · simp [hz1] at m
        · simp [hz1] at m
      · rename_i hz
        simp only [Option.some.injEq] at hs
        have this := congrArg Prod.fst hs
        simp only at this
        have ew : s'.w = { old with cnt := old.cnt - 1 } := by rw [← this, ret_w]
        have ea : s'.alive = true := by rw [← this, ret_alive]; exact hal.2
        refine ⟨fun _ m z => ?_, fun _ m q => ?_, fun _ m q => ?_⟩
        · -- merged and no reference left would have been the deallocation branch
          exfalso
          have hc := (h'.count ea).2
          rw [m, z] at hc
          rw [ew] at hc m
          exact hz ⟨by simpa using m, by simpa using hc⟩
        · rw [ew] at m q ⊢
          have hm : old.merged = false := by simpa using m
          have hq : old.queued = false := by simpa using q
          have : ¬ old.cnt ≤ 0 := fun hle => hcond ⟨hle, hq, hm⟩
          simp; omega
        · rw [ew] at m q
          have := x.entry hal.2 (by rw [hw]; simpa using m) (by rw [hw]; simpa using q)
          rw [← ‹_ = s'›, ret_gQ, ret_gP]
          simp only [hpc, PC.pend]; simp; omega
  · simp only [park, Option.some.injEq, Prod.mk.injEq] at hs
    obtain ⟨rfl, _⟩ := hs
    exact xpark h x hth _ th.shown (by simp [hpc, PC.pend]) (by simp [hpc, isFree])

theorem xcase_enq {s : State} {t : Tid} {th : Thread} (r : Ret) (h : Inv s) (x : Extra s)
    (hth : s.threads[t]? = some th) (hpc : th.pc = .enq r) :
    ∀ s' o, step s t .step = some (s', o) → Extra s' := by
  intro s' o hs
  have hal := alive_of_pc h hth (by rw [hpc]; simp)
  have b := h.bnd hth
  have hok := (h.thr t th hth).ok; simp only [TOk, hpc] at hok
  obtain ⟨hp, hq, hr, hno⟩ := hok
  simp only [step, hth, hpc] at hs
  split at hs
  · cases hs
  · simp only [touch_eq hal.2] at hs
    split at hs
    · -- no owner left (so the object is merged): drop the reference the normal way
      rename_i hn
      have hm := h.ownerNone hal.1 hn
      simp only [park, Option.some.injEq, Prod.mk.injEq] at hs
      obtain ⟨rfl, _⟩ := hs
      exact x.frame_put h hth ⟨rfl, rfl, rfl, rfl, rfl⟩ rfl rfl (by xarith hpc)
        (fun m => by rw [hm] at m; cases m) (by simp [hpc, isFree])
    · -- hand the reference to the queue of the owner `k`
      rename_i k hk
      have hkt : t ≠ k := by intro e; apply hno; rw [hk, e]
      have hrop : r = .op := by
        cases r with
        | op => rfl
        | merge a b c => have := hr rfl; rw [hk] at this; cases this
      subst hrop
      simp only [ret, finish] at hs
      split at hs
      · cases hs
      · rename_i tk htk
        generalize hdef : (if tk.registered = true then ({ tk with regQ := tk.regQ + 1 } : Thread)
          else { tk with unregQ := tk.unregQ + 1 }) = tk' at hs
        have hk3 : tk'.regQ + tk'.unregQ = tk.regQ + tk.unregQ + 1 := by
          rw [← hdef]; split <;> simp <;> omega
        have hk4 : tk'.pc = tk.pc := by rw [← hdef]; split <;> rfl
        have hk1 : tk'.held = tk.held := by rw [← hdef]; split <;> rfl
        have hk2 : tk'.temp = tk.temp := by rw [← hdef]; split <;> rfl
        simp only [Option.some.injEq, Prod.mk.injEq] at hs
        obtain ⟨rfl, _⟩ := hs
        have htk0 : s.threads[k]? = some tk := by
          rw [put_get_other (Ne.symm hkt)] at htk; exact htk
        have bk := h.bnd htk0
        refine x.frame (by simp) (by simp) ?_ ?_ ?_
        · intro _
          simp only [State.total, put_gH, put_gT, put_gQ, hk1, hk2, hk3]
          simp [Ret.pend] at hp ⊢; omega
        · intro _
          simp only [put_gQ, put_gP, hk3, hk4, hpc, PC.pend, Ret.pend]
          have := b.2.2.2; simp only [hpc, PC.pend, Ret.pend] at this
          simp; omega
        · intro f
          exact Freeing.put rfl htk (by simp [hk4])
            (Freeing.put (s1 := s) rfl hth (by simp [hpc, isFree]) f)

/-- Every step preserves the strengthened invariant. -/
theorem step_inv2 {s s' : State} {t : Tid} {a : Act} {o : Out} (h2 : Inv2 s)
    (hs : step s t a = some (s', o)) : Inv2 s' := by
  refine ⟨step_inv h2.inv hs, ?_⟩
  obtain ⟨h, x⟩ := h2
  cases a with
  | spawn => exact xcase_spawn h x s' o hs
  | _ =>
    all_goals
      cases hth : s.threads[t]? with
      | none => simp [step, hth] at hs
      | some th =>
        cases hpc : th.pc
        all_goals first
          | exact xcase_new h x hth hpc s' o hs
          | exact xcase_clone h x hth hpc s' o hs
          | exact xcase_drop h x hth hpc s' o hs
          | exact xcase_move h x hth hpc _ s' o hs
          | exact xcase_unique h x hth hpc s' o hs
          | exact xcase_unwrap h x hth hpc s' o hs
          | exact xcase_count h x hth hpc s' o hs
          | exact xcase_register h x hth hpc s' o hs
          | exact xcase_merge h x hth hpc s' o hs
          | exact xcase_exit h x hth hpc s' o hs
          | exact xcase_load h x hth (Or.inl hpc) s' o hs
          | exact xcase_load h x hth (Or.inr (Or.inl ⟨_, hpc⟩)) s' o hs
          | exact xcase_load h x hth (Or.inr (Or.inr (Or.inl ⟨_, hpc⟩))) s' o hs
          | exact xcase_load h x hth (Or.inr (Or.inr (Or.inr (Or.inl ⟨_, _, _, hpc⟩)))) s' o hs
          | exact xcase_load h x hth (Or.inr (Or.inr (Or.inr (Or.inr hpc)))) s' o hs
          | exact xcase_setNone h x hth (Or.inl ⟨_, hpc⟩) s' o hs
          | exact xcase_setNone h x hth (Or.inr ⟨_, _, _, hpc⟩) s' o hs
          | exact xcase_owner h x hth (Or.inl hpc) s' o hs
          | exact xcase_owner h x hth (Or.inr hpc) s' o hs
          | exact xcase_uqLoad h x hth (Or.inl hpc) s' o hs
          | exact xcase_uqLoad h x hth (Or.inr hpc) s' o hs
          | exact xcase_uwLoadOwn h x hth hpc s' o hs
          | exact xcase_incCas _ h x hth hpc s' o hs
          | exact xcase_dfCas _ _ h x hth hpc s' o hs
          | exact xcase_mgCas _ _ _ _ h x hth hpc s' o hs
          | exact xcase_uwCas _ h x hth hpc s' o hs
          | exact xcase_dsCas _ _ h x hth hpc s' o hs
          | exact xcase_enq _ h x hth hpc s' o hs
          | exact xcase_free _ h x hth hpc s' o hs
          | exact xcase_uwFree _ h x hth hpc s' o hs
          | (simp [step, hth, hpc] at hs)

theorem run_inv2 (sched : List (Tid × Act)) : ∀ {s : State}, Inv2 s → Inv2 (run s sched) := by
  induction sched with
  | nil => intro s h; exact h
  | cons x rest ih =>
    intro s h
    obtain ⟨t, a⟩ := x
    simp only [run]
    cases hs : step s t a with
    | none => exact h
    | some r => obtain ⟨s', o⟩ := r; exact ih (step_inv2 h hs)

end SteelVerif.C05
