import SteelVerif.C05.Props
open SteelVerif.C05
#print axioms example_history_frees_once
