import SteelVerif.C05.Props
open SteelVerif.C05
#print axioms step_inv
#print axioms rc_safe
#print axioms no_access_after_free
#print axioms unique_access_sound
#print axioms freed_only_without_references
#print axioms destroyed_at_most_once
#print axioms alive_while_referenced
#print axioms total_is_sum
#print axioms example_history_frees_once
#print axioms example_unique_granted
#print axioms step_inv2
#print axioms no_leak_at_quiescence
#print axioms destroyed_exactly_once
#print axioms example_quiescent_reachable
#print axioms unregistered_owner_parks_forever
#print axioms solo_step
#print axioms op_completes_solo
#print axioms merge_drains
#print axioms example_solo_retry
#print axioms example_merge_drains
#print axioms example_solo_last_drop
#print axioms step_lockInv
#print axioms guard_holder_is_merging
#print axioms never_blocked_at_enqueue
#print axioms example_guard_held
