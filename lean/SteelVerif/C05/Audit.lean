import SteelVerif.C05.Props
open SteelVerif.C05
#print axioms step_inv
#print axioms rc_safe
#print axioms no_access_after_free
#print axioms unique_access_sound
#print axioms freed_only_without_references
#print axioms destroyed_at_most_once
#print axioms alive_while_referenced
#print axioms total_is_sum
#print axioms example_history_frees_once
#print axioms example_unique_granted
