/-
C05 — liveness half of "destroyed exactly once": the additional invariant `Extra` (on top of `Inv`)
that excludes a quiescent leaked object, and the frame lemmas used to carry it through every step
(LiveStep*.lean).

* `freeing`: an alive, merged object to which no counted reference exists is about to be freed by a
  thread parked at a deallocation site (`free` / `unwrap.free`);
* `nonneg`:  the shared counter of an unmerged, unqueued object is not negative;
* `entry`:   while the QUEUED flag of an unmerged object is set, the queue entry exists: it is in a
  queue, or in the hands of the thread that enqueues / merges it.
-/
import SteelVerif.C05.StepAll
namespace SteelVerif.C05
set_option linter.unusedSimpArgs false
set_option linter.unusedVariables false

/-- Some thread is parked at a deallocation site. -/
def Freeing (s : State) : Prop := ∃ (t : Tid) (th : Thread), s.threads[t]? = some th ∧ isFree th.pc = true

structure Extra (s : State) : Prop where
  freeing : s.alive = true → s.w.merged = true → s.total = 0 → Freeing s
  nonneg : s.alive = true → s.w.merged = false → s.w.queued = false → 0 ≤ s.w.cnt
  entry : s.alive = true → s.w.merged = false → s.w.queued = true → 1 ≤ s.gQ + s.gP

/-- The invariant used for the liveness theorems. -/
structure Inv2 (s : State) : Prop where
  inv : Inv s
  extra : Extra s

theorem extra_init : Extra init := ⟨by simp [init], by simp [init], by simp [init]⟩

theorem inv2_init : Inv2 init := ⟨inv_init, extra_init⟩

theorem Extra.dead {s : State} (h : s.alive = false) : Extra s :=
  ⟨fun a => (by rw [h] at a; cases a), fun a => (by rw [h] at a; cases a),
    fun a => (by rw [h] at a; cases a)⟩

/-! ## `Freeing` through `put` -/

theorem Freeing.put {s s1 : State} {t : Tid} {th th' : Thread} (e : s1.threads = s.threads)
    (hth : s.threads[t]? = some th) (hp : isFree th.pc = true → isFree th'.pc = true)
    (f : Freeing s) : Freeing (s1.put t th th') := by
  obtain ⟨u, tu, hu, fu⟩ := f
  have hth1 : s1.threads[t]? = some th := by rw [e]; exact hth
  by_cases hut : u = t
  · subst hut
    rw [hth] at hu; cases hu
    exact ⟨u, th', put_get_same hth1 _, hp fu⟩
  · exact ⟨u, tu, by rw [put_get_other hut, e]; exact hu, fu⟩

theorem Freeing.self {s1 : State} {t : Tid} {th th' : Thread} (hth : s1.threads[t]? = some th)
    (hp : isFree th'.pc = true) : Freeing (s1.put t th th') :=
  ⟨t, th', put_get_same hth _, hp⟩

/-! ## Frame lemmas -/

/-- A step that leaves the shared word alone. -/
theorem Extra.frame {s s' : State} (x : Extra s)
    (ha : s'.alive = true → s.alive = true) (hw : s'.w = s.w)
    (ht : s.w.merged = true → s'.total = 0 → s.total = 0)
    (hg : s.w.merged = false → s.gQ + s.gP ≤ s'.gQ + s'.gP)
    (hf : Freeing s → Freeing s') : Extra s' := by
  refine ⟨?_, ?_, ?_⟩
  · intro a m z; rw [hw] at m
    exact hf (x.freeing (ha a) m (ht m z))
  · intro a m q; rw [hw] at m q ⊢; exact x.nonneg (ha a) m q
  · intro a m q; rw [hw] at m q
    have := x.entry (ha a) m q
    have := hg m
    omega

/-- The same for a step that replaces one thread record. -/
theorem Extra.frame_put {s s1 : State} {t : Tid} {th th' : Thread} (h : Inv s) (x : Extra s)
    (hth : s.threads[t]? = some th)
    (e : s1.threads = s.threads ∧ s1.gH = s.gH ∧ s1.gT = s.gT ∧ s1.gQ = s.gQ ∧ s1.gP = s.gP)
    (ea : s1.alive = s.alive) (ew : s1.w = s.w)
    (ht : s.w.merged = true → th.held + th.temp + (th.regQ + th.unregQ) ≤
            th'.held + th'.temp + (th'.regQ + th'.unregQ))
    (hg : s.w.merged = false → th.regQ + th.unregQ + th.pc.pend ≤ th'.regQ + th'.unregQ + th'.pc.pend)
    (hf : isFree th.pc = true → isFree th'.pc = true) : Extra (s1.put t th th') := by
  obtain ⟨e0, eH, eT, eQ, eP⟩ := e
  have b := h.bnd hth
  refine x.frame (by simp [ea]) (by simp [ew]) ?_ ?_ (Freeing.put e0 hth hf)
  · intro m
    have := ht m
    simp only [State.total, put_gH, put_gT, put_gQ, eH, eT, eQ]; omega
  · intro m
    have := hg m
    simp only [put_gQ, put_gP, eQ, eP]; omega

/-- The decrement protocol of `t` ends (`ret`) and the shared word is left alone. -/
theorem Extra.frame_ret {s s1 : State} {t : Tid} {th th' : Thread} (r : Ret) (h : Inv s) (x : Extra s)
    (hth : s.threads[t]? = some th)
    (e : s1.threads = s.threads ∧ s1.gH = s.gH ∧ s1.gT = s.gT ∧ s1.gQ = s.gQ ∧ s1.gP = s.gP)
    (ea : s1.alive = s.alive) (ew : s1.w = s.w)
    (ht : s.w.merged = true → th.held + th.temp + (th.regQ + th.unregQ) ≤
            th'.held + th'.temp + (th'.regQ + th'.unregQ))
    (hg : s.w.merged = false → th.regQ + th.unregQ + th.pc.pend ≤ th'.regQ + th'.unregQ + r.pend)
    (hf : isFree th.pc = false) : Extra (ret s1 t th th' r).1 := by
  obtain ⟨sh, hfst⟩ := ret_fst s1 t th th' r
  rw [hfst]
  obtain ⟨u0, uH, uT, uQ, uP, uo, ub, uw, uc, ua, f1, f2, f3, f4, ud, uf⟩ := unlock_fields s1 r
  obtain ⟨e0, eH, eT, eQ, eP⟩ := e
  refine x.frame_put h hth ⟨by rw [u0, e0], by rw [uH, eH], by rw [uT, eT], by rw [uQ, eQ], by rw [uP, eP]⟩
    (by rw [ua, ea]) (by rw [uw, ew]) ht ?_ (by simp [hf])
  intro m
  have := hg m
  have np := next_pend r
  simp only [np]; exact this

end SteelVerif.C05
