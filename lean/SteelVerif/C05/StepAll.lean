/-
C05 — every step of the model preserves the invariant `Inv` (assembled from Step*.lean), and what
the invariant gives for the specification flags.  (The property theorems are in Props.lean.)
-/
import SteelVerif.C05.StepE
namespace SteelVerif.C05

/-- Every step of the transition system preserves the invariant. -/
theorem step_inv {s s' : State} {t : Tid} {a : Act} {o : Out} (h : Inv s)
    (hs : step s t a = some (s', o)) : Inv s' := by
  cases a with
  | spawn => exact case_spawn h s' o hs
  | _ =>
    all_goals
      cases hth : s.threads[t]? with
      | none => simp [step, hth] at hs
      | some th =>
        cases hpc : th.pc
        all_goals first
          | exact case_new h hth hpc s' o hs
          | exact case_clone h hth hpc s' o hs
          | exact case_drop h hth hpc s' o hs
          | exact case_move h hth hpc _ s' o hs
          | exact case_unique h hth hpc s' o hs
          | exact case_unwrap h hth hpc s' o hs
          | exact case_count h hth hpc s' o hs
          | exact case_register h hth hpc s' o hs
          | exact case_merge h hth hpc s' o hs
          | exact case_exit h hth hpc s' o hs
          | exact case_incLoad h hth hpc s' o hs
          | exact case_incCas _ h hth hpc s' o hs
          | exact case_dfLoad _ h hth hpc s' o hs
          | exact case_dfCas _ _ h hth hpc s' o hs
          | exact case_dfSetNone _ h hth hpc s' o hs
          | exact case_dsLoad _ h hth hpc s' o hs
          | exact case_dsCas _ _ h hth hpc s' o hs
          | exact case_enq _ h hth hpc s' o hs
          | exact case_free _ h hth hpc s' o hs
          | exact case_uqOwner h hth hpc s' o hs
          | exact case_uqLoadNone h hth hpc s' o hs
          | exact case_uqLoadOwn h hth hpc s' o hs
          | exact case_uwOwner h hth hpc s' o hs
          | exact case_uwLoadNone h hth hpc s' o hs
          | exact case_uwCas _ h hth hpc s' o hs
          | exact case_uwLoadOwn h hth hpc s' o hs
          | exact case_uwFree _ h hth hpc s' o hs
          | exact case_mgLoad _ _ _ h hth hpc s' o hs
          | exact case_mgCas _ _ _ _ h hth hpc s' o hs
          | exact case_mgSetNone _ _ _ h hth hpc s' o hs
          | (simp [step, hth, hpc] at hs)

/-- The invariant holds in every state reachable by any schedule. -/
theorem run_inv (sched : List (Tid × Act)) : ∀ {s : State}, Inv s → Inv (run s sched) := by
  induction sched with
  | nil => intro s h; exact h
  | cons x rest ih =>
    intro s h
    obtain ⟨t, a⟩ := x
    simp only [run]
    cases hs : step s t a with
    | none => exact h
    | some r => obtain ⟨s', o⟩ := r; exact ih (step_inv h hs)

theorem inv_ok {s : State} (h : Inv s) : s.ok := by
  obtain ⟨f1, f2, f3, f4⟩ := h.flags
  refine ⟨f1, f2, f3, f4, ?_, h.frees.1⟩
  rw [h.frees.2]; split <;> omega

end SteelVerif.C05
