/-
C03 — the table of the Steel primitives: which rearrangement of slots each one performs (`plan`), and which of its
arguments it may update in place (`PrimOp.inPlaceArg`, the argument whose `&mut SteelVal` stack slot the Rust
function hands to `Gc::get_mut` / `Gc::make_mut` / im-lists).

Values are the trees of S: atoms are integers; kinds: 1 list, 2 pair, 3 immutable vector,
4 hash map (slots k1 v1 k2 v2 ... sorted by key), 5 hash set (sorted), 6 string (character codes), 7 struct `rec`.

WHICH rearrangement a primitive performs is compared with the real engine on every run (driver: the abstract
programs of gen/alias03.py); WHICH argument it may steal is compared with the source by translate/c03_inplace.py
(`GenInPlace.stolen_args_match_model`).  Operations whose real implementation may update in place are planned as
`Plan.upd` on the argument's stack slot, everything else as `Plan.mk` (a new object).
-/
import SteelVerif.C03.Model
namespace SteelVerif.C03

inductive PrimOp where
  | list | vec | rec_ | id_ | hash | hashset | str
  | cons | car | cdr | rest | append | append3 | trExt | reverse | pushBack | listTail | take | listRef | last
  | length | sort | mapId | listToVec | vecToList | trList | trVec | trSet
  | vpush | vpushf | vset | vrest | vtake | vdrop | vappend | vref
  | hins | hrem | hunion | hclear | href | hlen | hkeys
  | sins | sclear | sunion | setToList | slen
  | spush | sappend | recA | recB
deriving DecidableEq, Repr, Inhabited

def PrimOp.all : List PrimOp :=
  [.list, .vec, .rec_, .id_, .hash, .hashset, .str, .cons, .car, .cdr, .rest, .append, .append3, .trExt, .reverse,
   .pushBack, .listTail, .take, .listRef, .last, .length, .sort, .mapId, .listToVec, .vecToList, .trList, .trVec,
   .trSet, .vpush, .vpushf, .vset, .vrest, .vtake, .vdrop, .vappend, .vref, .hins, .hrem, .hunion, .hclear, .href,
   .hlen, .hkeys, .sins, .sclear, .sunion, .setToList, .slen, .spush, .sappend, .recA, .recB]

/-- the name of the operation in the abstract programs of gen/alias03.py -/
def PrimOp.name : PrimOp → String
  | .list => "list" | .vec => "vec" | .rec_ => "rec" | .id_ => "id" | .hash => "hash" | .hashset => "hashset"
  | .str => "str"
  | .cons => "cons" | .car => "car" | .cdr => "cdr" | .rest => "rest" | .append => "append" | .append3 => "append3"
  | .trExt => "tr-ext" | .reverse => "reverse" | .pushBack => "push-back" | .listTail => "list-tail" | .take => "take"
  | .listRef => "list-ref" | .last => "last" | .length => "length" | .sort => "sort" | .mapId => "map-id"
  | .listToVec => "list->vec" | .vecToList => "vec->list" | .trList => "tr-list" | .trVec => "tr-vec" | .trSet => "tr-set"
  | .vpush => "vpush" | .vpushf => "vpushf" | .vset => "vset" | .vrest => "vrest" | .vtake => "vtake" | .vdrop => "vdrop"
  | .vappend => "vappend" | .vref => "vref" | .hins => "hins" | .hrem => "hrem" | .hunion => "hunion" | .hclear => "hclear"
  | .href => "href" | .hlen => "hlen" | .hkeys => "hkeys" | .sins => "sins" | .sclear => "sclear" | .sunion => "sunion"
  | .slen => "slen" | .setToList => "set->list" | .spush => "spush" | .sappend => "sappend" | .recA => "rec-a" | .recB => "rec-b"

def PrimOp.ofString (s : String) : Option PrimOp := PrimOp.all.find? (fun p => p.name == s)

/-- the Steel primitive (its name in /repo) that the operation calls when that primitive is one of the in-place
ones; `""` otherwise -/
def PrimOp.steel : PrimOp → String
  | .cons => "cons" | .cdr => "cdr" | .rest => "rest" | .append => "append" | .append3 => "append"
  | .reverse => "reverse" | .pushBack => "push-back"
  | .vpush => "immutable-vector-push" | .vpushf => "vector-push-front" | .vset => "immutable-vector-set"
  | .vrest => "immutable-vector-rest" | .vtake => "immutable-vector-take" | .vdrop => "immutable-vector-drop"
  | .hins => "hash-insert" | .hrem => "hash-remove" | .hunion => "hash-union" | .hclear => "hash-clear"
  | .sins => "hashset-insert" | .sclear => "hashset-clear" | .spush => "string-push"
  | _ => ""

/-- the argument the model lets the primitive update in place (`Plan.upd` names no other: `plan_upd_target`) -/
def PrimOp.inPlaceArg : PrimOp → Option Nat
  | .cons => some 1
  | .cdr | .rest | .append | .append3 | .reverse | .pushBack => some 0
  | .vpush | .vpushf | .vset | .vrest | .vtake | .vdrop => some 0
  | .hins | .hrem | .hunion | .hclear => some 0
  | .sins | .sclear => some 0
  | .spush => some 0
  | _ => none

/-- a second argument the primitive may update in place INSTEAD (`hash-union`: when the left map is shared and the right
one is not, the source updates the right map; `VM.applyPrim` takes that arm under an oracle) -/
def PrimOp.altArm : PrimOp → Option Nat
  | .hunion => some 1
  | _ => none

/-- the description of the update when the alternative arm is taken: the roles of the two maps are exchanged
(`old i` = slot `i` of the updated object) -/
def swapSrc (hL hR : Nat) : Src → Src
  | .old i => .slot hL i
  | .slot h i => if h = hR then .old i else .slot h i
  | s => s

/-- an evaluated argument: a literal integer, or a holder (a stack slot) with its value in S -/
inductive Arg where
  | lit (n : Int)
  | held (h : Nat) (t : Tree)
deriving Inhabited

def Arg.src : Arg → Src
  | .lit n => .lit n
  | .held h _ => .hold h

def Arg.tree : Arg → Tree
  | .lit n => .atom n
  | .held _ t => t

def Arg.kind (a : Arg) : Nat := match a.tree with | .node k _ => k | .atom _ => 0
def Arg.cs (a : Arg) : List Tree := a.tree.children
def Arg.int? (a : Arg) : Option Int := match a.tree with | .atom n => some n | _ => none
def Arg.holder? : Arg → Option Nat | .held h _ => some h | .lit _ => none

/-- what the primitive does -/
inductive Plan where
  | upd (target : Nat) (k : Nat) (srcs : List Src)   -- functional update of argument `target` (may run in place)
  | mk (k : Nat) (srcs : List Src)                   -- a new object
  | proj (j i : Nat)                                 -- slot `i` of argument `j`
  | scalar (n : Int)
  | same (j : Nat)                                   -- the argument itself
  | bad (msg : String)

def olds (n : Nat) : List Src := (List.range n).map Src.old
def slotsOfArg (a : Arg) : List Src :=
  match a with
  | .held h t => (List.range t.children.length).map (Src.slot h)
  | .lit _ => []

def keyOf : Tree → Int | .atom a => a | _ => 0

/-- position of key `k` in a sorted key/value slot list: (index of the pair, found?) -/
def findKey (k : Int) : List Tree → Nat → Nat × Bool
  | key :: _ :: rest, i => if keyOf key = k then (i, true) else if keyOf key > k then (i, false) else findKey k rest (i + 1)
  | _, i => (i, false)

def findElem (k : Int) : List Tree → Nat → Nat × Bool
  | e :: rest, i => if keyOf e = k then (i, true) else if keyOf e > k then (i, false) else findElem k rest (i + 1)
  | [], i => (i, false)

def isInts (cs : List Tree) : Bool := cs.all (fun t => match t with | .atom _ => true | _ => false)

/-- insertion sort of slot sources by key -/
def insertBy (k : Int) (s : Src) : List (Int × Src) → List (Int × Src)
  | [] => [(k, s)]
  | (k', s') :: r => if k ≤ k' then (k, s) :: (k', s') :: r else (k', s') :: insertBy k s r

def argIdx (a : Arg) (bound : Nat) (strict : Bool) : Option Nat :=
  match a.int? with
  | some i => if i < 0 then none else if (if strict then i.toNat < bound else i.toNat ≤ bound) then some i.toNat else none
  | none => none

/-- `(hash k v ...)`: later keys overwrite earlier ones -/
def hashGo : List Arg → List (Int × Src) → Option (List (Int × Src))
  | k :: v :: r, acc =>
    match k.int? with
    | some ki => hashGo r (insertBy ki v.src (acc.filter (fun p => p.1 ≠ ki)))
    | none => none
  | [], acc => some acc
  | _, _ => none

def kvPairs : List Tree → Nat → (Nat → Src) → List (Int × Src × Src)
  | k :: _ :: r, i, f => (keyOf k, f (2 * i), f (2 * i + 1)) :: kvPairs r (i + 1) f
  | _, _, _ => []

def keySrcs : List Tree → List Src
  | k :: _ :: r => .lit (keyOf k) :: keySrcs r
  | _ => []

def plan (op : PrimOp) (args : List Arg) : Plan :=
  let a0 := args.getD 0 (.lit 0)
  let a1 := args.getD 1 (.lit 0)
  let a2 := args.getD 2 (.lit 0)
  let n0 := a0.cs.length
  match op with
  | .list => .mk 1 (args.map Arg.src)
  | .vec => .mk 3 (args.map Arg.src)
  | .str => .mk 6 (args.map Arg.src)            -- a string literal: its character codes
  | .rec_ => if args.length = 2 then .mk 7 (args.map Arg.src) else .bad "rec"
  | .id_ => match a0 with | .lit n => .scalar n | .held _ _ => .same 0
  | .hash =>
    match hashGo args [] with
    | some kvs => .mk 4 (kvs.flatMap (fun p => [Src.lit p.1, p.2]))
    | none => .bad "hash"
  | .hashset =>
    if args.all (fun a => a.int?.isSome) then
      let ks := args.foldl (fun acc a => let k := a.int?.getD 0; insertBy k (.lit k) (acc.filter (fun p => p.1 ≠ k))) []
      .mk 5 (ks.map (·.2))
    else .bad "hashset"
  | .cons =>
    if a1.kind = 1 then .upd 1 1 (a0.src :: olds a1.cs.length) else .mk 2 [a0.src, a1.src]
  | .car => if (a0.kind = 1 && n0 > 0) || a0.kind = 2 then .proj 0 0 else .bad "car"
  | .cdr =>
    if a0.kind = 2 then .proj 0 1
    else if a0.kind = 1 && n0 > 0 then .upd 0 1 ((olds n0).drop 1) else .bad "cdr"
  | .rest => if a0.kind = 1 && n0 > 0 then .upd 0 1 ((olds n0).drop 1) else .bad "rest"
  | .append => if a0.kind = 1 && a1.kind = 1 then .upd 0 1 (olds n0 ++ slotsOfArg a1) else .bad "append"
  | .append3 =>
    if a0.kind = 1 && a1.kind = 1 && a2.kind = 1 then .upd 0 1 (olds n0 ++ slotsOfArg a1 ++ slotsOfArg a2) else .bad "append3"
  | .trExt => if a0.kind = 1 && a1.kind = 1 then .mk 1 (slotsOfArg a0 ++ slotsOfArg a1) else .bad "tr-ext"
  | .reverse => if a0.kind = 1 then .upd 0 1 (olds n0).reverse else .bad "reverse"
  | .pushBack => if a0.kind = 1 then .upd 0 1 (olds n0 ++ [a1.src]) else .bad "push-back"
  | .listTail => match a0.kind, argIdx a1 n0 false with
    | 1, some i => .mk 1 ((slotsOfArg a0).drop i)
    | _, _ => .bad "list-tail"
  | .take => match a0.kind, argIdx a1 n0 false with
    | 1, some i => .mk 1 ((slotsOfArg a0).take i)
    | _, _ => .bad "take"
  | .listRef => match a0.kind, argIdx a1 n0 true with
    | 1, some i => .proj 0 i
    | _, _ => .bad "list-ref"
  | .last => if a0.kind = 1 && n0 > 0 then .proj 0 (n0 - 1) else .bad "last"
  | .length => if a0.kind = 1 then .scalar n0 else .bad "length"
  | .sort =>
    if a0.kind = 1 && isInts a0.cs then
      let ks := (a0.cs.map keyOf).foldl (fun acc k => insertBy k (.lit k) acc) []
      .mk 1 (ks.map (·.2))
    else .bad "sort"
  | .mapId => if a0.kind = 1 then .mk 1 (slotsOfArg a0) else .bad "map-id"
  | .listToVec => if a0.kind = 1 then .mk 3 (slotsOfArg a0) else .bad "list->vec"
  | .vecToList => if a0.kind = 3 then .mk 1 (slotsOfArg a0) else .bad "vec->list"
  | .trList => if a0.kind = 1 || a0.kind = 3 then .mk 1 (slotsOfArg a0) else .bad "tr-list"
  | .trVec => if a0.kind = 1 || a0.kind = 3 then .mk 3 (slotsOfArg a0) else .bad "tr-vec"
  | .trSet =>
    if (a0.kind = 1 || a0.kind = 3) && isInts a0.cs then
      let ks := (a0.cs.map keyOf).foldl (fun acc k => insertBy k (.lit k) (acc.filter (fun p => p.1 ≠ k))) []
      .mk 5 (ks.map (·.2))
    else .bad "tr-set"
  | .vpush => if a0.kind = 3 then .upd 0 3 (olds n0 ++ [a1.src]) else .bad "vpush"
  | .vpushf => if a0.kind = 3 then .upd 0 3 (a1.src :: olds n0) else .bad "vpushf"
  | .vset => match a0.kind, argIdx a1 n0 true with
    | 3, some i => .upd 0 3 ((olds n0).take i ++ [a2.src] ++ (olds n0).drop (i + 1))
    | _, _ => .bad "vset"
  | .vrest => if a0.kind = 3 && n0 > 0 then .upd 0 3 ((olds n0).drop 1) else .bad "vrest"
  | .vtake => match a0.kind, argIdx a1 n0 false with
    | 3, some i => .upd 0 3 ((olds n0).take i)
    | _, _ => .bad "vtake"
  | .vdrop => match a0.kind, argIdx a1 n0 false with
    | 3, some i => .upd 0 3 ((olds n0).drop i)
    | _, _ => .bad "vdrop"
  | .vappend => if a0.kind = 3 && a1.kind = 3 then .mk 3 (slotsOfArg a0 ++ slotsOfArg a1) else .bad "vappend"
  | .vref => match a0.kind, argIdx a1 n0 true with
    | 3, some i => .proj 0 i
    | _, _ => .bad "vref"
  | .hins => match a0.kind, a1.int? with
    | 4, some k =>
      let pf := findKey k a0.cs 0
      if pf.2 then .upd 0 4 ((olds n0).take (2 * pf.1) ++ [.old (2 * pf.1), a2.src] ++ (olds n0).drop (2 * pf.1 + 2))
      else .upd 0 4 ((olds n0).take (2 * pf.1) ++ [.lit k, a2.src] ++ (olds n0).drop (2 * pf.1))
    | _, _ => .bad "hins"
  | .hrem => match a0.kind, a1.int? with
    | 4, some k =>
      let pf := findKey k a0.cs 0
      if pf.2 then .upd 0 4 ((olds n0).take (2 * pf.1) ++ (olds n0).drop (2 * pf.1 + 2)) else .upd 0 4 (olds n0)
    | _, _ => .bad "hrem"
  | .hunion =>
    if a0.kind = 4 && a1.kind = 4 then
      -- the values of the left map win
      let left := kvPairs a0.cs 0 Src.old
      let right := match a1 with
        | .held h _ => kvPairs a1.cs 0 (Src.slot h)
        | .lit _ => []
      let extra := right.filter (fun p => !(left.any (fun q => q.1 = p.1)))
      let all := (left ++ extra).foldl (fun acc p => insertBy p.1 p.2.1 acc) []
      let valOf (k : Int) : Src := match (left ++ extra).find? (fun p => p.1 = k) with
        | some p => p.2.2
        | none => .lit 0
      .upd 0 4 (all.flatMap (fun p => [p.2, valOf p.1]))
    else .bad "hunion"
  | .hclear => if a0.kind = 4 then .upd 0 4 [] else .bad "hclear"
  | .href => match a0.kind, a1.int? with
    | 4, some k =>
      let pf := findKey k a0.cs 0
      if pf.2 then .proj 0 (2 * pf.1 + 1) else .bad "href: key"
    | _, _ => .bad "href"
  | .hlen => if a0.kind = 4 then .scalar (n0 / 2) else .bad "hlen"
  | .hkeys => if a0.kind = 4 then .mk 1 (keySrcs a0.cs) else .bad "hkeys"
  | .sins => match a0.kind, a1.int? with
    | 5, some k =>
      let pf := findElem k a0.cs 0
      if pf.2 then .upd 0 5 (olds n0) else .upd 0 5 ((olds n0).take pf.1 ++ [.lit k] ++ (olds n0).drop pf.1)
    | _, _ => .bad "sins"
  | .sclear => if a0.kind = 5 then .upd 0 5 [] else .bad "sclear"
  | .sunion =>
    if a0.kind = 5 && a1.kind = 5 then
      let ks := ((a0.cs ++ a1.cs).map keyOf).foldl (fun acc k => insertBy k (.lit k) (acc.filter (fun p => p.1 ≠ k))) []
      .mk 5 (ks.map (·.2))
    else .bad "sunion"
  | .setToList => if a0.kind = 5 then .mk 1 (slotsOfArg a0) else .bad "set->list"
  | .slen => if a0.kind = 5 then .scalar n0 else .bad "slen"
  | .spush => if a0.kind = 6 && a1.kind = 6 then .upd 0 6 (olds n0 ++ slotsOfArg a1) else .bad "spush"
  | .sappend => if a0.kind = 6 && a1.kind = 6 then .mk 6 (slotsOfArg a0 ++ slotsOfArg a1) else .bad "sappend"
  | .recA => if a0.kind = 7 then .proj 0 0 else .bad "rec-a"
  | .recB => if a0.kind = 7 then .proj 0 1 else .bad "rec-b"

end SteelVerif.C03
