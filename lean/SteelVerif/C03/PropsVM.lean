/-
C03 — the property theorems about PROGRAMS (not hand-written operation lists).

`Mach K` (Machine.lean) is any small-step machine whose control sees of the store only the observation of the
holders it names; `vm` (VM.lean) is the stack VM over the real op codes, instrumented with reference counts;
`vm.par` interleaves several VM threads over the same store.  `runM U` runs a machine on the mechanism M
(in place when the uniqueness test `U` says so), `runS` on the persistent semantics S.
-/
import SteelVerif.C03.Props
import SteelVerif.C03.MachineLemmas
import SteelVerif.C03.VM
namespace SteelVerif.C03
open SteelVerif.C01C (Core Instr compileTop)

variable {K : Type}

/-! ### every program of every machine -/

/-- `inplace_refines_persistent` for programs: for every machine `m`, every initial control state `k` (the
program), every list `pre` of set-up operations and every number of steps `n`: M and S are in lock step — the same
control state (instruction pointer, stack height, frames, recorded statistics: whatever `K` contains), exact
counts, and every holder unfolds in M to exactly the pure value S gives it. -/
theorem program_refines (m : Mach K) {U : Obj → Bool} (hU : SoundTest U) (d : Nat) (pre : List Op) (n : Nat) (k : K) :
    (m.runM U d n k (runWith U {} pre)).1 = (m.runS d n k (runS [] pre)).1 ∧
    Inv (m.runM U d n k (runWith U {} pre)).2 ∧
    Agree (m.runM U d n k (runWith U {} pre)).2 (m.runS d n k (runS [] pre)).2 := by
  obtain ⟨hI, hA, hp⟩ := run_refines hU pre {} [] inv_init agree_init rfl
  obtain ⟨a, b, c, _⟩ := mach_refines m hU d n k _ _ hI hA hp
  exact ⟨a, b, c⟩

/-- Running a program with in-place-if-unique primitives gives the same result as running it with always-copy
primitives: the same control state after every number of steps, the same holders bound, and every holder unfolds to
ONE pure value in both runs (the one S computes). -/
theorem program_inplace_eq_copy (m : Mach K) {U : Obj → Bool} (hU : SoundTest U) (d : Nat) (pre : List Op) (n : Nat) (k : K) :
    let a := m.runM U d n k (runWith U {} pre)
    let b := m.runM neverUnique d n k (runWith neverUnique {} pre)
    a.1 = b.1 ∧ ∀ h, (get a.2.hold h = none ↔ get b.2.hold h = none) ∧
      ∀ v w, get a.2.hold h = some v → get b.2.hold h = some w → ∃ t, Rep a.2.store v t ∧ Rep b.2.store w t := by
  intro a b
  obtain ⟨a1, _, a3⟩ := program_refines m hU d pre n k
  obtain ⟨b1, _, b3⟩ := program_refines m neverUnique_sound d pre n k
  refine ⟨a1.trans b1.symm, fun h => ⟨(a3 h).1.trans (b3 h).1.symm, fun v w hv hw => ?_⟩⟩
  cases ht : get (m.runS d n k (runS [] pre)).2 h with
  | none => have := (a3 h).1.mpr ht; rw [this] at hv; cases hv
  | some t => exact ⟨t, (a3 h).2 v t hv ht, (b3 h).2 w t hw ht⟩

/-- … as a computed equality: the printed form (`viewM`, unfolding with any sufficient depth bound) of every holder
is the same in the two runs -/
theorem program_views_eq (m : Mach K) {U : Obj → Bool} (hU : SoundTest U) (d : Nat) (pre : List Op) (n : Nat) (k : K)
    (h : Nat) (t : Tree) (ht : get (m.runS d n k (runS [] pre)).2 h = some t) (fuel : Nat) (hf : t.depth ≤ fuel) :
    viewM (m.runM U d n k (runWith U {} pre)).2 fuel h = viewM (m.runM neverUnique d n k (runWith neverUnique {} pre)).2 fuel h
    ∧ viewM (m.runM U d n k (runWith U {} pre)).2 fuel h = some t.enc := by
  obtain ⟨_, _, a3⟩ := program_refines m hU d pre n k
  obtain ⟨_, _, b3⟩ := program_refines m neverUnique_sound d pre n k
  have view : ∀ (s : State), Agree s (m.runS d n k (runS [] pre)).2 → viewM s fuel h = some t.enc := by
    intro s hA
    cases hv : get s.hold h with
    | none => have := (hA h).1.mp hv; rw [this] at ht; cases ht
    | some v => simp [viewM, hv, unfold_of_Rep v t ((hA h).2 v t hv ht) fuel hf]
  rw [view _ a3, view _ b3]; exact ⟨rfl, rfl⟩

/-! ### the VM over the real op codes -/

/-- the initial control state of a top-level instruction sequence on thread `tid`; `fast` = for each functional
update, whether the uniqueness test is willing to answer at all (`false`: a non-owner thread) -/
def vmStart (code : List Instr) (tid : Nat := 0) (fast : List Bool := []) : VK := { tid := tid, code := code, fast := fast }

/-- For EVERY instruction sequence over the real op codes (compiled or not, well-formed or not), every thread id,
every oracle `fast` and every number of steps, started with the primitives in their global slots: the
reference-counting VM is in lock step with the same VM on pure values. -/
theorem vm_refines {U : Obj → Bool} (hU : SoundTest U) (code : List Instr) (tid : Nat) (fast : List Bool) (n : Nat) :
    (vm.runM U vmDepth n (vmStart code tid fast) (runWith U {} primOps)).1
      = (vm.runS vmDepth n (vmStart code tid fast) (runS [] primOps)).1 ∧
    Inv (vm.runM U vmDepth n (vmStart code tid fast) (runWith U {} primOps)).2 ∧
    Agree (vm.runM U vmDepth n (vmStart code tid fast) (runWith U {} primOps)).2
      (vm.runS vmDepth n (vmStart code tid fast) (runS [] primOps)).2 :=
  program_refines vm hU vmDepth primOps n _

/-- … and for every initial control state whatsoever (any oracle `arms` for the alternative in-place arm of `hash-union`,
any pre-existing closure table, a thread in the middle of a computation) -/
theorem vm_refines_from {U : Obj → Bool} (hU : SoundTest U) (k : VK) (n : Nat) :
    (vm.runM U vmDepth n k (runWith U {} primOps)).1 = (vm.runS vmDepth n k (runS [] primOps)).1 ∧
    Inv (vm.runM U vmDepth n k (runWith U {} primOps)).2 ∧
    Agree (vm.runM U vmDepth n k (runWith U {} primOps)).2 (vm.runS vmDepth n k (runS [] primOps)).2 :=
  program_refines vm hU vmDepth primOps n k

/-- For every program of the lowered core (`C01C.Core`: locals by offset WITH the last-usage flags of
`analysis.rs` — `loc i true` compiles to MOVEREADLOCAL —, closures with capture lists, calls, tail calls, `let`,
`set!`, `define`), compiled by the code generator that C01 proves correct: running it with in-place-if-unique
primitives and with always-copy primitives gives the same control state after every number of steps (same
termination, same error, same stack height) and the same value in every stack slot, global and frame. -/
theorem core_program_inplace_unobservable (e : Core) (n : Nat) :
    let a := vm.runM rcIsOne vmDepth n (vmStart (compileTop e)) (run {} primOps)
    let b := vm.runM neverUnique vmDepth n (vmStart (compileTop e)) (runWith neverUnique {} primOps)
    a.1 = b.1 ∧ ∀ h, (get a.2.hold h = none ↔ get b.2.hold h = none) ∧
      ∀ v w, get a.2.hold h = some v → get b.2.hold h = some w → ∃ t, Rep a.2.store v t ∧ Rep b.2.store w t :=
  program_inplace_eq_copy vm rcIsOne_sound vmDepth primOps n _

/-! ### threads -/

/-- Several VM threads (each with its own stack, frames and scratch holders; the global slots are shared: a value
bound to a global by one thread is read — cloned — by another) interleaved at instruction granularity by an
ARBITRARY schedule: lock step with S for every schedule.  (The interleaving of the count operations themselves,
inside one clone or drop, is C05's theorem; here an instruction is atomic.) -/
theorem threads_refine {U : Obj → Bool} (hU : SoundTest U) (threads : List VK) (sched : List Nat) (n : Nat) :
    (vm.par.runM U vmDepth n ⟨threads, sched⟩ (runWith U {} primOps)).1
      = (vm.par.runS vmDepth n ⟨threads, sched⟩ (runS [] primOps)).1 ∧
    Inv (vm.par.runM U vmDepth n ⟨threads, sched⟩ (runWith U {} primOps)).2 ∧
    Agree (vm.par.runM U vmDepth n ⟨threads, sched⟩ (runWith U {} primOps)).2
      (vm.par.runS vmDepth n ⟨threads, sched⟩ (runS [] primOps)).2 :=
  program_refines vm.par hU vmDepth primOps n _

/-! ### what is assumed of the persistent collection libraries -/

/-- The contract the model ASSUMES of `im-lists` (lists), `steel-imbl` / `im` (vectors, hash maps, hash sets) — it is
a specification, nothing in /verif proves it of those crates.  Handles `H` live in a library heap `S`; a handle
denotes a sequence of elements (`abs`; for a map: the sorted key/value sequence).
 * `clone` gives a new handle with the same denotation and changes no other handle (it shares nodes internally);
 * every `&mut self` operation (`push_back`, `insert`, `remove`, `cons_mut`, `append_mut`, `make_mut` on an inner
   node, …) is `mutate`: the receiver's denotation becomes `f` of the old one, and NO OTHER handle's denotation
   changes — whatever nodes the two share (the library's own `make_mut` on shared inner nodes copies them);
 * `&self` operations change nothing.
The model's object-level `Op.update` (one object per collection, in place iff unique) satisfies this contract:
that is `update_is_fresh_copy`.  Node-level sharing INSIDE a collection is not modelled. -/
structure PersistentLibSpec (S H α : Type) where
  abs : S → H → Option (List α)
  clone : S → H → S × H
  mutate : S → H → (List α → List α) → S
  clone_abs : ∀ σ h, abs σ h ≠ none → abs (clone σ h).1 (clone σ h).2 = abs σ h
  clone_frame : ∀ σ h h', abs σ h' ≠ none → abs (clone σ h).1 h' = abs σ h'
  mutate_abs : ∀ σ h f xs, abs σ h = some xs → abs (mutate σ h f) h = some (f xs)
  mutate_frame : ∀ σ h f h', h' ≠ h → abs (mutate σ h f) h' = abs σ h'

/-- the contract is consistent: handles that are plain values (every clone a copy) satisfy it -/
def copyingLib (α : Type) : PersistentLibSpec (List (List α)) Nat α where
  abs := fun σ h => σ[h]?
  clone := fun σ h => (σ ++ [σ.getD h []], σ.length)
  mutate := fun σ h f => match σ[h]? with | some xs => σ.set h (f xs) | none => σ
  clone_abs := by
    intro σ h hne
    simp only [List.getD_eq_getElem?_getD, List.getElem?_append_right (Nat.le_refl _), Nat.sub_self,
      List.getElem?_cons_zero]
    cases hh : σ[h]? with
    | none => exact absurd hh hne
    | some xs => simp
  clone_frame := by
    intro σ h h' hne
    have : h' < σ.length := by
      cases hh : σ[h']? with
      | none => exact absurd hh hne
      | some _ => exact (List.getElem?_eq_some_iff.mp hh).1
    simp [List.getElem?_append_left this]
  mutate_abs := by
    intro σ h f xs hx
    have : h < σ.length := (List.getElem?_eq_some_iff.mp hx).1
    simp [hx, List.getElem?_set_self this]
  mutate_frame := by
    intro σ h f h' hne
    cases hh : σ[h]? with
    | none => rfl
    | some xs => simp [List.getElem?_set_ne (Ne.symm hne)]

/-! ### the primitive table -/

/-- `plan` names as the target of a functional update (`Plan.upd`) only the argument `PrimOp.inPlaceArg` lists — the
table that `GenInPlace.stolen_args_match_model` compares with the source of /repo, primitive by primitive. -/
theorem plan_upd_target (p : PrimOp) (args : List Arg) (j k : Nat) (srcs : List Src)
    (h : plan p args = .upd j k srcs) : p.inPlaceArg = some j := by
  cases p <;> simp only [plan] at h <;> (repeat' split at h) <;> first | (cases h; rfl) | cases h

/-- non-vacuity (applied): `(cons 0 xs)` updates its SECOND argument, `(hash-insert m 1 2)` its first -/
example : PrimOp.cons.inPlaceArg = some 1 :=
  plan_upd_target .cons [.lit 0, .held 3 (.node 1 [.atom 1])] 1 1 [.lit 0, .old 0] rfl
example : PrimOp.hins.inPlaceArg = some 0 :=
  plan_upd_target .hins [.held 3 (.node 4 []), .lit 1, .lit 2] 0 4 [.lit 1, .lit 2] rfl

/-! ### non-vacuity: compiled programs on which the two paths really differ -/

/-- `(let ((x (list 1))) (push-back x 2))` with the use of `x` marked as the last one (`mv = true`:
MOVEREADLOCAL) or not (READLOCAL) -/
def progMove (mv : Bool) : Core :=
  .let_ 0 [.callG (gOf .list) [.const (.int 1)]] (.callG (gOf .pushBack) [.loc 0 mv, .const (.int 2)])

/-- `(let ((x (list 1))) (let ((f (lambda (y) (push-back x y)))) (f 7) (push-back x 9)))`: the closure `f` captured
`x` (COPYCAPTURESTACK), so the last, moved use of `x` still finds the list shared -/
def progClosure : Core :=
  .let_ 0 [.callG (gOf .list) [.const (.int 1)]]
    (.let_ 1 [.lam 1 false [.stack 0] (.callG (gOf .pushBack) [.cap 0, .loc 0 true])]
      (.seq (.app (.loc 1 false) [.const (.int 7)]) (.callG (gOf .pushBack) [.loc 0 true, .const (.int 9)])))

/-- `(let* ((x (list 1)) (r (call/cc (lambda (k) (set! G k) 0))) (y (push-back x 2))) (if (= r 0) (G 5) y))`: the
continuation captured the stack slot of `x`; it is re-entered after `x` was "consumed" by `push-back` at its
last use -/
def progKont : Core :=
  .let_ 0 [.callG (gOf .list) [.const (.int 1)]]
    (.let_ 1 [.callG VPrim.callcc.code [.lam 1 false [] (.seq (.define 900 (.loc 0 true)) (.const (.int 0)))]]
      (.let_ 2 [.callG (gOf .pushBack) [.loc 0 true, .const (.int 2)]]
        (.ite (.callG VPrim.eq.code [.loc 1 true, .const (.int 0)]) (.callG 900 [.const (.int 5)]) (.loc 2 true))))

/-- the compiled code really contains the move op code -/
example : (compileTop (progMove true)).contains (.MOVEREADLOCAL 0) = true ∧
    (compileTop (progMove false)).contains (.MOVEREADLOCAL 0) = false := by decide +kernel

/-- non-vacuity (applied): the moving program terminates, performs one update, IN PLACE (one object ever allocated);
the copying program allocates a second object; with always-copy primitives both do; the result is `(1 2)` in all -/
example :
    (vm.runM rcIsOne vmDepth 20 (vmStart (compileTop (progMove true))) (run {} primOps)).1.status = .halted ∧
    (vm.runM rcIsOne vmDepth 20 (vmStart (compileTop (progMove true))) (run {} primOps)).1.updates = 1 ∧
    (vm.runM rcIsOne vmDepth 20 (vmStart (compileTop (progMove true))) (run {} primOps)).2.store.length = 1 ∧
    (vm.runM rcIsOne vmDepth 20 (vmStart (compileTop (progMove false))) (run {} primOps)).2.store.length = 2 ∧
    (vm.runM neverUnique vmDepth 20 (vmStart (compileTop (progMove true))) (runWith neverUnique {} primOps)).2.store.length = 2 ∧
    viewM (vm.runM rcIsOne vmDepth 20 (vmStart (compileTop (progMove true))) (run {} primOps)).2 3 (hStk 0 0)
      = some (Tree.enc (.node 1 [.atom (encInt 1), .atom (encInt 2)])) := by decide +kernel

/-- … and the theorem applied to it -/
example : (vm.runM rcIsOne vmDepth 20 (vmStart (compileTop (progMove true))) (run {} primOps)).1
    = (vm.runM neverUnique vmDepth 20 (vmStart (compileTop (progMove true))) (runWith neverUnique {} primOps)).1 :=
  (core_program_inplace_unobservable (progMove true) 20).1

/-- non-vacuity (applied): closure capture keeps the list shared: both updates copy (list, closure, two copies), the
result is `(1 9)` -/
example :
    (vm.runM rcIsOne vmDepth 60 (vmStart (compileTop progClosure)) (run {} primOps)).1.status = .halted ∧
    (vm.runM rcIsOne vmDepth 60 (vmStart (compileTop progClosure)) (run {} primOps)).1.updates = 2 ∧
    (vm.runM rcIsOne vmDepth 60 (vmStart (compileTop progClosure)) (run {} primOps)).2.store.length = 4 ∧
    viewM (vm.runM rcIsOne vmDepth 60 (vmStart (compileTop progClosure)) (run {} primOps)).2 3 (hStk 0 0)
      = some (Tree.enc (.node 1 [.atom (encInt 1), .atom (encInt 9)])) := by decide +kernel

/-- `(let ((l (hash 1 10))) (hash-union l (hash 1 20 2 30)))` with `l` NOT at its last use: the left map is shared,
the right one is a temporary -/
def progUnion : Core :=
  .let_ 0 [.callG (gOf .hash) [.const (.int 1), .const (.int 10)]]
    (.callG (gOf .hunion) [.loc 0 false,
      .callG (gOf .hash) [.const (.int 1), .const (.int 20), .const (.int 2), .const (.int 30)]])

/-- non-vacuity (applied) of the alternative arm of `hash-union` (`VK.arms`): when it is taken the RIGHT map is updated in place
(two objects ever allocated), otherwise the shared left map is copied (three); the result is `{1:10 2:30}` (the left
value wins) in both, and `vm_refines` covers both choices (the oracle is part of the control state) -/
example :
    (vm.runM rcIsOne vmDepth 40 { code := compileTop progUnion, arms := [true] } (run {} primOps)).2.store.length = 2 ∧
    (vm.runM rcIsOne vmDepth 40 { code := compileTop progUnion, arms := [] } (run {} primOps)).2.store.length = 3 ∧
    viewM (vm.runM rcIsOne vmDepth 40 { code := compileTop progUnion, arms := [true] } (run {} primOps)).2 3 (hStk 0 0)
      = some (Tree.enc (.node 4 [.atom (encInt 1), .atom (encInt 10), .atom (encInt 2), .atom (encInt 30)])) ∧
    viewM (vm.runM rcIsOne vmDepth 40 { code := compileTop progUnion, arms := [] } (run {} primOps)).2 3 (hStk 0 0)
      = some (Tree.enc (.node 4 [.atom (encInt 1), .atom (encInt 10), .atom (encInt 2), .atom (encInt 30)])) := by decide +kernel

/-- `vm_inplace_unsound_if_count_wrong`: the theorem is not vacuous for programs either.  With a test that ignores
the count, the continuation of `progKont` observes the update made before it was re-entered: the program returns
`(1 2 2)`; S says `(1 2)`, and so does the VM with the test of the code that exists. -/
theorem vm_inplace_unsound_if_count_wrong :
    viewM (vm.runM alwaysUnique vmDepth 80 (vmStart (compileTop progKont)) (runWith alwaysUnique {} primOps)).2 3 (hStk 0 0)
      = some (Tree.enc (.node 1 [.atom (encInt 1), .atom (encInt 2), .atom (encInt 2)])) ∧
    viewS (vm.runS vmDepth 80 (vmStart (compileTop progKont)) (runS [] primOps)).2 (hStk 0 0)
      = some (Tree.enc (.node 1 [.atom (encInt 1), .atom (encInt 2)])) ∧
    viewM (vm.runM rcIsOne vmDepth 80 (vmStart (compileTop progKont)) (run {} primOps)).2 3 (hStk 0 0)
      = some (Tree.enc (.node 1 [.atom (encInt 1), .atom (encInt 2)])) ∧
    (vm.runM rcIsOne vmDepth 80 (vmStart (compileTop progKont)) (run {} primOps)).1.status = .halted := by
  decide +kernel

/-- two threads: thread 0 binds a list to global 900 and later rebinds the global; thread 1 reads the global and
updates what it read -/
def thread0 : VK :=
  vmStart (compileTop (.seq (.define 900 (.callG (gOf .list) [.const (.int 1)])) (.define 900 (.const (.int 0))))) 0
def thread1 : VK := vmStart (compileTop (.callG (gOf .pushBack) [.glob 900, .const (.int 2)])) 1
/-- thread 1 reads the global, thread 0 lets go of it, thread 1 updates: the value another thread created is unique -/
def schedHandOver : List Nat := List.replicate 7 0 ++ [1] ++ List.replicate 20 0 ++ List.replicate 20 1
/-- thread 1 reads and updates while thread 0 still holds the value -/
def schedShared : List Nat := List.replicate 7 0 ++ List.replicate 20 1 ++ List.replicate 20 0

/-- non-vacuity (applied): under the first schedule the update of thread 1 runs in place (one object), under the
second it copies (two objects); thread 1 ends with `(1 2)` under both -/
example :
    (vm.par.runM rcIsOne vmDepth 60 ⟨[thread0, thread1], schedHandOver⟩ (run {} primOps)).2.store.length = 1 ∧
    (vm.par.runM rcIsOne vmDepth 60 ⟨[thread0, thread1], schedShared⟩ (run {} primOps)).2.store.length = 2 ∧
    viewM (vm.par.runM rcIsOne vmDepth 60 ⟨[thread0, thread1], schedHandOver⟩ (run {} primOps)).2 3 (hStk 1 0)
      = some (Tree.enc (.node 1 [.atom (encInt 1), .atom (encInt 2)])) ∧
    viewM (vm.par.runM rcIsOne vmDepth 60 ⟨[thread0, thread1], schedShared⟩ (run {} primOps)).2 3 (hStk 1 0)
      = some (Tree.enc (.node 1 [.atom (encInt 1), .atom (encInt 2)])) := by decide +kernel

end SteelVerif.C03
