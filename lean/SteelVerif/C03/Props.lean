/-
C03 — the property theorems.

Reading guide.  `runWith U s ops` is the mechanism M (reference-counted store, in-place update when the
uniqueness test `U` of the object says so), `runS hs ops` the specification S (holders map to pure
trees, an update rebinds only the updating holder).  `Agree s hs` = every holder is bound in M exactly
when it is bound in S, and what it holds in M unfolds (`Rep`) to the tree it has in S.
`Inv s` = every object's count equals the number of references to it.
-/
import SteelVerif.C03.LemmasRun
namespace SteelVerif.C03

/-! ### programs used by the non-vacuity examples -/

/-- a list `[1]` (kind 7) held by holders 0 and 1; holder 0 is updated to `[1, 2]` -/
def witnessOps : List Op :=
  [.new 0 7 [.lit 1], .alias 1 0, .update 0 7 [.old 0, .lit 2] true]

/-- the first two operations of `witnessOps`: the list exists and is shared by holders 0 and 1 -/
def sharedOps : List Op := [.new 0 7 [.lit 1], .alias 1 0]

/-- non-vacuity of the in-place path: when the alias has been dropped (or moved: last use) the update of
the code that exists DOES run in place (no new object is allocated: the store keeps its length), and the
view is still the one of S -/
def inplaceOps : List Op :=
  [.new 0 7 [.lit 1], .alias 1 0, .drop 1, .update 0 7 [.old 0, .lit 2] true]

/-- nested values: a container (kind 9) holding the list; the list is then updated through a holder
obtained by `get` (a derived value: `car`, `hash-ref`, `vector-ref`): the container is unaffected -/
def nestedOps : List Op :=
  [.new 0 7 [.lit 1], .new 1 9 [.hold 0, .lit 5], .drop 0, .get 2 1 0, .update 2 7 [.old 0, .lit 2] true]

/-! ### `inplace_refines_persistent` -/

/-- For every operation list, from the empty state: after every step (the statement is for every list,
hence for every prefix) the counts are exact and every holder observes in M exactly the pure value the
persistent semantics gives it — whatever the sharing between holders, whichever uses are last uses
(`move`), whichever updates take the in-place path (`fast` flags, any sound uniqueness test `U`). -/
theorem inplace_refines_persistent {U : Obj → Bool} (hU : SoundTest U) (ops : List Op) :
    Inv (runWith U {} ops) ∧ Agree (runWith U {} ops) (runS [] ops) :=
  let ⟨a, b, _⟩ := run_refines hU ops {} [] inv_init agree_init rfl
  ⟨a, b⟩

/-- non-vacuity (applied): the test of the code that exists is sound; a shared list updated through one of its
holders, a nested container updated through a derived value, an update that does run in place -/
example : Inv (run {} witnessOps) ∧ Agree (run {} witnessOps) (runS [] witnessOps) :=
  inplace_refines_persistent rcIsOne_sound witnessOps
example : Inv (run {} nestedOps) ∧ Agree (run {} nestedOps) (runS [] nestedOps) :=
  inplace_refines_persistent rcIsOne_sound nestedOps
example : Inv (run {} inplaceOps) ∧ Agree (run {} inplaceOps) (runS [] inplaceOps) :=
  inplace_refines_persistent rcIsOne_sound inplaceOps

/-- ... and no release is ever left pending: when the next operation performs its uniqueness test, every
count is exactly the number of holders and slots that refer to the object -/
theorem counts_exact {U : Obj → Bool} (hU : SoundTest U) (ops : List Op) (o : Nat) :
    rcOf (runWith U {} ops).store o = cntHold o (runWith U {} ops).hold + cntStore o (runWith U {} ops).store := by
  obtain ⟨hI, _, hp⟩ := run_refines hU ops {} [] inv_init agree_init rfl
  have := hI o
  rw [hp] at this
  simpa [cntPend] using this

/-- non-vacuity (applied): while the alias is alive the count of the list is 2 = two holders, no slot -/
example : rcOf (run {} sharedOps).store 0 = cntHold 0 (run {} sharedOps).hold + cntStore 0 (run {} sharedOps).store :=
  counts_exact rcIsOne_sound sharedOps 0
example : rcOf (run {} sharedOps).store 0 = 2 ∧ cntHold 0 (run {} sharedOps).hold = 2 := by decide
/-- … and inside a container it is 1 = one slot, no holder (`nestedOps` before the `get`) -/
example : rcOf (run {} (nestedOps.take 3)).store 0 = 1 ∧ cntStore 0 (run {} (nestedOps.take 3)).store = 1 := by decide

/-- the same for the test the code uses (`rc = 1`), from any consistent state -/
theorem inplace_refines_persistent_from {s : State} {hs : SHolders} (hI : Inv s) (hA : Agree s hs)
    (hp : s.pend = []) (ops : List Op) :
    Inv (run s ops) ∧ Agree (run s ops) (runS hs ops) :=
  let ⟨a, b, _⟩ := run_refines rcIsOne_sound ops s hs hI hA hp
  ⟨a, b⟩

/-- non-vacuity (applied): started from the reachable state in which the list is shared (all three hypotheses
instantiated by the theorems above), the update refines S -/
example : Agree (run (run {} sharedOps) [.update 0 7 [.old 0, .lit 2] true])
    (runS (runS [] sharedOps) [.update 0 7 [.old 0, .lit 2] true]) :=
  (inplace_refines_persistent_from (inplace_refines_persistent rcIsOne_sound sharedOps).1
    (inplace_refines_persistent rcIsOne_sound sharedOps).2 (by decide) _).2

mutual
theorem unfold_of_Rep {st : Store} : ∀ (v : Val) (t : Tree), Rep st v t → ∀ m, t.depth ≤ m → unfold st m v = some t
  | .atom a, .atom b, hr, m, _ => by
    simp only [Rep] at hr; subst hr
    cases m <;> rfl
  | .ref o, .node k cs, hr, m, hm => by
    simp only [Rep] at hr
    obtain ⟨ob, hg, hk, hl⟩ := hr
    cases m with
    | zero => simp [Tree.depth] at hm
    | succ m =>
      simp only [unfold, hg]
      rw [collect_of_RepL ob.slots cs hl m (by simp only [Tree.depth] at hm; omega)]
      simp [hk]
  | .atom _, .node _ _, hr, _, _ => by simp [Rep] at hr
  | .ref _, .atom _, hr, _, _ => by simp [Rep] at hr
theorem collect_of_RepL {st : Store} : ∀ (vs : List Val) (ts : List Tree), RepL st vs ts →
    ∀ m, Tree.depthL ts ≤ m → collect (fun v => unfold st m v) vs = some ts
  | [], [], _, _, _ => rfl
  | v :: vs, t :: ts, hr, m, hm => by
    simp only [RepL] at hr
    simp only [Tree.depthL] at hm
    simp only [collect]
    rw [unfold_of_Rep v t hr.1 m (by omega), collect_of_RepL vs ts hr.2 m (by omega)]
  | [], _ :: _, hr, _, _ => by simp [RepL] at hr
  | _ :: _, [], hr, _, _ => by simp [RepL] at hr
end

/-- `view_M h = view_S h`, as a computed equality: unfolding what holder `h` holds in the store of M,
with any depth bound that is large enough, yields exactly the tree S gives to `h`. -/
theorem view_eq {U : Obj → Bool} (hU : SoundTest U) (ops : List Op) (h : Nat) (t : Tree)
    (ht : get (runS [] ops) h = some t) :
    ∀ m, t.depth ≤ m → viewM (runWith U {} ops) m h = viewS (runS [] ops) h := by
  intro m hm
  obtain ⟨_, hA⟩ := inplace_refines_persistent hU ops
  cases hv : get (runWith U {} ops).hold h with
  | none => have := (hA h).1.mp hv; rw [this] at ht; cases ht
  | some v =>
    have := (hA h).2 v t hv ht
    simp [viewM, viewS, hv, ht, unfold_of_Rep v t this m hm]

/-- non-vacuity (applied): the alias (holder 1) of `witnessOps` still sees `[1]`, the container of `nestedOps`
still sees `((1) 5)`, with a depth bound above the depth of the tree -/
example : viewM (run {} witnessOps) 5 1 = viewS (runS [] witnessOps) 1 :=
  view_eq rcIsOne_sound witnessOps 1 (.node 7 [.atom 1]) rfl 5 (by decide)
example : viewM (run {} nestedOps) 2 1 = viewS (runS [] nestedOps) 1 :=
  view_eq rcIsOne_sound nestedOps 1 (.node 9 [.node 7 [.atom 1], .atom 5]) rfl 2 (by decide)

/-- the same holders are bound in M and in S -/
theorem bound_eq {U : Obj → Bool} (hU : SoundTest U) (ops : List Op) (h : Nat) :
    get (runWith U {} ops).hold h = none ↔ get (runS [] ops) h = none :=
  ((inplace_refines_persistent hU ops).2 h).1

/-- non-vacuity (applied): holder 0 of `nestedOps` was dropped, holder 7 never existed -/
example : get (run {} nestedOps).hold 0 = none ∧ get (run {} nestedOps).hold 7 = none :=
  ⟨(bound_eq rcIsOne_sound nestedOps 0).2 rfl, (bound_eq rcIsOne_sound nestedOps 7).2 rfl⟩

/-! ### `update_is_fresh_copy` -/

/-- A functional update returns the update applied to a fresh copy, on either path: afterwards the
updating holder unfolds to `node k (new children computed from the OLD pure value)`, and every other
holder still unfolds to the pure value it had. -/
theorem update_is_fresh_copy {U : Obj → Bool} (hU : SoundTest U) {s : State} {hs : SHolders}
    (hI : Inv s) (hA : Agree s hs) (h k : Nat) (srcs : List Src) (fast : Bool)
    {k0 : Nat} {cs : List Tree} (ht : get hs h = some (.node k0 cs)) :
    let s' := stepWith U s (.update h k srcs fast)
    (∃ v, get s'.hold h = some v ∧ Rep s'.store v (.node k (srcs.map (resolveS hs h cs)))) ∧
    (∀ j t, j ≠ h → get hs j = some t → ∃ v, get s'.hold j = some v ∧ Rep s'.store v t) := by
  intro s'
  obtain ⟨_, hA', _⟩ := step_refines hU hI hA (.update h k srcs fast)
  have hS : stepS hs (.update h k srcs fast) = put hs h (some (.node k (srcs.map (resolveS hs h cs)))) := by
    simp [stepS, ht]
  rw [hS] at hA'
  constructor
  · have := hA' h
    rw [get_put_eq] at this
    cases hv : get s'.hold h with
    | none => have := this.1.mp hv; cases this
    | some v => exact ⟨v, rfl, this.2 v _ hv rfl⟩
  · intro j t hj htj
    have := hA' j
    rw [get_put_ne _ _ _ _ (Ne.symm hj)] at this
    cases hv : get s'.hold j with
    | none => have := this.1.mp hv; rw [this] at htj; cases htj
    | some v => exact ⟨v, rfl, this.2 v t hv htj⟩

/-- non-vacuity (applied, every hypothesis instantiated on the reachable state in which the list `[1]` is shared by
holders 0 and 1): after `update 0` the updating holder unfolds to `[1, 2]` and the alias still to `[1]` -/
example : ∃ v, get (step (run {} sharedOps) (.update 0 7 [.old 0, .lit 2] true)).hold 0 = some v ∧
    Rep (step (run {} sharedOps) (.update 0 7 [.old 0, .lit 2] true)).store v (.node 7 [.atom 1, .atom 2]) :=
  (update_is_fresh_copy rcIsOne_sound (inplace_refines_persistent rcIsOne_sound sharedOps).1
    (inplace_refines_persistent rcIsOne_sound sharedOps).2 0 7 [.old 0, .lit 2] true
    (k0 := 7) (cs := [.atom 1]) rfl).1
example : ∃ v, get (step (run {} sharedOps) (.update 0 7 [.old 0, .lit 2] true)).hold 1 = some v ∧
    Rep (step (run {} sharedOps) (.update 0 7 [.old 0, .lit 2] true)).store v (.node 7 [.atom 1]) :=
  (update_is_fresh_copy rcIsOne_sound (inplace_refines_persistent rcIsOne_sound sharedOps).1
    (inplace_refines_persistent rcIsOne_sound sharedOps).2 0 7 [.old 0, .lit 2] true
    (k0 := 7) (cs := [.atom 1]) rfl).2 1 _ (by decide) rfl

/-- in particular the two paths are indistinguishable: same pure value for every holder -/
theorem inplace_and_copy_agree {U : Obj → Bool} (hU : SoundTest U) {s : State} {hs : SHolders}
    (hI : Inv s) (hA : Agree s hs) (h k : Nat) (srcs : List Src) :
    Agree (stepWith U s (.update h k srcs true)) (stepS hs (.update h k srcs false)) ∧
    Agree (stepWith U s (.update h k srcs false)) (stepS hs (.update h k srcs false)) :=
  ⟨(step_refines hU hI hA (.update h k srcs true)).2.1, (step_refines hU hI hA (.update h k srcs false)).2.1⟩

/-- non-vacuity (applied): from the state in which the alias was dropped, where the `fast` update DOES run in
place and the other one copies -/
example : Agree (step (run {} (inplaceOps.take 3)) (.update 0 7 [.old 0, .lit 2] true))
      (stepS (runS [] (inplaceOps.take 3)) (.update 0 7 [.old 0, .lit 2] false)) ∧
    Agree (step (run {} (inplaceOps.take 3)) (.update 0 7 [.old 0, .lit 2] false))
      (stepS (runS [] (inplaceOps.take 3)) (.update 0 7 [.old 0, .lit 2] false)) :=
  inplace_and_copy_agree rcIsOne_sound (inplace_refines_persistent rcIsOne_sound _).1
    (inplace_refines_persistent rcIsOne_sound _).2 0 7 [.old 0, .lit 2]
example : (step (run {} (inplaceOps.take 3)) (.update 0 7 [.old 0, .lit 2] true)).store.length = 1 ∧
    (step (run {} (inplaceOps.take 3)) (.update 0 7 [.old 0, .lit 2] false)).store.length = 2 := by decide

/-! ### `last_use_move_safe` -/

def Src.mentions (x : Nat) : Src → Bool
  | .old _ => false
  | .lit _ => false
  | .hold h => h == x
  | .slot h _ => h == x

/-- the operation names holder `x` (as target or as source) -/
def Op.mentions (x : Nat) : Op → Bool
  | .lit h _ => h == x
  | .alias h' h => h' == x || h == x
  | .move h' h => h' == x || h == x
  | .drop h => h == x
  | .get h' h _ => h' == x || h == x
  | .new h _ srcs => h == x || srcs.any (Src.mentions x)
  | .update h _ srcs _ => h == x || srcs.any (Src.mentions x)

/-- two holder maps that differ at most at `x` -/
def EqExcept (x : Nat) (a b : SHolders) : Prop := ∀ j, j ≠ x → get a j = get b j

theorem resolveS_eqExcept {x : Nat} {a b : SHolders} (he : EqExcept x a b) (self : Nat) (olds : List Tree)
    (src : Src) (hm : src.mentions x = false) : resolveS a self olds src = resolveS b self olds src := by
  cases src with
  | old i => rfl
  | lit v => rfl
  | hold h =>
    have : h ≠ x := by simpa [Src.mentions] using hm
    simp [resolveS, sholdVal, he h this]
  | slot h i =>
    have : h ≠ x := by simpa [Src.mentions] using hm
    simp [resolveS, sholdVal, he h this]

theorem map_resolveS_eqExcept {x : Nat} {a b : SHolders} (he : EqExcept x a b) (self : Nat) (olds : List Tree) :
    ∀ (srcs : List Src), srcs.any (Src.mentions x) = false →
      srcs.map (resolveS a self olds) = srcs.map (resolveS b self olds)
  | [], _ => rfl
  | src :: srcs, hm => by
    simp only [List.any_cons, Bool.or_eq_false_iff] at hm
    simp only [List.map]
    rw [resolveS_eqExcept he self olds src hm.1, map_resolveS_eqExcept he self olds srcs hm.2]

theorem eqExcept_put {x : Nat} {a b : SHolders} (he : EqExcept x a b) (h : Nat) (u w : Option Tree) (huw : u = w) :
    EqExcept x (put a h u) (put b h w) := by
  intro j hj; subst huw
  simp only [get_put]; split
  · rfl
  · exact he j hj

theorem stepS_eqExcept {x : Nat} {a b : SHolders} (he : EqExcept x a b) (op : Op) (hm : op.mentions x = false) :
    EqExcept x (stepS a op) (stepS b op) := by
  cases op with
  | lit h v => exact eqExcept_put he h _ _ rfl
  | alias h' h =>
    simp only [Op.mentions, Bool.or_eq_false_iff, beq_eq_false_iff_ne] at hm
    simp only [stepS]; split
    · exact he
    · exact eqExcept_put he h' _ _ (by simp [sholdVal, he h hm.2])
  | move h' h =>
    simp only [Op.mentions, Bool.or_eq_false_iff, beq_eq_false_iff_ne] at hm
    simp only [stepS]; split
    · exact he
    · exact eqExcept_put (eqExcept_put he h' _ _ (he h hm.2)) h _ _ rfl
  | drop h => exact eqExcept_put he h _ _ rfl
  | get h' h i =>
    simp only [Op.mentions, Bool.or_eq_false_iff, beq_eq_false_iff_ne] at hm
    simp only [stepS]; split
    · exact he
    · exact eqExcept_put he h' _ _ (by simp [sholdVal, he h hm.2])
  | new h k srcs =>
    simp only [Op.mentions, Bool.or_eq_false_iff, beq_eq_false_iff_ne] at hm
    exact eqExcept_put he h _ _ (by rw [map_resolveS_eqExcept he h [] srcs hm.2])
  | update h k srcs fast =>
    simp only [Op.mentions, Bool.or_eq_false_iff, beq_eq_false_iff_ne] at hm
    simp only [stepS]
    rw [he h hm.1]
    cases hg : get b h with
    | none => exact he
    | some t =>
      cases t with
      | atom v => exact he
      | node k0 cs => exact eqExcept_put he h _ _ (by rw [map_resolveS_eqExcept he h cs srcs hm.2])

theorem runS_eqExcept {x : Nat} : ∀ (ops : List Op) (a b : SHolders), EqExcept x a b →
    (∀ op ∈ ops, op.mentions x = false) → EqExcept x (runS a ops) (runS b ops)
  | [], _, _, he, _ => he
  | op :: ops, _, _, he, hm =>
    runS_eqExcept ops _ _ (stepS_eqExcept he op (hm op (List.mem_cons_self ..)))
      (fun o ho => hm o (List.mem_cons_of_mem _ ho))

theorem runWith_append (U : Obj → Bool) : ∀ (a b : List Op) (s : State), runWith U s (a ++ b) = runWith U (runWith U s a) b
  | [], _, _ => rfl
  | op :: a, b, s => by simp only [List.cons_append, runWith]; exact runWith_append U a b _

theorem runS_append : ∀ (a b : List Op) (hs : SHolders), runS hs (a ++ b) = runS (runS hs a) b
  | [], _, _ => rfl
  | op :: a, b, hs => by simp only [List.cons_append, runS]; exact runS_append a b _

/-- Moving a value out of a holder at its last use instead of copying it changes nothing that is
observed later: if the rest of the program never names holder `h` again, then after the rest every
other holder unfolds — in the run that MOVED and in the run that COPIED — to one and the same pure value
(the one S computes for the copying program).  So whether the compiler marks a use as the last one
is unobservable, and with it whether a later update finds count 1 and runs in place. -/
theorem last_use_move_safe {U : Obj → Bool} (hU : SoundTest U) (pre rest : List Op) (h' h : Nat)
    (hbound : get (runS [] pre) h ≠ none)
    (hrest : ∀ op ∈ rest, op.mentions h = false) (j : Nat) (hj : j ≠ h) (t : Tree)
    (ht : get (runS [] (pre ++ .alias h' h :: rest)) j = some t) :
    (∃ v, get (runWith U {} (pre ++ .move h' h :: rest)).hold j = some v ∧
      Rep (runWith U {} (pre ++ .move h' h :: rest)).store v t) ∧
    (∃ v, get (runWith U {} (pre ++ .alias h' h :: rest)).hold j = some v ∧
      Rep (runWith U {} (pre ++ .alias h' h :: rest)).store v t) := by
  -- S: the two programs agree except at h
  have hS : EqExcept h (runS [] (pre ++ .move h' h :: rest)) (runS [] (pre ++ .alias h' h :: rest)) := by
    rw [runS_append, runS_append]
    simp only [runS]
    apply runS_eqExcept rest _ _ _ hrest
    intro i hi
    simp only [stepS]
    by_cases e : h' = h
    · simp [e]
    · simp only [e, if_false]
      rw [get_put_ne _ _ _ _ (Ne.symm hi)]
      simp only [get_put]; split
      · cases hg : get (runS [] pre) h with
        | none => exact absurd hg hbound
        | some u => simp [sholdVal, hg]
      · rfl
  have hm : get (runS [] (pre ++ .move h' h :: rest)) j = some t := by rw [hS j hj]; exact ht
  have view : ∀ (ops : List Op), get (runS [] ops) j = some t →
      ∃ v, get (runWith U {} ops).hold j = some v ∧ Rep (runWith U {} ops).store v t := by
    intro ops hg
    obtain ⟨_, hA⟩ := inplace_refines_persistent hU ops
    cases hv : get (runWith U {} ops).hold j with
    | none => have := (hA j).1.mp hv; rw [this] at hg; cases hg
    | some v => exact ⟨v, rfl, (hA j).2 v t hv hg⟩
  exact ⟨view _ hm, view _ ht⟩

/-- non-vacuity (applied, every hypothesis instantiated): `(define x (list 1))`, then `y := x` as a move resp. as
a copy, then `y` is updated and `x` is never named again: `y` unfolds to `[1, 2]` in both runs (the moving run
updates in place, the copying run allocates: the `decide`d example at the end of the file) -/
example :
    (∃ v, get (run {} ([.new 0 7 [.lit 1]] ++ .move 1 0 :: [.update 1 7 [.old 0, .lit 2] true])).hold 1 = some v ∧
      Rep (run {} ([.new 0 7 [.lit 1]] ++ .move 1 0 :: [.update 1 7 [.old 0, .lit 2] true])).store v
        (.node 7 [.atom 1, .atom 2])) ∧
    (∃ v, get (run {} ([.new 0 7 [.lit 1]] ++ .alias 1 0 :: [.update 1 7 [.old 0, .lit 2] true])).hold 1 = some v ∧
      Rep (run {} ([.new 0 7 [.lit 1]] ++ .alias 1 0 :: [.update 1 7 [.old 0, .lit 2] true])).store v
        (.node 7 [.atom 1, .atom 2])) :=
  last_use_move_safe rcIsOne_sound [.new 0 7 [.lit 1]] [.update 1 7 [.old 0, .lit 2] true] 1 0
    (by decide) (by decide) 1 (by decide) _ rfl
example : (run {} [.new 0 7 [.lit 1], .move 1 0, .update 1 7 [.old 0, .lit 2] true]).store.length = 1 ∧
    (run {} [.new 0 7 [.lit 1], .alias 1 0, .update 1 7 [.old 0, .lit 2] true]).store.length = 2 := by decide

/-! ### `inplace_unsound_if_count_wrong` — the theorem is not vacuous -/


/-- a test that ignores the count (what a forgotten `get_mut` check amounts to) -/
def alwaysUnique : Obj → Bool := fun _ => true

/-- a test that is off by one (e.g. not counting the reference of the argument slot) -/
def atMostTwo : Obj → Bool := fun ob => ob.rc ≤ 2

/-- With a wrong uniqueness test the refinement fails: the alias (holder 1) observes the update that
was meant for holder 0 only.  Hence `inplace_refines_persistent` really depends on `SoundTest`. -/
theorem inplace_unsound_if_count_wrong :
    viewM (runWith alwaysUnique {} witnessOps) 3 1 ≠ viewS (runS [] witnessOps) 1 ∧
    viewM (runWith atMostTwo {} witnessOps) 3 1 ≠ viewS (runS [] witnessOps) 1 ∧
    ¬ SoundTest alwaysUnique ∧ ¬ SoundTest atMostTwo := by
  refine ⟨by decide, by decide, ?_, ?_⟩
  · intro h; have := h ⟨0, [], 2⟩ rfl; simp at this
  · intro h; have := h ⟨0, [], 2⟩ (by decide); simp at this

/-- the same program with the test of the code that exists: both holders see what S says, and the
update did NOT run in place (the object of holder 1 is still `[1]`) -/
example : viewM (run {} witnessOps) 3 1 = viewS (runS [] witnessOps) 1 ∧
    viewM (run {} witnessOps) 3 0 = viewS (runS [] witnessOps) 0 ∧
    viewS (runS [] witnessOps) 1 = some (Tree.enc (.node 7 [.atom 1])) ∧
    viewS (runS [] witnessOps) 0 = some (Tree.enc (.node 7 [.atom 1, .atom 2])) := by decide


example : (run {} inplaceOps).store.length = 1 ∧
    viewM (run {} inplaceOps) 3 0 = viewS (runS [] inplaceOps) 0 ∧
    viewS (runS [] inplaceOps) 0 = some (Tree.enc (.node 7 [.atom 1, .atom 2])) := by decide

/-- ... and with the alias alive it does not (a second object is allocated) -/
example : (run {} witnessOps).store.length = 2 := by decide


example : viewM (run {} nestedOps) 4 1 = some (Tree.enc (.node 9 [.node 7 [.atom 1], .atom 5])) ∧
    viewM (run {} nestedOps) 4 2 = some (Tree.enc (.node 7 [.atom 1, .atom 2])) ∧
    viewM (run {} nestedOps) 4 1 = viewS (runS [] nestedOps) 1 := by decide

/-- last use: moving instead of copying lets the update run in place, with the same views -/
example : viewM (run {} [.new 0 7 [.lit 1], .move 1 0, .update 1 7 [.old 0, .lit 2] true]) 3 1
    = viewM (run {} [.new 0 7 [.lit 1], .alias 1 0, .update 1 7 [.old 0, .lit 2] true]) 3 1 := by decide

/-! ## Clauses of the property not carried by a theorem -/

/-
What the theorems say, read together.

(a) Operation lists (this file).  In the model M (a store of reference-counted objects `kind, slots, rc` with nested
references; numbered holders; operations new / lit / alias / move / drop / get / update with an in-place path guarded
by a uniqueness test) — for EVERY operation list from the empty state, every sound test (`U ob → ob.rc = 1`), every
choice of `fast` flags and of moves — after every prefix each count equals the number of references, and every holder
observes exactly the pure tree the persistent semantics S gives it (`inplace_refines_persistent`, `counts_exact`,
`view_eq`, `bound_eq`); an update yields the update applied to the old pure value and leaves every other holder's
value alone, on either path (`update_is_fresh_copy`, `inplace_and_copy_agree`); replacing a copy by a move at a use
after which the holder is not named again changes no other holder's value (`last_use_move_safe`); with an unsound
test the refinement fails (`inplace_unsound_if_count_wrong`).

(b) Programs (PropsVM.lean).  `Mach K` is ANY small-step machine whose control sees of the store only the unfolding
(to a fixed depth) of the holders it names — not identities, not counts; `mach_refines` / `program_refines`: every
program of every such machine runs in lock step on M and on S (equal control states, exact counts, equal views);
`program_inplace_eq_copy` / `program_views_eq`: in-place-if-unique primitives and always-copy primitives give the
same control state and the same value in every holder.  `vm` (VM.lean) is such a machine over the REAL op codes
(`C01C.Instr`: READLOCAL clones, MOVEREADLOCAL moves and leaves `#<void>`, argument passing moves the callee into
the frame and leaves the operands in place as the callee's locals, NEWSCLOSURE clones what it captures into the
closure object, READCAPTURED clones out of it, primitives get the operand slots and `plan` says which one they
update in place, tail calls / returns / LETENDSCOPE drop exactly the slots that die, `call/cc` clones the whole
stack into a continuation object and re-entry clones it back): `vm_refines` for every instruction sequence,
`core_program_inplace_unobservable` for every program of the lowered core compiled by the code generator C01 proves
correct, `threads_refine` for any number of VM threads sharing the globals under EVERY interleaving of their
instructions, `vm_inplace_unsound_if_count_wrong` (a continuation re-entered after a last-use update sees `(1 2 2)`
under a test that ignores the count; `(1 2)` under the real one).  `plan_upd_target` + the generated obligation
`GenInPlace.stolen_args_match_model`: the argument the model lets a primitive update is the argument whose stack slot
reaches `Gc::get_mut` / `Gc::make_mut` / the im-lists call in the source of that primitive.

(c) The uniqueness test (C05Link.lean).  `c05_unique_true_total_one`: in every state C05's model of
`steel_rc::BiasedRc` reaches under any schedule, the last load of `has_unique_ref` answers `true` only when exactly
one counted reference exists; `soundTest_of_c05` / `inplace_refines_persistent_c05`: a test that answers what C05's
machine answers at the end of the object's count history is a `SoundTest`, so (a) and (b) hold for it.

NOT carried by any theorem (covered only by the differential correspondence of checks/c03.py, or by another
property):

 * **That the real VM is `vm`**: `VM.lean` is hand-written after `vm.rs`.  It is tied to the code by executing the
   REAL compiler's listing of generated programs (with analysis.rs's last-usage marks) on it and comparing the result
   with the real VM's and with S (`bytecode family` of checks/c03.py: every listing so far is inside the model's op
   codes), and by running the abstract programs compiled through `C01C.compile` — not by proof.  Op codes outside the
   model (the ~85 specialised ones, NEWBOX/UNBOX/SETBOX: boxed variables are mutable by design, rest arguments), the
   JIT (`STEEL_JIT`: the same programs run under both settings only) and the real `call/cc` (continuation marks, open
   vs closed continuations, `dynamic-wind`) are outside; the model's `call/cc` is the specification "capture clones
   every stack slot", compared with the real engine only through the abstract `kont` programs.
 * **That the object's count history is a C05 schedule with `rc = total`** (`RcHistory.count_ok`): the product of the
   two models is not built; C03 counts in `Nat` with atomic clone/drop, C05 proves the biased two-counter protocol for
   one object.  What is proved is the implication "C05's answer `true` ⇒ `rc = 1`" given that correspondence.
 * **That the compiler's last-use analysis marks only last uses** (`analysis.rs`): a WRONG mark does not break this
   property (the slot reads `#<void>` afterwards: C01's concern; `core_program_inplace_unobservable` holds for every
   marking), but that the marks are right is not proved here.
 * **Threads below instruction granularity**: `threads_refine` interleaves whole instructions; the interleaving of
   the count operations inside a clone / drop / uniqueness test is C05's theorem (one object).  A thread-dependent
   answer of the test (a non-owner is told "shared") is the oracle `VK.fast`.  Channels are modelled as shared
   globals (a value bound by one thread, read by another); `spawn-native-thread`'s copying of the parent's state
   is not modelled.  The real engine has an open thread defect that the C03 programs hit (K03b / K15b).
 * **`#%struct-update`** has no operation in the model's table (`GenInPlace.unmodelledArms`; a directed corpus case calls
   it).  `hash-union`'s second in-place arm (left shared, right unique: the RIGHT map is updated) IS modelled, as an oracle
   (`VK.arms`, every choice covered by `vm_refines_from`); that the source takes it exactly when the left map is shared
   is not modelled (any choice is sound), and that the arm computes the left-biased union is `plan`'s table (differential;
   the seeded changes C11-n1 / C03-m2 were caught by it).
 * **Structural sharing INSIDE a collection** (im-lists nodes, `imbl` HAMT/RRB nodes, each with its own `make_mut`):
   one object per collection in the model; the contract assumed of the libraries is `PersistentLibSpec` (PropsVM.lean).
   One consequence is MEASURED (thorough tier, counter hook): `cdr` / `rest` of a uniquely held list does not release
   the removed cell (im-lists keeps it in the chunk), so an element that is a collection keeps a hidden reference while
   the shrunk list lives: the real VM then answers "shared" where the model (which counts visible references) answers
   "unique".  The difference is in the safe direction only (real unique ⇒ model unique; checked), and unobservable.
   On programs without that pattern the real answers of `Gc::get_mut` in vectors.rs / hashmaps.rs / hashsets.rs are
   the model's in-place / copy decisions, program by program.
 * **What each primitive computes** (`plan`: which rearrangement of slots `append`, `hash-union`, … perform) and the
   value kinds by name: the driver's table, compared with the real engine on every run; `equal?` / printed form of
   the real values is C11's / C12's.
-/

end SteelVerif.C03
