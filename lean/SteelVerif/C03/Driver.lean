/-
C03 driver: reads abstract alias-heavy programs (the serialisation of gen/alias03.py), compiles every
statement into operations of the model (`Op`), runs the specification S (`stepS`) and the mechanism M
(`step`, the reference-counted store with in-place updates) side by side, and prints what the Steel
rendering of the program must print according to S.

Values are the trees of S: atoms are integers; kinds: 1 list, 2 pair, 3 immutable vector,
4 hash map (slots k1 v1 k2 v2 ... sorted by key), 5 hash set (sorted), 6 string (character codes), 7 struct `rec`.

WHICH rearrangement of slots a Steel primitive performs is `plan` of PrimTable.lean; it is compared
with the real engine on every run.  Operations whose real implementation may update in place are
compiled to `Op.update` on the argument's stack slot (a temporary holder), everything else to `Op.new`.

Output per program:  \x1eB, the expected lines, \x1eS copy=.. inplace=.. moves=.. aliases=.. objects=.. , and
\x1eX <message> when the program is ill-formed or M and S disagree (never on the unchanged tree).
-/
import SteelVerif.C03.PrimTable
import SteelVerif.C03.VM
import SteelVerif.C01.BCParse
namespace SteelVerif.C03

inductive Atom where
  | name (s : String) | clo (s : String) | int (n : Int) | str (s : String)
deriving Repr, Inhabited

inductive Stmt where
  | def_ (x op : String) (args : List Atom)
  | gset (g : String) (a : Atom)
  | clo (f x : String)
  | print (tag : String) (a : Atom)
  | kont (r : String) (n : Nat)
  | loop (y op x : String) (n : Nat)
  | send (c : String) (a : Atom)
  | recv (y c : String)
  | join (t : String)
  | spawn (t : String) (chans : List String) (body : List Stmt)
deriving Inhabited

/-! ### parsing -/

def parseAtom (tok : String) : Atom :=
  if tok.startsWith "%" || tok.startsWith "&" then .clo (tok.drop 1).toString
  else if tok.startsWith "\"" then .str ((tok.drop 1).dropEnd 1).toString
  else match tok.toInt? with
    | some n => .int n
    | none => .name tok

partial def parseBlock (lines : List (List String)) (acc : Array Stmt) : Array Stmt × List (List String) :=
  match lines with
  | [] => (acc, [])
  | toks :: rest =>
    match toks with
    | ["endspawn"] => (acc, rest)
    | ["endprog"] => (acc, rest)
    | "def" :: x :: op :: args => parseBlock rest (acc.push (.def_ x op (args.map parseAtom)))
    | "set" :: x :: op :: args => parseBlock rest (acc.push (.def_ ("!" ++ x) op (args.map parseAtom)))
    | ["gset", g, a] => parseBlock rest (acc.push (.gset g (parseAtom a)))
    | ["clo", f, x] => parseBlock rest (acc.push (.clo f x))
    | ["box", b, x] => parseBlock rest (acc.push (.clo b x))
    | ["print", tag, a] => parseBlock rest (acc.push (.print tag (parseAtom a)))
    | ["kont", r, n] => parseBlock rest (acc.push (.kont r n.toNat!))
    | ["loop", y, op, x, n] => parseBlock rest (acc.push (.loop y op x n.toNat!))
    | ["send", c, a] => parseBlock rest (acc.push (.send c (parseAtom a)))
    | ["recv", y, c] => parseBlock rest (acc.push (.recv y c))
    | ["join", t] => parseBlock rest (acc.push (.join t))
    | "spawn" :: t :: chans =>
      let (body, rest') := parseBlock rest #[]
      parseBlock rest' (acc.push (.spawn t chans body.toList))
    | _ => parseBlock rest acc

/-! ### printing trees -/

partial def showTree : Tree → String
  | .atom a => toString a
  | .node 1 cs => "(" ++ " ".intercalate (cs.map showTree) ++ ")"
  | .node 2 [a, b] => "(" ++ showTree a ++ " . " ++ showTree b ++ ")"
  | .node 3 cs => "#(" ++ " ".intercalate (cs.map showTree) ++ ")"
  | .node 4 cs =>
    let rec pairs : List Tree → List String
      | k :: v :: r => (showTree k ++ ":" ++ showTree v) :: pairs r
      | _ => []
    "{" ++ " ".intercalate (pairs cs) ++ "}"
  | .node 5 cs => "#{" ++ " ".intercalate (cs.map showTree) ++ "}"
  | .node 6 cs => "\"" ++ String.ofList (cs.map (fun t => match t with | .atom a => Char.ofNat a.toNat | _ => '?')) ++ "\""
  | .node 7 [a, b] => "[" ++ showTree a ++ " " ++ showTree b ++ "]"
  | .node k cs => "<" ++ toString k ++ " " ++ " ".intercalate (cs.map showTree) ++ ">"

/-! ### the table of the Steel primitives: `PrimTable.lean` (`plan`); here by the name used in the abstract programs -/

def planS (op : String) (args : List Arg) : Plan :=
  match PrimOp.ofString op with
  | some p => plan p args
  | none => .bad ("unknown operation " ++ op)

/-! ### the interpreter -/

structure DS where
  m : State := {}
  s : SHolders := []
  names : List (String × Nat) := []
  next : Nat := 0
  out : Array String := #[]
  chans : List (String × List Nat) := []
  threads : List (String × List (String × Nat) × List Stmt) := []
  copy : Nat := 0
  inplace : Nat := 0
  moves : Nat := 0
  aliases : Nat := 0
  err : Option String := none
  assigned : List String := []    -- variables that are the target of a set!: boxed, not part of a continuation's frame
deriving Inhabited

def DS.fail (d : DS) (msg : String) : DS := if d.err.isSome then d else { d with err := some msg }

def DS.fresh (d : DS) : DS × Nat := ({ d with next := d.next + 1 }, d.next)

/-- run one operation in M and in S -/
def DS.op (d : DS) (o : Op) : DS :=
  let len := d.m.store.length
  let m' := step d.m o
  let d := { d with m := m', s := stepS d.s o }
  match o with
  | .update .. => if m'.store.length > len then { d with copy := d.copy + 1 } else { d with inplace := d.inplace + 1 }
  | .move .. => { d with moves := d.moves + 1 }
  | .alias .. => { d with aliases := d.aliases + 1 }
  | _ => d

def DS.lookup (d : DS) (x : String) : Option Nat := (d.names.find? (·.1 == x)).map (·.2)

def DS.bindName (d : DS) (x : String) : DS × Nat :=
  match d.lookup x with
  | some h => (d, h)
  | none =>
    let (d, h) := d.fresh
    ({ d with names := (x, h) :: d.names }, h)

def atomMentions (x : String) : Atom → Bool
  | .name s => s == x
  | _ => false

partial def mentions (x : String) : List Stmt → Bool
  | [] => false
  | st :: rest =>
    (match st with
      | .def_ _ _ args => args.any (atomMentions x)
      | .gset _ a => atomMentions x a
      | .clo _ y => y == x
      | .print _ a => atomMentions x a
      | .kont .. => false
      | .loop _ _ y _ => y == x
      | .send _ a => atomMentions x a
      | .recv .. => false
      | .join _ => false
      | .spawn _ _ body => mentions x body) || mentions x rest

/-- is the name a plain local (not a global cell, not a closure)? -/
def isLocal (x : String) : Bool := !(x.startsWith "g" || x.startsWith "f" || x.startsWith "k" || x.startsWith "b")

/-- evaluate an argument into a fresh temporary holder (the stack slot of the call) -/
def DS.arg (d : DS) (a : Atom) (rest : List Stmt) (sameStmtLater : Bool) : DS × Arg :=
  match a with
  | .int n => (d, .lit n)
  | .str s =>
    let (d, t) := d.fresh
    let d := d.op (.new t 6 (s.toList.map (fun c => Src.lit c.toNat)))
    (d, .held t (sholdVal d.s t))
  | .clo f =>
    match d.lookup f with
    | some h =>
      let (d, t) := d.fresh
      let d := d.op (.alias t h)
      (d, .held t (sholdVal d.s t))
    | none => (d.fail ("unbound closure " ++ f), .lit 0)
  | .name x =>
    match d.lookup x with
    | some h =>
      match get d.s h with
      | some (.atom n) => (d, .lit n)
      | some _ =>
        let (d, t) := d.fresh
        -- last use of a local: the compiler emits a move; otherwise the value is copied to the stack
        let d := if isLocal x && !sameStmtLater && !(mentions x rest) then d.op (.move t h) else d.op (.alias t h)
        (d, .held t (sholdVal d.s t))
      | none => (d.fail ("unbound " ++ x), .lit 0)
    | none => (d.fail ("unbound " ++ x), .lit 0)

def DS.args (d : DS) (as : List Atom) (rest : List Stmt) : DS × List Arg :=
  let rec go (d : DS) : List Atom → List Arg → DS × List Arg
    | [], acc => (d, acc.reverse)
    | a :: r, acc =>
      let later := match a with
        | .name x => r.any (atomMentions x)
        | _ => false
      let (d, v) := d.arg a rest later
      go d r (v :: acc)
  go d as []

def DS.dropTemps (d : DS) (args : List Arg) : DS :=
  args.foldl (fun d a => match a.holder? with | some h => d.op (.drop h) | none => d) d

/-- x := op(args) -/
def DS.define (d : DS) (x op : String) (as : List Atom) (rest : List Stmt) : DS :=
  let (d, args) := d.args as rest
  if d.err.isSome then d else
  let (d, hx) := d.bindName x
  match planS op args with
  | .bad msg => d.fail ("invalid operation " ++ op ++ ": " ++ msg)
  | .scalar n => (d.op (.lit hx n)).dropTemps args
  | .same j =>
    match (args.getD j (.lit 0)).holder? with
    | some t => (d.op (.move hx t)).dropTemps args
    | none => d.fail "same"
  | .proj j i =>
    match (args.getD j (.lit 0)).holder? with
    | some t => (d.op (.get hx t i)).dropTemps args
    | none => d.fail "proj"
  | .mk k srcs => (d.op (.new hx k srcs)).dropTemps args
  | .upd j k srcs =>
    match (args.getD j (.lit 0)).holder? with
    | some t => ((d.op (.update t k srcs true)).op (.move hx t)).dropTemps args
    | none => d.fail "upd"

def loopArgs (op : String) (acc : String) (i : Nat) : List Atom :=
  match op with
  | "hins" => [.name acc, .int i, .int i]
  | "cons" => [.int i, .name acc]
  | "spush" => [.name acc, .str "z"]
  | _ => [.name acc, .int i]

partial def exec (d : DS) : List Stmt → DS
  | [] => d
  | st :: rest =>
    if d.err.isSome then d else
    match st with
    | .def_ x op as =>
      let x := if x.startsWith "!" then (x.drop 1).toString else x
      exec (d.define x op as rest) rest
    | .gset g a =>
      let (d, v) := d.arg a rest false
      let (d, hg) := d.bindName g
      let d := match v with
        | .lit n => d.op (.lit hg n)
        | .held t _ => (d.op (.move hg t))
      exec d rest
    | .clo f x =>
      match d.lookup x with
      | some hx =>
        let (d, hf) := d.bindName f
        exec (d.op (.alias hf hx)) rest
      | none => d.fail ("unbound " ++ x)
    | .print tag a =>
      let h := match a with
        | .name x => d.lookup x
        | .clo f => d.lookup f
        | _ => none
      match h with
      | some h =>
        match get d.s h with
        | some t =>
          -- what M shows for this holder must be what S says
          let d := if viewM d.m (t.depth + 1) h == some t.enc then d else d.fail ("model and specification disagree at " ++ tag)
          exec { d with out := d.out.push (tag ++ " " ++ showTree t) } rest
        | none => d.fail ("print of an unbound holder: " ++ tag)
      | none => d.fail ("print: " ++ tag)
    | .loop y op x n =>
      let a0 := "$a" ++ toString d.next
      let d := d.define (a0 ++ "_0") "id" [.name x] rest
      let d := (List.range n).foldl (fun (d : DS) (i : Nat) =>
        d.define (a0 ++ "_" ++ toString (i + 1)) op (loopArgs op (a0 ++ "_" ++ toString i) i) []) d
      exec (d.define y "id" [.name (a0 ++ "_" ++ toString n)] []) rest
    | .kont r n =>
      -- the continuation's frame: one more holder for every local bound now
      let locals := d.names.filter (fun p => isLocal p.1 && !(d.assigned.contains p.1))
      let (d, frame) := locals.foldl (fun (acc : DS × List (String × Nat × Nat)) p =>
        let (d, k) := acc.1.fresh
        (d.op (.alias k p.2), (p.1, p.2, k) :: acc.2)) (d, [])
      let (d, hr) := d.bindName r
      let d := (List.range (n + 1)).foldl (fun (d : DS) (i : Nat) =>
        -- (re-)entry: the stack is restored from the frame
        let d := if i = 0 then d else frame.foldl (fun d p => d.op (.alias p.2.1 p.2.2)) d
        exec (d.op (.lit hr (i : Int))) rest) d
      frame.foldl (fun d p => d.op (.drop p.2.2)) d
    | .spawn t chans body =>
      -- the thread's closure: one holder per local it mentions
      let used := d.names.filter (fun p => isLocal p.1 && mentions p.1 body)
      let (d, env) := used.foldl (fun (acc : DS × List (String × Nat)) p =>
        let (d, k) := acc.1.fresh
        (d.op (.alias k p.2), (p.1, k) :: acc.2)) (d, [])
      exec { d with threads := (t, env, body) :: d.threads, chans := chans.map (fun c => (c, [])) ++ d.chans } rest
    | .send c a =>
      let (d, v) := d.arg a (.print "" a :: rest) false   -- a channel send copies
      match v with
      | .held h _ =>
        exec { d with chans := d.chans.map (fun p => if p.1 == c then (p.1, p.2 ++ [h]) else p) } rest
      | .lit n =>
        let (d, h) := d.fresh
        let d := d.op (.lit h n)
        exec { d with chans := d.chans.map (fun p => if p.1 == c then (p.1, p.2 ++ [h]) else p) } rest
    | .recv y c =>
      match (d.chans.find? (·.1 == c)).map (·.2) with
      | some (h :: q) =>
        let (d, hy) := d.bindName y
        let d := d.op (.move hy h)
        exec { d with chans := d.chans.map (fun p => if p.1 == c then (p.1, q) else p) } rest
      | _ => d.fail ("recv on an empty channel " ++ c)
    | .join t =>
      match d.threads.find? (·.1 == t) with
      | some (_, env, body) =>
        let saved := d.names
        let d := exec { d with names := env ++ d.names.filter (fun p => !isLocal p.1) } body
        -- the thread is over: its holders are released
        let mine := d.names.filter (fun p => !(saved.any (fun q => q.2 == p.2)))
        let d := mine.foldl (fun d p => d.op (.drop p.2)) d
        exec { d with names := saved, threads := d.threads.filter (·.1 != t) } rest
      | none => d.fail ("join of an unknown thread " ++ t)

partial def assignedIn : List Stmt → List String
  | [] => []
  | .def_ x _ _ :: rest => (if x.startsWith "!" then [(x.drop 1).toString] else []) ++ assignedIn rest
  | .spawn _ _ body :: rest => assignedIn body ++ assignedIn rest
  | _ :: rest => assignedIn rest

def runProgram (lines : List (List String)) : DS :=
  let (stmts, _) := parseBlock lines #[]
  exec { assigned := assignedIn stmts.toList } stmts.toList


/-! ### the same abstract programs, compiled to the lowered core and run on the VM over the real op codes

Straight-line programs (no continuation re-entry, no threads) are compiled to ONE expression of `C01C.Core`: every
`def` of a local is a `let` (the variable is the next stack slot), every use of a local is `loc i mv` with `mv` = the
last-use rule of `DS.arg` (MOVEREADLOCAL), `set` is `setLoc`, globals / closures / boxes are `define`s of global slots,
a closure is `(lambda () x)` capturing the slot of `x` (COPYCAPTURESTACK) and `%f` calls it (READCAPTURED), primitives
are called through CALLGLOBAL.  `print` is a marker (`PUSHCONST n; POPSINGLE`, n ≥ `markBase`) at which the driver
unfolds the holder of the printed variable.  The code is `C01C.compileTop` of that expression, run by `vm`
(`VM.lean`) on the reference-counted store: what it prints must be what S prints. -/

open SteelVerif.C01C (Core Instr compileTop) in
structure CEnv where
  locals : List (String × Nat) := []
  nloc : Nat := 0
  globals : List (String × Nat) := []
  prints : Array (String × Nat × Nat) := #[]     -- tag, kind (0 local slot, 1 global slot, 2 capture 0 of the closure in a global), index
  bad : Option String := none
deriving Inhabited

def markBase : Int := 1000000000000
def userGlobalBase : Nat := 500

def CEnv.glob (e : CEnv) (x : String) : CEnv × Nat :=
  match e.globals.find? (·.1 == x) with
  | some p => (e, p.2)
  | none => ({ e with globals := (x, userGlobalBase + e.globals.length) :: e.globals }, userGlobalBase + e.globals.length)

def CEnv.fail (e : CEnv) (msg : String) : CEnv := if e.bad.isSome then e else { e with bad := some msg }

open SteelVerif.C01C (Core) in
def compArg (e : CEnv) (a : Atom) (rest : List Stmt) (later : Bool) : CEnv × Core :=
  match a with
  | .int n => (e, .const (.int n))
  | .str s => (e, .callG (gOf .str) (s.toList.map (fun c => Core.const (.int c.toNat))))
  | .clo f =>
    match e.globals.find? (·.1 == f) with
    | some p => (e, .callG p.2 [])
    | none => (e.fail ("unbound closure " ++ f), .const .void)
  | .name x =>
    match e.locals.find? (·.1 == x) with
    | some p => (e, .loc p.2 (isLocal x && !later && !(mentions x rest)))
    | none =>
      match e.globals.find? (·.1 == x) with
      | some p => (e, .glob p.2)
      | none => (e.fail ("unbound " ++ x), .const .void)

open SteelVerif.C01C (Core) in
def compArgs (e : CEnv) (as : List Atom) (rest : List Stmt) : CEnv × List Core :=
  let rec go (e : CEnv) : List Atom → List Core → CEnv × List Core
    | [], acc => (e, acc.reverse)
    | a :: r, acc =>
      let later := match a with
        | .name x => r.any (atomMentions x)
        | _ => false
      let (e, c) := compArg e a rest later
      go e r (c :: acc)
  go e as []

open SteelVerif.C01C (Core) in
partial def compStmts (e : CEnv) : List Stmt → CEnv × Core
  | [] => (e, .const .void)
  | st :: rest =>
    if e.bad.isSome then (e, .const .void) else
    match st with
    | .def_ x op as =>
      let x := if x.startsWith "!" then (x.drop 1).toString else x
      match PrimOp.ofString op with
      | none => (e.fail ("unknown operation " ++ op), .const .void)
      | some p =>
        let (e, args) := compArgs e as rest
        let call := Core.callG (gOf p) args
        match e.locals.find? (·.1 == x) with
        | some q =>
          let (e, r) := compStmts e rest
          (e, .seq (.setLoc q.2 call) r)
        | none =>
          if isLocal x then
            let off := e.nloc
            let (e, r) := compStmts { e with locals := (x, off) :: e.locals, nloc := off + 1 } rest
            (e, .let_ off [call] r)
          else
            let (e, g) := e.glob x
            let (e, r) := compStmts e rest
            (e, .seq (.define g call) r)
    | .gset g a =>
      let (e, c) := compArg e a rest false
      let (e, slot) := e.glob g
      let (e, r) := compStmts e rest
      (e, .seq (.define slot c) r)
    | .clo f x =>
      match e.locals.find? (·.1 == x) with
      | some q =>
        let (e, slot) := e.glob f
        let (e, r) := compStmts e rest
        (e, .seq (.define slot (.lam 0 false [.stack q.2] (.cap 0))) r)
      | none => (e.fail ("closure over a non-local " ++ x), .const .void)
    | .print tag a =>
      let what : Option (Nat × Nat) := match a with
        | .name x =>
          match e.locals.find? (·.1 == x) with
          | some q => some (0, q.2)
          | none => (e.globals.find? (·.1 == x)).map (fun p => (1, p.2))
        | .clo f => (e.globals.find? (·.1 == f)).map (fun p => (2, p.2))
        | _ => none
      match what with
      | none => (e.fail ("print: " ++ tag), .const .void)
      | some (k, i) =>
        let idx := e.prints.size
        let (e, r) := compStmts { e with prints := e.prints.push (tag, k, i) } rest
        (e, .seq (.const (.int (markBase + idx))) r)
    | .loop .. => (e.fail "loop (expanded before compilation)", .const .void)
    | _ => (e.fail "not a straight-line program", .const .void)

/-- loops are unrolled into `def`s exactly as `exec` does -/
def expandLoops (n0 : Nat) : List Stmt → List Stmt
  | [] => []
  | .loop y op x n :: rest =>
    let a0 := "$v" ++ toString n0
    [Stmt.def_ (a0 ++ "_0") "id" [.name x]] ++
    (List.range n).map (fun i => Stmt.def_ (a0 ++ "_" ++ toString (i + 1)) op (loopArgs op (a0 ++ "_" ++ toString i) i)) ++
    [Stmt.def_ y "id" [.name (a0 ++ "_" ++ toString n)]] ++ expandLoops (n0 + 1) rest
  | st :: rest => st :: expandLoops (n0 + 1) rest

def straightLine : List Stmt → Bool
  | [] => true
  | .kont .. :: _ => false
  | .spawn .. :: _ => false
  | .send .. :: _ => false
  | .recv .. :: _ => false
  | .join _ :: _ => false
  | _ :: rest => straightLine rest

structure VmOut where
  status : String := "skip"
  steps : Nat := 0
  inplace : Nat := 0
  copy : Nat := 0
  moves : Nat := 0
  clones : Nat := 0
  lines : Array String := #[]
  err : Option String := none
  inplaceK : Array Nat := Array.replicate 8 0     -- in-place updates per kind of the updated object
  copyK : Array Nat := Array.replicate 8 0
deriving Inhabited

def VmOut.count (o : VmOut) (kind : Nat) (copied : Bool) : VmOut :=
  if copied then { o with copy := o.copy + 1, copyK := o.copyK.modify kind (· + 1) }
  else { o with inplace := o.inplace + 1, inplaceK := o.inplaceK.modify kind (· + 1) }

/-- integers back from their tagged form -/
partial def untag : Tree → Tree
  | .atom a => if a % 4 == 0 then .atom (a / 4) else .atom a
  | .node k cs => .node k (cs.map untag)

def viewTree (s : State) (h : Nat) : Option Tree :=
  match get s.hold h with
  | some v => unfold s.store 64 v
  | none => none

open SteelVerif.C01C (Instr) in
partial def vmLoop (env : CEnv) (k : VK) (s : State) (fuel : Nat) (o : VmOut) : VmOut :=
  if fuel = 0 then { o with status := "bad", err := some "vm: out of fuel" } else
  -- a print marker?
  let o := match k.status, k.code[k.ip]? with
    | .running, some (.PUSHCONST (.int n)) =>
      if n ≥ markBase then
        match env.prints[(n - markBase).toNat]? with
        | some (tag, kind, i) =>
          let t : Option Tree := match kind with
            | 0 => viewTree s (hStk 0 i)
            | 1 => viewTree s (hGlob i)
            | _ => match viewTree s (hGlob i) with
              | some (.node _ (c :: _)) => some c
              | _ => none
          match t with
          | some t => { o with lines := o.lines.push (tag ++ " " ++ showTree (untag t)) }
          | none => { o with lines := o.lines.push (tag ++ " <unbound>") }
        | none => o
      else o
    | _, _ => o
  match vm.next k ((vm.want k).map (peekM s vmDepth)) with
  | none =>
    match k.status with
    | .halted => { o with status := "ok" }
    | .error e => { o with status := "bad", err := some ("vm: " ++ reprStr e ++ " at ip " ++ toString k.ip) }
    | _ => { o with status := "bad", err := some "vm: stuck" }
  | some (ops, k') =>
    let (s', o) := ops.foldl (fun (acc : State × VmOut) op =>
      let s2 := step acc.1 op
      let o := acc.2
      let o := match op with
        | .update _ kd _ _ => o.count kd (s2.store.length > acc.1.store.length)
        | .move .. => { o with moves := o.moves + 1 }
        | .alias .. => { o with clones := o.clones + 1 }
        | .get .. => { o with clones := o.clones + 1 }
        | _ => o
      (s2, o)) (s, o)
    vmLoop env k' s' (fuel - 1) { o with steps := o.steps + 1 }

open SteelVerif.C01C (compileTop) in
def runVM (s0 : State) (stmts : List Stmt) : VmOut :=
  if !(straightLine stmts) then {} else
  let stmts := expandLoops 0 stmts
  let (env, e) := compStmts {} stmts
  match env.bad with
  | some msg => { status := "skip", err := some msg }
  | none =>
    let code := compileTop e
    vmLoop env { code := code } s0 (200 * code.length + 1000) {}

/-! ### bytecode mode: the listing of the REAL compiler, executed by the VM model

`c03driver bc` reads, per program, the listing the harness printed (`Engine::debug_build_strings`: one line per
instruction `index OPCODE : payload text`, the top-level expressions separated by `----`), turns it into
`C01C.Instr` with the reader of C01 (`C01BC.parseLine` / `toInstr`: the table in the header of C01/Core.lean),
resolves CALLGLOBAL / PUSH of a built-in BY NAME (text column) to the global slot of the model's primitive, and
runs every top-level expression on `vm` (M, the reference-counted store) and on the persistent semantics (S).
Output: the value of every top-level expression in the harness' `Display` format. -/

/-- the Steel primitive an operation of the table is (for the built-ins the listing names) -/
def steelNameOf : PrimOp → String
  | .list => "list" | .vec => "immutable-vector" | .hash => "hash" | .hashset => "hashset" | .car => "car"
  | .listTail => "list-tail" | .take => "take" | .listRef => "list-ref" | .last => "last" | .length => "length"
  | .listToVec => "list->vector" | .vecToList => "immutable-vector->list" | .vappend => "immutable-vector-append"
  | .vref => "vector-ref" | .href => "hash-ref" | .hlen => "hash-length" | .sunion => "hashset-union"
  | .sappend => "string-append" | .append3 => "" | .slen => "hashset-length"
  | p => p.steel

def builtinSlot (name : String) : Option Nat :=
  match name with
  | "+" => some VPrim.add.code | "-" => some VPrim.sub.code | "<" => some VPrim.lt.code | "=" => some VPrim.eq.code
  | _ => if name == "" then none else (PrimOp.all.find? (fun p => steelNameOf p == name)).map gOf

open SteelVerif.C01C (Instr) in
def patchGlobal (builtins : Nat) (l : SteelVerif.C01BC.Line) (i : Instr) : Except String Instr :=
  let fix (g : Nat) (mk : Nat → Instr) : Except String Instr :=
    if g < builtins then
      match builtinSlot l.text with
      | some s => .ok (mk s)
      | none => .error ("builtin:" ++ l.text)
    else .ok (mk g)
  match i with
  | .CALLGLOBAL g => fix g .CALLGLOBAL
  | .CALLGLOBALTAIL g => fix g .CALLGLOBALTAIL
  | .PUSH g => fix g .PUSH
  | .BIND g => if g < builtins then .error ("rebinding a builtin:" ++ l.text) else .ok i
  | .SET g => if g < builtins then .error ("assigning a builtin:" ++ l.text) else .ok i
  | i => .ok i

open SteelVerif.C01C (Instr) in
def bcUnit (builtins : Nat) (lines : List String) : Except (List String) (List Instr) :=
  let rm : SteelVerif.C01BC.Remap := { base := 1000000000, names := [] }
  let rec go (ls : List String) (prev2 prev : String) (acc : List Instr) (bad : List String) : List Instr × List String :=
    match ls with
    | [] => (acc.reverse, bad.reverse)
    | s :: r =>
      match SteelVerif.C01BC.parseLine s with
      | none => go r prev2 prev acc (("unreadable line: " ++ s) :: bad)
      | some l =>
        match (SteelVerif.C01BC.toInstr rm prev2 prev l).bind (patchGlobal builtins l) with
        | .ok i => go r prev l.op (i :: acc) bad
        | .error e => go r prev l.op acc (e :: bad)
  let (code, bad) := go lines "" "" [] []
  if bad.isEmpty then .ok code else .error bad

/-- `Display` of a value, as the harness prints it -/
partial def showReal : Tree → String
  | .atom a =>
    if a % 4 == 0 then toString (a / 4) else if a == 5 then "#true" else if a == 1 then "#false"
    else if a == 2 then "#<void>" else "#<procedure>"
  | .node 1 cs => "(" ++ " ".intercalate (cs.map showReal) ++ ")"
  | .node 2 [a, b] => "(" ++ showReal a ++ " . " ++ showReal b ++ ")"
  | .node 3 cs => "#(" ++ " ".intercalate (cs.map showReal) ++ ")"
  | .node k _ => if k ≥ cloBase then "#<procedure>" else "#<" ++ toString k ++ ">"

structure BcOut where
  vals : Array String := #[]
  valsS : Array String := #[]
  o : VmOut := {}
  units : Nat := 0
  err : Option String := none

/-- the S side of one unit -/
partial def vmLoopS (k : VK) (hs : SHolders) (fuel : Nat) : VK × SHolders :=
  if fuel = 0 then ({ k with status := .error .bad }, hs) else
  match vm.next k ((vm.want k).map (peekS hs vmDepth)) with
  | none => (k, hs)
  | some (ops, k') => vmLoopS k' (runS hs ops) (fuel - 1)

/-- the M side of one unit (counting the paths) -/
partial def vmLoopM (k : VK) (s : State) (fuel : Nat) (o : VmOut) : VK × State × VmOut :=
  if fuel = 0 then ({ k with status := .error .bad }, s, o) else
  match vm.next k ((vm.want k).map (peekM s vmDepth)) with
  | none => (k, s, o)
  | some (ops, k') =>
    let (s', o) := ops.foldl (fun (acc : State × VmOut) op =>
      let s2 := step acc.1 op
      let o := acc.2
      let o := match op with
        | .update _ kd _ _ => o.count kd (s2.store.length > acc.1.store.length)
        | .move .. => { o with moves := o.moves + 1 }
        | .alias .. => { o with clones := o.clones + 1 }
        | .get .. => { o with clones := o.clones + 1 }
        | _ => o
      (s2, o)) (s, o)
    vmLoopM k' s' (fuel - 1) { o with steps := o.steps + 1 }

open SteelVerif.C01C (Instr) in
def runBc (s0 : State) (hs0 : SHolders) (builtins : Nat) (units : List (List String)) : BcOut := Id.run do
  let mut out : BcOut := {}
  let mut s := s0
  let mut hs := hs0
  let mut k : VK := {}
  let mut kS : VK := {}
  for u in units do
    match bcUnit builtins u with
    | .error bad =>
      out := { out with err := some ("outside the model: " ++ ", ".intercalate bad.eraseDups) }
      break
    | .ok code =>
      let fuel := 20000
      let (k1, s1, o1) := vmLoopM { k with code := code, ip := 0, height := 0, frames := [], status := .running } s fuel out.o
      let (k2, hs1) := vmLoopS { kS with code := code, ip := 0, height := 0, frames := [], status := .running } hs fuel
      out := { out with o := o1, units := out.units + 1 }
      match k1.status, k2.status with
      | .halted, .halted =>
        let top := hStk 0 (k1.height - 1)
        let vM := (viewTree s1 top).map showReal
        let vS := ((get hs1 top).map showReal)
        out := { out with vals := out.vals.push (vM.getD "<unbound>"), valsS := out.valsS.push (vS.getD "<unbound>") }
        if vM != vS || k1.height != k2.height || k1.ip != k2.ip then
          out := { out with err := some ("M and S disagree on unit " ++ toString out.units) }
          break
        -- the value of a top-level expression is dropped before the next one runs
        s := step s1 (.drop top)
        hs := stepS hs1 (.drop top)
        k := k1
        kS := k2
      | st, _ =>
        out := { out with err := some ("vm: " ++ reprStr st ++ " at ip " ++ toString k1.ip ++ " of unit " ++ toString out.units) }
        break
  return out

def bcMain (lines : Array String) : IO Unit := do
  let s0 := run {} primOps
  let hs0 := runS [] primOps
  let mut cur : Array String := #[]
  let mut units : Array (List String) := #[]
  let mut builtins : Nat := 0
  let mut inProg := false
  for l in lines do
    if l == "bcprog" then
      cur := #[]; units := #[]; inProg := true; builtins := 0
    else if l.startsWith "builtins " then
      builtins := (l.drop 9).toString.trimAscii.toString.toNat!
    else if l == "endbcprog" then
      inProg := false
      let r := runBc s0 hs0 builtins units.toList
      IO.println "\x1eB"
      IO.println ("R " ++ "\x1f".intercalate r.vals.toList)
      IO.println s!"\x1eS vmok={if r.err.isNone then 1 else 0} units={r.units} vmsteps={r.o.steps} vminplace={r.o.inplace} vmcopy={r.o.copy} vmmoves={r.o.moves} vmclones={r.o.clones} vecU={r.o.inplaceK[3]!} vecS={r.o.copyK[3]!} mapU={r.o.inplaceK[4]!} mapS={r.o.copyK[4]!} setU={r.o.inplaceK[5]!} setS={r.o.copyK[5]!} strU={r.o.inplaceK[6]!} strS={r.o.copyK[6]!}"
      match r.err with
      | some e => IO.println ("\x1eX " ++ e)
      | none => pure ()
    else if inProg then
      if l == "----" then
        units := units.push cur.toList
        cur := #[]
      else if l.trimAscii.toString != "" then
        cur := cur.push l

partial def readAll (h : IO.FS.Stream) (acc : Array String) : IO (Array String) := do
  let l ← h.getLine
  if l.isEmpty then return acc else readAll h (acc.push (l.dropEndWhile (fun c => c == '\n' || c == '\r')).toString)

end SteelVerif.C03

open SteelVerif.C03 in
def main (args : List String) : IO Unit := do
  let stdin ← IO.getStdin
  let lines ← readAll stdin #[]
  if args == ["bc"] then
    bcMain lines
    return
  let mut cur : Array (List String) := #[]
  let mut inProg := false
  let s0 := run {} primOps
  for l in lines do
    let toks := (l.splitOn " ").filter (· ≠ "")
    if toks == ["prog"] then
      cur := #[]
      inProg := true
    else if toks == ["endprog"] then
      inProg := false
      let d := runProgram cur.toList
      let (stmts, _) := parseBlock cur.toList #[]
      let v := if d.err.isSome then ({} : VmOut) else runVM s0 stmts.toList
      -- the VM must print what S prints
      let verr : Option String :=
        if v.status == "ok" then
          if v.lines == d.out then none
          else
            let i := (List.range (max v.lines.size d.out.size)).find? (fun i => v.lines[i]? != d.out[i]?)
            some ("vm prints differ from S at line " ++ toString (i.getD 0) ++ ": vm `" ++ (v.lines[i.getD 0]?).getD "<nothing>"
                  ++ "`, S `" ++ (d.out[i.getD 0]?).getD "<nothing>" ++ "`")
        else if v.status == "bad" then v.err else none
      IO.println "\x1eB"
      for o in d.out do
        IO.println o
      let objects := (d.m.store.filter Option.isSome).length
      IO.println s!"\x1eS copy={d.copy} inplace={d.inplace} moves={d.moves} aliases={d.aliases} objects={d.m.store.length} live={objects} pending={d.m.pend.length} vmok={if v.status == "ok" then 1 else 0} vmskip={if v.status == "skip" then 1 else 0} vmsteps={v.steps} vminplace={v.inplace} vmcopy={v.copy} vmmoves={v.moves} vmclones={v.clones} vmsamepaths={if v.status == "ok" && v.inplace == d.inplace && v.copy == d.copy then 1 else 0}"
      match d.err, verr with
      | some e, _ => IO.println ("\x1eX " ++ e)
      | none, some e => IO.println ("\x1eX " ++ e)
      | none, none => pure ()
    else if inProg then
      cur := cur.push toks
