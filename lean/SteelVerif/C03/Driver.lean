/-
C03 driver: reads abstract alias-heavy programs (the serialisation of gen/alias03.py), compiles every
statement into operations of the model (`Op`), runs the specification S (`stepS`) and the mechanism M
(`step`, the reference-counted store with in-place updates) side by side, and prints what the Steel
rendering of the program must print according to S.

Values are the trees of S: atoms are integers; kinds: 1 list, 2 pair, 3 immutable vector,
4 hash map (slots k1 v1 k2 v2 ... sorted by key), 5 hash set (sorted), 6 string (character codes), 7 struct `rec`.

WHICH rearrangement of slots a Steel primitive performs (`plan`) is the table of this file; it is compared
with the real engine on every run.  Operations whose real implementation may update in place are
compiled to `Op.update` on the argument's stack slot (a temporary holder), everything else to `Op.new`.

Output per program:  \x1eB, the expected lines, \x1eS copy=.. inplace=.. moves=.. aliases=.. objects=.. , and
\x1eX <message> when the program is ill-formed or M and S disagree (never on the unchanged tree).
-/
import SteelVerif.C03.Model
namespace SteelVerif.C03

inductive Atom where
  | name (s : String) | clo (s : String) | int (n : Int) | str (s : String)
deriving Repr, Inhabited

inductive Stmt where
  | def_ (x op : String) (args : List Atom)
  | gset (g : String) (a : Atom)
  | clo (f x : String)
  | print (tag : String) (a : Atom)
  | kont (r : String) (n : Nat)
  | loop (y op x : String) (n : Nat)
  | send (c : String) (a : Atom)
  | recv (y c : String)
  | join (t : String)
  | spawn (t : String) (chans : List String) (body : List Stmt)
deriving Inhabited

/-! ### parsing -/

def parseAtom (tok : String) : Atom :=
  if tok.startsWith "%" || tok.startsWith "&" then .clo (tok.drop 1).toString
  else if tok.startsWith "\"" then .str ((tok.drop 1).dropEnd 1).toString
  else match tok.toInt? with
    | some n => .int n
    | none => .name tok

partial def parseBlock (lines : List (List String)) (acc : Array Stmt) : Array Stmt × List (List String) :=
  match lines with
  | [] => (acc, [])
  | toks :: rest =>
    match toks with
    | ["endspawn"] => (acc, rest)
    | ["endprog"] => (acc, rest)
    | "def" :: x :: op :: args => parseBlock rest (acc.push (.def_ x op (args.map parseAtom)))
    | "set" :: x :: op :: args => parseBlock rest (acc.push (.def_ ("!" ++ x) op (args.map parseAtom)))
    | ["gset", g, a] => parseBlock rest (acc.push (.gset g (parseAtom a)))
    | ["clo", f, x] => parseBlock rest (acc.push (.clo f x))
    | ["box", b, x] => parseBlock rest (acc.push (.clo b x))
    | ["print", tag, a] => parseBlock rest (acc.push (.print tag (parseAtom a)))
    | ["kont", r, n] => parseBlock rest (acc.push (.kont r n.toNat!))
    | ["loop", y, op, x, n] => parseBlock rest (acc.push (.loop y op x n.toNat!))
    | ["send", c, a] => parseBlock rest (acc.push (.send c (parseAtom a)))
    | ["recv", y, c] => parseBlock rest (acc.push (.recv y c))
    | ["join", t] => parseBlock rest (acc.push (.join t))
    | "spawn" :: t :: chans =>
      let (body, rest') := parseBlock rest #[]
      parseBlock rest' (acc.push (.spawn t chans body.toList))
    | _ => parseBlock rest acc

/-! ### printing trees -/

partial def showTree : Tree → String
  | .atom a => toString a
  | .node 1 cs => "(" ++ " ".intercalate (cs.map showTree) ++ ")"
  | .node 2 [a, b] => "(" ++ showTree a ++ " . " ++ showTree b ++ ")"
  | .node 3 cs => "#(" ++ " ".intercalate (cs.map showTree) ++ ")"
  | .node 4 cs =>
    let rec pairs : List Tree → List String
      | k :: v :: r => (showTree k ++ ":" ++ showTree v) :: pairs r
      | _ => []
    "{" ++ " ".intercalate (pairs cs) ++ "}"
  | .node 5 cs => "#{" ++ " ".intercalate (cs.map showTree) ++ "}"
  | .node 6 cs => "\"" ++ String.ofList (cs.map (fun t => match t with | .atom a => Char.ofNat a.toNat | _ => '?')) ++ "\""
  | .node 7 [a, b] => "[" ++ showTree a ++ " " ++ showTree b ++ "]"
  | .node k cs => "<" ++ toString k ++ " " ++ " ".intercalate (cs.map showTree) ++ ">"

/-! ### the table of the Steel primitives: which rearrangement of slots each one performs -/

/-- an evaluated argument: a literal integer, or a temporary holder (a stack slot) with its value in S -/
inductive Arg where
  | lit (n : Int)
  | held (h : Nat) (t : Tree)
deriving Inhabited

def Arg.src : Arg → Src
  | .lit n => .lit n
  | .held h _ => .hold h

def Arg.tree : Arg → Tree
  | .lit n => .atom n
  | .held _ t => t

def Arg.kind (a : Arg) : Nat := match a.tree with | .node k _ => k | .atom _ => 0
def Arg.cs (a : Arg) : List Tree := a.tree.children
def Arg.int? (a : Arg) : Option Int := match a.tree with | .atom n => some n | _ => none
def Arg.holder? : Arg → Option Nat | .held h _ => some h | .lit _ => none

/-- what the compiled statement does -/
inductive Plan where
  | upd (target : Nat) (k : Nat) (srcs : List Src)   -- functional update of argument `target` (may run in place)
  | mk (k : Nat) (srcs : List Src)                   -- a new object
  | proj (j i : Nat)                                 -- slot `i` of argument `j`
  | scalar (n : Int)
  | same (j : Nat)                                   -- the argument itself
  | bad (msg : String)

def olds (n : Nat) : List Src := (List.range n).map Src.old
def slotsOfArg (a : Arg) : List Src :=
  match a with
  | .held h t => (List.range t.children.length).map (Src.slot h)
  | .lit _ => []

def keyOf : Tree → Int | .atom a => a | _ => 0

/-- position of key `k` in a sorted key/value slot list: (index of the pair, found?) -/
def findKey (k : Int) : List Tree → Nat → Nat × Bool
  | key :: _ :: rest, i => if keyOf key = k then (i, true) else if keyOf key > k then (i, false) else findKey k rest (i + 1)
  | _, i => (i, false)

def findElem (k : Int) : List Tree → Nat → Nat × Bool
  | e :: rest, i => if keyOf e = k then (i, true) else if keyOf e > k then (i, false) else findElem k rest (i + 1)
  | [], i => (i, false)

def isInts (cs : List Tree) : Bool := cs.all (fun t => match t with | .atom _ => true | _ => false)

/-- insertion sort of slot sources by key -/
def insertBy (k : Int) (s : Src) : List (Int × Src) → List (Int × Src)
  | [] => [(k, s)]
  | (k', s') :: r => if k ≤ k' then (k, s) :: (k', s') :: r else (k', s') :: insertBy k s r

def plan (op : String) (args : List Arg) : Plan :=
  let a0 := args.getD 0 (.lit 0)
  let a1 := args.getD 1 (.lit 0)
  let a2 := args.getD 2 (.lit 0)
  let n0 := a0.cs.length
  let idx (a : Arg) (bound : Nat) (strict : Bool) : Option Nat :=
    match a.int? with
    | some i => if i < 0 then none else if (if strict then i.toNat < bound else i.toNat ≤ bound) then some i.toNat else none
    | none => none
  match op with
  | "list" => .mk 1 (args.map Arg.src)
  | "vec" => .mk 3 (args.map Arg.src)
  | "rec" => if args.length = 2 then .mk 7 (args.map Arg.src) else .bad "rec"
  | "id" => match a0 with | .lit n => .scalar n | .held _ _ => .same 0
  | "hash" =>
    -- later keys overwrite earlier ones
    let rec go : List Arg → List (Int × Src) → Option (List (Int × Src))
      | k :: v :: r, acc =>
        match k.int? with
        | some ki => go r (insertBy ki v.src (acc.filter (fun p => p.1 ≠ ki)))
        | none => none
      | [], acc => some acc
      | _, _ => none
    match go args [] with
    | some kvs => .mk 4 (kvs.flatMap (fun p => [Src.lit p.1, p.2]))
    | none => .bad "hash"
  | "hashset" =>
    if args.all (fun a => a.int?.isSome) then
      let ks := args.foldl (fun acc a => let k := a.int?.getD 0; insertBy k (.lit k) (acc.filter (fun p => p.1 ≠ k))) []
      .mk 5 (ks.map (·.2))
    else .bad "hashset"
  | "cons" =>
    if a1.kind = 1 then .upd 1 1 (a0.src :: olds a1.cs.length) else .mk 2 [a0.src, a1.src]
  | "car" => if (a0.kind = 1 && n0 > 0) || a0.kind = 2 then .proj 0 0 else .bad "car"
  | "cdr" =>
    if a0.kind = 2 then .proj 0 1
    else if a0.kind = 1 && n0 > 0 then .upd 0 1 ((olds n0).drop 1) else .bad "cdr"
  | "rest" => if a0.kind = 1 && n0 > 0 then .upd 0 1 ((olds n0).drop 1) else .bad "rest"
  | "append" => if a0.kind = 1 && a1.kind = 1 then .upd 0 1 (olds n0 ++ slotsOfArg a1) else .bad "append"
  | "append3" =>
    if a0.kind = 1 && a1.kind = 1 && a2.kind = 1 then .upd 0 1 (olds n0 ++ slotsOfArg a1 ++ slotsOfArg a2) else .bad "append3"
  | "tr-ext" => if a0.kind = 1 && a1.kind = 1 then .mk 1 (slotsOfArg a0 ++ slotsOfArg a1) else .bad "tr-ext"
  | "reverse" => if a0.kind = 1 then .upd 0 1 (olds n0).reverse else .bad "reverse"
  | "push-back" => if a0.kind = 1 then .upd 0 1 (olds n0 ++ [a1.src]) else .bad "push-back"
  | "list-tail" => match a0.kind, idx a1 n0 false with
    | 1, some i => .mk 1 ((slotsOfArg a0).drop i)
    | _, _ => .bad "list-tail"
  | "take" => match a0.kind, idx a1 n0 false with
    | 1, some i => .mk 1 ((slotsOfArg a0).take i)
    | _, _ => .bad "take"
  | "list-ref" => match a0.kind, idx a1 n0 true with
    | 1, some i => .proj 0 i
    | _, _ => .bad "list-ref"
  | "last" => if a0.kind = 1 && n0 > 0 then .proj 0 (n0 - 1) else .bad "last"
  | "length" => if a0.kind = 1 then .scalar n0 else .bad "length"
  | "sort" =>
    if a0.kind = 1 && isInts a0.cs then
      let ks := (a0.cs.map keyOf).foldl (fun acc k => insertBy k (.lit k) acc) []
      .mk 1 (ks.map (·.2))
    else .bad "sort"
  | "map-id" => if a0.kind = 1 then .mk 1 (slotsOfArg a0) else .bad "map-id"
  | "list->vec" => if a0.kind = 1 then .mk 3 (slotsOfArg a0) else .bad "list->vec"
  | "vec->list" => if a0.kind = 3 then .mk 1 (slotsOfArg a0) else .bad "vec->list"
  | "tr-list" => if a0.kind = 1 || a0.kind = 3 then .mk 1 (slotsOfArg a0) else .bad "tr-list"
  | "tr-vec" => if a0.kind = 1 || a0.kind = 3 then .mk 3 (slotsOfArg a0) else .bad "tr-vec"
  | "tr-set" =>
    if (a0.kind = 1 || a0.kind = 3) && isInts a0.cs then
      let ks := (a0.cs.map keyOf).foldl (fun acc k => insertBy k (.lit k) (acc.filter (fun p => p.1 ≠ k))) []
      .mk 5 (ks.map (·.2))
    else .bad "tr-set"
  | "vpush" => if a0.kind = 3 then .upd 0 3 (olds n0 ++ [a1.src]) else .bad "vpush"
  | "vpushf" => if a0.kind = 3 then .upd 0 3 (a1.src :: olds n0) else .bad "vpushf"
  | "vset" => match a0.kind, idx a1 n0 true with
    | 3, some i => .upd 0 3 ((olds n0).take i ++ [a2.src] ++ (olds n0).drop (i + 1))
    | _, _ => .bad "vset"
  | "vrest" => if a0.kind = 3 && n0 > 0 then .upd 0 3 ((olds n0).drop 1) else .bad "vrest"
  | "vtake" => match a0.kind, idx a1 n0 false with
    | 3, some i => .upd 0 3 ((olds n0).take i)
    | _, _ => .bad "vtake"
  | "vdrop" => match a0.kind, idx a1 n0 false with
    | 3, some i => .upd 0 3 ((olds n0).drop i)
    | _, _ => .bad "vdrop"
  | "vappend" => if a0.kind = 3 && a1.kind = 3 then .mk 3 (slotsOfArg a0 ++ slotsOfArg a1) else .bad "vappend"
  | "vref" => match a0.kind, idx a1 n0 true with
    | 3, some i => .proj 0 i
    | _, _ => .bad "vref"
  | "hins" => match a0.kind, a1.int? with
    | 4, some k =>
      let (p, found) := findKey k a0.cs 0
      if found then .upd 0 4 ((olds n0).take (2 * p) ++ [.old (2 * p), a2.src] ++ (olds n0).drop (2 * p + 2))
      else .upd 0 4 ((olds n0).take (2 * p) ++ [.lit k, a2.src] ++ (olds n0).drop (2 * p))
    | _, _ => .bad "hins"
  | "hrem" => match a0.kind, a1.int? with
    | 4, some k =>
      let (p, found) := findKey k a0.cs 0
      if found then .upd 0 4 ((olds n0).take (2 * p) ++ (olds n0).drop (2 * p + 2)) else .upd 0 4 (olds n0)
    | _, _ => .bad "hrem"
  | "hunion" =>
    if a0.kind = 4 && a1.kind = 4 then
      -- the values of the left map win
      let rec pairs : List Tree → Nat → (Nat → Src) → List (Int × Src × Src)
        | k :: _ :: r, i, f => (keyOf k, f (2 * i), f (2 * i + 1)) :: pairs r (i + 1) f
        | _, _, _ => []
      let left := pairs a0.cs 0 Src.old
      let right := match a1 with
        | .held h _ => pairs a1.cs 0 (Src.slot h)
        | .lit _ => []
      let extra := right.filter (fun p => !(left.any (fun q => q.1 = p.1)))
      let all := (left ++ extra).foldl (fun acc p => insertBy p.1 p.2.1 acc) []
      let valOf (k : Int) : Src := match (left ++ extra).find? (fun p => p.1 = k) with
        | some p => p.2.2
        | none => .lit 0
      .upd 0 4 (all.flatMap (fun p => [p.2, valOf p.1]))
    else .bad "hunion"
  | "hclear" => if a0.kind = 4 then .upd 0 4 [] else .bad "hclear"
  | "href" => match a0.kind, a1.int? with
    | 4, some k =>
      let (p, found) := findKey k a0.cs 0
      if found then .proj 0 (2 * p + 1) else .bad "href: key"
    | _, _ => .bad "href"
  | "hlen" => if a0.kind = 4 then .scalar (n0 / 2) else .bad "hlen"
  | "hkeys" =>
    if a0.kind = 4 then
      let rec keys : List Tree → List Src
        | k :: _ :: r => .lit (keyOf k) :: keys r
        | _ => []
      .mk 1 (keys a0.cs)
    else .bad "hkeys"
  | "sins" => match a0.kind, a1.int? with
    | 5, some k =>
      let (p, found) := findElem k a0.cs 0
      if found then .upd 0 5 (olds n0) else .upd 0 5 ((olds n0).take p ++ [.lit k] ++ (olds n0).drop p)
    | _, _ => .bad "sins"
  | "sclear" => if a0.kind = 5 then .upd 0 5 [] else .bad "sclear"
  | "sunion" =>
    if a0.kind = 5 && a1.kind = 5 then
      let ks := ((a0.cs ++ a1.cs).map keyOf).foldl (fun acc k => insertBy k (.lit k) (acc.filter (fun p => p.1 ≠ k))) []
      .mk 5 (ks.map (·.2))
    else .bad "sunion"
  | "set->list" => if a0.kind = 5 then .mk 1 (slotsOfArg a0) else .bad "set->list"
  | "spush" => if a0.kind = 6 && a1.kind = 6 then .upd 0 6 (olds n0 ++ slotsOfArg a1) else .bad "spush"
  | "sappend" => if a0.kind = 6 && a1.kind = 6 then .mk 6 (slotsOfArg a0 ++ slotsOfArg a1) else .bad "sappend"
  | "rec-a" => if a0.kind = 7 then .proj 0 0 else .bad "rec-a"
  | "rec-b" => if a0.kind = 7 then .proj 0 1 else .bad "rec-b"
  | _ => .bad ("unknown operation " ++ op)

/-! ### the interpreter -/

structure DS where
  m : State := {}
  s : SHolders := []
  names : List (String × Nat) := []
  next : Nat := 0
  out : Array String := #[]
  chans : List (String × List Nat) := []
  threads : List (String × List (String × Nat) × List Stmt) := []
  copy : Nat := 0
  inplace : Nat := 0
  moves : Nat := 0
  aliases : Nat := 0
  err : Option String := none
  assigned : List String := []    -- variables that are the target of a set!: boxed, not part of a continuation's frame
deriving Inhabited

def DS.fail (d : DS) (msg : String) : DS := if d.err.isSome then d else { d with err := some msg }

def DS.fresh (d : DS) : DS × Nat := ({ d with next := d.next + 1 }, d.next)

/-- run one operation in M and in S -/
def DS.op (d : DS) (o : Op) : DS :=
  let len := d.m.store.length
  let m' := step d.m o
  let d := { d with m := m', s := stepS d.s o }
  match o with
  | .update .. => if m'.store.length > len then { d with copy := d.copy + 1 } else { d with inplace := d.inplace + 1 }
  | .move .. => { d with moves := d.moves + 1 }
  | .alias .. => { d with aliases := d.aliases + 1 }
  | _ => d

def DS.lookup (d : DS) (x : String) : Option Nat := (d.names.find? (·.1 == x)).map (·.2)

def DS.bindName (d : DS) (x : String) : DS × Nat :=
  match d.lookup x with
  | some h => (d, h)
  | none =>
    let (d, h) := d.fresh
    ({ d with names := (x, h) :: d.names }, h)

def atomMentions (x : String) : Atom → Bool
  | .name s => s == x
  | _ => false

partial def mentions (x : String) : List Stmt → Bool
  | [] => false
  | st :: rest =>
    (match st with
      | .def_ _ _ args => args.any (atomMentions x)
      | .gset _ a => atomMentions x a
      | .clo _ y => y == x
      | .print _ a => atomMentions x a
      | .kont .. => false
      | .loop _ _ y _ => y == x
      | .send _ a => atomMentions x a
      | .recv .. => false
      | .join _ => false
      | .spawn _ _ body => mentions x body) || mentions x rest

/-- is the name a plain local (not a global cell, not a closure)? -/
def isLocal (x : String) : Bool := !(x.startsWith "g" || x.startsWith "f" || x.startsWith "k" || x.startsWith "b")

/-- evaluate an argument into a fresh temporary holder (the stack slot of the call) -/
def DS.arg (d : DS) (a : Atom) (rest : List Stmt) (sameStmtLater : Bool) : DS × Arg :=
  match a with
  | .int n => (d, .lit n)
  | .str s =>
    let (d, t) := d.fresh
    let d := d.op (.new t 6 (s.toList.map (fun c => Src.lit c.toNat)))
    (d, .held t (sholdVal d.s t))
  | .clo f =>
    match d.lookup f with
    | some h =>
      let (d, t) := d.fresh
      let d := d.op (.alias t h)
      (d, .held t (sholdVal d.s t))
    | none => (d.fail ("unbound closure " ++ f), .lit 0)
  | .name x =>
    match d.lookup x with
    | some h =>
      match get d.s h with
      | some (.atom n) => (d, .lit n)
      | some _ =>
        let (d, t) := d.fresh
        -- last use of a local: the compiler emits a move; otherwise the value is copied to the stack
        let d := if isLocal x && !sameStmtLater && !(mentions x rest) then d.op (.move t h) else d.op (.alias t h)
        (d, .held t (sholdVal d.s t))
      | none => (d.fail ("unbound " ++ x), .lit 0)
    | none => (d.fail ("unbound " ++ x), .lit 0)

def DS.args (d : DS) (as : List Atom) (rest : List Stmt) : DS × List Arg :=
  let rec go (d : DS) : List Atom → List Arg → DS × List Arg
    | [], acc => (d, acc.reverse)
    | a :: r, acc =>
      let later := match a with
        | .name x => r.any (atomMentions x)
        | _ => false
      let (d, v) := d.arg a rest later
      go d r (v :: acc)
  go d as []

def DS.dropTemps (d : DS) (args : List Arg) : DS :=
  args.foldl (fun d a => match a.holder? with | some h => d.op (.drop h) | none => d) d

/-- x := op(args) -/
def DS.define (d : DS) (x op : String) (as : List Atom) (rest : List Stmt) : DS :=
  let (d, args) := d.args as rest
  if d.err.isSome then d else
  let (d, hx) := d.bindName x
  match plan op args with
  | .bad msg => d.fail ("invalid operation " ++ op ++ ": " ++ msg)
  | .scalar n => (d.op (.lit hx n)).dropTemps args
  | .same j =>
    match (args.getD j (.lit 0)).holder? with
    | some t => (d.op (.move hx t)).dropTemps args
    | none => d.fail "same"
  | .proj j i =>
    match (args.getD j (.lit 0)).holder? with
    | some t => (d.op (.get hx t i)).dropTemps args
    | none => d.fail "proj"
  | .mk k srcs => (d.op (.new hx k srcs)).dropTemps args
  | .upd j k srcs =>
    match (args.getD j (.lit 0)).holder? with
    | some t => ((d.op (.update t k srcs true)).op (.move hx t)).dropTemps args
    | none => d.fail "upd"

def loopArgs (op : String) (acc : String) (i : Nat) : List Atom :=
  match op with
  | "hins" => [.name acc, .int i, .int i]
  | "cons" => [.int i, .name acc]
  | "spush" => [.name acc, .str "z"]
  | _ => [.name acc, .int i]

partial def exec (d : DS) : List Stmt → DS
  | [] => d
  | st :: rest =>
    if d.err.isSome then d else
    match st with
    | .def_ x op as =>
      let x := if x.startsWith "!" then (x.drop 1).toString else x
      exec (d.define x op as rest) rest
    | .gset g a =>
      let (d, v) := d.arg a rest false
      let (d, hg) := d.bindName g
      let d := match v with
        | .lit n => d.op (.lit hg n)
        | .held t _ => (d.op (.move hg t))
      exec d rest
    | .clo f x =>
      match d.lookup x with
      | some hx =>
        let (d, hf) := d.bindName f
        exec (d.op (.alias hf hx)) rest
      | none => d.fail ("unbound " ++ x)
    | .print tag a =>
      let h := match a with
        | .name x => d.lookup x
        | .clo f => d.lookup f
        | _ => none
      match h with
      | some h =>
        match get d.s h with
        | some t =>
          -- what M shows for this holder must be what S says
          let d := if viewM d.m (t.depth + 1) h == some t.enc then d else d.fail ("model and specification disagree at " ++ tag)
          exec { d with out := d.out.push (tag ++ " " ++ showTree t) } rest
        | none => d.fail ("print of an unbound holder: " ++ tag)
      | none => d.fail ("print: " ++ tag)
    | .loop y op x n =>
      let a0 := "$a" ++ toString d.next
      let d := d.define (a0 ++ "_0") "id" [.name x] rest
      let d := (List.range n).foldl (fun (d : DS) (i : Nat) =>
        d.define (a0 ++ "_" ++ toString (i + 1)) op (loopArgs op (a0 ++ "_" ++ toString i) i) []) d
      exec (d.define y "id" [.name (a0 ++ "_" ++ toString n)] []) rest
    | .kont r n =>
      -- the continuation's frame: one more holder for every local bound now
      let locals := d.names.filter (fun p => isLocal p.1 && !(d.assigned.contains p.1))
      let (d, frame) := locals.foldl (fun (acc : DS × List (String × Nat × Nat)) p =>
        let (d, k) := acc.1.fresh
        (d.op (.alias k p.2), (p.1, p.2, k) :: acc.2)) (d, [])
      let (d, hr) := d.bindName r
      let d := (List.range (n + 1)).foldl (fun (d : DS) (i : Nat) =>
        -- (re-)entry: the stack is restored from the frame
        let d := if i = 0 then d else frame.foldl (fun d p => d.op (.alias p.2.1 p.2.2)) d
        exec (d.op (.lit hr (i : Int))) rest) d
      frame.foldl (fun d p => d.op (.drop p.2.2)) d
    | .spawn t chans body =>
      -- the thread's closure: one holder per local it mentions
      let used := d.names.filter (fun p => isLocal p.1 && mentions p.1 body)
      let (d, env) := used.foldl (fun (acc : DS × List (String × Nat)) p =>
        let (d, k) := acc.1.fresh
        (d.op (.alias k p.2), (p.1, k) :: acc.2)) (d, [])
      exec { d with threads := (t, env, body) :: d.threads, chans := chans.map (fun c => (c, [])) ++ d.chans } rest
    | .send c a =>
      let (d, v) := d.arg a (.print "" a :: rest) false   -- a channel send copies
      match v with
      | .held h _ =>
        exec { d with chans := d.chans.map (fun p => if p.1 == c then (p.1, p.2 ++ [h]) else p) } rest
      | .lit n =>
        let (d, h) := d.fresh
        let d := d.op (.lit h n)
        exec { d with chans := d.chans.map (fun p => if p.1 == c then (p.1, p.2 ++ [h]) else p) } rest
    | .recv y c =>
      match (d.chans.find? (·.1 == c)).map (·.2) with
      | some (h :: q) =>
        let (d, hy) := d.bindName y
        let d := d.op (.move hy h)
        exec { d with chans := d.chans.map (fun p => if p.1 == c then (p.1, q) else p) } rest
      | _ => d.fail ("recv on an empty channel " ++ c)
    | .join t =>
      match d.threads.find? (·.1 == t) with
      | some (_, env, body) =>
        let saved := d.names
        let d := exec { d with names := env ++ d.names.filter (fun p => !isLocal p.1) } body
        -- the thread is over: its holders are released
        let mine := d.names.filter (fun p => !(saved.any (fun q => q.2 == p.2)))
        let d := mine.foldl (fun d p => d.op (.drop p.2)) d
        exec { d with names := saved, threads := d.threads.filter (·.1 != t) } rest
      | none => d.fail ("join of an unknown thread " ++ t)

partial def assignedIn : List Stmt → List String
  | [] => []
  | .def_ x _ _ :: rest => (if x.startsWith "!" then [(x.drop 1).toString] else []) ++ assignedIn rest
  | .spawn _ _ body :: rest => assignedIn body ++ assignedIn rest
  | _ :: rest => assignedIn rest

def runProgram (lines : List (List String)) : DS :=
  let (stmts, _) := parseBlock lines #[]
  exec { assigned := assignedIn stmts.toList } stmts.toList

partial def readAll (h : IO.FS.Stream) (acc : Array String) : IO (Array String) := do
  let l ← h.getLine
  if l.isEmpty then return acc else readAll h (acc.push (l.dropEndWhile (fun c => c == '\n' || c == '\r')).toString)

end SteelVerif.C03

open SteelVerif.C03 in
def main (_args : List String) : IO Unit := do
  let stdin ← IO.getStdin
  let lines ← readAll stdin #[]
  let mut cur : Array (List String) := #[]
  let mut inProg := false
  for l in lines do
    let toks := (l.splitOn " ").filter (· ≠ "")
    if toks == ["prog"] then
      cur := #[]
      inProg := true
    else if toks == ["endprog"] then
      inProg := false
      let d := runProgram cur.toList
      IO.println "\x1eB"
      for o in d.out do
        IO.println o
      let objects := (d.m.store.filter Option.isSome).length
      IO.println s!"\x1eS copy={d.copy} inplace={d.inplace} moves={d.moves} aliases={d.aliases} objects={d.m.store.length} live={objects} pending={d.m.pend.length}"
      match d.err with
      | some e => IO.println ("\x1eX " ++ e)
      | none => pure ()
    else if inProg then
      cur := cur.push toks
