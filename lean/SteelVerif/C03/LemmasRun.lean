/-
C03 — one step of the mechanism refines one step of the persistent semantics; runs.
-/
import SteelVerif.C03.LemmasStep
namespace SteelVerif.C03

/-- the uniqueness test is sound: it answers `true` only for an object whose count is 1
(C05 proves this of `has_unique_ref`, the test behind `Gc::get_mut` / `make_mut` / `try_unwrap`) -/
def SoundTest (U : Obj → Bool) : Prop := ∀ ob, U ob = true → ob.rc = 1

theorem rcIsOne_sound : SoundTest rcIsOne := by
  intro ob h; simpa [rcIsOne] using h

theorem settle_all {s : State} {hs : SHolders} {P : Prop} (hI : Inv s) (hA : Agree s hs) :
    Inv (settle s) ∧ Agree (settle s) hs ∧ (P → (settle s).pend = []) :=
  ⟨(settle_spec hI hA).1, (settle_spec hI hA).2, fun _ => settle_pend hI hA⟩

theorem step_refines {U : Obj → Bool} (hU : SoundTest U) {s : State} {hs : SHolders}
    (hI : Inv s) (hA : Agree s hs) (op : Op) :
    Inv (stepWith U s op) ∧ Agree (stepWith U s op) (stepS hs op) ∧
      (s.pend = [] → (stepWith U s op).pend = []) := by
  cases op with
  | lit h a =>
    obtain ⟨a1, a2⟩ := pre_lit hI hA h a
    exact settle_all a1 a2
  | alias h' h =>
    simp only [stepWith, stepS]
    by_cases e : h' = h
    · simp only [e, if_true]; exact ⟨hI, hA, id⟩
    · simp only [e, if_false]
      obtain ⟨a1, a2⟩ := rebind_clone_spec hI hA h' (holdVal s.hold h) (sholdVal hs h)
        (pres_holdVal hI h) (agree_holdVal hA h)
      exact settle_all a1 a2
  | move h' h =>
    simp only [stepWith, stepS]
    by_cases e : h' = h
    · simp only [e, if_true]; exact ⟨hI, hA, id⟩
    · simp only [e, if_false]
      obtain ⟨a1, a2⟩ := pre_move hI hA h' h e
      exact settle_all a1 a2
  | drop h =>
    simp only [stepWith, stepS]
    exact settle_all (inv_unbind hI h) (agree_unbind hA h)
  | get h' h i =>
    simp only [stepWith, stepS]
    by_cases e : h' = h
    · simp only [e, if_true]; exact ⟨hI, hA, id⟩
    · simp only [e, if_false]
      obtain ⟨a1, a2⟩ := rebind_clone_spec hI hA h'
        (slotAt (slotsOf s.store (holdVal s.hold h)) i) (childAt (sholdVal hs h).children i)
        (pres_slotAt (pres_slotsOf hI _) i)
        (RepL_slotAt _ _ i (Rep_slotsOf (agree_holdVal hA h)))
      exact settle_all a1 a2
  | new h k srcs =>
    obtain ⟨a1, a2⟩ := pre_new hI hA h k srcs
    exact settle_all a1 a2
  | update h k srcs fast =>
    simp only [stepWith, stepS]
    cases hh : get s.hold h with
    | none =>
      have : get hs h = none := (hA h).1.mp hh
      simp only [this]; exact ⟨hI, hA, id⟩
    | some v =>
      cases ht : get hs h with
      | none => have := (hA h).1.mpr ht; rw [this] at hh; cases hh
      | some t =>
        have hrep := (hA h).2 v t hh ht
        cases v with
        | atom a =>
          cases t with
          | atom b => exact ⟨hI, hA, id⟩
          | node k0 cs => simp [Rep] at hrep
        | ref o =>
          cases t with
          | atom b => simp [Rep] at hrep
          | node k0 cs =>
            simp only [Rep] at hrep
            obtain ⟨ob, hg, _, _⟩ := hrep
            simp only [hg]
            by_cases hf : (fast && U ob) = true
            · simp only [hf, if_true]
              have hu : ob.rc = 1 := hU ob (by simp at hf; exact hf.2)
              exact settle_all (pre_update_inplace_inv hI h k srcs hg)
                (pre_update_inplace_agree hI hA h k srcs hh hg ht hu)
            · simp only [hf]
              obtain ⟨a1, a2⟩ := pre_update_copy hI hA h k srcs hh hg ht
              exact settle_all a1 a2

theorem inv_init : Inv {} := by
  intro o; simp [rcOf, get_nil, wt, cntHold, cntStore, sumBy, cntPend]

theorem agree_init : Agree {} [] := by
  intro h; simp [get_nil]

theorem run_refines {U : Obj → Bool} (hU : SoundTest U) : ∀ (ops : List Op) (s : State) (hs : SHolders),
    Inv s → Agree s hs → s.pend = [] →
      Inv (runWith U s ops) ∧ Agree (runWith U s ops) (runS hs ops) ∧ (runWith U s ops).pend = []
  | [], _, _, hI, hA, hp => ⟨hI, hA, hp⟩
  | op :: ops, s, hs, hI, hA, hp => by
    obtain ⟨a1, a2, a3⟩ := step_refines hU hI hA op
    exact run_refines hU ops _ _ a1 a2 (a3 hp)

end SteelVerif.C03
