import SteelVerif.C03.Props
import SteelVerif.C03.GenInPlace
import SteelVerif.C03.PropsVM
import SteelVerif.C03.C05Link
open SteelVerif.C03
#print axioms inplace_refines_persistent
#print axioms inplace_refines_persistent_from
#print axioms counts_exact
#print axioms view_eq
#print axioms bound_eq
#print axioms step_refines
#print axioms update_is_fresh_copy
#print axioms inplace_and_copy_agree
#print axioms last_use_move_safe
#print axioms inplace_unsound_if_count_wrong
#print axioms rcIsOne_sound
#print axioms GenInPlace.all_classified
#print axioms GenInPlace.fast_paths_exercised
#print axioms GenInPlace.tests_are_strong_count_one
#print axioms mach_refines
#print axioms program_refines
#print axioms program_inplace_eq_copy
#print axioms program_views_eq
#print axioms vm_refines
#print axioms vm_refines_from
#print axioms core_program_inplace_unobservable
#print axioms threads_refine
#print axioms vm_inplace_unsound_if_count_wrong
#print axioms plan_upd_target
#print axioms c05_unique_true_total_one
#print axioms soundTest_of_c05
#print axioms inplace_refines_persistent_c05
#print axioms GenInPlace.stolen_args_match_model
