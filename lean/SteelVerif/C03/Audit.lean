import SteelVerif.C03.Props
import SteelVerif.C03.GenInPlace
open SteelVerif.C03
#print axioms inplace_refines_persistent
#print axioms inplace_refines_persistent_from
#print axioms counts_exact
#print axioms view_eq
#print axioms bound_eq
#print axioms step_refines
#print axioms update_is_fresh_copy
#print axioms inplace_and_copy_agree
#print axioms last_use_move_safe
#print axioms inplace_unsound_if_count_wrong
#print axioms rcIsOne_sound
#print axioms GenInPlace.all_classified
#print axioms GenInPlace.fast_paths_exercised
#print axioms GenInPlace.tests_are_strong_count_one
