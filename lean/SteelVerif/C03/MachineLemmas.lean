/-
C03 — every machine over the RcStore refines its own run on the persistent semantics.
-/
import SteelVerif.C03.Machine
import SteelVerif.C03.LemmasRun
namespace SteelVerif.C03

mutual
theorem peekV_of_Rep {st : Store} : ∀ (v : Val) (t : Tree), Rep st v t → ∀ d, peekV st d v = cut d t
  | .atom a, .atom b, hr, d => by
    simp only [Rep] at hr; subst hr
    cases d <;> simp [peekV, cut]
  | .ref o, .node k cs, hr, d => by
    simp only [Rep] at hr
    obtain ⟨ob, hg, hk, hl⟩ := hr
    cases d with
    | zero => simp [peekV, hg, cut, hk]
    | succ d =>
      simp only [peekV, hg, cut]
      rw [peekL_of_RepL ob.slots cs hl d, hk]
  | .atom _, .node _ _, hr, _ => by simp [Rep] at hr
  | .ref _, .atom _, hr, _ => by simp [Rep] at hr
theorem peekL_of_RepL {st : Store} : ∀ (vs : List Val) (ts : List Tree), RepL st vs ts →
    ∀ d, vs.map (peekV st d) = cutL d ts
  | [], [], _, _ => by simp [cutL]
  | v :: vs, t :: ts, hr, d => by
    simp only [RepL] at hr
    simp only [List.map, cutL]
    rw [peekV_of_Rep v t hr.1 d, peekL_of_RepL vs ts hr.2 d]
  | [], _ :: _, hr, _ => by simp [RepL] at hr
  | _ :: _, [], hr, _ => by simp [RepL] at hr
end

/-- the control of a machine sees the same thing in M and in S -/
theorem peek_eq {s : State} {hs : SHolders} (hA : Agree s hs) (d h : Nat) : peekM s d h = peekS hs d h := by
  unfold peekM peekS
  cases hv : get s.hold h with
  | none => rw [(hA h).1.mp hv]; rfl
  | some v =>
    cases ht : get hs h with
    | none => have := (hA h).1.mpr ht; rw [this] at hv; cases hv
    | some t => simp [peekV_of_Rep v t ((hA h).2 v t hv ht) d]

theorem peeks_eq {s : State} {hs : SHolders} (hA : Agree s hs) (d : Nat) (l : List Nat) :
    l.map (peekM s d) = l.map (peekS hs d) := by
  induction l with
  | nil => rfl
  | cons h l ih => simp only [List.map, peek_eq hA d h, ih]

variable {K : Type}

/-- lock step: after any number of steps of any machine, from any consistent pair of states, the control states
are EQUAL (same instruction pointer, same stack height, same frames, same recorded output, …), the counts are
exact, every holder unfolds in M to the pure value it has in S, and no release is pending -/
theorem mach_refines (m : Mach K) {U : Obj → Bool} (hU : SoundTest U) (d : Nat) :
    ∀ (n : Nat) (k : K) (s : State) (hs : SHolders), Inv s → Agree s hs → s.pend = [] →
      (m.runM U d n k s).1 = (m.runS d n k hs).1 ∧ Inv (m.runM U d n k s).2 ∧
        Agree (m.runM U d n k s).2 (m.runS d n k hs).2 ∧ (m.runM U d n k s).2.pend = []
  | 0, _, _, _, hI, hA, hp => ⟨rfl, hI, hA, hp⟩
  | n + 1, k, s, hs, hI, hA, hp => by
    simp only [Mach.runM, Mach.runS, Mach.stepM, Mach.stepS, peeks_eq hA d (m.want k)]
    cases hn : m.next k ((m.want k).map (peekS hs d)) with
    | none => exact ⟨rfl, hI, hA, hp⟩
    | some r =>
      obtain ⟨ops, k'⟩ := r
      obtain ⟨a1, a2, a3⟩ := run_refines hU ops s hs hI hA hp
      exact mach_refines m hU d n k' _ _ a1 a2 a3

theorem neverUnique_sound : SoundTest neverUnique := by
  intro ob h; simp [neverUnique] at h

end SteelVerif.C03
