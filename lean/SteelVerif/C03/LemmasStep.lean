/-
C03 — every operation of the mechanism preserves the counting invariant and the agreement with the
persistent semantics (one lemma per operation).
-/
import SteelVerif.C03.LemmasInv
namespace SteelVerif.C03

theorem cntVs_zero_of_pres_absent {st : Store} {n : Nat} {vs : List Val}
    (hp : ∀ v ∈ vs, Pres st v) (hn : get st n = none) : cntVs n vs = 0 := by
  induction vs with
  | nil => rfl
  | cons v vs ih =>
    simp only [cntVs]
    have h1 : cntV n v = 0 := by
      apply cntV_eq_zero
      intro e; subst e
      exact hp _ (List.mem_cons_self ..) hn
    rw [h1, ih (fun w hw => hp w (List.mem_cons_of_mem _ hw))]

/-- an identifier that is not in the store is referenced by nothing -/
theorem inv_absent {s : State} (hI : Inv s) {n : Nat} (hn : get s.store n = none) :
    cntHold n s.hold = 0 ∧ cntStore n s.store = 0 ∧ cntPend n s.pend = 0 := by
  have := hI n
  simp only [rcOf, hn, wt] at this
  omega

/-! ### rebinding a holder to a clone (alias, get) -/

theorem rebind_clone_spec {s : State} {hs : SHolders} (hI : Inv s) (hA : Agree s hs) (h' : Nat)
    (v : Val) (t : Tree) (hp : Pres s.store v) (hr : Rep s.store v t) :
    Inv (bindClone (unbind s h') h' v) ∧ Agree (bindClone (unbind s h') h' v) (put hs h' (some t)) := by
  constructor
  · intro o
    have hI1 := inv_unbind hI h' o
    have h1 := cntHold_put o (unbind s h').hold h' (some v)
    rw [unbind_get] at h1
    simp only [bindClone, unbind_store, rcOf_incV hp, cntStore_incV, wt, if_true] at *
    omega
  · apply agree_upd h' hA
    · intro j hj; simp [bindClone, unbind, get_put, Ne.symm hj]
    · intro j hj; rw [get_put_ne _ _ _ _ (Ne.symm hj)]
    · intro j w u _ _ _ hw; exact Rep_mono (ext_incV _ _) w u hw
    · simp only [bindClone, get_put_eq]
      refine ⟨by simp, ?_⟩
      intro w u hw hu
      cases hw; cases hu
      exact Rep_mono (ext_incV _ _) _ _ hr

/-! ### one lemma per operation: the state before the pending releases are performed -/

theorem pre_lit {s : State} {hs : SHolders} (hI : Inv s) (hA : Agree s hs) (h : Nat) (a : Int) :
    let s1 := unbind s h
    Inv { s1 with hold := put s1.hold h (some (.atom a)) } ∧
    Agree { s1 with hold := put s1.hold h (some (.atom a)) } (put hs h (some (.atom a))) := by
  intro s1
  constructor
  · intro o
    have hI1 := inv_unbind hI h o
    have h1 := cntHold_put o (unbind s h).hold h (some (.atom a))
    rw [unbind_get] at h1
    simp only [s1, wt, cntV, if_true] at *
    omega
  · apply agree_upd h hA
    · intro j hj; simp [s1, unbind, get_put, Ne.symm hj]
    · intro j hj; rw [get_put_ne _ _ _ _ (Ne.symm hj)]
    · intro j w u _ _ _ hw; exact hw
    · simp only [s1, get_put_eq]
      refine ⟨by simp, ?_⟩
      intro w u hw hu
      cases hw; cases hu
      simp [Rep]

theorem pre_move {s : State} {hs : SHolders} (hI : Inv s) (hA : Agree s hs) (h' h : Nat) (hne : h' ≠ h) :
    let s1 := unbind s h'
    Inv { s1 with hold := put (put s1.hold h' (get s1.hold h)) h none } ∧
    Agree { s1 with hold := put (put s1.hold h' (get s1.hold h)) h none } (put (put hs h' (get hs h)) h none) := by
  intro s1
  have hg1 : get s1.hold h = get s.hold h := by simp [s1, unbind_get, hne]
  constructor
  · intro o
    have hI1 := inv_unbind hI h' o
    have h1 := cntHold_put o s1.hold h' (get s1.hold h)
    have h2 := cntHold_put o (put s1.hold h' (get s1.hold h)) h none
    rw [get_put_ne _ _ _ _ hne] at h2
    have h3 : get s1.hold h' = none := by simp [s1, unbind_get]
    rw [h3] at h1
    simp only [wt] at h1 h2
    simp only [s1, unbind_store] at *
    omega
  · -- first bind h' to what h holds, then empty h
    have hA1 : Agree { s1 with hold := put s1.hold h' (get s1.hold h) } (put hs h' (get hs h)) := by
      apply agree_upd h' hA
      · intro j hj; simp [s1, unbind, get_put, Ne.symm hj]
      · intro j hj; rw [get_put_ne _ _ _ _ (Ne.symm hj)]
      · intro j w u _ _ _ hw; exact hw
      · simp only [get_put_eq, hg1]
        exact hA h
    apply agree_upd h hA1
    · intro j hj; simp only; rw [get_put_ne _ _ _ _ (Ne.symm hj)]
    · intro j hj; rw [get_put_ne _ _ _ _ (Ne.symm hj)]
    · intro j w u _ _ _ hw; exact hw
    · simp only [get_put_eq]
      exact ⟨by simp, fun w u hw => by cases hw⟩

theorem pre_new {s : State} {hs : SHolders} (hI : Inv s) (hA : Agree s hs) (h k : Nat) (srcs : List Src) :
    let vs := srcs.map (resolve s.store s.hold h [])
    let s1 := unbind s h
    let n := s1.store.length
    let st := incVs s1.store vs
    Inv { s1 with store := put st n (some ⟨k, vs, 1⟩), hold := put s1.hold h (some (.ref n)) } ∧
    Agree { s1 with store := put st n (some ⟨k, vs, 1⟩), hold := put s1.hold h (some (.ref n)) }
      (put hs h (some (.node k (srcs.map (resolveS hs h []))))) := by
  intro vs s1 n st
  have hpres : ∀ v ∈ vs, Pres s.store v := pres_resolve_all hI h (olds := []) (by intro v hv; cases hv) srcs
  have hn0 : get s.store n = none := get_ge_length _ _ (Nat.le_refl _)
  have hnst : get st n = none := get_incVs_none hn0
  have hI1 := inv_unbind hI h
  have habs := inv_absent hI1 (n := n) hn0
  have hvn : cntVs n vs = 0 := cntVs_zero_of_pres_absent hpres hn0
  have hE : Ext s.store (put st n (some ⟨k, vs, 1⟩)) :=
    Ext.trans (ext_incVs _ _) (ext_put_fresh _ hnst)
  constructor
  · intro x
    have e1 := hI1 x
    have h1 := cntHold_put x s1.hold h (some (.ref n))
    have h3 : get s1.hold h = none := by simp [s1, unbind_get]
    rw [h3] at h1
    have h2 := cntStore_put x st n (some ⟨k, vs, 1⟩)
    rw [hnst] at h2
    have h4 : rcOf st x = rcOf s.store x + cntVs x vs := rcOf_incVs hpres x
    have h5 : cntStore x st = cntStore x s.store := cntStore_incVs x _ _
    simp only [rcOf_put, wt] at *
    by_cases e : n = x
    · subst e
      simp only [if_true, cntV_ref_self] at *
      simp only [s1, unbind_store] at *
      omega
    · have : cntV x (.ref n) = 0 := cntV_eq_zero (fun e' => e (Val.ref.inj e'))
      simp only [e, if_false] at *
      simp only [s1, unbind_store] at *
      omega
  · apply agree_upd h hA
    · intro j hj; simp [s1, unbind, get_put, Ne.symm hj]
    · intro j hj; rw [get_put_ne _ _ _ _ (Ne.symm hj)]
    · intro j w u _ _ _ hw; exact Rep_mono hE w u hw
    · simp only [get_put_eq]
      refine ⟨by simp, ?_⟩
      intro w u hw hu
      cases hw; cases hu
      simp only [Rep]
      refine ⟨⟨k, vs, 1⟩, get_put_eq .., rfl, ?_⟩
      exact RepL_mono hE _ _ (rep_resolve_all hA h (olds := []) (oldts := []) (by simp [RepL]) srcs)

theorem pre_update_copy {s : State} {hs : SHolders} (hI : Inv s) (hA : Agree s hs) (h k : Nat) (srcs : List Src)
    {o : Nat} {ob : Obj} {k0 : Nat} {cs : List Tree}
    (hh : get s.hold h = some (.ref o)) (hg : get s.store o = some ob) (ht : get hs h = some (.node k0 cs)) :
    let vs := srcs.map (resolve s.store s.hold h ob.slots)
    let st := incVs s.store vs
    let n := st.length
    Inv { s with store := put st n (some ⟨k, vs, 1⟩), hold := put s.hold h (some (.ref n)), pend := o :: s.pend } ∧
    Agree { s with store := put st n (some ⟨k, vs, 1⟩), hold := put s.hold h (some (.ref n)), pend := o :: s.pend }
      (put hs h (some (.node k (srcs.map (resolveS hs h cs))))) := by
  intro vs st n
  have hpres : ∀ v ∈ vs, Pres s.store v := pres_resolve_all hI h (inv_pres_slots hI hg) srcs
  have hlen : n = s.store.length := length_incVs _ _
  have hn0 : get s.store n = none := get_ge_length _ _ (by omega)
  have hnst : get st n = none := get_incVs_none hn0
  have habs := inv_absent hI (n := n) hn0
  have hvn : cntVs n vs = 0 := cntVs_zero_of_pres_absent hpres hn0
  have hE : Ext s.store (put st n (some ⟨k, vs, 1⟩)) :=
    Ext.trans (ext_incVs _ _) (ext_put_fresh _ hnst)
  have hon : o ≠ n := by intro e; rw [e] at hg; rw [hn0] at hg; cases hg
  have hrep := (hA h).2 _ _ hh ht
  simp only [Rep] at hrep
  obtain ⟨ob', hg', _, hl⟩ := hrep
  rw [hg] at hg'; cases hg'
  constructor
  · intro x
    have e1 := hI x
    have h1 := cntHold_put x s.hold h (some (.ref n))
    rw [hh] at h1
    have h2 := cntStore_put x st n (some ⟨k, vs, 1⟩)
    rw [hnst] at h2
    have h4 : rcOf st x = rcOf s.store x + cntVs x vs := rcOf_incVs hpres x
    have h5 : cntStore x st = cntStore x s.store := cntStore_incVs x _ _
    simp only [rcOf_put, wt, cntPend] at *
    by_cases e : n = x
    · subst e
      have : cntV n (.ref o) = 0 := cntV_eq_zero (fun e' => hon (Val.ref.inj e'))
      simp only [if_true, cntV_ref_self, hon, if_false] at *
      omega
    · have : cntV x (.ref n) = 0 := cntV_eq_zero (fun e' => e (Val.ref.inj e'))
      simp only [e, if_false] at *
      by_cases e2 : o = x
      · subst e2; simp only [cntV_ref_self, if_true] at *; omega
      · have : cntV x (.ref o) = 0 := cntV_eq_zero (fun e' => e2 (Val.ref.inj e'))
        simp only [e2, if_false] at *; omega
  · apply agree_upd h hA
    · intro j hj; simp only; rw [get_put_ne _ _ _ _ (Ne.symm hj)]
    · intro j hj; rw [get_put_ne _ _ _ _ (Ne.symm hj)]
    · intro j w u _ _ _ hw; exact Rep_mono hE w u hw
    · simp only [get_put_eq]
      refine ⟨by simp, ?_⟩
      intro w u hw hu
      cases hw; cases hu
      simp only [Rep]
      refine ⟨⟨k, vs, 1⟩, get_put_eq .., rfl, ?_⟩
      exact RepL_mono hE _ _ (rep_resolve_all hA h hl srcs)

/-- the counting invariant does not depend on the uniqueness test: the in-place path keeps it too -/
theorem pre_update_inplace_inv {s : State} (hI : Inv s) (h k : Nat) (srcs : List Src)
    {o : Nat} {ob : Obj} (hg : get s.store o = some ob) :
    let vs := srcs.map (resolve s.store s.hold h ob.slots)
    let st := incVs s.store vs
    Inv { s with store := put st o (some ⟨k, vs, wt Obj.rc (get st o)⟩), pend := refsOf ob.slots ++ s.pend } := by
  intro vs st
  have hpres : ∀ v ∈ vs, Pres s.store v := pres_resolve_all hI h (inv_pres_slots hI hg) srcs
  obtain ⟨ob', hg', _, hs'⟩ := ext_incVs s.store vs o ob hg
  intro x
  have e1 := hI x
  have h2 := cntStore_put x st o (some ⟨k, vs, rcOf st o⟩)
  rw [hg'] at h2
  simp only [wt, hs'] at h2
  have h4 : rcOf st x = rcOf s.store x + cntVs x vs := rcOf_incVs hpres x
  have h5 : cntStore x st = cntStore x s.store := cntStore_incVs x _ _
  show rcOf (put st o (some ⟨k, vs, rcOf st o⟩)) x
    = cntHold x s.hold + cntStore x (put st o (some ⟨k, vs, rcOf st o⟩)) + cntPend x (refsOf ob.slots ++ s.pend)
  rw [rcOf_put, cntPend_append, cntPend_refsOf]
  by_cases e : o = x
  · subst e; simp only [if_true, wt]; omega
  · simp only [e, if_false]; omega

theorem pre_update_inplace_agree {s : State} {hs : SHolders} (hI : Inv s) (hA : Agree s hs) (h k : Nat) (srcs : List Src)
    {o : Nat} {ob : Obj} {k0 : Nat} {cs : List Tree}
    (hh : get s.hold h = some (.ref o)) (hg : get s.store o = some ob) (ht : get hs h = some (.node k0 cs))
    (huniq : ob.rc = 1) :
    let vs := srcs.map (resolve s.store s.hold h ob.slots)
    let st := incVs s.store vs
    Agree { s with store := put st o (some ⟨k, vs, wt Obj.rc (get st o)⟩), pend := refsOf ob.slots ++ s.pend }
      (put hs h (some (.node k (srcs.map (resolveS hs h cs))))) := by
  intro vs st
  -- the holder `h` is the only reference to `o`
  have e1 := hI o
  have hrc : rcOf s.store o = 1 := by simp [rcOf, hg, wt, huniq]
  have hge : 1 ≤ cntHold o s.hold := by
    have := wt_le_sumBy (cntV o) s.hold h
    rw [hh] at this; simpa [wt, cntV_ref_self, cntHold] using this
  have hH : cntHold o s.hold ≤ 1 := by omega
  have hS : cntStore o s.store = 0 := by omega
  have hrep := (hA h).2 _ _ hh ht
  simp only [Rep] at hrep
  obtain ⟨ob', hg', _, hl⟩ := hrep
  rw [hg] at hg'; cases hg'
  -- no new slot refers to `o`
  have hvs0 : cntVs o vs = 0 := by
    have hsrc : ∀ src, cntV o (resolve s.store s.hold h ob.slots src) = 0 := by
      intro src
      cases src with
      | old i =>
        have := cntV_slotAt_le o ob.slots i
        have := slots_zero_of_cntStore_zero hS hg
        simp only [resolve]; omega
      | lit a => rfl
      | hold h2 =>
        simp only [resolve]; split
        · rfl
        · rename_i hne
          unfold holdVal
          cases hv : get s.hold h2 with
          | none => rfl
          | some v => exact cntV_eq_zero (other_holder_ne hH hh hne hv)
      | slot h2 i =>
        simp only [resolve]; split
        · rfl
        · have hle := cntV_slotAt_le o (slotsOf s.store (holdVal s.hold h2)) i
          have hz : cntVs o (slotsOf s.store (holdVal s.hold h2)) = 0 := by
            cases hv : holdVal s.hold h2 with
            | atom a => rfl
            | ref q =>
              simp only [slotsOf]
              cases hq : get s.store q with
              | none => rfl
              | some obq => exact slots_zero_of_cntStore_zero hS hq
          omega
    have : ∀ (l : List Src), cntVs o (l.map (resolve s.store s.hold h ob.slots)) = 0 := by
      intro l
      induction l with
      | nil => rfl
      | cons a l ih => simp only [List.map, cntVs, hsrc a, ih]
    exact this srcs
  -- the other objects keep their payload and do not mention `o`
  have hframe : ∀ p obp, get s.store p = some obp → p ≠ o →
      ∃ ob', get (put st o (some ⟨k, vs, wt Obj.rc (get st o)⟩)) p = some ob' ∧ ob'.kind = obp.kind ∧ ob'.slots = obp.slots := by
    intro p obp hp hne
    obtain ⟨ob', hg', hk', hs'⟩ := ext_incVs s.store vs p obp hp
    exact ⟨ob', by rw [get_put_ne _ _ _ _ (Ne.symm hne)]; exact hg', hk', hs'⟩
  have hslots : ∀ p obp, get s.store p = some obp → p ≠ o → cntVs o obp.slots = 0 :=
    fun p obp hp _ => slots_zero_of_cntStore_zero hS hp
  apply agree_upd h hA
  · intro j _; rfl
  · intro j hj; rw [get_put_ne _ _ _ _ (Ne.symm hj)]
  · intro j w u hj hw _ hr
    exact Rep_frame hframe hslots w u (other_holder_ne hH hh hj hw) hr
  · simp only [get_put_eq, hh]
    refine ⟨by simp, ?_⟩
    intro w u hw hu
    cases hw; cases hu
    simp only [Rep]
    refine ⟨⟨k, vs, _⟩, get_put_eq .., rfl, ?_⟩
    exact RepL_frame hframe hslots _ _ hvs0 (rep_resolve_all hA h hl srcs)

end SteelVerif.C03
