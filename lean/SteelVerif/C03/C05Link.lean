/-
C03 ∘ C05 — the uniqueness test of the refinement theorem is the PROVED one.

C05 (`SteelVerif.C05`) models `steel_rc::BiasedRc` for one object and any number of threads at the granularity of
single shared accesses, and proves for EVERY schedule that `has_unique_ref` grants exclusive access only to the
holder of the only counted reference (`unique_access_sound`).  Here that theorem is turned into the hypothesis
`SoundTest` of `inplace_refines_persistent`:

* `c05_unique_true_total_one`: in every reachable state of C05's machine, if a thread is at the final load of
  `has_unique_ref` and the word it is about to read makes the answer `true`, then exactly one counted reference
  exists (`total = 1`).
* `RcHistory`: a per-object history of count operations (a C05 schedule) whose number of counted references is the
  object's count in the C03 store — both sides count the same things: C03's `Inv` says `rc = #holders + #slots`,
  C05's `total_is_sum` says `total = Σ held + in flight + queued`.  `RcHistory.test` is the answer of C05's
  `has_unique_ref` at the end of the history.
* `soundTest_of_c05`: that test is a `SoundTest`; `inplace_refines_persistent_c05`: hence every operation list (and,
  with `program_refines`, every program) refines the persistent semantics when the in-place path is guarded by the
  real test.

What is NOT proved: that the history of an object in the real VM is related to its C03 count as `count_ok` says
(i.e. the product of the two models: every clone / drop of C03 is a completed `clone` / `drop` of C05 on the same
object, by the thread that owns the holder).  It is stated as the field `count_ok`, not hidden.
-/
import SteelVerif.C05.Props
import SteelVerif.C03.LemmasRun
namespace SteelVerif.C03
open SteelVerif

/-- C05, restated for the composition: the final load of `has_unique_ref` answers `true` only when exactly one
counted reference exists — in every state reachable by any schedule of any number of threads. -/
theorem c05_unique_true_total_one (sched : List (C05.Tid × C05.Act)) (t : C05.Tid) (th : C05.Thread)
    (hth : (C05.run C05.init sched).threads[t]? = some th)
    (hans : (th.pc = .uqLoadNone ∧ (C05.run C05.init sched).w.cnt = 1) ∨
            (th.pc = .uqLoadOwn ∧ (C05.run C05.init sched).w.cnt = 0)) :
    (C05.run C05.init sched).total = 1 := by
  have h : C05.Inv (C05.run C05.init sched) := C05.run_inv sched C05.inv_init
  generalize C05.run C05.init sched = s at h hth hans
  rcases hans with ⟨hpc, hw⟩ | ⟨hpc, hw⟩
  · have hal := C05.alive_of_pc h hth (by rw [hpc]; simp)
    have ti := h.thr t th hth
    have hok := ti.ok; simp only [C05.TOk, hpc] at hok
    have hm := h.ownerNone hal.1 hok.2
    have hcount := (h.count hal.2).2
    simp only [hm, if_true] at hcount
    rw [hw] at hcount
    exact_mod_cast hcount.symm
  · have hal := C05.alive_of_pc h hth (by rw [hpc]; simp)
    have ti := h.thr t th hth
    have hok := ti.ok; simp only [C05.TOk, hpc] at hok
    obtain ⟨hm, _⟩ := C05.owner_plain h hth hok.2.1 (by rw [hpc]; rfl) (by rw [hpc]; rfl)
    have hcount := (h.count hal.2).2
    simp only [hm, hok.2.2] at hcount
    rw [hw] at hcount
    simp at hcount
    exact_mod_cast hcount.symm

/-- the count operations performed so far on each object, as a schedule of C05's machine, and the thread that
is performing the uniqueness test -/
structure RcHistory where
  hist : Obj → Option (List (C05.Tid × C05.Act))
  tester : Obj → C05.Tid
  /-- the count of the object in the C03 store is the number of counted references of its history -/
  count_ok : ∀ ob sched, hist ob = some sched → ob.rc = (C05.run C05.init sched).total

/-- what `has_unique_ref` is about to answer at the end of a history (C05.Model: `.uqLoadNone` answers
`w.cnt = 1`, `.uqLoadOwn` answers `w.cnt = 0`; every other position answers `false` or is not at the test) -/
def c05Answer (sched : List (C05.Tid × C05.Act)) (t : C05.Tid) : Bool :=
  let s := C05.run C05.init sched
  match s.threads[t]? with
  | some th => (th.pc == .uqLoadNone && s.w.cnt == 1) || (th.pc == .uqLoadOwn && s.w.cnt == 0)
  | none => false

def RcHistory.test (H : RcHistory) (ob : Obj) : Bool :=
  match H.hist ob with
  | some sched => c05Answer sched (H.tester ob)
  | none => false

/-- the real uniqueness test is sound — by C05's theorem, not by assumption -/
theorem soundTest_of_c05 (H : RcHistory) : SoundTest H.test := by
  intro ob hU
  unfold RcHistory.test at hU
  cases hh : H.hist ob with
  | none => simp [hh] at hU
  | some sched =>
    simp only [hh, c05Answer] at hU
    cases hth : (C05.run C05.init sched).threads[H.tester ob]? with
    | none => simp [hth] at hU
    | some th =>
      simp only [hth, Bool.or_eq_true, Bool.and_eq_true, beq_iff_eq] at hU
      rw [H.count_ok ob sched hh]
      exact c05_unique_true_total_one sched (H.tester ob) th hth hU

/-- `inplace_refines_persistent` with the uniqueness test of steel-rc as C05 proves it -/
theorem inplace_refines_persistent_c05 (H : RcHistory) (ops : List Op) :
    Inv (runWith H.test {} ops) ∧ Agree (runWith H.test {} ops) (runS [] ops) :=
  let ⟨a, b, _⟩ := run_refines (soundTest_of_c05 H) ops {} [] inv_init agree_init rfl
  ⟨a, b⟩

/-! ### non-vacuity: histories in which the real test answers `true` resp. `false` -/

/-- one thread created the object and is at the last load of `has_unique_ref` -/
def histOne : List (C05.Tid × C05.Act) := [(0, .spawn), (0, .new), (0, .unique), (0, .step)]
/-- the owner cloned once (two references): the test stops at the owner's counter and answers `false` -/
def histTwo : List (C05.Tid × C05.Act) := [(0, .spawn), (0, .new), (0, .clone), (0, .unique), (0, .step)]

/-- a history table: objects with count 1 have the history `histOne`, objects with count 2 `histTwo` -/
def demoHistory : RcHistory where
  hist := fun ob => if ob.rc = 1 then some histOne else if ob.rc = 2 then some histTwo else none
  tester := fun _ => 0
  count_ok := by
    intro ob sched h
    by_cases h1 : ob.rc = 1
    · rw [if_pos h1] at h; cases h; rw [h1]; decide
    · by_cases h2 : ob.rc = 2
      · rw [if_neg h1, if_pos h2] at h; cases h; rw [h2]; decide
      · simp [h1, h2] at h

/-- the real test answers `true` on the unique object and `false` on the shared one -/
example : demoHistory.test ⟨7, [], 1⟩ = true ∧ demoHistory.test ⟨7, [], 2⟩ = false := by decide

end SteelVerif.C03
