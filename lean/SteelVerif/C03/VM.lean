/-
C03 — the stack VM over the REAL op codes (`C01C.Instr`, the alphabet `C01C.compile` emits and the one
`vm.rs` dispatches on), instrumented with reference counts: every VM value lives in the RcStore of `Model.lean`,
every place of the VM that can hold a `SteelVal` is a numbered HOLDER, and every instruction is the list of
store operations (`Op`) that says which references it clones, moves, steals or drops.

Holders of thread `tid` (`VK.tid`; numbering: `hStk`, `hFn`, `hTmp`, `hGlob`):
  * operand-stack slot `p`                      (`Vec<SteelVal>` of the thread: locals, let-bound variables, operands)
  * the function of frame `j`                   (`StackFrame.function : Gc<ByteCodeLambda>`)
  * two scratch places                          (the local variables of `vm.rs` while a value is in flight)
  * global slot `g` — shared by all threads     (`global_env`)
Captured variables are not holders: they are SLOTS of the closure object (kind `cloBase + function index`), so a
closure keeps what it captured alive exactly like a container does.

What each op code does to references (vm.rs: the arm of the same name):
  PUSHCONST/LOADINT*/TRUE/FALSE/VOID   `lit` into the new top slot
  PUSH g                               `alias` top ← global (a clone: count + 1)
  READLOCAL i                          `alias` top ← slot sp+i (clone)
  MOVEREADLOCAL i                      `move` top ← slot sp+i, then the slot is `#<void>` (no count changes: last use)
  READCAPTURED i                       `get` top ← slot i of the running closure (clone)
  SETLOCAL i                           three moves through a scratch place (`mem::replace`), the old value is pushed
  IF                                   `drop` of the condition
  PUREFUNC / NEWSCLOSURE               `new` closure object; COPYCAPTURESTACK i = a clone of slot sp+i,
                                       COPYCAPTURECLOSURE i = a clone of capture i of the running closure
  FUNC n, callee a closure             the callee MOVES from the stack into the new frame; the operands stay where
                                       they are and become the callee's locals (argument passing copies nothing)
  FUNC n, callee a primitive           the primitive gets the operand slots as `&mut SteelVal`: `plan` says which
                                       one it updates (`Op.update`: in place iff unique) and what it reads; the other
                                       operands are dropped, the result lands in the first operand's slot
                                       (`hash-union` may update its right operand instead: `VK.arms`)
  CALLGLOBAL g (+FUNC n)               as FUNC, the callee is a clone of the global
  TAILCALL / CALLGLOBALTAIL / TCOJMP   the frame's locals are dropped, the operands move down, the frame's function
                                       is replaced (moved from the stack / cloned from the global / kept)
  POPPURE / POPJMP                     everything of the frame but the top is dropped, the result moves down, the
                                       frame's function is dropped
  LETENDSCOPE n                        the scope's slots are dropped, the result moves down
  POPSINGLE                            `drop`
  BIND g / SET g                       `move` into the global (SET pushes the previous value back)
Not modelled (the step answers `unsupported`): NEWBOX/UNBOX/SETBOX (mutable boxes are outside the property),
rest-argument closures.

Immediates are tagged atoms (`encInt n = 4n`, booleans `4b+1`, `#<void> = 2`, primitive `p` = `4·code+3`), so that
integers, booleans, void and primitive procedures are distinct values; `plan` works on the integers themselves
(`decT` / `encSrc`).

Extra primitives (values in global slots like the others): `+ - < =` on integers, `call/cc`, and calling a
captured continuation.  `call/cc` captures the running thread's operand stack and frame functions into a
continuation OBJECT (kind `kontBase + index`; its slots are CLONES of every stack slot and of every frame's
function: while the continuation is alive everything on the stack has one more reference); calling it drops the
current stack and restores a clone of every captured slot.
-/
import SteelVerif.C03.Machine
import SteelVerif.C03.PrimTable
import SteelVerif.C01.Core
namespace SteelVerif.C03
open SteelVerif.C01C (Instr Const)

/-! ### immediates -/

def encInt (n : Int) : Int := 4 * n
def encBool (b : Bool) : Int := if b then 5 else 1
def encVoid : Int := 2
def encPrim (code : Nat) : Int := 4 * (code : Int) + 3

def encConst : Const → Int
  | .int n => encInt n
  | .bool b => encBool b
  | .void => encVoid

def decInt? (a : Int) : Option Int := if a % 4 = 0 then some (a / 4) else none
def decPrim? (a : Int) : Option Nat := if a % 4 = 3 ∧ 0 ≤ a then some (a / 4).toNat else none

/-- primitives of the VM: the collection primitives of `PrimTable`, integer arithmetic, `call/cc` -/
inductive VPrim where
  | coll (p : PrimOp)
  | add | sub | lt | eq
  | callcc
deriving DecidableEq, Repr, Inhabited

def VPrim.code : VPrim → Nat
  | .add => 0 | .sub => 1 | .lt => 2 | .eq => 3 | .callcc => 4
  | .coll p => 8 + PrimOp.all.idxOf p

def VPrim.ofCode (c : Nat) : Option VPrim :=
  match c with
  | 0 => some .add | 1 => some .sub | 2 => some .lt | 3 => some .eq | 4 => some .callcc
  | c => if c < 8 then none else (PrimOp.all[c - 8]?).map VPrim.coll

/-- the observation of a value, with the integers decoded for `plan` (other immediates become opaque leaves) -/
def decAtom (a : Int) : Tree := match decInt? a with | some n => .atom n | none => .node 0 []
def decT : Tree → Tree
  | .atom a => decAtom a
  | .node k cs => .node k (cs.map (fun c => match c with | .atom a => decAtom a | t => t))

def encSrc : Src → Src
  | .lit a => .lit (encInt a)
  | s => s

/-! ### control state -/

inductive VErr where
  | bad | free | arity | type | notproc | unsupported | prim (msg : String)
deriving DecidableEq, Repr, Inhabited

structure VFrame where
  sp : Nat
  retIp : Nat
  retCode : List Instr
  fn : Nat               -- index into `VK.funs`
deriving DecidableEq, Repr, Inhabited

/-- the control part of a captured continuation (the values are in the continuation object) -/
structure VKont where
  code : List Instr
  ip : Nat
  height : Nat
  frames : List VFrame
deriving DecidableEq, Repr, Inhabited

inductive VStatus where
  | running
  | returning            -- a primitive called through CALLGLOBALTAIL has pushed its result: return from the frame
  | halted               -- POPPURE with no frame: the result is in stack slot 0 .. height-1 (top)
  | error (e : VErr)
deriving DecidableEq, Repr, Inhabited

structure VK where
  tid : Nat := 0
  code : List Instr := []
  ip : Nat := 0
  height : Nat := 0
  frames : List VFrame := []                       -- innermost first
  funs : List (Nat × Bool × List Instr) := []      -- closure bodies created so far: arity, rest flag, code
  konts : List VKont := []
  status : VStatus := .running
  fast : List Bool := []       -- answers "may try the in-place path" for the next updates (default `true`); `false`
                               -- stands for `has_unique_ref` declining on a non-owner thread
  arms : List Bool := []       -- for primitives with an alternative in-place arm (`hash-union`): take it? (default `false`;
                               -- the source takes it when the left map is shared and the right one unique; every
                               -- choice is covered)
  updates : Nat := 0           -- functional updates performed (statistics)
deriving Repr, Inhabited

def cloBase : Nat := 1000
def kontBase : Nat := 1000000

/-! ### holder numbering: private holders of thread `t` are odd, globals even -/
def hPriv (t j : Nat) : Nat := 2 * (j * 64 + t) + 1
def hStk (t p : Nat) : Nat := hPriv t (3 * p)
def hFn (t j : Nat) : Nat := hPriv t (3 * j + 1)
def hTmp (t i : Nat) : Nat := hPriv t (3 * i + 2)
def hGlob (g : Nat) : Nat := 2 * g

def spOfV : List VFrame → Nat
  | [] => 0
  | f :: _ => f.sp

/-! ### the step -/

def VK.fail (k : VK) (e : VErr) : Option (List Op × VK) := some ([], { k with status := .error e })

/-- drop stack slots `[a, b)` -/
def dropRange (t a b : Nat) : List Op := (List.range' a (b - a)).map (fun p => Op.drop (hStk t p))

/-- keep the top of the stack, cut the stack down to `base`: the slots `[base, h-1)` are dropped, the top moves to
`base` (`move h h` is the identity) -/
def keepTop (t base h : Nat) : List Op := dropRange t base (h - 1) ++ [Op.move (hStk t base) (hStk t (h - 1))]

/-- `handle_pop_pure` -/
def VK.doRet (k : VK) : Option (List Op × VK) :=
  if k.height = 0 then k.fail .bad else
  match k.frames with
  | [] => some ([], { k with status := .halted })
  | f :: rest =>
    if k.height ≤ f.sp then k.fail .bad else
    some (keepTop k.tid f.sp k.height ++ [Op.drop (hFn k.tid rest.length)],
          { k with code := f.retCode, ip := f.retIp, height := f.sp + 1, frames := rest, status := .running })

def VK.nextFast (k : VK) : Bool × VK :=
  match k.fast with
  | [] => (true, { k with updates := k.updates + 1 })
  | b :: r => (b, { k with fast := r, updates := k.updates + 1 })

def VK.nextArm (k : VK) : Bool × VK :=
  match k.arms with
  | [] => (false, k)
  | b :: r => (b, { k with arms := r })

/-- a primitive applied to the operand slots `[base, base+n)`; the result lands in slot `base`; `obs` = the
observations of the operands.  Answers the operations and the new control (height = base + 1). -/
def VK.applyPrim (k : VK) (p : VPrim) (base n : Nat) (obs : List (Option Tree)) (retIp : Nat) : Option (List Op × VK) :=
  let t := k.tid
  let dropAll := dropRange t base (base + n)
  let done (k : VK) : VK := { k with ip := retIp, height := base + 1 }
  let ints : List (Option Int) := obs.map (fun o => match o with | some (.atom a) => decInt? a | _ => none)
  match p with
  | .add | .sub | .lt | .eq =>
    match ints with
    | [some a, some b] =>
      let r : Int := match p with
        | .add => encInt (a + b) | .sub => encInt (a - b)
        | .lt => encBool (a < b) | _ => encBool (a == b)
      some (dropAll ++ [Op.lit (hStk t base) r], done k)
    | [_, _] => k.fail .type
    | _ => k.fail .arity
  | .callcc => k.fail .bad      -- handled by the caller (it needs the frames)
  | .coll op =>
    if obs.any Option.isNone then k.fail .bad else
    let args : List Arg := (List.range n).map (fun i =>
      match decT ((obs.getD i none).getD (.atom 0)) with
      | .atom a => Arg.lit a
      | tr => Arg.held (hStk t (base + i)) tr)
    let others (j : Nat) : List Op := ((List.range n).filter (· ≠ j)).map (fun i => Op.drop (hStk t (base + i)))
    match plan op args with
    | .bad msg => k.fail (.prim msg)
    | .scalar r => some (dropAll ++ [Op.lit (hStk t base) (encInt r)], done k)
    | .same j => some (others j ++ [Op.move (hStk t base) (hStk t (base + j))], done k)
    | .proj j i => some ([Op.get (hTmp t 0) (hStk t (base + j)) i] ++ dropAll ++ [Op.move (hStk t base) (hTmp t 0)], done k)
    | .mk kd srcs => some ([Op.new (hTmp t 0) kd (srcs.map encSrc)] ++ dropAll ++ [Op.move (hStk t base) (hTmp t 0)], done k)
    | .upd j kd srcs =>
      let (f, k) := k.nextFast
      let (alt, k) := if op.altArm.isSome then k.nextArm else (false, k)
      match alt, op.altArm with
      | true, some j2 =>
        -- the other operand is the one that is updated (in place iff unique); same result, roles exchanged
        some ([Op.update (hStk t (base + j2)) kd ((srcs.map (swapSrc (hStk t (base + j)) (hStk t (base + j2)))).map encSrc) f]
              ++ others j2 ++ [Op.move (hStk t base) (hStk t (base + j2))], done k)
      | _, _ =>
        some ([Op.update (hStk t (base + j)) kd (srcs.map encSrc) f] ++ others j ++
              [Op.move (hStk t base) (hStk t (base + j))], done k)

/-- what the callee is, from its observation -/
inductive Callee where
  | prim (p : VPrim)
  | clo (fn arity : Nat) (rest : Bool) (body : List Instr)
  | kont (c : VKont) (nslots : Nat)
  | none (e : VErr)

def VK.callee (k : VK) : Option Tree → Callee
  | some (.atom a) =>
    match decPrim? a with
    | some c => match VPrim.ofCode c with
      | some p => .prim p
      | none => .none .notproc
    | none => .none .notproc
  | some (.node kd cs) =>
    if kd ≥ kontBase then
      match k.konts[kd - kontBase]? with
      | some c => .kont c cs.length
      | none => .none .bad
    else if kd ≥ cloBase then
      match k.funs[kd - cloBase]? with
      | some (a, r, body) => .clo (kd - cloBase) a r body
      | none => .none .bad
    else .none .notproc
  | none => .none .free

/-- `call/cc f`: operands `[base, base+1)` = `f`.  The continuation object gets a clone of every stack slot below
`base` and of every frame's function; it is pushed as the argument of `f`, which is then called. -/
def VK.callcc (k : VK) (base : Nat) (fobs : Option Tree) (retIp : Nat) : Option (List Op × VK) :=
  let t := k.tid
  match k.callee fobs with
  | .clo fn a r body =>
    if r then k.fail .unsupported else
    if a ≠ 1 then k.fail .arity else
    let kc : VKont := { code := k.code, ip := retIp, height := base, frames := k.frames }
    let srcs := (List.range base).map (fun p => Src.hold (hStk t p)) ++
                (List.range k.frames.length).map (fun j => Src.hold (hFn t j))
    some ([Op.move (hFn t k.frames.length) (hStk t base),
           Op.new (hStk t base) (kontBase + k.konts.length) srcs],
          { k with konts := k.konts ++ [kc], code := body, ip := 0, height := base + 1,
                   frames := { sp := base, retIp := retIp, retCode := k.code, fn := fn } :: k.frames })
  | .none e => k.fail e
  | _ => k.fail .unsupported

/-- calling a continuation object held in `hk` with one argument in stack slot `arg`: the current stack and frames
are dropped, a clone of every captured slot is restored, the argument becomes the result of the `call/cc` -/
def VK.reenter (k : VK) (c : VKont) (nslots hk : Nat) (fromStack : Bool) (arg : Nat) : Option (List Op × VK) :=
  let t := k.tid
  if nslots ≠ c.height + c.frames.length then k.fail .bad else
  some ([Op.move (hTmp t 0) (hStk t arg), if fromStack then Op.move (hTmp t 1) hk else Op.alias (hTmp t 1) hk] ++
        dropRange t 0 k.height ++ (List.range k.frames.length).map (fun j => Op.drop (hFn t j)) ++
        (List.range c.height).map (fun p => Op.get (hStk t p) (hTmp t 1) p) ++
        (List.range c.frames.length).map (fun j => Op.get (hFn t j) (hTmp t 1) (c.height + j)) ++
        [Op.move (hStk t c.height) (hTmp t 0), Op.drop (hTmp t 1)],
        { k with code := c.code, ip := c.ip, height := c.height + 1, frames := c.frames })

/-- `handle_function_call`: the callee is in holder `hc` (the popped stack top, or a global that is cloned),
`n` operands in `[base, base+n)`; `fromStack` = the callee holder is a stack slot (moved) or a global (cloned) -/
def VK.call (k : VK) (hc : Nat) (fromStack : Bool) (cobs : Option Tree) (base n : Nat) (obs : List (Option Tree))
    (retIp : Nat) : Option (List Op × VK) :=
  let t := k.tid
  let pop : List Op := if fromStack then [Op.drop hc] else []
  match k.callee cobs with
  | .none e => k.fail e
  | .prim .callcc =>
    if n ≠ 1 then k.fail .arity else
    match k.callcc base (obs.getD 0 none) retIp with
    | some (ops, k') => some (pop ++ ops, k')
    | none => none
  | .prim p =>
    match k.applyPrim p base n obs retIp with
    | some (ops, k') => some (pop ++ ops, k')
    | none => none
  | .kont c ns =>
    if n ≠ 1 then k.fail .arity else k.reenter c ns hc fromStack base
  | .clo fn a r body =>
    if r then k.fail .unsupported else
    if n ≠ a then k.fail .arity else
    some ([if fromStack then Op.move (hFn t k.frames.length) hc else Op.alias (hFn t k.frames.length) hc],
          { k with code := body, ip := 0, height := base + n,
                   frames := { sp := base, retIp := retIp, retCode := k.code, fn := fn } :: k.frames })

/-- `handle_tail_call` / CALLGLOBALTAIL / TCOJMP: `self = true` keeps the frame's function (TCOJMP) -/
def VK.tail (k : VK) (hc : Nat) (fromStack self : Bool) (cobs : Option Tree) (base n : Nat) (obs : List (Option Tree))
    (primReturns : Bool) (nextIp : Nat) : Option (List Op × VK) :=
  let t := k.tid
  match k.frames with
  | [] => if self then k.fail .bad else
    -- a tail call at top level is an ordinary call (the real compiler emits none there)
    k.call hc fromStack cobs base n obs nextIp
  | fr :: rest =>
    let cur := rest.length
    let slide : List Op := dropRange t fr.sp base ++
      (List.range n).map (fun i => Op.move (hStk t (fr.sp + i)) (hStk t (base + i)))
    if base < fr.sp then k.fail .bad else
    if self then
      match k.funs[fr.fn]? with
      | some (a, r, _) =>
        if r then k.fail .unsupported else
        if n ≠ a then k.fail .arity else
        some (slide, { k with ip := 0, height := fr.sp + n })
      | none => k.fail .bad
    else
    match k.callee cobs with
    | .clo fn a r body =>
      if r then k.fail .unsupported else
      if n ≠ a then k.fail .arity else
      some ([if fromStack then Op.move (hTmp t 1) hc else Op.alias (hTmp t 1) hc] ++ slide ++
            [Op.move (hFn t cur) (hTmp t 1)],
            { k with code := body, ip := 0, height := fr.sp + n, frames := { fr with fn := fn } :: rest })
    | _ =>
      match k.call hc fromStack cobs base n obs nextIp with
      | some (ops, k') =>
        some (ops, if primReturns && k'.status == .running && k'.frames.length == k.frames.length
                   then { k' with status := .returning } else k')
      | none => none

def capSrcs (t sp h cur : Nat) : List Instr → Option (List Src)
  | [] => some []
  | .COPYCAPTURESTACK i :: rest =>
    if sp + i < h then (capSrcs t sp h cur rest).map (Src.hold (hStk t (sp + i)) :: ·) else none
  | .COPYCAPTURECLOSURE i :: rest => (capSrcs t sp h cur rest).map (Src.slot (hFn t cur) i :: ·)   -- `cur` = innermost frame
  | _ :: _ => none

/-- the operand observations of a call with `n` operands below position `top` -/
def argHolders (t top n : Nat) : List Nat := (List.range n).map (fun i => hStk t (top - n + i))

def VK.want (k : VK) : List Nat :=
  let t := k.tid
  let h := k.height
  match k.status with
  | .running =>
    match k.code[k.ip]? with
    | some (.PUSH g) => [hGlob g]
    | some (.IF _) => [hStk t (h - 1)]
    | some (.READCAPTURED _) => [hFn t (k.frames.length - 1)]
    | some (.SET g) => [hGlob g]
    | some (.FUNC n) => hStk t (h - 1) :: argHolders t (h - 1) n
    | some (.TAILCALL n) => hStk t (h - 1) :: argHolders t (h - 1) n
    | some (.CALLGLOBAL g) =>
      match k.code[k.ip + 1]? with
      | some (.FUNC n) => hGlob g :: argHolders t h n
      | _ => []
    | some (.CALLGLOBALTAIL g) =>
      match k.code[k.ip + 1]? with
      | some (.TAILCALL n) => hGlob g :: argHolders t h n
      | _ => []
    | _ => []
  | _ => []

def VK.next (k : VK) (obs : List (Option Tree)) : Option (List Op × VK) :=
  let t := k.tid
  let h := k.height
  let sp := spOfV k.frames
  let adv (ops : List Op) (dh : Int) : Option (List Op × VK) :=
    some (ops, { k with ip := k.ip + 1, height := (h + dh).toNat })
  match k.status with
  | .halted => none
  | .error _ => none
  | .returning => k.doRet
  | .running =>
  match k.code[k.ip]? with
  | none => k.fail .bad
  | some ins =>
    match ins with
    | .PUSHCONST c => adv [Op.lit (hStk t h) (encConst c)] 1
    | .LOADINT0 => adv [Op.lit (hStk t h) (encInt 0)] 1
    | .LOADINT1 => adv [Op.lit (hStk t h) (encInt 1)] 1
    | .LOADINT2 => adv [Op.lit (hStk t h) (encInt 2)] 1
    | .TRUE => adv [Op.lit (hStk t h) (encBool true)] 1
    | .FALSE => adv [Op.lit (hStk t h) (encBool false)] 1
    | .VOID => adv [Op.lit (hStk t h) encVoid] 1
    | .PUSH g =>
      match obs.getD 0 none with
      | some _ => adv [Op.alias (hStk t h) (hGlob g)] 1
      | none => k.fail .free
    | .READLOCAL i =>
      if sp + i < h then adv [Op.alias (hStk t h) (hStk t (sp + i))] 1 else k.fail .bad
    | .MOVEREADLOCAL i =>
      if sp + i < h then adv [Op.move (hStk t h) (hStk t (sp + i)), Op.lit (hStk t (sp + i)) encVoid] 1 else k.fail .bad
    | .READCAPTURED i =>
      match k.frames, obs.getD 0 none with
      | _ :: rest, some (.node _ cs) =>
        if i < cs.length then adv [Op.get (hStk t h) (hFn t rest.length) i] 1 else k.fail .bad
      | _, _ => k.fail .bad
    | .SETLOCAL i =>
      if h = 0 ∨ h - 1 ≤ sp + i then k.fail .bad else
      adv [Op.move (hTmp t 0) (hStk t (sp + i)), Op.move (hStk t (sp + i)) (hStk t (h - 1)),
           Op.move (hStk t (h - 1)) (hTmp t 0)] 0
    | .IF tgt =>
      match obs.getD 0 none with
      | some v =>
        if h = 0 then k.fail .bad else
        let truthy := match v with | .atom a => a != encBool false | _ => true
        some ([Op.drop (hStk t (h - 1))], { k with ip := if truthy then k.ip + 1 else tgt, height := h - 1 })
      | none => k.fail .bad
    | .JMP tgt => some ([], { k with ip := tgt })
    | .POPJMP => k.doRet
    | .POPPURE => k.doRet
    | .PUREFUNC size =>
      match k.code[k.ip + 1]?, SteelVerif.C01C.slice k.code (k.ip + 3) (size - 3), k.code[k.ip + size]? with
      | some (.PASS r), some body, some (.ECLOSURE a) =>
        if size < 3 then k.fail .bad else
        some ([Op.new (hStk t h) (cloBase + k.funs.length) []],
              { k with ip := k.ip + size + 1, height := h + 1, funs := k.funs ++ [(a, r == 1, body)] })
      | _, _, _ => k.fail .bad
    | .NEWSCLOSURE size =>
      match k.code[k.ip + 1]?, k.code[k.ip + 3]? with
      | some (.PASS r), some (.NDEFS n) =>
        if size < 4 + n then k.fail .bad else
        match SteelVerif.C01C.slice k.code (k.ip + 4) n, SteelVerif.C01C.slice k.code (k.ip + 4 + n) (size - 4 - n),
              k.code[k.ip + size]? with
        | some words, some body, some (.ECLOSURE a) =>
          match (if k.frames.isEmpty && words.any (fun w => match w with | .COPYCAPTURECLOSURE _ => true | _ => false)
                 then none else capSrcs t sp h (k.frames.length - 1) words) with
          | some srcs =>
            some ([Op.new (hStk t h) (cloBase + k.funs.length) srcs],
                  { k with ip := k.ip + size + 1, height := h + 1, funs := k.funs ++ [(a, r == 1, body)] })
          | none => k.fail .bad
        | _, _, _ => k.fail .bad
      | _, _ => k.fail .bad
    | .NEWBOX | .UNBOX | .SETBOX => k.fail .unsupported
    | .FUNC n =>
      if h < n + 1 then k.fail .bad else
      k.call (hStk t (h - 1)) true (obs.getD 0 none) (h - 1 - n) n (obs.drop 1) (k.ip + 1)
    | .TAILCALL n =>
      if h < n + 1 then k.fail .bad else
      k.tail (hStk t (h - 1)) true false (obs.getD 0 none) (h - 1 - n) n (obs.drop 1) false (k.ip + 1)
    | .CALLGLOBAL g =>
      match k.code[k.ip + 1]? with
      | some (.FUNC n) =>
        if h < n then k.fail .bad else
        k.call (hGlob g) false (obs.getD 0 none) (h - n) n (obs.drop 1) (k.ip + 2)
      | _ => k.fail .bad
    | .CALLGLOBALTAIL g =>
      match k.code[k.ip + 1]? with
      | some (.TAILCALL n) =>
        if h < n then k.fail .bad else
        k.tail (hGlob g) false false (obs.getD 0 none) (h - n) n (obs.drop 1) true (k.ip + 2)
      | _ => k.fail .bad
    | .TCOJMP n =>
      if h < n then k.fail .bad else
      k.tail 0 false true none (h - n) n [] false 0
    | .POPSINGLE => if h = 0 then k.fail .bad else adv [Op.drop (hStk t (h - 1))] (-1)
    | .BEGINSCOPE | .LETVAR | .SDEF | .EDEF | .PASS _ => adv [] 0
    | .LETENDSCOPE n =>
      if h ≤ sp + n then k.fail .bad else
      some (keepTop t (sp + n) h, { k with ip := k.ip + 1, height := sp + n + 1 })
    | .BIND g => if h = 0 then k.fail .bad else adv [Op.move (hGlob g) (hStk t (h - 1))] (-1)
    | .SET g =>
      match obs.getD 0 none with
      | some _ =>
        if h = 0 then k.fail .bad else
        adv [Op.move (hTmp t 0) (hGlob g), Op.move (hGlob g) (hStk t (h - 1)), Op.move (hStk t (h - 1)) (hTmp t 0)] 0
      | none => k.fail .free
    | .NDEFS _ | .COPYCAPTURESTACK _ | .COPYCAPTURECLOSURE _ | .ECLOSURE _ => k.fail .bad

/-- the VM as a machine over the RcStore -/
def vm : Mach VK := { want := VK.want, next := VK.next }

/-- observations are taken to depth 1: the kind and the slots of an object, slots that are references cut -/
def vmDepth : Nat := 1

/-- the global table every program starts with: primitive `p` in global slot `p.code` -/
def primOps : List Op :=
  ([VPrim.add, .sub, .lt, .eq, .callcc] ++ PrimOp.all.map VPrim.coll).map
    (fun p => Op.lit (hGlob p.code) (encPrim p.code))

/-- the global slot of a collection primitive -/
def gOf (p : PrimOp) : Nat := (VPrim.coll p).code

end SteelVerif.C03
