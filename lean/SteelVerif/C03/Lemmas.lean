/-
C03 — lemmas about indexed lists, reference counting and the unfolding relation `Rep`.
-/
import SteelVerif.C03.Model
namespace SteelVerif.C03

/-! ### get / put / sumBy -/

theorem get_nil {α : Type} (i : Nat) : get ([] : List (Option α)) i = none := by
  cases i <;> rfl

theorem get_put_eq {α : Type} (l : List (Option α)) (i : Nat) (v : Option α) : get (put l i v) i = v := by
  induction l generalizing i with
  | nil =>
    induction i with
    | zero => rfl
    | succ i ih => simpa [put, get] using ih
  | cons x xs ih =>
    cases i with
    | zero => rfl
    | succ i => simpa [put, get] using ih i

theorem get_put_ne {α : Type} (l : List (Option α)) (i j : Nat) (v : Option α) (h : i ≠ j) :
    get (put l i v) j = get l j := by
  induction l generalizing i j with
  | nil =>
    induction i generalizing j with
    | zero =>
      cases j with
      | zero => exact absurd rfl h
      | succ j => simp [put, get]
    | succ i ih =>
      cases j with
      | zero => simp [put, get]
      | succ j =>
        have : i ≠ j := fun e => h (by rw [e])
        simpa [put, get, get_nil] using ih j this
  | cons x xs ih =>
    cases i with
    | zero =>
      cases j with
      | zero => exact absurd rfl h
      | succ j => simp [put, get]
    | succ i =>
      cases j with
      | zero => simp [put, get]
      | succ j =>
        have : i ≠ j := fun e => h (by rw [e])
        simpa [put, get] using ih i j this

theorem get_put {α : Type} (l : List (Option α)) (i j : Nat) (v : Option α) :
    get (put l i v) j = if i = j then v else get l j := by
  by_cases h : i = j
  · subst h; simp [get_put_eq]
  · simp [h, get_put_ne l i j v h]

theorem get_ge_length {α : Type} (l : List (Option α)) (i : Nat) (h : l.length ≤ i) : get l i = none := by
  induction l generalizing i with
  | nil => exact get_nil i
  | cons x xs ih =>
    cases i with
    | zero => simp at h
    | succ i => simp only [get]; exact ih i (by simpa using h)

theorem length_put_of_lt {α : Type} (l : List (Option α)) (i : Nat) (v : Option α) (h : i < l.length) :
    (put l i v).length = l.length := by
  induction l generalizing i with
  | nil => simp at h
  | cons x xs ih =>
    cases i with
    | zero => simp [put]
    | succ i => simp only [put, List.length_cons]; rw [ih i (by simpa using h)]

theorem sumBy_put {α : Type} (f : α → Nat) (l : List (Option α)) (i : Nat) (v : Option α) :
    sumBy f (put l i v) + wt f (get l i) = sumBy f l + wt f v := by
  induction l generalizing i with
  | nil =>
    induction i with
    | zero => simp [put, sumBy, get, wt]
    | succ i ih => simp only [put, sumBy, get_nil, wt] at *; omega
  | cons x xs ih =>
    cases i with
    | zero => simp only [put, sumBy, get]; omega
    | succ i => have := ih i; simp only [put, sumBy, get]; omega

theorem wt_le_sumBy {α : Type} (f : α → Nat) (l : List (Option α)) (i : Nat) : wt f (get l i) ≤ sumBy f l := by
  induction l generalizing i with
  | nil => simp [get_nil, wt]
  | cons x xs ih =>
    cases i with
    | zero => simp only [get, sumBy]; omega
    | succ i => have := ih i; simp only [get, sumBy]; omega

theorem sumBy_congr {α : Type} (f g : α → Nat) (l : List (Option α)) (h : ∀ a, f a = g a) :
    sumBy f l = sumBy g l := by
  have : f = g := funext h
  rw [this]

/-! ### counting references -/

theorem cntVs_append (o : Nat) (a b : List Val) : cntVs o (a ++ b) = cntVs o a + cntVs o b := by
  induction a with
  | nil => simp [cntVs]
  | cons v vs ih => simp only [List.cons_append, cntVs, ih]; omega

theorem cntPend_append (o : Nat) (a b : List Nat) : cntPend o (a ++ b) = cntPend o a + cntPend o b := by
  induction a with
  | nil => simp [cntPend]
  | cons v vs ih => simp only [List.cons_append, cntPend, ih]; omega

theorem cntPend_refsOf (o : Nat) (vs : List Val) : cntPend o (refsOf vs) = cntVs o vs := by
  induction vs with
  | nil => rfl
  | cons v vs ih =>
    cases v with
    | atom a => simp [refsOf, cntVs, cntV, ih]
    | ref p => simp [refsOf, cntVs, cntV, cntPend, ih]

theorem cntPend_refsOf_toList (o : Nat) (x : Option Val) :
    cntPend o (refsOf x.toList) = wt (cntV o) x := by
  cases x with
  | none => rfl
  | some v => cases v <;> simp [refsOf, cntPend, wt, cntV]

theorem cntV_ref_self (o : Nat) : cntV o (.ref o) = 1 := by simp [cntV]

theorem cntV_eq_zero {o : Nat} {v : Val} (h : v ≠ .ref o) : cntV o v = 0 := by
  cases v with
  | atom a => rfl
  | ref p =>
    have : p ≠ o := fun e => h (by rw [e])
    simp [cntV, this]

theorem ne_ref_of_cntV_zero {o : Nat} {v : Val} (h : cntV o v = 0) : v ≠ .ref o := by
  intro e; subst e; simp [cntV] at h

theorem cntVs_zero_mem {o : Nat} {vs : List Val} (h : cntVs o vs = 0) : ∀ v ∈ vs, v ≠ .ref o := by
  induction vs with
  | nil => intro v hv; cases hv
  | cons x xs ih =>
    intro v hv
    simp only [cntVs] at h
    rcases List.mem_cons.mp hv with e | hm
    · subst e; exact ne_ref_of_cntV_zero (by omega)
    · exact ih (by omega) v hm

theorem cntV_le_cntVs_of_mem {o : Nat} {vs : List Val} {v : Val} (h : v ∈ vs) : cntV o v ≤ cntVs o vs := by
  induction vs with
  | nil => cases h
  | cons x xs ih =>
    simp only [cntVs]
    rcases List.mem_cons.mp h with e | hm
    · subst e; omega
    · have := ih hm; omega

theorem slotAt_mem_or_atom (vs : List Val) (i : Nat) : slotAt vs i ∈ vs ∨ slotAt vs i = .atom 0 := by
  unfold slotAt
  by_cases h : i < vs.length
  · left; simp [List.getD, List.getElem?_eq_getElem h]
  · right; simp [List.getD, List.getElem?_eq_none (Nat.le_of_not_lt h)]

theorem cntV_slotAt_le (o : Nat) (vs : List Val) (i : Nat) : cntV o (slotAt vs i) ≤ cntVs o vs := by
  rcases slotAt_mem_or_atom vs i with h | h
  · exact cntV_le_cntVs_of_mem h
  · rw [h]; simp [cntV]

/-- a value is present: an atom, or a reference to an object of the store -/
def Pres (st : Store) : Val → Prop
  | .atom _ => True
  | .ref o => get st o ≠ none

theorem pres_of_rc_pos {st : Store} {o : Nat} (h : 0 < rcOf st o) : Pres st (.ref o) := by
  intro e; simp [rcOf, e, wt] at h

/-! ### clones -/

theorem get_incV (st : Store) (v : Val) (p : Nat) :
    get (incV st v) p =
      (get st p).map (fun ob => { ob with rc := ob.rc + cntV p v }) := by
  cases v with
  | atom a => simp [incV, cntV]
  | ref o =>
    simp only [incV]
    cases hgo : get st o with
    | none =>
      by_cases e : o = p
      · subst e; simp [hgo]
      · simp [cntV, e]
    | some ob =>
      by_cases e : o = p
      · subst e; simp [get_put_eq, hgo, cntV]
      · simp [get_put_ne _ _ _ _ e, cntV, e]

theorem rcOf_incV {st : Store} {v : Val} (hp : Pres st v) (p : Nat) :
    rcOf (incV st v) p = rcOf st p + cntV p v := by
  simp only [rcOf, get_incV]
  cases hg : get st p with
  | none =>
    cases v with
    | atom a => simp [wt, cntV]
    | ref o =>
      by_cases e : o = p
      · subst e; exact absurd hg hp
      · simp [wt, cntV, e]
  | some ob => simp [wt]

theorem pres_incV {st : Store} (v w : Val) (h : Pres st w) : Pres (incV st v) w := by
  cases w with
  | atom a => trivial
  | ref o =>
    simp only [Pres, get_incV] at *
    cases hg : get st o with
    | none => exact absurd hg h
    | some ob => simp

theorem cntStore_incV (o : Nat) (st : Store) (v : Val) : cntStore o (incV st v) = cntStore o st := by
  cases v with
  | atom a => rfl
  | ref p =>
    simp only [incV]
    cases hg : get st p with
    | none => rfl
    | some ob =>
      have := sumBy_put (fun ob => cntVs o ob.slots) st p (some { ob with rc := ob.rc + 1 })
      simp only [hg, wt] at this
      simp only [cntStore]; omega

theorem length_incV (st : Store) (v : Val) : (incV st v).length = st.length := by
  cases v with
  | atom a => rfl
  | ref p =>
    simp only [incV]
    cases hg : get st p with
    | none => rfl
    | some ob =>
      apply length_put_of_lt
      apply Nat.lt_of_not_le
      intro hle
      rw [get_ge_length st p hle] at hg; cases hg

theorem rcOf_incVs {st : Store} {vs : List Val} (hp : ∀ v ∈ vs, Pres st v) (p : Nat) :
    rcOf (incVs st vs) p = rcOf st p + cntVs p vs := by
  induction vs generalizing st with
  | nil => simp [incVs, cntVs]
  | cons v vs ih =>
    simp only [incVs, cntVs]
    rw [ih (st := incV st v) (fun w hw => pres_incV v w (hp w (List.mem_cons_of_mem _ hw)))]
    rw [rcOf_incV (hp v (List.mem_cons_self ..))]; omega

theorem cntStore_incVs (o : Nat) (st : Store) (vs : List Val) : cntStore o (incVs st vs) = cntStore o st := by
  induction vs generalizing st with
  | nil => rfl
  | cons v vs ih => simp only [incVs]; rw [ih, cntStore_incV]

theorem length_incVs (st : Store) (vs : List Val) : (incVs st vs).length = st.length := by
  induction vs generalizing st with
  | nil => rfl
  | cons v vs ih => simp only [incVs]; rw [ih, length_incV]

/-- the payload (kind and slots) of every object of `st` is the same in `st'` -/
def Ext (st st' : Store) : Prop :=
  ∀ p ob, get st p = some ob → ∃ ob', get st' p = some ob' ∧ ob'.kind = ob.kind ∧ ob'.slots = ob.slots

theorem Ext.refl (st : Store) : Ext st st := fun _ ob h => ⟨ob, h, rfl, rfl⟩

theorem Ext.trans {a b c : Store} (h1 : Ext a b) (h2 : Ext b c) : Ext a c := by
  intro p ob h
  obtain ⟨ob', h', k1, s1⟩ := h1 p ob h
  obtain ⟨ob'', h'', k2, s2⟩ := h2 p ob' h'
  exact ⟨ob'', h'', k2.trans k1, s2.trans s1⟩

theorem ext_incV (st : Store) (v : Val) : Ext st (incV st v) := by
  intro p ob h
  refine ⟨{ ob with rc := ob.rc + cntV p v }, ?_, rfl, rfl⟩
  rw [get_incV, h]; rfl

theorem ext_incVs (st : Store) (vs : List Val) : Ext st (incVs st vs) := by
  induction vs generalizing st with
  | nil => exact Ext.refl st
  | cons v vs ih => exact Ext.trans (ext_incV st v) (ih (incV st v))

/-- converse direction for `incVs`: nothing appears -/
theorem get_incVs_none {st : Store} {vs : List Val} {p : Nat} (h : get st p = none) : get (incVs st vs) p = none := by
  induction vs generalizing st with
  | nil => exact h
  | cons v vs ih => apply ih; rw [get_incV, h]; rfl

theorem slots_incVs {st : Store} {vs : List Val} {p : Nat} {ob : Obj} (h : get st p = some ob) :
    ∃ ob', get (incVs st vs) p = some ob' ∧ ob'.kind = ob.kind ∧ ob'.slots = ob.slots :=
  ext_incVs st vs p ob h

theorem ext_put_fresh {st : Store} {n : Nat} (ob : Obj) (h : get st n = none) : Ext st (put st n (some ob)) := by
  intro p ob' hp
  have : n ≠ p := by intro e; subst e; rw [h] at hp; cases hp
  exact ⟨ob', by rw [get_put_ne _ _ _ _ this]; exact hp, rfl, rfl⟩

theorem ext_put_same {st : Store} {o : Nat} {ob ob2 : Obj} (h : get st o = some ob)
    (hk : ob2.kind = ob.kind) (hs : ob2.slots = ob.slots) : Ext st (put st o (some ob2)) := by
  intro p ob' hp
  by_cases e : o = p
  · subst e; rw [h] at hp; cases hp; exact ⟨ob2, get_put_eq .., hk, hs⟩
  · exact ⟨ob', by rw [get_put_ne _ _ _ _ e]; exact hp, rfl, rfl⟩

/-! ### the unfolding relation -/

mutual
theorem Rep_mono {st st' : Store} (h : Ext st st') : ∀ (v : Val) (t : Tree), Rep st v t → Rep st' v t
  | .atom _, .atom _, hr => by simpa [Rep] using hr
  | .ref o, .node k cs, hr => by
    simp only [Rep] at hr ⊢
    obtain ⟨ob, hg, hk, hl⟩ := hr
    obtain ⟨ob', hg', hk', hs'⟩ := h o ob hg
    exact ⟨ob', hg', hk'.trans hk, by rw [hs']; exact RepL_mono h ob.slots cs hl⟩
  | .atom _, .node _ _, hr => by simp [Rep] at hr
  | .ref _, .atom _, hr => by simp [Rep] at hr
theorem RepL_mono {st st' : Store} (h : Ext st st') : ∀ (vs : List Val) (ts : List Tree), RepL st vs ts → RepL st' vs ts
  | [], [], _ => by simp [RepL]
  | v :: vs, t :: ts, hr => by
    simp only [RepL] at hr ⊢
    exact ⟨Rep_mono h v t hr.1, RepL_mono h vs ts hr.2⟩
  | [], _ :: _, hr => by simp [RepL] at hr
  | _ :: _, [], hr => by simp [RepL] at hr
end

mutual
/-- frame: changing (or removing) object `b` does not affect a value that cannot reach `b` -/
theorem Rep_frame {st st' : Store} {b : Nat}
    (h : ∀ p ob, get st p = some ob → p ≠ b →
      ∃ ob', get st' p = some ob' ∧ ob'.kind = ob.kind ∧ ob'.slots = ob.slots)
    (hs : ∀ p ob, get st p = some ob → p ≠ b → cntVs b ob.slots = 0) :
    ∀ (v : Val) (t : Tree), v ≠ .ref b → Rep st v t → Rep st' v t
  | .atom _, .atom _, _, hr => by simpa [Rep] using hr
  | .ref o, .node k cs, hne, hr => by
    simp only [Rep] at hr ⊢
    obtain ⟨ob, hg, hk, hl⟩ := hr
    have hob : o ≠ b := fun e => hne (by rw [e])
    obtain ⟨ob', hg', hk', hs'⟩ := h o ob hg hob
    exact ⟨ob', hg', hk'.trans hk, by rw [hs']; exact RepL_frame h hs ob.slots cs (hs o ob hg hob) hl⟩
  | .atom _, .node _ _, _, hr => by simp [Rep] at hr
  | .ref _, .atom _, _, hr => by simp [Rep] at hr
theorem RepL_frame {st st' : Store} {b : Nat}
    (h : ∀ p ob, get st p = some ob → p ≠ b →
      ∃ ob', get st' p = some ob' ∧ ob'.kind = ob.kind ∧ ob'.slots = ob.slots)
    (hs : ∀ p ob, get st p = some ob → p ≠ b → cntVs b ob.slots = 0) :
    ∀ (vs : List Val) (ts : List Tree), cntVs b vs = 0 → RepL st vs ts → RepL st' vs ts
  | [], [], _, _ => by simp [RepL]
  | v :: vs, t :: ts, hz, hr => by
    simp only [RepL] at hr ⊢
    simp only [cntVs] at hz
    exact ⟨Rep_frame h hs v t (ne_ref_of_cntV_zero (by omega)) hr.1, RepL_frame h hs vs ts (by omega) hr.2⟩
  | [], _ :: _, _, hr => by simp [RepL] at hr
  | _ :: _, [], _, hr => by simp [RepL] at hr
end

theorem RepL_slotAt {st : Store} : ∀ (vs : List Val) (ts : List Tree) (i : Nat),
    RepL st vs ts → Rep st (slotAt vs i) (childAt ts i)
  | [], [], i, _ => by simp [slotAt, childAt, Rep]
  | v :: vs, t :: ts, 0, hr => by simp only [RepL] at hr; simpa [slotAt, childAt] using hr.1
  | v :: vs, t :: ts, i + 1, hr => by
    simp only [RepL] at hr
    have := RepL_slotAt vs ts i hr.2
    simpa [slotAt, childAt] using this
  | [], _ :: _, _, hr => by simp [RepL] at hr
  | _ :: _, [], _, hr => by simp [RepL] at hr

theorem Rep_atom0 (st : Store) : Rep st (.atom 0) (.atom 0) := by simp [Rep]

/-- slots of the object a represented value refers to -/
theorem Rep_slotsOf {st : Store} {v : Val} {t : Tree} (h : Rep st v t) : RepL st (slotsOf st v) t.children := by
  cases v with
  | atom a => cases t <;> simp [slotsOf, Tree.children, RepL, Rep] at *
  | ref o =>
    cases t with
    | atom a => simp [Rep] at h
    | node k cs =>
      simp only [Rep] at h
      obtain ⟨ob, hg, _, hl⟩ := h
      simpa [slotsOf, hg, Tree.children] using hl

end SteelVerif.C03
