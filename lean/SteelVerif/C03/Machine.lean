/-
C03 — programs instead of hand-written operation lists: a generic small-step machine over the RcStore.

A machine has a control state `K` (code, instruction pointer, stack height, frames, … — whatever it needs) and at
every step
  * names the holders it wants to look at (`want`),
  * receives their OBSERVATION — the value unfolded to depth `d` (`peekM`: atoms, and for a reference the kind and
    the slots of the object, cut below depth `d`).  Nothing else of the store is visible to the control: not the
    identity of an object, not its count;
  * answers with a list of store operations (`Op`: clone / move / drop / derived read / new / functional update) and
    the next control state, or halts.
The same machine runs on the mechanism M (`runM`: the reference-counted store, updates in place when the uniqueness
test says so) and on the specification S (`runS`: holders map to pure trees).  `MachineLemmas.mach_refines` proves
that the two runs are in lock step for every machine, every program of it, every number of steps.

`VM.lean` instantiates `K` with a stack VM over the real op codes (`C01C.Instr`), `Mach.par` interleaves several
machines over the same store (threads).
-/
import SteelVerif.C03.Model
namespace SteelVerif.C03

mutual
/-- a pure value cut below depth `d` (a node at depth `d` keeps its kind, loses its children) -/
def cut : Nat → Tree → Tree
  | _, .atom a => .atom a
  | 0, .node k _ => .node k []
  | d + 1, .node k cs => .node k (cutL d cs)
def cutL : Nat → List Tree → List Tree
  | _, [] => []
  | d, t :: ts => cut d t :: cutL d ts
end

/-- what the control of a machine sees of a value held in M: the same cut, read off the store -/
def peekV (st : Store) : Nat → Val → Tree
  | _, .atom a => .atom a
  | 0, .ref o =>
    match get st o with
    | some ob => .node ob.kind []
    | none => .atom 0
  | d + 1, .ref o =>
    match get st o with
    | some ob => .node ob.kind (ob.slots.map (peekV st d))
    | none => .atom 0

def peekM (s : State) (d h : Nat) : Option Tree := (get s.hold h).map (peekV s.store d)
def peekS (hs : SHolders) (d h : Nat) : Option Tree := (get hs h).map (cut d)

structure Mach (K : Type) where
  /-- the holders whose observation the next step depends on -/
  want : K → List Nat
  /-- the step: operations on the store and the next control state; `none` = halted -/
  next : K → List (Option Tree) → Option (List Op × K)

variable {K : Type}

def Mach.stepM (m : Mach K) (U : Obj → Bool) (d : Nat) (k : K) (s : State) : Option (K × State) :=
  match m.next k ((m.want k).map (peekM s d)) with
  | none => none
  | some (ops, k') => some (k', runWith U s ops)

def Mach.stepS (m : Mach K) (d : Nat) (k : K) (hs : SHolders) : Option (K × SHolders) :=
  match m.next k ((m.want k).map (peekS hs d)) with
  | none => none
  | some (ops, k') => some (k', runS hs ops)

/-- at most `n` steps on the mechanism M -/
def Mach.runM (m : Mach K) (U : Obj → Bool) (d : Nat) : Nat → K → State → K × State
  | 0, k, s => (k, s)
  | n + 1, k, s =>
    match m.stepM U d k s with
    | none => (k, s)
    | some (k', s') => m.runM U d n k' s'

/-- at most `n` steps on the specification S -/
def Mach.runS (m : Mach K) (d : Nat) : Nat → K → SHolders → K × SHolders
  | 0, k, hs => (k, hs)
  | n + 1, k, hs =>
    match m.stepS d k hs with
    | none => (k, hs)
    | some (k', hs') => m.runS d n k' hs'

/-- a test that never answers "unique": every update copies (the always-copy primitives) -/
def neverUnique : Obj → Bool := fun _ => false

/-! ### threads: several machines over the same store, interleaved by an arbitrary schedule -/

/-- control of the interleaving: the controls of the threads and the schedule still to be played (thread
indices; an index that names no thread, or a halted thread, is skipped) -/
structure ParK (K : Type) where
  threads : List K
  sched : List Nat

def Mach.par (m : Mach K) : Mach (ParK K) where
  want := fun p =>
    match p.sched with
    | [] => []
    | t :: _ => match p.threads[t]? with
      | some k => m.want k
      | none => []
  next := fun p obs =>
    match p.sched with
    | [] => none
    | t :: rest =>
      match p.threads[t]? with
      | none => some ([], { p with sched := rest })
      | some k =>
        match m.next k obs with
        | none => some ([], { p with sched := rest })
        | some (ops, k') => some (ops, { threads := p.threads.set t k', sched := rest })

end SteelVerif.C03
