/-
C03 — immutable values never change: the in-place update optimisation is unobservable.

M (mechanism): a store of reference-counted objects `id ↦ (kind, slots, rc)`.  A slot is an atom or a
reference to another object (a list holding a hash map, a hash map holding a vector, ...).  Holders
(variables, stack slots, closure captures, continuation frames, thread-held references, channel
entries: all of them are just numbered holders here) hold an atom or a reference.  Operations:

  new / lit / alias (clone: rc+1) / move (last use: the source holder is left empty) / drop /
  get (clone of a slot: car, vector-ref, hash-ref ...: "derived" values) /
  update h k srcs fast  — the functional update of the primitives of /repo
      (`hash-insert`, `immutable-vector-push`, `cons`, `string-push`, `#%struct-update`, ...):
      `if fast ∧ unique (obj h) then` overwrite the slots of the object in place `else` allocate a
      copy; the holder `h` (the `&mut SteelVal` stack slot the primitive was given) ends up holding
      the result.

`unique` is the test the real code performs: `Gc::get_mut` / `Gc::make_mut` / `Gc::try_unwrap` →
`BiasedRc::has_unique_ref`, i.e. "the strong count is 1" (steel-rc has no weak references; C05 proves
`has_unique_ref = true → exactly one reference exists`).  The model is parameterised by the test
`U : Obj → Bool` so that the soundness theorem can be stated for every test that implies `rc = 1`
(`has_unique_ref` answers `false` for a non-owner thread even when the count is 1: the flag `fast`
of an operation stands for that), and so that a wrong test can be shown to break the refinement.

The new slots of an update are described by a list of sources (`Src`): an old slot of the object,
a literal, the value of another holder (an argument on the stack), or a slot of the object another
holder points to (append, union).  Every rearranging / inserting / deleting update of a collection
is of that form; WHICH rearrangement a Steel primitive performs is computed by the driver.

Dropping the last reference frees the object and drops its slots, recursively.  The recursion is a
work list `pend` of references still to be released (Rust: the drop glue's stack); `decLoop` runs it.

S (specification): holders map to pure trees; an update rebinds only the updating holder.
-/
namespace SteelVerif.C03

/-! ### lists indexed by identifiers -/

/-- `l[i]`, `none` outside. -/
def get {α : Type} : List (Option α) → Nat → Option α
  | [], _ => none
  | x :: _, 0 => x
  | _ :: xs, i + 1 => get xs i

/-- write position `i`, extending the list with `none` when needed -/
def put {α : Type} : List (Option α) → Nat → Option α → List (Option α)
  | [], 0, v => [v]
  | [], i + 1, v => none :: put [] i v
  | _ :: xs, 0, v => v :: xs
  | x :: xs, i + 1, v => x :: put xs i v

/-- weight of an optional entry -/
def wt {α : Type} (f : α → Nat) : Option α → Nat
  | none => 0
  | some a => f a

/-- Σ over the present entries -/
def sumBy {α : Type} (f : α → Nat) : List (Option α) → Nat
  | [] => 0
  | x :: xs => wt f x + sumBy f xs

/-! ### the mechanism M -/

inductive Val where
  | atom (a : Int)
  | ref (o : Nat)
deriving DecidableEq, Repr, Inhabited

structure Obj where
  kind : Nat
  slots : List Val
  rc : Nat
deriving DecidableEq, Repr, Inhabited

abbrev Store := List (Option Obj)
abbrev Holders := List (Option Val)

structure State where
  store : Store := []
  hold : Holders := []
  pend : List Nat := []       -- references whose release (decrement) is still to be performed
deriving DecidableEq, Repr, Inhabited

/-- where a slot of the result of an update comes from -/
inductive Src where
  | old (i : Nat)             -- slot `i` of the object being updated
  | lit (a : Int)
  | hold (h : Nat)            -- the value another holder has (an argument of the primitive)
  | slot (h i : Nat)          -- slot `i` of the object another holder points to
deriving DecidableEq, Repr, Inhabited

inductive Op where
  | new (h k : Nat) (srcs : List Src)
  | lit (h : Nat) (a : Int)
  | alias (h' h : Nat)
  | move (h' h : Nat)
  | drop (h : Nat)
  | get (h' h i : Nat)
  | update (h k : Nat) (srcs : List Src) (fast : Bool)
deriving DecidableEq, Repr, Inhabited

def cntV (o : Nat) : Val → Nat
  | .ref o' => if o' = o then 1 else 0
  | .atom _ => 0

def cntVs (o : Nat) : List Val → Nat
  | [] => 0
  | v :: vs => cntV o v + cntVs o vs

/-- references to `o` held by holders -/
def cntHold (o : Nat) (hs : Holders) : Nat := sumBy (cntV o) hs

/-- references to `o` stored in slots of objects -/
def cntStore (o : Nat) (st : Store) : Nat := sumBy (fun ob => cntVs o ob.slots) st

def cntPend (o : Nat) : List Nat → Nat
  | [] => 0
  | p :: ps => (if p = o then 1 else 0) + cntPend o ps

def rcOf (st : Store) (o : Nat) : Nat := wt Obj.rc (get st o)

/-- the references of a slot list, as identifiers -/
def refsOf : List Val → List Nat
  | [] => []
  | .ref o :: vs => o :: refsOf vs
  | .atom _ :: vs => refsOf vs

def slotAt (vs : List Val) (i : Nat) : Val := vs.getD i (.atom 0)

/-- clone of a value: the count of the object it refers to goes up -/
def incV (st : Store) : Val → Store
  | .atom _ => st
  | .ref o =>
    match get st o with
    | some ob => put st o (some { ob with rc := ob.rc + 1 })
    | none => st

def incVs (st : Store) : List Val → Store
  | [] => st
  | v :: vs => incVs (incV st v) vs

/-- slots of the object a value refers to (`[]` for atoms and dangling references) -/
def slotsOf (st : Store) : Val → List Val
  | .atom _ => []
  | .ref o => match get st o with
    | some ob => ob.slots
    | none => []

def holdVal (hs : Holders) (h : Nat) : Val := (get hs h).getD (.atom 0)

/-- value of a source; `self` is the holder being updated (a source never names it: the arguments of a
primitive are separate stack slots), `olds` the slots of the object being updated -/
def resolve (st : Store) (hs : Holders) (self : Nat) (olds : List Val) : Src → Val
  | .old i => slotAt olds i
  | .lit a => .atom a
  | .hold h => if h = self then .atom 0 else holdVal hs h
  | .slot h i => if h = self then .atom 0 else slotAt (slotsOf st (holdVal hs h)) i

/-- release pending references: `fuel` iterations of the drop work list -/
def decLoop : Nat → State → State
  | 0, s => s
  | fuel + 1, s =>
    match s.pend with
    | [] => s
    | o :: rest =>
      match get s.store o with
      | none => decLoop fuel { s with pend := rest }
      | some ob =>
        if ob.rc ≤ 1 then
          decLoop fuel { s with store := put s.store o none, pend := refsOf ob.slots ++ rest }
        else
          decLoop fuel { s with store := put s.store o (some { ob with rc := ob.rc - 1 }), pend := rest }

/-- enough iterations to empty the work list: every iteration lowers a count or removes an entry -/
def fuelFor (s : State) : Nat := sumBy Obj.rc s.store + s.pend.length + 1

def settle (s : State) : State := decLoop (fuelFor s) s

/-- empty holder `h`; the reference it held goes to the work list -/
def unbind (s : State) (h : Nat) : State :=
  { s with hold := put s.hold h none, pend := refsOf ((get s.hold h).toList) ++ s.pend }

/-- bind the (empty) holder `h` to a clone of `v` -/
def bindClone (s : State) (h : Nat) (v : Val) : State :=
  { s with hold := put s.hold h (some v), store := incV s.store v }

/-- the uniqueness test of the code that exists -/
def rcIsOne (ob : Obj) : Bool := ob.rc == 1

/-- one operation of the mechanism; `U` is the uniqueness test -/
def stepWith (U : Obj → Bool) (s : State) : Op → State
  | .lit h a =>
    let s1 := unbind s h
    settle { s1 with hold := put s1.hold h (some (.atom a)) }
  | .alias h' h =>
    if h' = h then s else
    let v := holdVal s.hold h
    let s1 := unbind s h'
    settle (bindClone s1 h' v)
  | .move h' h =>
    if h' = h then s else
    let s1 := unbind s h'
    settle { s1 with hold := put (put s1.hold h' (get s1.hold h)) h none }
  | .drop h => settle (unbind s h)
  | .get h' h i =>
    if h' = h then s else
    let v := slotAt (slotsOf s.store (holdVal s.hold h)) i
    let s1 := unbind s h'
    settle (bindClone s1 h' v)
  | .new h k srcs =>
    let vs := srcs.map (resolve s.store s.hold h [])
    let s1 := unbind s h
    let n := s1.store.length
    let st := incVs s1.store vs
    settle { s1 with store := put st n (some ⟨k, vs, 1⟩), hold := put s1.hold h (some (.ref n)) }
  | .update h k srcs fast =>
    match get s.hold h with
    | some (.ref o) =>
      match get s.store o with
      | some ob =>
        let vs := srcs.map (resolve s.store s.hold h ob.slots)
        let st := incVs s.store vs
        if fast && U ob then
          -- in place: the object keeps its identity, its old slots are released
          settle { s with store := put st o (some ⟨k, vs, (wt Obj.rc (get st o))⟩),
                          pend := refsOf ob.slots ++ s.pend }
        else
          -- copy: a new object; the holder lets go of the old one
          let n := st.length
          settle { s with store := put st n (some ⟨k, vs, 1⟩), hold := put s.hold h (some (.ref n)),
                          pend := o :: s.pend }
      | none => s
    | _ => s

def step (s : State) (op : Op) : State := stepWith rcIsOne s op

def runWith (U : Obj → Bool) : State → List Op → State
  | s, [] => s
  | s, op :: ops => runWith U (stepWith U s op) ops

def run (s : State) (ops : List Op) : State := runWith rcIsOne s ops

/-! ### the specification S -/

inductive Tree where
  | atom (a : Int)
  | node (k : Nat) (cs : List Tree)
deriving Repr, Inhabited

abbrev SHolders := List (Option Tree)

def childAt (cs : List Tree) (i : Nat) : Tree := cs.getD i (.atom 0)

def Tree.children : Tree → List Tree
  | .atom _ => []
  | .node _ cs => cs

def sholdVal (hs : SHolders) (h : Nat) : Tree := (get hs h).getD (.atom 0)

def resolveS (hs : SHolders) (self : Nat) (olds : List Tree) : Src → Tree
  | .old i => childAt olds i
  | .lit a => .atom a
  | .hold h => if h = self then .atom 0 else sholdVal hs h
  | .slot h i => if h = self then .atom 0 else childAt (sholdVal hs h).children i

/-- the persistent semantics: every operation rebinds one holder (and `move` empties its source) -/
def stepS (hs : SHolders) : Op → SHolders
  | .lit h a => put hs h (some (.atom a))
  | .alias h' h => if h' = h then hs else put hs h' (some (sholdVal hs h))
  | .move h' h => if h' = h then hs else put (put hs h' (get hs h)) h none
  | .drop h => put hs h none
  | .get h' h i => if h' = h then hs else put hs h' (some (childAt (sholdVal hs h).children i))
  | .new h k srcs => put hs h (some (.node k (srcs.map (resolveS hs h []))))
  | .update h k srcs _ =>
    match get hs h with
    | some (.node _ cs) => put hs h (some (.node k (srcs.map (resolveS hs h cs))))
    | _ => hs

def runS : SHolders → List Op → SHolders
  | hs, [] => hs
  | hs, op :: ops => runS (stepS hs op) ops

/-! ### what a holder observes in M -/

mutual
/-- `Rep st v t`: in store `st` the value `v` unfolds to the pure tree `t` -/
def Rep (st : Store) : Val → Tree → Prop
  | .atom a, .atom b => a = b
  | .ref o, .node k cs => ∃ ob, get st o = some ob ∧ ob.kind = k ∧ RepL st ob.slots cs
  | .atom _, .node _ _ => False
  | .ref _, .atom _ => False
def RepL (st : Store) : List Val → List Tree → Prop
  | [], [] => True
  | v :: vs, t :: ts => Rep st v t ∧ RepL st vs ts
  | [], _ :: _ => False
  | _ :: _, [] => False
end

/-- all results, or none -/
def collect (f : Val → Option Tree) : List Val → Option (List Tree)
  | [] => some []
  | v :: vs =>
    match f v, collect f vs with
    | some t, some ts => some (t :: ts)
    | _, _ => none

/-- executable unfolding with a depth bound (the driver prints it; `Rep` implies it for enough fuel) -/
def unfold (st : Store) : Nat → Val → Option Tree
  | _, .atom a => some (.atom a)
  | 0, .ref _ => none
  | fuel + 1, .ref o =>
    match get st o with
    | none => none
    | some ob => (collect (fun v => unfold st fuel v) ob.slots).map (Tree.node ob.kind)

mutual
def Tree.depth : Tree → Nat
  | .atom _ => 0
  | .node _ cs => Tree.depthL cs + 1
def Tree.depthL : List Tree → Nat
  | [] => 0
  | t :: ts => max t.depth (Tree.depthL ts)
end

/-- M and S agree on every holder: the same holders are bound, and what a holder holds in M unfolds
to the pure value it has in S -/
def Agree (s : State) (hs : SHolders) : Prop :=
  ∀ h, (get s.hold h = none ↔ get hs h = none) ∧
    ∀ v t, get s.hold h = some v → get hs h = some t → Rep s.store v t

/-- the reference count of every object is the number of references to it (holders, slots of objects,
pending releases); an absent object has no references -/
def Inv (s : State) : Prop :=
  ∀ o, rcOf s.store o = cntHold o s.hold + cntStore o s.store + cntPend o s.pend

/-- a serialisation of trees (decidable comparison of views in the `decide`d examples) -/
def Tree.enc : Tree → List Int
  | .atom a => [0, a]
  | .node k cs => 1 :: (k : Int) :: (cs.length : Int) :: encL cs
where encL : List Tree → List Int
  | [] => []
  | t :: ts => t.enc ++ encL ts

/-- view of holder `h` in M, as far as `fuel` levels -/
def viewM (s : State) (fuel : Nat) (h : Nat) : Option (List Int) :=
  match get s.hold h with
  | none => none
  | some v => (unfold s.store fuel v).map Tree.enc

def viewS (hs : SHolders) (h : Nat) : Option (List Int) := (get hs h).map Tree.enc

end SteelVerif.C03
