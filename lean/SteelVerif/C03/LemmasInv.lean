/-
C03 — the counting invariant `Inv` and the agreement `Agree` under the elementary state changes
(empty a holder, bind a holder to a clone, release pending references).
-/
import SteelVerif.C03.Lemmas
namespace SteelVerif.C03

theorem cntHold_put (o : Nat) (hs : Holders) (h : Nat) (x : Option Val) :
    cntHold o (put hs h x) + wt (cntV o) (get hs h) = cntHold o hs + wt (cntV o) x :=
  sumBy_put (cntV o) hs h x

theorem cntStore_put (o : Nat) (st : Store) (p : Nat) (x : Option Obj) :
    cntStore o (put st p x) + wt (fun ob => cntVs o ob.slots) (get st p)
      = cntStore o st + wt (fun ob => cntVs o ob.slots) x := by
  unfold cntStore
  exact sumBy_put (fun ob : Obj => cntVs o ob.slots) st p x

theorem rcOf_put (st : Store) (p : Nat) (x : Option Obj) (q : Nat) :
    rcOf (put st p x) q = if p = q then wt Obj.rc x else rcOf st q := by
  simp only [rcOf, get_put]; split <;> rfl

theorem two_le_sumBy {α : Type} (f : α → Nat) (l : List (Option α)) (i j : Nat) (h : i ≠ j) :
    wt f (get l i) + wt f (get l j) ≤ sumBy f l := by
  induction l generalizing i j with
  | nil => simp [get_nil, wt]
  | cons x xs ih =>
    cases i with
    | zero =>
      cases j with
      | zero => exact absurd rfl h
      | succ j => have := wt_le_sumBy f xs j; simp only [get, sumBy]; omega
    | succ i =>
      cases j with
      | zero => have := wt_le_sumBy f xs i; simp only [get, sumBy]; omega
      | succ j =>
        have := ih i j (fun e => h (by rw [e]))
        simp only [get, sumBy]; omega

/-- the only holder of a uniquely held object -/
theorem other_holder_ne {o : Nat} {hs : Holders} {h j : Nat} {v : Val}
    (h1 : cntHold o hs ≤ 1) (hh : get hs h = some (.ref o)) (hj : j ≠ h) (hv : get hs j = some v) :
    v ≠ .ref o := by
  intro e; subst e
  have := two_le_sumBy (cntV o) hs j h hj
  rw [hh, hv] at this
  simp only [wt, cntV_ref_self] at this
  unfold cntHold at h1; omega

theorem holder_ne_of_cntHold_zero {o : Nat} {hs : Holders} {j : Nat} {v : Val}
    (h0 : cntHold o hs = 0) (hv : get hs j = some v) : v ≠ .ref o := by
  intro e; subst e
  have := wt_le_sumBy (cntV o) hs j
  rw [hv] at this
  simp only [wt, cntV_ref_self] at this
  unfold cntHold at h0; omega

theorem slots_zero_of_cntStore_zero {o : Nat} {st : Store} {p : Nat} {ob : Obj}
    (h0 : cntStore o st = 0) (hp : get st p = some ob) : cntVs o ob.slots = 0 := by
  have := wt_le_sumBy (fun ob => cntVs o ob.slots) st p
  rw [hp] at this
  simp only [wt] at this
  unfold cntStore at h0; omega

/-! ### presence of the values that occur in a state -/

theorem inv_pres_hold {s : State} (hI : Inv s) {h : Nat} {v : Val} (hv : get s.hold h = some v) :
    Pres s.store v := by
  cases v with
  | atom a => trivial
  | ref o =>
    apply pres_of_rc_pos
    have := wt_le_sumBy (cntV o) s.hold h
    rw [hv] at this
    simp only [wt, cntV_ref_self] at this
    have hi := hI o
    unfold cntHold at hi; omega

theorem inv_pres_slots {s : State} (hI : Inv s) {p : Nat} {ob : Obj} (hp : get s.store p = some ob) :
    ∀ v ∈ ob.slots, Pres s.store v := by
  intro v hv
  cases v with
  | atom a => trivial
  | ref o =>
    apply pres_of_rc_pos
    have h1 := cntV_le_cntVs_of_mem (o := o) hv
    have h2 := wt_le_sumBy (fun ob => cntVs o ob.slots) s.store p
    rw [hp] at h2
    simp only [wt, cntV_ref_self] at h1 h2
    have hi := hI o
    unfold cntStore at hi; omega

theorem pres_slotAt {st : Store} {vs : List Val} (h : ∀ v ∈ vs, Pres st v) (i : Nat) : Pres st (slotAt vs i) := by
  rcases slotAt_mem_or_atom vs i with hm | he
  · exact h _ hm
  · rw [he]; trivial

theorem pres_holdVal {s : State} (hI : Inv s) (h : Nat) : Pres s.store (holdVal s.hold h) := by
  unfold holdVal
  cases hv : get s.hold h with
  | none => trivial
  | some v => exact inv_pres_hold hI hv

theorem pres_slotsOf {s : State} (hI : Inv s) (v : Val) : ∀ w ∈ slotsOf s.store v, Pres s.store w := by
  cases v with
  | atom a => intro w hw; simp [slotsOf] at hw
  | ref o =>
    simp only [slotsOf]
    cases hg : get s.store o with
    | none => intro w hw; simp at hw
    | some ob => exact inv_pres_slots hI hg

theorem pres_resolve {s : State} (hI : Inv s) (self : Nat) {olds : List Val}
    (ho : ∀ v ∈ olds, Pres s.store v) (src : Src) : Pres s.store (resolve s.store s.hold self olds src) := by
  cases src with
  | old i => exact pres_slotAt ho i
  | lit a => trivial
  | hold h =>
    simp only [resolve]; split
    · trivial
    · exact pres_holdVal hI h
  | slot h i =>
    simp only [resolve]; split
    · trivial
    · exact pres_slotAt (pres_slotsOf hI _) i

theorem pres_resolve_all {s : State} (hI : Inv s) (self : Nat) {olds : List Val}
    (ho : ∀ v ∈ olds, Pres s.store v) (srcs : List Src) :
    ∀ v ∈ srcs.map (resolve s.store s.hold self olds), Pres s.store v := by
  intro v hv
  obtain ⟨src, _, rfl⟩ := List.mem_map.mp hv
  exact pres_resolve hI self ho src

/-! ### agreement -/

theorem agree_upd {s s' : State} {hs hs' : SHolders} (h : Nat)
    (hA : Agree s hs)
    (hho : ∀ j, j ≠ h → get s'.hold j = get s.hold j)
    (hso : ∀ j, j ≠ h → get hs' j = get hs j)
    (hr : ∀ j v t, j ≠ h → get s.hold j = some v → get hs j = some t → Rep s.store v t → Rep s'.store v t)
    (hxy : (get s'.hold h = none ↔ get hs' h = none) ∧
      ∀ v t, get s'.hold h = some v → get hs' h = some t → Rep s'.store v t) :
    Agree s' hs' := by
  intro j
  by_cases e : j = h
  · subst e; exact hxy
  · rw [hho j e, hso j e]
    exact ⟨(hA j).1, fun v t hv ht => hr j v t e hv ht ((hA j).2 v t hv ht)⟩

/-- only the store changed -/
theorem agree_store {s s' : State} {hs : SHolders} (hA : Agree s hs) (hh : s'.hold = s.hold)
    (hr : ∀ j v t, get s.hold j = some v → get hs j = some t → Rep s.store v t → Rep s'.store v t) :
    Agree s' hs := by
  intro j
  rw [hh]
  exact ⟨(hA j).1, fun v t hv ht => hr j v t hv ht ((hA j).2 v t hv ht)⟩

theorem agree_holdVal {s : State} {hs : SHolders} (hA : Agree s hs) (h : Nat) :
    Rep s.store (holdVal s.hold h) (sholdVal hs h) := by
  have := hA h
  unfold holdVal sholdVal
  cases hv : get s.hold h with
  | none =>
    rw [this.1.mp hv]; simp [Rep]
  | some v =>
    cases ht : get hs h with
    | none => rw [this.1.mpr ht] at hv; cases hv
    | some t => simpa using this.2 v t hv ht

theorem rep_resolve {s : State} {hs : SHolders} (hA : Agree s hs) (self : Nat) {olds : List Val} {oldts : List Tree}
    (ho : RepL s.store olds oldts) (src : Src) :
    Rep s.store (resolve s.store s.hold self olds src) (resolveS hs self oldts src) := by
  cases src with
  | old i => exact RepL_slotAt olds oldts i ho
  | lit a => simp [resolve, resolveS, Rep]
  | hold h =>
    simp only [resolve, resolveS]; split
    · exact Rep_atom0 _
    · exact agree_holdVal hA h
  | slot h i =>
    simp only [resolve, resolveS]; split
    · exact Rep_atom0 _
    · exact RepL_slotAt _ _ i (Rep_slotsOf (agree_holdVal hA h))

theorem rep_resolve_all {s : State} {hs : SHolders} (hA : Agree s hs) (self : Nat) {olds : List Val} {oldts : List Tree}
    (ho : RepL s.store olds oldts) : ∀ (srcs : List Src),
    RepL s.store (srcs.map (resolve s.store s.hold self olds)) (srcs.map (resolveS hs self oldts))
  | [] => by simp [RepL]
  | src :: srcs => by
    simp only [List.map, RepL]
    exact ⟨rep_resolve hA self ho src, rep_resolve_all hA self ho srcs⟩

/-! ### emptying a holder -/

theorem unbind_store (s : State) (h : Nat) : (unbind s h).store = s.store := rfl

theorem unbind_get (s : State) (h j : Nat) : get (unbind s h).hold j = if h = j then none else get s.hold j := by
  simp [unbind, get_put]

theorem inv_unbind {s : State} (hI : Inv s) (h : Nat) : Inv (unbind s h) := by
  intro o
  have h1 := cntHold_put o s.hold h none
  have h2 := hI o
  simp only [unbind, cntPend_append, cntPend_refsOf_toList, wt] at *
  omega

theorem agree_unbind {s : State} {hs : SHolders} (hA : Agree s hs) (h : Nat) :
    Agree (unbind s h) (put hs h none) := by
  apply agree_upd h hA
  · intro j hj; rw [unbind_get]; simp [Ne.symm hj]
  · intro j hj; rw [get_put_ne _ _ _ _ (Ne.symm hj)]
  · intro j v t _ _ _ hr; exact hr
  · rw [unbind_get, get_put_eq]; simp

/-! ### releasing pending references -/

theorem decLoop_spec (n : Nat) : ∀ (s : State) (hs : SHolders), Inv s → Agree s hs →
    Inv (decLoop n s) ∧ Agree (decLoop n s) hs ∧ (decLoop n s).hold = s.hold ∧
      (s.pend = [] ∨ sumBy Obj.rc s.store < n → (decLoop n s).pend = []) := by
  induction n with
  | zero =>
    intro s hs hI hA
    refine ⟨hI, hA, rfl, ?_⟩
    intro h; rcases h with h | h
    · exact h
    · omega
  | succ n ih =>
    intro s hs hI hA
    unfold decLoop
    cases hp : s.pend with
    | nil => exact ⟨hI, hA, rfl, fun _ => hp⟩
    | cons o rest =>
      simp only
      have hio := hI o
      rw [hp] at hio
      simp only [cntPend] at hio
      cases hg : get s.store o with
      | none =>
        exfalso
        have : rcOf s.store o = 0 := by simp [rcOf, hg, wt]
        simp at hio; omega
      | some ob =>
        simp only
        have hrc : rcOf s.store o = ob.rc := by simp [rcOf, hg, wt]
        by_cases hle : ob.rc ≤ 1
        · -- the last reference: the object goes away, its slots are released
          simp only [hle, if_true]
          have hH : cntHold o s.hold = 0 := by simp at hio; omega
          have hS : cntStore o s.store = 0 := by simp at hio; omega
          have hP : cntPend o rest = 0 := by simp at hio; omega
          have hself : cntVs o ob.slots = 0 := slots_zero_of_cntStore_zero hS hg
          have hI' : Inv { s with store := put s.store o none, pend := refsOf ob.slots ++ rest } := by
            intro x
            have hx := hI x
            rw [hp] at hx
            have hst := cntStore_put x s.store o none
            rw [hg] at hst
            simp only [wt] at hst
            simp only [rcOf_put, cntPend_append, cntPend_refsOf, cntPend] at hx ⊢
            by_cases e : o = x
            · subst e; simp only [if_true, wt] at hx ⊢; omega
            · simp only [e, if_false] at hx ⊢; omega
          have hA' : Agree { s with store := put s.store o none, pend := refsOf ob.slots ++ rest } hs := by
            apply agree_store hA
            · rfl
            intro j v t hv _ hr
            apply Rep_frame (b := o) _ _ v t (holder_ne_of_cntHold_zero hH hv) hr
            · intro p ob' hp' hne
              exact ⟨ob', by simp only; rw [get_put_ne _ _ _ _ (Ne.symm hne)]; exact hp', rfl, rfl⟩
            · intro p ob' hp' _; exact slots_zero_of_cntStore_zero hS hp'
          obtain ⟨a, b, c, e⟩ := ih _ hs hI' hA'
          refine ⟨a, b, c, ?_⟩
          intro hfuel
          apply e
          right
          rcases hfuel with hfuel | hfuel
          · cases hfuel
          · have hsum := sumBy_put Obj.rc s.store o none
            rw [hg] at hsum
            simp only [wt] at hsum
            have : ob.rc = 1 := by simp at hio; omega
            simp only; omega
        · simp only [hle, if_false]
          have hI' : Inv { s with store := put s.store o (some { ob with rc := ob.rc - 1 }), pend := rest } := by
            intro x
            have hx := hI x
            rw [hp] at hx
            have hst := cntStore_put x s.store o (some { ob with rc := ob.rc - 1 })
            rw [hg] at hst
            simp only [wt] at hst
            simp only [rcOf_put, cntPend] at hx ⊢
            by_cases e : o = x
            · subst e; simp only [if_true, wt] at hx ⊢; rw [hrc] at hx; omega
            · simp only [e, if_false] at hx ⊢; omega
          have hE : Ext s.store (put s.store o (some { ob with rc := ob.rc - 1 })) :=
            ext_put_same hg rfl rfl
          have hA' : Agree { s with store := put s.store o (some { ob with rc := ob.rc - 1 }), pend := rest } hs := by
            apply agree_store hA
            · rfl
            intro j v t _ _ hr
            exact Rep_mono hE v t hr
          obtain ⟨a, b, c, e⟩ := ih _ hs hI' hA'
          refine ⟨a, b, c, ?_⟩
          intro hfuel
          apply e
          right
          rcases hfuel with hfuel | hfuel
          · cases hfuel
          · have hsum := sumBy_put Obj.rc s.store o (some { ob with rc := ob.rc - 1 })
            rw [hg] at hsum
            simp only [wt] at hsum
            simp only; omega

theorem settle_spec {s : State} {hs : SHolders} (hI : Inv s) (hA : Agree s hs) :
    Inv (settle s) ∧ Agree (settle s) hs :=
  let ⟨a, b, _, _⟩ := decLoop_spec (fuelFor s) s hs hI hA
  ⟨a, b⟩

/-- the work list is empty after `settle`: every release has been performed before the next operation
(and its uniqueness test) runs, as in the real code where a drop completes before the call returns -/
theorem settle_pend {s : State} {hs : SHolders} (hI : Inv s) (hA : Agree s hs) : (settle s).pend = [] := by
  obtain ⟨_, _, _, e⟩ := decLoop_spec (fuelFor s) s hs hI hA
  apply e
  right
  unfold fuelFor; omega

end SteelVerif.C03
