/-
C02 on the core WITH CLOSURES (`C01/Core.lean`) — property theorems.  (The theorems of `C02/Props.lean` are about the
first-order fragment and stay as they are.)

Proved here:
 * `evalC_fuel_monotone`            the reference semantics is monotone in the fuel (groundwork for every pass);
 * `dbe_preserves`                  dead-branch elimination on constant tests (`CorePassDbe.lean`): whatever the
                                    original program yields — a value with its final store and globals, or an error
                                    of some kind — the optimised program yields THE SAME, with the same fuel;
 * `dbe_outcomes_agree`             whenever both finish (with whatever fuels) the outcomes are equal;
 * `dbe_then_compile_correct`, `dbe_then_compile_errors`   with `compile_correct_core(_errors)`: the VM running the code
                                    generated for the OPTIMISED program yields the value / the error the semantics gives
                                    the ORIGINAL program.

 * `deep_sound`, `deep_sound_top`, `deep_sound_program`   GENERIC: any locally sound rewrite applied everywhere, INSIDE
                                    LAMBDA BODIES TOO, preserves the semantics up to the value correspondence
                                    `V.map (deep rw)`; instance `simplify_preserves`, `simplify_then_compile_program`.

PARTIAL / NOT DONE (of the passes asked for):
 * `dbe` (first version) does not descend into lambda bodies; `simplify` (second part of this file) does.
 * constant folding: DONE (`fold_preserves_partial`, guard = protected-slot invariant; `fold_needs_guard` outside it);
   backward direction for `dbe`: DONE (`dbe_backward`, `dbe_equiv`); backward direction for the deep passes: not done.
 * the unit-local inliner: DONE for LEAF callees (`inline_preserves_core_partial`, `inline_unit_preserves_partial`,
   `inline_then_compile_program`, `inline_pass_needs_guard`); closure lifting is NOT done.  (Older note:)  What exists for them: the guard
   (`protected_slots_stable`), the conditional congruence (`deepQ_all`: any rewrite locally sound while the protected
   slots hold what the table says), the K02a witness outside the guard.  Missing: the frame-extension lemma for an
   inlined body (`shift` of local offsets, `let_` of the operands) and, for lifting, fresh-slot reasoning.
-/
import SteelVerif.C02.CorePassDbe
import SteelVerif.C02.CorePassLocal
import SteelVerif.C02.CoreStable2
import SteelVerif.C02.CorePassFold
import SteelVerif.C02.CorePassDbeBack
import SteelVerif.C02.CorePassInline2
import SteelVerif.C02.CoreProg
namespace SteelVerif.C02C
open SteelVerif.C01C

/-- **The reference semantics is monotone in the fuel**: an outcome (value or error) reached with `fuel` is reached with
every larger fuel. -/
theorem evalC_fuel_monotone (fuel k : Nat) (e : Core) (σ : St Core) (r : Res (Val × St Core))
    (h : evalTop fuel e σ = r) (hr : r ≠ .timeout) : evalTop (fuel + k) e σ = r := evalTop_mono fuel k e σ r h hr

/-- **Dead-branch elimination preserves the outcome** — same value AND same final store/globals, or same error kind —
with the same fuel. -/
theorem dbe_preserves (fuel : Nat) (e : Core) (σ : St Core) (r : Res (Val × St Core))
    (h : evalTop fuel e σ = r) (hr : r ≠ .timeout) : evalTop fuel (dbe e) σ = r := by
  unfold evalTop at h ⊢
  cases he : evalC fuel none false e [] [] σ with
  | timeout => rw [he] at h; simp [Res.map] at h; exact absurd h.symm hr
  | err x => rw [(dbe_all fuel).1 _ _ _ _ _ _ _ he (by simp)]; rw [he] at h; exact h
  | ok x => rw [(dbe_all fuel).1 _ _ _ _ _ _ _ he (by simp)]; rw [he] at h; exact h

/-- The same inside any frame and any closure (the statement the induction proves). -/
theorem dbe_preserves_in_context (fuel : Nat) (self : Self) (tail : Bool) (e : Core) (env caps : List Val) (σ : St Core)
    (r : Res (Val × List Val × St Core)) (h : evalC fuel self tail e env caps σ = r) (hr : r ≠ .timeout) :
    evalC fuel self tail (dbe e) env caps σ = r := (dbe_all fuel).1 self tail e env caps σ r h hr

/-- Whenever the original and the optimised program both finish — with whatever fuels — their outcomes are equal. -/
theorem dbe_outcomes_agree (f1 f2 : Nat) (e : Core) (σ : St Core)
    (h1 : evalTop f1 e σ ≠ .timeout) (h2 : evalTop f2 (dbe e) σ ≠ .timeout) :
    evalTop f2 (dbe e) σ = evalTop f1 e σ := by
  have a := dbe_preserves f1 e σ _ rfl h1
  have b := evalTop_mono f1 f2 (dbe e) σ _ a h1
  have c := evalTop_mono f2 f1 (dbe e) σ _ rfl h2
  rw [Nat.add_comm] at c
  rw [← c, b]

/-- **Compiled code of the optimised program = semantics of the original** (values). -/
theorem dbe_then_compile_correct (fuel : Nat) (e : Core) (σ σ' : St Core) (v : Val)
    (h : evalTop fuel e σ = .ok (v, σ')) :
    ∃ n, run n (initCfg (compileTop (dbe e)) (toSt σ)) = .ok (toV v, toSt σ') :=
  compile_correct_core fuel (dbe e) σ σ' v (dbe_preserves fuel e σ _ h (by simp))

/-- … and errors. -/
theorem dbe_then_compile_errors (fuel : Nat) (e : Core) (σ : St Core) (k : Err) (hk : k ≠ .bad)
    (h : evalTop fuel e σ = .err k) :
    ∃ n, run n (initCfg (compileTop (dbe e)) (toSt σ)) = .err k :=
  compile_correct_core_errors fuel (dbe e) σ k hk (dbe_preserves fuel e σ _ h (by simp))

/-! ### Non-vacuity: the pass fires -/

/-- `(+ (if #f (0) 1) (if #t 2 (car 5)))` — both dead branches would raise. -/
def dbeEx : Core :=
  .callG 0 [.ite (.const (.bool false)) (.app (.const (.int 0)) []) (.const (.int 1)),
            .ite (.const (.bool true)) (.const (.int 2)) (.app (.const (.int 5)) [.const (.int 5)])]

example : clen (dbe dbeEx) = 4 ∧ clen dbeEx = 15 := by decide
example : (match evalTop 10 dbeEx ⟨[], primGlobals⟩ with | .ok (v, _) => V.toInt? v | _ => none) = some 3 := by decide
example : (match evalTop 10 (dbe dbeEx) ⟨[], primGlobals⟩ with | .ok (v, _) => V.toInt? v | _ => none) = some 3 := by
  decide
example : compileTop (dbe dbeEx) = [.LOADINT1, .LOADINT2, .CALLGLOBAL 0, .FUNC 2, .POPPURE] := by decide

/-! ## Passes that descend into lambda bodies: the value correspondence `V.map pass`

`CoreDeep.lean` / `CoreDeep2.lean`: for ANY local rewrite `rw` that is locally sound (`LocalSound rw`: `rw e'` yields in
every frame, closure and state what `e'` yields, with the same fuel), the pass `deep rw` — `rw` applied bottom-up at
every node, inside lambda bodies to any nesting — preserves the reference semantics up to `V.map (deep rw)`: closure
values of the optimised run are those of the original run with their bodies optimised; likewise the closures in the
frame slots, in the store and in the global table; error kinds are equal.  Two instances: dead-branch elimination
(`rwDbe`) and dead constant statements (`rwSeq`), together `simplify`. -/

/-- **Generic theorem for local-rewrite passes** (full strength: values, frame, store, globals, error kinds; same
fuel; any frame, any running closure, any state). -/
theorem deep_sound (rw : Core → Core) (hls : LocalSound rw) (fuel : Nat) (self : Self) (tail : Bool) (e : Core)
    (env caps : List Val) (σ : St Core) (r : Res (Val × List Val × St Core))
    (h : evalC fuel self tail e env caps σ = r) (hr : r ≠ .timeout) :
    evalC fuel (mSelf rw self) tail (deep rw e) (mL rw env) (mL rw caps) (mS rw σ) = mR3 rw r :=
  (deep_all rw hls fuel).1 self tail e env caps σ r h hr

/-- Top-level form: the optimised program, run from the correspondingly optimised state (the closures already in the
store / globals have their bodies optimised too — e.g. the definitions of earlier forms of the same unit), yields the
corresponding outcome. -/
theorem deep_sound_top (rw : Core → Core) (hls : LocalSound rw) (fuel : Nat) (e : Core) (σ : St Core)
    (r : Res (Val × St Core)) (h : evalTop fuel e σ = r) (hr : r ≠ .timeout) :
    evalTop fuel (deep rw e) (mS rw σ) = r.map (fun p => (mV rw p.1, mS rw p.2)) := by
  unfold evalTop at h ⊢
  cases he : evalC fuel none false e [] [] σ with
  | timeout => rw [he] at h; simp [Res.map] at h; exact absurd h.symm hr
  | err x =>
    have := deep_sound rw hls fuel none false e [] [] σ _ he (by simp)
    simp only [mSelf, List.map_nil] at this
    rw [this]; rw [he] at h; subst h; simp [mR3, Res.map]
  | ok x =>
    have := deep_sound rw hls fuel none false e [] [] σ _ he (by simp)
    simp only [mSelf, List.map_nil] at this
    rw [this]; rw [he] at h; subst h; simp [mR3, Res.map]

/-- **`simplify` (dead branches + dead constant statements, everywhere, inside lambda bodies too) preserves the
semantics** up to `V.map simplify`. -/
theorem simplify_preserves (fuel : Nat) (e : Core) (σ : St Core) (r : Res (Val × St Core))
    (h : evalTop fuel e σ = r) (hr : r ≠ .timeout) :
    evalTop fuel (simplify e) (mS rwSimpl σ) = r.map (fun p => (mV rwSimpl p.1, mS rwSimpl p.2)) :=
  deep_sound_top rwSimpl rwSimpl_sound fuel e σ r h hr

/-- Whole programs (a unit = a list of top-level forms): every form optimised, same values up to the correspondence. -/
theorem deep_sound_program (rw : Core → Core) (hls : LocalSound rw) (fuel : Nat) : ∀ (es : List Core) (σ : St Core)
    (vs : List Val) (σ' : St Core), evalProgram fuel es σ = .ok (vs, σ') →
    evalProgram fuel (es.map (deep rw)) (mS rw σ) = .ok (mL rw vs, mS rw σ') := by
  intro es
  induction es with
  | nil => intro σ vs σ' h; simp [evalProgram] at h ⊢; obtain ⟨rfl, rfl⟩ := h; simp
  | cons e rest ih =>
    intro σ vs σ' h
    simp only [evalProgram] at h
    cases h1 : evalTop fuel e σ with
    | err k => simp [h1] at h
    | timeout => simp [h1] at h
    | ok p =>
      obtain ⟨v, σ1⟩ := p
      simp only [h1] at h
      cases h2 : evalProgram fuel rest σ1 with
      | err k => simp [h2, Res.map] at h
      | timeout => simp [h2, Res.map] at h
      | ok q =>
        obtain ⟨vs', σ2⟩ := q
        simp only [h2, Res.map, Res.ok.injEq, Prod.mk.injEq] at h
        obtain ⟨rfl, rfl⟩ := h
        have a := deep_sound_top rw hls fuel e σ _ h1 (by simp)
        have b := ih σ1 vs' σ2 h2
        simp only [List.map_cons, evalProgram, a, Res.map, b]

/-- **Compiled code of the optimised program = semantics of the original**, for whole units: if the original unit
yields the values `vs`, the VM running the code generated for the optimised unit (from the state with the primitives
only, which the pass leaves as it is) yields the corresponding values — closures with optimised, compiled bodies. -/
theorem simplify_then_compile_program (fuel : Nat) (es : List Core) (vs : List Val) (σ' : St Core)
    (h : evalProgram fuel es ⟨[], primGlobals⟩ = .ok (vs, σ')) :
    ∃ n, runProgram n ((es.map simplify).map compileTop) (toSt ⟨[], primGlobals⟩) =
      .ok ((mL rwSimpl vs).map toV, toSt (mS rwSimpl σ')) := by
  have a := deep_sound_program rwSimpl rwSimpl_sound fuel es _ vs σ' h
  have hp : mS rwSimpl (⟨[], primGlobals⟩ : St Core) = ⟨[], primGlobals⟩ := by
    simp [mS, mapSt, primGlobals]
  rw [hp] at a
  exact compile_correct_program fuel _ _ _ _ a

/-! ### Non-vacuity: the pass fires inside a lambda body, and the closure VALUE differs by the optimisation -/

/-- `(define (f x) (begin 7 (if #t (+ x 1) (car x))))`, `(f 41)` -/
def simplEx : List Core :=
  [.define 20 (.lam 1 false [] (.seq (.const (.int 7))
      (.ite (.const (.bool true)) (.callG 0 [.loc 0 true, .const (.int 1)]) (.app (.const (.int 5)) [.loc 0 true])))),
   .callG 20 [.const (.int 41)]]

example : simplEx.map simplify =
    [.define 20 (.lam 1 false [] (.callG 0 [.loc 0 true, .const (.int 1)])), .callG 20 [.const (.int 41)]] := rfl
example : (match evalProgram 10 simplEx ⟨[], primGlobals⟩ with | .ok (vs, _) => vs.map V.toInt? | _ => []) =
    [none, some 42] := by decide
example : (match evalProgram 10 (simplEx.map simplify) ⟨[], primGlobals⟩ with | .ok (vs, _) => vs.map V.toInt? | _ => [])
    = [none, some 42] := by decide

/-! ### The inliner across units: the guard is needed (K02a on the closure core)

NOT proved: preservation for the unit-local inliner, constant folding of primitive applications, closure lifting (see
the header).  What is DECIDED here is that the inliner's legality condition "the inlined global is assigned by no later
unit" is needed on the closure core as well: unit 1 `(define (f) 1) (define (g) (f))`, inlined to
`(define (f) 1) (define (g) 1)`; unit 2 `(set! f (lambda () 2)) (g)`.  The original program yields 2, the program
with the inlined unit yields 1 — the known finding K02a (same class predicate:
global_defined_and_used_in_one_unit_assigned_later). -/
def unit1 : List Core := [.define 20 (.lam 0 false [] (.const (.int 1))), .define 21 (.lam 0 false [] (.callG 20 []))]
def unit1Inlined : List Core :=
  [.define 20 (.lam 0 false [] (.const (.int 1))), .define 21 (.lam 0 false [] (.const (.int 1)))]
def unit2 : List Core := [.setGlob 20 (.lam 0 false [] (.const (.int 2))), .callG 21 []]

def lastInt (r : Res (List Val × St Core)) : Option Int :=
  match r with
  | .ok (vs, _) => (vs.getLast?).bind V.toInt?
  | _ => none

/-- within the unit the inlined program agrees with the original … -/
example : lastInt (evalProgram 10 (unit1 ++ [.callG 21 []]) ⟨[], primGlobals⟩) =
    lastInt (evalProgram 10 (unit1Inlined ++ [.callG 21 []]) ⟨[], primGlobals⟩) := by decide
/-- … a later unit that assigns the inlined global tells them apart (witness outside the guard). -/
theorem inline_needs_no_later_assignment_core :
    lastInt (evalProgram 10 (unit1 ++ unit2) ⟨[], primGlobals⟩) = some 2 ∧
    lastInt (evalProgram 10 (unit1Inlined ++ unit2) ⟨[], primGlobals⟩) = some 1 := by decide

/-! ## The semantic invariant for constant folding and inlining: protected global slots are stable

`noAssign ps e` (decidable, syntactic): no `define` / `set!` of a slot in `ps` occurs in `e`, lambda bodies included.
`OkSt ps σ`: every closure reachable from the store and the global table (through captured lists and lists, to any
depth) has such a body.  Then evaluation — through any calls of any closures of the state — never changes what a
protected slot holds, and stays in that class of states (`CoreStable2.lean`, `stable_all`).  This is the guard under
which a primitive application on constants may be folded and a global callee may be inlined: "the slot is assigned by no
code reachable from the state"; a LATER unit that assigns the slot is outside the guard (`noAssign` fails for it) — the
finding K02a, witnessed by `inline_needs_no_later_assignment_core`.  The fold / inline passes themselves are not proved
on the closure core yet: they need the congruence of `deep_all` with this invariant threaded through. -/

/-- **Protected slots are stable.** -/
theorem protected_slots_stable (ps : List Nat) (fuel : Nat) (e : Core) (σ σ' : St Core) (v : Val)
    (h : evalTop fuel e σ = .ok (v, σ')) (hn : noAssign ps e = true) (hst : OkSt ps σ) :
    (∀ g, g ∈ ps → lookupG g σ'.globals = lookupG g σ.globals) ∧ OkSt ps σ' ∧ OkV ps v := by
  unfold evalTop at h
  cases he : evalC fuel none false e [] [] σ with
  | timeout => simp [he, Res.map] at h
  | err k => simp [he, Res.map] at h
  | ok x =>
    obtain ⟨v', env', σ''⟩ := x
    simp only [he, Res.map, Res.ok.injEq, Prod.mk.injEq] at h
    obtain ⟨rfl, rfl⟩ := h
    obtain ⟨a1, _, a3, a4⟩ := (stable_all ps fuel).1 none false e [] [] σ v' env' σ'' he hn trivial OkL.nil OkL.nil hst
    exact ⟨a4, a3, a1⟩

/-- … for whole units: as long as no form of the unit assigns a protected slot, the slots hold after the unit what they
held before — whatever closures the unit created, stored, passed around and called. -/
theorem protected_slots_stable_program (ps : List Nat) (fuel : Nat) : ∀ (es : List Core) (σ σ' : St Core)
    (vs : List Val), evalProgram fuel es σ = .ok (vs, σ') → (∀ e, e ∈ es → noAssign ps e = true) → OkSt ps σ →
    (∀ g, g ∈ ps → lookupG g σ'.globals = lookupG g σ.globals) ∧ OkSt ps σ' := by
  intro es
  induction es with
  | nil =>
    intro σ σ' vs h _ hst
    simp [evalProgram] at h; obtain ⟨_, rfl⟩ := h
    exact ⟨fun _ _ => rfl, hst⟩
  | cons e rest ih =>
    intro σ σ' vs h hn hst
    simp only [evalProgram] at h
    cases h1 : evalTop fuel e σ with
    | err k => simp [h1] at h
    | timeout => simp [h1] at h
    | ok p =>
      obtain ⟨v, σ1⟩ := p
      simp only [h1] at h
      cases h2 : evalProgram fuel rest σ1 with
      | err k => simp [h2, Res.map] at h
      | timeout => simp [h2, Res.map] at h
      | ok q =>
        obtain ⟨vs', σ2⟩ := q
        simp only [h2, Res.map, Res.ok.injEq, Prod.mk.injEq] at h
        obtain ⟨_, rfl⟩ := h
        obtain ⟨a1, a2, _⟩ := protected_slots_stable ps fuel e σ σ1 v h1 (hn e (by simp)) hst
        obtain ⟨b1, b2⟩ := ih σ1 σ2 vs' h2 (fun e' he' => hn e' (List.mem_cons_of_mem _ he')) a2
        exact ⟨fun g hg => (b1 g hg).trans (a1 g hg), b2⟩

theorem okSt_prims (ps : List Nat) : OkSt ps (⟨[], primGlobals⟩ : St Core) := by
  refine ⟨OkL.nil, ?_⟩
  intro g v hm
  simp [primGlobals] at hm
  rcases hm with ⟨_, rfl⟩ | ⟨_, rfl⟩ | ⟨_, rfl⟩ | ⟨_, rfl⟩ | ⟨_, rfl⟩ | ⟨_, rfl⟩ <;> exact .prim _

-- non-vacuity: unit 1 does not assign `f` (slot 20 is DEFINED there, so protect the primitives and check `+`):
-- the primitives are untouched by `simplEx`; unit 2 of the K02a witness is outside the guard for slot 20
example : simplEx.all (noAssign [0, 1, 2, 3, 4, 5]) = true := by decide
example : unit2.all (noAssign [20]) = false := by decide

/-! ## Constant folding of primitive applications (guarded by the protected-slot invariant) -/

/-- Generic: a rewrite that is locally sound in the states satisfying `Q` (a predicate determined by the protected
slots), applied everywhere, preserves the semantics of a top-level form that assigns no protected slot, from a state
none of whose closures does. -/
theorem deepQ_sound_top (rw : Core → Core) (ps : List Nat) (Q : St Core → Prop) (hk : QOk ps Q rw) (fuel : Nat)
    (e : Core) (σ : St Core) (r : Res (Val × St Core)) (h : evalTop fuel e σ = r) (hr : r ≠ .timeout)
    (hn : noAssign ps e = true) (hst : OkSt ps σ) (hq : Q σ) :
    evalTop fuel (deep rw e) (mS rw σ) = r.map (fun p => (mV rw p.1, mS rw p.2)) := by
  unfold evalTop at h ⊢
  cases he : evalC fuel none false e [] [] σ with
  | timeout => rw [he] at h; simp [Res.map] at h; exact absurd h.symm hr
  | err x =>
    have := (deepQ_all rw ps Q hk fuel).1 none false e [] [] σ _ he (by simp) hn trivial OkL.nil OkL.nil hst hq
    simp only [mSelf, List.map_nil] at this
    rw [this]; rw [he] at h; subst h; simp [mR3, Res.map]
  | ok x =>
    have := (deepQ_all rw ps Q hk fuel).1 none false e [] [] σ _ he (by simp) hn trivial OkL.nil OkL.nil hst hq
    simp only [mSelf, List.map_nil] at this
    rw [this]; rw [he] at h; subst h; simp [mR3, Res.map]

/-- … and of a whole unit none of whose forms assigns a protected slot. -/
theorem deepQ_sound_program (rw : Core → Core) (ps : List Nat) (Q : St Core → Prop) (hk : QOk ps Q rw) (fuel : Nat) :
    ∀ (es : List Core) (σ : St Core) (vs : List Val) (σ' : St Core), evalProgram fuel es σ = .ok (vs, σ') →
    (∀ e, e ∈ es → noAssign ps e = true) → OkSt ps σ → Q σ →
    evalProgram fuel (es.map (deep rw)) (mS rw σ) = .ok (mL rw vs, mS rw σ') := by
  intro es
  induction es with
  | nil => intro σ vs σ' h _ _ _; simp [evalProgram] at h ⊢; obtain ⟨rfl, rfl⟩ := h; simp
  | cons e rest ih =>
    intro σ vs σ' h hn hst hq
    simp only [evalProgram] at h
    cases h1 : evalTop fuel e σ with
    | err k => simp [h1] at h
    | timeout => simp [h1] at h
    | ok p =>
      obtain ⟨v, σ1⟩ := p
      simp only [h1] at h
      cases h2 : evalProgram fuel rest σ1 with
      | err k => simp [h2, Res.map] at h
      | timeout => simp [h2, Res.map] at h
      | ok q =>
        obtain ⟨vs', σ2⟩ := q
        simp only [h2, Res.map, Res.ok.injEq, Prod.mk.injEq] at h
        obtain ⟨rfl, rfl⟩ := h
        have a := deepQ_sound_top rw ps Q hk fuel e σ _ h1 (by simp) (hn e (by simp)) hst hq
        obtain ⟨s1, s2, _⟩ := protected_slots_stable ps fuel e σ σ1 v h1 (hn e (by simp)) hst
        have b := ih σ1 vs' σ2 h2 (fun e' he' => hn e' (List.mem_cons_of_mem _ he')) s2 (hk.same _ _ s1 hq)
        simp only [List.map_cons, evalProgram, a, Res.map, b]

/-- **Constant folding preserves the semantics** (`_partial`: the exact guard is — the form assigns none of the folded
primitive slots, no closure reachable from the state does, and the slots hold their primitives).  Values, final store
and globals up to `V.map (foldPass tbl)`, error kinds equal, same fuel.  A fold that would raise is not folded, so the
error is raised at run time exactly as before. -/
theorem fold_preserves_partial (tbl : List (Nat × Prim)) (fuel : Nat) (e : Core) (σ : St Core)
    (r : Res (Val × St Core)) (h : evalTop fuel e σ = r) (hr : r ≠ .timeout)
    (hn : noAssign (tbl.map (·.1)) e = true) (hst : OkSt (tbl.map (·.1)) σ) (hq : PrimQ tbl σ) :
    evalTop fuel (foldPass tbl e) (mS (rwFold tbl) σ) =
      r.map (fun p => (mV (rwFold tbl) p.1, mS (rwFold tbl) p.2)) :=
  deepQ_sound_top (rwFold tbl) _ (PrimQ tbl) (primQ_ok tbl) fuel e σ r h hr hn hst hq

/-- Whole units from the primitives-only state, down to the VM: the compiled code of the folded unit yields the values
the semantics gives the original unit. -/
theorem fold_then_compile_program (fuel : Nat) (es : List Core) (vs : List Val) (σ' : St Core)
    (h : evalProgram fuel es ⟨[], primGlobals⟩ = .ok (vs, σ'))
    (hn : ∀ e, e ∈ es → noAssign (primTbl.map (·.1)) e = true) :
    ∃ n, runProgram n ((es.map (foldPass primTbl)).map compileTop) (toSt ⟨[], primGlobals⟩) =
      .ok ((mL (rwFold primTbl) vs).map toV, toSt (mS (rwFold primTbl) σ')) := by
  have a := deepQ_sound_program (rwFold primTbl) _ (PrimQ primTbl) (primQ_ok primTbl) fuel es _ vs σ' h hn
    (okSt_prims _) primQ_init
  have hp : mS (rwFold primTbl) (⟨[], primGlobals⟩ : St Core) = ⟨[], primGlobals⟩ := by
    simp [mS, mapSt, primGlobals]
  rw [hp] at a
  exact compile_correct_program fuel _ _ _ _ a

/-! ### Non-vacuity -/

/-- `(define (f x) (* x (+ 1 2)))`, `(f 14)`; and `(+ 1 #t)`, which is NOT folded and still raises a type error. -/
def foldEx : List Core :=
  [.define 20 (.lam 1 false [] (.callG 2 [.loc 0 true, .callG 0 [.const (.int 1), .const (.int 2)]])),
   .callG 20 [.const (.int 14)]]
example : foldEx.map (foldPass primTbl) =
    [.define 20 (.lam 1 false [] (.callG 2 [.loc 0 true, .const (.int 3)])), .callG 20 [.const (.int 14)]] := rfl
example : foldEx.all (noAssign (primTbl.map (·.1))) = true := by decide
example : (match evalProgram 10 (foldEx.map (foldPass primTbl)) ⟨[], primGlobals⟩ with
    | .ok (vs, _) => vs.map V.toInt? | _ => []) = [none, some 42] := by decide
example : foldPass primTbl (.callG 0 [.const (.int 1), .const (.bool true)]) =
    .callG 0 [.const (.int 1), .const (.bool true)] := rfl
example : (match evalTop 10 (foldPass primTbl (.callG 0 [.const (.int 1), .const (.bool true)])) ⟨[], primGlobals⟩ with
    | .err k => some k | _ => none) = some .type := by decide

/-- Witness OUTSIDE the guard: a unit that rebinds `+` (`(define + -)`) and then computes `(+ 5 2)`: the original yields
3, the folded program 7.  The form `(define + -)` fails `noAssign`. -/
def foldBad : List Core := [.define 0 (.glob 1), .callG 0 [.const (.int 5), .const (.int 2)]]
theorem fold_needs_guard :
    foldBad.all (noAssign (primTbl.map (·.1))) = false ∧
    lastInt (evalProgram 10 foldBad ⟨[], primGlobals⟩) = some 3 ∧
    lastInt (evalProgram 10 (foldBad.map (foldPass primTbl)) ⟨[], primGlobals⟩) = some 7 := by decide

/-! ## Dead-branch elimination, backward direction -/

/-- **If the optimised program finishes, so does the original, with the same outcome** — with `slack e` more fuel (the
number of eliminated constant tests nested along a path). -/
theorem dbe_backward (fuel : Nat) (e : Core) (σ : St Core) (r : Res (Val × St Core))
    (h : evalTop fuel (dbe e) σ = r) (hr : r ≠ .timeout) : evalTop (fuel + slack e) e σ = r := by
  unfold evalTop at h ⊢
  cases he : evalC fuel none false (dbe e) [] [] σ with
  | timeout => rw [he] at h; simp [Res.map] at h; exact absurd h.symm hr
  | err x => rw [dbe_back e fuel none false [] [] σ _ he (by simp)]; rw [he] at h; exact h
  | ok x => rw [dbe_back e fuel none false [] [] σ _ he (by simp)]; rw [he] at h; exact h

/-- **Dead-branch elimination is an equivalence**: for every outcome `r` (a value with its final state, or an error of
some kind), the original program yields `r` for some fuel iff the optimised program does; in particular one diverges
(runs out of every fuel) iff the other does. -/
theorem dbe_equiv (e : Core) (σ : St Core) (r : Res (Val × St Core)) (hr : r ≠ .timeout) :
    (∃ F, evalTop F e σ = r) ↔ (∃ F, evalTop F (dbe e) σ = r) :=
  ⟨fun ⟨F, h⟩ => ⟨F, dbe_preserves F e σ r h hr⟩, fun ⟨F, h⟩ => ⟨F + slack e, dbe_backward F e σ r h hr⟩⟩

example : slack dbeEx = 1 := by decide

/-! ## The unit-local inliner (`inline_function_calls`)

`CorePassInline.lean`, `CorePassInline2.lean`.  As in `analysis.rs`: at a call site of a global that an earlier `define`
of the unit binds to a capture-free lambda with exactly as many parameters as there are operands, no rest parameter and
size below the threshold, the callee identifier is replaced by the lambda itself (`rwInl`); everywhere, inside lambda
bodies too (`inlinePass`).  A callee whose body contains a self tail call IS inlinable (it remains the body of a lambda
and runs in its own frame).  The later conversion of `((lambda (x) b) a)` into a `let` is a different pass of the real
pipeline and is not modelled.

Guard of the `_partial` theorems (all decidable): `noAssign` of the inlined slots in the rest of the unit and in every
closure reachable from the state (K02a: a later unit assigning the slot is outside — `inline_pass_needs_guard`); the
inlinable bodies are LEAVES (`leafTbl`: they call no inlinable global — then the pass leaves them unchanged; the real
inliner also inlines into non-leaf callees' definitions, one level — not covered); distinct slots. -/

def tblSlots (tbl : InlTbl) : List Nat := tbl.map (·.1)

/-- The decidable legality of a table of inlinable definitions. -/
def inlLegal (tbl : InlTbl) : Bool :=
  leafTbl tbl && tbl.all (fun x => noAssign (tblSlots tbl) x.2.2) && decide (tblSlots tbl).Nodup

/-- **The inliner preserves the semantics of a form** evaluated in a state in which the table's slots hold the table's
closures — same value / final state up to `V.map (inlinePass …)`, same error kind, same fuel. -/
theorem inline_preserves_core_partial (thr : Nat) (tbl : InlTbl) (hleaf : leafTbl tbl = true) (fuel : Nat) (e : Core)
    (σ : St Core) (r : Res (Val × St Core)) (h : evalTop fuel e σ = r) (hr : r ≠ .timeout)
    (hn : noAssign (tblSlots tbl) e = true) (hst : OkSt (tblSlots tbl) σ) (hq : InlQ tbl σ) :
    evalTop fuel (inlinePass thr tbl e) (mS (rwInl thr tbl) σ) =
      r.map (fun p => (mV (rwInl thr tbl) p.1, mS (rwInl thr tbl) p.2)) :=
  deepQ_sound_top (rwInl thr tbl) _ (InlQ tbl) (inlQ_ok thr tbl hleaf) fuel e σ r h hr hn hst hq

/-- **The inliner on a whole unit**, from the state with the primitives only: the unit consists of the inlinable
definitions `defsOf tbl` followed by `rest` (further definitions, whose bodies get the calls inlined, and forms).  If the
rest assigns none of the inlined slots, the optimised unit yields the corresponding values and final state. -/
theorem inline_unit_preserves_partial (thr : Nat) (tbl : InlTbl) (hlegal : inlLegal tbl = true) (fuel : Nat)
    (rest : List Core) (vs : List Val) (σ' : St Core)
    (h : evalProgram (fuel + 2) rest (bindAll tbl ⟨[], primGlobals⟩) = .ok (vs, σ'))
    (hn : ∀ e, e ∈ rest → noAssign (tblSlots tbl) e = true) :
    evalProgram (fuel + 2) (defsOf tbl ++ rest) ⟨[], primGlobals⟩ = .ok (tbl.map (fun _ => V.void) ++ vs, σ') ∧
    evalProgram (fuel + 2) ((defsOf tbl ++ rest).map (inlinePass thr tbl)) ⟨[], primGlobals⟩ =
      .ok (tbl.map (fun _ => V.void) ++ mL (rwInl thr tbl) vs, mS (rwInl thr tbl) σ') := by
  simp only [inlLegal, Bool.and_eq_true, decide_eq_true_eq] at hlegal
  obtain ⟨⟨hleaf, hna⟩, hnd⟩ := hlegal
  have hleaf' : ∀ x, x ∈ tbl → noCallOf (tbl.map (·.1)) x.2.2 = true := by
    intro x hx; have := List.all_eq_true.1 hleaf x hx; simpa using this
  have hna' : ∀ x, x ∈ tbl → noAssign (tblSlots tbl) x.2.2 = true := by
    intro x hx; have := List.all_eq_true.1 hna x hx; simpa using this
  have hdefs := evalDefs fuel tbl ⟨[], primGlobals⟩
  constructor
  · exact evalProgram_append _ _ _ _ _ _ _ _ hdefs h
  · have hp0 : mS (rwInl thr tbl) (⟨[], primGlobals⟩ : St Core) = ⟨[], primGlobals⟩ := by
      simp [mS, mapSt, primGlobals]
    have hms := mS_bindAll (rwInl thr tbl) tbl _ hp0 (fun x hx => deep_leaf thr tbl x.2.2 (hleaf' x hx))
    have hrest := deepQ_sound_program (rwInl thr tbl) _ (InlQ tbl) (inlQ_ok thr tbl hleaf) (fuel + 2) rest _ vs σ' h hn
      (okSt_bindAll _ tbl _ (okSt_prims _) hna') (inlQ_bindAll tbl _ hnd)
    rw [hms] at hrest
    rw [List.map_append, map_defsOf thr tbl tbl hleaf']
    exact evalProgram_append _ _ _ _ _ _ _ _ hdefs hrest

/-- **Compiled code of the inlined unit = semantics of the original unit.** -/
theorem inline_then_compile_program (thr : Nat) (tbl : InlTbl) (hlegal : inlLegal tbl = true) (fuel : Nat)
    (rest : List Core) (vs : List Val) (σ' : St Core)
    (h : evalProgram (fuel + 2) rest (bindAll tbl ⟨[], primGlobals⟩) = .ok (vs, σ'))
    (hn : ∀ e, e ∈ rest → noAssign (tblSlots tbl) e = true) :
    ∃ n, runProgram n (((defsOf tbl ++ rest).map (inlinePass thr tbl)).map compileTop) (toSt ⟨[], primGlobals⟩) =
      .ok ((tbl.map (fun _ => V.void) ++ mL (rwInl thr tbl) vs).map toV, toSt (mS (rwInl thr tbl) σ')) :=
  compile_correct_program (fuel + 2) _ _ _ _ (inline_unit_preserves_partial thr tbl hlegal fuel rest vs σ' h hn).2

/-! ### Non-vacuity and the witness outside the guard -/

/-- `(define (add1 x) (+ x 1))` — a leaf; `(define (twice y) (add1 (add1 y)))`, `(twice 40)`. -/
def inlTbl : InlTbl := [(20, 1, .callG 0 [.loc 0 true, .const (.int 1)])]
def inlRest : List Core :=
  [.define 21 (.lam 1 false [] (.callG 20 [.callG 20 [.loc 0 true]])), .callG 21 [.const (.int 40)]]
example : inlLegal inlTbl = true := by decide
example : inlRest.all (noAssign (tblSlots inlTbl)) = true := by decide
-- the pass fires twice inside the body of `twice`
example : inlRest.map (inlinePass 50 inlTbl) =
    [.define 21 (.lam 1 false []
      (.app (.lam 1 false [] (.callG 0 [.loc 0 true, .const (.int 1)]))
        [.app (.lam 1 false [] (.callG 0 [.loc 0 true, .const (.int 1)])) [.loc 0 true]])),
     .callG 21 [.const (.int 40)]] := rfl
example : lastInt (evalProgram 12 ((defsOf inlTbl ++ inlRest).map (inlinePass 50 inlTbl)) ⟨[], primGlobals⟩) = some 42 := by
  decide
-- below the threshold only: with threshold 3 the body (4 instructions) is not inlined
example : inlRest.map (inlinePass 3 inlTbl) = inlRest := rfl

/-- K02a with the pass itself: unit 1 defines `f` (inlinable leaf) and `g` calling it; unit 2 assigns `f` and calls `g`.
The original yields 2, the program with the inliner applied 1; unit 2 fails `noAssign` of the inlined slot. -/
def tblK : InlTbl := [(20, 0, .const (.int 1))]
def restK : List Core := [.define 21 (.lam 0 false [] (.callG 20 []))] ++ unit2
theorem inline_pass_needs_guard :
    inlLegal tblK = true ∧ restK.all (noAssign (tblSlots tblK)) = false ∧
    lastInt (evalProgram 12 (defsOf tblK ++ restK) ⟨[], primGlobals⟩) = some 2 ∧
    lastInt (evalProgram 12 ((defsOf tblK ++ restK).map (inlinePass 50 tblK)) ⟨[], primGlobals⟩) = some 1 := by
  decide

/-! ## Observable behaviour is independent of the optimisation configuration

`CoreObs.lean`, `CoreProg.lean`.  The observable of a value: integers, booleans, void, lists of observables; procedures
and boxes are opaque (as when printed).  The value correspondence of every pass leaves the observable unchanged
(`obs_map`).  For a unit, the observable outcome is the list of observables of its forms' values, or the kind of the
first error.  For each of the configurations below the observable outcome of the optimised unit equals that of the
unoptimised unit — hence all configurations agree pairwise. -/

inductive OptCfg where
  | none | simplify | fold | inline | simplifyFold | simplifyInline
deriving DecidableEq, Repr

def applyCfg (thr : Nat) (tbl : InlTbl) : OptCfg → List Core → List Core
  | .none, es => es
  | .simplify, es => es.map simplify
  | .fold, es => es.map (foldPass primTbl)
  | .inline, es => es.map (inlinePass thr tbl)
  | .simplifyFold, es => (es.map (foldPass primTbl)).map simplify
  | .simplifyInline, es => (es.map (inlinePass thr tbl)).map simplify

theorem obs_ne {a b : Res (List Val × St Core)} (h : obsProg a = obsProg b) (hb : b ≠ .timeout) : a ≠ .timeout := by
  intro ha; subst ha
  cases b <;> simp_all [obsProg, Res.map]

theorem mS_prims (rw : Core → Core) : mS rw (⟨[], primGlobals⟩ : St Core) = ⟨[], primGlobals⟩ := by
  simp [mS, mapSt, primGlobals]

theorem obs_simplify (fuel : Nat) (es : List Core) (r : Res (List Val × St Core))
    (h : evalProgram fuel es ⟨[], primGlobals⟩ = r) (hr : r ≠ .timeout) :
    obsProg (evalProgram fuel (es.map simplify) ⟨[], primGlobals⟩) = obsProg r := by
  have := deep_program_all rwSimpl rwSimpl_sound fuel es _ r h hr
  rw [mS_prims] at this
  simp only [simplify]
  rw [this, obsProg_mRP]

theorem obs_fold (fuel : Nat) (es : List Core) (r : Res (List Val × St Core))
    (h : evalProgram fuel es ⟨[], primGlobals⟩ = r) (hr : r ≠ .timeout)
    (hn : ∀ e, e ∈ es → noAssign (primTbl.map (·.1)) e = true) :
    obsProg (evalProgram fuel (es.map (foldPass primTbl)) ⟨[], primGlobals⟩) = obsProg r := by
  have := deepQ_program_all (rwFold primTbl) _ (PrimQ primTbl) (primQ_ok primTbl) fuel es _ r h hr hn
    (okSt_prims _) primQ_init
  rw [mS_prims] at this
  simp only [foldPass]
  rw [this, obsProg_mRP]

theorem obs_inline (thr : Nat) (tbl : InlTbl) (hlegal : inlLegal tbl = true) (fuel : Nat) (rest : List Core)
    (r : Res (List Val × St Core)) (h : evalProgram (fuel + 2) (defsOf tbl ++ rest) ⟨[], primGlobals⟩ = r)
    (hr : r ≠ .timeout) (hn : ∀ e, e ∈ rest → noAssign (tblSlots tbl) e = true) :
    obsProg (evalProgram (fuel + 2) ((defsOf tbl ++ rest).map (inlinePass thr tbl)) ⟨[], primGlobals⟩) = obsProg r := by
  simp only [inlLegal, Bool.and_eq_true, decide_eq_true_eq] at hlegal
  obtain ⟨⟨hleaf, hna⟩, hnd⟩ := hlegal
  have hleaf' : ∀ x, x ∈ tbl → noCallOf (tbl.map (·.1)) x.2.2 = true := by
    intro x hx; have := List.all_eq_true.1 hleaf x hx; simpa using this
  have hna' : ∀ x, x ∈ tbl → noAssign (tblSlots tbl) x.2.2 = true := by
    intro x hx; have := List.all_eq_true.1 hna x hx; simpa using this
  have hdefs := evalDefs fuel tbl ⟨[], primGlobals⟩
  rw [evalProgram_append_ok _ _ _ _ _ _ hdefs] at h
  rw [List.map_append, map_defsOf thr tbl tbl hleaf', evalProgram_append_ok _ _ _ _ _ _ hdefs]
  have hr' : evalProgram (fuel + 2) rest (bindAll tbl ⟨[], primGlobals⟩) ≠ .timeout := by
    intro ht; rw [ht] at h; simp [Res.map] at h; exact hr h.symm
  have hms := mS_bindAll (rwInl thr tbl) tbl _ (mS_prims _) (fun x hx => deep_leaf thr tbl x.2.2 (hleaf' x hx))
  have := deepQ_program_all (rwInl thr tbl) _ (InlQ tbl) (inlQ_ok thr tbl hleaf) (fuel + 2) rest _ _ rfl hr' hn
    (okSt_bindAll _ tbl _ (okSt_prims _) hna') (inlQ_bindAll tbl _ hnd)
  rw [hms] at this
  simp only [inlinePass]
  rw [this, ← h]
  cases evalProgram (fuel + 2) rest (bindAll tbl ⟨[], primGlobals⟩) <;>
    simp [obsProg, mRP, Res.map, obsL_append, mL, obsL_map']

/-- **Observable behaviour is independent of the optimisation configuration.**  A unit consisting of inlinable
definitions (`defsOf tbl`, a legal table) followed by `rest`, evaluated from the state with the primitives only.
Under the guards of the passes involved (no form assigns a folded primitive slot; the rest of the unit does not assign
an inlined slot), EVERY configuration — no optimisation, `simplify`, constant folding, the inliner, and `simplify`
after folding resp. inlining — yields the same observable outcome: the same observables of all the values, or the
same error kind. -/
theorem config_independent_observables (thr : Nat) (tbl : InlTbl) (hlegal : inlLegal tbl = true) (fuel : Nat)
    (rest : List Core) (r : Res (List Val × St Core))
    (h : evalProgram (fuel + 2) (defsOf tbl ++ rest) ⟨[], primGlobals⟩ = r) (hr : r ≠ .timeout)
    (hnI : ∀ e, e ∈ rest → noAssign (tblSlots tbl) e = true)
    (hnF : ∀ e, e ∈ defsOf tbl ++ rest → noAssign (primTbl.map (·.1)) e = true) (c : OptCfg) :
    obsProg (evalProgram (fuel + 2) (applyCfg thr tbl c (defsOf tbl ++ rest)) ⟨[], primGlobals⟩) = obsProg r := by
  cases c with
  | none => simp [applyCfg, h]
  | simplify => exact obs_simplify _ _ _ h hr
  | fold => exact obs_fold _ _ _ h hr hnF
  | inline => exact obs_inline thr tbl hlegal fuel rest r h hr hnI
  | simplifyFold =>
    have h1 := obs_fold _ _ _ h hr hnF
    have h2 := obs_simplify (fuel + 2) ((defsOf tbl ++ rest).map (foldPass primTbl)) _ rfl (obs_ne h1 hr)
    simp only [applyCfg]; rw [h2, h1]
  | simplifyInline =>
    have h1 := obs_inline thr tbl hlegal fuel rest r h hr hnI
    have h2 := obs_simplify (fuel + 2) ((defsOf tbl ++ rest).map (inlinePass thr tbl)) _ rfl (obs_ne h1 hr)
    simp only [applyCfg]; rw [h2, h1]

/-- … hence any two configurations agree. -/
theorem configs_agree_pairwise (thr : Nat) (tbl : InlTbl) (hlegal : inlLegal tbl = true) (fuel : Nat)
    (rest : List Core) (hr : evalProgram (fuel + 2) (defsOf tbl ++ rest) ⟨[], primGlobals⟩ ≠ .timeout)
    (hnI : ∀ e, e ∈ rest → noAssign (tblSlots tbl) e = true)
    (hnF : ∀ e, e ∈ defsOf tbl ++ rest → noAssign (primTbl.map (·.1)) e = true) (c1 c2 : OptCfg) :
    obsProg (evalProgram (fuel + 2) (applyCfg thr tbl c1 (defsOf tbl ++ rest)) ⟨[], primGlobals⟩) =
    obsProg (evalProgram (fuel + 2) (applyCfg thr tbl c2 (defsOf tbl ++ rest)) ⟨[], primGlobals⟩) := by
  rw [config_independent_observables thr tbl hlegal fuel rest _ rfl hr hnI hnF c1,
    config_independent_observables thr tbl hlegal fuel rest _ rfl hr hnI hnF c2]

-- non-vacuity: the unit `add1` / `twice` / `(twice (+ 20 20))` with a dead branch: all guards hold, all passes fire
def cfgRest : List Core :=
  [.define 21 (.lam 1 false [] (.ite (.const (.bool true)) (.callG 20 [.callG 20 [.loc 0 true]]) (.const .void))),
   .callG 21 [.callG 0 [.const (.int 20), .const (.int 20)]]]
example : inlLegal inlTbl = true ∧ cfgRest.all (noAssign (tblSlots inlTbl)) = true ∧
    (defsOf inlTbl ++ cfgRest).all (noAssign (primTbl.map (·.1))) = true := by decide
example : lastInt (evalProgram 14 (applyCfg 50 inlTbl .none (defsOf inlTbl ++ cfgRest)) ⟨[], primGlobals⟩) = some 42 ∧
    lastInt (evalProgram 14 (applyCfg 50 inlTbl .simplifyInline (defsOf inlTbl ++ cfgRest)) ⟨[], primGlobals⟩) = some 42 ∧
    lastInt (evalProgram 14 (applyCfg 50 inlTbl .simplifyFold (defsOf inlTbl ++ cfgRest)) ⟨[], primGlobals⟩) = some 42 := by
  decide

end SteelVerif.C02C
