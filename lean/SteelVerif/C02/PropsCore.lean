/-
C02 on the core WITH CLOSURES (`C01/Core.lean`) — property theorems.  (The theorems of `C02/Props.lean` are about the
first-order fragment and stay as they are.)

Proved here:
 * `evalC_fuel_monotone`            the reference semantics is monotone in the fuel (groundwork for every pass);
 * `dbe_preserves`                  dead-branch elimination on constant tests (`CorePassDbe.lean`): whatever the
                                    original program yields — a value with its final store and globals, or an error
                                    of some kind — the optimised program yields THE SAME, with the same fuel;
 * `dbe_outcomes_agree`             whenever both finish (with whatever fuels) the outcomes are equal;
 * `dbe_then_compile_correct`, `dbe_then_compile_errors`   with `compile_correct_core(_errors)`: the VM running the code
                                    generated for the OPTIMISED program yields the value / the error the semantics gives
                                    the ORIGINAL program.

PARTIAL / NOT DONE (of the passes asked for):
 * `dbe` does not descend into lambda bodies (then closure values would differ by the optimisation of their bodies and
   the comparison needs the value correspondence `V.map dbe` in place of equality — the same machinery as `toV` in C01;
   not done).  Full statement: `evalTop fuel (dbeDeep e) σ ≈ evalTop fuel e σ` up to `V.map dbeDeep`.
 * the converse termination direction (`dbe e` finishes ⇒ `e` finishes) is not proved; `dbe_outcomes_agree` covers the
   agreement when both finish.
 * constant folding of primitive applications, the unit-local inliner and closure lifting on `Core` are NOT done: each
   needs (i) an invariant "the primitive / inlined global slots are not assigned by any code reachable from the state"
   over all closure values of the state (the semantic counterpart of `C09C.T.Inv`), (ii) the value correspondence above.
-/
import SteelVerif.C02.CorePassDbe
namespace SteelVerif.C02C
open SteelVerif.C01C

/-- **The reference semantics is monotone in the fuel**: an outcome (value or error) reached with `fuel` is reached with
every larger fuel. -/
theorem evalC_fuel_monotone (fuel k : Nat) (e : Core) (σ : St Core) (r : Res (Val × St Core))
    (h : evalTop fuel e σ = r) (hr : r ≠ .timeout) : evalTop (fuel + k) e σ = r := evalTop_mono fuel k e σ r h hr

/-- **Dead-branch elimination preserves the outcome** — same value AND same final store/globals, or same error kind —
with the same fuel. -/
theorem dbe_preserves (fuel : Nat) (e : Core) (σ : St Core) (r : Res (Val × St Core))
    (h : evalTop fuel e σ = r) (hr : r ≠ .timeout) : evalTop fuel (dbe e) σ = r := by
  unfold evalTop at h ⊢
  cases he : evalC fuel none false e [] [] σ with
  | timeout => rw [he] at h; simp [Res.map] at h; exact absurd h.symm hr
  | err x => rw [(dbe_all fuel).1 _ _ _ _ _ _ _ he (by simp)]; rw [he] at h; exact h
  | ok x => rw [(dbe_all fuel).1 _ _ _ _ _ _ _ he (by simp)]; rw [he] at h; exact h

/-- The same inside any frame and any closure (the statement the induction proves). -/
theorem dbe_preserves_in_context (fuel : Nat) (self : Self) (tail : Bool) (e : Core) (env caps : List Val) (σ : St Core)
    (r : Res (Val × List Val × St Core)) (h : evalC fuel self tail e env caps σ = r) (hr : r ≠ .timeout) :
    evalC fuel self tail (dbe e) env caps σ = r := (dbe_all fuel).1 self tail e env caps σ r h hr

/-- Whenever the original and the optimised program both finish — with whatever fuels — their outcomes are equal. -/
theorem dbe_outcomes_agree (f1 f2 : Nat) (e : Core) (σ : St Core)
    (h1 : evalTop f1 e σ ≠ .timeout) (h2 : evalTop f2 (dbe e) σ ≠ .timeout) :
    evalTop f2 (dbe e) σ = evalTop f1 e σ := by
  have a := dbe_preserves f1 e σ _ rfl h1
  have b := evalTop_mono f1 f2 (dbe e) σ _ a h1
  have c := evalTop_mono f2 f1 (dbe e) σ _ rfl h2
  rw [Nat.add_comm] at c
  rw [← c, b]

/-- **Compiled code of the optimised program = semantics of the original** (values). -/
theorem dbe_then_compile_correct (fuel : Nat) (e : Core) (σ σ' : St Core) (v : Val)
    (h : evalTop fuel e σ = .ok (v, σ')) :
    ∃ n, run n (initCfg (compileTop (dbe e)) (toSt σ)) = .ok (toV v, toSt σ') :=
  compile_correct_core fuel (dbe e) σ σ' v (dbe_preserves fuel e σ _ h (by simp))

/-- … and errors. -/
theorem dbe_then_compile_errors (fuel : Nat) (e : Core) (σ : St Core) (k : Err) (hk : k ≠ .bad)
    (h : evalTop fuel e σ = .err k) :
    ∃ n, run n (initCfg (compileTop (dbe e)) (toSt σ)) = .err k :=
  compile_correct_core_errors fuel (dbe e) σ k hk (dbe_preserves fuel e σ _ h (by simp))

/-! ### Non-vacuity: the pass fires -/

/-- `(+ (if #f (0) 1) (if #t 2 (car 5)))` — both dead branches would raise. -/
def dbeEx : Core :=
  .callG 0 [.ite (.const (.bool false)) (.app (.const (.int 0)) []) (.const (.int 1)),
            .ite (.const (.bool true)) (.const (.int 2)) (.app (.const (.int 5)) [.const (.int 5)])]

example : clen (dbe dbeEx) = 4 ∧ clen dbeEx = 15 := by decide
example : (match evalTop 10 dbeEx ⟨[], primGlobals⟩ with | .ok (v, _) => V.toInt? v | _ => none) = some 3 := by decide
example : (match evalTop 10 (dbe dbeEx) ⟨[], primGlobals⟩ with | .ok (v, _) => V.toInt? v | _ => none) = some 3 := by
  decide
example : compileTop (dbe dbeEx) = [.LOADINT1, .LOADINT2, .CALLGLOBAL 0, .FUNC 2, .POPPURE] := by decide

end SteelVerif.C02C
