/-
C02 on the core with closures — constant folding of primitive applications on constants, as a local rewrite that is
sound in the states where the table's slots still hold their primitives.  A fold that would raise (wrong types) is
NOT folded: the application stays and raises at run time (`handle_output` in `const_evaluation.rs`).
-/
import SteelVerif.C02.CoreDeepQ
namespace SteelVerif.C02C
open SteelVerif.C01C

def lookupP (tbl : List (Nat × Prim)) (g : Nat) : Option Prim :=
  match tbl with
  | [] => none
  | (k, p) :: rest => if k = g then some p else lookupP rest g

/-- The result of a fold as a constant — only for a successful fold that yields an atom. -/
def constOfRes : Res Val → Option Const
  | .ok (.int n) => some (.int n)
  | .ok (.bool b) => some (.bool b)
  | _ => none

theorem constOfRes_some {r : Res Val} {c : Const} (h : constOfRes r = some c) : r = .ok (c.toV) := by
  cases r with
  | ok v => cases v <;> simp [constOfRes] at h <;> subst h <;> rfl
  | err e => simp [constOfRes] at h
  | timeout => simp [constOfRes] at h

def foldCall (tbl : List (Nat × Prim)) (g : Nat) (a b : Const) (orig : Core) : Core :=
  match lookupP tbl g with
  | none => orig
  | some p =>
    match constOfRes (p.apply [(a.toV : Val), b.toV]) with
    | some c => .const c
    | none => orig

def rwFold (tbl : List (Nat × Prim)) : Core → Core
  | .callG g [.const a, .const b] => foldCall tbl g a b (.callG g [.const a, .const b])
  | e => e

/-- The table's slots hold their primitives. -/
def PrimQ (tbl : List (Nat × Prim)) (σ : St Core) : Prop :=
  ∀ g p, lookupP tbl g = some p → lookupG g σ.globals = some (.prim p)

theorem lookupP_mem {tbl : List (Nat × Prim)} {g : Nat} {p : Prim} (h : lookupP tbl g = some p) :
    g ∈ tbl.map (·.1) := by
  induction tbl with
  | nil => simp [lookupP] at h
  | cons x rest ih =>
    obtain ⟨k, q⟩ := x
    simp only [lookupP] at h
    by_cases hk : k = g
    · simp [hk]
    · simp only [hk, if_false] at h; simp [ih h]

theorem rwFold_sound (tbl : List (Nat × Prim)) : LocalSoundQ (PrimQ tbl) (rwFold tbl) := by
  intro fuel self tail e env caps σ r hq hor h hr
  unfold rwFold
  split
  · rename_i g a b
    unfold foldCall
    cases hp : lookupP tbl g with
    | none => exact h
    | some p =>
      simp only
      cases hc : constOfRes (p.apply [(a.toV : Val), b.toV]) with
      | none => exact h
      | some c =>
        simp only
        have hg := hq g p hp
        have hap := constOfRes_some hc
        have hsl : splitLast 2 (env ++ [(a.toV : Val)] ++ [b.toV]) = some (env, [a.toV, b.toV]) := by
          simpa [List.append_assoc] using splitLast_append 2 env [(a.toV : Val), b.toV] rfl
        cases fuel with
        | zero => simp [evalC] at h; exact absurd h.symm hr
        | succ F =>
          simp only [evalC]
          simp only [evalC] at h
          cases F with
          | zero => simp [evalArgs] at h; exact absurd h.symm hr
          | succ f =>
            simp only [evalArgs] at h
            cases f with
            | zero => simp [evalC] at h; exact absurd h.symm hr
            | succ f1 =>
              simp only [evalC, evalArgs] at h
              cases f1 with
              | zero => simp [evalC] at h; exact absurd h.symm hr
              | succ f2 =>
                simp only [evalC, evalArgs, hg, List.length_cons, List.length_nil, hsl, applyWith, hap, Res.map] at h
                exact h
  · exact h

theorem primQ_ok (tbl : List (Nat × Prim)) : QOk (tbl.map (·.1)) (PrimQ tbl) (rwFold tbl) := by
  refine ⟨?_, ?_, rwFold_sound tbl⟩
  · intro σ σ' hs hq g p hp
    rw [hs g (lookupP_mem hp)]; exact hq g p hp
  · intro σ hq g p hp
    simp [mS, mapSt_globals, lookupG_mapG, hq g p hp]

/-- The pass: constant folding everywhere, inside lambda bodies too. -/
def foldPass (tbl : List (Nat × Prim)) : Core → Core := deep (rwFold tbl)

/-- The primitives of the initial state. -/
def primTbl : List (Nat × Prim) := [(0, .add), (1, .sub), (2, .mul), (3, .lt), (4, .le), (5, .eq)]

theorem primQ_init : PrimQ primTbl (⟨[], primGlobals⟩ : St Core) := by
  intro g p hp
  simp only [primTbl, lookupP] at hp
  repeat' split at hp
  all_goals first
    | (cases hp; done)
    | (simp only [Option.some.injEq] at hp; subst hp; subst_vars; simp [primGlobals, lookupG])

end SteelVerif.C02C
