/-
C02 on the core with closures — the semantic invariant behind constant folding and inlining: "the protected global
slots are assigned by no code reachable from the state".  `noAssign ps e`: no `define`/`set!` of a slot of `ps` occurs
in `e`, lambda bodies included.  `OkV`: every closure inside a value has such a body.  `stable`: evaluating such an
expression in such a context yields such values and states again, and leaves every protected slot as it was.
-/
import SteelVerif.C02.CorePassLocal
namespace SteelVerif.C02C
open SteelVerif.C01C

mutual
def noAssign (ps : List Nat) : Core → Bool
  | .const _ => true
  | .loc _ _ => true
  | .cap _ => true
  | .glob _ => true
  | .lam _ _ _ body => noAssign ps body
  | .app f args => noAssign ps f && noAssignL ps args
  | .callG _ args => noAssignL ps args
  | .selfTail args => noAssignL ps args
  | .ite c t e => noAssign ps c && noAssign ps t && noAssign ps e
  | .let_ _ inits body => noAssignL ps inits && noAssign ps body
  | .seq a b => noAssign ps a && noAssign ps b
  | .setLoc _ e => noAssign ps e
  | .boxop _ args => noAssignL ps args
  | .define g e => !ps.contains g && noAssign ps e
  | .setGlob g e => !ps.contains g && noAssign ps e
def noAssignL (ps : List Nat) : List Core → Bool
  | [] => true
  | a :: rest => noAssign ps a && noAssignL ps rest
end

inductive OkV (ps : List Nat) : Val → Prop where
  | int (n : Int) : OkV ps (.int n)
  | bool (b : Bool) : OkV ps (.bool b)
  | void : OkV ps .void
  | box (a : Nat) : OkV ps (.box a)
  | prim (p : Prim) : OkV ps (.prim p)
  | list (xs : List Val) : (∀ x, x ∈ xs → OkV ps x) → OkV ps (.list xs)
  | clo (a : Nat) (r : Bool) (body : Core) (caps : List Val) :
      noAssign ps body = true → (∀ x, x ∈ caps → OkV ps x) → OkV ps (.clo a r body caps)

def OkL (ps : List Nat) (l : List Val) : Prop := ∀ x, x ∈ l → OkV ps x

variable {ps : List Nat}

theorem OkL.nil : OkL ps [] := by intro x hx; cases hx
theorem OkL.append {a b : List Val} (ha : OkL ps a) (hb : OkL ps b) : OkL ps (a ++ b) := by
  intro x hx; rcases List.mem_append.1 hx with h | h; exact ha x h; exact hb x h
theorem OkL.single {v : Val} (hv : OkV ps v) : OkL ps [v] := by
  intro x hx; simp at hx; subst hx; exact hv
theorem OkL.left {a b : List Val} (h : OkL ps (a ++ b)) : OkL ps a := fun x hx => h x (List.mem_append.2 (Or.inl hx))
theorem OkL.right {a b : List Val} (h : OkL ps (a ++ b)) : OkL ps b := fun x hx => h x (List.mem_append.2 (Or.inr hx))
theorem OkL.get {l : List Val} (h : OkL ps l) {i : Nat} {v : Val} (hv : l[i]? = some v) : OkV ps v :=
  h v (List.mem_of_getElem? hv)
theorem OkL.take {l : List Val} (h : OkL ps l) (n : Nat) : OkL ps (l.take n) := fun x hx => h x (List.mem_of_mem_take hx)
theorem OkL.drop {l : List Val} (h : OkL ps l) (n : Nat) : OkL ps (l.drop n) := fun x hx => h x (List.mem_of_mem_drop hx)
theorem OkL.set {l : List Val} (h : OkL ps l) (i : Nat) {v : Val} (hv : OkV ps v) : OkL ps (l.set i v) := by
  intro x hx
  rcases List.mem_or_eq_of_mem_set hx with h1 | h1
  · exact h x h1
  · subst h1; exact hv

theorem okConst (k : Const) : OkV ps (k.toV) := by cases k <;> simp only [Const.toV] <;> constructor

theorem splitLast_ok {n : Nat} {l lo hi : List Val} (h : OkL ps l) (hs : splitLast n l = some (lo, hi)) :
    OkL ps lo ∧ OkL ps hi := by
  obtain ⟨rfl, _, _⟩ := splitLast_some hs
  exact ⟨h.left, h.right⟩

theorem bindArgs_ok {a : Nat} {r : Bool} {args locals : List Val} (h : OkL ps args)
    (hb : bindArgs a r args = .ok locals) : OkL ps locals := by
  unfold bindArgs at hb
  cases r
  · simp at hb; split at hb
    · simp at hb; subst hb; exact h
    · cases hb
  · simp at hb
    split at hb
    · cases hb
    · simp at hb; subst hb
      exact (h.take _).append (OkL.single (.list _ (h.drop _)))

theorem prim_ok {p : Prim} {args : List Val} {r : Val} (h : p.apply args = .ok r) : OkV ps r := by
  rcases args with _ | ⟨x, _ | ⟨y, _ | ⟨z, t⟩⟩⟩
  · simp [Prim.apply] at h
  · simp [Prim.apply] at h
  · cases x <;> cases y <;> simp [Prim.apply] at h
    subst h
    cases p <;> first | exact .int _ | exact .bool _
  · simp [Prim.apply] at h

theorem boxop_ok {op : BoxOp} {args : List Val} {st st' : St Core} {r : Val}
    (ha : OkL ps args) (hst : OkL ps st.store) (h : op.apply args st = .ok (r, st')) :
    OkV ps r ∧ OkL ps st'.store ∧ st'.globals = st.globals := by
  rcases args with _ | ⟨x, _ | ⟨y, _ | ⟨z, t⟩⟩⟩
  · cases op <;> simp [BoxOp.apply] at h
  · cases op
    · simp [BoxOp.apply] at h
      obtain ⟨rfl, rfl⟩ := h
      exact ⟨.box _, hst.append (OkL.single (ha x (by simp))), rfl⟩
    · cases x <;> simp [BoxOp.apply] at h
      rename_i a
      cases hg : st.store[a]? with
      | none => simp [hg] at h
      | some v =>
        simp [hg] at h
        obtain ⟨rfl, rfl⟩ := h
        exact ⟨hst.get hg, hst, rfl⟩
    · simp [BoxOp.apply] at h
  · cases op
    · simp [BoxOp.apply] at h
    · simp [BoxOp.apply] at h
    · cases x <;> simp [BoxOp.apply] at h
      rename_i a
      cases hg : st.store[a]? with
      | none => simp [hg] at h
      | some v =>
        simp [hg] at h
        obtain ⟨rfl, rfl⟩ := h
        exact ⟨hst.get hg, hst.set _ (ha y (by simp)), rfl⟩
  · cases op <;> simp [BoxOp.apply] at h

theorem capture_ok {env caps : List Val} (he : OkL ps env) (hc : OkL ps caps) :
    ∀ (cs : List CapSrc) (cv : List Val), capture env caps cs = some cv → OkL ps cv := by
  intro cs
  induction cs with
  | nil => intro cv h; simp [capture] at h; subst h; exact OkL.nil
  | cons c cs ih =>
    intro cv h
    cases c with
    | stack i =>
      simp only [capture] at h
      cases h1 : env[i]? with
      | none => simp [h1] at h
      | some v =>
        cases h2 : capture env caps cs with
        | none => simp [h1, h2] at h
        | some vs => simp [h1, h2] at h; subst h; exact (OkL.single (he.get h1)).append (ih vs h2)
    | closure i =>
      simp only [capture] at h
      cases h1 : caps[i]? with
      | none => simp [h1] at h
      | some v =>
        cases h2 : capture env caps cs with
        | none => simp [h1, h2] at h
        | some vs => simp [h1, h2] at h; subst h; exact (OkL.single (hc.get h1)).append (ih vs h2)

theorem lookupG_mem' {g : Nat} {gs : List (Nat × Val)} {v : Val} (h : lookupG g gs = some v) : (g, v) ∈ gs := by
  induction gs with
  | nil => simp [lookupG] at h
  | cons p gs ih =>
    obtain ⟨k, w⟩ := p
    simp only [lookupG] at h
    by_cases hk : k = g
    · simp [hk] at h; subst h; subst hk; simp
    · simp [hk] at h; exact List.mem_cons_of_mem _ (ih h)

structure OkSt (ps : List Nat) (σ : St Core) : Prop where
  store : OkL ps σ.store
  globs : ∀ g v, (g, v) ∈ σ.globals → OkV ps v

def OkSelf (ps : List Nat) : Self → Prop
  | none => True
  | some (_, _, b) => noAssign ps b = true

/-- The protected slots hold in `σ'` what they hold in `σ`. -/
def Same (ps : List Nat) (σ σ' : St Core) : Prop := ∀ g, g ∈ ps → lookupG g σ'.globals = lookupG g σ.globals

theorem Same.refl (σ : St Core) : Same ps σ σ := fun _ _ => rfl
theorem Same.trans {a b c : St Core} (h1 : Same ps a b) (h2 : Same ps b c) : Same ps a c :=
  fun g hg => (h2 g hg).trans (h1 g hg)

theorem okSt_bind {σ : St Core} (h : OkSt ps σ) (g : Nat) (v : Val) (hv : OkV ps v) (hg : ps.contains g = false) :
    OkSt ps { σ with globals := (g, v) :: σ.globals } ∧ Same ps σ { σ with globals := (g, v) :: σ.globals } := by
  refine ⟨⟨h.store, ?_⟩, ?_⟩
  · intro g' v' hm
    simp only [List.mem_cons, Prod.mk.injEq] at hm
    rcases hm with ⟨_, rfl⟩ | hm
    · exact hv
    · exact h.globs g' v' hm
  · intro g' hg'
    have : g ≠ g' := by
      intro e; subst e
      have : ps.contains g = true := by simpa using hg'
      rw [this] at hg; cases hg
    simp [lookupG, this]

end SteelVerif.C02C
