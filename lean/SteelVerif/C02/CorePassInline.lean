/-
C02 on the core with closures — the unit-local inliner, as `inline_function_calls` / `inline_handle_define`
(`compiler/passes/analysis.rs`) do it: at a call site `(f a₁ … aₙ)` of a global `f` that an earlier `define` of the unit
binds to a `lambda` with exactly `n` parameters, no rest parameter, estimated size below the threshold and that is not
assigned (`set_bang`) in the unit, the callee IDENTIFIER is replaced by the LAMBDA ITSELF:
`((lambda (x₁ … xₙ) body) a₁ … aₙ)`.  (Turning that application into a `let` is a separate, later pass of the real
pipeline and is not modelled here.)  A body containing a self tail call is inlinable: it stays the body of a lambda,
which runs in its own frame.

Here: `rwInl tbl`, its local soundness in the states where the table's slots hold the table's closures, and the guard
under which the whole pass is an instance of `deepQ_all`: the callee bodies are LEAVES (they contain no call of an
inlinable global), so that the pass leaves them unchanged.
-/
import SteelVerif.C02.CorePassDbeBack
namespace SteelVerif.C02C
open SteelVerif.C01C

/-- An inlinable definition: slot, number of parameters, body (no rest parameter, no captures). -/
abbrev InlTbl := List (Nat × Nat × Core)

def lookupT (tbl : InlTbl) (g : Nat) : Option (Nat × Core) :=
  match tbl with
  | [] => none
  | (k, a, b) :: rest => if k = g then some (a, b) else lookupT rest g

/-- The rewrite at a call site; `thr` = size threshold (size = number of instructions of the body). -/
def rwInl (thr : Nat) (tbl : InlTbl) : Core → Core
  | .callG g args =>
      match lookupT tbl g with
      | some (a, b) => if args.length = a ∧ clen b < thr then .app (.lam a false [] b) args else .callG g args
      | none => .callG g args
  | e => e

/-- The table's slots hold the table's closures. -/
def InlQ (tbl : InlTbl) (σ : St Core) : Prop :=
  ∀ g a b, lookupT tbl g = some (a, b) → lookupG g σ.globals = some (.clo a false b [])

theorem lookupT_mem {tbl : InlTbl} {g a : Nat} {b : Core} (h : lookupT tbl g = some (a, b)) :
    g ∈ tbl.map (·.1) := by
  induction tbl with
  | nil => simp [lookupT] at h
  | cons x rest ih =>
    obtain ⟨k, a', b'⟩ := x
    simp only [lookupT] at h
    by_cases hk : k = g
    · simp [hk]
    · simp only [hk, if_false] at h; simp [ih h]

theorem lookupT_mem' {tbl : InlTbl} {g a : Nat} {b : Core} (h : lookupT tbl g = some (a, b)) :
    (g, a, b) ∈ tbl := by
  induction tbl with
  | nil => simp [lookupT] at h
  | cons x rest ih =>
    obtain ⟨k, a', b'⟩ := x
    simp only [lookupT] at h
    by_cases hk : k = g
    · simp only [hk, if_true, Option.some.injEq, Prod.mk.injEq] at h
      obtain ⟨rfl, rfl⟩ := h; subst hk; simp
    · simp only [hk, if_false] at h; exact List.mem_cons_of_mem _ (ih h)

theorem rwInl_sound (thr : Nat) (tbl : InlTbl) : LocalSoundQ (InlQ tbl) (rwInl thr tbl) := by
  intro fuel self tail e env caps σ r hq hor h hr
  cases e <;> try exact h
  rename_i g args
  simp only [rwInl]
  cases hl : lookupT tbl g with
  | none => exact h
  | some ab =>
    obtain ⟨a, b⟩ := ab
    simp only
    by_cases hc : args.length = a ∧ clen b < thr
    · simp only [hc, and_self, if_true]
      cases fuel with
      | zero => simp [evalC] at h; exact absurd h.symm hr
      | succ F =>
        simp only [evalC] at h ⊢
        cases hi : evalArgs F self args env caps σ with
        | timeout => simp only [hi] at h; exact absurd h.symm hr
        | err k => simpa [hi] using h
        | ok x =>
          obtain ⟨env1, σ1⟩ := x
          have hq1 := hor F env1 σ1 (by omega) (by simpa [operandsOf] using hi)
          have hg := hq1 g a b hl
          simp only [hi, hg] at h ⊢
          cases F with
          | zero => simp [evalArgs] at hi
          | succ F' =>
            simp only [evalC, capture]
            exact h
    · simp only [hc, if_false]; exact h

/-! ## Leaves: bodies the pass leaves unchanged -/

mutual
/-- No call of a global in `ps` occurs in the expression, lambda bodies included. -/
def noCallOf (ps : List Nat) : Core → Bool
  | .const _ => true
  | .loc _ _ => true
  | .cap _ => true
  | .glob _ => true
  | .lam _ _ _ body => noCallOf ps body
  | .app f args => noCallOf ps f && noCallOfL ps args
  | .callG g args => !ps.contains g && noCallOfL ps args
  | .selfTail args => noCallOfL ps args
  | .ite c t e => noCallOf ps c && noCallOf ps t && noCallOf ps e
  | .let_ _ inits body => noCallOfL ps inits && noCallOf ps body
  | .seq a b => noCallOf ps a && noCallOf ps b
  | .setLoc _ e => noCallOf ps e
  | .boxop _ args => noCallOfL ps args
  | .define _ e => noCallOf ps e
  | .setGlob _ e => noCallOf ps e
def noCallOfL (ps : List Nat) : List Core → Bool
  | [] => true
  | a :: rest => noCallOf ps a && noCallOfL ps rest
end

theorem lookupT_none {tbl : InlTbl} {g : Nat} (h : (tbl.map (·.1)).contains g = false) : lookupT tbl g = none := by
  induction tbl with
  | nil => simp [lookupT]
  | cons x rest ih =>
    obtain ⟨k, a, b⟩ := x
    simp only [List.map_cons, List.contains_cons, Bool.or_eq_false_iff, beq_eq_false_iff_ne] at h
    have hk : k ≠ g := fun e => h.1 e.symm
    simp only [lookupT, hk, if_false]
    exact ih h.2

mutual
theorem deep_leaf (thr : Nat) (tbl : InlTbl) : ∀ (e : Core), noCallOf (tbl.map (·.1)) e = true →
    deep (rwInl thr tbl) e = e
  | .const c, _ => by simp [deep, rwInl]
  | .loc i mv, _ => by simp [deep, rwInl]
  | .cap i, _ => by simp [deep, rwInl]
  | .glob g, _ => by simp [deep, rwInl]
  | .lam a r cs body, h => by
    simp only [noCallOf] at h
    simp [deep, rwInl, deep_leaf thr tbl body h]
  | .app f args, h => by
    simp only [noCallOf, Bool.and_eq_true] at h
    simp [deep, rwInl, deep_leaf thr tbl f h.1, deepL_leaf thr tbl args h.2]
  | .callG g args, h => by
    simp only [noCallOf, Bool.and_eq_true, Bool.not_eq_true'] at h
    simp [deep, rwInl, deepL_leaf thr tbl args h.2, lookupT_none h.1]
  | .selfTail args, h => by
    simp only [noCallOf] at h
    simp [deep, rwInl, deepL_leaf thr tbl args h]
  | .ite c t e, h => by
    simp only [noCallOf, Bool.and_eq_true] at h
    simp [deep, rwInl, deep_leaf thr tbl c h.1.1, deep_leaf thr tbl t h.1.2, deep_leaf thr tbl e h.2]
  | .let_ off inits body, h => by
    simp only [noCallOf, Bool.and_eq_true] at h
    simp [deep, rwInl, deepL_leaf thr tbl inits h.1, deep_leaf thr tbl body h.2]
  | .seq a b, h => by
    simp only [noCallOf, Bool.and_eq_true] at h
    simp [deep, rwInl, deep_leaf thr tbl a h.1, deep_leaf thr tbl b h.2]
  | .setLoc i e, h => by
    simp only [noCallOf] at h
    simp [deep, rwInl, deep_leaf thr tbl e h]
  | .boxop op args, h => by
    simp only [noCallOf] at h
    simp [deep, rwInl, deepL_leaf thr tbl args h]
  | .define g e, h => by
    simp only [noCallOf] at h
    simp [deep, rwInl, deep_leaf thr tbl e h]
  | .setGlob g e, h => by
    simp only [noCallOf] at h
    simp [deep, rwInl, deep_leaf thr tbl e h]
theorem deepL_leaf (thr : Nat) (tbl : InlTbl) : ∀ (args : List Core), noCallOfL (tbl.map (·.1)) args = true →
    deepL (rwInl thr tbl) args = args
  | [], _ => by simp [deepL]
  | a :: rest, h => by
    simp only [noCallOfL, Bool.and_eq_true] at h
    simp [deepL, deep_leaf thr tbl a h.1, deepL_leaf thr tbl rest h.2]
end

/-- Legality of a table: every body is a leaf w.r.t. the table's slots. -/
def leafTbl (tbl : InlTbl) : Bool := tbl.all (fun x => noCallOf (tbl.map (·.1)) x.2.2)

theorem inlQ_ok (thr : Nat) (tbl : InlTbl) (hleaf : leafTbl tbl = true) :
    QOk (tbl.map (·.1)) (InlQ tbl) (rwInl thr tbl) := by
  refine ⟨?_, ?_, rwInl_sound thr tbl⟩
  · intro σ σ' hs hq g a b hl
    rw [hs g (lookupT_mem hl)]; exact hq g a b hl
  · intro σ hq g a b hl
    have hb : noCallOf (tbl.map (·.1)) b = true := by
      have := List.all_eq_true.1 hleaf _ (lookupT_mem' hl)
      simpa using this
    simp [mS, mapSt_globals, lookupG_mapG, hq g a b hl, deep_leaf thr tbl b hb]

/-- The pass. -/
def inlinePass (thr : Nat) (tbl : InlTbl) : Core → Core := deep (rwInl thr tbl)

end SteelVerif.C02C
