/-
C02 — property theorems (first stage: the configuration sets).
-/
import SteelVerif.C02.Model
namespace SteelVerif.C02

/-- Every environment variable steel-core reads by name is either one of the five modelled switches or on the
list of variables that do not select an execution strategy; and all five switches are still there. -/
theorem switches_covered :
    (extractedSwitches.all fun s => modelledSwitches.contains s.name || ignoredEnv.contains s.name) = true ∧
    (modelledSwitches.all fun n => extractedSwitches.any fun s => s.name == n) = true := by decide

/-- The test applied to each modelled switch is one of the recognised forms, so the value that flips it is known. -/
theorem switch_tests_recognised :
    (modelledSwitches.all fun n =>
      match extractedSwitches.find? (·.name == n) with
      | some s => (nonDefaultValue s).isSome
      | none => false) = true := by decide

/-- The quick tier's configurations: at least 8, the default among them, every pair of switches in every pair of settings. -/
theorem quick_pairwise :
    pairwiseCovering 5 quickConfigs = true ∧ 8 ≤ quickConfigs.length ∧
    quickConfigs.contains [false, false, false, false, false] = true ∧
    (quickConfigs.all fun c => c.length == modelledSwitches.length) = true := by decide

/-- The thorough tier runs all 2^5 configurations. -/
theorem thorough_complete :
    allConfigs.length = 32 ∧ allConfigs.Nodup ∧ (allConfigs.all fun c => c.length == modelledSwitches.length) = true := by decide

end SteelVerif.C02
