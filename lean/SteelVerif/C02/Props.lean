/-
C02 — property theorems: observable behaviour is independent of the JIT / optimisation configuration,
for the configuration-dependent mechanisms modelled in `Model.lean` on the lowered core of C01.

(a) `inline_preserves`, `inline_prog_preserves`, `inline_twice_preserves` — the inlining pass;
    `fold_preserves`, `inline_then_fold_preserves` — constant folding / dead-branch elimination on its output;
(b) `tier_transparent_partial`, `tier_hypothesis_needed` — interpreter / native hand-over (CONDITIONAL on the
    per-instruction equivalence of the native tier, which is not proved);
(c) `inline_history_partial`, `inline_history_false` — pieces evaluated one after another over global cells;
(d) `switches_covered`, `switch_tests_recognised`, `quick_pairwise`, `thorough_complete` — the configuration sets
    of the differential run against the switches extracted from the source.
-/
import SteelVerif.C02.LemmasHist
import SteelVerif.C02.LemmasTier
import SteelVerif.C02.LemmasFold
import SteelVerif.C02.PropsCore
import SteelVerif.C02.JitShadowProps
namespace SteelVerif.C02
open SteelVerif.C01

/-! ## (a) Inlining -/

/-- **One pass of the inliner preserves the reference semantics.**  `T'` is the unit after the pass (every
procedure body rewritten, each under its own policy, with the original bodies of its callees); `e` is any
expression evaluated in any frame `s`, rewritten under any policy.  The original yields `(v, s')` for some call
depth iff the rewritten program does.  (So also: one is an error or diverges iff the other is.) -/
theorem inline_preserves {thr : Nat} {T T' : List FnDef} (hrel : Rel thr T T') (pol : Nat → Bool)
    (e : IR) (s : List Val) (r : Val × List Val) :
    (∃ F, evalIR T F e s = some r) ↔ (∃ F, evalIR T' F (inline T pol thr s.length e) s = some r) :=
  ⟨fun ⟨F, h⟩ => ⟨F, inline_fwd hrel F e s pol r h⟩, fun ⟨F, h⟩ => ⟨2 * F + 1, inline_bwd hrel F e s pol r h⟩⟩

/-- The unit produced by `inlineProg` is related to the original. -/
theorem rel_inlineProg (thr : Nat) (T : List FnDef) (pol : Nat → Nat → Bool) : Rel thr T (inlineProg T pol thr) := by
  refine ⟨by simp [inlineProg], fun c fd hc => ⟨pol c, ?_⟩⟩
  simp [inlineProg, List.getElem?_mapIdx, hc]

/-- Whole programs: all procedure bodies and the main expression inlined (main runs in the empty frame). -/
theorem inline_prog_preserves (thr : Nat) (T : List FnDef) (pol : Nat → Nat → Bool) (polMain : Nat → Bool)
    (main : IR) (v : Val) :
    (∃ F, (evalIR T F main []).map (·.1) = some v) ↔
    (∃ F, (evalIR (inlineProg T pol thr) F (inline T polMain thr 0 main) []).map (·.1) = some v) := by
  have key := fun r => inline_preserves (rel_inlineProg thr T pol) polMain main [] r
  constructor
  · rintro ⟨F, h⟩
    cases hr : evalIR T F main [] with
    | none => rw [hr] at h; cases h
    | some r =>
      rw [hr] at h
      obtain ⟨F', h'⟩ := (key r).mp ⟨F, hr⟩
      exact ⟨F', by rw [show (0 : Nat) = ([] : List Val).length from rfl, h']; exact h⟩
  · rintro ⟨F, h⟩
    cases hr : evalIR (inlineProg T pol thr) F (inline T polMain thr ([] : List Val).length main) [] with
    | none => rw [show (0 : Nat) = ([] : List Val).length from rfl, hr] at h; cases h
    | some r =>
      rw [show (0 : Nat) = ([] : List Val).length from rfl, hr] at h
      obtain ⟨F', h'⟩ := (key r).mpr ⟨F, hr⟩
      exact ⟨F', by rw [h']; exact h⟩

/-- `STEEL_INLINE`: the pass runs a second time (threshold 75) on the output of the first (threshold 50). -/
theorem inline_twice_preserves {T T1 T2 : List FnDef} (h1 : Rel 50 T T1) (h2 : Rel 75 T1 T2)
    (pol1 pol2 : Nat → Bool) (e : IR) (s : List Val) (r : Val × List Val) :
    (∃ F, evalIR T F e s = some r) ↔
    (∃ F, evalIR T2 F (inline T1 pol2 75 s.length (inline T pol1 50 s.length e)) s = some r) :=
  (inline_preserves h1 pol1 e s r).trans (inline_preserves h2 pol2 _ s r)

/-- **Constant folding and dead-branch elimination** (what the always-on const-evaluation does with the code the
optional passes expose): with every procedure body and the expression folded, every evaluation gives exactly the
same result with the same fuel — a value, or `none` (an error stays an error: a failing constant application is
not folded, and a branch is removed only when the test is a constant that does not select it). -/
theorem fold_preserves (T : List FnDef) (F : Nat) (e : IR) (s : List Val) :
    evalIR (T.map foldFn) F (fold e) s = evalIR T F e s := fold_eval T F e s

/-- Inlining followed by folding. -/
theorem inline_then_fold_preserves {thr : Nat} {T T' : List FnDef} (hrel : Rel thr T T') (pol : Nat → Bool)
    (e : IR) (s : List Val) (r : Val × List Val) :
    (∃ F, evalIR T F e s = some r) ↔
    (∃ F, evalIR (T'.map foldFn) F (fold (inline T pol thr s.length e)) s = some r) := by
  simp only [fold_preserves]
  exact inline_preserves hrel pol e s r

/-- **The operand-count condition of `eligible` is needed** (finding K02b: the recursive inliner omits it):
`(define (two a b) a)`, `(two 1 2 3)` is an error at every call depth, but the rewritten call yields 1. -/
theorem inline_needs_arity_check :
    let fns : List FnDef := [{ arity := 2, body := .loc 0 }]
    let args : List IR := [.const (.int 1), .const (.int 2), .const (.int 3)]
    (∀ F, evalIR fns F (.call 0 args) [] = none) ∧
    evalIR fns 0 (inlineCallNoArity fns 0 0 args) [] = some (.int 1, []) := by
  refine ⟨fun F => ?_, ?_⟩
  · cases F with
    | zero => simp [evalIR]
    | succ F => simp [evalIR, evalArgs]
  · simp [inlineCallNoArity, bindArgs, shift, evalIR]

/-! ## (b) Tiers -/

/-- PARTIAL (conditional).  If one native instruction does what the interpreter's instruction does ON EVERY
STATE, then for every schedule of hand-overs (enter native code, run `k + 1` instructions on the current tier,
deoptimise — at any instruction boundary, any number of times) the machine computes exactly what the
interpreter computes.
MISSING for "whether native code generation is enabled … the same values and the same outcome":
 * the hypothesis `hN` IS the content of the property for the JIT (Cranelift translation of every op code,
   its runtime helpers, its deoptimisation paths): it is not proved, the differential run tests it and has
   found it false (K02e, K02g, K02i).  Given `hN` the conclusion is an induction over the schedule: what the
   theorem adds is only that the model's scheduler (`runSched`/`runK`/`runInterp`) composes steps;
 * the hand-over STATE of the real protocol (first op code overwritten by a trampoline and the original kept
   aside, `is_native` / `result` / `return_value`, frames of native code on the native stack) is not in the
   model: both tiers step the same `VM` value, so "nothing is lost at a hand-over" holds by construction. -/
theorem tier_transparent_partial (fns : List FnDef) (native : VM → StepRes) (hN : ∀ vm, native vm = stepVM fns vm)
    (sched : List Ev) (fuel : Nat) (vm : VM) :
    runTiered (mkImpl fns native) sched fuel vm = runVM fns (schedSteps sched + fuel) vm :=
  runTiered_eq fns native hN sched fuel vm

/-- The hypothesis is needed: with a native `call` that omits the arity check, a schedule that enters native
code makes `(two 1)` for `(define (two a b) a)` return 1 where the interpreter reports an error. -/
theorem tier_hypothesis_needed :
    let fns : List FnDef := [{ arity := 2, body := .loc 0 }]
    let vm := initVM (.call 0 [.const (.int 1)])
    runTiered (mkImpl fns (sloppyNative fns)) [.enter, .run 9] 10 vm = some (.int 1) ∧
    runVM fns (schedSteps [.enter, .run 9] + 10) vm = none ∧
    runTiered (mkImpl fns (sloppyNative fns)) [.run 9] 10 vm = none := by decide

/-- … and in the way the code really breaks it (finding K02e): a native primitive that goes on with a placeholder
after a type error.  `(if (+ 1 #t) 7 8)`: the interpreter reports the error, the tiered run yields 8. -/
theorem tier_hypothesis_needed_error :
    let vm := initVM (.ite (.prim .add (.const (.int 1)) (.const (.bool true))) (.const (.int 7)) (.const (.int 8)))
    runTiered (mkImpl [] (lossyNative [])) [.enter, .run 9] 10 vm = some (.int 8) ∧
    runVM [] (schedSteps [.enter, .run 9] + 10) vm = none := by decide

/-! ## (c) Histories -/

/-- The full statement: unit-local inlining is unobservable in every history. -/
def InlineHistoryFull (thr : Nat) : Prop :=
  ∀ h : History, ObsEquiv (runHistory .plain h []) (runHistory (.inlining thr) h [])

/-- **Provable part**: every history in which no piece assigns a cell that an earlier piece could inline
(a cell that piece defined by `define`, small enough, and did not assign itself). -/
theorem inline_history_partial (thr : Nat) (h : History) (hg : noLaterAssign thr h 0 [] = true) :
    ObsEquiv (runHistory .plain h []) (runHistory (.inlining thr) h []) :=
  history_inv h [] [] [] ⟨rfl, fun c fd hc => by simp at hc⟩ hg

/-- `(define (f) 1) (define (g) (f))` ; `(set! f (lambda () 2))` ; `(g)`. -/
def witness : History :=
  [[.define { arity := 0, body := .const (.int 1) }, .define { arity := 0, body := .call 0 [] }],
   [.assign 0 { arity := 0, body := .const (.int 2) }],
   [.eval (.call 1 [])]]

theorem witness_outside_guard : noLaterAssign 50 witness 0 [] = false := by decide

theorem witness_plain : runHistory .plain witness [] =
    [([{ arity := 0, body := .const (.int 2) }, { arity := 0, body := .call 0 [] }], .call 1 [])] := rfl

theorem witness_inlined : runHistory (.inlining 50) witness [] =
    [([{ arity := 0, body := .const (.int 2) }, { arity := 0, body := .const (.int 1) }], .call 1 [])] := rfl

/-- **The full statement is false** for the code as it is: in the witness the plain run observes 2 and the
inlining run observes 1 (the copy of `f`'s old body inside `g`). -/
theorem inline_history_false : ¬ InlineHistoryFull 50 := by
  intro hfull
  have h := hfull witness
  rw [witness_plain, witness_inlined] at h
  have h2 := (h.1 (.int 2)).mp ⟨2, by simp [Obs.value, evalIR, evalArgs]⟩
  obtain ⟨n, hn⟩ := h2
  cases n with
  | zero => simp [Obs.value, evalIR] at hn
  | succ n => simp [Obs.value, evalIR, evalArgs] at hn

/-! ## (d) Configurations

The four statements of this section are `decide`d facts about TABLES: the list of environment variables the
translator extracted from the source (`GenSwitches.lean`, regenerated) and the lists of configurations the
differential run uses.  They say that the RUN visits the configurations it should; they say nothing about the
behaviour of any program under any configuration. -/

/-- Every environment variable steel-core reads by name is either one of the five modelled switches or on the
list of variables that do not select an execution strategy; and all five switches are still there. -/
theorem switches_covered :
    (extractedSwitches.all fun s => modelledSwitches.contains s.name || ignoredEnv.contains s.name) = true ∧
    (modelledSwitches.all fun n => extractedSwitches.any fun s => s.name == n) = true := by decide

/-- The test applied to each modelled switch is one of the recognised forms, so the value that flips it is known. -/
theorem switch_tests_recognised :
    (modelledSwitches.all fun n =>
      match extractedSwitches.find? (·.name == n) with
      | some s => (nonDefaultValue s).isSome
      | none => false) = true := by decide

/-- The quick tier's configurations: at least 8, the default among them, every pair of switches in every pair of settings. -/
theorem quick_pairwise :
    pairwiseCovering 5 quickConfigs = true ∧ 8 ≤ quickConfigs.length ∧
    quickConfigs.contains [false, false, false, false, false] = true ∧
    (quickConfigs.all fun c => c.length == modelledSwitches.length) = true := by decide

/-- The thorough tier runs all 2^5 configurations. -/
theorem thorough_complete :
    allConfigs.length = 32 ∧ allConfigs.Nodup ∧ (allConfigs.all fun c => c.length == modelledSwitches.length) = true := by decide

/-! ## Non-vacuity -/

/-- `(define (inc x) (+ x 1)) (define (twice x) (inc (inc x)))`, main `(twice 5)`. -/
def incFn : FnDef := { arity := 1, body := .prim .add (.loc 0) (.const (.int 1)) }
def twiceFn : FnDef := { arity := 1, body := .call 0 [.call 0 [.loc 0]] }

/-- The pass really rewrites: both calls of `inc` inside `twice` become lets over the shifted body. -/
example : (inlineFn [incFn, twiceFn] (unitPolicy [] 1) 50 twiceFn).body =
    .let1 (.let1 (.loc 0) (.prim .add (.loc 1) (.const (.int 1)))) (.prim .add (.loc 1) (.const (.int 1))) := rfl

/-- … and `inline_prog_preserves` applies to a program that has a value (7) — computed here on both sides. -/
example : (evalIR [incFn, twiceFn] 3 (.call 1 [.const (.int 5)]) []).map (·.1) = some (.int 7) := by
  simp [evalIR, evalArgs, incFn, twiceFn, Op.apply]
example : (evalIR (inlineProg [incFn, twiceFn] (unitPolicy []) 50) 1
    (inline [incFn, twiceFn] (fun _ => true) 50 0 (.call 1 [.const (.int 5)])) []).map (·.1) = some (.int 7) := by
  simp [evalIR, evalArgs, incFn, twiceFn, Op.apply, inlineProg, inlineFn, inline, inlineArgs, eligible, size, sizeArgs,
    unitPolicy, bindArgs, shift, shiftArgs, List.mapIdx, List.mapIdx.go]

/-- `inline_preserves` / `inline_prog_preserves` APPLIED (every hypothesis instantiated): from the value of the
original program the theorem gives the value of the rewritten one … -/
example : ∃ F, evalIR (inlineProg [incFn, twiceFn] (unitPolicy []) 50) F
    (inline [incFn, twiceFn] (fun _ => true) 50 0 (.call 1 [.const (.int 5)])) [] = some (.int 7, []) :=
  (inline_preserves (rel_inlineProg 50 [incFn, twiceFn] (unitPolicy [])) (fun _ => true)
    (.call 1 [.const (.int 5)]) [] (.int 7, [])).mp
    ⟨3, by simp [evalIR, evalArgs, incFn, twiceFn, Op.apply]⟩
example : ∃ F, (evalIR (inlineProg [incFn, twiceFn] (unitPolicy []) 50) F
    (inline [incFn, twiceFn] (fun _ => true) 50 0 (.call 1 [.const (.int 5)])) []).map (·.1) = some (.int 7) :=
  (inline_prog_preserves 50 [incFn, twiceFn] (unitPolicy []) (fun _ => true) (.call 1 [.const (.int 5)]) (.int 7)).mp
    ⟨3, by simp [evalIR, evalArgs, incFn, twiceFn, Op.apply]⟩
/-- … in a NON-EMPTY frame (the inlined body is shifted above the local): `(inc x)` with `x = 4` in slot 0 … -/
example : inline [incFn, twiceFn] (fun _ => true) 50 1 (.call 0 [.loc 0]) =
    .let1 (.loc 0) (.prim .add (.loc 1) (.const (.int 1))) := rfl
example : ∃ F, evalIR (inlineProg [incFn, twiceFn] (unitPolicy []) 50) F
    (inline [incFn, twiceFn] (fun _ => true) 50 1 (.call 0 [.loc 0])) [.int 4] = some (.int 5, [.int 4]) :=
  (inline_preserves (rel_inlineProg 50 [incFn, twiceFn] (unitPolicy [])) (fun _ => true)
    (.call 0 [.loc 0]) [.int 4] (.int 5, [.int 4])).mp
    ⟨1, by simp [evalIR, evalArgs, incFn, Op.apply]⟩
/-- … and an ERROR stays an error: `(inc #t)` has no value at any call depth on either side. -/
example : ¬ ∃ F, ∃ r, evalIR (inlineProg [incFn, twiceFn] (unitPolicy []) 50) F
    (inline [incFn, twiceFn] (fun _ => true) 50 0 (.call 0 [.const (.bool true)])) [] = some r := by
  rintro ⟨F, r, h⟩
  obtain ⟨F', h'⟩ := (inline_preserves (rel_inlineProg 50 [incFn, twiceFn] (unitPolicy [])) (fun _ => true)
    (.call 0 [.const (.bool true)]) [] r).mpr ⟨F, h⟩
  cases F' with
  | zero => simp [evalIR] at h'
  | succ F' => simp [evalIR, evalArgs, incFn, Op.apply] at h'
/-- `inline_twice_preserves` applied: the second pass (threshold 75) runs on the output of the first. -/
example (r : Val × List Val) :
    (∃ F, evalIR [incFn, twiceFn] F (.call 1 [.const (.int 5)]) [] = some r) ↔
    (∃ F, evalIR (inlineProg (inlineProg [incFn, twiceFn] (unitPolicy []) 50) (unitPolicy []) 75) F
      (inline (inlineProg [incFn, twiceFn] (unitPolicy []) 50) (fun _ => true) 75 0
        (inline [incFn, twiceFn] (fun _ => true) 50 0 (.call 1 [.const (.int 5)]))) [] = some r) :=
  inline_twice_preserves (rel_inlineProg 50 _ _) (rel_inlineProg 75 _ _) _ _ _ [] r

/-- Folding really removes code: the dead call of an undefined procedure disappears, a failing constant
application stays. -/
example : fold (.ite (.prim .lt (.const (.int 1)) (.const (.int 2))) (.const (.int 7)) (.call 9 [])) = .const (.int 7) := rfl
example : fold (.prim .add (.const (.int 1)) (.const (.bool true))) = .prim .add (.const (.int 1)) (.const (.bool true)) := rfl

/-- `fold_preserves` / `inline_then_fold_preserves` applied: a dead branch with a call of an undefined procedure. -/
example : evalIR ([incFn].map foldFn) 2
      (fold (.ite (.prim .lt (.const (.int 1)) (.const (.int 2))) (.call 0 [.const (.int 6)]) (.call 9 []))) [] =
    evalIR [incFn] 2 (.ite (.prim .lt (.const (.int 1)) (.const (.int 2))) (.call 0 [.const (.int 6)]) (.call 9 [])) [] :=
  fold_preserves _ _ _ _
example : evalIR [incFn] 2 (.ite (.prim .lt (.const (.int 1)) (.const (.int 2))) (.call 0 [.const (.int 6)]) (.call 9 [])) []
    = some (.int 7, []) := by simp [evalIR, evalArgs, incFn, Op.apply, truthy]
example (r : Val × List Val) :
    (∃ F, evalIR [incFn, twiceFn] F (.call 1 [.const (.int 5)]) [] = some r) ↔
    (∃ F, evalIR ((inlineProg [incFn, twiceFn] (unitPolicy []) 50).map foldFn) F
      (fold (inline [incFn, twiceFn] (fun _ => true) 50 0 (.call 1 [.const (.int 5)]))) [] = some r) :=
  inline_then_fold_preserves (rel_inlineProg 50 _ _) _ _ [] r

/-- `tier_transparent_partial` applied (the only way to satisfy `hN` is a native tier that IS the interpreter's step),
on a run that halts with a value while the schedule switches tiers three times. -/
example : runTiered (mkImpl [sumFn] (stepVM [sumFn])) [.run 3, .enter, .run 20, .deopt, .run 2, .enter] 200
      (initVM (.call 0 [.const (.int 4), .const (.int 0)])) =
    runVM [sumFn] (schedSteps [.run 3, .enter, .run 20, .deopt, .run 2, .enter] + 200)
      (initVM (.call 0 [.const (.int 4), .const (.int 0)])) :=
  tier_transparent_partial _ _ (fun _ => rfl) _ _ _
example : runTiered (mkImpl [sumFn] (stepVM [sumFn])) [.run 3, .enter, .run 20, .deopt, .run 2, .enter] 200
    (initVM (.call 0 [.const (.int 4), .const (.int 0)])) = some (.int 10) := by decide

/-- A history inside the guard in which inlining happens and a later piece assigns a NON-inlinable cell
(`f` is assigned in its own unit, so the unit does not inline it). -/
def guarded : History :=
  [[.define { arity := 0, body := .const (.int 1) }, .define { arity := 0, body := .call 0 [] },
    .assign 0 { arity := 0, body := .const (.int 3) }, .define { arity := 0, body := .call 1 [] }],
   [.assign 0 { arity := 0, body := .const (.int 2) }],
   [.eval (.call 2 [])]]

example : noLaterAssign 50 guarded 0 [] = true := by decide
example : ObsEquiv (runHistory .plain guarded []) (runHistory (.inlining 50) guarded []) :=
  inline_history_partial 50 guarded (by decide)
/-- cell 2 (`h`) got the body of `g` (a call of `f`), not a copy of `f`'s body. -/
example : (runHistory (.inlining 50) guarded []).map (fun o => o.1.map (·.body)) =
    [[.const (.int 2), .call 0 [], .call 0 []]] := rfl

/-! ## Clauses of the property not carried by a theorem -/

/-
What the theorems say, read together — all of it about the MODEL on the lowered core of C01 (integers and
booleans, locals by frame offset, `if`/`let`/`begin`/`set!` of locals, binary primitives, calls of global
first-order procedures of fixed arity; no I/O): one or two passes of the unit-local call inliner with its real
legality conditions, followed or not by constant folding / dead-branch elimination, rewrite a program into one
that yields a value iff the original does, and the same value (`inline_preserves`, `inline_prog_preserves`,
`inline_twice_preserves`, `fold_preserves`, `inline_then_fold_preserves`); for evaluation histories this holds
when no piece assigns a cell that an earlier piece could inline (`inline_history_partial`) and is FALSE in
general (`inline_history_false`, finding K02a/D11); the tier scheduler composes steps IF each native
instruction equals the interpreter's (`tier_transparent_partial`).

NOT carried by any theorem (covered only by the per-program differential run of checks/c02.py):

 * **STEEL_JIT — native code generation**: that the Cranelift translation of each accepted op code, its
   runtime helpers and its deopt/fallback paths do what the interpreter does is the HYPOTHESIS of
   `tier_transparent_partial`; the trampoline / saved-first-opcode / `is_native`-`result`-`return_value`
   hand-over state is not modelled.  (Known false: K02g, K02i, K02j.)
 * **STEEL_INLINE_RECURSIVE** (the recursive inliner): only a counterexample to its missing arity condition
   (`inline_needs_arity_check`, K02b); no preservation theorem (K02f open).
 * **STEEL_CLOSURE_LIFTING** and **STEEL_MODULE_INLINE**: not modelled at all (K02c open).
 * **Combinations of the switches**: (d) says the run visits them; no theorem composes the passes beyond
   inline → inline → fold.
 * **"the same output"**: the core has no output or other effects besides `set!` of locals; the order and
   number of evaluations of operands is preserved only in the sense of the final `(value, frame)`.
 * **"the same error-or-success outcome"**: `evalIR` is `none` both for an error and for exhausted call depth,
   so the theorems equate "has the value v" on both sides; an error and a divergence are not told apart,
   and WHICH error is reported (kind, message, location — K02h) is not modelled.
 * **Histories** ("later pieces redefine or assign globals that earlier compiled functions call"): proved
   only for the unit-local inliner and only under `noLaterAssign`; redefinition (`define` of an existing name
   = a new cell), assignment from inside procedure bodies, histories under the native tier (native code
   holding a global's old value), and histories with module imports are not modelled.
 * **All deterministic programs**: closures, higher-order calls, variadic procedures, data structures, strings,
   floats, continuations, `dynamic-wind`, macros, modules are outside the lowered core.
 * **That the model of the inliner is the inliner**: `inline`/`eligible`/`unitPolicy` are a transcription of
   `analysis.rs` onto absolute frame offsets; only the LIST OF SWITCHES is regenerated from the source.
-/

end SteelVerif.C02

/-! ## (e) The JIT's shadow stack of pending operands (namespace `SteelVerif.C02J`, files JitShadow*.lean)

`tier_transparent_partial` assumes "a native instruction does what the interpreter's does".  For the part of the
native tier the open miscompilation findings concern — operands kept on a compile-time stack as references to
argument slots / SSA values / "already pushed" flags and materialised late — that assumption is replaced by a
model of the mechanism and a theorem: `C02J.shadow_transparent` (native code = interpreter on slots and operand
stack for every operand program that passes two static guards: no write to a slot with a pending reference; both
branches of a conditional leave every pending entry in the same state), `C02J.shapes_static` (the guards are
about compile-time shapes only), `C02J.shadow_transparent_false` (without the guards the statement is false) and
the decided witnesses `k02g_witness`, `k02i_witness`, `k02n_else_spills_witness`, `lp_then_spills_witness`,
`both_move_not_compiled`: the operand programs of findings K02g, K02i, K02n and of the `lp` loop, on which the
model of the REAL code generator (which has neither guard) and the interpreter give the values observed on the
real engine.  `read_is_step`/`move_is_step`/`setl_is_step` tie the interpreter side to `C01C.step`.
Not covered: `let` scopes (BEGINSCOPE spills), nested conditionals, errors/deoptimisation, the Cranelift
emission itself, every other op code family (K02e, K02j, K02m stay per-program facts of the differential run). -/
