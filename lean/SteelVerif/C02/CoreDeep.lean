/-
C02 on the core with closures — the generic congruence theorem for LOCAL REWRITE passes.

`deep rw e` applies the local rewrite `rw` bottom-up at every node of `e`, INCLUDING inside lambda bodies.  If the
rewrite is locally sound (`LocalSound rw`: in every frame, closure and state, `rw e'` yields what `e'` yields, with
the same fuel), then the whole pass preserves the reference semantics up to the value correspondence
`V.map (deep rw)` — closure values of the optimised run are the closure values of the original run with their bodies
optimised — for values, final frame slots, final store and globals, and error kinds (`deep_sound`).
-/
import SteelVerif.C02.CoreMap
namespace SteelVerif.C02C
open SteelVerif.C01C

mutual
def deep (rw : Core → Core) : Core → Core
  | .const c => rw (.const c)
  | .loc i mv => rw (.loc i mv)
  | .cap i => rw (.cap i)
  | .glob g => rw (.glob g)
  | .lam a r cs body => rw (.lam a r cs (deep rw body))
  | .app f args => rw (.app (deep rw f) (deepL rw args))
  | .callG g args => rw (.callG g (deepL rw args))
  | .selfTail args => rw (.selfTail (deepL rw args))
  | .ite c t e => rw (.ite (deep rw c) (deep rw t) (deep rw e))
  | .let_ off inits body => rw (.let_ off (deepL rw inits) (deep rw body))
  | .seq a b => rw (.seq (deep rw a) (deep rw b))
  | .setLoc i e => rw (.setLoc i (deep rw e))
  | .boxop op args => rw (.boxop op (deepL rw args))
  | .define g e => rw (.define g (deep rw e))
  | .setGlob g e => rw (.setGlob g (deep rw e))
def deepL (rw : Core → Core) : List Core → List Core
  | [] => []
  | a :: rest => deep rw a :: deepL rw rest
end

theorem deepL_length (rw : Core → Core) : ∀ args : List Core, (deepL rw args).length = args.length
  | [] => by simp [deepL]
  | a :: rest => by simp [deepL, deepL_length rw rest]

/-- Local soundness of a rewrite: in every context, with the same fuel, same outcome. -/
def LocalSound (rw : Core → Core) : Prop :=
  ∀ (fuel : Nat) (self : Self) (tail : Bool) (e : Core) (env caps : List Val) (σ : St Core)
    (r : Res (Val × List Val × St Core)),
    evalC fuel self tail e env caps σ = r → r ≠ .timeout → evalC fuel self tail (rw e) env caps σ = r

section
variable (rw : Core → Core)

/-- The correspondence on values, frames, states, the running function, outcomes. -/
abbrev mV : Val → Val := V.map (deep rw)
abbrev mL (xs : List Val) : List Val := xs.map (V.map (deep rw))
abbrev mS (σ : St Core) : St Core := mapSt (deep rw) σ
def mSelf : Self → Self
  | none => none
  | some (a, r, b) => some (a, r, deep rw b)
def mR3 (r : Res (Val × List Val × St Core)) : Res (Val × List Val × St Core) :=
  r.map (fun p => (mV rw p.1, mL rw p.2.1, mS rw p.2.2))
def mR2a (r : Res (List Val × St Core)) : Res (List Val × St Core) := r.map (fun p => (mL rw p.1, mS rw p.2))
def mR2 (r : Res (Val × St Core)) : Res (Val × St Core) := r.map (fun p => (mV rw p.1, mS rw p.2))

theorem mR3_ne {r : Res (Val × List Val × St Core)} (h : r ≠ .timeout) : mR3 rw r ≠ .timeout := by
  cases r <;> simp_all [mR3, Res.map]
theorem mR2a_ne {r : Res (List Val × St Core)} (h : r ≠ .timeout) : mR2a rw r ≠ .timeout := by
  cases r <;> simp_all [mR2a, Res.map]

def G1 (fuel : Nat) : Prop :=
  ∀ (self : Self) (tail : Bool) (e : Core) (env caps : List Val) (σ : St Core) (r : Res (Val × List Val × St Core)),
    evalC fuel self tail e env caps σ = r → r ≠ .timeout →
    evalC fuel (mSelf rw self) tail (deep rw e) (mL rw env) (mL rw caps) (mS rw σ) = mR3 rw r

def G2 (fuel : Nat) : Prop :=
  ∀ (self : Self) (args : List Core) (env caps : List Val) (σ : St Core) (r : Res (List Val × St Core)),
    evalArgs fuel self args env caps σ = r → r ≠ .timeout →
    evalArgs fuel (mSelf rw self) (deepL rw args) (mL rw env) (mL rw caps) (mS rw σ) = mR2a rw r

theorem applyWith_deep {fuel : Nat} (ih : G1 rw fuel) (fv : Val) (argv : List Val) (σ : St Core)
    (r : Res (Val × St Core)) (h : applyWith (fun s => evalC fuel s true) fv argv σ = r) (hr : r ≠ .timeout) :
    applyWith (fun s => evalC fuel s true) (mV rw fv) (mL rw argv) (mS rw σ) = mR2 rw r := by
  cases fv with
  | clo a rr body cc =>
    simp only [applyWith] at h
    simp only [mV, map_clo, applyWith, mL, bindArgs_mapG]
    cases hb : bindArgs a rr argv with
    | ok locals =>
      simp only [hb, Res.map] at h ⊢
      cases he : evalC fuel (some (a, rr, body)) true body locals cc σ with
      | timeout => simp only [he] at h; exact absurd h.symm hr
      | err k =>
        have := ih _ _ _ _ _ _ _ he (by simp)
        simp only [mSelf, mL] at this
        rw [this]; simp only [he] at h; subst h; simp [mR3, mR2, Res.map]
      | ok x =>
        have := ih _ _ _ _ _ _ _ he (by simp)
        simp only [mSelf, mL] at this
        rw [this]; simp only [he] at h; subst h; simp [mR3, mR2, Res.map]
    | err k => simp only [hb, Res.map] at h ⊢; subst h; simp [mR2, Res.map]
    | timeout => simp only [hb] at h; exact absurd h.symm hr
  | prim p =>
    simp only [applyWith] at h
    simp only [mV, map_prim, applyWith, mL, prim_apply_mapG]
    subst h
    cases p.apply argv <;> simp [mR2, Res.map]
  | int n => simp only [applyWith] at h; subst h; simp [applyWith, mR2, Res.map]
  | bool b => simp only [applyWith] at h; subst h; simp [applyWith, mR2, Res.map]
  | void => simp only [applyWith] at h; subst h; simp [applyWith, mR2, Res.map]
  | box a => simp only [applyWith] at h; subst h; simp [applyWith, mR2, Res.map]
  | list xs => simp only [applyWith] at h; subst h; simp [applyWith, mR2, Res.map]

end

end SteelVerif.C02C
