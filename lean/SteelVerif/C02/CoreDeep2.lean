/-
C02 on the core with closures — `deep_sound`: a locally sound rewrite applied everywhere (inside lambda bodies too)
preserves the reference semantics up to `V.map (deep rw)`.
-/
import SteelVerif.C02.CoreDeep
namespace SteelVerif.C02C
open SteelVerif.C01C

variable (rw : Core → Core)

theorem deep_args (hls : LocalSound rw) (fuel : Nat) (ih1 : G1 rw fuel) (ih2 : G2 rw fuel) : G2 rw (fuel + 1) := by
  intro self args env caps σ r h hr
  cases args with
  | nil =>
    simp only [evalArgs] at h; subst h
    simp [deepL, evalArgs, mR2a, Res.map]
  | cons a rest =>
    simp only [evalArgs] at h
    simp only [deepL, evalArgs]
    cases ha : evalC fuel self false a env caps σ with
    | timeout => simp only [ha] at h; exact absurd h.symm hr
    | err k =>
      rw [ih1 _ _ _ _ _ _ _ ha (by simp)]
      simp only [ha] at h; subst h; simp [mR3, mR2a, Res.map]
    | ok x =>
      obtain ⟨v, env1, σ1⟩ := x
      rw [ih1 _ _ _ _ _ _ _ ha (by simp)]
      simp only [ha] at h
      simp only [mR3, Res.map]
      have := ih2 _ _ _ _ _ _ h hr
      simpa [mL] using this

theorem deep_expr (hls : LocalSound rw) (fuel : Nat) (ih1 : G1 rw fuel) (ih2 : G2 rw fuel) : G1 rw (fuel + 1) := by
  intro self tail e env caps σ r h hr
  have hap := fun fv argv σ' r' => applyWith_deep rw ih1 fv argv σ' r'
  cases e with
  | const c =>
    simp only [deep]; refine hls _ _ _ _ _ _ _ _ ?_ (mR3_ne rw hr)
    simp only [evalC] at h ⊢; subst h; simp [mR3, Res.map]
  | loc i mv =>
    simp only [deep]; refine hls _ _ _ _ _ _ _ _ ?_ (mR3_ne rw hr)
    simp only [evalC, mL, List.getElem?_map] at h ⊢
    cases hv : env[i]? with
    | none => simp only [hv] at h; subst h; simp [mR3, Res.map]
    | some v => simp only [hv] at h; subst h; cases mv <;> simp [mR3, Res.map, List.map_set]
  | cap i =>
    simp only [deep]; refine hls _ _ _ _ _ _ _ _ ?_ (mR3_ne rw hr)
    simp only [evalC, mL, List.getElem?_map] at h ⊢
    cases hv : caps[i]? with
    | none => simp only [hv] at h; subst h; simp [mR3, Res.map]
    | some v => simp only [hv] at h; subst h; simp [mR3, Res.map]
  | glob g =>
    simp only [deep]; refine hls _ _ _ _ _ _ _ _ ?_ (mR3_ne rw hr)
    simp only [evalC, mS, mapSt_globals, lookupG_mapG] at h ⊢
    cases hv : lookupG g σ.globals with
    | none => simp only [hv] at h; subst h; simp [mR3, Res.map]
    | some v => simp only [hv] at h; subst h; simp [mR3, Res.map]
  | lam a rr cs body =>
    simp only [deep]; refine hls _ _ _ _ _ _ _ _ ?_ (mR3_ne rw hr)
    simp only [evalC, mL, capture_mapG] at h ⊢
    cases hv : capture env caps cs with
    | none => simp only [hv] at h; subst h; simp [mR3, Res.map]
    | some cv => simp only [hv] at h; subst h; simp [mR3, Res.map]
  | app f args =>
    simp only [deep]; refine hls _ _ _ _ _ _ _ _ ?_ (mR3_ne rw hr)
    simp only [evalC] at h
    simp only [evalC, deepL_length]
    cases hi : evalArgs fuel self args env caps σ with
    | timeout => simp only [hi] at h; exact absurd h.symm hr
    | err k => rw [ih2 _ _ _ _ _ _ hi (by simp)]; simp only [hi] at h; subst h; simp [mR2a, mR3, Res.map]
    | ok x =>
      obtain ⟨env1, σ1⟩ := x
      rw [ih2 _ _ _ _ _ _ hi (by simp)]
      simp only [hi] at h
      simp only [mR2a, Res.map]
      cases hf : evalC fuel self false f env1 caps σ1 with
      | timeout => simp only [hf] at h; exact absurd h.symm hr
      | err k => rw [ih1 _ _ _ _ _ _ _ hf (by simp)]; simp only [hf] at h; subst h; simp [mR3, Res.map]
      | ok y =>
        obtain ⟨fv, env2, σ2⟩ := y
        rw [ih1 _ _ _ _ _ _ _ hf (by simp)]
        simp only [hf] at h
        simp only [mR3, Res.map, mL, splitLast_mapG]
        cases hs : splitLast args.length env2 with
        | none => simp only [hs] at h; subst h; simp [Res.map]
        | some sp =>
          obtain ⟨envr, argv⟩ := sp
          simp only [hs] at h
          simp only [Option.map]
          cases ha : applyWith (fun s => evalC fuel s true) fv argv σ2 with
          | timeout => simp only [ha] at h; exact absurd h.symm hr
          | err k =>
            have := hap _ _ _ _ ha (by simp)
            simp only [mV, mL] at this
            rw [this]; simp only [ha] at h; subst h; simp [mR2, Res.map]
          | ok z =>
            have := hap _ _ _ _ ha (by simp)
            simp only [mV, mL] at this
            rw [this]; simp only [ha] at h; subst h; simp [mR2, Res.map]
  | callG g args =>
    simp only [deep]; refine hls _ _ _ _ _ _ _ _ ?_ (mR3_ne rw hr)
    simp only [evalC] at h
    simp only [evalC, deepL_length]
    cases hi : evalArgs fuel self args env caps σ with
    | timeout => simp only [hi] at h; exact absurd h.symm hr
    | err k => rw [ih2 _ _ _ _ _ _ hi (by simp)]; simp only [hi] at h; subst h; simp [mR2a, mR3, Res.map]
    | ok x =>
      obtain ⟨env1, σ1⟩ := x
      rw [ih2 _ _ _ _ _ _ hi (by simp)]
      simp only [hi] at h
      simp only [mR2a, Res.map, mS, mapSt_globals, lookupG_mapG]
      cases hg : lookupG g σ1.globals with
      | none => simp only [hg] at h; subst h; simp [mR3, Res.map]
      | some fv =>
        simp only [hg] at h
        simp only [Option.map, mL, splitLast_mapG]
        cases hs : splitLast args.length env1 with
        | none => simp only [hs] at h; subst h; simp [mR3, Res.map]
        | some sp =>
          obtain ⟨envr, argv⟩ := sp
          simp only [hs] at h
          simp only [Option.map]
          cases ha : applyWith (fun s => evalC fuel s true) fv argv σ1 with
          | timeout => simp only [ha] at h; exact absurd h.symm hr
          | err k =>
            have := hap _ _ _ _ ha (by simp)
            simp only [mV, mL, mS] at this
            rw [this]; simp only [ha] at h; subst h; simp [mR2, mR3, Res.map]
          | ok z =>
            have := hap _ _ _ _ ha (by simp)
            simp only [mV, mL, mS] at this
            rw [this]; simp only [ha] at h; subst h; simp [mR2, mR3, Res.map]
  | selfTail args =>
    simp only [deep]; refine hls _ _ _ _ _ _ _ _ ?_ (mR3_ne rw hr)
    simp only [evalC] at h
    simp only [evalC, deepL_length]
    cases tail
    · simp at h; subst h; simp [mR3, Res.map]
    · simp only [if_true] at h ⊢
      cases hi : evalArgs fuel self args env caps σ with
      | timeout => simp only [hi] at h; exact absurd h.symm hr
      | err k => rw [ih2 _ _ _ _ _ _ hi (by simp)]; simp only [hi] at h; subst h; simp [mR2a, mR3, Res.map]
      | ok x =>
        obtain ⟨env1, σ1⟩ := x
        rw [ih2 _ _ _ _ _ _ hi (by simp)]
        simp only [hi] at h
        simp only [mR2a, Res.map]
        cases self with
        | none => simp at h; subst h; simp [mSelf, mR3, Res.map]
        | some sf =>
          obtain ⟨a, rr, body⟩ := sf
          simp only at h
          simp only [mSelf, mL, splitLast_mapG]
          cases hs : splitLast args.length env1 with
          | none => simp only [hs] at h; subst h; simp [mR3, Res.map]
          | some sp =>
            obtain ⟨envr, argv⟩ := sp
            simp only [hs] at h
            simp only [Option.map]
            cases ha : applyWith (fun s => evalC fuel s true) (.clo a rr body caps) argv σ1 with
            | timeout => simp only [ha] at h; exact absurd h.symm hr
            | err k =>
              have := hap _ _ _ _ ha (by simp)
              simp only [mV, map_clo, mL] at this
              rw [this]; simp only [ha] at h; subst h; simp [mR2, mR3, Res.map]
            | ok z =>
              have := hap _ _ _ _ ha (by simp)
              simp only [mV, map_clo, mL] at this
              rw [this]; simp only [ha] at h; subst h; simp [mR2, mR3, Res.map]
  | ite c t e' =>
    simp only [deep]; refine hls _ _ _ _ _ _ _ _ ?_ (mR3_ne rw hr)
    simp only [evalC] at h ⊢
    cases hc : evalC fuel self false c env caps σ with
    | timeout => simp only [hc] at h; exact absurd h.symm hr
    | err k => rw [ih1 _ _ _ _ _ _ _ hc (by simp)]; simp only [hc] at h; subst h; simp [mR3, Res.map]
    | ok x =>
      obtain ⟨vc, env1, σ1⟩ := x
      rw [ih1 _ _ _ _ _ _ _ hc (by simp)]
      simp only [hc] at h
      simp only [mR3, Res.map, mV, truthy_map]
      by_cases ht : truthy vc = true
      · simp only [ht, if_true] at h ⊢; exact ih1 _ _ _ _ _ _ _ h hr
      · simp only [ht, if_false] at h ⊢; exact ih1 _ _ _ _ _ _ _ h hr
  | let_ off inits body =>
    simp only [deep]; refine hls _ _ _ _ _ _ _ _ ?_ (mR3_ne rw hr)
    simp only [evalC] at h ⊢
    cases hi : evalArgs fuel self inits env caps σ with
    | timeout => simp only [hi] at h; exact absurd h.symm hr
    | err k => rw [ih2 _ _ _ _ _ _ hi (by simp)]; simp only [hi] at h; subst h; simp [mR2a, mR3, Res.map]
    | ok x =>
      obtain ⟨env1, σ1⟩ := x
      rw [ih2 _ _ _ _ _ _ hi (by simp)]
      simp only [hi] at h
      simp only [mR2a, Res.map]
      cases hb : evalC fuel self tail body env1 caps σ1 with
      | timeout => simp only [hb] at h; exact absurd h.symm hr
      | err k => rw [ih1 _ _ _ _ _ _ _ hb (by simp)]; simp only [hb] at h; subst h; simp [mR3, Res.map]
      | ok y =>
        obtain ⟨vb, env2, σ2⟩ := y
        rw [ih1 _ _ _ _ _ _ _ hb (by simp)]
        simp only [hb] at h
        simp only [mR3, Res.map, mL, List.length_map]
        by_cases hl : env2.length < off
        · simp only [hl, if_true] at h ⊢; subst h; simp [Res.map]
        · simp only [hl, if_false] at h ⊢; subst h; simp [Res.map, List.map_take]
  | seq a b =>
    simp only [deep]; refine hls _ _ _ _ _ _ _ _ ?_ (mR3_ne rw hr)
    simp only [evalC] at h ⊢
    cases ha : evalC fuel self false a env caps σ with
    | timeout => simp only [ha] at h; exact absurd h.symm hr
    | err k => rw [ih1 _ _ _ _ _ _ _ ha (by simp)]; simp only [ha] at h; subst h; simp [mR3, Res.map]
    | ok x =>
      obtain ⟨va, env1, σ1⟩ := x
      rw [ih1 _ _ _ _ _ _ _ ha (by simp)]
      simp only [ha] at h
      simp only [mR3, Res.map]
      exact ih1 _ _ _ _ _ _ _ h hr
  | setLoc i e' =>
    simp only [deep]; refine hls _ _ _ _ _ _ _ _ ?_ (mR3_ne rw hr)
    simp only [evalC] at h ⊢
    cases he : evalC fuel self false e' env caps σ with
    | timeout => simp only [he] at h; exact absurd h.symm hr
    | err k => rw [ih1 _ _ _ _ _ _ _ he (by simp)]; simp only [he] at h; subst h; simp [mR3, Res.map]
    | ok x =>
      obtain ⟨ve, env1, σ1⟩ := x
      rw [ih1 _ _ _ _ _ _ _ he (by simp)]
      simp only [he] at h
      simp only [mR3, Res.map, mL, List.getElem?_map]
      cases ho : env1[i]? with
      | none => simp only [ho] at h; subst h; simp [Res.map]
      | some old => simp only [ho] at h; subst h; simp [Res.map, List.map_set]
  | boxop op args =>
    simp only [deep]; refine hls _ _ _ _ _ _ _ _ ?_ (mR3_ne rw hr)
    simp only [evalC] at h ⊢
    cases hi : evalArgs fuel self args env caps σ with
    | timeout => simp only [hi] at h; exact absurd h.symm hr
    | err k => rw [ih2 _ _ _ _ _ _ hi (by simp)]; simp only [hi] at h; subst h; simp [mR2a, mR3, Res.map]
    | ok x =>
      obtain ⟨env1, σ1⟩ := x
      rw [ih2 _ _ _ _ _ _ hi (by simp)]
      simp only [hi] at h
      simp only [mR2a, Res.map, mL, splitLast_mapG]
      cases hs : splitLast op.arity env1 with
      | none => simp only [hs] at h; subst h; simp [mR3, Res.map]
      | some sp =>
        obtain ⟨envr, argv⟩ := sp
        simp only [hs] at h
        simp only [Option.map, mS, boxop_apply_mapG]
        cases ha : op.apply argv σ1 with
        | timeout => simp only [ha] at h; exact absurd h.symm hr
        | err k => simp only [ha] at h; subst h; simp [mR3, Res.map]
        | ok z => simp only [ha] at h; subst h; simp [mR3, Res.map]
  | define g e' =>
    simp only [deep]; refine hls _ _ _ _ _ _ _ _ ?_ (mR3_ne rw hr)
    simp only [evalC] at h ⊢
    cases he : evalC fuel self false e' env caps σ with
    | timeout => simp only [he] at h; exact absurd h.symm hr
    | err k => rw [ih1 _ _ _ _ _ _ _ he (by simp)]; simp only [he] at h; subst h; simp [mR3, Res.map]
    | ok x =>
      rw [ih1 _ _ _ _ _ _ _ he (by simp)]
      simp only [he] at h; subst h; simp [mR3, Res.map, mapSt]
  | setGlob g e' =>
    simp only [deep]; refine hls _ _ _ _ _ _ _ _ ?_ (mR3_ne rw hr)
    simp only [evalC] at h ⊢
    cases he : evalC fuel self false e' env caps σ with
    | timeout => simp only [he] at h; exact absurd h.symm hr
    | err k => rw [ih1 _ _ _ _ _ _ _ he (by simp)]; simp only [he] at h; subst h; simp [mR3, Res.map]
    | ok x =>
      obtain ⟨ve, env1, σ1⟩ := x
      rw [ih1 _ _ _ _ _ _ _ he (by simp)]
      simp only [he] at h
      simp only [mR3, Res.map, mS, mapSt_globals, lookupG_mapG]
      cases ho : lookupG g σ1.globals with
      | none => simp only [ho] at h; subst h; simp [Res.map]
      | some old => simp only [ho] at h; subst h; simp [Res.map, mapSt]

theorem deep_all (hls : LocalSound rw) : ∀ fuel, G1 rw fuel ∧ G2 rw fuel := by
  intro fuel
  induction fuel with
  | zero =>
    constructor
    · intro self tail e env caps σ r h hr; simp [evalC] at h; exact absurd h.symm hr
    · intro self args env caps σ r h hr; simp [evalArgs] at h; exact absurd h.symm hr
  | succ fuel ih => exact ⟨deep_expr rw hls fuel ih.1 ih.2, deep_args rw hls fuel ih.1 ih.2⟩

end SteelVerif.C02C
