/-
C02 — the JIT's shadow stack of pending operands (`jit2/cgen.rs`: `shadow_stack : Vec<MaybeStackValue>`).

The interpreter (`C01C.step`) pushes every operand on the VM stack at the moment it is evaluated.  The native
tier does not: while it translates a procedure it keeps the operands that are still waiting for their consumer on
a COMPILE-TIME stack whose entries are

  * `Value { value, spilled }`  — an SSA value (`spilled = true`: it has also been pushed on the VM stack, and a
                                   consumer takes it from THERE, `maybe_patch_from_stack`),
  * `Register(i)`               — a reference to the argument slot `i`, not read yet (`READLOCAL i`, i < arity),
  * `MutRegister(i)` / `Constant` — a pending moving read / a constant not yet encoded,

and materialises an entry (reads the slot, encodes the constant, pushes to the VM stack = "spills") as late as
possible: when a consumer pops it (`shadow_pop`, `split_off`) or when something needs the VM stack to look the way
the interpreter's would (`spill_stack` before a call through the VM, `BEGINSCOPE`, `TCOJMP`).

This file models that mechanism as a second semantics `natP` of operand code next to the interpreter's `interpP`
(= the effect of the `C01C.step` op codes on one frame, lemmas `interp_read_is_step` … in JitShadowProps.lean):

  `SOp`  straight-line operand code: `const` (PUSHCONST/LOADINTn/…), `read i` (READLOCAL i), `move i`
         (MOVEREADLOCAL i), `setl i` (SETLOCAL i), `drop` (POPSINGLE), `un`/`bin` (op codes the JIT translates
         inline: no spill), `call` (a call through the VM: every pending operand is spilled first);
  `Op`   `s o`, or `ite t e` = IF / JMP with straight-line branches (`translate_if_else_value`).

Run-time state of native code `NSt`: the argument slots `loc`, the operand part of the VM stack `vm` (only
what has been spilled; head = top), and the shadow stack `sh` (head = top) carried along with the VALUES its SSA
entries have on the path being executed.  What the code generator knows statically is the SHAPE of `sh` (`Sh`:
reference / value, spilled or not); `absS`/`absO` compute it without values, exactly as the translation does.

Three places where the real code generator's state handling matters, all modelled as they are in the code:
  (1) `move i` first materialises every pending `Register(i)` (cgen.rs `spilled_read_local_value`);
  (2) `setl i` does NOT (the `SETLOCAL` arm) — finding K02g;
  (3) after `ite t e` the compile-time state is the one the ELSE branch leaves (`self.shadow_stack =
      frozen_stack` … `stack_to_ssa()`; the then branch's `then_stack` is dropped when both branches fall
      through), whatever the then branch did to the pending entries: `reshape` re-reads the run-time entries
      of the then path under the else branch's shapes — findings K02i, K02n and the `lp` loop.
Simplifications: `MutRegister(i)` is an eager move (sound when the moved variable is not read again, which the
byte-code compiler's last-use analysis provides); constants are values; `let` scopes, errors and deoptimisation
are not modelled; one level of conditionals.  Imports nothing outside core.
-/
namespace SteelVerif.C02J

/-- Run-time view of a shadow-stack entry. -/
inductive Pend (α : Type) where
  | val (v : α) (spilled : Bool)
  | ref (i : Nat)
deriving DecidableEq, Repr

/-- What the code generator knows of an entry. -/
inductive Sh where
  | val (spilled : Bool)
  | ref (i : Nat)
deriving DecidableEq, Repr

def Pend.shape {α : Type} : Pend α → Sh
  | .val _ b => .val b
  | .ref i => .ref i

/-- Not (yet) on the VM stack. -/
def Pend.unsp {α : Type} : Pend α → Bool
  | .val _ b => !b
  | .ref _ => true

def Sh.isRef : Sh → Bool
  | .ref _ => true
  | .val _ => false

/-- Straight-line operand code. -/
inductive SOp (α : Type) where
  | const (v : α)
  | read (i : Nat)
  | move (i : Nat)
  | setl (i : Nat)
  | drop
  | un (f : α → α)
  | bin (f : α → α → α)
  | call (f : α → α)

inductive Op (α : Type) where
  | s (o : SOp α)
  | ite (t e : List (SOp α))

/-- Native run-time state. -/
structure NSt (α : Type) where
  loc : List α
  vm : List α
  sh : List (Pend α)
deriving DecidableEq, Repr

section
variable {α : Type} (void : α)

/-! ## The interpreter: every operand goes to the VM stack at once (state: slots, operands with head = top) -/

def interpS : SOp α → List α × List α → Option (List α × List α)
  | .const v, (l, o) => some (l, v :: o)
  | .read i, (l, o) =>
      match l[i]? with
      | some v => some (l, v :: o)
      | none => none
  | .move i, (l, o) =>
      match l[i]? with
      | some v => some (l.set i void, v :: o)
      | none => none
  | .setl i, (l, v :: o) =>
      match l[i]? with
      | some old => some (l.set i v, old :: o)
      | none => none
  | .drop, (l, _ :: o) => some (l, o)
  | .un f, (l, a :: o) => some (l, f a :: o)
  | .bin f, (l, b :: a :: o) => some (l, f a b :: o)
  | .call f, (l, a :: o) => some (l, f a :: o)
  | _, _ => none

def interpL : List (SOp α) → List α × List α → Option (List α × List α)
  | [], x => some x
  | o :: rest, x =>
      match interpS void o x with
      | some y => interpL rest y
      | none => none

def interpO (truthy : α → Bool) : Op α → List α × List α → Option (List α × List α)
  | .s o, x => interpS void o x
  | .ite t e, (l, c :: o) => if truthy c then interpL void t (l, o) else interpL void e (l, o)
  | .ite _ _, (_, []) => none

def interpP (truthy : α → Bool) : List (Op α) → List α × List α → Option (List α × List α)
  | [], x => some x
  | o :: rest, x =>
      match interpO void truthy o x with
      | some y => interpP truthy rest y
      | none => none

/-! ## Native code: operands stay on the shadow stack and are materialised late -/

/-- The value an entry stands for, given the slots as they are NOW. -/
def valOf (loc : List α) : Pend α → α
  | .val v _ => v
  | .ref i => loc.getD i void

/-- The operand stack the interpreter would have: the unspilled entries materialised, on top of what is spilled. -/
def concOps (loc vm : List α) (sh : List (Pend α)) : List α :=
  ((sh.filter Pend.unsp).map (valOf void loc)) ++ vm

def conc (st : NSt α) : List α × List α := (st.loc, concOps void st.loc st.vm st.sh)

/-- `shadow_pop` / one operand of `split_off`: an unspilled entry is materialised, a spilled one is taken from
the VM stack (whatever is on top of it). -/
def pop (st : NSt α) : Option (α × NSt α) :=
  match st.sh with
  | [] => none
  | .val v false :: r => some (v, { st with sh := r })
  | .ref i :: r => some (st.loc.getD i void, { st with sh := r })
  | .val _ true :: r =>
      match st.vm with
      | x :: vm' => some (x, { st with vm := vm', sh := r })
      | [] => none

/-- `spilled_read_local_value`, `MOVEREADLOCAL`: a pending reference to the slot that is about to be emptied takes
its value now. -/
def matRef (loc : List α) (i : Nat) : Pend α → Pend α
  | .ref j => if j = i then .val (loc.getD i void) false else .ref j
  | e => e

def spillE (loc : List α) : Pend α → Pend α
  | .val v _ => .val v true
  | .ref i => .val (loc.getD i void) true

/-- `spill_stack`: every entry that is not on the VM stack yet is pushed, in order. -/
def spillAll (st : NSt α) : NSt α :=
  { loc := st.loc, vm := concOps void st.loc st.vm st.sh, sh := st.sh.map (spillE void st.loc) }

def natS : SOp α → NSt α → Option (NSt α)
  | .const v, st => some { st with sh := .val v false :: st.sh }
  | .read i, st =>
      match st.loc[i]? with
      | some _ => some { st with sh := .ref i :: st.sh }          -- a reference: the slot is NOT read here
      | none => none
  | .move i, st =>
      match st.loc[i]? with
      | some v => some { loc := st.loc.set i void, vm := st.vm,
                         sh := .val v false :: st.sh.map (matRef void st.loc i) }
      | none => none
  | .setl i, st =>
      match pop void st with
      | some (v, st1) =>
          match st1.loc[i]? with
          | some old => some { st1 with loc := st1.loc.set i v, sh := .val old false :: st1.sh }  -- no matRef
          | none => none
      | none => none
  | .drop, st =>
      match pop void st with
      | some (_, st1) => some st1
      | none => none
  | .un f, st =>
      match pop void st with
      | some (a, st1) => some { st1 with sh := .val (f a) false :: st1.sh }
      | none => none
  | .bin f, st =>
      match pop void st with
      | some (b, st1) =>
          match pop void st1 with
          | some (a, st2) => some { st2 with sh := .val (f a b) false :: st2.sh }
          | none => none
      | none => none
  | .call f, st =>
      let st1 := spillAll void st
      match st1.sh, st1.vm with
      | _ :: r, a :: vm' => some { loc := st1.loc, vm := vm', sh := .val (f a) false :: r }
      | _, _ => none

def natL : List (SOp α) → NSt α → Option (NSt α)
  | [], st => some st
  | o :: rest, st =>
      match natS void o st with
      | some st' => natL rest st'
      | none => none

/-! ## What the code generator computes: shapes.  `g = true` adds the two guards under which late
materialisation is sound (they are NOT in the real code). -/

def absS (g : Bool) : SOp α → List Sh → Option (List Sh)
  | .const _, s => some (.val false :: s)
  | .read i, s => some (.ref i :: s)
  | .move i, s => some (.val false :: s.map (fun e => if e = .ref i then .val false else e))
  | .setl i, _ :: s =>
      -- GUARD 1: no write to a slot while a reference to it is pending
      if g && s.contains (.ref i) then none else some (.val false :: s)
  | .drop, _ :: s => some s
  | .un _, _ :: s => some (.val false :: s)
  | .bin _, _ :: _ :: s => some (.val false :: s)
  | .call _, _ :: s => some (.val false :: s.map (fun _ => .val true))
  | _, _ => none

def absL (g : Bool) : List (SOp α) → List Sh → Option (List Sh)
  | [], s => some s
  | o :: rest, s =>
      match absS g o s with
      | some s' => absL g rest s'
      | none => none

/-- An entry that was a reference before the conditional and is an unspilled value after the else branch holds
an SSA value defined inside the else block (Cranelift's verifier rejects its use after the merge). -/
def joinOk : List Sh → List Sh → Bool
  | _, [] => true
  | pre, t :: ts => !((pre.headD (.val false)).isRef && t == .val false) && joinOk pre.tail ts

def absO (g : Bool) : Op α → List Sh → Option (List Sh)
  | .s o, s => absS g o s
  | .ite t e, _ :: s =>
      match absL g t s, absL g e s with
      | some (_ :: ts), some (_ :: es) =>
          -- GUARD 2: both branches leave the pending entries in the same state
          if g && !(ts = es && joinOk s es) then none else some (.val false :: es)   -- the ELSE branch's state
      | _, _ => none
  | .ite _ _, [] => none

def absP (g : Bool) : List (Op α) → List Sh → Option (List Sh)
  | [], s => some s
  | o :: rest, s =>
      match absO g o s with
      | some s' => absP g rest s'
      | none => none

/-- The run-time entries of the THEN path, read the way the code after the merge reads them: under the shapes
the ELSE branch left (`pre`: the shapes before the conditional).  `none`: the function is not compiled. -/
def reshape : List Sh → List Sh → List (Pend α) → Option (List (Pend α))
  | _, [], [] => some []
  | pre, t :: ts, c :: cs =>
      let e : Option (Pend α) :=
        match t, pre.headD (.val false), c with
        | .ref i, _, _ => some (.ref i)                         -- "still a reference": the slot is read later
        | .val b, .val _, .val v _ => some (.val v b)           -- the same SSA value, the else branch's flag
        | .val true, .ref _, .val v _ => some (.val v true)     -- only its copy on the VM stack is used
        | .val true, .ref _, .ref _ => some (.val void true)
        | _, _, _ => none
      match e, reshape pre.tail ts cs with
      | some e', some r => some (e' :: r)
      | _, _ => none
  | _, _, _ => none

def natO (truthy : α → Bool) : Op α → NSt α → Option (NSt α)
  | .s o, st => natS void o st
  | .ite t e, st =>
      match pop void st with
      | none => none
      | some (c, st0) =>
          if truthy c then
            match natL void t st0 with
            | none => none
            | some st1 =>
                match pop void st1 with
                | none => none
                | some (v, st2) =>
                    match absL false e (st0.sh.map Pend.shape) with
                    | some (_ :: es) =>
                        match reshape void (st0.sh.map Pend.shape) es st2.sh with
                        | some sh3 => some { st2 with sh := .val v false :: sh3 }
                        | none => none
                    | _ => none
          else
            match natL void e st0 with
            | none => none
            | some st1 =>
                match pop void st1 with
                | none => none
                | some (v, st2) => some { st2 with sh := .val v false :: st2.sh }

def natP (truthy : α → Bool) : List (Op α) → NSt α → Option (NSt α)
  | [], st => some st
  | o :: rest, st =>
      match natO void truthy o st with
      | some st' => natP truthy rest st'
      | none => none

/-- Spilled entries lie below unspilled ones ("we just have to spill in order"). -/
def sorted : List (Pend α) → Bool
  | [] => true
  | e :: r => if e.unsp then sorted r else r.all (fun x => !x.unsp)

end

/-! ## A small value type for the decided witnesses -/

inductive W where
  | void
  | int (n : Int)
  | bool (b : Bool)
deriving DecidableEq, Repr

def W.truthy : W → Bool
  | .bool false => false
  | _ => true

def W.arith (f : Int → Int → Int) : W → W → W
  | .int a, .int b => .int (f a b)
  | _, _ => .void

def W.lt : W → W → W
  | .int a, .int b => .bool (a < b)
  | _, _ => .void

end SteelVerif.C02J
