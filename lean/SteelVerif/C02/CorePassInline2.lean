/-
C02 on the core with closures — the inliner on a whole unit: the unit's inlinable definitions, then the rest of the
unit (optimised), from the state with the primitives only.
-/
import SteelVerif.C02.CorePassInline
namespace SteelVerif.C02C
open SteelVerif.C01C

/-- The `define` forms of the table: `(define f (lambda (x₁ … xₐ) body))`. -/
def defsOf (tbl : InlTbl) : List Core := tbl.map (fun x => .define x.1 (.lam x.2.1 false [] x.2.2))

def bind1 (x : Nat × Nat × Core) (σ : St Core) : St Core :=
  { σ with globals := (x.1, .clo x.2.1 false x.2.2 []) :: σ.globals }

/-- The state after the definitions. -/
def bindAll : InlTbl → St Core → St Core
  | [], σ => σ
  | x :: rest, σ => bindAll rest (bind1 x σ)

theorem evalTop_def (fuel : Nat) (x : Nat × Nat × Core) (σ : St Core) :
    evalTop (fuel + 2) (.define x.1 (.lam x.2.1 false [] x.2.2)) σ = .ok (.void, bind1 x σ) := by
  simp [evalTop, evalC, capture, Res.map, bind1]

theorem evalDefs (fuel : Nat) : ∀ (tbl : InlTbl) (σ : St Core),
    evalProgram (fuel + 2) (defsOf tbl) σ = .ok (tbl.map (fun _ => V.void), bindAll tbl σ)
  | [], σ => by simp [defsOf, evalProgram, bindAll]
  | x :: rest, σ => by
    have ih := evalDefs fuel rest (bind1 x σ)
    simp only [defsOf, List.map_cons, evalProgram, evalTop_def]
    simp only [defsOf] at ih
    simp [ih, Res.map, bindAll]

theorem evalProgram_append (fuel : Nat) : ∀ (a b : List Core) (σ σ1 σ2 : St Core) (v1 v2 : List Val),
    evalProgram fuel a σ = .ok (v1, σ1) → evalProgram fuel b σ1 = .ok (v2, σ2) →
    evalProgram fuel (a ++ b) σ = .ok (v1 ++ v2, σ2) := by
  intro a
  induction a with
  | nil => intro b σ σ1 σ2 v1 v2 h1 h2; simp [evalProgram] at h1; obtain ⟨rfl, rfl⟩ := h1; simpa using h2
  | cons e rest ih =>
    intro b σ σ1 σ2 v1 v2 h1 h2
    simp only [evalProgram] at h1
    cases he : evalTop fuel e σ with
    | err k => simp [he] at h1
    | timeout => simp [he] at h1
    | ok p =>
      obtain ⟨v, σ'⟩ := p
      simp only [he] at h1
      cases hr : evalProgram fuel rest σ' with
      | err k => simp [hr, Res.map] at h1
      | timeout => simp [hr, Res.map] at h1
      | ok q =>
        obtain ⟨vs, σ''⟩ := q
        simp only [hr, Res.map, Res.ok.injEq, Prod.mk.injEq] at h1
        obtain ⟨rfl, rfl⟩ := h1
        have := ih b σ' σ'' σ2 vs v2 hr h2
        simp [evalProgram, he, this, Res.map]

theorem lookup_bindAll_notin : ∀ (tbl : InlTbl) (σ : St Core) (g : Nat), (tbl.map (·.1)).contains g = false →
    lookupG g (bindAll tbl σ).globals = lookupG g σ.globals
  | [], σ, g, _ => rfl
  | x :: rest, σ, g, h => by
    simp only [List.map_cons, List.contains_cons, Bool.or_eq_false_iff, beq_eq_false_iff_ne] at h
    have hk : x.1 ≠ g := fun e => h.1 e.symm
    rw [bindAll, lookup_bindAll_notin rest _ g h.2]
    simp [bind1, lookupG, hk]

theorem lookup_bindAll_mem : ∀ (tbl : InlTbl) (σ : St Core), (tbl.map (·.1)).Nodup → ∀ x, x ∈ tbl →
    lookupG x.1 (bindAll tbl σ).globals = some (.clo x.2.1 false x.2.2 [])
  | [], σ, _, x, hx => by cases hx
  | y :: rest, σ, hnd, x, hx => by
    simp only [List.map_cons, List.nodup_cons] at hnd
    rcases List.mem_cons.1 hx with rfl | hx'
    · rw [bindAll, lookup_bindAll_notin rest _ x.1 (by simpa using hnd.1)]
      simp [bind1, lookupG]
    · rw [bindAll]; exact lookup_bindAll_mem rest _ hnd.2 x hx'

theorem inlQ_bindAll (tbl : InlTbl) (σ : St Core) (hnd : (tbl.map (·.1)).Nodup) : InlQ tbl (bindAll tbl σ) := by
  intro g a b hl
  exact lookup_bindAll_mem tbl σ hnd (g, a, b) (lookupT_mem' hl)

theorem okSt_bindAll (ps : List Nat) : ∀ (tbl : InlTbl) (σ : St Core), OkSt ps σ →
    (∀ x, x ∈ tbl → noAssign ps x.2.2 = true) → OkSt ps (bindAll tbl σ)
  | [], σ, h, _ => h
  | x :: rest, σ, h, hb => by
    rw [bindAll]
    refine okSt_bindAll ps rest _ ⟨h.store, ?_⟩ (fun y hy => hb y (List.mem_cons_of_mem _ hy))
    intro g v hm
    simp only [bind1, List.mem_cons, Prod.mk.injEq] at hm
    rcases hm with ⟨_, rfl⟩ | hm
    · exact .clo _ _ _ _ (hb x (by simp)) (by intro y hy; cases hy)
    · exact h.globs g v hm

theorem mS_bindAll (rw : Core → Core) : ∀ (tbl : InlTbl) (σ : St Core), mS rw σ = σ →
    (∀ x, x ∈ tbl → deep rw x.2.2 = x.2.2) → mS rw (bindAll tbl σ) = bindAll tbl σ
  | [], σ, h, _ => h
  | x :: rest, σ, h, hb => by
    rw [bindAll]
    refine mS_bindAll rw rest _ ?_ (fun y hy => hb y (List.mem_cons_of_mem _ hy))
    have h1 : (mS rw σ).globals = σ.globals := by rw [h]
    have h2 : (mS rw σ).store = σ.store := by rw [h]
    simp only [mS, mapSt] at h1 h2 ⊢
    simp [bind1, hb x (by simp), h1, h2]

theorem map_defsOf (thr : Nat) (tbl tbl' : InlTbl)
    (hleaf : ∀ x, x ∈ tbl' → noCallOf (tbl.map (·.1)) x.2.2 = true) :
    (defsOf tbl').map (inlinePass thr tbl) = defsOf tbl' := by
  induction tbl' with
  | nil => rfl
  | cons x rest ih =>
    have hx := deep_leaf thr tbl x.2.2 (hleaf x (by simp))
    have := ih (fun y hy => hleaf y (List.mem_cons_of_mem _ hy))
    simp only [defsOf, List.map_cons] at this ⊢
    rw [this]
    simp [inlinePass, deep, rwInl, hx]

end SteelVerif.C02C
