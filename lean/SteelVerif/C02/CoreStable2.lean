/-
C02 on the core with closures — `stable`: evaluation of code that does not assign the protected slots, in a context
whose closures do not either, leaves the protected slots unchanged and stays inside that class of values and states.
-/
import SteelVerif.C02.CoreStable
namespace SteelVerif.C02C
open SteelVerif.C01C

variable (ps : List Nat)

def S1 (fuel : Nat) : Prop :=
  ∀ (self : Self) (tail : Bool) (e : Core) (env caps : List Val) (σ : St Core) (v : Val) (env' : List Val) (σ' : St Core),
    evalC fuel self tail e env caps σ = .ok (v, env', σ') → noAssign ps e = true → OkSelf ps self →
    OkL ps env → OkL ps caps → OkSt ps σ →
    OkV ps v ∧ OkL ps env' ∧ OkSt ps σ' ∧ Same ps σ σ'

def S2 (fuel : Nat) : Prop :=
  ∀ (self : Self) (args : List Core) (env caps : List Val) (σ : St Core) (env1 : List Val) (σ1 : St Core),
    evalArgs fuel self args env caps σ = .ok (env1, σ1) → noAssignL ps args = true → OkSelf ps self →
    OkL ps env → OkL ps caps → OkSt ps σ →
    OkL ps env1 ∧ OkSt ps σ1 ∧ Same ps σ σ1

theorem applyWith_stable {fuel : Nat} (ih : S1 ps fuel) (fv : Val) (argv : List Val) (σ : St Core) (v : Val)
    (σ' : St Core) (h : applyWith (fun s => evalC fuel s true) fv argv σ = .ok (v, σ'))
    (hf : OkV ps fv) (ha : OkL ps argv) (hst : OkSt ps σ) : OkV ps v ∧ OkSt ps σ' ∧ Same ps σ σ' := by
  rcases applyWith_ok h with ⟨p, rfl, hp, rfl⟩ | ⟨a, r, body, cc, locals, envb, rfl, hb, hev⟩
  · exact ⟨prim_ok hp, hst, Same.refl _⟩
  · cases hf with
    | clo _ _ _ _ hbody hcaps =>
      obtain ⟨h1, _, h3, h4⟩ := ih _ _ _ _ _ _ _ _ _ hev hbody hbody (bindArgs_ok ha hb) hcaps hst
      exact ⟨h1, h3, h4⟩

theorem stable_args (fuel : Nat) (ih1 : S1 ps fuel) (ih2 : S2 ps fuel) : S2 ps (fuel + 1) := by
  intro self args env caps σ env1 σ1 h hn hself henv hcaps hst
  cases args with
  | nil =>
    simp only [evalArgs, Res.ok.injEq, Prod.mk.injEq] at h
    obtain ⟨rfl, rfl⟩ := h
    exact ⟨henv, hst, Same.refl _⟩
  | cons a rest =>
    simp only [noAssignL, Bool.and_eq_true] at hn
    simp only [evalArgs] at h
    cases ha : evalC fuel self false a env caps σ with
    | timeout => simp [ha] at h
    | err k => simp [ha] at h
    | ok x =>
      obtain ⟨v, env2, σ2⟩ := x
      simp only [ha] at h
      obtain ⟨a1, a2, a3, a4⟩ := ih1 _ _ _ _ _ _ _ _ _ ha hn.1 hself henv hcaps hst
      obtain ⟨b1, b2, b3⟩ := ih2 _ _ _ _ _ _ _ h hn.2 hself (a2.append (OkL.single a1)) hcaps a3
      exact ⟨b1, b2, a4.trans b3⟩

theorem stable_expr (fuel : Nat) (ih1 : S1 ps fuel) (ih2 : S2 ps fuel) : S1 ps (fuel + 1) := by
  intro self tail e env caps σ v env' σ' h hn hself henv hcaps hst
  cases e with
  | const c =>
    simp only [evalC, Res.ok.injEq, Prod.mk.injEq] at h
    obtain ⟨rfl, rfl, rfl⟩ := h
    exact ⟨okConst c, henv, hst, Same.refl _⟩
  | loc i mv =>
    simp only [evalC] at h
    cases hv : env[i]? with
    | none => simp [hv] at h
    | some x =>
      simp only [hv, Res.ok.injEq, Prod.mk.injEq] at h
      obtain ⟨rfl, rfl, rfl⟩ := h
      refine ⟨henv.get hv, ?_, hst, Same.refl _⟩
      cases mv
      · simpa using henv
      · simpa using henv.set i .void
  | cap i =>
    simp only [evalC] at h
    cases hv : caps[i]? with
    | none => simp [hv] at h
    | some x =>
      simp only [hv, Res.ok.injEq, Prod.mk.injEq] at h
      obtain ⟨rfl, rfl, rfl⟩ := h
      exact ⟨hcaps.get hv, henv, hst, Same.refl _⟩
  | glob g =>
    simp only [evalC] at h
    cases hv : lookupG g σ.globals with
    | none => simp [hv] at h
    | some x =>
      simp only [hv, Res.ok.injEq, Prod.mk.injEq] at h
      obtain ⟨rfl, rfl, rfl⟩ := h
      exact ⟨hst.globs g _ (lookupG_mem' hv), henv, hst, Same.refl _⟩
  | lam a rr cs body =>
    simp only [noAssign] at hn
    simp only [evalC] at h
    cases hv : capture env caps cs with
    | none => simp [hv] at h
    | some cv =>
      simp only [hv, Res.ok.injEq, Prod.mk.injEq] at h
      obtain ⟨rfl, rfl, rfl⟩ := h
      exact ⟨.clo _ _ _ _ hn (capture_ok henv hcaps cs cv hv), henv, hst, Same.refl _⟩
  | app f args =>
    simp only [noAssign, Bool.and_eq_true] at hn
    simp only [evalC] at h
    cases hi : evalArgs fuel self args env caps σ with
    | timeout => simp [hi] at h
    | err k => simp [hi] at h
    | ok x =>
      obtain ⟨env1, σ1⟩ := x
      simp only [hi] at h
      obtain ⟨a1, a2, a3⟩ := ih2 _ _ _ _ _ _ _ hi hn.2 hself henv hcaps hst
      cases hf : evalC fuel self false f env1 caps σ1 with
      | timeout => simp [hf] at h
      | err k => simp [hf] at h
      | ok y =>
        obtain ⟨fv, env2, σ2⟩ := y
        simp only [hf] at h
        obtain ⟨b1, b2, b3, b4⟩ := ih1 _ _ _ _ _ _ _ _ _ hf hn.1 hself a1 hcaps a2
        cases hs : splitLast args.length env2 with
        | none => simp [hs] at h
        | some sp =>
          obtain ⟨envr, argv⟩ := sp
          simp only [hs] at h
          obtain ⟨c1, c2⟩ := splitLast_ok b2 hs
          cases hap : applyWith (fun s => evalC fuel s true) fv argv σ2 with
          | timeout => simp [hap] at h
          | err k => simp [hap] at h
          | ok z =>
            obtain ⟨vo, σ3⟩ := z
            simp only [hap, Res.ok.injEq, Prod.mk.injEq] at h
            obtain ⟨rfl, rfl, rfl⟩ := h
            obtain ⟨d1, d2, d3⟩ := applyWith_stable ps ih1 _ _ _ _ _ hap b1 c2 b3
            exact ⟨d1, c1, d2, (a3.trans b4).trans d3⟩
  | callG g args =>
    simp only [noAssign] at hn
    simp only [evalC] at h
    cases hi : evalArgs fuel self args env caps σ with
    | timeout => simp [hi] at h
    | err k => simp [hi] at h
    | ok x =>
      obtain ⟨env1, σ1⟩ := x
      simp only [hi] at h
      obtain ⟨a1, a2, a3⟩ := ih2 _ _ _ _ _ _ _ hi hn hself henv hcaps hst
      cases hg : lookupG g σ1.globals with
      | none => simp [hg] at h
      | some fv =>
        simp only [hg] at h
        cases hs : splitLast args.length env1 with
        | none => simp [hs] at h
        | some sp =>
          obtain ⟨envr, argv⟩ := sp
          simp only [hs] at h
          obtain ⟨c1, c2⟩ := splitLast_ok a1 hs
          cases hap : applyWith (fun s => evalC fuel s true) fv argv σ1 with
          | timeout => simp [hap] at h
          | err k => simp [hap] at h
          | ok z =>
            obtain ⟨vo, σ3⟩ := z
            simp only [hap, Res.ok.injEq, Prod.mk.injEq] at h
            obtain ⟨rfl, rfl, rfl⟩ := h
            obtain ⟨d1, d2, d3⟩ := applyWith_stable ps ih1 _ _ _ _ _ hap (a2.globs g _ (lookupG_mem' hg)) c2 a2
            exact ⟨d1, c1, d2, a3.trans d3⟩
  | selfTail args =>
    simp only [noAssign] at hn
    simp only [evalC] at h
    cases tail
    · simp at h
    · simp only [if_true] at h
      cases hi : evalArgs fuel self args env caps σ with
      | timeout => simp [hi] at h
      | err k => simp [hi] at h
      | ok x =>
        obtain ⟨env1, σ1⟩ := x
        simp only [hi] at h
        obtain ⟨a1, a2, a3⟩ := ih2 _ _ _ _ _ _ _ hi hn hself henv hcaps hst
        cases self with
        | none => simp at h
        | some sf =>
          obtain ⟨a, rr, body⟩ := sf
          simp only at h
          cases hs : splitLast args.length env1 with
          | none => simp [hs] at h
          | some sp =>
            obtain ⟨envr, argv⟩ := sp
            simp only [hs] at h
            obtain ⟨c1, c2⟩ := splitLast_ok a1 hs
            cases hap : applyWith (fun s => evalC fuel s true) (.clo a rr body caps) argv σ1 with
            | timeout => simp [hap] at h
            | err k => simp [hap] at h
            | ok z =>
              obtain ⟨vo, σ3⟩ := z
              simp only [hap, Res.ok.injEq, Prod.mk.injEq] at h
              obtain ⟨rfl, rfl, rfl⟩ := h
              obtain ⟨d1, d2, d3⟩ := applyWith_stable ps ih1 _ _ _ _ _ hap (.clo _ _ _ _ hself hcaps) c2 a2
              exact ⟨d1, c1, d2, a3.trans d3⟩
  | ite c t e' =>
    simp only [noAssign, Bool.and_eq_true] at hn
    simp only [evalC] at h
    cases hc : evalC fuel self false c env caps σ with
    | timeout => simp [hc] at h
    | err k => simp [hc] at h
    | ok x =>
      obtain ⟨vc, env1, σ1⟩ := x
      simp only [hc] at h
      obtain ⟨a1, a2, a3, a4⟩ := ih1 _ _ _ _ _ _ _ _ _ hc hn.1.1 hself henv hcaps hst
      by_cases ht : truthy vc = true
      · simp only [ht, if_true] at h
        obtain ⟨b1, b2, b3, b4⟩ := ih1 _ _ _ _ _ _ _ _ _ h hn.1.2 hself a2 hcaps a3
        exact ⟨b1, b2, b3, a4.trans b4⟩
      · simp only [ht, if_false] at h
        obtain ⟨b1, b2, b3, b4⟩ := ih1 _ _ _ _ _ _ _ _ _ h hn.2 hself a2 hcaps a3
        exact ⟨b1, b2, b3, a4.trans b4⟩
  | let_ off inits body =>
    simp only [noAssign, Bool.and_eq_true] at hn
    simp only [evalC] at h
    cases hi : evalArgs fuel self inits env caps σ with
    | timeout => simp [hi] at h
    | err k => simp [hi] at h
    | ok x =>
      obtain ⟨env1, σ1⟩ := x
      simp only [hi] at h
      obtain ⟨a1, a2, a3⟩ := ih2 _ _ _ _ _ _ _ hi hn.1 hself henv hcaps hst
      cases hb : evalC fuel self tail body env1 caps σ1 with
      | timeout => simp [hb] at h
      | err k => simp [hb] at h
      | ok y =>
        obtain ⟨vb, env2, σ2⟩ := y
        simp only [hb] at h
        obtain ⟨b1, b2, b3, b4⟩ := ih1 _ _ _ _ _ _ _ _ _ hb hn.2 hself a1 hcaps a2
        by_cases hl : env2.length < off
        · simp [hl] at h
        · simp only [hl, if_false, Res.ok.injEq, Prod.mk.injEq] at h
          obtain ⟨rfl, rfl, rfl⟩ := h
          exact ⟨b1, b2.take _, b3, a3.trans b4⟩
  | seq a b =>
    simp only [noAssign, Bool.and_eq_true] at hn
    simp only [evalC] at h
    cases ha : evalC fuel self false a env caps σ with
    | timeout => simp [ha] at h
    | err k => simp [ha] at h
    | ok x =>
      obtain ⟨va, env1, σ1⟩ := x
      simp only [ha] at h
      obtain ⟨a1, a2, a3, a4⟩ := ih1 _ _ _ _ _ _ _ _ _ ha hn.1 hself henv hcaps hst
      obtain ⟨b1, b2, b3, b4⟩ := ih1 _ _ _ _ _ _ _ _ _ h hn.2 hself a2 hcaps a3
      exact ⟨b1, b2, b3, a4.trans b4⟩
  | setLoc i e' =>
    simp only [noAssign] at hn
    simp only [evalC] at h
    cases he : evalC fuel self false e' env caps σ with
    | timeout => simp [he] at h
    | err k => simp [he] at h
    | ok x =>
      obtain ⟨ve, env1, σ1⟩ := x
      simp only [he] at h
      obtain ⟨a1, a2, a3, a4⟩ := ih1 _ _ _ _ _ _ _ _ _ he hn hself henv hcaps hst
      cases ho : env1[i]? with
      | none => simp [ho] at h
      | some old =>
        simp only [ho, Res.ok.injEq, Prod.mk.injEq] at h
        obtain ⟨rfl, rfl, rfl⟩ := h
        exact ⟨a2.get ho, a2.set i a1, a3, a4⟩
  | boxop op args =>
    simp only [noAssign] at hn
    simp only [evalC] at h
    cases hi : evalArgs fuel self args env caps σ with
    | timeout => simp [hi] at h
    | err k => simp [hi] at h
    | ok x =>
      obtain ⟨env1, σ1⟩ := x
      simp only [hi] at h
      obtain ⟨a1, a2, a3⟩ := ih2 _ _ _ _ _ _ _ hi hn hself henv hcaps hst
      cases hs : splitLast op.arity env1 with
      | none => simp [hs] at h
      | some sp =>
        obtain ⟨envr, argv⟩ := sp
        simp only [hs] at h
        obtain ⟨c1, c2⟩ := splitLast_ok a1 hs
        cases hap : op.apply argv σ1 with
        | timeout => simp [hap] at h
        | err k => simp [hap] at h
        | ok z =>
          obtain ⟨vo, σ2⟩ := z
          simp only [hap, Res.ok.injEq, Prod.mk.injEq] at h
          obtain ⟨rfl, rfl, rfl⟩ := h
          obtain ⟨d1, d2, d3⟩ := boxop_ok c2 a2.store hap
          refine ⟨d1, c1, ⟨d2, by rw [d3]; exact a2.globs⟩, a3.trans ?_⟩
          intro g _; rw [d3]
  | define g e' =>
    simp only [noAssign, Bool.and_eq_true, Bool.not_eq_true'] at hn
    simp only [evalC] at h
    cases he : evalC fuel self false e' env caps σ with
    | timeout => simp [he] at h
    | err k => simp [he] at h
    | ok x =>
      obtain ⟨ve, env1, σ1⟩ := x
      simp only [he, Res.ok.injEq, Prod.mk.injEq] at h
      obtain ⟨rfl, rfl, rfl⟩ := h
      obtain ⟨a1, a2, a3, a4⟩ := ih1 _ _ _ _ _ _ _ _ _ he hn.2 hself henv hcaps hst
      obtain ⟨b1, b2⟩ := okSt_bind a3 g ve a1 hn.1
      exact ⟨.void, a2, b1, a4.trans b2⟩
  | setGlob g e' =>
    simp only [noAssign, Bool.and_eq_true, Bool.not_eq_true'] at hn
    simp only [evalC] at h
    cases he : evalC fuel self false e' env caps σ with
    | timeout => simp [he] at h
    | err k => simp [he] at h
    | ok x =>
      obtain ⟨ve, env1, σ1⟩ := x
      simp only [he] at h
      obtain ⟨a1, a2, a3, a4⟩ := ih1 _ _ _ _ _ _ _ _ _ he hn.2 hself henv hcaps hst
      cases ho : lookupG g σ1.globals with
      | none => simp [ho] at h
      | some old =>
        simp only [ho, Res.ok.injEq, Prod.mk.injEq] at h
        obtain ⟨rfl, rfl, rfl⟩ := h
        obtain ⟨b1, b2⟩ := okSt_bind a3 g ve a1 hn.1
        exact ⟨a3.globs g _ (lookupG_mem' ho), a2, b1, a4.trans b2⟩

theorem stable_all : ∀ fuel, S1 ps fuel ∧ S2 ps fuel := by
  intro fuel
  induction fuel with
  | zero =>
    constructor
    · intro self tail e env caps σ v env' σ' h; simp [evalC] at h
    · intro self args env caps σ env1 σ1 h; simp [evalArgs] at h
  | succ fuel ih => exact ⟨stable_expr ps fuel ih.1 ih.2, stable_args ps fuel ih.1 ih.2⟩

end SteelVerif.C02C
