/-
C02 on the core with closures — observables: what a value looks like from outside (procedures and boxes are opaque).
The value correspondence of every pass (`V.map pass`) leaves the observable unchanged.
-/
import SteelVerif.C02.CorePassInline2
namespace SteelVerif.C02C
open SteelVerif.C01C

inductive Obs where
  | int (n : Int)
  | bool (b : Bool)
  | void
  | box
  | proc
  | list (xs : List Obs)
deriving Repr

mutual
def obs {α : Type} : V α → Obs
  | .int n => .int n
  | .bool b => .bool b
  | .void => .void
  | .box _ => .box
  | .prim _ => .proc
  | .list xs => .list (obsL xs)
  | .clo _ _ _ _ => .proc
def obsL {α : Type} : List (V α) → List Obs
  | [] => []
  | x :: xs => obs x :: obsL xs
end

mutual
theorem obs_map {α β : Type} (f : α → β) : ∀ v : V α, obs (V.map f v) = obs v
  | .int n => by simp [V.map, obs]
  | .bool b => by simp [V.map, obs]
  | .void => by simp [V.map, obs]
  | .box a => by simp [V.map, obs]
  | .prim p => by simp [V.map, obs]
  | .list xs => by simp [V.map, obs, obsL_map f xs]
  | .clo a r c caps => by simp [V.map, obs]
theorem obsL_map {α β : Type} (f : α → β) : ∀ xs : List (V α), obsL (V.mapL f xs) = obsL xs
  | [] => by simp [V.mapL, obsL]
  | x :: xs => by simp [V.mapL, obsL, obs_map f x, obsL_map f xs]
end

theorem obsL_map' {α β : Type} (f : α → β) (xs : List (V α)) : obsL (xs.map (V.map f)) = obsL xs := by
  rw [← mapL_eq]; exact obsL_map f xs

theorem obsL_append {α : Type} (a b : List (V α)) : obsL (a ++ b) = obsL a ++ obsL b := by
  induction a with
  | nil => simp [obsL]
  | cons x xs ih => simp [obsL, ih]

/-- The observable outcome of a unit: the observables of the values of its forms, or the error kind. -/
def obsProg (r : Res (List Val × St Core)) : Res (List Obs) := r.map (fun p => obsL p.1)

end SteelVerif.C02C
