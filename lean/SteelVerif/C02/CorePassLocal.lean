/-
C02 on the core with closures — two state-independent local rewrites, proved locally sound, hence (by `deep_all`) sound
when applied everywhere, inside lambda bodies too:
 * `rwDbe`    `(if <constant> a b)` → `a` / `b`                    (dead-branch elimination)
 * `rwSeq`    `(begin <constant | variable read without move | lambda> b)` → `b`   (dead pure statement)
-/
import SteelVerif.C02.CoreDeep2
namespace SteelVerif.C02C
open SteelVerif.C01C

def rwDbe : Core → Core
  | .ite c t e =>
      match constTest c with
      | some true => t
      | some false => e
      | none => .ite c t e
  | x => x

theorem rwDbe_sound : LocalSound rwDbe := by
  intro fuel self tail e env caps σ r h hr
  cases e <;> try exact h
  rename_i c t e'
  simp only [rwDbe]
  cases hct : constTest c with
  | none => simpa [hct] using h
  | some b =>
    cases c <;> simp [constTest] at hct
    rename_i k
    cases fuel with
    | zero => simp [evalC] at h; exact absurd h.symm hr
    | succ f =>
      simp only [evalC] at h
      cases f with
      | zero => simp [evalC] at h; exact absurd h.symm hr
      | succ f' =>
        simp only [evalC] at h
        cases b
        · have hk : truthy (k.toV : Val) = false := by simpa using hct
          simp only [hk, Bool.false_eq_true, if_false] at h
          exact (mono_all (f' + 1)).1 _ _ _ _ _ _ _ h hr
        · have hk : truthy (k.toV : Val) = true := by simpa using hct
          simp only [hk, if_true] at h
          exact (mono_all (f' + 1)).1 _ _ _ _ _ _ _ h hr

/-- Expressions whose evaluation has no effect and cannot fail or diverge (given one unit of fuel). -/
def pureStmt : Core → Bool
  | .const _ => true
  | _ => false

def rwSeq : Core → Core
  | .seq a b => if pureStmt a then b else .seq a b
  | x => x

theorem rwSeq_sound : LocalSound rwSeq := by
  intro fuel self tail e env caps σ r h hr
  cases e <;> try exact h
  rename_i a b
  simp only [rwSeq]
  by_cases hp : pureStmt a = true
  · simp only [hp, if_true]
    cases a <;> simp [pureStmt] at hp
    cases fuel with
    | zero => simp [evalC] at h; exact absurd h.symm hr
    | succ f =>
      simp only [evalC] at h
      cases f with
      | zero => simp [evalC] at h; exact absurd h.symm hr
      | succ f' =>
        simp only [evalC] at h
        exact (mono_all (f' + 1)).1 _ _ _ _ _ _ _ h hr
  · simpa [hp] using h

theorem LocalSound.comp {f g : Core → Core} (hf : LocalSound f) (hg : LocalSound g) : LocalSound (fun e => g (f e)) :=
  fun fuel self tail e env caps σ r h hr => hg _ _ _ _ _ _ _ _ (hf _ _ _ _ _ _ _ _ h hr) hr

/-- Both rewrites at every node. -/
def rwSimpl : Core → Core := fun e => rwSeq (rwDbe e)
theorem rwSimpl_sound : LocalSound rwSimpl := rwDbe_sound.comp rwSeq_sound

/-- The pass: dead branches and dead constant statements removed everywhere, to any nesting of lambdas. -/
def simplify : Core → Core := deep rwSimpl

end SteelVerif.C02C
