import SteelVerif.C02.Props
open SteelVerif.C02
#print axioms switches_covered
#print axioms switch_tests_recognised
#print axioms quick_pairwise
#print axioms thorough_complete
