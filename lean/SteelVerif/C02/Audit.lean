import SteelVerif.C02.Props
open SteelVerif.C02
#print axioms inline_preserves
#print axioms inline_prog_preserves
#print axioms inline_twice_preserves
#print axioms fold_preserves
#print axioms inline_then_fold_preserves
#print axioms inline_needs_arity_check
#print axioms tier_transparent_partial
#print axioms tier_hypothesis_needed
#print axioms tier_hypothesis_needed_error
#print axioms inline_history_partial
#print axioms witness_outside_guard
#print axioms inline_history_false
#print axioms switches_covered
#print axioms switch_tests_recognised
#print axioms quick_pairwise
#print axioms thorough_complete
#print axioms SteelVerif.C02C.evalC_fuel_monotone
#print axioms SteelVerif.C02C.dbe_preserves
#print axioms SteelVerif.C02C.dbe_preserves_in_context
#print axioms SteelVerif.C02C.dbe_outcomes_agree
#print axioms SteelVerif.C02C.dbe_then_compile_correct
#print axioms SteelVerif.C02C.dbe_then_compile_errors
