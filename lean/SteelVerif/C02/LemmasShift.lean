/-
C02 — evaluation of a shifted expression under a frame prefix, and of nested lets.
-/
import SteelVerif.C02.LemmasEval
namespace SteelVerif.C02
open SteelVerif.C01

variable (T : List FnDef)

theorem shiftArgs_length (k : Nat) : ∀ args : List IR, (shiftArgs k args).length = args.length := by
  intro args
  induction args with
  | nil => simp [shiftArgs]
  | cons a r ih => simp [shiftArgs, ih]

theorem getLast?_prefix (p s : List Val) (h : s ≠ []) : (p ++ s).getLast? = s.getLast? := by
  obtain ⟨init, x, rfl⟩ : ∃ init x, s = init ++ [x] := by
    rcases List.eq_nil_or_concat s with h1 | ⟨init, x, h1⟩
    · exact absurd h1 h
    · exact ⟨init, x, by simpa [List.concat_eq_append] using h1⟩
  rw [← List.append_assoc]; simp

theorem dropLast_take_le (l : List Val) (n : Nat) (h : n ≤ l.length) : (l.take n).dropLast = l.take (n - 1) := by
  rw [List.dropLast_eq_take, List.take_take, List.length_take]
  congr 1; omega

theorem ne_nil_of_length_pos {l : List Val} (h : 0 < l.length) : l ≠ [] := by
  intro h1; subst h1; simp at h

/-- **Evaluation in a bigger frame**: an expression moved `p.length` slots up behaves on `p ++ t` exactly as
the original on `t`, and leaves `p` alone. -/
theorem shift_eval : ∀ (b : IR) (F : Nat) (p t : List Val),
    evalIR T F (shift p.length b) (p ++ t) = (evalIR T F b t).map (fun r => (r.1, p ++ r.2)) := by
  intro b
  induction b using size.induct
    (motive_2 := fun args => ∀ (F : Nat) (p t : List Val),
      evalArgs T F (shiftArgs p.length args) (p ++ t) = (evalArgs T F args t).map (fun s1 => p ++ s1)) with
  | case1 v => intro F p t; simp [shift, evalIR_const]
  | case2 i =>
    intro F p t
    simp only [shift, evalIR_loc]
    rw [List.getElem?_append_right (by omega)]
    simp only [Nat.add_sub_cancel]
    cases t[i]? <;> rfl
  | case3 op a b iha ihb =>
    intro F p t
    simp only [shift]
    rw [evalIR_prim, evalIR_prim, iha]
    cases ha : evalIR T F a t with
    | none => rfl
    | some q =>
      obtain ⟨va, s1⟩ := q
      simp only [Option.map_some, Option.bind_some]
      rw [List.append_assoc, ihb]
      cases hb : evalIR T F b (s1 ++ [va]) with
      | none => rfl
      | some q2 =>
        obtain ⟨vb, s2⟩ := q2
        simp only [Option.map_some, Option.bind_some]
        have hl := eval_preserves_height T F b _ _ _ hb
        have hne : s2 ≠ [] := ne_nil_of_length_pos (by simp at hl; omega)
        rw [getLast?_prefix p s2 hne, List.dropLast_append_of_ne_nil hne]
        cases s2.getLast? with
        | none => rfl
        | some va' =>
          simp only [Option.bind_some]
          cases op.apply va' vb <;> rfl
  | case4 c t' e ihc iht ihe =>
    intro F p t
    simp only [shift]
    rw [evalIR_ite, evalIR_ite, ihc]
    cases hc : evalIR T F c t with
    | none => rfl
    | some q =>
      obtain ⟨vc, s1⟩ := q
      simp only [Option.map_some, Option.bind_some]
      split
      · exact iht F p s1
      · exact ihe F p s1
  | case5 e b ihe ihb =>
    intro F p t
    simp only [shift]
    rw [evalIR_let1, evalIR_let1, ihe]
    cases he : evalIR T F e t with
    | none => rfl
    | some q =>
      obtain ⟨ve, s1⟩ := q
      simp only [Option.map_some, Option.bind_some]
      rw [List.append_assoc, ihb]
      cases hb : evalIR T F b (s1 ++ [ve]) with
      | none => rfl
      | some q2 =>
        obtain ⟨vb, s2⟩ := q2
        simp only [Option.map_some]
        have hl := eval_preserves_height T F b _ _ _ hb
        have hne : s2 ≠ [] := ne_nil_of_length_pos (by simp at hl; omega)
        rw [List.dropLast_append_of_ne_nil hne]
  | case6 a b iha ihb =>
    intro F p t
    simp only [shift]
    rw [evalIR_seq, evalIR_seq, iha]
    cases ha : evalIR T F a t with
    | none => rfl
    | some q =>
      obtain ⟨va, s1⟩ := q
      simp only [Option.map_some, Option.bind_some]
      exact ihb F p s1
  | case7 i e ihe =>
    intro F p t
    simp only [shift]
    rw [evalIR_setLoc, evalIR_setLoc, ihe]
    cases he : evalIR T F e t with
    | none => rfl
    | some q =>
      obtain ⟨v, s1⟩ := q
      simp only [Option.map_some, Option.bind_some]
      rw [List.getElem?_append_right (by omega)]
      simp only [Nat.add_sub_cancel]
      cases s1[i]? with
      | none => rfl
      | some old =>
        simp only [Option.map_some]
        rw [List.set_append_right _ _ (by omega)]
        simp only [Nat.add_sub_cancel]
  | case8 f args ihargs =>
    intro F p t
    simp only [shift]
    cases F with
    | zero => simp [evalIR_call_zero]
    | succ F0 =>
      rw [evalIR_call_succ, evalIR_call_succ, ihargs, shiftArgs_length]
      cases ha : evalArgs T (F0 + 1) args t with
      | none => rfl
      | some s1 =>
        simp only [Option.map_some, Option.bind_some]
        have hl := evalArgs_length T (F0 + 1) args t s1 ha
        cases T[f]? with
        | none => rfl
        | some fd =>
          simp only [Option.bind_some]
          have c1 : ¬ (p ++ s1).length < args.length := by simp; omega
          have c2 : ¬ s1.length < args.length := by omega
          by_cases har : fd.arity ≠ args.length
          · simp [har]
          · have e1 : ¬ (fd.arity ≠ args.length ∨ (p ++ s1).length < args.length) := by
              intro h; rcases h with h | h
              · exact har h
              · exact c1 h
            have e2 : ¬ (fd.arity ≠ args.length ∨ s1.length < args.length) := by
              intro h; rcases h with h | h
              · exact har h
              · exact c2 h
            rw [if_neg e1, if_neg e2]
            have hk : (p ++ s1).length - args.length = p.length + (s1.length - args.length) := by
              simp only [List.length_append]; omega
            have hd : (p ++ s1).drop ((p ++ s1).length - args.length) = s1.drop (s1.length - args.length) := by
              rw [hk, List.drop_length_add_append]
            have ht : (p ++ s1).take ((p ++ s1).length - args.length) = p ++ s1.take (s1.length - args.length) := by
              rw [hk, List.take_length_add_append]
            rw [hd, ht]
            cases evalIR T F0 fd.body (s1.drop (s1.length - args.length)) <;> rfl
  | case9 => rename_i F p t; simp [shiftArgs, evalArgs_nil]
  | case10 a r iha ihr =>
    rename_i F p t
    simp only [shiftArgs]
    rw [evalArgs_cons, evalArgs_cons, iha]
    cases ha : evalIR T F a t with
    | none => rfl
    | some q =>
      obtain ⟨v, s1⟩ := q
      simp only [Option.map_some, Option.bind_some]
      rw [List.append_assoc]
      exact ihr F p (s1 ++ [v])

/-- `((lambda (x₁ … xₙ) body) a₁ … aₙ)` as nested lets: the operands as `evalArgs` evaluates them, then the
body on top, then the `n` slots are dropped. -/
theorem bindArgs_eval (F : Nat) (body : IR) : ∀ (as : List IR) (s : List Val),
    evalIR T F (bindArgs as body) s =
      (evalArgs T F as s).bind fun s1 => (evalIR T F body s1).map fun r => (r.1, r.2.take (r.2.length - as.length)) := by
  intro as
  induction as with
  | nil =>
    intro s
    simp only [bindArgs, evalArgs_nil, Option.bind_some, List.length_nil, Nat.sub_zero, List.take_length]
    cases evalIR T F body s <;> rfl
  | cons a r ih =>
    intro s
    simp only [bindArgs]
    rw [evalIR_let1, evalArgs_cons]
    cases ha : evalIR T F a s with
    | none => rfl
    | some p =>
      obtain ⟨va, s1⟩ := p
      simp only [Option.bind_some]
      rw [ih]
      cases evalArgs T F r (s1 ++ [va]) with
      | none => rfl
      | some s2 =>
        simp only [Option.bind_some]
        cases evalIR T F body s2 with
        | none => rfl
        | some q =>
          obtain ⟨vb, s3⟩ := q
          simp only [Option.map_some, List.length_cons]
          rw [dropLast_take_le _ _ (by omega)]
          congr 3

end SteelVerif.C02
