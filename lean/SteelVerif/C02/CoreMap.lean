/-
C02 on the core with closures — the value correspondence of an optimisation pass: `V.map f` rewrites the body of every
closure inside a value with the pass `f`; it commutes with everything the reference semantics does with values.
(Generic versions of the `toV` lemmas of C01.)
-/
import SteelVerif.C02.CorePassDbe
namespace SteelVerif.C02C
open SteelVerif.C01C

section
variable {α β : Type} (f : α → β)

@[simp] theorem map_int (n : Int) : V.map f (.int n) = .int n := by simp [V.map]
@[simp] theorem map_bool (b : Bool) : V.map f (.bool b) = .bool b := by simp [V.map]
@[simp] theorem map_void : V.map f (.void : V α) = .void := by simp [V.map]
@[simp] theorem map_box (a : Nat) : V.map f (.box a) = .box a := by simp [V.map]
@[simp] theorem map_prim (p : Prim) : V.map f (.prim p) = .prim p := by simp [V.map]
@[simp] theorem map_list (xs : List (V α)) : V.map f (.list xs) = .list (xs.map (V.map f)) := by
  simp [V.map, mapL_eq]
@[simp] theorem map_clo (a : Nat) (r : Bool) (b : α) (cs : List (V α)) :
    V.map f (.clo a r b cs) = .clo a r (f b) (cs.map (V.map f)) := by
  simp [V.map, mapL_eq]
@[simp] theorem map_const (c : Const) : V.map f (c.toV : V α) = c.toV := by cases c <;> simp [Const.toV]
@[simp] theorem truthy_map (v : V α) : truthy (V.map f v) = truthy v := by
  cases v <;> simp [truthy]
  rename_i b; cases b <;> simp [truthy]

/-- The state under the pass. -/
def mapSt (σ : St α) : St β :=
  { store := σ.store.map (V.map f), globals := σ.globals.map (fun p => (p.1, V.map f p.2)) }

@[simp] theorem mapSt_store (σ : St α) : (mapSt f σ).store = σ.store.map (V.map f) := rfl
@[simp] theorem mapSt_globals (σ : St α) : (mapSt f σ).globals = σ.globals.map (fun p => (p.1, V.map f p.2)) := rfl

theorem lookupG_mapG (g : Nat) (gs : List (Nat × V α)) :
    lookupG g (gs.map (fun p => (p.1, V.map f p.2))) = (lookupG g gs).map (V.map f) := by
  induction gs with
  | nil => simp [lookupG]
  | cons p gs ih =>
    obtain ⟨k, v⟩ := p
    by_cases hk : k = g <;> simp [lookupG, hk, ih]

theorem prim_apply_mapG (p : Prim) (args : List (V α)) :
    p.apply (args.map (V.map f)) = (p.apply args).map (V.map f) := by
  rcases args with _ | ⟨x, _ | ⟨y, _ | ⟨z, t⟩⟩⟩
  · simp [Prim.apply, Res.map]
  · simp [Prim.apply, Res.map]
  · cases x <;> cases y <;> simp [Prim.apply, Res.map] <;> cases p <;> simp
  · simp [Prim.apply, Res.map]

theorem bindArgs_mapG (a : Nat) (r : Bool) (args : List (V α)) :
    bindArgs a r (args.map (V.map f)) = (bindArgs a r args).map (List.map (V.map f)) := by
  unfold bindArgs
  cases r <;> simp [Res.map]
  · split <;> simp
  · split <;> simp [List.map_take, List.map_drop]

theorem boxop_apply_mapG (op : BoxOp) (args : List (V α)) (σ : St α) :
    op.apply (args.map (V.map f)) (mapSt f σ) = (op.apply args σ).map (fun r => (V.map f r.1, mapSt f r.2)) := by
  rcases args with _ | ⟨x, _ | ⟨y, _ | ⟨z, t⟩⟩⟩
  · cases op <;> simp [BoxOp.apply, Res.map]
  · cases op
    · simp [BoxOp.apply, Res.map, mapSt]
    · cases x <;> simp [BoxOp.apply, Res.map]
      rename_i a
      cases h : σ.store[a]? <;> simp [h]
    · simp [BoxOp.apply, Res.map]
  · cases op
    · simp [BoxOp.apply, Res.map]
    · simp [BoxOp.apply, Res.map]
    · cases x <;> simp [BoxOp.apply, Res.map]
      rename_i a
      cases h : σ.store[a]? <;> simp [h, mapSt, List.map_set]
  · cases op <;> simp [BoxOp.apply, Res.map]

theorem splitLast_mapG {γ δ : Type} (g : γ → δ) (n : Nat) (l : List γ) :
    splitLast n (l.map g) = (splitLast n l).map (fun p => (p.1.map g, p.2.map g)) := by
  unfold splitLast
  by_cases h : l.length < n <;> simp [h, List.map_take, List.map_drop]

theorem capture_mapG (env caps : List (V α)) (cs : List CapSrc) :
    capture (env.map (V.map f)) (caps.map (V.map f)) cs = (capture env caps cs).map (List.map (V.map f)) := by
  induction cs with
  | nil => simp [capture]
  | cons c cs ih =>
    cases c with
    | stack i =>
      simp only [capture, ih, List.getElem?_map]
      cases env[i]? <;> cases capture env caps cs <;> simp
    | closure i =>
      simp only [capture, ih, List.getElem?_map]
      cases caps[i]? <;> cases capture env caps cs <;> simp

end

end SteelVerif.C02C
